package c19

// C19 — EVM log and tx indices are unique and gap-free within a block.
//
// A case is a list of blocks, a block a list of ops delivered through the real
// BeginBlock / DeliverTx / EndBlock / Commit:
//
//	eth      MsgEthereumTx calling the log-emitter contract (k logs; optional revert;
//	         optional failure: "nonce" = rejected by the ante handler, "gas" = gas
//	         limit below intrinsic gas, fails in the msg server)
//	eth2     one Cosmos tx carrying TWO MsgEthereumTx (nonces n, n+1) with k and k2 logs
//	create   Cosmos tx MsgCreateFunToken{from bank denom} (deploys an ERC20)
//	convert  Cosmos tx MsgConvertCoinToEvm for a coin-born FunToken (mints ERC20)
//	s2b      MsgEthereumTx calling the FunToken precompile sendToBank for an ERC20-born FunToken
//	         (ERC20 Transfer log + the precompile's mirrored ABCI-event logs)
//	conv20   Cosmos tx MsgConvertCoinToEvm for the ERC20-born FunToken (releases escrowed ERC20)
//
// A block may also carry governance proposals that come due in it ("gov": list of proposals, a proposal = list of
// FunToken messages whose sender is the gov module account: create / convert / conv20, optionally made to fail).
// They are submitted, deposited and voted (keeper level) in a set-up block committed just before, so that their
// voting period ends in the observed block and x/gov's EndBlocker executes them there — EVM logs emitted OUTSIDE
// DeliverTx.  Logs found in the BeginBlock response are recorded as well.
//
// Observables per op: tx code, the index attribute of every EventEthereumTx, and
// (log index, log tx index) of every log of every EventTxLog; per block: whether
// the EventBlockBloom equals the union of the blooms of exactly those logs; per proposal: its result and the
// (log index, tx index) of the logs its events carried in the EndBlock response; per EventBlockBloom: how many logs of
// the block had been emitted before it.

import (
	"encoding/hex"
	"encoding/json"
	"fmt"
	"math/big"
	"sort"
	"strconv"
	"strings"
	"testing"
	"time"

	sdkmath "cosmossdk.io/math"
	abci "github.com/cometbft/cometbft/abci/types"
	"github.com/cosmos/cosmos-sdk/crypto/keys/secp256k1"
	sdk "github.com/cosmos/cosmos-sdk/types"
	bank "github.com/cosmos/cosmos-sdk/x/bank/types"
	govtypes "github.com/cosmos/cosmos-sdk/x/gov/types"
	govv1 "github.com/cosmos/cosmos-sdk/x/gov/types/v1"
	gethcommon "github.com/ethereum/go-ethereum/common"
	gethcore "github.com/ethereum/go-ethereum/core/types"
	"github.com/ethereum/go-ethereum/crypto"

	. "verifharness/hx"

	"github.com/NibiruChain/nibiru/v2/eth"
	"github.com/NibiruChain/nibiru/v2/x/common/testutil/testapp"
	"github.com/NibiruChain/nibiru/v2/x/evm"
	"github.com/NibiruChain/nibiru/v2/x/evm/embeds"
	"github.com/NibiruChain/nibiru/v2/x/evm/evmtest"
	"github.com/NibiruChain/nibiru/v2/x/evm/precompile"
)

type c19Op struct {
	Kind   string `json:"kind"`   // eth | create | convert
	K      int    `json:"k"`      // eth: number of logs requested
	Revert bool   `json:"revert"` // eth: REVERT after emitting
	Fail   string `json:"fail"`   // eth: "" | nonce | gas
	Sender int    `json:"sender"` // eth: which funded account
	K2     int    `json:"k2"`     // eth2: logs of the second message
	Inner  int    `json:"inner"`  // eth: logs emitted by an inner call frame that reverts (failure ignored) before the k logs
}

// c19Msg is one message of a governance proposal (sender = gov module account).
type c19Msg struct {
	Kind   string `json:"kind"`   // create | convert | conv20
	Fail   bool   `json:"fail"`   // create: bank denom without metadata; convert / conv20: more than the gov account holds
	Sender int    `json:"sender"` // convert / conv20: recipient account; convert: which coin-born FunToken
}

// c19Block: the ops delivered in the block and the proposals that come due in it.  The JSON form of a block without
// proposals is the plain list of ops (the shape every earlier corpus / replay file has).
type c19Block struct {
	Ops []c19Op
	Gov [][]c19Msg
}

func (b c19Block) MarshalJSON() ([]byte, error) {
	ops := b.Ops
	if ops == nil {
		ops = []c19Op{}
	}
	if len(b.Gov) == 0 {
		return json.Marshal(ops)
	}
	return json.Marshal(struct {
		Ops []c19Op    `json:"ops"`
		Gov [][]c19Msg `json:"gov"`
	}{ops, b.Gov})
}

func (b *c19Block) UnmarshalJSON(raw []byte) error {
	if len(raw) > 0 && raw[0] == '[' {
		b.Gov = nil
		return json.Unmarshal(raw, &b.Ops)
	}
	var x struct {
		Ops []c19Op    `json:"ops"`
		Gov [][]c19Msg `json:"gov"`
	}
	if err := json.Unmarshal(raw, &x); err != nil {
		return err
	}
	b.Ops, b.Gov = x.Ops, x.Gov
	return nil
}

type c19PropObs struct {
	Result string   `json:"result"` // passed | failed | rejected | none (no active_proposal event for it in this block)
	Logs   [][2]int `json:"logs"`   // logs of the EventTxLog events the proposal's messages published, in order
}

type c19OpObs struct {
	Code  uint32   `json:"code"`
	TxIdx []int    `json:"txidx"` // EventEthereumTx.index values
	Pend  []int    `json:"pend"`  // pending_ethereum_tx index values (ante)
	Logs  [][2]int `json:"logs"`  // (log index, log tx_index) in emission order
}

type c19BlockObs struct {
	Begin   [][2]int     `json:"begin"` // logs carried by the BeginBlock response
	Ops     []c19OpObs   `json:"ops"`
	Gov     []c19PropObs `json:"gov"`
	Stray   [][2]int     `json:"stray"` // logs of the EndBlock response that belong to no proposal of the input
	Pubs    []int        `json:"pubs"`  // per EventBlockBloom: number of logs of the block emitted before it
	BloomOK bool         `json:"bloom_ok"`
	NLogs   int          `json:"nlogs"`
}

// runtime: m := calldata[64]; if m != 0 { CALL self with (m, 1, 0) — an inner frame that emits m logs and
// reverts; the failure is ignored }; n := calldata[0]; n times LOG1(topic=counter); if calldata[32] != 0 REVERT
var c19Runtime = mustHex("6040358015602457806000526001602052600060405260006000606060006000305af1505b506000355b8015603c578060006000a1600190036029565b50602035604557005b60006000fd")
var c19Init = append(mustHex("604b600c600039604b6000f3"), c19Runtime...)

func mustHex(s string) []byte {
	b, err := hex.DecodeString(s)
	if err != nil {
		panic(err)
	}
	return b
}

type c19World struct {
	c        *Chain
	accs     []evmtest.EthPrivKeyAcc
	cosmos   *secp256k1.PrivKey
	emitter  gethcommon.Address
	erc20    gethcommon.Address // TestERC20 owned by accs[0], mapped to bank denom erc20/<addr>
	denoms   []string // coin-born funtokens created so far
	nextCoin int
	blocks   int
}

func newC19World(t *testing.T) *c19World {
	w := &c19World{c: NewChain(nil)}
	c := w.c
	c.BeginBlock(5 * time.Second)
	for i := 0; i < 3; i++ {
		a := evmtest.NewEthPrivAcc()
		w.accs = append(w.accs, a)
		if err := c.Fund(a.NibiruAddr, Unibi(1e15)); err != nil {
			t.Fatal(err)
		}
	}
	w.cosmos = secp256k1.GenPrivKey()
	caddr := sdk.AccAddress(w.cosmos.PubKey().Address())
	coins := Unibi(1e15)
	for i := 0; i < 70; i++ {
		d := fmt.Sprintf("ucoin%d", i)
		coins = coins.Add(sdk.NewCoin(d, sdkmath.NewInt(1_000_000)))
		c.App.BankKeeper.SetDenomMetaData(c.Ctx(), bank.Metadata{
			DenomUnits: []*bank.DenomUnit{{Denom: d, Exponent: 0}}, Base: d, Display: d, Name: d, Symbol: strings.ToUpper(d),
		})
	}
	if err := c.Fund(caddr, coins); err != nil {
		t.Fatal(err)
	}
	// deploy the emitter
	msg, err := c.SignEth(w.accs[0], &evm.EvmTxArgs{Nonce: 0, GasLimit: 500_000, GasPrice: big.NewInt(1_000_000_000_000), Input: c19Init})
	if err != nil {
		t.Fatal(err)
	}
	r := c.DeliverEth(msg)
	if r.Code != 0 {
		t.Fatalf("deploy emitter: %s", r.Log)
	}
	w.emitter = crypto.CreateAddress(w.accs[0].EthAddr, 0)
	// deploy TestERC20 (accs[0] owns the supply) and map it to a bank denom
	msg, err = c.SignEth(w.accs[0], &evm.EvmTxArgs{Nonce: 1, GasLimit: 3_000_000, GasPrice: big.NewInt(1_000_000_000_000), Input: embeds.SmartContract_TestERC20.Bytecode})
	if err != nil {
		t.Fatal(err)
	}
	if r := c.DeliverEth(msg); r.Code != 0 {
		t.Fatalf("deploy TestERC20: %s", r.Log)
	}
	w.erc20 = crypto.CreateAddress(w.accs[0].EthAddr, 1)
	erc := eth.EIP55Addr{Address: w.erc20}
	if r := c.DeliverCosmos(w.cosmos, 5_000_000, Unibi(1_000_000), &evm.MsgCreateFunToken{FromErc20: &erc, Sender: caddr.String()}); r.Code != 0 {
		t.Fatalf("create funtoken from erc20: %s", r.Log)
	}
	c.EndBlock()
	return w
}

func (w *c19World) nonce(i int) uint64 {
	acc := w.c.App.AccountKeeper.GetAccount(w.c.Ctx(), w.accs[i].NibiruAddr)
	if acc == nil {
		return 0
	}
	return acc.GetSequence()
}

func parseOpObs(r abci.ResponseDeliverTx) (c19OpObs, []*gethcore.Log) {
	o := c19OpObs{Code: r.Code, TxIdx: []int{}, Pend: []int{}, Logs: [][2]int{}}
	var glogs []*gethcore.Log
	for _, a := range EventAttrs(r.Events, "eth.evm.v1.EventEthereumTx") {
		n, _ := strconv.Atoi(strings.Trim(a["index"], `"`))
		o.TxIdx = append(o.TxIdx, n)
	}
	for _, a := range EventAttrs(r.Events, evm.PendingEthereumTxEvent) {
		n, _ := strconv.Atoi(a[evm.PendingEthereumTxEventAttrIndex])
		o.Pend = append(o.Pend, n)
	}
	for _, a := range EventAttrs(r.Events, "eth.evm.v1.EventTxLog") {
		for _, l := range parseTxLogAttr(a["logs"]) {
			o.Logs = append(o.Logs, [2]int{int(l.Index), int(l.TxIndex)})
			ll := l
			glogs = append(glogs, (&ll).ToEthereum())
		}
	}
	return o, glogs
}

// parseTxLogAttr parses the "logs" attribute of one EventTxLog.
func parseTxLogAttr(raw string) []evm.Log {
	{
		var logs []evm.Log
		if raw == "" || raw == "null" {
			return nil
		}
		// typed-event attribute: JSON array of Log objects (proto JSON: uint64 as strings)
		var arr []map[string]interface{}
		if err := json.Unmarshal([]byte(raw), &arr); err != nil {
			panic("EventTxLog parse: " + err.Error() + " " + raw)
		}
		for _, m := range arr {
			l := evm.Log{}
			l.Address, _ = m["address"].(string)
			if ts, ok := m["topics"].([]interface{}); ok {
				for _, x := range ts {
					l.Topics = append(l.Topics, x.(string))
				}
			}
			l.Index = anyU64(m["logIndex"], m["index"])
			l.TxIndex = anyU64(m["transactionIndex"], m["tx_index"], m["txIndex"])
			logs = append(logs, l)
		}
		return logs
	}
}

// logsOfEvents: (log index, tx index) and the geth form of every log of every EventTxLog in events.
func logsOfEvents(events []abci.Event) ([][2]int, []*gethcore.Log) {
	out := [][2]int{}
	var glogs []*gethcore.Log
	for _, a := range EventAttrs(events, "eth.evm.v1.EventTxLog") {
		for _, l := range parseTxLogAttr(a["logs"]) {
			out = append(out, [2]int{int(l.Index), int(l.TxIndex)})
			ll := l
			glogs = append(glogs, (&ll).ToEthereum())
		}
	}
	return out, glogs
}

// submitProposals runs a set-up block in which the proposals are submitted, fully deposited and voted yes by the
// genesis validator (keeper level), and returns their ids and the time step after which their voting period is over.
func (w *c19World) submitProposals(props [][]c19Msg) ([]uint64, [][]string, time.Duration) {
	c := w.c
	c.BeginBlock(5 * time.Second)
	w.blocks++
	ctx := c.Ctx()
	gk := c.App.GovKeeper
	govAddr := c.App.AccountKeeper.GetModuleAddress(govtypes.ModuleName)
	caddr := sdk.AccAddress(w.cosmos.PubKey().Address())
	params := gk.GetParams(ctx)
	vals := c.App.StakingKeeper.GetValidators(ctx, 5)
	var ids []uint64
	var created [][]string // per proposal: the bank denoms its create messages map when it passes
	for pi, p := range props {
		var msgs []sdk.Msg
		var newDenoms []string
		for _, m := range p {
			switch m.Kind {
			case "create":
				d := "unometa"
				if !m.Fail {
					d = fmt.Sprintf("ucoin%d", w.nextCoin)
					w.nextCoin++
					newDenoms = append(newDenoms, d)
				}
				if err := testapp.FundModuleAccount(c.App.BankKeeper, ctx, govtypes.ModuleName, c.App.EvmKeeper.FeeForCreateFunToken(ctx)); err != nil {
					panic(err)
				}
				msgs = append(msgs, &evm.MsgCreateFunToken{FromBankDenom: d, Sender: govAddr.String()})
			case "convert":
				d := "ucoin_none"
				if len(w.denoms) > 0 {
					d = w.denoms[(m.Sender+pi)%len(w.denoms)]
				}
				amt := int64(3)
				if m.Fail {
					amt = 1 << 50
				} else if err := c.App.BankKeeper.SendCoins(ctx, caddr, govAddr, sdk.NewCoins(sdk.NewCoin(d, sdkmath.NewInt(amt)))); err != nil {
					amt = 4 // the cosmos account does not hold the coin: the message will fail on execution
				}
				msgs = append(msgs, &evm.MsgConvertCoinToEvm{
					Sender: govAddr.String(), BankCoin: sdk.NewCoin(d, sdkmath.NewInt(amt)),
					ToEthAddr: eth.EIP55Addr{Address: w.accs[m.Sender%len(w.accs)].EthAddr},
				})
			case "conv20":
				d := "erc20/" + w.erc20.Hex()
				amt := int64(2)
				if m.Fail {
					amt = 1 << 50
				} else if err := c.App.BankKeeper.SendCoins(ctx, caddr, govAddr, sdk.NewCoins(sdk.NewCoin(d, sdkmath.NewInt(amt)))); err != nil {
					amt = 5
				}
				msgs = append(msgs, &evm.MsgConvertCoinToEvm{
					Sender: govAddr.String(), BankCoin: sdk.NewCoin(d, sdkmath.NewInt(amt)),
					ToEthAddr: eth.EIP55Addr{Address: w.accs[m.Sender%len(w.accs)].EthAddr},
				})
			}
		}
		prop, err := gk.SubmitProposal(ctx, msgs, "", "c19", "funtoken messages executed at end of block", caddr)
		if err != nil {
			panic("submit proposal: " + err.Error())
		}
		if _, err := gk.AddDeposit(ctx, prop.Id, caddr, params.MinDeposit); err != nil {
			panic("deposit: " + err.Error())
		}
		if err := gk.AddVote(ctx, prop.Id, sdk.AccAddress(vals[0].GetOperator()), govv1.NewNonSplitVoteOption(govv1.OptionYes), ""); err != nil {
			panic("vote: " + err.Error())
		}
		ids = append(ids, prop.Id)
		created = append(created, newDenoms)
	}
	c.EndBlock()
	return ids, created, *params.VotingPeriod
}

func anyU64(vs ...interface{}) uint64 {
	for _, v := range vs {
		switch x := v.(type) {
		case string:
			n, err := strconv.ParseUint(x, 10, 64)
			if err == nil {
				return n
			}
		case float64:
			return uint64(x)
		}
	}
	return 0
}

func (w *c19World) runBlock(blk c19Block) c19BlockObs {
	c := w.c
	ops := blk.Ops
	dt := 5 * time.Second
	var propIDs []uint64
	var propDenoms [][]string
	if len(blk.Gov) > 0 {
		propIDs, propDenoms, dt = w.submitProposals(blk.Gov)
	}
	bb := c.BeginBlock(dt)
	w.blocks++
	bo := c19BlockObs{Ops: []c19OpObs{}, Gov: []c19PropObs{}, Stray: [][2]int{}, Pubs: []int{}}
	var all []*gethcore.Log
	bo.Begin, all = logsOfEvents(bb.Events)
	price := big.NewInt(1_000_000_000_000)
	for _, op := range ops {
		var r abci.ResponseDeliverTx
		switch op.Kind {
		case "eth":
			s := op.Sender % len(w.accs)
			nonce := w.nonce(s)
			gas := uint64(60_000 + 3000*op.K)
			switch op.Fail {
			case "nonce":
				nonce += 3
			case "gas":
				gas = 20_000
			}
			data := make([]byte, 96)
			data[31] = byte(op.K)
			if op.Revert {
				data[63] = 1
			}
			data[95] = byte(op.Inner)
			if op.Inner > 0 && op.Fail != "gas" {
				gas += 100_000
			}
			to := w.emitter
			msg, err := c.SignEth(w.accs[s], &evm.EvmTxArgs{Nonce: nonce, GasLimit: gas, GasPrice: price, To: &to, Input: data})
			if err != nil {
				panic(err)
			}
			r = c.DeliverEth(msg)
		case "create":
			d := fmt.Sprintf("ucoin%d", w.nextCoin)
			w.nextCoin++
			caddr := sdk.AccAddress(w.cosmos.PubKey().Address())
			r = c.DeliverCosmos(w.cosmos, 5_000_000, Unibi(1_000_000), &evm.MsgCreateFunToken{FromBankDenom: d, Sender: caddr.String()})
			if r.Code == 0 {
				w.denoms = append(w.denoms, d)
			}
		case "eth2":
			s := op.Sender % len(w.accs)
			nonce := w.nonce(s)
			var msgs []*evm.MsgEthereumTx
			for j, k := range []int{op.K, op.K2} {
				data := make([]byte, 64)
				data[31] = byte(k)
				if op.Revert && j == 1 {
					data[63] = 1
				}
				to := w.emitter
				gas := uint64(60_000 + 3000*k)
				if op.Fail == "gas" && j == 1 {
					gas = 20_000
				}
				m, err := c.SignEth(w.accs[s], &evm.EvmTxArgs{Nonce: nonce + uint64(j), GasLimit: gas, GasPrice: price, To: &to, Input: data})
				if err != nil {
					panic(err)
				}
				msgs = append(msgs, m)
			}
			r = c.DeliverEth(msgs...)
		case "s2b":
			caddr := sdk.AccAddress(w.cosmos.PubKey().Address())
			input, err := embeds.SmartContract_FunToken.ABI.Pack("sendToBank", w.erc20, big.NewInt(int64(5+op.K)), caddr.String())
			if err != nil {
				panic(err)
			}
			to := precompile.PrecompileAddr_FunToken
			msg, err := c.SignEth(w.accs[0], &evm.EvmTxArgs{Nonce: w.nonce(0), GasLimit: 2_000_000, GasPrice: price, To: &to, Input: input})
			if err != nil {
				panic(err)
			}
			r = c.DeliverEth(msg)
		case "conv20":
			caddr := sdk.AccAddress(w.cosmos.PubKey().Address())
			r = c.DeliverCosmos(w.cosmos, 5_000_000, Unibi(1_000_000), &evm.MsgConvertCoinToEvm{
				Sender: caddr.String(), BankCoin: sdk.NewCoin("erc20/"+w.erc20.Hex(), sdkmath.NewInt(2)),
				ToEthAddr: eth.EIP55Addr{Address: w.accs[op.Sender%len(w.accs)].EthAddr},
			})
		case "convert":
			caddr := sdk.AccAddress(w.cosmos.PubKey().Address())
			d := "ucoin_none"
			if len(w.denoms) > 0 {
				d = w.denoms[(op.K+op.Sender)%len(w.denoms)]
			}
			r = c.DeliverCosmos(w.cosmos, 5_000_000, Unibi(1_000_000), &evm.MsgConvertCoinToEvm{
				Sender: caddr.String(), BankCoin: sdk.NewCoin(d, sdkmath.NewInt(3)),
				ToEthAddr: eth.EIP55Addr{Address: w.accs[op.Sender%len(w.accs)].EthAddr},
			})
		}
		o, gl := parseOpObs(r)
		all = append(all, gl...)
		bo.Ops = append(bo.Ops, o)
	}
	eb, _ := c.EndBlock()
	// the EndBlock response in event order: logs published by proposal messages (closed by the proposal's
	// active_proposal event), EventBlockBloom
	results := map[uint64]c19PropObs{}
	pending := [][2]int{}
	var blooms []string
	for _, ev := range eb.Events {
		switch ev.Type {
		case "eth.evm.v1.EventTxLog":
			pl, gl := logsOfEvents([]abci.Event{ev})
			pending = append(pending, pl...)
			all = append(all, gl...)
		case govtypes.EventTypeActiveProposal:
			a := EventAttrs([]abci.Event{ev}, ev.Type)[0]
			id, _ := strconv.ParseUint(a[govtypes.AttributeKeyProposalID], 10, 64)
			results[id] = c19PropObs{Result: strings.TrimPrefix(a[govtypes.AttributeKeyProposalResult], "proposal_"), Logs: pending}
			pending = [][2]int{}
		case "eth.evm.v1.EventBlockBloom":
			a := EventAttrs([]abci.Event{ev}, ev.Type)[0]
			blooms = append(blooms, strings.Trim(a["bloom"], `"`))
			bo.Pubs = append(bo.Pubs, len(all))
		}
	}
	bo.Stray = pending
	for i, id := range propIDs {
		r, ok := results[id]
		if !ok {
			r = c19PropObs{Result: "none", Logs: [][2]int{}}
		}
		delete(results, id)
		bo.Gov = append(bo.Gov, r)
		if r.Result == "passed" {
			w.denoms = append(w.denoms, propDenoms[i]...)
		}
	}
	var strayIDs []uint64
	for id := range results { // a proposal that is not of this block's input came due: its logs are stray
		strayIDs = append(strayIDs, id)
	}
	sort.Slice(strayIDs, func(i, j int) bool { return strayIDs[i] < strayIDs[j] })
	for _, id := range strayIDs {
		bo.Stray = append(bo.Stray, results[id].Logs...)
	}
	want := gethcore.BytesToBloom(gethcore.LogsBloom(all))
	bo.BloomOK = len(blooms) == 1 && blooms[0] == eth.BloomToHex(want)
	bo.NLogs = len(all)
	return bo
}

func genC19Gov(r *Rng) [][]c19Msg {
	var props [][]c19Msg
	np := r.Pick(5, 3, 1) + 1
	for i := 0; i < np; i++ {
		var p []c19Msg
		nm := r.Pick(3, 2, 1) + 1
		for j := 0; j < nm; j++ {
			m := c19Msg{Kind: []string{"create", "convert", "conv20"}[r.Pick(4, 3, 1)], Sender: r.Intn(3)}
			if r.Chance(1, 6) {
				m.Fail = true
			}
			p = append(p, m)
		}
		props = append(props, p)
	}
	return props
}

func genC19Case(r *Rng, canConvert bool) []c19Block {
	nb := r.Range(1, 3)
	var blocks []c19Block
	withGov := r.Chance(1, 2) // half of the cases have blocks in which proposals come due
	for b := 0; b < nb; b++ {
		n := r.Range(1, 7)
		if withGov && r.Chance(1, 5) {
			n = 0 // a block whose only logs come from the EndBlock phase
		}
		var ops []c19Op
		for i := 0; i < n; i++ {
			switch r.Pick(6, 2, 3, 2, 2, 2) {
			case 5:
				op := c19Op{Kind: "eth2", K: r.Intn(3), K2: r.Intn(3), Sender: r.Intn(3)}
				switch r.Pick(5, 2, 1) {
				case 1:
					op.Revert = true
				case 2:
					op.Fail = "gas"
				}
				ops = append(ops, op)
			case 3:
				ops = append(ops, c19Op{Kind: "s2b", K: r.Intn(4)})
			case 4:
				ops = append(ops, c19Op{Kind: "conv20", Sender: r.Intn(3)})
			case 0:
				op := c19Op{Kind: "eth", K: r.Pick(2, 3, 2, 1, 1), Sender: r.Intn(3)}
				if r.Chance(1, 4) {
					op.Inner = r.Range(1, 3)
				}
				switch r.Pick(6, 2, 1, 1) {
				case 1:
					op.Revert = true
				case 2:
					op.Fail = "nonce"
				case 3:
					op.Fail = "gas"
				}
				ops = append(ops, op)
			case 1:
				ops = append(ops, c19Op{Kind: "create"})
			case 2:
				ops = append(ops, c19Op{Kind: "convert", K: r.Intn(5), Sender: r.Intn(3)})
			}
		}
		blk := c19Block{Ops: ops}
		if withGov && (r.Chance(2, 3) || n == 0) {
			blk.Gov = genC19Gov(r)
		}
		blocks = append(blocks, blk)
	}
	return blocks
}

func TestC19(t *testing.T) {
	cfg := LoadCfg(t, 100, 1000)
	em := NewEmitter(t, cfg.Out)
	defer em.Close()
	var w *c19World
	ops := func(bs ...[]c19Op) []c19Block {
		var out []c19Block
		for _, b := range bs {
			out = append(out, c19Block{Ops: b})
		}
		return out
	}
	run := func(blocks []c19Block) {
		if w == nil || w.nextCoin > 30 || w.blocks > 150 {
			w = newC19World(t)
		}
		var obs []c19BlockObs
		for _, b := range blocks {
			obs = append(obs, w.runBlock(b))
		}
		em.Emit(blocks, obs, nil)
	}
	if cfg.Replay != "" {
		for _, raw := range cfg.ReplayInputs(t) {
			var blocks []c19Block
			if err := json.Unmarshal(raw, &blocks); err != nil {
				t.Fatal(err)
			}
			w = nil // every replayed case on a fresh chain
			run(blocks)
		}
		return
	}
	// corpus-like fixed openers: the sequences that collided on the pinned tree
	run(ops([]c19Op{{Kind: "eth", K: 1}, {Kind: "create"}, {Kind: "convert"}, {Kind: "eth", K: 2}}))
	run(ops([]c19Op{{Kind: "eth", K: 2}, {Kind: "eth", K: 0}, {Kind: "convert"}, {Kind: "convert"}, {Kind: "eth", K: 1, Revert: true}, {Kind: "eth", K: 3}}))
	run(ops([]c19Op{{Kind: "s2b", K: 1}, {Kind: "eth", K: 1}, {Kind: "conv20"}, {Kind: "s2b", K: 2}, {Kind: "conv20"}, {Kind: "eth", K: 2}}))
	run(ops([]c19Op{{Kind: "eth", K: 1, Inner: 2}, {Kind: "eth", K: 2}, {Kind: "convert"}, {Kind: "eth", K: 2, Inner: 1, Revert: true}, {Kind: "eth", K: 1}}))
	run(ops([]c19Op{{Kind: "eth2", K: 1, K2: 2}, {Kind: "convert"}, {Kind: "eth2", K: 2, K2: 1, Revert: true}, {Kind: "eth", K: 1}, {Kind: "eth2", K: 1, K2: 1, Fail: "gas"}, {Kind: "eth", K: 1}}))
	// logs emitted outside DeliverTx: proposals executed by x/gov's EndBlocker in a block that also has Ethereum txs and
	// FunToken txs (one proposal that passes with two messages, one that is rolled back, one single convert)
	run([]c19Block{
		{Ops: []c19Op{{Kind: "create"}}},
		{Ops: []c19Op{{Kind: "eth", K: 1}, {Kind: "convert"}},
			Gov: [][]c19Msg{{{Kind: "create"}, {Kind: "convert"}}, {{Kind: "create"}, {Kind: "convert", Fail: true}}, {{Kind: "convert", Sender: 1}}}},
		{Ops: []c19Op{}, Gov: [][]c19Msg{{{Kind: "create"}}}},
	})
	rng := NewRng(cfg.Seed)
	for i := 0; i < cfg.N; i++ {
		run(genC19Case(rng.Fork(), true))
	}
}
