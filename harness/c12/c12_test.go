package c12

// C12 — oracle penalties and rewards follow actual voting behaviour.
//
// A case is a HISTORY on the x/oracle keeper fixture (staking UnbondingTime 1 s, 5 s of block time per
// step): generated oracle parameters (edited in the middle of about half of the histories) and a fixed whitelist, 2-5 initial validators, then 8-24 steps of
//
//	end     set the Votes store and run the real oracle.EndBlocker at the next vote-period end /
//	        slash-window end / next block
//	alloc   mint + Keeper.AllocateRewards(coins over n vote periods)
//	undel / deleg / jail / unjail / create / send (= staking.EndBlocker: bonding, unbonding, removal)
//
// After every step: MissCounters, Rewards store, oracle module balance; for "end" steps additionally
// the staking view before the call (power store order; per validator exists/bonded/jailed/power/
// tokens), the rewards credited by distribution during the call (from its "rewards" events) and the
// jailed flag / tokens of every validator after the call.

import (
	"encoding/json"
	"fmt"
	"math/big"
	"sort"
	"testing"
	"time"

	sdkmath "cosmossdk.io/math"
	cryptotypes "github.com/cosmos/cosmos-sdk/crypto/types"
	"github.com/cosmos/cosmos-sdk/testutil/sims"
	sdk "github.com/cosmos/cosmos-sdk/types"
	authtypes "github.com/cosmos/cosmos-sdk/x/auth/types"
	"github.com/cosmos/cosmos-sdk/x/staking"
	stakingkeeper "github.com/cosmos/cosmos-sdk/x/staking/keeper"
	stakingtypes "github.com/cosmos/cosmos-sdk/x/staking/types"

	"github.com/NibiruChain/collections"

	. "verifharness/hx"

	"github.com/NibiruChain/nibiru/v2/x/common/asset"
	"github.com/NibiruChain/nibiru/v2/x/oracle"
	okeeper "github.com/NibiruChain/nibiru/v2/x/oracle/keeper"
	otypes "github.com/NibiruChain/nibiru/v2/x/oracle/types"
)

type Params struct {
	VP   uint64 `json:"vp"`
	Thr  string `json:"thr"`
	MinV uint64 `json:"minv"`
	Band string `json:"band"`
	SF   string `json:"sf"`  // SlashFraction raw
	Win  uint64 `json:"win"` // SlashWindow
	MV   string `json:"mv"`  // MinValidPerWindow raw
}
type Tuple struct {
	P int    `json:"p"`
	R string `json:"r"`
}
type Vote struct {
	Voter int     `json:"voter"`
	T     []Tuple `json:"t"`
}
type Op struct {
	K     string   `json:"k"`               // end | alloc | undel | deleg | jail | unjail | create | send | params
	Jump  string   `json:"jump,omitempty"`  // end: period | window | next
	Votes []Vote   `json:"votes,omitempty"` // end
	Coins []string `json:"coins,omitempty"` // alloc: [unibi, uusd]
	N     uint64   `json:"n,omitempty"`     // alloc: vote periods
	V     int      `json:"v"`               // validator index
	Amt   string   `json:"amt,omitempty"`   // undel ("all" or tokens) / deleg / create tokens
	P     *Params  `json:"p,omitempty"`     // params: the oracle parameters from this step on (vp / win are never edited)
}
type Input struct {
	Params Params   `json:"params"`
	WL     []int    `json:"wl"`
	Vals   []string `json:"vals"` // tokens of the initial validators
	Ops    []Op     `json:"ops"`
}
type PreVal struct {
	ID     int    `json:"id"`
	Bonded bool   `json:"bonded"`
	Power  string `json:"power"`
}
type SVal struct {
	ID     int    `json:"id"`
	Exists bool   `json:"exists"`
	Bonded bool   `json:"bonded"`
	Jailed bool   `json:"jailed"`
	Power  string `json:"power"`
	Tokens string `json:"tokens"`
}
type Pre struct {
	Order []PreVal `json:"order"`
	BTok  string   `json:"btok"`
	MaxV  uint32   `json:"maxv"`
	PR    string   `json:"pr"`
	SVs   []SVal   `json:"svs"`
}
type Post struct {
	ID     int    `json:"id"`
	Jailed bool   `json:"jailed"`
	Tokens string `json:"tokens"`
}
type Paid struct {
	ID int      `json:"id"`
	C  []string `json:"c"`
}
type Reward struct {
	N uint64   `json:"n"`
	C []string `json:"c"`
}
type StepObs struct {
	H       int64      `json:"h"`
	Pre     *Pre       `json:"pre,omitempty"`
	Panic   bool       `json:"panic"`
	Miss    [][2]int64 `json:"miss"`
	Rewards []Reward   `json:"rewards"`
	Bal     []string   `json:"bal"`
	Paid    []Paid     `json:"paid"`
	Post    []Post     `json:"post"`
	Votes   []Vote     `json:"votes"` // Votes store after the step, sorted by voter
}

var pairs = []asset.Pair{"paa:usd", "pab:usd", "pac:usd", "pad:usd", "pae:usd", "paf:usd"}
var pubKeys = sims.CreateTestPubKeys(16)
var denoms = []string{"unibi", "uusd"}

const maxVals = 12

func accAddr(i int) sdk.AccAddress {
	b := make([]byte, 20)
	for j := range b {
		b[j] = byte(i + 1)
	}
	b[0] = byte(0xA0 + i)
	return sdk.AccAddress(b)
}
func valAddr(i int) sdk.ValAddress { return sdk.ValAddress(accAddr(i)) }

func bigOf(s string) *big.Int {
	b, ok := new(big.Int).SetString(s, 10)
	if !ok {
		panic("bad integer " + s)
	}
	return b
}
func decOfRaw(s string) sdk.Dec { return sdkmath.LegacyNewDecFromBigIntWithPrec(bigOf(s), 18) }

type world struct {
	t     *testing.T
	f     okeeper.TestFixture
	ctx   sdk.Context
	sh    stakingtypes.MsgServer
	nvals int
	h     int64
	now   time.Time
	in    Input
}

func (w *world) create(tok string) error {
	i := w.nvals
	if i >= maxVals {
		return fmt.Errorf("too many validators")
	}
	amt := sdkmath.NewIntFromBigInt(bigOf(tok))
	f := w.f
	f.Ctx = w.ctx
	if err := okeeper.FundAccount(f, accAddr(i), sdk.NewCoins(sdk.NewCoin("unibi", amt))); err != nil {
		return err
	}
	if _, err := w.sh.CreateValidator(w.ctx, okeeper.NewTestMsgCreateValidator(valAddr(i), cryptotypes.PubKey(pubKeys[i]), amt)); err != nil {
		return err
	}
	w.nvals++
	return nil
}

func (w *world) idOf(op sdk.ValAddress) int {
	for i := 0; i < w.nvals; i++ {
		if valAddr(i).Equals(op) {
			return i
		}
	}
	return 99
}

func pairIdx(p asset.Pair) int {
	for i, q := range pairs {
		if p == q {
			return i
		}
	}
	return -1
}

// idOfAny maps a voter address back to its index (also for addresses that are no validator yet).
func (w *world) idOfAny(op sdk.ValAddress) int {
	for i := 0; i < 24; i++ {
		if valAddr(i).Equals(op) {
			return i
		}
	}
	return 99
}

func (w *world) snapshot(o *StepObs) {
	k := w.f.OracleKeeper
	o.Miss = [][2]int64{}
	for _, kv := range k.MissCounters.Iterate(w.ctx, collections.Range[sdk.ValAddress]{}).KeyValues() {
		o.Miss = append(o.Miss, [2]int64{int64(w.idOf(kv.Key)), int64(kv.Value)})
	}
	sort.Slice(o.Miss, func(i, j int) bool { return o.Miss[i][0] < o.Miss[j][0] })
	o.Rewards = []Reward{}
	for _, r := range k.Rewards.Iterate(w.ctx, collections.Range[uint64]{}).Values() {
		rw := Reward{N: r.VotePeriods}
		for _, d := range denoms {
			rw.C = append(rw.C, sdk.Coins(r.Coins).AmountOf(d).String())
		}
		o.Rewards = append(o.Rewards, rw)
	}
	mod := authtypes.NewModuleAddress(otypes.ModuleName)
	o.Bal = nil
	for _, d := range denoms {
		o.Bal = append(o.Bal, w.f.BankKeeper.GetBalance(w.ctx, mod, d).Amount.String())
	}
	o.Votes = []Vote{}
	for _, kv := range k.Votes.Iterate(w.ctx, collections.Range[sdk.ValAddress]{}).KeyValues() {
		v := Vote{Voter: w.idOfAny(kv.Key), T: []Tuple{}}
		for _, tu := range kv.Value.ExchangeRateTuples {
			v.T = append(v.T, Tuple{P: pairIdx(tu.Pair), R: tu.ExchangeRate.BigInt().String()})
		}
		o.Votes = append(o.Votes, v)
	}
	sort.Slice(o.Votes, func(i, j int) bool { return o.Votes[i].Voter < o.Votes[j].Voter })
	if o.Paid == nil {
		o.Paid = []Paid{}
	}
	if o.Post == nil {
		o.Post = []Post{}
	}
}

func (w *world) pre() *Pre {
	sk := w.f.StakingKeeper
	p := &Pre{Order: []PreVal{}, SVs: []SVal{}}
	pr := sk.PowerReduction(w.ctx)
	it := sk.ValidatorsPowerStoreIterator(w.ctx)
	for ; it.Valid(); it.Next() {
		v := sk.Validator(w.ctx, it.Value())
		p.Order = append(p.Order, PreVal{ID: w.idOf(v.GetOperator()), Bonded: v.IsBonded(), Power: fmt.Sprint(v.GetConsensusPower(pr))})
	}
	it.Close()
	p.BTok = sk.TotalBondedTokens(w.ctx).String()
	p.MaxV = sk.MaxValidators(w.ctx)
	p.PR = pr.String()
	for i := 0; i < w.nvals; i++ {
		v, found := sk.GetValidator(w.ctx, valAddr(i))
		if !found {
			p.SVs = append(p.SVs, SVal{ID: i, Power: "0", Tokens: "0"})
			continue
		}
		p.SVs = append(p.SVs, SVal{ID: i, Exists: true, Bonded: v.IsBonded(), Jailed: v.IsJailed(),
			Power: fmt.Sprint(v.GetConsensusPower(pr)), Tokens: v.Tokens.String()})
	}
	return p
}

func (w *world) post() []Post {
	out := []Post{}
	for i := 0; i < w.nvals; i++ {
		v, found := w.f.StakingKeeper.GetValidator(w.ctx, valAddr(i))
		if !found {
			out = append(out, Post{ID: i, Tokens: "0"})
			continue
		}
		out = append(out, Post{ID: i, Jailed: v.IsJailed(), Tokens: v.Tokens.String()})
	}
	return out
}

func nextEnd(h int64, period uint64) int64 {
	// smallest h' > h with (h'+1) % period == 0
	p := int64(period)
	x := h + 1
	r := (x + 1) % p
	if r != 0 {
		x += p - r
	}
	return x
}

func (w *world) step(op Op) (StepObs, error) {
	var o StepObs
	w.now = w.now.Add(5 * time.Second)
	switch op.K {
	case "end":
		switch op.Jump {
		case "period":
			w.h = nextEnd(w.h, w.in.Params.VP)
		case "window":
			w.h = nextEnd(w.h, w.in.Params.Win)
		default:
			w.h++
		}
	default:
		w.h++
	}
	w.ctx = w.ctx.WithBlockHeight(w.h).WithBlockTime(w.now).WithEventManager(sdk.NewEventManager())
	o.H = w.h
	k := w.f.OracleKeeper
	sk := w.f.StakingKeeper
	switch op.K {
	case "end":
		// the votes of this step are put on top of whatever is still in the store (Insert overwrites per
		// voter); only clearVotesAndPrevotes at a vote-period end removes votes
		for _, v := range op.Votes {
			var ts otypes.ExchangeRateTuples
			for _, tu := range v.T {
				ts = append(ts, otypes.ExchangeRateTuple{Pair: pairs[tu.P], ExchangeRate: decOfRaw(tu.R)})
			}
			k.Votes.Insert(w.ctx, valAddr(v.Voter), otypes.NewAggregateExchangeRateVote(ts, valAddr(v.Voter)))
		}
		o.Pre = w.pre()
		pan := Recover(func() { oracle.EndBlocker(w.ctx, k) })
		if pan != "" {
			o.Panic = true
			o.Miss, o.Rewards, o.Bal, o.Paid, o.Post, o.Votes = [][2]int64{}, []Reward{}, []string{"0", "0"}, []Paid{}, []Post{}, []Vote{}
			return o, nil
		}
		// rewards credited by distribution during the call
		credited := map[int][]*big.Int{}
		for _, ev := range w.ctx.EventManager().Events() {
			if ev.Type != "rewards" {
				continue
			}
			var amount, val string
			for _, a := range ev.Attributes {
				if a.Key == "amount" {
					amount = a.Value
				}
				if a.Key == "validator" {
					val = a.Value
				}
			}
			va, err := sdk.ValAddressFromBech32(val)
			if err != nil {
				return o, err
			}
			id := w.idOf(va)
			if credited[id] == nil {
				credited[id] = []*big.Int{new(big.Int), new(big.Int)}
			}
			if amount == "" {
				continue
			}
			dcs, err := sdk.ParseDecCoins(amount)
			if err != nil {
				return o, fmt.Errorf("rewards event %q: %w", amount, err)
			}
			for di, d := range denoms {
				a := dcs.AmountOf(d)
				if !a.IsInteger() {
					return o, fmt.Errorf("fractional reward %s", a)
				}
				credited[id][di].Add(credited[id][di], a.TruncateInt().BigInt())
			}
		}
		o.Paid = []Paid{}
		ids := []int{}
		for id := range credited {
			ids = append(ids, id)
		}
		sort.Ints(ids)
		for _, id := range ids {
			c := credited[id]
			if c[0].Sign() == 0 && c[1].Sign() == 0 {
				continue
			}
			o.Paid = append(o.Paid, Paid{ID: id, C: []string{c[0].String(), c[1].String()}})
		}
		o.Post = w.post()
	case "alloc":
		var cs sdk.Coins
		for di, d := range denoms {
			a := sdkmath.NewIntFromBigInt(bigOf(op.Coins[di]))
			if a.IsPositive() {
				cs = cs.Add(sdk.NewCoin(d, a))
			}
		}
		if op.N == 0 || cs.IsZero() {
			return o, fmt.Errorf("empty allocation")
		}
		if err := w.f.BankKeeper.MintCoins(w.ctx, "faucet", cs); err != nil {
			return o, err
		}
		cctx, write := w.ctx.CacheContext()
		if err := k.AllocateRewards(cctx, "faucet", cs, op.N); err != nil {
			return o, err
		}
		write()
	case "undel":
		v, found := sk.GetValidator(w.ctx, valAddr(op.V))
		if found {
			amt := v.Tokens
			if op.Amt != "all" {
				amt = sdkmath.NewIntFromBigInt(bigOf(op.Amt))
			}
			if amt.IsPositive() {
				// only the self delegation exists (plus deleg ops by the same account)
				_, _ = w.sh.Undelegate(w.ctx, stakingtypes.NewMsgUndelegate(accAddr(op.V), valAddr(op.V), sdk.NewCoin("unibi", amt)))
			}
		}
	case "deleg":
		if _, found := sk.GetValidator(w.ctx, valAddr(op.V)); found {
			amt := sdkmath.NewIntFromBigInt(bigOf(op.Amt))
			f := w.f
			f.Ctx = w.ctx
			if err := okeeper.FundAccount(f, accAddr(op.V), sdk.NewCoins(sdk.NewCoin("unibi", amt))); err != nil {
				return o, err
			}
			_, _ = w.sh.Delegate(w.ctx, stakingtypes.NewMsgDelegate(accAddr(op.V), valAddr(op.V), sdk.NewCoin("unibi", amt)))
		}
	case "jail":
		if v, found := sk.GetValidator(w.ctx, valAddr(op.V)); found && !v.Jailed {
			ca, _ := v.GetConsAddr()
			sk.Jail(w.ctx, ca)
		}
	case "unjail":
		if v, found := sk.GetValidator(w.ctx, valAddr(op.V)); found && v.Jailed {
			ca, _ := v.GetConsAddr()
			sk.Unjail(w.ctx, ca)
		}
	case "create":
		if w.nvals < maxVals {
			if err := w.create(op.Amt); err != nil {
				return o, err
			}
		}
	case "send":
		staking.EndBlocker(w.ctx, &sk)
	case "params":
		// the parameters are edited in the middle of the history (the keeper call behind MsgEditOracleParams);
		// VotePeriod / SlashWindow / Whitelist stay
		if op.P == nil {
			return o, fmt.Errorf("params op without parameters")
		}
		p, err := k.Params.Get(w.ctx)
		if err != nil {
			return o, err
		}
		p.VoteThreshold = decOfRaw(op.P.Thr)
		p.MinVoters = op.P.MinV
		p.RewardBand = decOfRaw(op.P.Band)
		p.SlashFraction = decOfRaw(op.P.SF)
		p.MinValidPerWindow = decOfRaw(op.P.MV)
		if err := p.Validate(); err != nil {
			return o, fmt.Errorf("params rejected: %w", err)
		}
		k.UpdateParams(w.ctx, p)
	default:
		return o, fmt.Errorf("unknown op %q", op.K)
	}
	w.snapshot(&o)
	return o, nil
}

func runCase(t *testing.T, in Input) ([]StepObs, error) {
	f := okeeper.CreateTestFixture(t)
	w := &world{t: t, f: f, ctx: f.Ctx, in: in, h: 1, now: f.Ctx.BlockTime()}
	w.sh = stakingkeeper.NewMsgServerImpl(&w.f.StakingKeeper)
	sp := f.StakingKeeper.GetParams(w.ctx)
	sp.UnbondingTime = time.Second
	if err := f.StakingKeeper.SetParams(w.ctx, sp); err != nil {
		return nil, err
	}
	for _, tok := range in.Vals {
		if err := w.create(tok); err != nil {
			return nil, err
		}
	}
	staking.EndBlocker(w.ctx, &w.f.StakingKeeper)
	p, _ := f.OracleKeeper.Params.Get(w.ctx)
	p.VotePeriod = in.Params.VP
	p.VoteThreshold = decOfRaw(in.Params.Thr)
	p.MinVoters = in.Params.MinV
	p.RewardBand = decOfRaw(in.Params.Band)
	p.SlashFraction = decOfRaw(in.Params.SF)
	p.SlashWindow = in.Params.Win
	p.MinValidPerWindow = decOfRaw(in.Params.MV)
	p.Whitelist = nil
	for _, x := range in.WL {
		p.Whitelist = append(p.Whitelist, pairs[x])
	}
	if err := p.Validate(); err != nil {
		return nil, fmt.Errorf("params rejected: %w", err)
	}
	f.OracleKeeper.Params.Set(w.ctx, p)
	for _, k := range f.OracleKeeper.WhitelistedPairs.Iterate(w.ctx, collections.Range[asset.Pair]{}).Keys() {
		f.OracleKeeper.WhitelistedPairs.Delete(w.ctx, k)
	}
	for _, x := range in.WL {
		f.OracleKeeper.WhitelistedPairs.Insert(w.ctx, pairs[x])
	}
	out := []StepObs{}
	for _, op := range in.Ops {
		o, err := w.step(op)
		if err != nil {
			return nil, err
		}
		out = append(out, o)
		if o.Panic {
			break
		}
	}
	return out, nil
}

// ---------------------------------------------------------------- generation

var e18 = new(big.Int).Exp(big.NewInt(10), big.NewInt(18), nil)

func mulFrac(b *big.Int, num, den int64) string {
	x := new(big.Int).Mul(b, big.NewInt(num))
	return x.Quo(x, big.NewInt(den)).String()
}

func genTok(r *Rng) string {
	power := []int64{1, 1, 2, 3, 5, 10, 10, 100}[r.Intn(8)]
	frac := []int64{0, 0, 0, 1, 500000, 999999}[r.Intn(6)]
	return fmt.Sprint(power*1000000 + frac)
}

func genVotes(r *Rng, in *Input, nvals int, sloppy []int, band int64) []Vote {
	var out []Vote
	voters := nvals
	if r.Chance(1, 10) {
		voters++
	}
	// participation of this step: everybody / most / a few (typically below quorum) / nobody
	part := []int{90, 90, 90, 60, 30, 30, 0}[r.Intn(7)]
	for v := 0; v < voters; v++ {
		if r.Intn(100) >= part {
			continue
		}
		vt := Vote{Voter: v, T: []Tuple{}}
		ps := append([]int{}, in.WL...)
		if r.Chance(1, 8) {
			ps = append(ps, r.Intn(6))
		}
		sl := 10
		if v < len(sloppy) {
			sl = sloppy[v]
		}
		for _, p := range ps {
			base := new(big.Int).Mul(e18, big.NewInt(int64(100*(p+1))))
			switch r.Pick(10, 12, 78) {
			case 0:
				continue
			case 1:
				vt.T = append(vt.T, Tuple{p, []string{"0", "0", "-1", "-100000000000000000000"}[r.Intn(4)]})
				continue
			}
			if r.Intn(100) < sl {
				vt.T = append(vt.T, Tuple{p, []string{mulFrac(base, 3, 2), mulFrac(base, 1, 2), mulFrac(base, 3, 1), mulFrac(base, 103, 100), "1"}[r.Intn(5)]})
				continue
			}
			switch r.Pick(50, 10, 10, 10, 10, 10) {
			case 0:
				vt.T = append(vt.T, Tuple{p, base.String()})
			case 1:
				vt.T = append(vt.T, Tuple{p, new(big.Int).Add(base, big.NewInt(1)).String()})
			case 2: // exactly on the band edge when the median is base
				vt.T = append(vt.T, Tuple{p, mulFrac(base, 2000+band, 2000)})
			case 3:
				vt.T = append(vt.T, Tuple{p, mulFrac(base, 2000-band, 2000)})
			case 4: // just outside
				x := bigOf(mulFrac(base, 2000+band, 2000))
				vt.T = append(vt.T, Tuple{p, x.Add(x, big.NewInt(1)).String()})
			default:
				vt.T = append(vt.T, Tuple{p, mulFrac(base, int64(r.Range(990, 1010)), 1000)})
			}
		}
		out = append(out, vt)
	}
	if out == nil {
		out = []Vote{}
	}
	return out
}

// genEdit: the parameters after an edit in the middle of a history: one to three of RewardBand / SlashFraction /
// MinValidPerWindow change, half of the time to ZERO (accepted by Params.Validate: no band but the standard
// deviation, offenders jailed without a burn, nobody below the minimum), sometimes the threshold / MinVoters too.
func genEdit(r *Rng, cur Params) (Params, int64) {
	p := cur
	pick := func(zero string, others []string) string {
		if r.Chance(1, 2) {
			return zero
		}
		return others[r.Intn(len(others))]
	}
	n := r.Range(1, 3)
	for i := 0; i < n; i++ {
		switch r.Pick(30, 30, 30, 5, 5) {
		case 0:
			p.Band = pick("0", []string{"20000000000000000", "500000000000000000", "1000000000000000000"})
		case 1:
			p.SF = pick("0", []string{"5000000000000000", "100000000000000000", "1000000000000000000"})
		case 2:
			p.MV = pick("0", []string{"690000000000000000", "500000000000000000", "1000000000000000000"})
		case 3:
			p.Thr = []string{"340000000000000000", "500000000000000000", "666666666666666667"}[r.Intn(3)]
		default:
			p.MinV = uint64(r.Range(1, 3))
		}
	}
	band := new(big.Int).Quo(bigOf(p.Band), big.NewInt(1000000000000000)).Int64()
	return p, band
}

func genCase(r *Rng) Input {
	var in Input
	vp := []uint64{1, 1, 2, 3}[r.Intn(4)]
	win := vp * uint64(r.Range(1, 4))
	if r.Chance(1, 6) || (vp > 1 && r.Chance(1, 3)) {
		win++ // slash-window ends that are not vote-period ends
	}
	bandPermille := []int64{20, 20, 20, 0, 500, 1000}[r.Intn(6)]
	in.Params = Params{VP: vp, Win: win,
		Thr:  []string{"340000000000000000", "500000000000000000", "666666666666666667"}[r.Intn(3)],
		MinV: []uint64{1, 1, 2, 2, 3}[r.Intn(5)],
		Band: fmt.Sprint(bandPermille * 1000000000000000),
		SF:   []string{"5000000000000000", "100000000000000000", "500000000000000000", "1000000000000000000", "0", "100000000000000", "333333333333333333"}[r.Intn(7)],
		MV:   []string{"690000000000000000", "500000000000000000", "900000000000000000", "1000000000000000000", "0", "340000000000000000"}[r.Intn(6)],
	}
	for p := 0; p < 6; p++ {
		if r.Chance(2, 5) {
			in.WL = append(in.WL, p)
		}
	}
	if len(in.WL) == 0 {
		in.WL = []int{r.Intn(6)}
	}
	n := r.Range(2, 5)
	sloppy := []int{}
	for i := 0; i < n; i++ {
		in.Vals = append(in.Vals, genTok(r))
	}
	for i := 0; i < maxVals; i++ {
		sloppy = append(sloppy, []int{3, 3, 25, 70}[r.Intn(4)])
	}
	nvals := n
	nops := r.Range(8, 24)
	// about half of the histories have their parameters edited on the way (1-4 edits, mostly between two period
	// ends of a running slash window: the counters collected under the old parameters are judged under the new)
	edits := r.Chance(1, 2)
	cur := in.Params
	for i := 0; i < nops; i++ {
		if edits && i > 0 && r.Chance(1, 6) {
			var np Params
			np, bandPermille = genEdit(r, cur)
			cur = np
			in.Ops = append(in.Ops, Op{K: "params", P: &np})
		}
		switch r.Pick(48, 10, 4, 12, 5, 3, 2, 3, 2, 8) {
		case 0:
			in.Ops = append(in.Ops, Op{K: "end", Jump: "period", Votes: genVotes(r, &in, nvals, sloppy, bandPermille)})
		case 1:
			in.Ops = append(in.Ops, Op{K: "end", Jump: "window", Votes: genVotes(r, &in, nvals, sloppy, bandPermille)})
		case 2:
			in.Ops = append(in.Ops, Op{K: "end", Jump: "next", Votes: genVotes(r, &in, nvals, sloppy, bandPermille)})
		case 3:
			amt := func() string {
				switch r.Intn(4) {
				case 0:
					return "0"
				case 1:
					return fmt.Sprint(r.Range(1, 9))
				case 2:
					return fmt.Sprint(r.Range(10, 100000))
				default:
					return fmt.Sprint(int64(r.Range(1, 1000)) * 1000000007)
				}
			}
			c := []string{amt(), amt()}
			if c[0] == "0" && c[1] == "0" {
				c[0] = "7"
			}
			in.Ops = append(in.Ops, Op{K: "alloc", Coins: c, N: uint64(r.Range(1, 5))})
		case 4:
			amt := "all"
			if r.Chance(1, 2) {
				amt = fmt.Sprint(r.Range(1, 2000000))
			}
			victim := r.Intn(nvals)
			if amt == "all" && r.Chance(2, 3) { // prefer a validator that tends to vote out of band
				for v := 0; v < nvals; v++ {
					if sloppy[v] > sloppy[victim] {
						victim = v
					}
				}
			}
			in.Ops = append(in.Ops, Op{K: "undel", V: victim, Amt: amt})
			if amt == "all" && r.Chance(2, 3) { // let the validator unbond and be removed
				in.Ops = append(in.Ops, Op{K: "send"}, Op{K: "send"})
				if r.Chance(1, 2) { // the window ends while the removed validator still has its counter
					in.Ops = append(in.Ops, Op{K: "end", Jump: "window", Votes: genVotes(r, &in, nvals, sloppy, bandPermille)})
				}
			}
		case 5:
			in.Ops = append(in.Ops, Op{K: "jail", V: r.Intn(nvals)})
			if r.Chance(1, 2) { // jailed but still bonded when the window ends
				in.Ops = append(in.Ops, Op{K: "end", Jump: "window", Votes: genVotes(r, &in, nvals, sloppy, bandPermille)})
			}
		case 6:
			in.Ops = append(in.Ops, Op{K: "unjail", V: r.Intn(nvals)})
		case 7:
			if nvals < maxVals-1 {
				in.Ops = append(in.Ops, Op{K: "create", Amt: genTok(r)})
				nvals++
			}
		case 8:
			in.Ops = append(in.Ops, Op{K: "deleg", V: r.Intn(nvals), Amt: fmt.Sprint(r.Range(1, 3000000))})
		default:
			in.Ops = append(in.Ops, Op{K: "send"})
		}
	}
	return in
}

func rate(n int64) string { return new(big.Int).Mul(e18, big.NewInt(n)).String() }

func openers() []Input {
	base := Params{VP: 1, Thr: "500000000000000000", MinV: 1, Band: "20000000000000000", SF: "100000000000000000", Win: 2, MV: "690000000000000000"}
	ten := "10000000"
	var out []Input
	// F9 shape: a validator collects misses, fully undelegates, is removed, then the window ends
	good := func(v int) Vote { return Vote{v, []Tuple{{0, rate(100)}}} }
	bad := func(v int) Vote { return Vote{v, []Tuple{{0, rate(150)}}} }
	p9 := base
	p9.Win = 10
	out = append(out, Input{Params: p9, WL: []int{0}, Vals: []string{ten, ten, ten}, Ops: []Op{
		{K: "end", Jump: "period", Votes: []Vote{good(0), good(1), bad(2)}},
		{K: "end", Jump: "period", Votes: []Vote{good(0), good(1), bad(2)}},
		{K: "end", Jump: "period", Votes: []Vote{good(0), good(1), bad(2)}},
		{K: "end", Jump: "period", Votes: []Vote{good(0), good(1), bad(2)}},
		{K: "undel", V: 2, Amt: "all"}, {K: "send"}, {K: "send"},
		{K: "end", Jump: "window", Votes: []Vote{good(0), good(1)}},
	}})
	// one offender slashed at the window end; rewards over overlapping allocations
	out = append(out, Input{Params: base, WL: []int{0}, Vals: []string{ten, ten, "5000000"}, Ops: []Op{
		{K: "alloc", Coins: []string{"100", "0"}, N: 3},
		{K: "end", Jump: "period", Votes: []Vote{good(0), good(1), bad(2)}},
		{K: "alloc", Coins: []string{"7", "1000"}, N: 2},
		{K: "end", Jump: "period", Votes: []Vote{good(0), good(1), bad(2)}},
		{K: "end", Jump: "period", Votes: []Vote{good(0), {1, []Tuple{{0, "0"}}}}},
		{K: "end", Jump: "period", Votes: []Vote{good(0), good(1), good(2)}},
	}})
	// abstain / no vote are no misses; jailed validator with a low rate is not slashed again
	out = append(out, Input{Params: base, WL: []int{0, 1}, Vals: []string{ten, ten, ten}, Ops: []Op{
		{K: "end", Jump: "period", Votes: []Vote{{0, []Tuple{{0, rate(100)}, {1, rate(200)}}}, {1, []Tuple{{0, "0"}, {1, "-1"}}}, bad(2)}},
		{K: "jail", V: 2},
		{K: "end", Jump: "period", Votes: []Vote{{0, []Tuple{{0, rate(100)}, {1, rate(200)}}}, bad(2)}},
	}})
	// a single huge (accepted) vote makes the squared deviation overflow: StandardDeviation recovers
	// to 0, the band shrinks to median*band/2, and the vote at 101.5 is a miss
	huge := "1" + fmt.Sprintf("%088d", 0)
	out = append(out, Input{Params: base, WL: []int{0}, Vals: []string{ten, ten, ten}, Ops: []Op{
		{K: "end", Jump: "period", Votes: []Vote{good(0), {1, []Tuple{{0, "101500000000000000000"}}}, {2, []Tuple{{0, huge}}}}},
		{K: "end", Jump: "period", Votes: []Vote{good(0), {1, []Tuple{{0, "101500000000000000000"}}}, {2, []Tuple{{0, rate(103)}}}}},
	}})
	// rates near the largest Dec: before 66a0ce3 Tally's median.Add(spread) overflowed and EndBlock panicked
	limit := new(big.Int).Lsh(big.NewInt(1), 256)
	limit.Mul(limit, e18)
	limit.Sub(limit, big.NewInt(1))
	out = append(out, Input{Params: base, WL: []int{0}, Vals: []string{ten}, Ops: []Op{
		{K: "alloc", Coins: []string{"50", "0"}, N: 2},
		{K: "end", Jump: "period", Votes: []Vote{{0, []Tuple{{0, limit.String()}}}}},
		{K: "end", Jump: "period", Votes: []Vote{{0, []Tuple{{0, limit.String()}}}}},
	}})
	out = append(out, Input{Params: base, WL: []int{0, 1}, Vals: []string{ten, ten, ten}, Ops: []Op{
		{K: "end", Jump: "period", Votes: []Vote{{0, []Tuple{{0, mulFrac(limit, 995, 1000)}, {1, rate(200)}}}, {1, []Tuple{{0, mulFrac(limit, 995, 1000)}, {1, rate(200)}}}, {2, []Tuple{{0, rate(100)}, {1, rate(300)}}}}},
		{K: "end", Jump: "period", Votes: []Vote{good(0), good(1), bad(2)}},
	}})
	// feeder outage: in period 1 only validator 2 votes (out of band, no quorum: MinVoters 2); in period 2
	// validators 0 and 1 vote and 2 stays silent: 2 must get neither a miss nor reward weight
	pq := base
	pq.MinV = 2
	pq.Win = 10
	out = append(out, Input{Params: pq, WL: []int{0}, Vals: []string{ten, ten, ten}, Ops: []Op{
		{K: "alloc", Coins: []string{"90", "0"}, N: 3},
		{K: "end", Jump: "period", Votes: []Vote{bad(2)}},
		{K: "end", Jump: "period", Votes: []Vote{good(0), good(1)}},
		{K: "end", Jump: "period", Votes: []Vote{good(2)}},
		{K: "end", Jump: "period", Votes: []Vote{good(0), good(1)}},
	}})
	// parameter edits in the middle of a slash window (window of 4 periods), to values of ZERO that Validate accepts:
	// (a) MinValidPerWindow 0 after three misses: valid rate 1/4 is not below 0 — nobody is slashed;
	pw := base
	pw.Win = 4
	edit := func(f func(p *Params)) Op { p := pw; f(&p); return Op{K: "params", P: &p} }
	out = append(out, Input{Params: pw, WL: []int{0}, Vals: []string{ten, ten, "5000000"}, Ops: []Op{
		{K: "end", Jump: "period", Votes: []Vote{good(0), good(1), bad(2)}},
		{K: "end", Jump: "period", Votes: []Vote{good(0), good(1), bad(2)}},
		edit(func(p *Params) { p.MV = "0" }),
		{K: "end", Jump: "period", Votes: []Vote{good(0), good(1), bad(2)}},
		{K: "end", Jump: "window", Votes: []Vote{good(0), good(1), good(2)}},
	}})
	// (b) SlashFraction 0: the offender is jailed and keeps all its tokens;
	out = append(out, Input{Params: pw, WL: []int{0}, Vals: []string{ten, ten, "5000000"}, Ops: []Op{
		{K: "end", Jump: "period", Votes: []Vote{good(0), good(1), bad(2)}},
		edit(func(p *Params) { p.SF = "0" }),
		{K: "end", Jump: "period", Votes: []Vote{good(0), good(1), bad(2)}},
		{K: "end", Jump: "period", Votes: []Vote{good(0), good(1), bad(2)}},
		{K: "end", Jump: "window", Votes: []Vote{good(0), good(1), good(2)}},
	}})
	// (c) RewardBand 0: the band is the standard deviation alone — 100.5 against 100, 100 (σ ≈ 0.29) is a miss and
	// earns nothing, although it lies within 1 % of the median; then the band is edited back and the same vote wins
	near := func(v int) Vote { return Vote{v, []Tuple{{0, "100500000000000000000"}}} }
	out = append(out, Input{Params: pw, WL: []int{0}, Vals: []string{ten, ten, ten}, Ops: []Op{
		{K: "alloc", Coins: []string{"90", "0"}, N: 3},
		{K: "end", Jump: "period", Votes: []Vote{good(0), good(1), near(2)}},
		edit(func(p *Params) { p.Band = "0" }),
		{K: "end", Jump: "period", Votes: []Vote{good(0), good(1), near(2)}},
		edit(func(p *Params) {}),
		{K: "end", Jump: "period", Votes: []Vote{good(0), good(1), near(2)}},
		{K: "end", Jump: "window", Votes: []Vote{good(0), good(1), good(2)}},
	}})
	return out
}

func TestC12(t *testing.T) {
	cfg := LoadCfg(t, 170, 2500)
	em := NewEmitter(t, cfg.Out)
	defer em.Close()
	emit := func(in Input) {
		sort.Ints(in.WL)
		obs, err := runCase(t, in)
		if err != nil {
			t.Logf("case skipped: %v", err)
			return
		}
		em.Emit(in, obs, nil)
	}
	if cfg.Replay != "" {
		for _, raw := range cfg.ReplayInputs(t) {
			var in Input
			if err := json.Unmarshal(raw, &in); err != nil {
				t.Fatalf("replay input: %v", err)
			}
			emit(in)
		}
		return
	}
	for _, in := range openers() {
		emit(in)
	}
	rng := NewRng(cfg.Seed)
	for i := 0; i < cfg.N; i++ {
		emit(genCase(rng.Fork()))
	}
}
