package c10

// C10 — oracle prices are the power-weighted median of a sufficient quorum.
//
// A case is one call of the real oracle.EndBlocker on the x/oracle keeper test fixture at a chosen
// height, after a generated staking situation (1-12 validators with generated tokens; some created
// after the last staking EndBlocker = unbonded; some undelegated / jailed after bonding; optionally
// MaxValidators lowered below the number of bonded validators), generated oracle parameters
// (accepted by Params.Validate), a whitelist, Votes store entries (positive / zero / negative rates,
// missing pairs, strangers, non-whitelisted pairs, huge magnitudes) and pre-existing ExchangeRates.
//
// Observables: the ExchangeRates store afterwards (pair id, raw rate, created block) and the
// EventPriceUpdate events (pair id, raw price) in emission order; or "panic".
// obs.pre is the staking state as the oracle keeper sees it through the staking keeper API
// (power-store iteration order with bonded flag and consensus power, total bonded tokens).

import (
	"encoding/json"
	"fmt"
	"math/big"
	"sort"
	"strings"
	"testing"

	sdkmath "cosmossdk.io/math"
	cryptotypes "github.com/cosmos/cosmos-sdk/crypto/types"
	"github.com/cosmos/cosmos-sdk/testutil/sims"
	sdk "github.com/cosmos/cosmos-sdk/types"
	"github.com/cosmos/cosmos-sdk/x/staking"
	stakingkeeper "github.com/cosmos/cosmos-sdk/x/staking/keeper"
	stakingtypes "github.com/cosmos/cosmos-sdk/x/staking/types"

	"github.com/NibiruChain/collections"

	. "verifharness/hx"

	"github.com/NibiruChain/nibiru/v2/x/common/asset"
	"github.com/NibiruChain/nibiru/v2/x/oracle"
	okeeper "github.com/NibiruChain/nibiru/v2/x/oracle/keeper"
	otypes "github.com/NibiruChain/nibiru/v2/x/oracle/types"
)

type Val struct {
	Tok   string `json:"tok"`   // self-delegated tokens at creation
	Late  bool   `json:"late"`  // created after the staking EndBlocker (stays unbonded)
	Undel string `json:"undel"` // tokens undelegated after bonding ("0" = none)
	Jail  bool   `json:"jail"`  // jailed after bonding
}
type Params struct {
	VP   uint64 `json:"vp"`
	Thr  string `json:"thr"` // raw Dec
	MinV uint64 `json:"minv"`
	Exp  uint64 `json:"exp"`
	Band string `json:"band"` // raw Dec
	Win  uint64 `json:"win,omitempty"` // SlashWindow; 0 = so large that it is never reached
	MV   string `json:"mv,omitempty"`  // MinValidPerWindow raw (default 0.69)
}
type Tuple struct {
	P int    `json:"p"`
	R string `json:"r"` // raw Dec
}
type Vote struct {
	Voter int     `json:"voter"` // index into vals; >= len(vals): an address that is no validator
	T     []Tuple `json:"t"`
}
type Rate struct {
	P int    `json:"p"`
	R string `json:"r"`
	C uint64 `json:"c"`
}
type Input struct {
	Vals   []Val  `json:"vals"`
	MaxV   uint32 `json:"maxv"` // 0: leave the default (100)
	Params Params `json:"params"`
	WL     []int  `json:"wl"`
	Votes  []Vote `json:"votes"`
	Rates  []Rate `json:"rates"`
	H      int64  `json:"h"`
}
type PreVal struct {
	ID     int    `json:"id"`
	Bonded bool   `json:"bonded"`
	Power  string `json:"power"`
}
type Pre struct {
	Order []PreVal `json:"order"`
	BTok  string   `json:"btok"`
	MaxV  uint32   `json:"maxv"`
	PR    string   `json:"pr"`
}
type Obs struct {
	Pre    Pre     `json:"pre"`
	Panic  bool    `json:"panic"`
	Rates  []Rate  `json:"rates"`
	Events []Tuple `json:"events"`
}

const nPairs = 6

var pairs = []asset.Pair{"paa:usd", "pab:usd", "pac:usd", "pad:usd", "pae:usd", "paf:usd"}
var pubKeys = sims.CreateTestPubKeys(16)

func accAddr(i int) sdk.AccAddress {
	b := make([]byte, 20)
	for j := range b {
		b[j] = byte(i + 1)
	}
	b[0] = byte(0xA0 + i)
	return sdk.AccAddress(b)
}

func bigOf(s string) *big.Int {
	b, ok := new(big.Int).SetString(s, 10)
	if !ok {
		panic("bad integer " + s)
	}
	return b
}
func decOfRaw(s string) sdk.Dec { return sdkmath.LegacyNewDecFromBigIntWithPrec(bigOf(s), 18) }

func pairID(p asset.Pair) int {
	for i, q := range pairs {
		if p == q {
			return i
		}
	}
	return -1
}

// prepare builds the fixture: validators, staking situation, oracle params, whitelist.
func prepare(t *testing.T, in Input) (okeeper.TestFixture, sdk.Context, error) {
	f := okeeper.CreateTestFixture(t)
	ctx := f.Ctx
	sh := stakingkeeper.NewMsgServerImpl(&f.StakingKeeper)
	if len(in.Vals) > len(pubKeys) {
		return f, ctx, fmt.Errorf("too many validators")
	}
	create := func(i int) error {
		amt := sdkmath.NewIntFromBigInt(bigOf(in.Vals[i].Tok))
		if err := okeeper.FundAccount(f, accAddr(i), sdk.NewCoins(sdk.NewCoin("unibi", amt))); err != nil {
			return err
		}
		_, err := sh.CreateValidator(ctx, okeeper.NewTestMsgCreateValidator(sdk.ValAddress(accAddr(i)), cryptotypes.PubKey(pubKeys[i]), amt))
		return err
	}
	for i, v := range in.Vals {
		if !v.Late {
			if err := create(i); err != nil {
				return f, ctx, err
			}
		}
	}
	staking.EndBlocker(ctx, &f.StakingKeeper)
	for i, v := range in.Vals {
		if v.Late {
			if err := create(i); err != nil {
				return f, ctx, err
			}
		}
	}
	for i, v := range in.Vals {
		if v.Undel != "" && v.Undel != "0" {
			// errors (e.g. more than delegated) leave the state unchanged; the pre-state below is read back anyway
			_, _ = sh.Undelegate(ctx, stakingtypes.NewMsgUndelegate(accAddr(i), sdk.ValAddress(accAddr(i)),
				sdk.NewCoin("unibi", sdkmath.NewIntFromBigInt(bigOf(v.Undel)))))
		}
		if v.Jail {
			val, found := f.StakingKeeper.GetValidator(ctx, sdk.ValAddress(accAddr(i)))
			if found && !val.Jailed {
				ca, _ := val.GetConsAddr()
				f.StakingKeeper.Jail(ctx, ca)
			}
		}
	}
	if in.MaxV > 0 {
		sp := f.StakingKeeper.GetParams(ctx)
		sp.MaxValidators = in.MaxV
		if err := f.StakingKeeper.SetParams(ctx, sp); err != nil {
			return f, ctx, err
		}
	}

	// oracle parameters
	p, _ := f.OracleKeeper.Params.Get(ctx)
	p.VotePeriod = in.Params.VP
	p.VoteThreshold = decOfRaw(in.Params.Thr)
	p.MinVoters = in.Params.MinV
	p.ExpirationBlocks = in.Params.Exp
	p.RewardBand = decOfRaw(in.Params.Band)
	p.SlashWindow = in.Params.VP * 1000003 // never reached by the generated heights
	if in.Params.Win > 0 {
		p.SlashWindow = in.Params.Win
	}
	if in.Params.MV != "" {
		p.MinValidPerWindow = decOfRaw(in.Params.MV)
	}
	p.Whitelist = nil
	for _, w := range in.WL {
		p.Whitelist = append(p.Whitelist, pairs[w])
	}
	if err := p.Validate(); err != nil {
		return f, ctx, fmt.Errorf("params rejected: %w", err)
	}
	f.OracleKeeper.Params.Set(ctx, p)
	for _, k := range f.OracleKeeper.WhitelistedPairs.Iterate(ctx, collections.Range[asset.Pair]{}).Keys() {
		f.OracleKeeper.WhitelistedPairs.Delete(ctx, k)
	}
	for _, w := range in.WL {
		f.OracleKeeper.WhitelistedPairs.Insert(ctx, pairs[w])
	}
	return f, ctx, nil
}

func insertVotes(f okeeper.TestFixture, ctx sdk.Context, votes []Vote) {
	for _, v := range votes {
		va := sdk.ValAddress(accAddr(v.Voter))
		var ts otypes.ExchangeRateTuples
		for _, tu := range v.T {
			ts = append(ts, otypes.ExchangeRateTuple{Pair: pairs[tu.P], ExchangeRate: decOfRaw(tu.R)})
		}
		f.OracleKeeper.Votes.Insert(ctx, va, otypes.NewAggregateExchangeRateVote(ts, va))
	}
}

// readPre reads the staking state as the oracle keeper sees it through the staking keeper API.
func readPre(f okeeper.TestFixture, ctx sdk.Context, nvals int) Pre {
	var pre Pre
	ids := map[string]int{}
	for i := 0; i < nvals; i++ {
		ids[sdk.ValAddress(accAddr(i)).String()] = i
	}
	pr := f.StakingKeeper.PowerReduction(ctx)
	pre.Order = []PreVal{}
	it := f.StakingKeeper.ValidatorsPowerStoreIterator(ctx)
	for ; it.Valid(); it.Next() {
		v := f.StakingKeeper.Validator(ctx, it.Value())
		id, ok := ids[v.GetOperator().String()]
		if !ok {
			id = 99
		}
		pre.Order = append(pre.Order, PreVal{ID: id, Bonded: v.IsBonded(), Power: fmt.Sprint(v.GetConsensusPower(pr))})
	}
	it.Close()
	pre.BTok = f.StakingKeeper.TotalBondedTokens(ctx).String()
	pre.MaxV = f.StakingKeeper.MaxValidators(ctx)
	pre.PR = pr.String()
	return pre
}

// readRatesEvents reads the ExchangeRates store and the EventPriceUpdate events of ctx.
func readRatesEvents(f okeeper.TestFixture, ctx sdk.Context) ([]Rate, []Tuple, error) {
	rates := []Rate{}
	for _, kv := range f.OracleKeeper.ExchangeRates.Iterate(ctx, collections.Range[asset.Pair]{}).KeyValues() {
		rates = append(rates, Rate{P: pairID(kv.Key), R: kv.Value.ExchangeRate.BigInt().String(), C: kv.Value.CreatedBlock})
	}
	events := []Tuple{}
	for _, ev := range ctx.EventManager().Events() {
		if ev.Type != "nibiru.oracle.v1.EventPriceUpdate" {
			continue
		}
		var tu Tuple
		for _, a := range ev.Attributes {
			val := strings.Trim(a.Value, "\"")
			switch a.Key {
			case "pair":
				tu.P = pairID(asset.Pair(val))
			case "price":
				d, err := sdkmath.LegacyNewDecFromStr(val)
				if err != nil {
					return nil, nil, fmt.Errorf("event price %q: %w", val, err)
				}
				tu.R = d.BigInt().String()
			}
		}
		events = append(events, tu)
	}
	return rates, events, nil
}

func runCase(t *testing.T, in Input) (Obs, error) {
	var obs Obs
	f, ctx, err := prepare(t, in)
	if err != nil {
		return obs, err
	}
	insertVotes(f, ctx, in.Votes)
	for _, r := range in.Rates {
		f.OracleKeeper.ExchangeRates.Insert(ctx, pairs[r.P], otypes.ExchangeRateAtBlock{
			ExchangeRate: decOfRaw(r.R), CreatedBlock: r.C, BlockTimestampMs: 0})
	}
	obs.Pre = readPre(f, ctx, len(in.Vals))
	ctx2 := ctx.WithBlockHeight(in.H).WithEventManager(sdk.NewEventManager())
	pan := Recover(func() { oracle.EndBlocker(ctx2, f.OracleKeeper) })
	if pan != "" {
		obs.Panic = true
		return obs, nil
	}
	obs.Rates, obs.Events, err = readRatesEvents(f, ctx2)
	return obs, err
}

// ---------------------------------------------------------------- generation

var e18 = new(big.Int).Exp(big.NewInt(10), big.NewInt(18), nil)

func mulFrac(b *big.Int, num, den int64) *big.Int {
	x := new(big.Int).Mul(b, big.NewInt(num))
	return x.Quo(x, big.NewInt(den))
}

func pow10(n int) *big.Int { return new(big.Int).Exp(big.NewInt(10), big.NewInt(int64(n)), nil) }

func decLimit() *big.Int {
	x := new(big.Int).Lsh(big.NewInt(1), 256)
	x.Mul(x, e18)
	return x.Sub(x, big.NewInt(1))
}

func genTokens(r *Rng, mode int) string {
	var power int64
	switch mode {
	case 0:
		power = 1
	case 1:
		power = int64(r.Range(1, 3))
	case 2:
		power = int64(r.Range(1, 9))
	case 3:
		power = []int64{1, 1, 2, 5, 10, 100, 1000}[r.Intn(7)]
	default:
		power = []int64{1, 1000000, 1000000000000, 400000000000000000}[r.Intn(4)]
	}
	frac := []int64{0, 0, 0, 1, 499999, 500000, 999999}[r.Intn(7)]
	tok := new(big.Int).Mul(big.NewInt(power), big.NewInt(1000000))
	tok.Add(tok, big.NewInt(frac))
	return tok.String()
}

func genRate(r *Rng, base *big.Int, extreme bool) string {
	switch r.Pick(30, 8, 8, 8, 6, 6, 4, 3, 3, 2) {
	case 0:
		return base.String()
	case 1:
		return new(big.Int).Add(base, big.NewInt(1)).String()
	case 2:
		return mulFrac(base, 101, 100).String()
	case 3:
		return mulFrac(base, 99, 100).String()
	case 4:
		return mulFrac(base, 3, 2).String()
	case 5:
		return mulFrac(base, 1, 2).String()
	case 6:
		return mulFrac(base, int64(r.Range(900, 1100)), 1000).String()
	case 7:
		return "1"
	case 8:
		return pow10(r.Range(30, 60)).String()
	default:
		if extreme {
			l := decLimit()
			switch r.Intn(3) {
			case 0:
				return l.String()
			case 1:
				return mulFrac(l, 2, 3).String()
			default:
				return new(big.Int).Rsh(l, 1).String()
			}
		}
		return pow10(r.Range(60, 94)).String() // < 2^255*10^18
	}
}

func genAbstain(r *Rng) string {
	switch r.Pick(6, 2, 2) {
	case 0:
		return "0"
	case 1:
		return "-1"
	default:
		return "-5000000000000000000"
	}
}

func genCase(r *Rng, extreme bool) Input {
	var in Input
	n := r.Range(1, 12)
	if r.Chance(1, 2) {
		n = r.Range(1, 5)
	}
	mode := r.Intn(5)
	for i := 0; i < n; i++ {
		v := Val{Tok: genTokens(r, mode), Undel: "0"}
		if r.Chance(1, 14) {
			v.Late = true
		} else {
			if r.Chance(1, 10) {
				tok := bigOf(v.Tok)
				switch r.Intn(3) {
				case 0:
					v.Undel = tok.String() // everything: bonded with 0 tokens until the next staking EndBlocker
				case 1:
					v.Undel = new(big.Int).Sub(tok, big.NewInt(999999)).String() // power drops to 0
				default:
					v.Undel = mulFrac(tok, 1, 2).String()
				}
				if bigOf(v.Undel).Sign() <= 0 {
					v.Undel = "0"
				}
			}
			if r.Chance(1, 16) {
				v.Jail = true
			}
		}
		in.Vals = append(in.Vals, v)
	}
	if r.Chance(1, 8) {
		in.MaxV = uint32(r.Range(1, n))
	}
	// parameters
	in.Params.VP = []uint64{1, 1, 2, 3, 5, 10}[r.Intn(6)]
	thrs := []string{"340000000000000000", "500000000000000000", "666666666666666667", "330000000000000001",
		"750000000000000000", "1000000000000000000", "333333333333333333", "400000000000000000", "600000000000000000"}
	in.Params.Thr = thrs[r.Intn(len(thrs))]
	if r.Chance(1, 10) {
		in.Params.Thr = fmt.Sprint(330000000000000001 + r.Intn(669999999)*1000000000)
	}
	in.Params.MinV = []uint64{1, 1, 1, 1, 1, 2, 2, 3, 4, uint64(n + 1)}[r.Intn(10)]
	in.Params.Exp = []uint64{0, 1, 3, 5, 10, 100, 900}[r.Intn(7)]
	if r.Chance(1, 12) { // since 48f939b no wrap-around: such rates never expire
		in.Params.Exp = []uint64{18446744073709551615, 9223372036854775808, 18446744073709551615 - uint64(r.Intn(50))}[r.Intn(3)]
	}
	in.Params.Band = []string{"0", "20000000000000000", "20000000000000000", "500000000000000000", "1000000000000000000", "1"}[r.Intn(6)]
	// height: mostly a period end
	k := int64(r.Range(1, 40))
	in.H = k*int64(in.Params.VP) - 1
	if in.Params.VP > 1 && r.Chance(1, 8) {
		in.H -= int64(r.Range(1, int(in.Params.VP)-1))
	}
	if in.H < 0 {
		in.H = int64(in.Params.VP) - 1
	}
	// whitelist
	for p := 0; p < nPairs; p++ {
		if r.Chance(4, 5) {
			in.WL = append(in.WL, p)
		}
	}
	if len(in.WL) == 0 && r.Chance(9, 10) {
		in.WL = []int{r.Intn(nPairs)}
	}
	// votes
	bases := make([]*big.Int, nPairs)
	for p := range bases {
		scale := []int64{1, 1, 1700, 30000, 7}[r.Intn(5)]
		bases[p] = new(big.Int).Mul(e18, big.NewInt(scale*int64(p+1)))
		if r.Chance(1, 8) {
			bases[p] = big.NewInt(int64(r.Range(2, 5000))) // tiny prices
		}
	}
	activePairs := []int{}
	for p := 0; p < nPairs; p++ {
		if r.Chance(1, 2) {
			activePairs = append(activePairs, p)
		}
	}
	if len(activePairs) == 0 {
		activePairs = []int{r.Intn(nPairs)}
	}
	voters := n
	if r.Chance(1, 6) {
		voters = n + r.Range(1, 2) // strangers
	}
	for v := 0; v < voters; v++ {
		if r.Chance(1, 12) {
			continue // no vote at all
		}
		vt := Vote{Voter: v, T: []Tuple{}}
		for _, p := range activePairs {
			switch r.Pick(10, 12, 78) {
			case 0:
			case 1:
				vt.T = append(vt.T, Tuple{P: p, R: genAbstain(r)})
			default:
				vt.T = append(vt.T, Tuple{P: p, R: genRate(r, bases[p], extreme)})
			}
		}
		if len(vt.T) > 0 && r.Chance(1, 30) { // duplicate tuple (rejected by the msg server, possible in the store)
			d := vt.T[r.Intn(len(vt.T))]
			vt.T = append(vt.T, d)
		}
		in.Votes = append(in.Votes, vt)
	}
	if extreme && r.Chance(1, 2) && len(in.Votes) > 0 {
		// a whole pair voted near the largest Dec: median + spread would leave the Dec range
		p := activePairs[r.Intn(len(activePairs))]
		l := decLimit()
		for vi := range in.Votes {
			for ti := range in.Votes[vi].T {
				if in.Votes[vi].T[ti].P == p && bigOf(in.Votes[vi].T[ti].R).Sign() > 0 {
					in.Votes[vi].T[ti].R = []string{l.String(), new(big.Int).Sub(l, big.NewInt(1)).String(), mulFrac(l, 2, 3).String(), mulFrac(l, 9, 10).String()}[r.Intn(4)]
				}
			}
		}
	}
	// pre-existing rates around the expiry boundary
	for p := 0; p < nPairs; p++ {
		if !r.Chance(1, 2) {
			continue
		}
		c := in.H - int64(in.Params.Exp) + int64(r.Range(-2, 2))
		if r.Chance(1, 6) {
			c = in.H
		}
		if r.Chance(1, 10) {
			c = 0
		}
		if c < 0 {
			c = 0
		}
		in.Rates = append(in.Rates, Rate{P: p, R: genRate(r, bases[p], false), C: uint64(c)})
	}
	if in.Votes == nil {
		in.Votes = []Vote{}
	}
	if in.Rates == nil {
		in.Rates = []Rate{}
	}
	if in.WL == nil {
		in.WL = []int{}
	}
	return in
}

func five(n int64) string { return new(big.Int).Mul(e18, big.NewInt(n)).String() }

func openers() []Input {
	base := Params{VP: 1, Thr: "500000000000000000", MinV: 1, Exp: 10, Band: "20000000000000000"}
	one := Val{Tok: "1000000", Undel: "0"}
	var out []Input
	// F7 shape: two validators of power 1, one votes 5.0, one abstains
	out = append(out, Input{Vals: []Val{one, one}, Params: base, WL: []int{0}, H: 4, Rates: []Rate{},
		Votes: []Vote{{Voter: 0, T: []Tuple{{0, five(5)}}}, {Voter: 1, T: []Tuple{{0, "0"}}}}})
	// a single validator of power 1
	out = append(out, Input{Vals: []Val{one}, Params: base, WL: []int{0, 1}, H: 4, Rates: []Rate{{1, five(3), 0}},
		Votes: []Vote{{Voter: 0, T: []Tuple{{0, five(7)}}}}})
	// three equal validators voting 1, 2, 3
	out = append(out, Input{Vals: []Val{one, one, one}, Params: base, WL: []int{0}, H: 4, Rates: []Rate{},
		Votes: []Vote{{0, []Tuple{{0, five(3)}}}, {1, []Tuple{{0, five(1)}}}, {2, []Tuple{{0, five(2)}}}}})
	// two equal validators voting 1 and 2: ">=" picks 1
	out = append(out, Input{Vals: []Val{one, one}, Params: base, WL: []int{0}, H: 4, Rates: []Rate{},
		Votes: []Vote{{0, []Tuple{{0, five(2)}}}, {1, []Tuple{{0, five(1)}}}}})
	// threshold rounding: bonded power 5, threshold 0.5 -> 2.5 -> banker's 2; voted power 2 passes
	out = append(out, Input{Vals: []Val{{Tok: "2000000", Undel: "0"}, one, one, one}, Params: base, WL: []int{0}, H: 4, Rates: []Rate{},
		Votes: []Vote{{0, []Tuple{{0, five(2)}}}}})
	// bonded power 3, threshold 0.5 -> 1.5 -> 2; voted power 1 fails, 2 passes
	out = append(out, Input{Vals: []Val{one, one, one}, Params: base, WL: []int{0, 1}, H: 4, Rates: []Rate{},
		Votes: []Vote{{0, []Tuple{{0, five(2)}, {1, five(4)}}}, {1, []Tuple{{1, five(4)}}}}})
	// expiry boundary without votes: created 0 (expired at h=10 with exp 10), created 1 (kept)
	out = append(out, Input{Vals: []Val{one}, Params: base, WL: []int{0, 1}, H: 10, Votes: []Vote{},
		Rates: []Rate{{0, five(1), 0}, {1, five(1), 1}}})
	// not the last block of a period: nothing happens
	p2 := base
	p2.VP = 5
	out = append(out, Input{Vals: []Val{one}, Params: p2, WL: []int{0}, H: 7, Rates: []Rate{{0, five(1), 0}},
		Votes: []Vote{{0, []Tuple{{0, five(2)}}}}})
	// zero-power bonded validator with a positive rate + one abstainer: only power-carrying votes decide
	out = append(out, Input{Vals: []Val{{Tok: "1000000", Undel: "1"}, one}, Params: base, WL: []int{0}, H: 4, Rates: []Rate{},
		Votes: []Vote{{0, []Tuple{{0, five(9)}}}, {1, []Tuple{{0, five(4)}}}}})
	// the shapes that misbehaved before the fixes 48f939b / 66a0ce3 (kept as regression openers):
	// ExpirationBlocks = 2^64-1 used to wrap the uint64 addition and drop the fresh rate; now it is kept
	pw := base
	pw.Exp = 18446744073709551615
	out = append(out, Input{Vals: []Val{one}, Params: pw, WL: []int{0}, H: 9, Votes: []Vote{},
		Rates: []Rate{{0, five(5), 5}}})
	// a single validator votes the largest Dec: Tally used to overflow in median.Add(spread); now it is published
	out = append(out, Input{Vals: []Val{one}, Params: base, WL: []int{0}, H: 4, Rates: []Rate{},
		Votes: []Vote{{0, []Tuple{{0, decLimit().String()}}}}})
	// VoteThreshold exactly 1.0 (the largest accepted value), bonded power 3: all of it must vote
	pt := base
	pt.Thr = "1000000000000000000"
	out = append(out, Input{Vals: []Val{one, one, one}, Params: pt, WL: []int{0, 1}, H: 4, Rates: []Rate{},
		Votes: []Vote{{0, []Tuple{{0, five(5)}, {1, five(2)}}}, {1, []Tuple{{0, five(5)}, {1, five(2)}}}, {2, []Tuple{{0, five(6)}}}}})
	return out
}

func TestC10(t *testing.T) {
	cfg := LoadCfg(t, 330, 6000)
	em := NewEmitter(t, cfg.Out)
	defer em.Close()
	emit := func(in Input) {
		sort.Ints(in.WL)
		obs, err := runCase(t, in)
		if err != nil {
			t.Logf("case skipped: %v", err)
			return
		}
		em.Emit(in, obs, nil)
	}
	if cfg.Replay != "" {
		for _, raw := range cfg.ReplayInputs(t) {
			var probe struct {
				Kind string `json:"kind"`
			}
			_ = json.Unmarshal(raw, &probe)
			if probe.Kind == "hist" || probe.Kind == "params" || probe.Kind == "msg" {
				continue
			}
			var in Input
			if err := json.Unmarshal(raw, &in); err != nil {
				t.Fatalf("replay input: %v", err)
			}
			emit(in)
		}
		return
	}
	for _, in := range openers() {
		emit(in)
	}
	rng := NewRng(cfg.Seed)
	for i := 0; i < cfg.N; i++ {
		r := rng.Fork()
		emit(genCase(r, i%12 == 11))
	}
}
