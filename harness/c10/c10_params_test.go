package c10

// C10, third driver: which oracle parameter values does the code accept?  The theorems quantify over
// "parameter values accepted by Params.Validate" (Spec.params_valid); this driver ties that predicate to
// the real Params.Validate and to the real MsgEditOracleParams path (sudo sender, full test app): an edit
// is accepted iff the merged parameters are valid, and a rejected edit leaves the stored parameters
// unchanged.

import (
	"encoding/json"
	"testing"

	sdk "github.com/cosmos/cosmos-sdk/types"

	. "verifharness/hx"

	"github.com/NibiruChain/nibiru/v2/x/common/testutil/testapp"
	okeeper "github.com/NibiruChain/nibiru/v2/x/oracle/keeper"
	otypes "github.com/NibiruChain/nibiru/v2/x/oracle/types"
	sudotypes "github.com/NibiruChain/nibiru/v2/x/sudo/types"
)

type PInput struct {
	Kind   string `json:"kind"` // "params"
	Params Params `json:"params"`
}
type PObs struct {
	ValidateOK bool   `json:"validate_ok"`
	Edit       string `json:"edit"`      // ok | rejected | na (a zero field means "keep" in the edit message)
	StoredOK   bool   `json:"stored_ok"` // accepted: stored = edited values; rejected: stored unchanged
}

func fullParams(in Params) otypes.Params {
	p := otypes.DefaultParams()
	p.VotePeriod = in.VP
	p.VoteThreshold = decOfRaw(in.Thr)
	p.MinVoters = in.MinV
	p.ExpirationBlocks = in.Exp
	p.RewardBand = decOfRaw(in.Band)
	p.SlashWindow = in.VP * 10
	if p.SlashWindow == 0 {
		p.SlashWindow = 10
	}
	return p
}

func sameFive(a otypes.Params, b otypes.Params) bool {
	return a.VotePeriod == b.VotePeriod && a.VoteThreshold.Equal(b.VoteThreshold) && a.MinVoters == b.MinVoters &&
		a.ExpirationBlocks == b.ExpirationBlocks && a.RewardBand.Equal(b.RewardBand) && a.SlashWindow == b.SlashWindow
}

func TestC10Params(t *testing.T) {
	cfg := LoadCfg(t, 70, 600)
	em := NewEmitter(t, cfg.Out)
	defer em.Close()
	app, ctx := testapp.NewNibiruTestAppAndContext()
	root := sdk.AccAddress([]byte("c10-params-sudo-root"))
	app.SudoKeeper.Sudoers.Set(ctx, sudotypes.Sudoers{Root: root.String()})
	srv := okeeper.NewMsgServerImpl(app.OracleKeeper, app.SudoKeeper)
	run := func(in PInput) {
		var obs PObs
		full := fullParams(in.Params)
		obs.ValidateOK = full.Validate() == nil
		obs.Edit = "na"
		obs.StoredOK = true
		if in.Params.VP != 0 && in.Params.MinV != 0 && in.Params.Exp != 0 {
			def := otypes.DefaultParams()
			app.OracleKeeper.Params.Set(ctx, def)
			thr, band := full.VoteThreshold, full.RewardBand
			_, err := srv.EditOracleParams(sdk.WrapSDKContext(ctx), &otypes.MsgEditOracleParams{Sender: root.String(),
				Params: &otypes.OracleParamsMsg{VotePeriod: full.VotePeriod, VoteThreshold: &thr, RewardBand: &band,
					SlashWindow: full.SlashWindow, MinVoters: full.MinVoters, ExpirationBlocks: full.ExpirationBlocks}})
			stored, _ := app.OracleKeeper.Params.Get(ctx)
			if err == nil {
				obs.Edit = "ok"
				obs.StoredOK = sameFive(stored, full)
			} else {
				obs.Edit = "rejected"
				obs.StoredOK = sameFive(stored, def)
			}
		}
		em.Emit(in, obs, nil)
	}
	if cfg.Replay != "" {
		for _, raw := range cfg.ReplayInputs(t) {
			var in PInput
			if err := json.Unmarshal(raw, &in); err != nil || in.Kind != "params" {
				continue
			}
			run(in)
		}
		return
	}
	thrs := []string{"330000000000000000", "330000000000000001", "500000000000000000", "1000000000000000000",
		"1000000000000000001", "1500000000000000000", decLimit().String(), "0", "-500000000000000000", "666666666666666667"}
	bands := []string{"-1", "0", "20000000000000000", "1000000000000000000", "1000000000000000001", "500000000000000000"}
	// fixed: every threshold value with otherwise valid parameters
	for _, th := range thrs {
		run(PInput{Kind: "params", Params: Params{VP: 5, Thr: th, MinV: 1, Exp: 10, Band: "20000000000000000"}})
	}
	rng := NewRng(cfg.Seed ^ 0x9a7a35)
	for i := 0; i < cfg.N; i++ {
		r := rng.Fork()
		p := Params{VP: []uint64{0, 1, 1, 5, 30}[r.Intn(5)], Thr: thrs[r.Intn(len(thrs))], MinV: []uint64{0, 1, 1, 4}[r.Intn(4)],
			Exp: []uint64{0, 1, 900, 18446744073709551615}[r.Intn(4)], Band: bands[r.Intn(len(bands))]}
		if r.Chance(1, 2) { // mostly valid except one field
			q := Params{VP: 5, Thr: "500000000000000000", MinV: 4, Exp: 900, Band: "20000000000000000"}
			switch r.Intn(5) {
			case 0:
				q.VP = p.VP
			case 1:
				q.Thr = p.Thr
			case 2:
				q.MinV = p.MinV
			case 3:
				q.Exp = p.Exp
			default:
				q.Band = p.Band
			}
			p = q
		}
		run(PInput{Kind: "params", Params: p})
	}
}
