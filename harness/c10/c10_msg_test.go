package c10

// C10, fourth driver: histories in which every vote enters through the real MESSAGE SERVER.
//
// Each step is one block: a list of oracle messages (MsgAggregateExchangeRatePrevote, MsgAggregateExchangeRateVote
// with the commit-reveal hash, MsgDelegateFeedConsent) is checked with ValidateBasic and delivered to the real
// msg server at the block's height, then the real oracle.EndBlocker runs.  Nothing is written into the Votes /
// Prevotes stores by the driver.  The address fields of the messages (validator, feeder, operator, delegate) are
// written in every spelling a client may use: the canonical lower-case bech32 string, the equally valid ALL-UPPER-CASE
// string, and a mixed-case string (rejected by the bech32 decoder).  The commitment hash is computed here with
// crypto/sha256 over "salt:rates:validator-string" (honest = the lower-case string the server uses).
//
// Observed per step: accept flag of every message, the staking answers the message server read (validator
// exists / is bonded), then — after the EndBlocker — the ExchangeRates store, the EventPriceUpdate events, the Votes
// store read by KEY (operator address, tuples) and the Prevotes store (operator address, submit block).

import (
	"crypto/sha256"
	"encoding/hex"
	"encoding/json"
	"math/big"
	"sort"
	"strings"
	"testing"

	sdk "github.com/cosmos/cosmos-sdk/types"

	"github.com/NibiruChain/collections"

	. "verifharness/hx"

	"github.com/NibiruChain/nibiru/v2/x/oracle"
	okeeper "github.com/NibiruChain/nibiru/v2/x/oracle/keeper"
	otypes "github.com/NibiruChain/nibiru/v2/x/oracle/types"
)

type MMsg struct {
	Kind   string  `json:"kind"`   // prevote | vote | delegate
	Val    int     `json:"val"`    // validator / operator: index into vals; >= len(vals): an address that is no validator
	VSp    string  `json:"vsp"`    // spelling of that field: l (lower-case) | u (upper-case) | x (mixed case, invalid)
	Feeder int     `json:"feeder"` // feeder / delegate account (same id space)
	FSp    string  `json:"fsp"`
	Salt   string  `json:"salt,omitempty"`
	T      []Tuple `json:"t,omitempty"`    // vote: the revealed rates; prevote: the rates committed to
	HFor   int     `json:"hfor,omitempty"` // prevote: the validator whose address string is hashed
	HSp    string  `json:"hsp,omitempty"`  // prevote: spelling of that string inside the hash (l = what the server uses)
}
type MStep struct {
	Msgs []MMsg `json:"msgs"`
	Jump string `json:"jump"` // period | next
}
type MInput struct {
	Kind   string  `json:"kind"` // "msg"
	Vals   []Val   `json:"vals"`
	MaxV   uint32  `json:"maxv"`
	Params Params  `json:"params"`
	WL     []int   `json:"wl"`
	Rates  []Rate  `json:"rates"`
	Steps  []MStep `json:"steps"`
}
type MStepObs struct {
	H        int64     `json:"h"`
	Pre      Pre       `json:"pre"`    // staking view right before this step's EndBlocker
	Acc      []bool    `json:"acc"`    // per message: ValidateBasic and the msg server returned no error
	Bonded   []bool    `json:"bonded"` // per message: StakingKeeper.Validator(validator) exists and IsBonded (delegate: exists)
	Form     []string  `json:"form"`   // diagnostic: spelling of the Voter string stored by an accepted vote (l | u | other)
	Panic    bool      `json:"panic"`
	Rates    []Rate    `json:"rates"`
	Events   []Tuple   `json:"events"`
	Votes    []Vote    `json:"votes"`
	Prevotes []Prevote `json:"prevotes"`
}
type MObs struct {
	Steps []MStepObs `json:"steps"`
}

func spell(s, sp string) string {
	switch sp {
	case "u":
		return strings.ToUpper(s)
	case "x":
		h := len(s) / 2
		m := s[:h] + strings.ToUpper(s[h:])
		if m == s || m == strings.ToUpper(s) {
			m = strings.ToUpper(s[:h]) + s[h:]
		}
		return m
	}
	return s
}

// rawDecString writes a raw LegacyDec integer (value * 10^18) as a decimal string, independently of the repo.
func rawDecString(raw string) string {
	b := bigOf(raw)
	neg := b.Sign() < 0
	a := new(big.Int).Abs(b)
	q, r := new(big.Int).QuoRem(a, e18, new(big.Int))
	frac := r.String()
	frac = strings.Repeat("0", 18-len(frac)) + frac
	s := q.String() + "." + frac
	if neg {
		s = "-" + s
	}
	return s
}

func ratesString(ts []Tuple) string {
	parts := make([]string, 0, len(ts))
	for _, tu := range ts {
		parts = append(parts, "("+string(pairs[tu.P])+","+rawDecString(tu.R)+")")
	}
	return strings.Join(parts, "|")
}

func commitHash(salt, rates, valString string) string {
	sum := sha256.Sum256([]byte(salt + ":" + rates + ":" + valString))
	return hex.EncodeToString(sum[:20])
}

func runMsgHist(t *testing.T, in MInput) (MObs, error) {
	obs := MObs{Steps: []MStepObs{}}
	f, ctx, err := prepare(t, Input{Vals: in.Vals, MaxV: in.MaxV, Params: in.Params, WL: in.WL})
	if err != nil {
		return obs, err
	}
	for _, r := range in.Rates {
		f.OracleKeeper.ExchangeRates.Insert(ctx, pairs[r.P], otypes.ExchangeRateAtBlock{
			ExchangeRate: decOfRaw(r.R), CreatedBlock: r.C, BlockTimestampMs: 0})
	}
	ms := okeeper.NewMsgServerImpl(f.OracleKeeper, f.SudoKeeper)
	h := int64(1)
	vp := int64(in.Params.VP)
	for _, st := range in.Steps {
		if st.Jump == "period" {
			x := h + 1
			if r := (x + 1) % vp; r != 0 {
				x += vp - r
			}
			h = x
		} else {
			h++
		}
		c := ctx.WithBlockHeight(h).WithEventManager(sdk.NewEventManager())
		so := MStepObs{H: h, Acc: []bool{}, Bonded: []bool{}, Form: []string{}, Rates: []Rate{}, Events: []Tuple{}, Votes: []Vote{}, Prevotes: []Prevote{}}
		for _, m := range st.Msgs {
			va := sdk.ValAddress(accAddr(m.Val))
			fa := accAddr(m.Feeder)
			vs, fs := spell(va.String(), m.VSp), spell(fa.String(), m.FSp)
			sv := f.StakingKeeper.Validator(c, va)
			var e error
			form := ""
			pan := Recover(func() {
				mc := c.WithEventManager(sdk.NewEventManager())
				switch m.Kind {
				case "prevote":
					so.Bonded = append(so.Bonded, sv != nil && sv.IsBonded())
					hs := spell(sdk.ValAddress(accAddr(m.HFor)).String(), m.HSp)
					msg := &otypes.MsgAggregateExchangeRatePrevote{Hash: commitHash(m.Salt, ratesString(m.T), hs), Feeder: fs, Validator: vs}
					if e = msg.ValidateBasic(); e == nil {
						_, e = ms.AggregateExchangeRatePrevote(sdk.WrapSDKContext(mc), msg)
					}
				case "vote":
					so.Bonded = append(so.Bonded, sv != nil && sv.IsBonded())
					msg := &otypes.MsgAggregateExchangeRateVote{Salt: m.Salt, ExchangeRates: ratesString(m.T), Feeder: fs, Validator: vs}
					if e = msg.ValidateBasic(); e == nil {
						_, e = ms.AggregateExchangeRateVote(sdk.WrapSDKContext(mc), msg)
					}
					if e == nil {
						if v, ge := f.OracleKeeper.Votes.Get(c, va); ge == nil {
							switch v.Voter {
							case va.String():
								form = "l"
							case strings.ToUpper(va.String()):
								form = "u"
							default:
								form = "other"
							}
						}
					}
				default:
					so.Bonded = append(so.Bonded, sv != nil)
					msg := &otypes.MsgDelegateFeedConsent{Operator: vs, Delegate: fs}
					if e = msg.ValidateBasic(); e == nil {
						_, e = ms.DelegateFeedConsent(sdk.WrapSDKContext(mc), msg)
					}
				}
			})
			so.Acc = append(so.Acc, pan == "" && e == nil)
			so.Form = append(so.Form, form)
		}
		so.Pre = readPre(f, c, len(in.Vals))
		pan := Recover(func() { oracle.EndBlocker(c, f.OracleKeeper) })
		if pan != "" {
			so.Panic = true
			obs.Steps = append(obs.Steps, so)
			break
		}
		so.Rates, so.Events, err = readRatesEvents(f, c)
		if err != nil {
			return obs, err
		}
		for _, kv := range f.OracleKeeper.Votes.Iterate(c, collections.Range[sdk.ValAddress]{}).KeyValues() {
			v := Vote{Voter: idOfVal(kv.Key), T: []Tuple{}}
			for _, tu := range kv.Value.ExchangeRateTuples {
				v.T = append(v.T, Tuple{P: pairID(tu.Pair), R: tu.ExchangeRate.BigInt().String()})
			}
			so.Votes = append(so.Votes, v)
		}
		sort.Slice(so.Votes, func(i, j int) bool { return so.Votes[i].Voter < so.Votes[j].Voter })
		for _, kv := range f.OracleKeeper.Prevotes.Iterate(c, collections.Range[sdk.ValAddress]{}).KeyValues() {
			so.Prevotes = append(so.Prevotes, Prevote{Voter: idOfVal(kv.Key), Submit: kv.Value.SubmitBlock})
		}
		sort.Slice(so.Prevotes, func(i, j int) bool { return so.Prevotes[i].Voter < so.Prevotes[j].Voter })
		obs.Steps = append(obs.Steps, so)
	}
	return obs, nil
}

// ---------------------------------------------------------------- generation

func pickSp(r *Rng) string { return []string{"l", "u", "x"}[r.Pick(52, 45, 3)] }

type msgShadow struct {
	salt   string
	t      []Tuple
	period int64
	has    bool
}

func genMsgHist(r *Rng) MInput {
	in := MInput{Kind: "msg", Rates: []Rate{}}
	n := r.Range(2, 7)
	for i := 0; i < n; i++ {
		in.Vals = append(in.Vals, Val{Tok: []string{"1000000", "1000000", "2000000", "3000001", "10000000"}[r.Intn(5)], Undel: "0"})
	}
	if r.Chance(1, 6) {
		in.Vals[r.Intn(n)].Late = true
	}
	in.Params = Params{
		VP:   []uint64{1, 1, 2, 3, 5}[r.Intn(5)],
		Thr:  []string{"340000000000000000", "500000000000000000", "666666666666666667"}[r.Intn(3)],
		MinV: []uint64{1, 1, 2, 3, 4}[r.Intn(5)],
		Exp:  []uint64{0, 2, 5, 20}[r.Intn(4)],
		Band: "20000000000000000",
	}
	if in.Params.MinV > uint64(n) && r.Chance(4, 5) {
		in.Params.MinV = uint64(n)
	}
	// most histories are run by disciplined feeders (few refused messages); the others are noisy
	noise := 1
	if r.Chance(1, 3) {
		noise = 5
	}
	if r.Chance(1, 3) {
		in.Params.Win = in.Params.VP * uint64(r.Range(2, 4))
		in.Params.MV = []string{"690000000000000000", "900000000000000000", "1000000000000000000", "500000000000000000"}[r.Intn(4)]
	}
	for p := 0; p < nPairs; p++ {
		if r.Chance(1, 2) {
			in.WL = append(in.WL, p)
		}
	}
	if len(in.WL) == 0 {
		in.WL = []int{r.Intn(nPairs)}
	}
	sort.Ints(in.WL)
	bases := make([]*big.Int, nPairs)
	for p := range bases {
		bases[p] = new(big.Int).Mul(e18, big.NewInt(int64(100*(p+1))))
	}
	vp := int64(in.Params.VP)
	delegate := make([]int, n) // current feeder account of each validator (-1: none)
	for i := range delegate {
		delegate[i] = -1
	}
	shadow := make([]msgShadow, n+2)
	steps := r.Range(3, 9)
	h := int64(1)
	salts := []string{"1", "ab", "7f3", "zzzz"}
	for s := 0; s < steps; s++ {
		st := MStep{Msgs: []MMsg{}, Jump: "period"}
		if vp > 1 && r.Chance(1, 5) {
			st.Jump = "next"
		}
		if st.Jump == "period" {
			x := h + 1
			if rr := (x + 1) % vp; rr != 0 {
				x += vp - rr
			}
			h = x
		} else {
			h++
		}
		period := h / vp
		// feeder delegations (operator / delegate fields in any spelling)
		for v := 0; v < n; v++ {
			if (s == 0 && r.Chance(1, 3)) || r.Chance(1, 25) {
				d := n + r.Intn(3)
				m := MMsg{Kind: "delegate", Val: v, VSp: pickSp(r), Feeder: d, FSp: pickSp(r)}
				if r.Chance(1, 15) {
					m.Val = n + r.Intn(2) // not a validator
				}
				st.Msgs = append(st.Msgs, m)
				if m.VSp != "x" && m.FSp != "x" && m.Val < n {
					delegate[v] = d
				}
			}
		}
		feederOf := func(v int) int {
			switch r.Pick(60, 40, noise, noise) {
			case 1:
				if v < n && delegate[v] >= 0 {
					return delegate[v]
				}
			case 2:
				return n + r.Intn(3) // a stranger (mostly not the delegate)
			case 3:
				return r.Intn(n) // another validator's account
			}
			return v
		}
		part := []int{100, 100, 100, 100, 100, 100, 60, 25, 0}[r.Intn(9)]
		// reveals of the commitments of the previous period
		for v := 0; v < n+2; v++ {
			sh := shadow[v]
			if !sh.has || r.Intn(100) >= part+10 {
				continue
			}
			if sh.period != period-1 && !r.Chance(1, 6) {
				continue
			}
			m := MMsg{Kind: "vote", Val: v, VSp: pickSp(r), Feeder: feederOf(v), FSp: pickSp(r), Salt: sh.salt, T: sh.t}
			switch r.Pick(100, noise, noise, noise) {
			case 1:
				m.Salt = salts[r.Intn(len(salts))]
			case 2:
				if len(m.T) > 0 {
					m.T = append([]Tuple{}, m.T...)
					m.T[0].R = bases[m.T[0].P].String()
				}
			case 3:
				st.Msgs = append(st.Msgs, m) // the same reveal twice: the prevote is consumed by the first
			}
			st.Msgs = append(st.Msgs, m)
		}
		// commitments for the next period
		for v := 0; v < n+2; v++ {
			if v >= n && !r.Chance(1, 12) {
				continue
			}
			if r.Intn(100) >= part+15 {
				continue
			}
			ts := []Tuple{}
			for _, p := range in.WL {
				switch r.Pick(10, 10, 80) {
				case 0:
				case 1:
					ts = append(ts, Tuple{P: p, R: genAbstain(r)})
				default:
					ts = append(ts, Tuple{P: p, R: []string{bases[p].String(), mulFrac(bases[p], 101, 100).String(),
						mulFrac(bases[p], 2, 1).String(), mulFrac(bases[p], 10, 1).String(), mulFrac(bases[p], 99, 100).String()}[r.Intn(5)]})
				}
			}
			switch r.Pick(100, noise, 7, noise) {
			case 1: // a pair that is not whitelisted: the reveal is refused
				ts = append(ts, Tuple{P: r.Intn(nPairs), R: bases[0].String()})
			case 2: // one pair named more than once in ONE vote string (adjacent / non-adjacent / three times, same or other rate)
				ts = repeatPair(r, ts, bases, in.WL)
			case 3: // at / just above the 315-bit limit of ValidateBasic
				if len(ts) > 0 {
					lim := new(big.Int).Lsh(big.NewInt(1), 315)
					if r.Chance(1, 2) {
						lim.Sub(lim, big.NewInt(1))
					}
					ts[r.Intn(len(ts))].R = lim.String()
				}
			}
			if len(ts) == 0 {
				continue
			}
			m := MMsg{Kind: "prevote", Val: v, VSp: pickSp(r), Feeder: feederOf(v), FSp: pickSp(r),
				Salt: salts[r.Pick(6, 2, 1, 1)], T: ts, HFor: v, HSp: "l"}
			switch r.Pick(100, noise, noise) {
			case 1:
				m.HSp = "u" // hashed over the upper-case string: the reveal is refused
			case 2:
				m.HFor = r.Intn(n) // copy-cat
			}
			st.Msgs = append(st.Msgs, m)
			if m.VSp != "x" && m.FSp != "x" {
				shadow[v] = msgShadow{salt: m.Salt, t: ts, period: period, has: true}
			}
		}
		in.Steps = append(in.Steps, st)
	}
	if r.Chance(1, 3) {
		in.Rates = append(in.Rates, Rate{P: in.WL[0], R: bases[in.WL[0]].String(), C: 0})
	}
	return in
}

// repeatPair makes one vote name a pair more than once: right after its first occurrence, with another pair in between,
// or three times; the repeated tuple carries the same rate, another positive rate or an abstention.  The parser must refuse
// every such string; if it does not, that validator must still count once for the pair.
func repeatPair(r *Rng, ts []Tuple, bases []*big.Int, wl []int) []Tuple {
	if len(ts) == 0 {
		return ts
	}
	j := r.Intn(len(ts))
	dup := ts[j]
	switch r.Pick(5, 3, 2) {
	case 1:
		dup.R = mulFrac(bases[dup.P], int64(r.Range(1, 30)), 10).String()
	case 2:
		dup.R = genAbstain(r)
	}
	out := append([]Tuple{}, ts...)
	insertAt := func(l []Tuple, i int, t Tuple) []Tuple {
		l = append(l, Tuple{})
		copy(l[i+1:], l[i:])
		l[i] = t
		return l
	}
	apart := func(l []Tuple) []Tuple { // another pair between the two occurrences
		switch {
		case len(l) == 1:
			for _, p := range wl {
				if p != dup.P {
					return []Tuple{l[0], {P: p, R: bases[p].String()}, dup}
				}
			}
			return append(l, dup) // a single-pair whitelist: only the adjacent form exists
		case l[len(l)-1].P != dup.P:
			return append(l, dup)
		default:
			return insertAt(l, 0, dup)
		}
	}
	switch r.Pick(3, 5, 2) {
	case 0:
		return insertAt(out, j+1, dup)
	case 1:
		return apart(out)
	}
	return apart(insertAt(out, j+1, dup))
}

func msgOpeners() []MInput {
	ten := Val{Tok: "10000000", Undel: "0"}
	one := Val{Tok: "1000000", Undel: "0"}
	p := Params{VP: 1, Thr: "500000000000000000", MinV: 1, Exp: 100, Band: "20000000000000000"}
	pv := func(v int, vsp string, f int, fsp string, rate int64) MMsg {
		return MMsg{Kind: "prevote", Val: v, VSp: vsp, Feeder: f, FSp: fsp, Salt: "1", T: []Tuple{{0, five(rate)}}, HFor: v, HSp: "l"}
	}
	vt := func(v int, vsp string, f int, fsp string, rate int64) MMsg {
		return MMsg{Kind: "vote", Val: v, VSp: vsp, Feeder: f, FSp: fsp, Salt: "1", T: []Tuple{{0, five(rate)}}}
	}
	var out []MInput
	// five equal validators vote 100,100,200,300,300; validator 2 writes its address in upper case: the median is 200
	rates := []int64{100, 100, 200, 300, 300}
	s1, s2 := MStep{Msgs: []MMsg{}, Jump: "period"}, MStep{Msgs: []MMsg{}, Jump: "period"}
	for i, r := range rates {
		sp := "l"
		if i == 2 {
			sp = "u"
		}
		s1.Msgs = append(s1.Msgs, pv(i, sp, i, "l", r))
		s2.Msgs = append(s2.Msgs, vt(i, sp, i, "l", r))
	}
	out = append(out, MInput{Kind: "msg", Vals: []Val{ten, ten, ten, ten, ten}, Params: p, WL: []int{0}, Rates: []Rate{}, Steps: []MStep{s1, s2}})
	// three validators, MinVoters 3: the pair has quorum only if every vote counts, whatever its spelling
	p3 := p
	p3.MinV = 3
	out = append(out, MInput{Kind: "msg", Vals: []Val{one, one, one}, Params: p3, WL: []int{0}, Rates: []Rate{},
		Steps: []MStep{{Msgs: []MMsg{pv(0, "u", 0, "u", 7), pv(1, "l", 1, "u", 8), pv(2, "u", 2, "l", 9)}, Jump: "period"},
			{Msgs: []MMsg{vt(0, "u", 0, "l", 7), vt(1, "u", 1, "u", 8), vt(2, "l", 2, "u", 9)}, Jump: "period"},
			{Msgs: []MMsg{}, Jump: "period"}}})
	// feeder delegation with an upper-case operator field; the feeder votes; a mixed-case validator field is rejected;
	// the former feeder (the validator's own account stays allowed) and a stranger
	out = append(out, MInput{Kind: "msg", Vals: []Val{one, one}, Params: p, WL: []int{0}, Rates: []Rate{},
		Steps: []MStep{{Msgs: []MMsg{{Kind: "delegate", Val: 0, VSp: "u", Feeder: 2, FSp: "u"},
			pv(0, "l", 2, "u", 5), pv(1, "x", 1, "l", 6), pv(1, "u", 1, "l", 6)}, Jump: "period"},
			{Msgs: []MMsg{vt(0, "u", 2, "l", 5), vt(1, "l", 3, "l", 6), vt(1, "u", 1, "u", 6), vt(1, "u", 1, "u", 6)}, Jump: "period"}}})
	// ONE vote naming a pair twice with another pair in between, (p0,1)|(p1,5)|(p0,1), next to 100,200,300,400: the weighted median
	// of the five validators' votes is 200 (a validator tallied twice would make it 100)
	pvT := func(v int, ts []Tuple) MMsg {
		return MMsg{Kind: "prevote", Val: v, VSp: "l", Feeder: v, FSp: "l", Salt: "1", T: ts, HFor: v, HSp: "l"}
	}
	vtT := func(v int, ts []Tuple) MMsg {
		return MMsg{Kind: "vote", Val: v, VSp: "l", Feeder: v, FSp: "l", Salt: "1", T: ts}
	}
	rep := []Tuple{{0, five(1)}, {1, five(5)}, {0, five(1)}}
	s1, s2 = MStep{Msgs: []MMsg{}, Jump: "period"}, MStep{Msgs: []MMsg{}, Jump: "period"}
	for i, r := range []int64{100, 200, 300, 400} {
		s1.Msgs = append(s1.Msgs, pvT(i, []Tuple{{0, five(r)}}))
		s2.Msgs = append(s2.Msgs, vtT(i, []Tuple{{0, five(r)}}))
	}
	s1.Msgs = append(s1.Msgs, pvT(4, rep))
	s2.Msgs = append(s2.Msgs, vtT(4, rep))
	out = append(out, MInput{Kind: "msg", Vals: []Val{ten, ten, ten, ten, ten}, Params: p, WL: []int{0, 1}, Rates: []Rate{}, Steps: []MStep{s1, s2}})
	// MinVoters 2, threshold 0.34 of 50: one validator naming the pair twice (different rates) is ONE voter with 10 units: no quorum
	p2 := p
	p2.MinV = 2
	p2.Thr = "340000000000000000"
	rep2 := []Tuple{{0, five(10)}, {1, five(5)}, {0, five(1000)}}
	out = append(out, MInput{Kind: "msg", Vals: []Val{ten, ten, ten, ten, ten}, Params: p2, WL: []int{0, 1}, Rates: []Rate{},
		Steps: []MStep{{Msgs: []MMsg{pvT(0, rep2)}, Jump: "period"}, {Msgs: []MMsg{vtT(0, rep2)}, Jump: "period"}}})
	// adjacent repeat, and a pair named three times (adjacent and apart, other rate); a third validator votes normally
	adj := []Tuple{{0, five(7)}, {0, five(7)}}
	tri := []Tuple{{0, five(8)}, {0, five(9)}, {1, five(5)}, {0, five(8)}}
	out = append(out, MInput{Kind: "msg", Vals: []Val{one, one, one}, Params: p2, WL: []int{0, 1}, Rates: []Rate{},
		Steps: []MStep{{Msgs: []MMsg{pvT(0, adj), pvT(1, tri), pvT(2, []Tuple{{0, five(9)}})}, Jump: "period"},
			{Msgs: []MMsg{vtT(0, adj), vtT(1, tri), vtT(2, []Tuple{{0, five(9)}})}, Jump: "period"}}})
	return out
}

func TestC10Msg(t *testing.T) {
	cfg := LoadCfg(t, 90, 2000)
	em := NewEmitter(t, cfg.Out)
	defer em.Close()
	emit := func(in MInput) {
		sort.Ints(in.WL)
		obs, err := runMsgHist(t, in)
		if err != nil {
			t.Logf("case skipped: %v", err)
			return
		}
		em.Emit(in, obs, nil)
	}
	if cfg.Replay != "" {
		for _, raw := range cfg.ReplayInputs(t) {
			var probe struct {
				Kind string `json:"kind"`
			}
			_ = json.Unmarshal(raw, &probe)
			if probe.Kind != "msg" {
				continue
			}
			var in MInput
			if err := json.Unmarshal(raw, &in); err != nil {
				t.Fatalf("replay input: %v", err)
			}
			emit(in)
		}
		return
	}
	for _, in := range msgOpeners() {
		emit(in)
	}
	rng := NewRng(cfg.Seed ^ 0x0c10a55e)
	for i := 0; i < cfg.N; i++ {
		emit(genMsgHist(rng.Fork()))
	}
}
