package c10

// C10, second driver: HISTORIES of vote periods on one keeper.  Fixed staking situation, params and
// whitelist; 3-10 steps, each: some validators submit (or overwrite) their aggregate vote, some submit
// prevotes, then the real oracle.EndBlocker runs at the next vote-period end (or, sometimes, at the
// next block inside the period).  Includes periods in which nobody / too few validators vote (no pair
// reaches quorum) followed by periods in which other validators stay silent.
//
// Observed after every step: ExchangeRates store, EventPriceUpdate events, the Votes store and the
// Prevotes store (voter id, submit block).

import (
	"encoding/json"
	"math/big"
	"sort"
	"testing"

	sdk "github.com/cosmos/cosmos-sdk/types"

	"github.com/NibiruChain/collections"

	. "verifharness/hx"

	"github.com/NibiruChain/nibiru/v2/x/oracle"
	otypes "github.com/NibiruChain/nibiru/v2/x/oracle/types"
)

type Prevote struct {
	Voter  int    `json:"voter"`
	Submit uint64 `json:"submit"`
}
type HStep struct {
	Votes    []Vote    `json:"votes"`
	Prevotes []Prevote `json:"prevotes"`
	Jump     string    `json:"jump"` // period | next
}
type HInput struct {
	Kind   string  `json:"kind"` // "hist"
	Vals   []Val   `json:"vals"`
	MaxV   uint32  `json:"maxv"`
	Params Params  `json:"params"`
	WL     []int   `json:"wl"`
	Rates  []Rate  `json:"rates"`
	Steps  []HStep `json:"steps"`
}
type HStepObs struct {
	H        int64     `json:"h"`
	Pre      Pre       `json:"pre"` // staking view right before this step's EndBlocker
	Panic    bool      `json:"panic"`
	Rates    []Rate    `json:"rates"`
	Events   []Tuple   `json:"events"`
	Votes    []Vote    `json:"votes"`
	Prevotes []Prevote `json:"prevotes"`
}
type HObs struct {
	Pre   Pre        `json:"pre"`
	Steps []HStepObs `json:"steps"`
}

func idOfVal(va sdk.ValAddress) int {
	for i := 0; i < 24; i++ {
		if sdk.ValAddress(accAddr(i)).Equals(va) {
			return i
		}
	}
	return 99
}

func runHist(t *testing.T, in HInput) (HObs, error) {
	obs := HObs{Steps: []HStepObs{}}
	f, ctx, err := prepare(t, Input{Vals: in.Vals, MaxV: in.MaxV, Params: in.Params, WL: in.WL})
	if err != nil {
		return obs, err
	}
	for _, r := range in.Rates {
		f.OracleKeeper.ExchangeRates.Insert(ctx, pairs[r.P], otypes.ExchangeRateAtBlock{
			ExchangeRate: decOfRaw(r.R), CreatedBlock: r.C, BlockTimestampMs: 0})
	}
	obs.Pre = readPre(f, ctx, len(in.Vals))
	h := int64(1)
	vp := int64(in.Params.VP)
	for _, st := range in.Steps {
		if st.Jump == "period" {
			x := h + 1
			if r := (x + 1) % vp; r != 0 {
				x += vp - r
			}
			h = x
		} else {
			h++
		}
		c := ctx.WithBlockHeight(h).WithEventManager(sdk.NewEventManager())
		insertVotes(f, c, st.Votes)
		for _, pv := range st.Prevotes {
			va := sdk.ValAddress(accAddr(pv.Voter))
			f.OracleKeeper.Prevotes.Insert(c, va, otypes.NewAggregateExchangeRatePrevote(otypes.AggregateVoteHash([]byte("0123456789abcdefghij")), va, pv.Submit))
		}
		so := HStepObs{H: h, Rates: []Rate{}, Events: []Tuple{}, Votes: []Vote{}, Prevotes: []Prevote{}}
		so.Pre = readPre(f, c, len(in.Vals))
		pan := Recover(func() { oracle.EndBlocker(c, f.OracleKeeper) })
		if pan != "" {
			so.Panic = true
			obs.Steps = append(obs.Steps, so)
			break
		}
		so.Rates, so.Events, err = readRatesEvents(f, c)
		if err != nil {
			return obs, err
		}
		for _, kv := range f.OracleKeeper.Votes.Iterate(c, collections.Range[sdk.ValAddress]{}).KeyValues() {
			v := Vote{Voter: idOfVal(kv.Key), T: []Tuple{}}
			for _, tu := range kv.Value.ExchangeRateTuples {
				v.T = append(v.T, Tuple{P: pairID(tu.Pair), R: tu.ExchangeRate.BigInt().String()})
			}
			so.Votes = append(so.Votes, v)
		}
		sort.Slice(so.Votes, func(i, j int) bool { return so.Votes[i].Voter < so.Votes[j].Voter })
		for _, kv := range f.OracleKeeper.Prevotes.Iterate(c, collections.Range[sdk.ValAddress]{}).KeyValues() {
			so.Prevotes = append(so.Prevotes, Prevote{Voter: idOfVal(kv.Key), Submit: kv.Value.SubmitBlock})
		}
		sort.Slice(so.Prevotes, func(i, j int) bool { return so.Prevotes[i].Voter < so.Prevotes[j].Voter })
		obs.Steps = append(obs.Steps, so)
	}
	return obs, nil
}

// ---------------------------------------------------------------- generation

func genHist(r *Rng) HInput {
	in := HInput{Kind: "hist", Rates: []Rate{}}
	n := r.Range(2, 7)
	for i := 0; i < n; i++ {
		in.Vals = append(in.Vals, Val{Tok: []string{"1000000", "1000000", "2000000", "3000001", "10000000"}[r.Intn(5)], Undel: "0"})
	}
	if r.Chance(1, 6) {
		in.Vals[r.Intn(n)].Late = true
	}
	in.Params = Params{
		VP:   []uint64{1, 2, 3, 5}[r.Intn(4)],
		Thr:  []string{"340000000000000000", "500000000000000000", "666666666666666667"}[r.Intn(3)],
		MinV: []uint64{1, 2, 3, 4}[r.Intn(4)],
		Exp:  []uint64{0, 2, 5, 20}[r.Intn(4)],
		Band: "20000000000000000",
	}
	if r.Chance(3, 5) {
		// a slash window of a few vote periods: validators that voted out of band earlier are slashed and
		// jailed (and leave the power index) at a block that is also a vote-period end
		in.Params.Win = in.Params.VP * uint64(r.Range(2, 4))
		in.Params.MV = []string{"690000000000000000", "900000000000000000", "1000000000000000000", "500000000000000000"}[r.Intn(4)]
	}
	for p := 0; p < nPairs; p++ {
		if r.Chance(1, 2) {
			in.WL = append(in.WL, p)
		}
	}
	if len(in.WL) == 0 {
		in.WL = []int{r.Intn(nPairs)}
	}
	bases := make([]*big.Int, nPairs)
	for p := range bases {
		bases[p] = new(big.Int).Mul(e18, big.NewInt(int64(100*(p+1))))
	}
	steps := r.Range(3, 10)
	h := int64(1)
	for s := 0; s < steps; s++ {
		st := HStep{Votes: []Vote{}, Prevotes: []Prevote{}, Jump: "period"}
		if in.Params.VP > 1 && r.Chance(1, 5) {
			st.Jump = "next"
		}
		if st.Jump == "period" {
			x := h + 1
			if rr := (x + 1) % int64(in.Params.VP); rr != 0 {
				x += int64(in.Params.VP) - rr
			}
			h = x
		} else {
			h++
		}
		// participation of this period: everybody / a few (below quorum) / nobody
		part := []int{100, 100, 60, 25, 25, 0}[r.Intn(6)]
		for v := 0; v < n; v++ {
			if r.Intn(100) >= part {
				continue
			}
			vt := Vote{Voter: v, T: []Tuple{}}
			for _, p := range in.WL {
				switch r.Pick(10, 10, 80) {
				case 0:
				case 1:
					vt.T = append(vt.T, Tuple{P: p, R: genAbstain(r)})
				default:
					vt.T = append(vt.T, Tuple{P: p, R: []string{bases[p].String(), mulFrac(bases[p], 101, 100).String(),
						mulFrac(bases[p], 2, 1).String(), mulFrac(bases[p], 10, 1).String(), mulFrac(bases[p], 99, 100).String()}[r.Intn(5)]})
				}
			}
			if r.Chance(1, 12) {
				vt.T = append(vt.T, Tuple{P: r.Intn(nPairs), R: bases[0].String()})
			}
			st.Votes = append(st.Votes, vt)
		}
		for v := 0; v < n; v++ {
			if r.Chance(1, 4) {
				sub := h - int64(r.Range(0, int(in.Params.VP)+1))
				if sub < 0 {
					sub = 0
				}
				st.Prevotes = append(st.Prevotes, Prevote{Voter: v, Submit: uint64(sub)})
			}
		}
		in.Steps = append(in.Steps, st)
	}
	if r.Chance(1, 3) {
		in.Rates = append(in.Rates, Rate{P: in.WL[0], R: bases[in.WL[0]].String(), C: 0})
	}
	return in
}

func histOpeners() []HInput {
	one := Val{Tok: "1000000", Undel: "0"}
	p := Params{VP: 1, Thr: "500000000000000000", MinV: 4, Exp: 100, Band: "20000000000000000"}
	v := func(id int, r int64) Vote { return Vote{Voter: id, T: []Tuple{{0, five(r)}}} }
	var out []HInput
	// feeder outage: 1 of 5 votes (no quorum); next period 3 others vote: still fewer than MinVoters=4
	out = append(out, HInput{Kind: "hist", Vals: []Val{one, one, one, one, one}, Params: p, WL: []int{0}, Rates: []Rate{},
		Steps: []HStep{{Votes: []Vote{v(0, 1000)}, Prevotes: []Prevote{}, Jump: "period"},
			{Votes: []Vote{v(1, 200), v(2, 200), v(3, 300)}, Prevotes: []Prevote{}, Jump: "period"}}})
	// same outage, then 4 fresh voters {200,200,300,300}: the median is 200, a stale 1000 would make it 300
	out = append(out, HInput{Kind: "hist", Vals: []Val{one, one, one, one, one}, Params: p, WL: []int{0}, Rates: []Rate{},
		Steps: []HStep{{Votes: []Vote{v(0, 1000)}, Prevotes: []Prevote{}, Jump: "period"},
			{Votes: []Vote{v(1, 200), v(2, 200), v(3, 300), v(4, 300)}, Prevotes: []Prevote{{0, 1}, {1, 3}}, Jump: "period"},
			{Votes: []Vote{}, Prevotes: []Prevote{}, Jump: "period"}}})
	// votes accumulate inside a period (non-final block), are overwritten, and are gone after its end
	p3 := p
	p3.VP = 3
	p3.MinV = 2
	out = append(out, HInput{Kind: "hist", Vals: []Val{one, one, one}, Params: p3, WL: []int{0}, Rates: []Rate{},
		Steps: []HStep{{Votes: []Vote{v(0, 100)}, Prevotes: []Prevote{{2, 2}}, Jump: "next"},
			{Votes: []Vote{v(0, 110), v(1, 120)}, Prevotes: []Prevote{}, Jump: "period"},
			{Votes: []Vote{v(2, 500)}, Prevotes: []Prevote{}, Jump: "period"}}})
	return out
}

func TestC10Hist(t *testing.T) {
	cfg := LoadCfg(t, 110, 2500)
	em := NewEmitter(t, cfg.Out)
	defer em.Close()
	emit := func(in HInput) {
		sort.Ints(in.WL)
		obs, err := runHist(t, in)
		if err != nil {
			t.Logf("case skipped: %v", err)
			return
		}
		em.Emit(in, obs, nil)
	}
	if cfg.Replay != "" {
		for _, raw := range cfg.ReplayInputs(t) {
			var probe struct {
				Kind string `json:"kind"`
			}
			_ = json.Unmarshal(raw, &probe)
			if probe.Kind != "hist" {
				continue
			}
			var in HInput
			if err := json.Unmarshal(raw, &in); err != nil {
				t.Fatalf("replay input: %v", err)
			}
			emit(in)
		}
		return
	}
	for _, in := range histOpeners() {
		emit(in)
	}
	rng := NewRng(cfg.Seed ^ 0x5ca1ab1e)
	for i := 0; i < cfg.N; i++ {
		emit(genHist(rng.Fork()))
	}
}
