package c08

import (
	"fmt"
	"math/big"
	"os"
	"runtime/debug"
	"testing"

	gethcommon "github.com/ethereum/go-ethereum/common"
	"github.com/ethereum/go-ethereum/core/vm"

	"github.com/NibiruChain/nibiru/v2/x/evm/embeds"
	"github.com/NibiruChain/nibiru/v2/x/evm/evmtest"
	"github.com/NibiruChain/nibiru/v2/x/evm/statedb"
)

func TestExplore2(t *testing.T) {
	if os.Getenv("C08_EXPLORE") == "" {
		t.Skip()
	}
	w := newWorld(t)
	cctx, _ := w.deps.Ctx.CacheContext()
	sdb := w.deps.EvmKeeper.NewStateDB(cctx, statedb.NewEmptyTxConfig(gethcommon.Hash{}))
	evmObj := w.deps.EvmKeeper.NewEVM(cctx, evmtest.MOCK_GETH_MESSAGE, w.deps.EvmKeeper.GetEVMConfig(cctx), &frameTracer{}, sdb)
	q, _ := embeds.SmartContract_Oracle.ABI.Pack("queryExchangeRate", "unibi:uusd")
	defer func() {
		if r := recover(); r != nil {
			fmt.Printf("PANIC %T %v\n%s\n", r, r, debug.Stack())
		}
	}()
	evmObj.Call(vm.AccountRef(w.deps.Sender.EthAddr), precompileAddrs[2], q, 2000, big.NewInt(0))
}
