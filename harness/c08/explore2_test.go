package c08

import (
	"encoding/json"
	"fmt"
	"os"
	"testing"

	sdk "github.com/cosmos/cosmos-sdk/types"
)

func (w *world) dump(ctx sdk.Context) map[string]string {
	m := map[string]string{}
	ctx = ctx.WithGasMeter(sdk.NewInfiniteGasMeter())
	for _, k := range w.storeKeys {
		it := ctx.MultiStore().GetKVStore(k).Iterator(nil, nil)
		for ; it.Valid(); it.Next() {
			m[fmt.Sprintf("%s/%x", k.Name(), it.Key())] = fmt.Sprintf("%x", it.Value())
		}
		it.Close()
	}
	return m
}

func TestExploreSeq(t *testing.T) {
	f := os.Getenv("C08_EXPLORE_SEQ")
	if f == "" {
		t.Skip()
	}
	bz, _ := os.ReadFile(f)
	var rp struct {
		Inputs []c08In `json:"inputs"`
	}
	if err := json.Unmarshal(bz, &rp); err != nil {
		t.Fatal(err)
	}
	w := newWorld(t)
	for _, in := range rp.Inputs {
		t0 := w.newTx(in.Token)
		po, p, _ := t0.runPre(in.Pre)
		fmt.Println("pre:", p)
		for i, o := range po {
			fmt.Printf("  pre[%d] evm=%v reached=%v class=%s method=%s left=%d fwd=%d\n", i, o.Evm, o.Reached, o.Class, o.Method, o.Left, o.Fwd)
		}
		fmt.Println("commit0", t0.sdb.Commit())
		a := w.dump(t0.ctx)
		t1 := w.newTx(in.Token)
		t1.runPre(in.Pre)
		o := t1.call(in.PC, in.Kind, in.Value, in.Gas, in.Data)
		fmt.Printf("final: reached=%v class=%s method=%s note=%s\n", o.Reached, o.Class, o.Method, o.Note)
		fmt.Println("commit1", t1.sdb.Commit())
		b := w.dump(t1.ctx)
		for k, v := range a {
			if b[k] != v {
				fmt.Printf("DIFF %s\n   before %s\n   after  %s\n", k, v, b[k])
			}
		}
		for k, v := range b {
			if _, ok := a[k]; !ok {
				fmt.Printf("NEW %s = %s\n", k, v)
			}
		}
	}
}
