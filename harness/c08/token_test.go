package c08

// A hostile ERC20, hand-assembled: anyone can register a token contract as a FunToken, so what it answers to
// the FunToken precompile (balanceOf, transfer, … through keeper.ERC20()) is as untrusted as calldata.
//
// name() / symbol() / decimals() answer like any token ("HST", 18) so that CreateFunToken accepts it.
// configure(mode, len, w0..w4, mem) (selector 0xc08c08c0, callable by anyone) stores how EVERY OTHER call is answered:
//
// Before answering, memory is grown to mem bytes (configure's 8th word) and to the words the answer needs - no
// further: the revert / return data handed to the caller is a window of that memory.
//
//	mode 0: REVERT with the first len bytes of w0..w4 (zero padded beyond 160 bytes)
//	mode 1: RETURN the first len bytes of w0..w4
//	mode 2: INVALID (all forwarded gas is consumed)

import (
	"encoding/hex"
	"math/big"

	gethcommon "github.com/ethereum/go-ethereum/common"
)

type asmItem struct {
	raw   []byte
	label string // definition (JUMPDEST)
	ref   string // PUSH2 <label>
}

func op(b ...byte) asmItem     { return asmItem{raw: b} }
func lbl(n string) asmItem     { return asmItem{label: n} }
func pushLbl(n string) asmItem { return asmItem{ref: n} }
func push1(v int) asmItem      { return op(0x60, byte(v)) }
func push4(v uint32) asmItem   { return op(0x63, byte(v>>24), byte(v>>16), byte(v>>8), byte(v)) }
func assembleItems(items []asmItem) []byte {
	pos := map[string]int{}
	n := 0
	for _, it := range items {
		switch {
		case it.label != "":
			pos[it.label] = n
			n++
		case it.ref != "":
			n += 3
		default:
			n += len(it.raw)
		}
	}
	var out []byte
	for _, it := range items {
		switch {
		case it.label != "":
			out = append(out, 0x5b)
		case it.ref != "":
			p, ok := pos[it.ref]
			if !ok {
				panic("asm: unknown label " + it.ref)
			}
			out = append(out, 0x61, byte(p>>8), byte(p))
		default:
			out = append(out, it.raw...)
		}
	}
	return out
}

const tokenConfigSelector uint32 = 0xc08c08c0

func hostileTokenRuntime() []byte {
	const (
		CALLDATALOAD, SHR, DUP1, EQ, JUMPI = 0x35, 0x1c, 0x80, 0x14, 0x57
		SLOAD, SSTORE, MSTORE, MSTORE8     = 0x54, 0x55, 0x52, 0x53
		RETURN, REVERT, INVALID, STOP      = 0xf3, 0xfd, 0xfe, 0x00
		ISZERO, GT, SWAP1, SUB, POP        = 0x15, 0x11, 0x90, 0x03, 0x50
	)
	sel := func(s uint32, to string) []asmItem {
		return []asmItem{op(DUP1), push4(s), op(EQ), pushLbl(to), op(JUMPI)}
	}
	var it []asmItem
	it = append(it, push1(0), op(CALLDATALOAD), push1(0xe0), op(SHR))
	it = append(it, sel(0x06fdde03, "str")...)
	it = append(it, sel(0x95d89b41, "str")...)
	it = append(it, sel(0x313ce567, "dec")...)
	it = append(it, sel(tokenConfigSelector, "cfg")...)
	// memory is grown exactly as far as asked: the answer of a call frame is a window of this memory, and what
	// stands behind the window (the slice's capacity on the Go side) is part of the hostile answer
	it = append(it, push1(7), op(SLOAD), op(DUP1), op(ISZERO), pushLbl("nocap"), op(JUMPI),
		op(DUP1), push1(1), op(SWAP1), op(SUB), push1(0), op(SWAP1), op(MSTORE8),
		lbl("nocap"), op(POP))
	for i := 0; i < 5; i++ { // if len > 32i: memory[32i..] = storage[2+i]
		skip := "skip" + string(rune('0'+i))
		it = append(it, push1(32*i), push1(1), op(SLOAD), op(GT), op(ISZERO), pushLbl(skip), op(JUMPI),
			push1(2+i), op(SLOAD), push1(32*i), op(MSTORE), lbl(skip))
	}
	it = append(it, push1(0), op(SLOAD))
	it = append(it, op(DUP1), push1(1), op(EQ), pushLbl("ret"), op(JUMPI))
	it = append(it, op(DUP1), push1(2), op(EQ), pushLbl("burn"), op(JUMPI))
	it = append(it, push1(1), op(SLOAD), push1(0), op(REVERT))
	it = append(it, lbl("ret"), push1(1), op(SLOAD), push1(0), op(RETURN))
	it = append(it, lbl("burn"), op(INVALID))
	// abi.encode("HST")
	it = append(it, lbl("str"), push1(0x20), push1(0), op(MSTORE), push1(3), push1(0x20), op(MSTORE),
		push1('H'), push1(0x40), op(MSTORE8), push1('S'), push1(0x41), op(MSTORE8), push1('T'), push1(0x42), op(MSTORE8),
		push1(0x60), push1(0), op(RETURN))
	it = append(it, lbl("dec"), push1(18), push1(0), op(MSTORE), push1(32), push1(0), op(RETURN))
	it = append(it, lbl("cfg"))
	for i := 0; i < 8; i++ { // storage[i] = calldata word i
		it = append(it, push1(4+32*i), op(CALLDATALOAD), push1(i), op(SSTORE))
	}
	it = append(it, op(STOP))
	return assembleItems(it)
}

// wrapInit: creation code returning the runtime code
func wrapInit(runtime []byte) []byte {
	n := len(runtime)
	return append([]byte{0x61, byte(n >> 8), byte(n), 0x61, 0x00, 0x0f, 0x60, 0x00, 0x39, 0x61, byte(n >> 8), byte(n), 0x60, 0x00, 0xf3}, runtime...)
}

// c08Token: how the registered hostile ERC20 answers during the case
type c08Token struct {
	Mode int    `json:"mode"`          // 0 revert, 1 return, 2 consume all gas
	Len  uint64 `json:"len"`           // bytes reverted / returned (may exceed the 160 data bytes: zero padded)
	Data string `json:"data"`          // up to 160 bytes (hex)
	Mem  uint64 `json:"mem,omitempty"` // memory the contract has touched when it answers (0: just the words of the answer)
}

func (tk c08Token) configCalldata() []byte {
	data, _ := hex.DecodeString(tk.Data)
	if len(data) > 160 {
		data = data[:160]
	}
	padded := make([]byte, 160)
	copy(padded, data)
	sel := tokenConfigSelector
	out := []byte{byte(sel >> 24), byte(sel >> 16), byte(sel >> 8), byte(sel)}
	out = append(out, gethcommon.LeftPadBytes(big.NewInt(int64(tk.Mode)).Bytes(), 32)...)
	out = append(out, gethcommon.LeftPadBytes(new(big.Int).SetUint64(tk.Len).Bytes(), 32)...)
	out = append(out, padded...)
	return append(out, gethcommon.LeftPadBytes(new(big.Int).SetUint64(tk.Mem).Bytes(), 32)...)
}
