package c08

// World of the C08 driver: one Nibiru test app prepared once; every case runs on a
// branch (CacheContext) of it so that cases are independent of each other.

import (
	"bytes"
	"crypto/sha256"
	"encoding/hex"
	"fmt"
	"math/big"
	"os"
	"path/filepath"
	"testing"
	"time"

	sdkmath "cosmossdk.io/math"
	wasmkeeper "github.com/CosmWasm/wasmd/x/wasm/keeper"
	wasm "github.com/CosmWasm/wasmd/x/wasm/types"
	storetypes "github.com/cosmos/cosmos-sdk/store/types"
	sdk "github.com/cosmos/cosmos-sdk/types"
	bank "github.com/cosmos/cosmos-sdk/x/bank/types"
	gethabi "github.com/ethereum/go-ethereum/accounts/abi"
	gethcommon "github.com/ethereum/go-ethereum/common"
	"github.com/ethereum/go-ethereum/core/vm"
	"github.com/ethereum/go-ethereum/crypto"

	"github.com/NibiruChain/nibiru/v2/eth"
	"github.com/NibiruChain/nibiru/v2/eth/crypto/ethsecp256k1"
	"github.com/NibiruChain/nibiru/v2/x/common/asset"
	"github.com/NibiruChain/nibiru/v2/x/common/testutil/testapp"
	"github.com/NibiruChain/nibiru/v2/x/evm"
	"github.com/NibiruChain/nibiru/v2/x/evm/embeds"
	"github.com/NibiruChain/nibiru/v2/x/evm/evmtest"
	"github.com/NibiruChain/nibiru/v2/x/evm/statedb"
)

// Forwarder runtime: calldata = addr(32) gas(32) value(32) payload…; performs OP on addr with
// the payload, returns success(32) ++ returndata.
func forwarderCode(op byte, withValue bool) []byte {
	c := []byte{0x60, 0x60, 0x36, 0x03, 0x80, 0x60, 0x60, 0x60, 0x00, 0x37, 0x60, 0x00, 0x60, 0x00, 0x82, 0x60, 0x00}
	if withValue {
		c = append(c, 0x60, 0x40, 0x35)
	}
	c = append(c, 0x60, 0x00, 0x35, 0x60, 0x20, 0x35, op,
		0x60, 0x00, 0x52, 0x3d, 0x60, 0x00, 0x60, 0x20, 0x3e, 0x3d, 0x60, 0x20, 0x01, 0x60, 0x00, 0xf3)
	return c
}

var (
	fwdCall     = gethcommon.HexToAddress("0x00000000000000000000000000000000000f00f1")
	fwdCallCode = gethcommon.HexToAddress("0x00000000000000000000000000000000000f00f2")
	fwdDelegate = gethcommon.HexToAddress("0x00000000000000000000000000000000000f00f4")
	fwdStatic   = gethcommon.HexToAddress("0x00000000000000000000000000000000000f00fa")
)

var precompileAddrs = []gethcommon.Address{
	gethcommon.HexToAddress("0x0000000000000000000000000000000000000800"),
	gethcommon.HexToAddress("0x0000000000000000000000000000000000000802"),
	gethcommon.HexToAddress("0x0000000000000000000000000000000000000801"),
}

type world struct {
	deps       evmtest.TestDeps
	coinDenom  string             // coin-born FunToken
	coinErc20  gethcommon.Address // its ERC20
	ercErc20   gethcommon.Address // ERC20-born FunToken (ERC20Minter owned by sender)
	ercDenom   string
	wasmAddr   sdk.AccAddress // hello_world_counter instance
	wasmCodeID uint64
	other      gethcommon.Address // a plain funded EOA used as recipient
	hostile    gethcommon.Address // hand-assembled ERC20 registered as FunToken; answers as the case configures (token_test.go)
	hostDenom  string
	storeKeys  []storetypes.StoreKey
}

func repoRoot() string {
	if r := os.Getenv("VERIF_REPO"); r != "" {
		return r
	}
	return "/repo"
}

func newWorld(t *testing.T) *world {
	w := &world{deps: evmtest.NewTestDeps()}
	deps := &w.deps
	// deterministic sender: calldata in replay files embeds addresses derived from it
	priv := &ethsecp256k1.PrivKey{Key: gethcommon.LeftPadBytes([]byte{0xc0, 0x08, 0x01}, 32)}
	ecdsaKey, err := priv.ToECDSA()
	if err != nil {
		t.Fatal(err)
	}
	sAddr := crypto.PubkeyToAddress(ecdsaKey.PublicKey)
	deps.Sender = evmtest.EthPrivKeyAcc{EthAddr: sAddr, NibiruAddr: eth.EthAddrToNibiruAddr(sAddr), PrivKey: priv, KeyringSigner: evmtest.NewSigner(priv)}
	deps.Ctx = deps.Ctx.WithGasMeter(sdk.NewInfiniteGasMeter()).WithBlockTime(time.Unix(1_700_000_000, 0).UTC())
	app := deps.App
	fund := func(a sdk.AccAddress, c sdk.Coins) {
		if err := testapp.FundAccount(app.BankKeeper, deps.Ctx, a, c); err != nil {
			t.Fatal(err)
		}
	}
	w.coinDenom = "ucoin"
	w.other = gethcommon.HexToAddress("0x00000000000000000000000000000000000a11ce")
	rich := sdk.NewCoins(sdk.NewCoin("unibi", sdkmath.NewInt(1_000_000_000)), sdk.NewCoin(w.coinDenom, sdkmath.NewInt(1_000_000)))
	fund(deps.Sender.NibiruAddr, rich)
	for _, a := range []gethcommon.Address{fwdCall, fwdCallCode, fwdDelegate, fwdStatic, w.other} {
		fund(eth.EthAddrToNibiruAddr(a), rich)
	}
	// coin-born FunToken
	app.BankKeeper.SetDenomMetaData(deps.Ctx, bank.Metadata{
		DenomUnits: []*bank.DenomUnit{{Denom: w.coinDenom, Exponent: 0}}, Base: w.coinDenom, Display: w.coinDenom,
		Name: w.coinDenom, Symbol: "UCOIN",
	})
	fund(deps.Sender.NibiruAddr, deps.EvmKeeper.FeeForCreateFunToken(deps.Ctx))
	r1, err := deps.EvmKeeper.CreateFunToken(sdk.WrapSDKContext(deps.Ctx), &evm.MsgCreateFunToken{
		FromBankDenom: w.coinDenom, Sender: deps.Sender.NibiruAddr.String()})
	if err != nil {
		t.Fatalf("create funtoken (coin): %v", err)
	}
	w.coinErc20 = r1.FuntokenMapping.Erc20Addr.Address
	// ERC20-born FunToken
	embeds.SmartContract_ERC20Minter.MustLoad()
	dr, err := evmtest.DeployContract(deps, embeds.SmartContract_ERC20Minter, "Hostile", "HST", uint8(18))
	if err != nil {
		t.Fatalf("deploy erc20: %v", err)
	}
	w.ercErc20 = dr.ContractAddr
	fund(deps.Sender.NibiruAddr, deps.EvmKeeper.FeeForCreateFunToken(deps.Ctx))
	e55 := eth.EIP55Addr{Address: w.ercErc20}
	r2, err := deps.EvmKeeper.CreateFunToken(sdk.WrapSDKContext(deps.Ctx), &evm.MsgCreateFunToken{
		FromErc20: &e55, Sender: deps.Sender.NibiruAddr.String()})
	if err != nil {
		t.Fatalf("create funtoken (erc20): %v", err)
	}
	w.ercDenom = r2.FuntokenMapping.BankDenom
	// balances that make the mutating FunToken methods succeed for every caller used by the driver:
	// hostile ERC20 minted to the callers, part of it already sent to the bank side (so that the
	// ERC20-born denom has supply), and some ucoin converted to its ERC20
	callers := []gethcommon.Address{deps.Sender.EthAddr, fwdCall, fwdCallCode, fwdDelegate, fwdStatic}
	{
		sdb := deps.EvmKeeper.NewStateDB(deps.Ctx, statedb.NewEmptyTxConfig(gethcommon.Hash{}))
		evmObj := deps.EvmKeeper.NewEVM(deps.Ctx, evmtest.MOCK_GETH_MESSAGE, deps.EvmKeeper.GetEVMConfig(deps.Ctx), evm.NewNoOpTracer(), sdb)
		must := func(what string, err error) {
			if err != nil {
				t.Fatalf("%s: %v", what, err)
			}
		}
		big1e9 := big.NewInt(1_000_000_000)
		for _, c := range callers {
			in, _ := embeds.SmartContract_ERC20Minter.ABI.Pack("mint", c, big1e9)
			_, _, err := evmObj.Call(vm.AccountRef(deps.Sender.EthAddr), w.ercErc20, in, 5_000_000, big.NewInt(0))
			must("mint hostile erc20", err)
		}
		for _, c := range callers {
			in, _ := embeds.SmartContract_FunToken.ABI.Pack("sendToBank", w.ercErc20, big.NewInt(1_000_000), eth.EthAddrToNibiruAddr(c).String())
			_, _, err := evmObj.Call(vm.AccountRef(deps.Sender.EthAddr), precompileAddrs[0], in, 5_000_000, big.NewInt(0))
			must("sendToBank setup", err)
			in, _ = embeds.SmartContract_FunToken.ABI.Pack("sendToEvm", w.coinDenom, big.NewInt(100_000), c.Hex())
			_, _, err = evmObj.Call(vm.AccountRef(deps.Sender.EthAddr), precompileAddrs[0], in, 5_000_000, big.NewInt(0))
			must("sendToEvm setup", err)
		}
		must("commit", sdb.Commit())
		// (a StateDB admits at most 10 precompile calls: continue on a fresh one)
		sdb = deps.EvmKeeper.NewStateDB(deps.Ctx, statedb.NewEmptyTxConfig(gethcommon.Hash{}))
		evmObj = deps.EvmKeeper.NewEVM(deps.Ctx, evmtest.MOCK_GETH_MESSAGE, deps.EvmKeeper.GetEVMConfig(deps.Ctx), evm.NewNoOpTracer(), sdb)
		// the ERC20-born denom's bank supply is lifted to 2^255 (held by `other`) and the sender holds
		// 2^255 of the ERC20 again: its owner mints, sends to the bank side, burns the escrow, mints again
		half := new(big.Int).Lsh(big.NewInt(1), 255)
		erc := embeds.SmartContract_ERC20Minter.ABI
		for _, step := range []struct {
			what string
			to   gethcommon.Address
			in   []byte
		}{
			{"whale mint", w.ercErc20, mustPack(erc, "mint", deps.Sender.EthAddr, half)},
			{"whale sendToBank", precompileAddrs[0], mustPack(embeds.SmartContract_FunToken.ABI, "sendToBank", w.ercErc20, half, w.other.Hex())},
			{"whale burn escrow", w.ercErc20, mustPack(erc, "burnFromAuthority", evm.EVM_MODULE_ADDRESS, half)},
			{"whale mint again", w.ercErc20, mustPack(erc, "mint", deps.Sender.EthAddr, half)},
		} {
			_, _, err := evmObj.Call(vm.AccountRef(deps.Sender.EthAddr), step.to, step.in, 5_000_000, big.NewInt(0))
			must(step.what, err)
		}
		must("commit", sdb.Commit())
	}
	// wasm contract
	bz, err := os.ReadFile(filepath.Join(repoRoot(), "x/evm/precompile/test/hello_world_counter.wasm"))
	if err != nil {
		t.Fatal(err)
	}
	pk := wasmkeeper.NewDefaultPermissionKeeper(app.WasmKeeper)
	codeID, _, err := pk.Create(deps.Ctx, deps.Sender.NibiruAddr, bz, &wasm.AccessConfig{Permission: wasm.AccessTypeEverybody})
	if err != nil {
		t.Fatalf("wasm create: %v", err)
	}
	w.wasmCodeID = codeID
	w.wasmAddr, _, err = pk.Instantiate(deps.Ctx, codeID, deps.Sender.NibiruAddr, deps.Sender.NibiruAddr, []byte(`{"count": 0}`), "counter", sdk.Coins{})
	if err != nil {
		t.Fatalf("wasm instantiate: %v", err)
	}
	// oracle price
	app.OracleKeeper.SetPrice(deps.Ctx, asset.Pair("unibi:uusd"), sdk.MustNewDecFromStr("0.067"))
	// forwarders
	sdb := deps.EvmKeeper.NewStateDB(deps.Ctx, statedb.NewEmptyTxConfig(gethcommon.Hash{}))
	sdb.SetCode(fwdCall, forwarderCode(0xf1, true))
	sdb.SetCode(fwdCallCode, forwarderCode(0xf2, true))
	sdb.SetCode(fwdDelegate, forwarderCode(0xf4, false))
	sdb.SetCode(fwdStatic, forwarderCode(0xfa, false))
	if err := sdb.Commit(); err != nil {
		t.Fatal(err)
	}
	// the hostile ERC20: deployed by a creation call, registered as a FunToken by its "owner" (anyone may), and bank
	// coins of its denom in the hands of every caller (so that sendToEvm reaches the token contract too)
	{
		sdb := deps.EvmKeeper.NewStateDB(deps.Ctx, statedb.NewEmptyTxConfig(gethcommon.Hash{}))
		evmObj := deps.EvmKeeper.NewEVM(deps.Ctx, evmtest.MOCK_GETH_MESSAGE, deps.EvmKeeper.GetEVMConfig(deps.Ctx), evm.NewNoOpTracer(), sdb)
		_, addr, _, err := evmObj.Create(vm.AccountRef(deps.Sender.EthAddr), wrapInit(hostileTokenRuntime()), 3_000_000, big.NewInt(0))
		if err != nil {
			t.Fatalf("deploy hostile token: %v", err)
		}
		if err := sdb.Commit(); err != nil {
			t.Fatal(err)
		}
		w.hostile = addr
		fund(deps.Sender.NibiruAddr, deps.EvmKeeper.FeeForCreateFunToken(deps.Ctx))
		h55 := eth.EIP55Addr{Address: w.hostile}
		r3, err := deps.EvmKeeper.CreateFunToken(sdk.WrapSDKContext(deps.Ctx), &evm.MsgCreateFunToken{FromErc20: &h55, Sender: deps.Sender.NibiruAddr.String()})
		if err != nil {
			t.Fatalf("create funtoken (hostile erc20): %v", err)
		}
		w.hostDenom = r3.FuntokenMapping.BankDenom
		for _, c := range []gethcommon.Address{deps.Sender.EthAddr, fwdCall, fwdCallCode, fwdDelegate, fwdStatic} {
			fund(eth.EthAddrToNibiruAddr(c), sdk.NewCoins(sdk.NewCoin(w.hostDenom, sdkmath.NewInt(1_000_000))))
		}
	}
	// the three precompile accounts exist in the committed state, as on a chain where each has been called
	// before (a call to an address without account starts with a journaled account creation)
	{
		sdb := deps.EvmKeeper.NewStateDB(deps.Ctx, statedb.NewEmptyTxConfig(gethcommon.Hash{}))
		evmObj := deps.EvmKeeper.NewEVM(deps.Ctx, evmtest.MOCK_GETH_MESSAGE, deps.EvmKeeper.GetEVMConfig(deps.Ctx), evm.NewNoOpTracer(), sdb)
		for _, q := range []struct {
			to gethcommon.Address
			in []byte
		}{
			{precompileAddrs[0], mustPack(embeds.SmartContract_FunToken.ABI, "whoAmI", w.other.Hex())},
			{precompileAddrs[1], mustPack(embeds.SmartContract_Wasm.ABI, "query", w.wasmAddr.String(), []byte(`{"count":{}}`))},
			{precompileAddrs[2], mustPack(embeds.SmartContract_Oracle.ABI, "queryExchangeRate", "unibi:uusd")},
		} {
			if _, _, err := evmObj.Call(vm.AccountRef(deps.Sender.EthAddr), q.to, q.in, 5_000_000, big.NewInt(0)); err != nil {
				t.Fatalf("precompile warm-up query: %v", err)
			}
		}
		if err := sdb.Commit(); err != nil {
			t.Fatal(err)
		}
		chk := deps.EvmKeeper.NewStateDB(deps.Ctx, statedb.NewEmptyTxConfig(gethcommon.Hash{}))
		for _, a := range precompileAddrs {
			if !chk.Exist(a) {
				t.Fatalf("precompile account %s does not exist after a committed call", a.Hex())
			}
		}
	}
	for _, n := range []string{"bank", "evm", "wasm", "oracle"} {
		var k storetypes.StoreKey
		if kk := app.GetKey(n); kk != nil {
			k = kk
		} else {
			k = app.UnsafeFindStoreKey(n)
		}
		if k == nil {
			t.Fatalf("no store key %s", n)
		}
		w.storeKeys = append(w.storeKeys, k)
	}
	return w
}

// digest hashes every key/value of the bank, evm, wasm and oracle stores as seen from ctx
// (skip: entries left out).
func (w *world) digest(ctx sdk.Context, skip func(store string, key []byte) bool) string {
	h := sha256.New()
	ctx = ctx.WithGasMeter(sdk.NewInfiniteGasMeter())
	for _, k := range w.storeKeys {
		st := ctx.MultiStore().GetKVStore(k)
		it := st.Iterator(nil, nil)
		n := 0
		for ; it.Valid(); it.Next() {
			if skip != nil && skip(k.Name(), it.Key()) {
				continue
			}
			if k.Name() == "evm" && zeroSlot(it.Key(), it.Value()) {
				continue
			}
			fmt.Fprintf(h, "%x=%x\n", it.Key(), it.Value())
			n++
		}
		it.Close()
		fmt.Fprintf(h, "#%s:%d\n", k.Name(), n)
	}
	return hex.EncodeToString(h.Sum(nil))[:16]
}

// zeroSlot: a contract storage entry (prefix byte, 20-byte address, 32-byte slot) holding the zero word.  The
// keeper never deletes storage entries (StateDB.Commit hands SetState the 32 bytes of the value, also when
// they are zero), so a slot holding zero and an absent slot are two encodings of one EVM state: a slot
// written and then reverted inside a transaction that also calls a precompile (no skipUnchanged at commit)
// is stored as a zero entry where it was absent.  The digest counts them as absent — this, and nothing wider:
// only keys of the keeper's AccState map (evm.KeyPrefixBzAccState | address | slot) whose value is the 32-byte zero word.
func zeroSlot(key, value []byte) bool {
	pfx := evm.KeyPrefixBzAccState
	if !bytes.HasPrefix(key, pfx) || len(key) != len(pfx)+20+32 || len(value) != 32 {
		return false
	}
	for _, b := range value {
		if b != 0 {
			return false
		}
	}
	return true
}

func mustPack(a *gethabi.ABI, name string, args ...interface{}) []byte {
	bz, err := a.Pack(name, args...)
	if err != nil {
		panic(err)
	}
	return bz
}

func word(b *big.Int) []byte { return gethcommon.LeftPadBytes(b.Bytes(), 32) }

// fwdInput is the calldata of a forwarder: target, gas, value, payload.
func fwdInput(target gethcommon.Address, gas uint64, value *big.Int, payload []byte) []byte {
	in := append([]byte{}, gethcommon.LeftPadBytes(target.Bytes(), 32)...)
	in = append(in, word(new(big.Int).SetUint64(gas))...)
	in = append(in, word(value)...)
	return append(in, payload...)
}

// frame tracer: records the precompile sub-call frames (forwarded gas, gas used, error).
type frame struct {
	Typ     string
	To      gethcommon.Address
	Gas     uint64
	GasUsed uint64
	Err     string
	Closed  bool
}

type frameTracer struct {
	frames []*frame
	stack  []*frame
}

func (ft *frameTracer) CaptureTxStart(gasLimit uint64) {}
func (ft *frameTracer) CaptureTxEnd(restGas uint64)    {}
func (ft *frameTracer) CaptureStart(env *vm.EVM, from, to gethcommon.Address, create bool, input []byte, gas uint64, value *big.Int) {
}
func (ft *frameTracer) CaptureState(pc uint64, op vm.OpCode, gas, cost uint64, scope *vm.ScopeContext, rData []byte, depth int, err error) {
}
func (ft *frameTracer) CaptureFault(pc uint64, op vm.OpCode, gas, cost uint64, scope *vm.ScopeContext, depth int, err error) {
}
func (ft *frameTracer) CaptureEnd(output []byte, gasUsed uint64, tm time.Duration, err error) {}
func (ft *frameTracer) CaptureEnter(typ vm.OpCode, from, to gethcommon.Address, input []byte, gas uint64, value *big.Int) {
	f := &frame{Typ: typ.String(), To: to, Gas: gas}
	ft.frames = append(ft.frames, f)
	ft.stack = append(ft.stack, f)
}
func (ft *frameTracer) CaptureExit(output []byte, gasUsed uint64, err error) {
	if len(ft.stack) == 0 {
		return
	}
	f := ft.stack[len(ft.stack)-1]
	ft.stack = ft.stack[:len(ft.stack)-1]
	f.GasUsed = gasUsed
	f.Closed = true
	if err != nil {
		f.Err = err.Error()
	}
}
