package c08

// C08 — Nibiru precompiles fail closed on any input and respect call context.
//
// A case = one call to a precompile (FunToken 0x…0800, Wasm 0x…0802, Oracle 0x…0801):
//
//	(precompile, call kind, attached value, forwarded gas, calldata)
//
// call kinds: "top" (the transaction's own evm.Call from an EOA), "call" / "static" / "delegate" /
// "callcode" (issued by a hand-assembled forwarder contract), "nested" (STATICCALL to the CALL
// forwarder, i.e. a CALL below a static frame).  Every case runs on a branch of one prepared
// world (funded accounts, a coin-born and an ERC20-born FunToken, a wasm counter contract, an
// oracle price).
//
// Observables, taken at the geth wrapper's boundary (return values for "top", the tracer's
// enter/exit of the precompile frame otherwise): outcome class ok|err|oog|panic, gas handed
// back, gas forwarded, whether the digest of the bank+evm+wasm+oracle stores after the
// StateDB commit equals the one before the call (and the same digest ignoring the unibi
// balances of caller and precompile account).  Besides, the decode facts the Coq model takes
// as oracle values: the arguments the geth ABI decoder returns for the calldata, abstracted
// (strings as bytes plus "is bech32 / tokenfactory denom", bytes as "is JSON").

import (
	"bytes"
	"encoding/hex"
	"encoding/json"
	"fmt"
	"math/big"
	"reflect"
	"strconv"
	"strings"
	"testing"

	wasm "github.com/CosmWasm/wasmd/x/wasm/types"
	storetypes "github.com/cosmos/cosmos-sdk/store/types"
	sdk "github.com/cosmos/cosmos-sdk/types"
	"github.com/cosmos/cosmos-sdk/types/bech32"
	gethabi "github.com/ethereum/go-ethereum/accounts/abi"
	gethcommon "github.com/ethereum/go-ethereum/common"
	"github.com/ethereum/go-ethereum/core/vm"

	. "verifharness/hx"

	"github.com/NibiruChain/nibiru/v2/eth"
	"github.com/NibiruChain/nibiru/v2/x/evm/embeds"
	"github.com/NibiruChain/nibiru/v2/x/evm/evmtest"
	"github.com/NibiruChain/nibiru/v2/x/evm/statedb"
	tftypes "github.com/NibiruChain/nibiru/v2/x/tokenfactory/types"
)

type c08In struct {
	PC    int    `json:"pc"`    // 0 funtoken, 1 wasm, 2 oracle
	Kind  string `json:"kind"`  // top | call | static | delegate | callcode | nested
	Value string `json:"value"` // wei (decimal)
	Gas   uint64 `json:"gas"`   // gas requested for the precompile call
	Data  string `json:"data"`  // calldata (hex)
	Label string `json:"label"` // generator class (histogram only)
}

type c08Arg struct {
	T     string      `json:"t"` // addr | uint | str | bytes | funds | msgs
	V     string      `json:"v,omitempty"`
	S     []int       `json:"s,omitempty"`
	B32   bool        `json:"b32,omitempty"`
	Blen  int         `json:"blen,omitempty"` // payload bytes of the bech32 address (sdk accepts 1..255)
	TF    bool        `json:"tf,omitempty"`
	JSON  bool        `json:"json,omitempty"`
	Funds []c08Fund   `json:"funds,omitempty"`
	Msgs  []c08MsgArg `json:"msgs,omitempty"`
}
type c08Fund struct {
	D []int  `json:"d"`
	A string `json:"a"`
}
type c08MsgArg struct {
	B32   bool      `json:"b32"`
	JSON  bool      `json:"json"`
	Funds []c08Fund `json:"funds"`
}

type c08Obs struct {
	Reached  bool     `json:"reached"`
	Class    string   `json:"class"`
	Left     uint64   `json:"left"`
	Fwd      uint64   `json:"fwd"`
	StateEq  bool     `json:"state_eq"`
	CoreEq   bool     `json:"core_eq"`
	PanicOOG bool     `json:"panic_oog"`
	Cost     string   `json:"cost"` // gas the same call consumes with ample gas (forwarded − handed back) when it succeeds then; "" otherwise
	PanicInt bool     `json:"panic_int"` // sdkmath "integer overflow" (bank supply beyond 256 bits)
	Method   string   `json:"method"`
	UnpackOK bool     `json:"unpack_ok"`
	Args     []c08Arg `json:"args"`
	Note     string   `json:"note,omitempty"` // first words of the error / panic (not compared)
}

func abiOf(pc int) *gethabi.ABI {
	switch pc {
	case 0:
		return embeds.SmartContract_FunToken.ABI
	case 1:
		return embeds.SmartContract_Wasm.ABI
	}
	return embeds.SmartContract_Oracle.ABI
}

func bytesToInts(b []byte) []int {
	out := make([]int, len(b))
	for i, c := range b {
		out[i] = int(c)
	}
	return out
}

func fundsOf(v reflect.Value) []c08Fund {
	out := []c08Fund{}
	for i := 0; i < v.Len(); i++ {
		e := v.Index(i)
		d := e.FieldByName("Denom").String()
		a, _ := e.FieldByName("Amount").Interface().(*big.Int)
		as := "0"
		if a != nil {
			as = a.String()
		}
		out = append(out, c08Fund{D: bytesToInts([]byte(d)), A: as})
	}
	return out
}

func jsonOK(b []byte) bool {
	m := wasm.RawContractMessage(b)
	return m.ValidateBasic() == nil
}

func strArg(s string) c08Arg {
	acc, e1 := sdk.AccAddressFromBech32(s)
	e2 := tftypes.DenomStr(s).Validate()
	a := c08Arg{T: "str", S: bytesToInts([]byte(s)), B32: e1 == nil, TF: e2 == nil}
	if e1 == nil {
		a.Blen = len(acc)
	}
	return a
}

// decode runs the same selector lookup and ABI decoding the precompiles use and abstracts the result.
func decode(pc int, data []byte) (method string, ok bool, args []c08Arg) {
	args = []c08Arg{}
	if len(data) < 4 {
		return "", false, args
	}
	abi := abiOf(pc)
	var m *gethabi.Method
	for _, mm := range abi.Methods {
		if bytes.Equal(mm.ID, data[:4]) {
			mc := mm
			m = &mc
		}
	}
	if m == nil {
		return "", false, args
	}
	var vals []interface{}
	var err error
	if p := Recover(func() { vals, err = m.Inputs.Unpack(data[4:]) }); p != "" || err != nil {
		return m.RawName, false, args
	}
	for i, v := range vals {
		switch m.Inputs[i].Type.T {
		case gethabi.AddressTy:
			args = append(args, c08Arg{T: "addr"})
		case gethabi.UintTy, gethabi.IntTy:
			switch x := v.(type) {
			case *big.Int:
				args = append(args, c08Arg{T: "uint", V: x.String()})
			default:
				args = append(args, c08Arg{T: "uint", V: fmt.Sprint(x)})
			}
		case gethabi.StringTy:
			args = append(args, strArg(v.(string)))
		case gethabi.BytesTy:
			b := v.([]byte)
			args = append(args, c08Arg{T: "bytes", JSON: jsonOK(b)})
		case gethabi.SliceTy:
			rv := reflect.ValueOf(v)
			if rv.Len() >= 0 && rv.Type().Elem().Kind() == reflect.Struct && rv.Type().Elem().NumField() == 2 {
				args = append(args, c08Arg{T: "funds", Funds: fundsOf(rv)})
			} else {
				ms := []c08MsgArg{}
				for j := 0; j < rv.Len(); j++ {
					e := rv.Index(j)
					_, e1 := sdk.AccAddressFromBech32(e.FieldByName("ContractAddr").String())
					b := e.FieldByName("MsgArgs").Bytes()
					ms = append(ms, c08MsgArg{B32: e1 == nil, JSON: jsonOK(b),
						Funds: fundsOf(e.FieldByName("Funds"))})
				}
				args = append(args, c08Arg{T: "msgs", Msgs: ms})
			}
		default:
			args = append(args, c08Arg{T: "addr"})
		}
	}
	return m.RawName, true, args
}

// coreDigest = digest ignoring the unibi balance entries of the two accounts between which the
// wrapper moves the attached value.
func (w *world) digests(ctx sdk.Context, a, b gethcommon.Address) (full, core string) {
	return w.digest(ctx, nil), w.digest(ctx, func(store string, key []byte) bool {
		if store != "bank" || !bytes.Contains(key, []byte("unibi")) {
			return false
		}
		return bytes.Contains(key, a.Bytes()) || bytes.Contains(key, b.Bytes())
	})
}

func classOf(errStr string, isErr bool) string {
	if !isErr {
		return "ok"
	}
	if strings.Contains(errStr, vm.ErrOutOfGas.Error()) {
		return "oog"
	}
	return "err"
}

func note(s string) string {
	s = strings.ReplaceAll(s, "\n", " ")
	if len(s) > 160 {
		s = s[:160]
	}
	return s
}

const ampleGas uint64 = 8_000_000

// runCase runs the call and, on a second branch of the world, the same call with ample gas: what
// that one is charged is the call's real cost ("gas charged = gas consumed" is judged against it).
func (w *world) runCase(in c08In) c08Obs {
	obs := w.runOnce(in)
	if c, ok := w.measure(in); ok {
		obs.Cost = strconv.FormatUint(c, 10)
	}
	return obs
}

func (w *world) measure(in c08In) (uint64, bool) {
	ref := in
	ref.Gas = ampleGas
	r := w.runOnce(ref)
	if r.Reached && r.Class == "ok" && r.Fwd >= r.Left {
		return r.Fwd - r.Left, true
	}
	return 0, false
}

func (w *world) runOnce(in c08In) c08Obs {
	data, _ := hex.DecodeString(in.Data)
	value, ok := new(big.Int).SetString(in.Value, 10)
	if !ok || value.Sign() < 0 {
		value = big.NewInt(0)
	}
	if in.PC < 0 || in.PC > 2 {
		in.PC = 0
	}
	pcAddr := precompileAddrs[in.PC]
	obs := c08Obs{Args: []c08Arg{}}
	obs.Method, obs.UnpackOK, obs.Args = decode(in.PC, data)

	cctx, _ := w.deps.Ctx.CacheContext()
	sender := w.deps.Sender.EthAddr
	caller := sender
	var target gethcommon.Address
	switch in.Kind {
	case "call", "nested":
		caller, target = fwdCall, fwdCall
	case "static":
		caller, target = fwdStatic, fwdStatic
	case "delegate":
		caller, target = fwdDelegate, fwdDelegate
	case "callcode":
		caller, target = fwdCallCode, fwdCallCode
	}
	d0, c0 := w.digests(cctx, caller, pcAddr)
	sdb := w.deps.EvmKeeper.NewStateDB(cctx, statedb.NewEmptyTxConfig(gethcommon.Hash{}))
	ft := &frameTracer{}
	evmObj := w.deps.EvmKeeper.NewEVM(cctx, evmtest.MOCK_GETH_MESSAGE, w.deps.EvmKeeper.GetEVMConfig(cctx), ft, sdb)

	var left uint64
	var err error
	var pval interface{}
	func() {
		defer func() {
			if r := recover(); r != nil {
				pval = r
			}
		}()
		switch in.Kind {
		case "top":
			_, left, err = evmObj.Call(vm.AccountRef(sender), pcAddr, data, in.Gas, value)
		case "nested":
			_, _, err = evmObj.StaticCall(vm.AccountRef(sender), target, fwdInput(pcAddr, in.Gas, big.NewInt(0), data), 12_000_000)
		default:
			_, _, err = evmObj.Call(vm.AccountRef(sender), target, fwdInput(pcAddr, in.Gas, value, data), 12_000_000, big.NewInt(0))
		}
	}()
	if pval != nil {
		obs.Reached = true
		obs.Class = "panic"
		_, obs.PanicOOG = pval.(storetypes.ErrorOutOfGas)
		obs.Note = note(fmt.Sprintf("%T %v", pval, pval))
		obs.PanicInt = strings.Contains(obs.Note, "integer overflow")
		obs.Fwd = in.Gas
		for _, f := range ft.frames {
			if f.To == pcAddr {
				obs.Fwd = f.Gas
			}
		}
		// a panic aborts the transaction: nothing is committed
		obs.StateEq, obs.CoreEq = true, true
		return obs
	}
	if in.Kind == "top" {
		obs.Reached = true
		obs.Fwd = in.Gas
		obs.Left = left
		es := ""
		if err != nil {
			es = err.Error()
			// rejected by the wrapper before the precompile is looked at
			if err == vm.ErrInsufficientBalance || err == vm.ErrDepth {
				obs.Reached = false
			}
		}
		obs.Class = classOf(es, err != nil)
		obs.Note = note(es)
	} else {
		var fr *frame
		for _, f := range ft.frames {
			if f.To == pcAddr && fr == nil {
				fr = f
			}
		}
		if fr == nil || !fr.Closed {
			obs.Reached = false
			obs.Class = "err"
			if err != nil {
				obs.Note = note("outer: " + err.Error())
			}
		} else {
			obs.Reached = true
			obs.Fwd = fr.Gas
			obs.Left = fr.Gas - fr.GasUsed
			obs.Class = classOf(fr.Err, fr.Err != "")
			obs.Note = note(fr.Err)
			if err != nil {
				obs.Note = note("outer: " + err.Error() + " | " + fr.Err)
			}
		}
	}
	if cerr := sdb.Commit(); cerr != nil {
		obs.Note = note("commit: " + cerr.Error() + " | " + obs.Note)
	}
	d1, c1 := w.digests(cctx, caller, pcAddr)
	obs.StateEq, obs.CoreEq = d0 == d1, c0 == c1
	return obs
}

// ---------------------------------------------------------------- generator

var two256m1 = new(big.Int).Sub(new(big.Int).Lsh(big.NewInt(1), 256), big.NewInt(1))
var two255 = new(big.Int).Lsh(big.NewInt(1), 255)

type gen struct {
	w     *world
	r     *Rng
	happy bool // draw arguments that let the method succeed
}

func (g *gen) pick(xs ...string) string { return xs[g.r.Intn(len(xs))] }

func (g *gen) denom() string {
	w := g.w
	if g.happy {
		return g.pick("unibi", w.coinDenom, w.ercDenom)
	}
	switch g.r.Pick(30, 10, 8, 40) {
	case 0:
		return "unibi"
	case 1:
		return w.coinDenom
	case 2:
		return w.ercDenom
	}
	long128 := "a" + strings.Repeat("b", 127)
	return g.pick("", "a", "ab", "abc", long128, long128+"c", "ünibi", "ibc/27394FB092D2ECCD56123C74F36E4C1F926001CEADA9CA97EA622B25F41E5EB2",
		"tf/"+eth.EthAddrToNibiruAddr(w.other).String()+"/sub", "tf/garbage/sub", "tf/\x00/sub", "uni\x00", "1abc", "uni bi", "UNIBI", "uni\x00bi", "unibi\n",
		"u:n/i.b_i-", "unibi:uusd", "\xff\xfe\xfd", "ucoin2", strings.Repeat("z", 300))
}

// bech32Of: a VALID bech32 address string of the given payload length (the SDK accepts 1..255 bytes;
// ordinary accounts have 20, module-derived / wasm contract accounts 32)
func bech32Of(n int, fill byte) string {
	b := make([]byte, n)
	for i := range b {
		b[i] = fill + byte(i)
	}
	return sdk.AccAddress(b).String()
}

var bech32Lens = []int{1, 2, 3, 10, 19, 20, 21, 31, 32, 33, 64, 128, 255}

func (g *gen) addrStr() string {
	w := g.w
	hexs := w.other.Hex()
	b32 := eth.EthAddrToNibiruAddr(w.other).String()
	if g.happy {
		return g.pick(hexs, b32, w.deps.Sender.EthAddr.Hex())
	}
	switch g.r.Pick(26, 16, 18, 40) {
	case 0:
		return hexs
	case 1:
		return b32
	case 2:
		// valid bech32 with every payload length class, right / wrong HRP, upper case
		v := bech32Of(bech32Lens[g.r.Intn(len(bech32Lens))], byte(g.r.Intn(200)))
		switch g.r.Pick(70, 12, 12, 6) {
		case 1:
			return strings.ToUpper(v)
		case 2:
			if other, err := bech32.ConvertAndEncode("cosmos", []byte{1, 2, 3, 4, 5}); err == nil {
				return other
			}
		case 3:
			return v[:len(v)/2] + strings.ToUpper(v[len(v)/2:]) // mixed case: invalid bech32
		}
		return v
	}
	feeCollector := "nibi17xpfvakm2amg962yls6f84z3kell8c5l8u8ezw"
	return g.pick("", hexs[2:], strings.ToUpper(hexs[2:]), "0X"+hexs[2:], hexs+"0", hexs[:41], "0x", b32[:len(b32)-1]+"q", "nibi1", "nibi1"+strings.Repeat("q", 38),
		"cosmos1hsk6jryyqjfhp5dhc55tc9jtckygx0eph6dd02", feeCollector, w.wasmAddr.String(), w.deps.Sender.NibiruAddr.String(), w.deps.Sender.EthAddr.Hex(),
		"0x0000000000000000000000000000000000000800", "not an address", "ünibi1…", strings.Repeat("0", 40), "0x"+strings.Repeat("g", 40), hexs+" ")
}

func (g *gen) amount() *big.Int {
	if g.happy {
		return big.NewInt(int64(g.r.Range(1, 5000)))
	}
	switch g.r.Pick(10, 15, 20, 10, 10, 12, 12, 6, 5) {
	case 0:
		return big.NewInt(0)
	case 1:
		return big.NewInt(1)
	case 2:
		return big.NewInt(int64(g.r.Range(2, 1000)))
	case 3:
		return big.NewInt(1_000_000)
	case 4:
		return big.NewInt(1_000_000_001)
	case 5:
		return new(big.Int).Set(two255)
	case 6:
		return new(big.Int).Set(two256m1)
	case 7:
		return new(big.Int).Lsh(big.NewInt(1), 64)
	}
	return new(big.Int).Sub(two255, big.NewInt(1))
}

type wasmCoin = struct {
	Denom  string   `json:"denom"`
	Amount *big.Int `json:"amount"`
}

func (g *gen) funds() []wasmCoin {
	out := []wasmCoin{}
	if g.happy {
		if g.r.Chance(1, 3) {
			out = append(out, wasmCoin{"unibi", big.NewInt(int64(g.r.Range(1, 50)))})
		}
		return out
	}
	switch g.r.Pick(50, 12, 26, 12) {
	case 0:
		return out
	case 1:
		return append(out, wasmCoin{"unibi", big.NewInt(int64(g.r.Range(1, 50)))})
	case 3:
		// the same denom listed more than once with amounts whose sum needs more than 256 bits
		// (anything that merges the entries with sdk.Coins.Add / Int.Add overflows)
		d := g.pick("unibi", g.w.coinDenom, "zzz", g.denom())
		switch g.r.Intn(3) {
		case 0:
			return append(out, wasmCoin{d, new(big.Int).Set(two255)}, wasmCoin{d, new(big.Int).Set(two255)})
		case 1:
			return append(out, wasmCoin{d, new(big.Int).Set(two256m1)}, wasmCoin{d, big.NewInt(1)})
		}
		return append(out, wasmCoin{"aaa", big.NewInt(1)}, wasmCoin{d, new(big.Int).Set(two256m1)}, wasmCoin{d, new(big.Int).Set(two256m1)})
	}
	n := g.r.Range(1, 3)
	for i := 0; i < n; i++ {
		out = append(out, wasmCoin{g.denom(), g.amount()})
	}
	return out
}

func (g *gen) wasmContract() string {
	if g.happy || g.r.Chance(6, 10) {
		return g.w.wasmAddr.String()
	}
	return g.addrStr()
}

func (g *gen) wasmMsg() []byte {
	if g.happy {
		return []byte(g.pick(`{"increment":{}}`, `{"reset":{"count":5}}`))
	}
	return []byte(g.pick(`{"increment":{}}`, `{"increment":{}}`, `{"reset":{"count":5}}`, `{}`, `{"bogus":1}`, ``, `not json`, `{"increment":{}}x`, `[]`, `"str"`, `{"increment":`,
		`{"count":{}}`, "\x00\x01", `{"reset":{"count":"x"}}`))
}

type wasmExecMsg = struct {
	ContractAddr string     `json:"contractAddr"`
	MsgArgs      []byte     `json:"msgArgs"`
	Funds        []wasmCoin `json:"funds"`
}

// structured arguments for one ABI method
func (g *gen) argsFor(pc int, name string) []interface{} {
	w := g.w
	erc := func() gethcommon.Address {
		if g.happy {
			return []gethcommon.Address{w.coinErc20, w.ercErc20}[g.r.Intn(2)]
		}
		switch g.r.Pick(40, 40, 20) {
		case 0:
			return w.coinErc20
		case 1:
			return w.ercErc20
		}
		return gethcommon.HexToAddress("0x1234")
	}
	who := func() gethcommon.Address {
		if g.r.Chance(1, 2) {
			return w.other
		}
		return w.deps.Sender.EthAddr
	}
	switch name {
	case "sendToBank":
		return []interface{}{erc(), g.amount(), g.addrStr()}
	case "balance":
		return []interface{}{who(), erc()}
	case "bankBalance":
		return []interface{}{who(), g.denom()}
	case "whoAmI":
		return []interface{}{g.addrStr()}
	case "sendToEvm":
		if g.happy {
			return []interface{}{g.pick(w.coinDenom, w.ercDenom), g.amount(), g.addrStr()}
		}
		return []interface{}{g.denom(), g.amount(), g.addrStr()}
	case "bankMsgSend":
		return []interface{}{g.addrStr(), g.denom(), g.amount()}
	case "getErc20Address":
		return []interface{}{g.denom()}
	case "execute":
		return []interface{}{g.wasmContract(), g.wasmMsg(), g.funds()}
	case "query":
		if g.happy {
			return []interface{}{g.wasmContract(), []byte(`{"count":{}}`)}
		}
		return []interface{}{g.wasmContract(), []byte(g.pick(`{"count":{}}`, `{"count":{}}`, `{}`, ``, `nope`, `{"bogus":{}}`))}
	case "queryRaw":
		return []interface{}{g.wasmContract(), []byte(g.pick("state", "", "\x00", "count", strings.Repeat("k", 200)))}
	case "instantiate":
		if g.happy {
			return []interface{}{g.pick("", w.deps.Sender.NibiruAddr.String()), w.wasmCodeID, []byte(`{"count": 3}`), "counter", g.funds()}
		}
		admin := g.pick("", "", w.deps.Sender.NibiruAddr.String(), "garbage", w.other.Hex())
		code := []uint64{w.wasmCodeID, w.wasmCodeID, 0, 999, ^uint64(0)}[g.r.Intn(5)]
		msg := []byte(g.pick(`{"count": 0}`, `{"count": 7}`, `{}`, ``, `bad`))
		label := g.pick("x", "counter", "", strings.Repeat("l", 129), " ")
		return []interface{}{admin, code, msg, label, g.funds()}
	case "executeMulti":
		n := g.r.Range(0, 3)
		ms := []wasmExecMsg{}
		for i := 0; i < n; i++ {
			ms = append(ms, wasmExecMsg{g.wasmContract(), g.wasmMsg(), g.funds()})
		}
		return []interface{}{ms}
	case "queryExchangeRate", "chainLinkLatestRoundData":
		if g.happy {
			return []interface{}{"unibi:uusd"}
		}
		return []interface{}{g.pick("unibi:uusd", "unibi:uusd", "unibi:uusd", "ubtc:uusd", "", "unibi", "a:b", "unibi:uusd:x", ":uusd", "unibi:", "ünibi:uusd",
			strings.Repeat("p", 300), "unibi:"+strings.Repeat("q", 128), "UNIBI:UUSD", "unibi;uusd", "1ab:uusd")}
	}
	return nil
}

func sortedMethods(abi *gethabi.ABI) []string {
	var ns []string
	for n := range abi.Methods {
		ns = append(ns, n)
	}
	for i := range ns {
		for j := i + 1; j < len(ns); j++ {
			if ns[j] < ns[i] {
				ns[i], ns[j] = ns[j], ns[i]
			}
		}
	}
	return ns
}

func (g *gen) randBytes(n int) []byte {
	b := make([]byte, n)
	for i := range b {
		b[i] = byte(g.r.Intn(256))
	}
	return b
}

func (g *gen) calldata(pc int) (data []byte, label string) {
	abi := abiOf(pc)
	switch g.r.Pick(3, 5, 6, 86) {
	case 0:
		return nil, "empty"
	case 1:
		return g.randBytes(g.r.Range(1, 3)), "short"
	case 2:
		return g.randBytes(4 + g.r.Intn(3)*32), "unknown-selector"
	}
	names := sortedMethods(abi)
	name := names[g.r.Intn(len(names))]
	m := abi.Methods[name]
	g.happy = g.r.Chance(35, 100)
	packed, err := abi.Pack(name, g.argsFor(pc, name)...)
	if err != nil {
		return m.ID, name + "/bare-selector"
	}
	switch g.r.Pick(64, 10, 5, 16, 5) {
	case 0:
		return packed, name + "/wellformed"
	case 1:
		cut := 4 + g.r.Intn(len(packed)-3)
		if cut > len(packed) {
			cut = len(packed)
		}
		return packed[:cut], name + "/truncated"
	case 2:
		return append(packed, g.randBytes(g.r.Range(1, 96))...), name + "/oversized"
	case 3:
		// overwrite one 32-byte word (offsets, lengths, values) with a hostile number
		out := append([]byte{}, packed...)
		nw := (len(out) - 4) / 32
		if nw > 0 {
			wi := g.r.Intn(nw)
			var word []byte
			switch g.r.Pick(3, 3, 2, 2, 2) {
			case 0:
				word = bytes.Repeat([]byte{0xff}, 32)
			case 1:
				word = gethcommon.LeftPadBytes(big.NewInt(int64(len(out))).Bytes(), 32)
			case 2:
				word = gethcommon.LeftPadBytes(new(big.Int).Lsh(big.NewInt(1), 63).Bytes(), 32)
			case 3:
				word = gethcommon.LeftPadBytes(big.NewInt(int64(g.r.Intn(len(out)+64))).Bytes(), 32)
			default:
				word = g.randBytes(32)
			}
			copy(out[4+wi*32:], word)
		}
		return out, name + "/bad-word"
	}
	return append(append([]byte{}, m.ID...), g.randBytes(g.r.Intn(200))...), name + "/random-payload"
}

func (g *gen) gasFor(pc int, data []byte, value *big.Int, kind string) uint64 {
	w := g.w
	p, _ := w.deps.EvmKeeper.NewEVM(w.deps.Ctx, evmtest.MOCK_GETH_MESSAGE, w.deps.EvmKeeper.GetEVMConfig(w.deps.Ctx), nil,
		w.deps.EvmKeeper.NewStateDB(w.deps.Ctx, statedb.NewEmptyTxConfig(gethcommon.Hash{}))).Precompile(precompileAddrs[pc])
	var req uint64 = 21000
	Recover(func() { req = p.RequiredGas(data) })
	adj := func(x uint64) uint64 {
		// a CALL with value adds the 2300 stipend to what the callee receives
		if value.Sign() != 0 && (kind == "call" || kind == "callcode") && x >= 2300 {
			return x - 2300
		}
		return x
	}
	cost, hasCost := uint64(0), false
	if g.r.Chance(1, 2) {
		cost, hasCost = w.measure(c08In{PC: pc, Kind: kind, Value: value.String(), Data: hex.EncodeToString(data)})
	}
	if hasCost && cost > req {
		// sweep around the call's real cost: every G below it must run out of gas
		switch g.r.Pick(10, 25, 20, 20, 15, 10) {
		case 0:
			return cost
		case 1:
			return cost - 1
		case 2:
			return cost - req/2
		case 3:
			return cost - req
		case 4:
			if cost > req+1 {
				return cost - req - 1
			}
			return cost - 1
		default:
			return req + uint64(g.r.Intn(int(cost-req)))
		}
	}
	switch g.r.Pick(52, 8, 8, 14, 10, 4, 4) {
	case 0:
		return 3_000_000
	case 1:
		if req == 0 {
			return 0
		}
		return adj(req - 1)
	case 2:
		return adj(req)
	case 3:
		return adj(req + uint64(g.r.Range(1, 1500)))
	case 4:
		return adj(req + uint64(g.r.Range(1500, 60000)))
	case 5:
		return uint64(g.r.Intn(1000))
	}
	return 21000
}

func (g *gen) one() c08In {
	pc := g.r.Pick(50, 30, 20)
	kind := []string{"top", "call", "static", "delegate", "callcode", "nested"}[g.r.Pick(28, 20, 15, 9, 9, 19)]
	value := big.NewInt(0)
	if kind == "top" || kind == "call" || kind == "callcode" {
		switch g.r.Pick(72, 22, 6) {
		case 1:
			value = big.NewInt(1_000_000_000_000)
		case 2:
			// (values that are no multiple of 10^12 wei change the unibi supply on commit: that is C05's subject)
			value = big.NewInt(5_000_000_000_000)
		}
	}
	data, label := g.calldata(pc)
	return c08In{PC: pc, Kind: kind, Value: value.String(), Gas: g.gasFor(pc, data, value, kind), Data: hex.EncodeToString(data), Label: label}
}

// openers: the historic failure shapes and the boundary cases, run first on every check
func (w *world) openers() []c08In {
	ftABI, wABI, oABI := abiOf(0), abiOf(1), abiOf(2)
	pack := func(a *gethabi.ABI, name string, args ...interface{}) string {
		bz, err := a.Pack(name, args...)
		if err != nil {
			panic(err)
		}
		return hex.EncodeToString(bz)
	}
	to := w.other.Hex()
	send := pack(ftABI, "bankMsgSend", to, "unibi", big.NewInt(5))
	who := pack(ftABI, "whoAmI", to)
	whoReq := uint64(1000 + 3*(len(who)/2-4))
	inc := pack(wABI, "execute", w.wasmAddr.String(), []byte(`{"increment":{}}`), []wasmCoin{})
	q := pack(oABI, "queryExchangeRate", "unibi:uusd")
	qReq := uint64(1000 + 3*(len(q)/2-4))
	var out []c08In
	for pc := 0; pc < 3; pc++ {
		out = append(out, c08In{PC: pc, Kind: "top", Value: "0", Gas: 1_000_000, Data: "", Label: "opener/empty"})
	}
	out = append(out,
		c08In{0, "top", "0", 1_000_000, "01", "opener/short"},
		c08In{0, "call", "0", 1_000_000, "010203", "opener/short"},
		c08In{0, "top", "1000000000000", 1_000_000, "", "opener/plain-transfer"},
		c08In{0, "top", "0", 1_000_000, pack(ftABI, "bankMsgSend", to, "", big.NewInt(1)), "opener/bankMsgSend-empty-denom"},
		c08In{0, "call", "0", 1_000_000, pack(ftABI, "bankMsgSend", to, "unibi", two256m1), "opener/bankMsgSend-max"},
		c08In{0, "top", "0", 1_000_000, send, "opener/bankMsgSend-ok"},
		c08In{0, "static", "0", 1_000_000, send, "opener/static-mutation"},
		c08In{0, "delegate", "0", 1_000_000, send, "opener/delegate-mutation"},
		c08In{0, "callcode", "0", 1_000_000, send, "opener/callcode-mutation"},
		c08In{0, "nested", "0", 1_000_000, send, "opener/nested-static-mutation"},
		c08In{1, "nested", "0", 3_000_000, inc, "opener/nested-static-wasm-execute"},
		c08In{1, "call", "0", 3_000_000, inc, "opener/wasm-execute-ok"},
		c08In{1, "static", "0", 3_000_000, inc, "opener/static-wasm-execute"},
		c08In{0, "top", "0", whoReq, who, "opener/whoAmI-exact-gas"},
		c08In{0, "top", "0", whoReq - 1, who, "opener/whoAmI-gas-minus-1"},
		c08In{0, "static", "0", 1_000_000, who, "opener/whoAmI-static"},
		c08In{0, "top", "1000000000000", 1_000_000, who, "opener/query-with-value"},
		c08In{2, "top", "0", qReq + 500, q, "opener/oracle-gas-inside-body"},
		c08In{2, "call", "0", qReq + 1000, q, "opener/oracle-gas-inside-body"},
		c08In{2, "top", "1000000000000", 1_000_000, q, "opener/oracle-query-with-value"},
		c08In{2, "top", "0", 1_000_000, q, "opener/oracle-ok"},
		// address strings that are VALID bech32 with unusual payload lengths (1..255 bytes are accepted by the SDK)
		c08In{0, "top", "0", 1_000_000, pack(ftABI, "whoAmI", bech32Of(3, 0xab)), "opener/bech32-len3-whoAmI"},
		c08In{0, "call", "0", 1_000_000, pack(ftABI, "whoAmI", bech32Of(1, 7)), "opener/bech32-len1-whoAmI"},
		c08In{0, "static", "0", 1_000_000, pack(ftABI, "whoAmI", bech32Of(19, 1)), "opener/bech32-len19-whoAmI"},
		c08In{0, "delegate", "0", 1_000_000, pack(ftABI, "whoAmI", bech32Of(3, 0xab)), "opener/bech32-len3-whoAmI"},
		c08In{0, "nested", "0", 1_000_000, pack(ftABI, "whoAmI", bech32Of(21, 3)), "opener/bech32-len21-whoAmI"},
		c08In{0, "top", "0", 1_000_000, pack(ftABI, "whoAmI", bech32Of(32, 9)), "opener/bech32-len32-whoAmI"},
		c08In{0, "call", "0", 1_000_000, pack(ftABI, "whoAmI", bech32Of(255, 0)), "opener/bech32-len255-whoAmI"},
		c08In{0, "top", "0", 1_000_000, pack(ftABI, "whoAmI", strings.ToUpper(bech32Of(3, 0xab))), "opener/bech32-upper-whoAmI"},
		c08In{0, "top", "0", 1_000_000, pack(ftABI, "bankMsgSend", bech32Of(3, 0xab), "unibi", big.NewInt(5)), "opener/bech32-len3-bankMsgSend"},
		c08In{0, "call", "0", 1_000_000, pack(ftABI, "bankMsgSend", bech32Of(19, 2), "unibi", big.NewInt(5)), "opener/bech32-len19-bankMsgSend"},
		c08In{0, "top", "0", 1_000_000, pack(ftABI, "bankMsgSend", bech32Of(32, 9), "unibi", big.NewInt(5)), "opener/bech32-len32-bankMsgSend"},
		c08In{0, "static", "0", 1_000_000, pack(ftABI, "bankMsgSend", bech32Of(3, 0xab), "unibi", big.NewInt(5)), "opener/bech32-len3-bankMsgSend"},
		c08In{0, "top", "0", 3_000_000, pack(ftABI, "sendToBank", w.ercErc20, big.NewInt(5), bech32Of(3, 0xab)), "opener/bech32-len3-sendToBank"},
		c08In{0, "call", "0", 3_000_000, pack(ftABI, "sendToBank", w.coinErc20, big.NewInt(5), bech32Of(32, 4)), "opener/bech32-len32-sendToBank"},
		c08In{0, "top", "0", 3_000_000, pack(ftABI, "sendToEvm", w.coinDenom, big.NewInt(5), bech32Of(3, 0xab)), "opener/bech32-len3-sendToEvm"},
		c08In{0, "call", "0", 3_000_000, pack(ftABI, "sendToEvm", w.ercDenom, big.NewInt(5), bech32Of(19, 5)), "opener/bech32-len19-sendToEvm"},
		c08In{1, "top", "0", 3_000_000, pack(wABI, "execute", bech32Of(3, 0xab), []byte(`{"increment":{}}`), []wasmCoin{}), "opener/bech32-len3-wasm-execute"},
		c08In{1, "static", "0", 3_000_000, pack(wABI, "query", bech32Of(19, 1), []byte(`{"count":{}}`)), "opener/bech32-len19-wasm-query"},
		c08In{1, "call", "0", 3_000_000, pack(wABI, "queryRaw", bech32Of(255, 1), []byte("state")), "opener/bech32-len255-wasm-queryRaw"},
		// funds arrays naming one denom twice with amounts summing to 2^256
		c08In{1, "top", "0", 3_000_000, pack(wABI, "execute", w.wasmAddr.String(), []byte(`{"increment":{}}`),
			[]wasmCoin{{"unibi", two255}, {"unibi", two255}}), "opener/wasm-execute-dup-funds"},
		c08In{1, "call", "0", 3_000_000, pack(wABI, "instantiate", "", w.wasmCodeID, []byte(`{"count": 0}`), "x",
			[]wasmCoin{{"unibi", two256m1}, {"unibi", big.NewInt(1)}}), "opener/wasm-instantiate-dup-funds"},
		c08In{1, "top", "0", 3_000_000, pack(wABI, "executeMulti", []wasmExecMsg{{w.wasmAddr.String(), []byte(`{"increment":{}}`),
			[]wasmCoin{{"ucoin", two255}, {"ucoin", two255}}}}), "opener/wasm-executeMulti-dup-funds"},
		// bank supply of the ERC20-born denom is 2^255: minting 2^255 more needs 257 bits
		c08In{0, "top", "0", 3_000_000, pack(ftABI, "sendToBank", w.ercErc20, two255, to), "opener/sendToBank-supply-overflow"},
		c08In{0, "call", "0", 3_000_000, pack(ftABI, "sendToBank", w.ercErc20, two255, to), "opener/sendToBank-supply-overflow"},
		c08In{0, "top", "0", 3_000_000, pack(ftABI, "sendToBank", w.ercErc20, new(big.Int).Sub(two255, big.NewInt(5_000_001)), to), "opener/sendToBank-supply-just-fits"},
	)
	// every ABI method with arguments that let it succeed, in every call kind: each state-changing
	// method meets each read-only context, each query each kind, on every run
	g := &gen{w: w, r: NewRng(0xC08), happy: true}
	for pc := 0; pc < 3; pc++ {
		a := abiOf(pc)
		for _, name := range sortedMethods(a) {
			bz, err := a.Pack(name, g.argsFor(pc, name)...)
			if err != nil {
				continue
			}
			for _, kind := range []string{"top", "call", "static", "delegate", "callcode", "nested"} {
				out = append(out, c08In{pc, kind, "0", 3_000_000, hex.EncodeToString(bz), "opener/matrix-" + kind})
			}
			// forwarded gas around the call's real cost (measured with ample gas) and its RequiredGas
			for _, kind := range []string{"top", "call"} {
				if w.storeKeys == nil {
					break // bare world of the DeliverTx driver: nothing to measure on
				}
				probe := c08In{PC: pc, Kind: kind, Value: "0", Data: hex.EncodeToString(bz)}
				cost, ok := w.measure(probe)
				req := uint64(len(bz)-4)*3 + 1000
				if !abiOf(pc).Methods[name].IsConstant() {
					req = uint64(len(bz)-4)*30 + 2000
				}
				if !ok || cost <= req+1 {
					continue
				}
				for _, gq := range []uint64{cost, cost - 1, cost - req/2, cost - req, cost - req - 1} {
					out = append(out, c08In{pc, kind, "0", gq, hex.EncodeToString(bz), "opener/gas-sweep-" + kind})
				}
			}
		}
	}
	return out
}

func TestC08(t *testing.T) {
	cfg := LoadCfg(t, 500, 8000)
	w := newWorld(t)
	em := NewEmitter(t, cfg.Out)
	defer em.Close()
	if cfg.Replay != "" {
		for _, raw := range cfg.ReplayInputs(t) {
			var in c08In
			if err := json.Unmarshal(raw, &in); err != nil {
				t.Fatalf("replay input: %v", err)
			}
			if in.Kind == "tx" {
				continue // replayed by TestC08Tx
			}
			em.Emit(in, w.runCase(in), nil)
		}
		return
	}
	for _, in := range w.openers() {
		em.Emit(in, w.runCase(in), nil)
	}
	root := NewRng(cfg.Seed)
	for i := 0; i < cfg.N; i++ {
		g := &gen{w: w, r: root.Fork()}
		in := g.one()
		em.Emit(in, w.runCase(in), nil)
	}
}
