package c08

// C08 — Nibiru precompiles fail closed on any input and respect call context.
//
// A case = one call to a precompile (FunToken 0x…0800, Wasm 0x…0802, Oracle 0x…0801):
//
//	(precompile, call kind, attached value, forwarded gas, calldata)
//
// call kinds: "top" (the transaction's own evm.Call from an EOA), "call" / "static" / "delegate" /
// "callcode" (issued by a hand-assembled forwarder contract), "nested" (STATICCALL to the CALL
// forwarder, i.e. a CALL below a static frame).  Every case runs on a branch of one prepared
// world (funded accounts, a coin-born and an ERC20-born FunToken, a wasm counter contract, an
// oracle price).
//
// Observables, taken at the geth wrapper's boundary (return values for "top", the tracer's
// enter/exit of the precompile frame otherwise): outcome class ok|err|oog|panic, gas handed
// back, gas forwarded, whether the digest of the bank+evm+wasm+oracle stores after the
// StateDB commit equals the one before the call (and the same digest ignoring the unibi
// balances of caller and precompile account).  Besides, the decode facts the Coq model takes
// as oracle values: the arguments the geth ABI decoder returns for the calldata, abstracted
// (strings as bytes plus "is bech32 / tokenfactory denom", bytes as "is JSON").

import (
	"bytes"
	"encoding/hex"
	"encoding/json"
	"fmt"
	"math/big"
	"reflect"
	"strconv"
	"strings"
	"testing"

	wasm "github.com/CosmWasm/wasmd/x/wasm/types"
	storetypes "github.com/cosmos/cosmos-sdk/store/types"
	sdk "github.com/cosmos/cosmos-sdk/types"
	"github.com/cosmos/cosmos-sdk/types/bech32"
	gethabi "github.com/ethereum/go-ethereum/accounts/abi"
	gethcommon "github.com/ethereum/go-ethereum/common"
	gethcore "github.com/ethereum/go-ethereum/core/types"
	"github.com/ethereum/go-ethereum/core/vm"
	"github.com/ethereum/go-ethereum/params"

	. "verifharness/hx"

	"github.com/NibiruChain/nibiru/v2/eth"
	"github.com/NibiruChain/nibiru/v2/x/evm/embeds"
	"github.com/NibiruChain/nibiru/v2/x/evm/evmtest"
	"github.com/NibiruChain/nibiru/v2/x/evm/statedb"
	tftypes "github.com/NibiruChain/nibiru/v2/x/tokenfactory/types"
)

type c08In struct {
	PC    int    `json:"pc"`    // 0 funtoken, 1 wasm, 2 oracle
	Kind  string `json:"kind"`  // top | call | static | delegate | callcode | nested
	Value string `json:"value"` // wei (decimal)
	Gas   uint64 `json:"gas"`   // gas requested for the precompile call
	Data  string `json:"data"`  // calldata (hex)
	Label string `json:"label"` // generator class (histogram only)
	// Pre: the earlier steps of the SAME transaction (same StateDB / EVM), run in order before the call
	// under test: other precompile calls and EVM state changes.
	Pre []c08Step `json:"pre,omitempty"`
	// Token: how the registered hostile ERC20 (world.hostile) answers balanceOf / transfer / … during this case;
	// configured by a committed call of its configure() before the transaction starts
	Token *c08Token `json:"token,omitempty"`
}

// c08Step is one earlier step of the transaction: a precompile call (Evm == "") or an EVM state change
// ("transfer": value moved between two accounts, "sstore": a storage slot written, "log": a log emitted).
type c08Step struct {
	Evm   string `json:"evm,omitempty"`
	PC    int    `json:"pc"`
	Kind  string `json:"kind,omitempty"`
	Value string `json:"value,omitempty"`
	Gas   uint64 `json:"gas,omitempty"`
	Data  string `json:"data,omitempty"`
}

// what was observed of an earlier step (the model runs the whole transaction)
type c08StepObs struct {
	Evm      bool     `json:"evm,omitempty"`
	Reached  bool     `json:"reached"`
	Class    string   `json:"class"`
	Left     uint64   `json:"left"`
	Fwd      uint64   `json:"fwd"`
	PanicOOG bool     `json:"panic_oog,omitempty"`
	PanicInt bool     `json:"panic_int,omitempty"`
	Method   string   `json:"method"`
	UnpackOK bool     `json:"unpack_ok"`
	Args     []c08Arg `json:"args"`
}

type c08Arg struct {
	T     string      `json:"t"` // addr | uint | str | bytes | funds | msgs
	V     string      `json:"v,omitempty"`
	S     []int       `json:"s,omitempty"`
	B32   bool        `json:"b32,omitempty"`
	Blen  int         `json:"blen,omitempty"` // payload bytes of the bech32 address (sdk accepts 1..255)
	TF    bool        `json:"tf,omitempty"`
	JSON  bool        `json:"json,omitempty"`
	Funds []c08Fund   `json:"funds,omitempty"`
	Msgs  []c08MsgArg `json:"msgs,omitempty"`
}
type c08Fund struct {
	D []int  `json:"d"`
	A string `json:"a"`
}
type c08MsgArg struct {
	B32   bool      `json:"b32"`
	JSON  bool      `json:"json"`
	Funds []c08Fund `json:"funds"`
}

type c08Obs struct {
	Reached  bool   `json:"reached"`
	Class    string `json:"class"`
	Left     uint64 `json:"left"`
	Fwd      uint64 `json:"fwd"`
	StateEq  bool   `json:"state_eq"`
	CoreEq   bool   `json:"core_eq"`
	PanicOOG bool   `json:"panic_oog"`
	Cost     string `json:"cost"`      // gas the same call consumes with ample gas (forwarded − handed back) when it succeeds then; "" otherwise
	PanicInt bool   `json:"panic_int"` // sdkmath "integer overflow" (bank supply beyond 256 bits)
	// PanicSlice: Go runtime "slice bounds out of range" / "index out of range"
	PanicSlice bool         `json:"panic_slice,omitempty"`
	Method     string       `json:"method"`
	UnpackOK   bool         `json:"unpack_ok"`
	Args       []c08Arg     `json:"args"`
	Note       string       `json:"note,omitempty"` // first words of the error / panic (not compared)
	Pre        []c08StepObs `json:"pre,omitempty"`
	// DropEq: the same transaction without its FAILED earlier calls commits the same state and gives the call
	// under test the same outcome class (true when there is no failed earlier call, or the StateDB's budget
	// of calls - which failed calls use up too - is involved)
	DropEq bool `json:"drop_eq"`
}

func mkIn(pc int, kind, value string, gas uint64, data, label string) c08In {
	return c08In{PC: pc, Kind: kind, Value: value, Gas: gas, Data: data, Label: label}
}

func abiOf(pc int) *gethabi.ABI {
	switch pc {
	case 0:
		return embeds.SmartContract_FunToken.ABI
	case 1:
		return embeds.SmartContract_Wasm.ABI
	}
	return embeds.SmartContract_Oracle.ABI
}

func bytesToInts(b []byte) []int {
	out := make([]int, len(b))
	for i, c := range b {
		out[i] = int(c)
	}
	return out
}

func fundsOf(v reflect.Value) []c08Fund {
	out := []c08Fund{}
	for i := 0; i < v.Len(); i++ {
		e := v.Index(i)
		d := e.FieldByName("Denom").String()
		a, _ := e.FieldByName("Amount").Interface().(*big.Int)
		as := "0"
		if a != nil {
			as = a.String()
		}
		out = append(out, c08Fund{D: bytesToInts([]byte(d)), A: as})
	}
	return out
}

func jsonOK(b []byte) bool {
	m := wasm.RawContractMessage(b)
	return m.ValidateBasic() == nil
}

func strArg(s string) c08Arg {
	acc, e1 := sdk.AccAddressFromBech32(s)
	e2 := tftypes.DenomStr(s).Validate()
	a := c08Arg{T: "str", S: bytesToInts([]byte(s)), B32: e1 == nil, TF: e2 == nil}
	if e1 == nil {
		a.Blen = len(acc)
	}
	return a
}

// decode runs the same selector lookup and ABI decoding the precompiles use and abstracts the result.
func decode(pc int, data []byte) (method string, ok bool, args []c08Arg) {
	args = []c08Arg{}
	if len(data) < 4 {
		return "", false, args
	}
	abi := abiOf(pc)
	var m *gethabi.Method
	for _, mm := range abi.Methods {
		if bytes.Equal(mm.ID, data[:4]) {
			mc := mm
			m = &mc
		}
	}
	if m == nil {
		return "", false, args
	}
	var vals []interface{}
	var err error
	if p := Recover(func() { vals, err = m.Inputs.Unpack(data[4:]) }); p != "" || err != nil {
		return m.RawName, false, args
	}
	for i, v := range vals {
		switch m.Inputs[i].Type.T {
		case gethabi.AddressTy:
			args = append(args, c08Arg{T: "addr"})
		case gethabi.UintTy, gethabi.IntTy:
			switch x := v.(type) {
			case *big.Int:
				args = append(args, c08Arg{T: "uint", V: x.String()})
			default:
				args = append(args, c08Arg{T: "uint", V: fmt.Sprint(x)})
			}
		case gethabi.StringTy:
			args = append(args, strArg(v.(string)))
		case gethabi.BytesTy:
			b := v.([]byte)
			args = append(args, c08Arg{T: "bytes", JSON: jsonOK(b)})
		case gethabi.SliceTy:
			rv := reflect.ValueOf(v)
			if rv.Len() >= 0 && rv.Type().Elem().Kind() == reflect.Struct && rv.Type().Elem().NumField() == 2 {
				args = append(args, c08Arg{T: "funds", Funds: fundsOf(rv)})
			} else {
				ms := []c08MsgArg{}
				for j := 0; j < rv.Len(); j++ {
					e := rv.Index(j)
					_, e1 := sdk.AccAddressFromBech32(e.FieldByName("ContractAddr").String())
					b := e.FieldByName("MsgArgs").Bytes()
					ms = append(ms, c08MsgArg{B32: e1 == nil, JSON: jsonOK(b),
						Funds: fundsOf(e.FieldByName("Funds"))})
				}
				args = append(args, c08Arg{T: "msgs", Msgs: ms})
			}
		default:
			args = append(args, c08Arg{T: "addr"})
		}
	}
	return m.RawName, true, args
}

// coreDigest = digest ignoring the unibi balance entries of the two accounts between which the
// wrapper moves the attached value.
func (w *world) digests(ctx sdk.Context, a, b gethcommon.Address) (full, core string) {
	return w.digest(ctx, nil), w.digest(ctx, func(store string, key []byte) bool {
		if store != "bank" || !bytes.Contains(key, []byte("unibi")) {
			return false
		}
		return bytes.Contains(key, a.Bytes()) || bytes.Contains(key, b.Bytes())
	})
}

func classOf(errStr string, isErr bool) string {
	if !isErr {
		return "ok"
	}
	if strings.Contains(errStr, vm.ErrOutOfGas.Error()) {
		return "oog"
	}
	return "err"
}

func note(s string) string {
	s = strings.ReplaceAll(s, "\n", " ")
	if len(s) > 160 {
		s = s[:160]
	}
	return s
}

const ampleGas uint64 = 8_000_000

// runCase runs the call (after the earlier steps of its transaction) and, on a second branch of the
// world, the same transaction with ample gas for the call under test: what that one is charged is the
// call's real cost ("gas charged = gas consumed" is judged against it).  The input handed back is the
// input really run: a transaction is cut at the first step that panics (that step becomes the call
// under test).
func (w *world) runCase(in c08In) (c08In, c08Obs) {
	in, obs := w.runOnce(in)
	if c, ok := w.measure(in); ok {
		obs.Cost = strconv.FormatUint(c, 10)
	}
	return in, obs
}

func (w *world) measure(in c08In) (uint64, bool) {
	ref := in
	ref.Gas = ampleGas
	_, r := w.runOnce(ref)
	if r.Reached && r.Class == "ok" && r.Fwd >= r.Left {
		return r.Fwd - r.Left, true
	}
	return 0, false
}

// tx is one EVM transaction in progress: one StateDB, one EVM, on a branch of the world.
type txRun struct {
	w      *world
	ctx    sdk.Context
	sdb    *statedb.StateDB
	evmObj *vm.EVM
	ft     *frameTracer
	nEvm   int
}

func (w *world) newTx(tok ...*c08Token) *txRun {
	cctx, _ := w.deps.Ctx.CacheContext()
	if len(tok) == 1 && tok[0] != nil {
		cfg := w.deps.EvmKeeper.NewStateDB(cctx, statedb.NewEmptyTxConfig(gethcommon.Hash{}))
		cfgEvm := w.deps.EvmKeeper.NewEVM(cctx, evmtest.MOCK_GETH_MESSAGE, w.deps.EvmKeeper.GetEVMConfig(cctx), &frameTracer{}, cfg)
		cfg.PrepareAccessList(w.deps.Sender.EthAddr, &w.hostile, cfgEvm.ActivePrecompiles(params.Rules{}), nil)
		if _, _, err := cfgEvm.Call(vm.AccountRef(w.deps.Sender.EthAddr), w.hostile, tok[0].configCalldata(), 1_000_000, big.NewInt(0)); err != nil {
			panic("configure hostile token: " + err.Error())
		}
		if err := cfg.Commit(); err != nil {
			panic("configure hostile token: " + err.Error())
		}
	}
	sdb := w.deps.EvmKeeper.NewStateDB(cctx, statedb.NewEmptyTxConfig(gethcommon.Hash{}))
	ft := &frameTracer{}
	evmObj := w.deps.EvmKeeper.NewEVM(cctx, evmtest.MOCK_GETH_MESSAGE, w.deps.EvmKeeper.GetEVMConfig(cctx), ft, sdb)
	// as ApplyEvmMsg does for every transaction: sender and precompiles are warm before the first opcode runs
	sdb.PrepareAccessList(w.deps.Sender.EthAddr, nil, evmObj.ActivePrecompiles(params.Rules{}), nil)
	return &txRun{w: w, ctx: cctx, sdb: sdb, evmObj: evmObj, ft: ft}
}

func callerOf(w *world, kind string) (caller, target gethcommon.Address) {
	caller = w.deps.Sender.EthAddr
	switch kind {
	case "call", "nested":
		caller, target = fwdCall, fwdCall
	case "static":
		caller, target = fwdStatic, fwdStatic
	case "delegate":
		caller, target = fwdDelegate, fwdDelegate
	case "callcode":
		caller, target = fwdCallCode, fwdCallCode
	}
	return
}

// evmChange performs a journaled EVM state change on the transaction's StateDB.
func (t *txRun) evmChange(what string) {
	t.nEvm++
	w := t.w
	switch what {
	case "transfer":
		Recover(func() {
			_, _, _ = t.evmObj.Call(vm.AccountRef(w.deps.Sender.EthAddr), w.other, nil, 100_000, big.NewInt(1_000_000_000_000))
		})
	case "log":
		t.sdb.AddLog(&gethcore.Log{Address: fwdCall, Topics: []gethcommon.Hash{gethcommon.BigToHash(big.NewInt(int64(t.nEvm)))}, Data: []byte{byte(t.nEvm)}})
	default: // sstore
		t.sdb.SetState(fwdCall, gethcommon.BigToHash(big.NewInt(0xC08)), gethcommon.BigToHash(big.NewInt(int64(1000+t.nEvm))))
	}
}

// call performs one precompile call on the transaction and reports what the geth wrapper's boundary showed.
func (t *txRun) call(pc int, kind, valueStr string, gas uint64, dataHex string) (obs c08Obs) {
	w := t.w
	data, _ := hex.DecodeString(dataHex)
	value, ok := new(big.Int).SetString(valueStr, 10)
	if !ok || value.Sign() < 0 {
		value = big.NewInt(0)
	}
	if pc < 0 || pc > 2 {
		pc = 0
	}
	pcAddr := precompileAddrs[pc]
	obs = c08Obs{Args: []c08Arg{}, DropEq: true}
	obs.Method, obs.UnpackOK, obs.Args = decode(pc, data)
	sender := w.deps.Sender.EthAddr
	_, target := callerOf(w, kind)
	evmObj, ft := t.evmObj, t.ft
	frame0 := len(ft.frames)
	ft.stack = ft.stack[:0]

	var left uint64
	var err error
	var pval interface{}
	func() {
		defer func() {
			if r := recover(); r != nil {
				pval = r
			}
		}()
		switch kind {
		case "top":
			_, left, err = evmObj.Call(vm.AccountRef(sender), pcAddr, data, gas, value)
		case "nested":
			_, _, err = evmObj.StaticCall(vm.AccountRef(sender), target, fwdInput(pcAddr, gas, big.NewInt(0), data), 12_000_000)
		default:
			_, _, err = evmObj.Call(vm.AccountRef(sender), target, fwdInput(pcAddr, gas, value, data), 12_000_000, big.NewInt(0))
		}
	}()
	frames := ft.frames[frame0:]
	if pval != nil {
		obs.Reached = true
		obs.Class = "panic"
		_, obs.PanicOOG = pval.(storetypes.ErrorOutOfGas)
		obs.Note = note(fmt.Sprintf("%T %v", pval, pval))
		obs.PanicInt = strings.Contains(obs.Note, "integer overflow")
		obs.PanicSlice = strings.Contains(obs.Note, "slice bounds out of range") || strings.Contains(obs.Note, "index out of range")
		obs.Fwd = gas
		for _, f := range frames {
			if f.To == pcAddr {
				obs.Fwd = f.Gas
			}
		}
		return obs
	}
	if kind == "top" {
		obs.Reached = true
		obs.Fwd = gas
		obs.Left = left
		es := ""
		if err != nil {
			es = err.Error()
			// rejected by the wrapper before the precompile is looked at
			if err == vm.ErrInsufficientBalance || err == vm.ErrDepth {
				obs.Reached = false
			}
		}
		obs.Class = classOf(es, err != nil)
		obs.Note = note(es)
		return obs
	}
	var fr *frame
	for _, f := range frames {
		if f.To == pcAddr && fr == nil {
			fr = f
		}
	}
	if fr == nil || !fr.Closed {
		obs.Reached = false
		obs.Class = "err"
		if err != nil {
			obs.Note = note("outer: " + err.Error())
		}
		return obs
	}
	obs.Reached = true
	obs.Fwd = fr.Gas
	obs.Left = fr.Gas - fr.GasUsed
	obs.Class = classOf(fr.Err, fr.Err != "")
	obs.Note = note(fr.Err)
	if err != nil {
		obs.Note = note("outer: " + err.Error() + " | " + fr.Err)
	}
	return obs
}

// runPre runs the earlier steps; it stops at a step that panics (index returned, -1 otherwise).
func (t *txRun) runPre(pre []c08Step) (obs []c08StepObs, panicked int, last c08Obs) {
	for i, st := range pre {
		if st.Evm != "" {
			t.evmChange(st.Evm)
			obs = append(obs, c08StepObs{Evm: true, Args: []c08Arg{}})
			continue
		}
		o := t.call(st.PC, st.Kind, st.Value, st.Gas, st.Data)
		if o.Class == "panic" {
			return obs, i, o
		}
		obs = append(obs, c08StepObs{Reached: o.Reached, Class: o.Class, Left: o.Left, Fwd: o.Fwd, Method: o.Method, UnpackOK: o.UnpackOK, Args: o.Args})
	}
	return obs, -1, last
}

func (w *world) runOnce(in c08In) (c08In, c08Obs) {
	if in.PC < 0 || in.PC > 2 {
		in.PC = 0
	}
	pcAddr := precompileAddrs[in.PC]
	caller, _ := callerOf(w, in.Kind)

	var d0, c0 string
	var preObs []c08StepObs
	if len(in.Pre) > 0 {
		// "state as before the call" = what the same transaction commits when it ends right before the call
		// (one StateDB at a time: the keeper's bank wrapper mirrors balance changes into the latest one)
		t0 := w.newTx(in.Token)
		if _, p, _ := t0.runPre(in.Pre); p < 0 {
			if cerr := t0.sdb.Commit(); cerr == nil {
				d0, c0 = w.digests(t0.ctx, caller, pcAddr)
			}
		}
	}
	t := w.newTx(in.Token)
	if len(in.Pre) == 0 {
		d0, c0 = w.digests(t.ctx, caller, pcAddr)
	} else {
		var p int
		var o c08Obs
		preObs, p, o = t.runPre(in.Pre)
		if p >= 0 {
			// a panic aborts the transaction: the panicking step is the call under test of a shorter transaction
			st := in.Pre[p]
			cut := c08In{PC: st.PC, Kind: st.Kind, Value: st.Value, Gas: st.Gas, Data: st.Data, Label: in.Label + "/cut", Pre: in.Pre[:p]}
			o.Pre = preObs
			o.StateEq, o.CoreEq = true, true
			return cut, o
		}
	}
	obs := t.call(in.PC, in.Kind, in.Value, in.Gas, in.Data)
	obs.Pre = preObs
	if obs.Class == "panic" {
		// a panic aborts the transaction: nothing is committed
		obs.StateEq, obs.CoreEq = true, true
		return in, obs
	}
	if cerr := t.sdb.Commit(); cerr != nil {
		obs.Note = note("commit: " + cerr.Error() + " | " + obs.Note)
	}
	d1, c1 := w.digests(t.ctx, caller, pcAddr)
	obs.StateEq, obs.CoreEq = d0 == d1, c0 == c1
	// a failed call is invisible to the rest of the transaction
	var kept []c08Step
	calls, dropped := 1, 0
	for i, st := range in.Pre {
		if st.Evm == "" {
			calls++
			if po := preObs[i]; po.Reached && (po.Class == "err" || po.Class == "oog") {
				dropped++
				continue
			}
		}
		kept = append(kept, st)
	}
	if dropped > 0 && calls <= callBudget {
		t2 := w.newTx(in.Token)
		obs.DropEq = false
		if _, p, _ := t2.runPre(kept); p < 0 {
			o2 := t2.call(in.PC, in.Kind, in.Value, in.Gas, in.Data)
			if o2.Class != "panic" && t2.sdb.Commit() == nil {
				d2, _ := w.digests(t2.ctx, caller, pcAddr)
				obs.DropEq = d2 == d1 && o2.Class == obs.Class
			}
		}
	}
	return in, obs
}

// callBudget: precompile calls one StateDB admits (cases beyond it are not asked the drop question)
const callBudget = 10

// ---------------------------------------------------------------- generator

var two256m1 = new(big.Int).Sub(new(big.Int).Lsh(big.NewInt(1), 256), big.NewInt(1))
var two255 = new(big.Int).Lsh(big.NewInt(1), 255)

type gen struct {
	w     *world
	r     *Rng
	happy bool // draw arguments that let the method succeed
}

func (g *gen) pick(xs ...string) string { return xs[g.r.Intn(len(xs))] }

func (g *gen) denom() string {
	w := g.w
	if g.happy {
		return g.pick("unibi", w.coinDenom, w.ercDenom)
	}
	switch g.r.Pick(30, 10, 8, 40) {
	case 0:
		return "unibi"
	case 1:
		return w.coinDenom
	case 2:
		return w.ercDenom
	}
	long128 := "a" + strings.Repeat("b", 127)
	return g.pick("", "a", "ab", "abc", long128, long128+"c", "ünibi", "ibc/27394FB092D2ECCD56123C74F36E4C1F926001CEADA9CA97EA622B25F41E5EB2",
		"tf/"+eth.EthAddrToNibiruAddr(w.other).String()+"/sub", "tf/garbage/sub", "tf/\x00/sub", "uni\x00", "1abc", "uni bi", "UNIBI", "uni\x00bi", "unibi\n",
		"u:n/i.b_i-", "unibi:uusd", "\xff\xfe\xfd", "ucoin2", strings.Repeat("z", 300))
}

// bech32Of: a VALID bech32 address string of the given payload length (the SDK accepts 1..255 bytes;
// ordinary accounts have 20, module-derived / wasm contract accounts 32)
func bech32Of(n int, fill byte) string {
	b := make([]byte, n)
	for i := range b {
		b[i] = fill + byte(i)
	}
	return sdk.AccAddress(b).String()
}

var bech32Lens = []int{1, 2, 3, 10, 19, 20, 21, 31, 32, 33, 64, 128, 255}

func (g *gen) addrStr() string {
	w := g.w
	hexs := w.other.Hex()
	b32 := eth.EthAddrToNibiruAddr(w.other).String()
	if g.happy {
		return g.pick(hexs, b32, w.deps.Sender.EthAddr.Hex())
	}
	switch g.r.Pick(26, 16, 18, 40) {
	case 0:
		return hexs
	case 1:
		return b32
	case 2:
		// valid bech32 with every payload length class, right / wrong HRP, upper case
		v := bech32Of(bech32Lens[g.r.Intn(len(bech32Lens))], byte(g.r.Intn(200)))
		switch g.r.Pick(70, 12, 12, 6) {
		case 1:
			return strings.ToUpper(v)
		case 2:
			if other, err := bech32.ConvertAndEncode("cosmos", []byte{1, 2, 3, 4, 5}); err == nil {
				return other
			}
		case 3:
			return v[:len(v)/2] + strings.ToUpper(v[len(v)/2:]) // mixed case: invalid bech32
		}
		return v
	}
	feeCollector := "nibi17xpfvakm2amg962yls6f84z3kell8c5l8u8ezw"
	return g.pick("", hexs[2:], strings.ToUpper(hexs[2:]), "0X"+hexs[2:], hexs+"0", hexs[:41], "0x", b32[:len(b32)-1]+"q", "nibi1", "nibi1"+strings.Repeat("q", 38),
		"cosmos1hsk6jryyqjfhp5dhc55tc9jtckygx0eph6dd02", feeCollector, w.wasmAddr.String(), w.deps.Sender.NibiruAddr.String(), w.deps.Sender.EthAddr.Hex(),
		"0x0000000000000000000000000000000000000800", "not an address", "ünibi1…", strings.Repeat("0", 40), "0x"+strings.Repeat("g", 40), hexs+" ")
}

func (g *gen) amount() *big.Int {
	if g.happy {
		return big.NewInt(int64(g.r.Range(1, 5000)))
	}
	switch g.r.Pick(10, 15, 20, 10, 10, 12, 12, 6, 5) {
	case 0:
		return big.NewInt(0)
	case 1:
		return big.NewInt(1)
	case 2:
		return big.NewInt(int64(g.r.Range(2, 1000)))
	case 3:
		return big.NewInt(1_000_000)
	case 4:
		return big.NewInt(1_000_000_001)
	case 5:
		return new(big.Int).Set(two255)
	case 6:
		return new(big.Int).Set(two256m1)
	case 7:
		return new(big.Int).Lsh(big.NewInt(1), 64)
	}
	return new(big.Int).Sub(two255, big.NewInt(1))
}

type wasmCoin = struct {
	Denom  string   `json:"denom"`
	Amount *big.Int `json:"amount"`
}

func (g *gen) funds() []wasmCoin {
	out := []wasmCoin{}
	if g.happy {
		if g.r.Chance(1, 3) {
			out = append(out, wasmCoin{"unibi", big.NewInt(int64(g.r.Range(1, 50)))})
		}
		return out
	}
	switch g.r.Pick(50, 12, 26, 12) {
	case 0:
		return out
	case 1:
		return append(out, wasmCoin{"unibi", big.NewInt(int64(g.r.Range(1, 50)))})
	case 3:
		// the same denom listed more than once with amounts whose sum needs more than 256 bits
		// (anything that merges the entries with sdk.Coins.Add / Int.Add overflows)
		d := g.pick("unibi", g.w.coinDenom, "zzz", g.denom())
		switch g.r.Intn(3) {
		case 0:
			return append(out, wasmCoin{d, new(big.Int).Set(two255)}, wasmCoin{d, new(big.Int).Set(two255)})
		case 1:
			return append(out, wasmCoin{d, new(big.Int).Set(two256m1)}, wasmCoin{d, big.NewInt(1)})
		}
		return append(out, wasmCoin{"aaa", big.NewInt(1)}, wasmCoin{d, new(big.Int).Set(two256m1)}, wasmCoin{d, new(big.Int).Set(two256m1)})
	}
	n := g.r.Range(1, 3)
	for i := 0; i < n; i++ {
		out = append(out, wasmCoin{g.denom(), g.amount()})
	}
	return out
}

func (g *gen) wasmContract() string {
	if g.happy || g.r.Chance(6, 10) {
		return g.w.wasmAddr.String()
	}
	return g.addrStr()
}

func (g *gen) wasmMsg() []byte {
	if g.happy {
		return []byte(g.pick(`{"increment":{}}`, `{"reset":{"count":5}}`))
	}
	return []byte(g.pick(`{"increment":{}}`, `{"increment":{}}`, `{"reset":{"count":5}}`, `{}`, `{"bogus":1}`, ``, `not json`, `{"increment":{}}x`, `[]`, `"str"`, `{"increment":`,
		`{"count":{}}`, "\x00\x01", `{"reset":{"count":"x"}}`))
}

type wasmExecMsg = struct {
	ContractAddr string     `json:"contractAddr"`
	MsgArgs      []byte     `json:"msgArgs"`
	Funds        []wasmCoin `json:"funds"`
}

// structured arguments for one ABI method
func (g *gen) argsFor(pc int, name string) []interface{} {
	w := g.w
	erc := func() gethcommon.Address {
		if g.happy {
			return []gethcommon.Address{w.coinErc20, w.ercErc20}[g.r.Intn(2)]
		}
		switch g.r.Pick(40, 40, 20) {
		case 0:
			return w.coinErc20
		case 1:
			return w.ercErc20
		}
		return gethcommon.HexToAddress("0x1234")
	}
	who := func() gethcommon.Address {
		if g.r.Chance(1, 2) {
			return w.other
		}
		return w.deps.Sender.EthAddr
	}
	switch name {
	case "sendToBank":
		return []interface{}{erc(), g.amount(), g.addrStr()}
	case "balance":
		return []interface{}{who(), erc()}
	case "bankBalance":
		return []interface{}{who(), g.denom()}
	case "whoAmI":
		return []interface{}{g.addrStr()}
	case "sendToEvm":
		if g.happy {
			return []interface{}{g.pick(w.coinDenom, w.ercDenom), g.amount(), g.addrStr()}
		}
		return []interface{}{g.denom(), g.amount(), g.addrStr()}
	case "bankMsgSend":
		return []interface{}{g.addrStr(), g.denom(), g.amount()}
	case "getErc20Address":
		return []interface{}{g.denom()}
	case "execute":
		return []interface{}{g.wasmContract(), g.wasmMsg(), g.funds()}
	case "query":
		if g.happy {
			return []interface{}{g.wasmContract(), []byte(`{"count":{}}`)}
		}
		return []interface{}{g.wasmContract(), []byte(g.pick(`{"count":{}}`, `{"count":{}}`, `{}`, ``, `nope`, `{"bogus":{}}`))}
	case "queryRaw":
		return []interface{}{g.wasmContract(), []byte(g.pick("state", "", "\x00", "count", strings.Repeat("k", 200)))}
	case "instantiate":
		if g.happy {
			return []interface{}{g.pick("", w.deps.Sender.NibiruAddr.String()), w.wasmCodeID, []byte(`{"count": 3}`), "counter", g.funds()}
		}
		admin := g.pick("", "", w.deps.Sender.NibiruAddr.String(), "garbage", w.other.Hex())
		code := []uint64{w.wasmCodeID, w.wasmCodeID, 0, 999, ^uint64(0)}[g.r.Intn(5)]
		msg := []byte(g.pick(`{"count": 0}`, `{"count": 7}`, `{}`, ``, `bad`))
		label := g.pick("x", "counter", "", strings.Repeat("l", 129), " ")
		return []interface{}{admin, code, msg, label, g.funds()}
	case "executeMulti":
		n := g.r.Range(0, 3)
		ms := []wasmExecMsg{}
		for i := 0; i < n; i++ {
			ms = append(ms, wasmExecMsg{g.wasmContract(), g.wasmMsg(), g.funds()})
		}
		return []interface{}{ms}
	case "queryExchangeRate", "chainLinkLatestRoundData":
		if g.happy {
			return []interface{}{"unibi:uusd"}
		}
		return []interface{}{g.pairStr()}
	}
	return nil
}

// pairStr: the Oracle's pair argument ranges over arbitrary bytes: well-formed pairs, the historic bad shapes, and
// mutations of a well-formed pair - one or more bytes (NUL, 0xff, unicode, space, separators …) inserted at any
// position, garbage behind a valid prefix, truncation, separators missing / duplicated, over-long sides
func (g *gen) pairStr() string {
	fixed := []string{"unibi:uusd", "unibi:uusd", "ubtc:uusd", "", "unibi", "a:b", "unibi:uusd:x", ":uusd", "unibi:", "ünibi:uusd",
		strings.Repeat("p", 300), "unibi:" + strings.Repeat("q", 128), "UNIBI:UUSD", "unibi;uusd", "1ab:uusd"}
	if g.r.Chance(30, 100) {
		return fixed[g.r.Intn(len(fixed))]
	}
	s := g.pick("unibi:uusd", "unibi:uusd", "ubtc:uusd", "ab:cd", "abc:xyz", "u/n.i_b-i:uusd", "unibi:"+strings.Repeat("q", 127))
	bad := []string{"\x00", "\x00", "\x00", "\xff", "\xfe\xff", "ü", " ", "\n", "\t", ":", "::", "!", ";", "\x00\x00", "\x7f", "日本"}
	n := g.r.Pick(60, 25, 15) + 1
	for k := 0; k < n; k++ {
		switch g.r.Pick(34, 22, 10, 10, 8, 8, 8) {
		case 0: // insert anywhere
			i := g.r.Intn(len(s) + 1)
			s = s[:i] + bad[g.r.Intn(len(bad))] + s[i:]
		case 1: // garbage behind a valid prefix
			s += bad[g.r.Intn(len(bad))]
			if g.r.Chance(1, 2) {
				s += string(g.randBytes(g.r.Range(1, 12)))
			}
		case 2: // garbage in front
			s = bad[g.r.Intn(len(bad))] + s
		case 3: // replace one byte
			if len(s) > 0 {
				i := g.r.Intn(len(s))
				s = s[:i] + bad[g.r.Intn(len(bad))] + s[i+1:]
			}
		case 4: // truncate
			if len(s) > 0 {
				s = s[:g.r.Intn(len(s))]
			}
		case 5: // separator missing / duplicated
			if g.r.Chance(1, 2) {
				s = strings.Replace(s, ":", "", 1)
			} else {
				s = strings.Replace(s, ":", g.pick("::", ":x:", ": :"), 1)
			}
		default: // over-long
			s += strings.Repeat(g.pick("z", "z", "\x00", "9"), g.r.Range(100, 400))
		}
	}
	return s
}

func sortedMethods(abi *gethabi.ABI) []string {
	var ns []string
	for n := range abi.Methods {
		ns = append(ns, n)
	}
	for i := range ns {
		for j := i + 1; j < len(ns); j++ {
			if ns[j] < ns[i] {
				ns[i], ns[j] = ns[j], ns[i]
			}
		}
	}
	return ns
}

func (g *gen) randBytes(n int) []byte {
	b := make([]byte, n)
	for i := range b {
		b[i] = byte(g.r.Intn(256))
	}
	return b
}

func (g *gen) calldata(pc int) (data []byte, label string) {
	abi := abiOf(pc)
	switch g.r.Pick(3, 5, 6, 86) {
	case 0:
		return nil, "empty"
	case 1:
		return g.randBytes(g.r.Range(1, 3)), "short"
	case 2:
		return g.randBytes(4 + g.r.Intn(3)*32), "unknown-selector"
	}
	names := sortedMethods(abi)
	name := names[g.r.Intn(len(names))]
	m := abi.Methods[name]
	g.happy = g.r.Chance(35, 100)
	packed, err := abi.Pack(name, g.argsFor(pc, name)...)
	if err != nil {
		return m.ID, name + "/bare-selector"
	}
	switch g.r.Pick(64, 10, 5, 16, 5) {
	case 0:
		return packed, name + "/wellformed"
	case 1:
		cut := 4 + g.r.Intn(len(packed)-3)
		if cut > len(packed) {
			cut = len(packed)
		}
		return packed[:cut], name + "/truncated"
	case 2:
		return append(packed, g.randBytes(g.r.Range(1, 96))...), name + "/oversized"
	case 3:
		// overwrite one 32-byte word (offsets, lengths, values) with a hostile number
		out := append([]byte{}, packed...)
		nw := (len(out) - 4) / 32
		if nw > 0 {
			wi := g.r.Intn(nw)
			var word []byte
			switch g.r.Pick(3, 3, 2, 2, 2) {
			case 0:
				word = bytes.Repeat([]byte{0xff}, 32)
			case 1:
				word = gethcommon.LeftPadBytes(big.NewInt(int64(len(out))).Bytes(), 32)
			case 2:
				word = gethcommon.LeftPadBytes(new(big.Int).Lsh(big.NewInt(1), 63).Bytes(), 32)
			case 3:
				word = gethcommon.LeftPadBytes(big.NewInt(int64(g.r.Intn(len(out)+64))).Bytes(), 32)
			default:
				word = g.randBytes(32)
			}
			copy(out[4+wi*32:], word)
		}
		return out, name + "/bad-word"
	}
	return append(append([]byte{}, m.ID...), g.randBytes(g.r.Intn(200))...), name + "/random-payload"
}

func (g *gen) gasFor(pc int, data []byte, value *big.Int, kind string, pre []c08Step) uint64 {
	w := g.w
	p, _ := w.deps.EvmKeeper.NewEVM(w.deps.Ctx, evmtest.MOCK_GETH_MESSAGE, w.deps.EvmKeeper.GetEVMConfig(w.deps.Ctx), nil,
		w.deps.EvmKeeper.NewStateDB(w.deps.Ctx, statedb.NewEmptyTxConfig(gethcommon.Hash{}))).Precompile(precompileAddrs[pc])
	var req uint64 = 21000
	Recover(func() { req = p.RequiredGas(data) })
	adj := func(x uint64) uint64 {
		// a CALL with value adds the 2300 stipend to what the callee receives
		if value.Sign() != 0 && (kind == "call" || kind == "callcode") && x >= 2300 {
			return x - 2300
		}
		return x
	}
	cost, hasCost := uint64(0), false
	if g.r.Chance(1, 2) {
		cost, hasCost = w.measure(c08In{PC: pc, Kind: kind, Value: value.String(), Data: hex.EncodeToString(data), Pre: pre})
	}
	if hasCost && cost > req {
		// sweep around the call's real cost: every G below it must run out of gas
		switch g.r.Pick(10, 25, 20, 20, 15, 10) {
		case 0:
			return cost
		case 1:
			return cost - 1
		case 2:
			return cost - req/2
		case 3:
			return cost - req
		case 4:
			if cost > req+1 {
				return cost - req - 1
			}
			return cost - 1
		default:
			return req + uint64(g.r.Intn(int(cost-req)))
		}
	}
	switch g.r.Pick(52, 8, 8, 14, 10, 4, 4) {
	case 0:
		return 3_000_000
	case 1:
		if req == 0 {
			return 0
		}
		return adj(req - 1)
	case 2:
		return adj(req)
	case 3:
		return adj(req + uint64(g.r.Range(1, 1500)))
	case 4:
		return adj(req + uint64(g.r.Range(1500, 60000)))
	case 5:
		return uint64(g.r.Intn(1000))
	}
	return 21000
}

var callKinds = []string{"top", "call", "static", "delegate", "callcode", "nested"}

func (g *gen) kindValue() (string, *big.Int) {
	kind := callKinds[g.r.Pick(28, 20, 15, 9, 9, 19)]
	value := big.NewInt(0)
	if kind == "top" || kind == "call" || kind == "callcode" {
		switch g.r.Pick(72, 22, 6) {
		case 1:
			value = big.NewInt(1_000_000_000_000)
		case 2:
			// (values that are no multiple of 10^12 wei change the unibi supply on commit: that is C05's subject)
			value = big.NewInt(5_000_000_000_000)
		}
	}
	return kind, value
}

// ---------------------------------------------------------------- answers of the contract a precompile calls

var (
	selPanic = []byte{0x4e, 0x48, 0x7b, 0x71} // Panic(uint256)
	selError = []byte{0x08, 0xc3, 0x79, 0xa0} // Error(string)
)

func validErrorPayload(msg string) []byte {
	out := append([]byte{}, selError...)
	out = append(out, word(big.NewInt(32))...)
	out = append(out, word(big.NewInt(int64(len(msg))))...)
	return append(out, gethcommon.RightPadBytes([]byte(msg), (len(msg)+31)/32*32)...)
}

func tok(mode int, data []byte, length ...uint64) *c08Token {
	if len(data) > 160 {
		data = data[:160]
	}
	l := uint64(len(data))
	if len(length) == 1 {
		l = length[0]
	}
	return &c08Token{Mode: mode, Len: l, Data: hex.EncodeToString(data)}
}

// tokenCfg: what the registered ERC20 answers to balanceOf / transfer / …: reverts with arbitrary revert data
// (empty, 1-3 bytes, bare Error(string) / Panic(uint256) selectors, those selectors with payloads of every length
// 4..40, valid payloads, over-long payloads, zero-padded lengths, random bytes), returns malformed data (empty,
// short, non-boolean, huge) or well-formed data, or consumes all gas
func (g *gen) tokenCfg() *c08Token {
	fill := func(n int) []byte {
		if g.r.Chance(1, 2) {
			return make([]byte, n)
		}
		return g.randBytes(n)
	}
	switch g.r.Pick(64, 28, 8) {
	case 1:
		switch g.r.Pick(12, 14, 10, 12, 12, 10, 10, 10, 10) {
		case 0:
			return tok(1, nil)
		case 1:
			return tok(1, g.randBytes(g.r.Range(1, 31)))
		case 2:
			return tok(1, word(big.NewInt(0)))
		case 3:
			return tok(1, word(big.NewInt(1)))
		case 4:
			return tok(1, word(big.NewInt(int64(g.r.Range(2, 255)))))
		case 5:
			return tok(1, bytes.Repeat([]byte{0xff}, 32))
		case 6:
			return tok(1, g.randBytes(g.r.Range(33, 160)))
		case 7:
			return tok(1, word(big.NewInt(1)), uint64(g.r.Range(161, 100_000)))
		}
		return tok(1, g.randBytes(32))
	case 2:
		return tok(2, nil)
	}
	switch g.r.Pick(6, 8, 8, 8, 22, 10, 8, 8, 8, 6, 8) {
	case 0:
		return tok(0, nil)
	case 1:
		return tok(0, g.randBytes(g.r.Range(1, 3)))
	case 2:
		return tok(0, selError)
	case 3:
		return tok(0, selPanic)
	case 4: // Panic(uint256) selector with a payload of every length 4..40
		return tok(0, append(append([]byte{}, selPanic...), fill(g.r.Range(0, 36))...))
	case 5: // Error(string) selector, truncated ABI payloads
		v := validErrorPayload("insufficient balance")
		return tok(0, v[:g.r.Range(4, len(v))])
	case 6: // valid Panic payloads: known / unknown / huge codes
		code := []*big.Int{big.NewInt(0x11), big.NewInt(0x01), big.NewInt(0x7777), two256m1, new(big.Int).Lsh(big.NewInt(1), 64)}[g.r.Intn(5)]
		return tok(0, append(append([]byte{}, selPanic...), word(code)...))
	case 7:
		return tok(0, validErrorPayload(g.pick("boom", "", "ERC20: transfer amount exceeds balance", strings.Repeat("x", 90))))
	case 8: // over-long: a valid payload followed by more
		base := append(append([]byte{}, selPanic...), word(big.NewInt(0x12))...)
		if g.r.Chance(1, 2) {
			base = validErrorPayload("boom")
		}
		return tok(0, append(base, fill(g.r.Range(1, 60))...), uint64(len(base)+g.r.Range(1, 4000)))
	case 9: // Error(string) with hostile offset / length words
		out := append([]byte{}, selError...)
		out = append(out, [][]byte{word(big.NewInt(32)), bytes.Repeat([]byte{0xff}, 32), word(big.NewInt(1 << 40))}[g.r.Intn(3)]...)
		out = append(out, [][]byte{word(big.NewInt(4)), bytes.Repeat([]byte{0xff}, 32), word(new(big.Int).Lsh(big.NewInt(1), 63))}[g.r.Intn(3)]...)
		return tok(0, append(out, g.randBytes(32)...))
	}
	return tok(0, g.randBytes(g.r.Range(4, 160)))
}

// hostileCall: a FunToken method that reaches the registered hostile ERC20
func (g *gen) hostileCall() (data string, name string) {
	w := g.w
	to := g.pick(w.other.Hex(), eth.EthAddrToNibiruAddr(w.other).String())
	amt := big.NewInt(int64(g.r.Range(1, 900)))
	switch g.r.Pick(40, 35, 25) {
	case 0:
		return g.packed(0, "balance", g.pickAddr(w.other, w.deps.Sender.EthAddr, fwdCall), w.hostile), "balance"
	case 1:
		return g.packed(0, "sendToBank", w.hostile, amt, to), "sendToBank"
	}
	return g.packed(0, "sendToEvm", w.hostDenom, amt, to), "sendToEvm"
}

func (g *gen) hostile() c08In {
	in := g.hostileNoMem()
	// most hand-written contracts touch no more memory than they answer with; compiled ones have at least 96 bytes
	switch g.r.Pick(55, 15, 15, 15) {
	case 1:
		in.Token.Mem = 96
	case 2:
		in.Token.Mem = in.Token.Len + uint64(g.r.Range(1, 40))
	case 3:
		in.Token.Mem = uint64(g.r.Range(1, 300))
	}
	return in
}

func (g *gen) hostileNoMem() c08In {
	data, name := g.hostileCall()
	kind, value := g.kindValue()
	bz, _ := hex.DecodeString(data)
	gas := uint64(3_000_000)
	if g.r.Chance(1, 4) {
		gas = g.gasFor(0, bz, value, kind, nil)
	}
	in := c08In{PC: 0, Kind: kind, Value: value.String(), Gas: gas, Data: data, Label: "token/" + name, Token: g.tokenCfg()}
	if g.r.Chance(1, 5) { // behind a query of the same transaction
		pc, q, _ := g.goodQuery()
		in.Pre = []c08Step{{PC: pc, Kind: g.pick("static", "top", "call"), Value: "0", Gas: 2_000_000, Data: q}}
		in.Label = "token/seq>" + name
	}
	return in
}

func (g *gen) one() c08In {
	if g.r.Chance(14, 100) {
		return g.hostile()
	}
	if g.r.Chance(44, 100) {
		return g.sequence()
	}
	pc := g.r.Pick(50, 30, 20)
	kind, value := g.kindValue()
	data, label := g.calldata(pc)
	return c08In{PC: pc, Kind: kind, Value: value.String(), Gas: g.gasFor(pc, data, value, kind, nil), Data: hex.EncodeToString(data), Label: label}
}

// ---------------------------------------------------------------- sequences of calls inside one transaction

func (g *gen) packed(pc int, name string, args ...interface{}) string {
	bz, err := abiOf(pc).Pack(name, args...)
	if err != nil {
		panic(err)
	}
	return hex.EncodeToString(bz)
}

// a query that succeeds (leaves nothing but its multistore snapshot on the journal)
func (g *gen) goodQuery() (pc int, data string, name string) {
	w := g.w
	switch g.r.Pick(30, 12, 14, 12, 8, 8, 16) {
	case 0:
		return 1, g.packed(1, "query", w.wasmAddr.String(), []byte(`{"count":{}}`)), "query"
	case 1:
		return 1, g.packed(1, "queryRaw", w.wasmAddr.String(), []byte("state")), "queryRaw"
	case 2:
		return 0, g.packed(0, "whoAmI", w.other.Hex()), "whoAmI"
	case 3:
		return 0, g.packed(0, "bankBalance", w.other, g.pick("unibi", w.coinDenom, w.ercDenom)), "bankBalance"
	case 4:
		return 0, g.packed(0, "balance", w.other, w.coinErc20), "balance"
	case 5:
		return 0, g.packed(0, "getErc20Address", w.coinDenom), "getErc20Address"
	}
	return 2, g.packed(2, g.pick("queryExchangeRate", "chainLinkLatestRoundData"), "unibi:uusd"), "oracle"
}

// a state-changing call that succeeds when called in a non-static context with ample gas
func (g *gen) goodMutation() (pc int, data string, name string) {
	w := g.w
	to := g.pick(w.other.Hex(), eth.EthAddrToNibiruAddr(w.other).String())
	amt := big.NewInt(int64(g.r.Range(1, 900)))
	switch g.r.Pick(22, 18, 14, 14, 14, 10, 8) {
	case 0:
		return 1, g.packed(1, "execute", w.wasmAddr.String(), []byte(`{"increment":{}}`), []wasmCoin{}), "execute"
	case 1:
		return 0, g.packed(0, "bankMsgSend", to, g.pick("unibi", w.coinDenom), amt), "bankMsgSend"
	case 2:
		return 0, g.packed(0, "sendToBank", g.pickAddr(w.coinErc20, w.ercErc20), amt, to), "sendToBank"
	case 3:
		return 0, g.packed(0, "sendToEvm", g.pick(w.coinDenom, w.ercDenom), amt, to), "sendToEvm"
	case 4:
		return 1, g.packed(1, "executeMulti", []wasmExecMsg{
			{w.wasmAddr.String(), []byte(`{"increment":{}}`), []wasmCoin{}},
			{w.wasmAddr.String(), []byte(`{"reset":{"count":7}}`), []wasmCoin{}}}), "executeMulti"
	case 5:
		return 1, g.packed(1, "execute", w.wasmAddr.String(), []byte(`{"increment":{}}`), []wasmCoin{{"unibi", big.NewInt(int64(g.r.Range(1, 50)))}}), "execute"
	}
	return 1, g.packed(1, "instantiate", "", w.wasmCodeID, []byte(`{"count": 3}`), "counter", []wasmCoin{}), "instantiate"
}

func (g *gen) pickAddr(xs ...gethcommon.Address) gethcommon.Address { return xs[g.r.Intn(len(xs))] }

// a state-changing call that FAILS AFTER it has written to the stores of other modules: a later wasm
// message is rejected, the contract refuses the message after the funds were moved, the final bank
// send goes to an account that may not receive, …
func (g *gen) lateFailure() (pc int, data string, name string) {
	w := g.w
	inc := wasmExecMsg{w.wasmAddr.String(), []byte(`{"increment":{}}`), []wasmCoin{}}
	incFunds := wasmExecMsg{w.wasmAddr.String(), []byte(`{"increment":{}}`), []wasmCoin{{"unibi", big.NewInt(int64(g.r.Range(1, 50)))}}}
	bad := wasmExecMsg{w.wasmAddr.String(), []byte(g.pick(`{"bogus":1}`, `{"invalid": "json"}`, `{"reset":{"count":"x"}}`)), []wasmCoin{}}
	noContract := wasmExecMsg{eth.EthAddrToNibiruAddr(w.other).String(), []byte(`{"increment":{}}`), []wasmCoin{}}
	blocked := "nibi17xpfvakm2amg962yls6f84z3kell8c5l8u8ezw" // fee collector: a module account the bank refuses to credit
	amt := big.NewInt(int64(g.r.Range(1, 900)))
	switch g.r.Pick(24, 10, 10, 14, 12, 10, 10, 10) {
	case 0:
		return 1, g.packed(1, "executeMulti", []wasmExecMsg{inc, bad}), "executeMulti"
	case 1:
		return 1, g.packed(1, "executeMulti", []wasmExecMsg{incFunds, inc, noContract}), "executeMulti"
	case 2:
		return 1, g.packed(1, "executeMulti", []wasmExecMsg{inc, inc, {w.wasmAddr.String(), []byte(`{"increment":{}}`), []wasmCoin{{"zzz", big.NewInt(5)}}}}), "executeMulti"
	case 3:
		// funds reach the contract before it rejects the message
		return 1, g.packed(1, "execute", w.wasmAddr.String(), []byte(g.pick(`{"bogus":1}`, `{"reset":{"count":"x"}}`)), []wasmCoin{{"unibi", big.NewInt(int64(g.r.Range(1, 50)))}}), "execute"
	case 4:
		// ERC20-born token: ERC20 moved to the module, coins minted, then the send to the recipient is refused
		return 0, g.packed(0, "sendToBank", w.ercErc20, amt, blocked), "sendToBank"
	case 5:
		return 0, g.packed(0, "sendToBank", w.coinErc20, amt, blocked), "sendToBank"
	case 6:
		return 1, g.packed(1, "instantiate", "", w.wasmCodeID, []byte(g.pick(`{}`, `{"count":"x"}`, `bad`)), "counter", []wasmCoin{{"unibi", big.NewInt(int64(g.r.Range(1, 50)))}}), "instantiate"
	}
	return 0, g.packed(0, "bankMsgSend", blocked, g.pick("unibi", w.coinDenom), amt), "bankMsgSend"
}

// a call that fails before it writes anything (guard, validator, decoding)
func (g *gen) earlyFailure() (pc int, data string, name string) {
	w := g.w
	switch g.r.Pick(30, 25, 25, 20) {
	case 0:
		return 0, g.packed(0, "bankMsgSend", w.other.Hex(), "", big.NewInt(1)), "bankMsgSend"
	case 1:
		return 1, g.packed(1, "execute", "not an address", []byte(`{"increment":{}}`), []wasmCoin{}), "execute"
	case 2:
		return 0, hex.EncodeToString(append(append([]byte{}, abiOf(0).Methods["sendToBank"].ID...), 1, 2, 3)), "sendToBank"
	}
	return g.r.Intn(3), "deadbeef", "unknown"
}

func (g *gen) stepCall(what int) c08Step {
	var pc int
	var data string
	switch what {
	case 0:
		pc, data, _ = g.goodQuery()
	case 1:
		pc, data, _ = g.goodMutation()
	case 2:
		pc, data, _ = g.lateFailure()
	default:
		pc, data, _ = g.earlyFailure()
	}
	kind := callKinds[g.r.Pick(34, 26, 16, 6, 6, 12)]
	if what == 1 || what == 2 {
		kind = []string{"top", "call"}[g.r.Pick(60, 40)] // a context in which the body really runs
	}
	gas := uint64(3_000_000)
	if what == 2 && g.r.Chance(1, 5) {
		gas = 8_000_000
	}
	return c08Step{PC: pc, Kind: kind, Value: "0", Gas: gas, Data: data}
}

func (g *gen) evmStep() c08Step { return c08Step{Evm: g.pick("sstore", "transfer", "log")} }

// sequence: a transaction of several steps; the last call is the one under test.  The earlier steps mix
// successful queries, successful mutations, early and late failures and EVM state changes; the call under
// test is, more often than not, a state-changing call that fails after partial writes (late failure, or a
// good call run out of gas in the middle of its body).
func (g *gen) sequence() c08In {
	var pre []c08Step
	label := "seq"
	switch g.r.Pick(40, 22, 14, 12, 7, 5) {
	case 0: // directly behind a query
		pre = append(pre, g.stepCall(0))
		label += "/query"
	case 1: // directly behind a state-changing call
		pre = append(pre, g.stepCall(g.r.Pick(0, 70, 30)))
		label += "/mutation"
	case 2: // an EVM state change in between
		pre = append(pre, g.stepCall(g.r.Pick(60, 30, 10)), g.evmStep())
		label += "/call-evm"
	case 3: // behind a failed call
		pre = append(pre, g.stepCall(g.r.Pick(50, 25, 0, 25)), g.stepCall(g.r.Pick(0, 0, 50, 50)))
		label += "/failed"
	case 4: // anything, 2-4 steps
		n := g.r.Range(2, 4)
		for i := 0; i < n; i++ {
			if g.r.Chance(1, 5) {
				pre = append(pre, g.evmStep())
			} else {
				pre = append(pre, g.stepCall(g.r.Pick(40, 30, 15, 15)))
			}
		}
		label += "/mixed"
	default: // around the StateDB's budget of precompile calls
		n := g.r.Range(8, 11)
		for i := 0; i < n; i++ {
			pc, data, _ := g.goodQuery()
			pre = append(pre, c08Step{PC: pc, Kind: g.pick("top", "static", "call"), Value: "0", Gas: 2_000_000, Data: data})
		}
		label += "/budget"
	}
	var in c08In
	switch g.r.Pick(34, 30, 10, 26) {
	case 0:
		pc, data, name := g.lateFailure()
		in = c08In{PC: pc, Kind: []string{"top", "call"}[g.r.Pick(55, 45)], Value: "0", Gas: []uint64{3_000_000, 8_000_000}[g.r.Pick(70, 30)], Data: data, Label: label + ">" + name + "/late-failure"}
	case 1:
		// a good state-changing call with the forwarded gas swept below its cost: out of gas after partial writes
		pc, data, name := g.goodMutation()
		bz, _ := hex.DecodeString(data)
		kind := []string{"top", "call"}[g.r.Pick(55, 45)]
		in = c08In{PC: pc, Kind: kind, Value: "0", Gas: g.gasFor(pc, bz, big.NewInt(0), kind, pre), Data: data, Label: label + ">" + name + "/gas-sweep"}
	case 2:
		pc, data, name := g.goodQuery()
		in = c08In{PC: pc, Kind: callKinds[g.r.Intn(len(callKinds))], Value: "0", Gas: 2_000_000, Data: data, Label: label + ">" + name + "/query"}
	default:
		pc := g.r.Pick(50, 30, 20)
		kind, value := g.kindValue()
		data, l := g.calldata(pc)
		in = c08In{PC: pc, Kind: kind, Value: value.String(), Gas: g.gasFor(pc, data, value, kind, pre), Data: hex.EncodeToString(data), Label: label + ">" + l}
	}
	in.Pre = pre
	return in
}

// openers: the historic failure shapes and the boundary cases, run first on every check
func (w *world) openers() []c08In {
	ftABI, wABI, oABI := abiOf(0), abiOf(1), abiOf(2)
	pack := func(a *gethabi.ABI, name string, args ...interface{}) string {
		bz, err := a.Pack(name, args...)
		if err != nil {
			panic(err)
		}
		return hex.EncodeToString(bz)
	}
	to := w.other.Hex()
	send := pack(ftABI, "bankMsgSend", to, "unibi", big.NewInt(5))
	who := pack(ftABI, "whoAmI", to)
	whoReq := uint64(1000 + 3*(len(who)/2-4))
	inc := pack(wABI, "execute", w.wasmAddr.String(), []byte(`{"increment":{}}`), []wasmCoin{})
	q := pack(oABI, "queryExchangeRate", "unibi:uusd")
	qReq := uint64(1000 + 3*(len(q)/2-4))
	var out []c08In
	for pc := 0; pc < 3; pc++ {
		out = append(out, c08In{PC: pc, Kind: "top", Value: "0", Gas: 1_000_000, Data: "", Label: "opener/empty"})
	}
	out = append(out,
		mkIn(0, "top", "0", 1_000_000, "01", "opener/short"),
		mkIn(0, "call", "0", 1_000_000, "010203", "opener/short"),
		mkIn(0, "top", "1000000000000", 1_000_000, "", "opener/plain-transfer"),
		mkIn(0, "top", "0", 1_000_000, pack(ftABI, "bankMsgSend", to, "", big.NewInt(1)), "opener/bankMsgSend-empty-denom"),
		mkIn(0, "call", "0", 1_000_000, pack(ftABI, "bankMsgSend", to, "unibi", two256m1), "opener/bankMsgSend-max"),
		mkIn(0, "top", "0", 1_000_000, send, "opener/bankMsgSend-ok"),
		mkIn(0, "static", "0", 1_000_000, send, "opener/static-mutation"),
		mkIn(0, "delegate", "0", 1_000_000, send, "opener/delegate-mutation"),
		mkIn(0, "callcode", "0", 1_000_000, send, "opener/callcode-mutation"),
		mkIn(0, "nested", "0", 1_000_000, send, "opener/nested-static-mutation"),
		mkIn(1, "nested", "0", 3_000_000, inc, "opener/nested-static-wasm-execute"),
		mkIn(1, "call", "0", 3_000_000, inc, "opener/wasm-execute-ok"),
		mkIn(1, "static", "0", 3_000_000, inc, "opener/static-wasm-execute"),
		mkIn(0, "top", "0", whoReq, who, "opener/whoAmI-exact-gas"),
		mkIn(0, "top", "0", whoReq-1, who, "opener/whoAmI-gas-minus-1"),
		mkIn(0, "static", "0", 1_000_000, who, "opener/whoAmI-static"),
		mkIn(0, "top", "1000000000000", 1_000_000, who, "opener/query-with-value"),
		mkIn(2, "top", "0", qReq+500, q, "opener/oracle-gas-inside-body"),
		mkIn(2, "call", "0", qReq+1000, q, "opener/oracle-gas-inside-body"),
		mkIn(2, "top", "1000000000000", 1_000_000, q, "opener/oracle-query-with-value"),
		mkIn(2, "top", "0", 1_000_000, q, "opener/oracle-ok"),
		// pair strings with a NUL / garbage behind, inside and in front of a well-formed pair (both Oracle methods)
		mkIn(2, "top", "0", 1_000_000, pack(oABI, "queryExchangeRate", "unibi:uusd\x00"), "opener/oracle-pair-nul-suffix"),
		mkIn(2, "call", "0", 1_000_000, pack(oABI, "queryExchangeRate", "unibi:uusd\x00"), "opener/oracle-pair-nul-suffix"),
		mkIn(2, "static", "0", 1_000_000, pack(oABI, "chainLinkLatestRoundData", "unibi:uusd\x00"), "opener/oracle-pair-nul-suffix"),
		mkIn(2, "nested", "0", 1_000_000, pack(oABI, "queryExchangeRate", "unibi:uusd\x00"), "opener/oracle-pair-nul-suffix"),
		mkIn(2, "delegate", "0", 1_000_000, pack(oABI, "chainLinkLatestRoundData", "ubtc:uusd\x00\x00"), "opener/oracle-pair-nul-suffix"),
		mkIn(2, "top", "0", 1_000_000, pack(oABI, "chainLinkLatestRoundData", "un\x00ibi:uusd"), "opener/oracle-pair-nul-inside"),
		mkIn(2, "static", "0", 1_000_000, pack(oABI, "queryExchangeRate", "unibi:uu\x00sd"), "opener/oracle-pair-nul-inside"),
		mkIn(2, "call", "0", 1_000_000, pack(oABI, "queryExchangeRate", "ab:cd\x00"), "opener/oracle-pair-nul-short-sides"),
		mkIn(2, "top", "0", 1_000_000, pack(oABI, "queryExchangeRate", "\x00unibi:uusd"), "opener/oracle-pair-nul-prefix"),
		mkIn(2, "top", "0", 1_000_000, pack(oABI, "queryExchangeRate", "unibi:uusd!\xff"), "opener/oracle-pair-garbage-suffix"),
		mkIn(2, "static", "0", 1_000_000, pack(oABI, "queryExchangeRate", "unibi:uusd"+strings.Repeat("z", 300)+"\x00"), "opener/oracle-pair-long-nul"),
		// address strings that are VALID bech32 with unusual payload lengths (1..255 bytes are accepted by the SDK)
		mkIn(0, "top", "0", 1_000_000, pack(ftABI, "whoAmI", bech32Of(3, 0xab)), "opener/bech32-len3-whoAmI"),
		mkIn(0, "call", "0", 1_000_000, pack(ftABI, "whoAmI", bech32Of(1, 7)), "opener/bech32-len1-whoAmI"),
		mkIn(0, "static", "0", 1_000_000, pack(ftABI, "whoAmI", bech32Of(19, 1)), "opener/bech32-len19-whoAmI"),
		mkIn(0, "delegate", "0", 1_000_000, pack(ftABI, "whoAmI", bech32Of(3, 0xab)), "opener/bech32-len3-whoAmI"),
		mkIn(0, "nested", "0", 1_000_000, pack(ftABI, "whoAmI", bech32Of(21, 3)), "opener/bech32-len21-whoAmI"),
		mkIn(0, "top", "0", 1_000_000, pack(ftABI, "whoAmI", bech32Of(32, 9)), "opener/bech32-len32-whoAmI"),
		mkIn(0, "call", "0", 1_000_000, pack(ftABI, "whoAmI", bech32Of(255, 0)), "opener/bech32-len255-whoAmI"),
		mkIn(0, "top", "0", 1_000_000, pack(ftABI, "whoAmI", strings.ToUpper(bech32Of(3, 0xab))), "opener/bech32-upper-whoAmI"),
		mkIn(0, "top", "0", 1_000_000, pack(ftABI, "bankMsgSend", bech32Of(3, 0xab), "unibi", big.NewInt(5)), "opener/bech32-len3-bankMsgSend"),
		mkIn(0, "call", "0", 1_000_000, pack(ftABI, "bankMsgSend", bech32Of(19, 2), "unibi", big.NewInt(5)), "opener/bech32-len19-bankMsgSend"),
		mkIn(0, "top", "0", 1_000_000, pack(ftABI, "bankMsgSend", bech32Of(32, 9), "unibi", big.NewInt(5)), "opener/bech32-len32-bankMsgSend"),
		mkIn(0, "static", "0", 1_000_000, pack(ftABI, "bankMsgSend", bech32Of(3, 0xab), "unibi", big.NewInt(5)), "opener/bech32-len3-bankMsgSend"),
		mkIn(0, "top", "0", 3_000_000, pack(ftABI, "sendToBank", w.ercErc20, big.NewInt(5), bech32Of(3, 0xab)), "opener/bech32-len3-sendToBank"),
		mkIn(0, "call", "0", 3_000_000, pack(ftABI, "sendToBank", w.coinErc20, big.NewInt(5), bech32Of(32, 4)), "opener/bech32-len32-sendToBank"),
		mkIn(0, "top", "0", 3_000_000, pack(ftABI, "sendToEvm", w.coinDenom, big.NewInt(5), bech32Of(3, 0xab)), "opener/bech32-len3-sendToEvm"),
		mkIn(0, "call", "0", 3_000_000, pack(ftABI, "sendToEvm", w.ercDenom, big.NewInt(5), bech32Of(19, 5)), "opener/bech32-len19-sendToEvm"),
		mkIn(1, "top", "0", 3_000_000, pack(wABI, "execute", bech32Of(3, 0xab), []byte(`{"increment":{}}`), []wasmCoin{}), "opener/bech32-len3-wasm-execute"),
		mkIn(1, "static", "0", 3_000_000, pack(wABI, "query", bech32Of(19, 1), []byte(`{"count":{}}`)), "opener/bech32-len19-wasm-query"),
		mkIn(1, "call", "0", 3_000_000, pack(wABI, "queryRaw", bech32Of(255, 1), []byte("state")), "opener/bech32-len255-wasm-queryRaw"),
		// funds arrays naming one denom twice with amounts summing to 2^256
		mkIn(1, "top", "0", 3_000_000, pack(wABI, "execute", w.wasmAddr.String(), []byte(`{"increment":{}}`),
			[]wasmCoin{{"unibi", two255}, {"unibi", two255}}), "opener/wasm-execute-dup-funds"),
		mkIn(1, "call", "0", 3_000_000, pack(wABI, "instantiate", "", w.wasmCodeID, []byte(`{"count": 0}`), "x",
			[]wasmCoin{{"unibi", two256m1}, {"unibi", big.NewInt(1)}}), "opener/wasm-instantiate-dup-funds"),
		mkIn(1, "top", "0", 3_000_000, pack(wABI, "executeMulti", []wasmExecMsg{{w.wasmAddr.String(), []byte(`{"increment":{}}`),
			[]wasmCoin{{"ucoin", two255}, {"ucoin", two255}}}}), "opener/wasm-executeMulti-dup-funds"),
		// bank supply of the ERC20-born denom is 2^255: minting 2^255 more needs 257 bits
		mkIn(0, "top", "0", 3_000_000, pack(ftABI, "sendToBank", w.ercErc20, two255, to), "opener/sendToBank-supply-overflow"),
		mkIn(0, "call", "0", 3_000_000, pack(ftABI, "sendToBank", w.ercErc20, two255, to), "opener/sendToBank-supply-overflow"),
		mkIn(0, "top", "0", 3_000_000, pack(ftABI, "sendToBank", w.ercErc20, new(big.Int).Sub(two255, big.NewInt(5_000_001)), to), "opener/sendToBank-supply-just-fits"),
	)
	// every ABI method with arguments that let it succeed, in every call kind: each state-changing
	// method meets each read-only context, each query each kind, on every run
	g := &gen{w: w, r: NewRng(0xC08), happy: true}
	for pc := 0; pc < 3; pc++ {
		a := abiOf(pc)
		for _, name := range sortedMethods(a) {
			bz, err := a.Pack(name, g.argsFor(pc, name)...)
			if err != nil {
				continue
			}
			for _, kind := range []string{"top", "call", "static", "delegate", "callcode", "nested"} {
				out = append(out, mkIn(pc, kind, "0", 3_000_000, hex.EncodeToString(bz), "opener/matrix-"+kind))
			}
			// forwarded gas around the call's real cost (measured with ample gas) and its RequiredGas
			for _, kind := range []string{"top", "call"} {
				if w.storeKeys == nil {
					break // bare world of the DeliverTx driver: nothing to measure on
				}
				probe := c08In{PC: pc, Kind: kind, Value: "0", Data: hex.EncodeToString(bz)}
				cost, ok := w.measure(probe)
				req := uint64(len(bz)-4)*3 + 1000
				if !abiOf(pc).Methods[name].IsConstant() {
					req = uint64(len(bz)-4)*30 + 2000
				}
				if !ok || cost <= req+1 {
					continue
				}
				for _, gq := range []uint64{cost, cost - 1, cost - req/2, cost - req, cost - req - 1} {
					out = append(out, mkIn(pc, kind, "0", gq, hex.EncodeToString(bz), "opener/gas-sweep-"+kind))
				}
			}
		}
	}
	if w.storeKeys != nil {
		out = append(out, w.sequenceOpeners()...)
		out = append(out, w.tokenOpeners()...)
	}
	return out
}

// tokenOpeners: the FunToken methods that call the registered ERC20, against the hostile token answering with the
// boundary payloads
func (w *world) tokenOpeners() []c08In {
	ft := abiOf(0)
	hx := func(bz []byte) string { return hex.EncodeToString(bz) }
	panicWith := func(n int) []byte { return append(append([]byte{}, selPanic...), make([]byte, n)...) }
	cfgs := []struct {
		name string
		tk   *c08Token
	}{
		{"revert-empty", tok(0, nil)},
		{"revert-3-bytes", tok(0, []byte{0x4e, 0x48, 0x7b})},
		{"revert-bare-panic-selector", tok(0, selPanic)},
		{"revert-panic-5", tok(0, panicWith(1))},
		{"revert-panic-35", tok(0, panicWith(31))},
		{"revert-panic-valid", tok(0, append(append([]byte{}, selPanic...), word(big.NewInt(0x11))...))},
		{"revert-panic-37", tok(0, panicWith(33))},
		{"revert-bare-error-selector", tok(0, selError)},
		{"revert-error-truncated", tok(0, validErrorPayload("boom")[:40])},
		{"revert-error-valid", tok(0, validErrorPayload("boom"))},
		{"revert-padded-4000", tok(0, selPanic, 4000)},
		{"revert-bare-panic-selector-mem96", &c08Token{Mode: 0, Len: 4, Data: hex.EncodeToString(selPanic), Mem: 96}},
		{"revert-panic-35-mem35", &c08Token{Mode: 0, Len: 35, Data: hex.EncodeToString(panicWith(31)), Mem: 35}},
		{"revert-panic-20", tok(0, panicWith(16))},
		{"revert-panic-32", tok(0, panicWith(28))},
		{"return-empty", tok(1, nil)},
		{"return-1-byte", tok(1, []byte{1})},
		{"return-non-bool", tok(1, word(big.NewInt(2)))},
		{"return-true", tok(1, word(big.NewInt(1)))},
		{"return-huge", tok(1, word(big.NewInt(1)), 60_000)},
		{"all-gas", tok(2, nil)},
	}
	calls := []struct {
		data  string
		kinds []string
	}{
		{hx(mustPack(ft, "balance", w.other, w.hostile)), []string{"top", "call", "static"}},
		{hx(mustPack(ft, "sendToBank", w.hostile, big.NewInt(5), w.other.Hex())), []string{"top", "call"}},
		{hx(mustPack(ft, "sendToEvm", w.hostDenom, big.NewInt(5), w.other.Hex())), []string{"top", "call"}},
	}
	var out []c08In
	for _, c := range cfgs {
		for _, m := range calls {
			for _, k := range m.kinds {
				out = append(out, c08In{PC: 0, Kind: k, Value: "0", Gas: 3_000_000, Data: m.data, Label: "opener/token-" + c.name, Token: c.tk})
			}
		}
	}
	return out
}

// sequenceOpeners: transactions of several steps on one StateDB; the call under test stands directly behind
// a successful query / a state-changing call / a failed call / an EVM state change, and succeeds, fails
// early, or fails AFTER partial writes to the bank / wasm stores (late failure, out of gas inside the body).
func (w *world) sequenceOpeners() []c08In {
	wABI, ftABI, oABI := abiOf(1), abiOf(0), abiOf(2)
	pack := func(a *gethabi.ABI, name string, args ...interface{}) string {
		return hex.EncodeToString(mustPack(a, name, args...))
	}
	wa := w.wasmAddr.String()
	blocked := "nibi17xpfvakm2amg962yls6f84z3kell8c5l8u8ezw"
	inc := wasmExecMsg{wa, []byte(`{"increment":{}}`), []wasmCoin{}}
	bad := wasmExecMsg{wa, []byte(`{"invalid": "json"}`), []wasmCoin{}}
	qWasm := pack(wABI, "query", wa, []byte(`{"count":{}}`))
	qWho := pack(ftABI, "whoAmI", w.other.Hex())
	qBal := pack(ftABI, "bankBalance", w.other, "unibi")
	qOracle := pack(oABI, "queryExchangeRate", "unibi:uusd")
	multiLate := pack(wABI, "executeMulti", []wasmExecMsg{inc, bad})
	execLate := pack(wABI, "execute", wa, []byte(`{"bogus":1}`), []wasmCoin{{"unibi", big.NewInt(7)}})
	instLate := pack(wABI, "instantiate", "", w.wasmCodeID, []byte(`{}`), "counter", []wasmCoin{{"unibi", big.NewInt(7)}})
	bankLateErc := pack(ftABI, "sendToBank", w.ercErc20, big.NewInt(5), blocked)
	bankLateCoin := pack(ftABI, "sendToBank", w.coinErc20, big.NewInt(5), blocked)
	execOK := pack(wABI, "execute", wa, []byte(`{"increment":{}}`), []wasmCoin{})
	sendOK := pack(ftABI, "bankMsgSend", w.other.Hex(), "unibi", big.NewInt(5))
	toBankOK := pack(ftABI, "sendToBank", w.ercErc20, big.NewInt(5), w.other.Hex())
	toEvmOK := pack(ftABI, "sendToEvm", w.coinDenom, big.NewInt(5), w.other.Hex())
	early := pack(ftABI, "bankMsgSend", w.other.Hex(), "", big.NewInt(1))
	call := func(pc int, kind, data string) c08Step {
		return c08Step{PC: pc, Kind: kind, Value: "0", Gas: 3_000_000, Data: data}
	}
	seq := func(label string, pc int, kind string, gas uint64, data string, pre ...c08Step) c08In {
		return c08In{PC: pc, Kind: kind, Value: "0", Gas: gas, Data: data, Label: "opener/seq-" + label, Pre: pre}
	}
	out := []c08In{
		// query, then directly a state-changing call that fails after its first write
		seq("query>executeMulti-late", 1, "top", 5_000_000, multiLate, call(1, "static", qWasm)),
		seq("query>executeMulti-late", 1, "call", 5_000_000, multiLate, call(1, "top", qWasm)),
		seq("query>executeMulti-late", 1, "top", 5_000_000, multiLate, call(0, "call", qWho)),
		seq("query>execute-late", 1, "top", 3_000_000, execLate, call(2, "top", qOracle)),
		seq("query>instantiate-late", 1, "call", 3_000_000, instLate, call(1, "static", qWasm)),
		seq("query>sendToBank-late", 0, "top", 3_000_000, bankLateErc, call(0, "static", qBal)),
		seq("query>sendToBank-late", 0, "call", 3_000_000, bankLateCoin, call(0, "top", qWho)),
		seq("query>query>executeMulti-late", 1, "top", 5_000_000, multiLate, call(1, "static", qWasm), call(2, "static", qOracle)),
		// the same calls alone, behind a state-changing call, behind an EVM state change, behind failed calls
		seq("executeMulti-late", 1, "top", 5_000_000, multiLate),
		seq("sendToBank-late", 0, "top", 3_000_000, bankLateErc),
		seq("execute-late", 1, "top", 3_000_000, execLate),
		seq("mutation>executeMulti-late", 1, "top", 5_000_000, multiLate, call(1, "top", execOK)),
		seq("mutation>sendToBank-late", 0, "top", 3_000_000, bankLateErc, call(0, "top", sendOK)),
		seq("mutation>mutation>execute-late", 1, "call", 3_000_000, execLate, call(0, "call", toEvmOK), call(0, "top", toBankOK)),
		seq("query>sstore>executeMulti-late", 1, "top", 5_000_000, multiLate, call(1, "static", qWasm), c08Step{Evm: "sstore"}),
		seq("query>transfer>sendToBank-late", 0, "top", 3_000_000, bankLateErc, call(0, "static", qBal), c08Step{Evm: "transfer"}),
		seq("query>log>execute-late", 1, "top", 3_000_000, execLate, call(1, "top", qWasm), c08Step{Evm: "log"}),
		seq("late>executeMulti-late", 1, "top", 5_000_000, multiLate, call(1, "top", multiLate)),
		seq("early>query>executeMulti-late", 1, "top", 5_000_000, multiLate, call(0, "top", early), call(1, "static", qWasm)),
		seq("refused>executeMulti-late", 1, "top", 5_000_000, multiLate, call(1, "static", execOK)),
		// behind a query: early failure, refusal in static context, success (its writes must stay)
		seq("query>early", 0, "top", 3_000_000, early, call(1, "static", qWasm)),
		seq("query>static-mutation", 1, "static", 3_000_000, execOK, call(1, "static", qWasm)),
		seq("query>mutation-ok", 1, "top", 3_000_000, execOK, call(1, "static", qWasm)),
		seq("query>mutation-ok", 0, "call", 3_000_000, toBankOK, call(0, "static", qBal)),
		seq("late>query", 1, "static", 3_000_000, qWasm, call(1, "top", multiLate)),
	}
	// behind a query: a good state-changing call with the forwarded gas swept below its cost
	for _, m := range []struct {
		pc   int
		data string
	}{{1, execOK}, {0, sendOK}, {0, toBankOK}, {0, toEvmOK}} {
		for _, kind := range []string{"top", "call"} {
			pre := []c08Step{call(1, "static", qWasm)}
			cost, ok := w.measure(c08In{PC: m.pc, Kind: kind, Value: "0", Data: m.data, Pre: pre})
			req := uint64(len(m.data)/2-4)*30 + 2000
			if !ok || cost <= req+1 {
				continue
			}
			for _, gq := range []uint64{cost, cost - 1, cost - req/2, cost - req} {
				out = append(out, c08In{PC: m.pc, Kind: kind, Value: "0", Gas: gq, Data: m.data, Label: "opener/seq-query>gas-sweep", Pre: pre})
			}
		}
	}
	// the StateDB's budget of precompile calls: the 10th call passes, the 11th fails closed
	queries := func(n int) []c08Step {
		var pre []c08Step
		for i := 0; i < n; i++ {
			pre = append(pre, c08Step{PC: []int{1, 0, 2}[i%3], Kind: []string{"static", "top", "call"}[i%3], Value: "0", Gas: 2_000_000, Data: []string{qWasm, qWho, qOracle}[i%3]})
		}
		return pre
	}
	out = append(out,
		c08In{PC: 1, Kind: "static", Value: "0", Gas: 2_000_000, Data: qWasm, Label: "opener/seq-budget-10th", Pre: queries(9)},
		c08In{PC: 1, Kind: "top", Value: "0", Gas: 3_000_000, Data: execOK, Label: "opener/seq-budget-10th", Pre: queries(9)},
		c08In{PC: 1, Kind: "static", Value: "0", Gas: 2_000_000, Data: qWasm, Label: "opener/seq-budget-11th", Pre: queries(10)},
		c08In{PC: 1, Kind: "top", Value: "0", Gas: 3_000_000, Data: execOK, Label: "opener/seq-budget-11th", Pre: queries(10)},
		c08In{PC: 0, Kind: "call", Value: "0", Gas: 3_000_000, Data: bankLateErc, Label: "opener/seq-budget-11th", Pre: queries(10)},
		c08In{PC: 0, Kind: "top", Value: "0", Gas: 1_000_000, Data: "01", Label: "opener/seq-budget-short-calldata", Pre: queries(10)},
	)
	return out
}

func TestC08(t *testing.T) {
	cfg := LoadCfg(t, 500, 8000)
	w := newWorld(t)
	em := NewEmitter(t, cfg.Out)
	defer em.Close()
	if cfg.Replay != "" {
		for _, raw := range cfg.ReplayInputs(t) {
			var in c08In
			if err := json.Unmarshal(raw, &in); err != nil {
				t.Fatalf("replay input: %v", err)
			}
			if strings.HasPrefix(in.Kind, "tx") {
				continue // replayed by TestC08Tx
			}
			ri, ro := w.runCase(in)
			em.Emit(ri, ro, nil)
		}
		return
	}
	for _, in := range w.openers() {
		ri, ro := w.runCase(in)
		em.Emit(ri, ro, nil)
	}
	root := NewRng(cfg.Seed)
	for i := 0; i < cfg.N; i++ {
		g := &gen{w: w, r: root.Fork()}
		in := g.one()
		ri, ro := w.runCase(in)
		em.Emit(ri, ro, nil)
	}
}
