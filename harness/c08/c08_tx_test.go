package c08

// A few C08 cases through the whole transaction path: a signed MsgEthereumTx whose `to` is a
// precompile, delivered with BeginBlock / DeliverTx / EndBlock / Commit.  Same record shape as
// the evm.Call driver (kind "tx" is the transaction's own call): class from VmError, gas handed
// back = gas limit − gas used, forwarded gas = gas limit − intrinsic gas; a Go panic anywhere
// below DeliverTx surfaces as a rejected tx whose log carries the recovered panic.  The store
// digest ignores unibi bank entries (the fee is paid in unibi whatever the call does).

import (
	"bytes"
	"encoding/hex"
	"encoding/json"
	"math/big"
	"strings"
	"testing"
	"time"

	abci "github.com/cometbft/cometbft/abci/types"
	storetypes "github.com/cosmos/cosmos-sdk/store/types"
	sdk "github.com/cosmos/cosmos-sdk/types"
	gethcommon "github.com/ethereum/go-ethereum/common"
	"github.com/ethereum/go-ethereum/core"

	. "verifharness/hx"

	"github.com/NibiruChain/nibiru/v2/x/evm"
	"github.com/NibiruChain/nibiru/v2/x/evm/evmtest"
)

type txWorld struct {
	c    *Chain
	acc  evmtest.EthPrivKeyAcc
	keys []storetypes.StoreKey
}

func newTxWorld(t *testing.T) *txWorld {
	w := &txWorld{c: NewChain(nil)}
	w.c.BeginBlock(5 * time.Second)
	w.acc = evmtest.NewEthPrivAcc()
	if err := w.c.Fund(w.acc.NibiruAddr, Unibi(1e15)); err != nil {
		t.Fatal(err)
	}
	w.c.EndBlock()
	for _, n := range []string{"bank", "evm", "wasm", "oracle"} {
		var k storetypes.StoreKey
		if kk := w.c.App.GetKey(n); kk != nil {
			k = kk
		} else {
			k = w.c.App.UnsafeFindStoreKey(n)
		}
		if k == nil {
			t.Fatalf("no store key %s", n)
		}
		w.keys = append(w.keys, k)
	}
	return w
}

func (w *txWorld) digest() string {
	tmp := &world{storeKeys: w.keys}
	return tmp.digest(w.c.Ctx(), func(store string, key []byte) bool {
		return store == "bank" && bytes.Contains(key, []byte("unibi"))
	})
}

func (w *txWorld) runTx(in c08In) c08Obs {
	data, _ := hex.DecodeString(in.Data)
	value, ok := new(big.Int).SetString(in.Value, 10)
	if !ok || value.Sign() < 0 {
		value = big.NewInt(0)
	}
	if in.PC < 0 || in.PC > 2 {
		in.PC = 0
	}
	obs := c08Obs{Args: []c08Arg{}}
	obs.Method, obs.UnpackOK, obs.Args = decode(in.PC, data)
	c := w.c
	c.BeginBlock(5 * time.Second)
	defer c.EndBlock()
	intrinsic, _ := core.IntrinsicGas(data, nil, false, true, true)
	gasLimit := intrinsic + in.Gas
	nonce := uint64(0)
	if a := c.App.AccountKeeper.GetAccount(c.Ctx(), w.acc.NibiruAddr); a != nil {
		nonce = a.GetSequence()
	}
	to := precompileAddrs[in.PC]
	msg, err := c.SignEth(w.acc, &evm.EvmTxArgs{Nonce: nonce, GasLimit: gasLimit, GasPrice: big.NewInt(1_000_000_000_000),
		To: &to, Input: data, Amount: value})
	if err != nil {
		obs.Note = note("sign: " + err.Error())
		return obs
	}
	d0 := w.digest()
	var r abci.ResponseDeliverTx
	if p := Recover(func() { r = c.DeliverEth(msg) }); p != "" {
		// a panic that even baseapp's recovery does not stop
		obs.Reached, obs.Class, obs.Fwd, obs.StateEq, obs.CoreEq, obs.Note = true, "panic", in.Gas, true, true, note("escaped DeliverTx: "+p)
		return obs
	}
	d1 := w.digest()
	obs.Fwd = in.Gas
	obs.StateEq, obs.CoreEq = d0 == d1, d0 == d1
	if r.Code != 0 {
		lower := strings.ToLower(r.Log)
		if strings.Contains(lower, "panic") || strings.Contains(lower, "recovered") || strings.Contains(lower, "runtime error") ||
			strings.Contains(lower, "invalid stringkey") || strings.Contains(lower, "invalid denom") {
			obs.Reached, obs.Class = true, "panic"
			obs.PanicOOG = strings.Contains(lower, "out of gas")
			obs.PanicInt = strings.Contains(lower, "integer overflow")
		} else if strings.Contains(lower, "out of gas") {
			// the gas meter's panic travelled up to baseapp's out-of-gas recovery: the tx was aborted
			obs.Reached, obs.Class, obs.PanicOOG = true, "panic", true
		} else {
			obs.Reached, obs.Class = false, "err" // rejected before the EVM ran (ante handler)
		}
		obs.Note = note(r.Log)
		return obs
	}
	var txData sdk.TxMsgData
	var resp evm.MsgEthereumTxResponse
	if err := txData.Unmarshal(r.Data); err != nil || len(txData.MsgResponses) == 0 {
		obs.Note = "cannot decode tx response"
		return obs
	}
	if err := resp.Unmarshal(txData.MsgResponses[0].Value); err != nil {
		obs.Note = "cannot decode MsgEthereumTxResponse"
		return obs
	}
	obs.Reached = true
	obs.Class = classOf(resp.VmError, resp.VmError != "")
	obs.Note = note(resp.VmError)
	if gasLimit >= resp.GasUsed {
		obs.Left = gasLimit - resp.GasUsed
	}
	return obs
}

func (w *world) txInputs() []c08In {
	var out []c08In
	for _, in := range w.openers() {
		if in.Kind != "top" {
			continue
		}
		in.Kind = "tx"
		in.Label = strings.Replace(in.Label, "opener/", "tx/", 1)
		out = append(out, in)
	}
	// NUL character in a bank denom (panicked before fix e366d9b)
	ft := abiOf(0)
	bz, _ := ft.Pack("sendToEvm", "a\x00bc", big.NewInt(1), gethcommon.HexToAddress("0xa11ce").Hex())
	out = append(out, c08In{0, "tx", "0", 1_000_000, hex.EncodeToString(bz), "tx/sendToEvm-nul"})
	bz, _ = ft.Pack("getErc20Address", "tf/\x00/x")
	out = append(out, c08In{0, "tx", "0", 1_000_000, hex.EncodeToString(bz), "tx/getErc20Address-nul"})
	return out
}

func TestC08Tx(t *testing.T) {
	cfg := LoadCfg(t, 0, 0)
	em := NewEmitter(t, cfg.Out)
	defer em.Close()
	var inputs []c08In
	if cfg.Replay != "" {
		for _, raw := range cfg.ReplayInputs(t) {
			var in c08In
			if err := json.Unmarshal(raw, &in); err != nil {
				t.Fatalf("replay input: %v", err)
			}
			if in.Kind == "tx" {
				inputs = append(inputs, in)
			}
		}
		if len(inputs) == 0 {
			return
		}
	} else {
		// the calldata of the openers is world independent except for the wasm address (not used at top level)
		inputs = (&world{other: gethcommon.HexToAddress("0x00000000000000000000000000000000000a11ce")}).txInputs()
	}
	w := newTxWorld(t)
	for _, in := range inputs {
		em.Emit(in, w.runTx(in), nil)
	}
}
