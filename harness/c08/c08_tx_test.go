package c08

// A few C08 cases through the whole transaction path: a signed MsgEthereumTx whose `to` is a
// precompile, delivered with BeginBlock / DeliverTx / EndBlock / Commit.  Same record shape as
// the evm.Call driver (kind "tx" is the transaction's own call): class from VmError, gas handed
// back = gas limit − gas used, forwarded gas = gas limit − intrinsic gas; a Go panic anywhere
// below DeliverTx surfaces as a rejected tx whose log carries the recovered panic.  The store
// digest ignores unibi bank entries (the fee is paid in unibi whatever the call does).

import (
	"bytes"
	"encoding/hex"
	"encoding/json"
	"math/big"
	"os"
	"path/filepath"
	"strings"
	"testing"
	"time"

	wasmkeeper "github.com/CosmWasm/wasmd/x/wasm/keeper"
	wasm "github.com/CosmWasm/wasmd/x/wasm/types"
	"github.com/cosmos/cosmos-sdk/crypto/keys/secp256k1"

	abci "github.com/cometbft/cometbft/abci/types"
	storetypes "github.com/cosmos/cosmos-sdk/store/types"
	sdk "github.com/cosmos/cosmos-sdk/types"
	gethcommon "github.com/ethereum/go-ethereum/common"
	"github.com/ethereum/go-ethereum/core"
	"github.com/ethereum/go-ethereum/crypto"

	. "verifharness/hx"

	"github.com/NibiruChain/nibiru/v2/eth"
	"github.com/NibiruChain/nibiru/v2/x/evm"
	"github.com/NibiruChain/nibiru/v2/x/evm/evmtest"
)

type txWorld struct {
	c        *Chain
	acc      evmtest.EthPrivKeyAcc
	keys     []storetypes.StoreKey
	wasmAddr sdk.AccAddress     // hello_world_counter instance (script transactions)
	hostile  gethcommon.Address // hostile ERC20 (token_test.go) registered as FunToken by an ordinary account
}

func newTxWorld(t *testing.T) *txWorld {
	w := &txWorld{c: NewChain(nil)}
	w.c.BeginBlock(5 * time.Second)
	w.acc = evmtest.NewEthPrivAcc()
	if err := w.c.Fund(w.acc.NibiruAddr, Unibi(1e15)); err != nil {
		t.Fatal(err)
	}
	if bz, err := os.ReadFile(filepath.Join(repoRoot(), "x/evm/precompile/test/hello_world_counter.wasm")); err == nil {
		pk := wasmkeeper.NewDefaultPermissionKeeper(w.c.App.WasmKeeper)
		ctx := w.c.Ctx().WithGasMeter(sdk.NewInfiniteGasMeter())
		codeID, _, err := pk.Create(ctx, w.acc.NibiruAddr, bz, &wasm.AccessConfig{Permission: wasm.AccessTypeEverybody})
		if err != nil {
			t.Fatalf("wasm create: %v", err)
		}
		if w.wasmAddr, _, err = pk.Instantiate(ctx, codeID, w.acc.NibiruAddr, w.acc.NibiruAddr, []byte(`{"count": 0}`), "counter", sdk.Coins{}); err != nil {
			t.Fatalf("wasm instantiate: %v", err)
		}
	} else {
		t.Fatal(err)
	}
	w.c.EndBlock()
	// the hostile ERC20: deployed by a creation transaction, registered with a MsgCreateFunToken transaction
	{
		c := w.c
		c.BeginBlock(5 * time.Second)
		nonce := uint64(0)
		if a := c.App.AccountKeeper.GetAccount(c.Ctx(), w.acc.NibiruAddr); a != nil {
			nonce = a.GetSequence()
		}
		w.hostile = crypto.CreateAddress(w.acc.EthAddr, nonce)
		dmsg, err := c.SignEth(w.acc, &evm.EvmTxArgs{Nonce: nonce, GasLimit: 3_000_000, GasPrice: big.NewInt(1_000_000_000_000), Input: wrapInit(hostileTokenRuntime()), Amount: big.NewInt(0)})
		if err != nil {
			t.Fatal(err)
		}
		if r := c.DeliverEth(dmsg); r.Code != 0 {
			t.Fatalf("deploy hostile token: %s", r.Log)
		}
		c.EndBlock()
		owner := secp256k1.GenPrivKeyFromSecret([]byte("c08-token-owner"))
		ownerAddr := sdk.AccAddress(owner.PubKey().Address())
		c.BeginBlock(5 * time.Second)
		if err := c.Fund(ownerAddr, Unibi(1e12).Add(c.App.EvmKeeper.FeeForCreateFunToken(c.Ctx())...)); err != nil {
			t.Fatal(err)
		}
		c.EndBlock()
		c.BeginBlock(5 * time.Second)
		if r := c.DeliverCosmos(owner, 5_000_000, Unibi(1_000_000), &evm.MsgCreateFunToken{FromErc20: &eth.EIP55Addr{Address: w.hostile}, Sender: ownerAddr.String()}); r.Code != 0 {
			t.Fatalf("MsgCreateFunToken(hostile erc20): %s", r.Log)
		}
		c.EndBlock()
	}
	for _, n := range []string{"bank", "evm", "wasm", "oracle"} {
		var k storetypes.StoreKey
		if kk := w.c.App.GetKey(n); kk != nil {
			k = kk
		} else {
			k = w.c.App.UnsafeFindStoreKey(n)
		}
		if k == nil {
			t.Fatalf("no store key %s", n)
		}
		w.keys = append(w.keys, k)
	}
	return w
}

func (w *txWorld) digest() string {
	tmp := &world{storeKeys: w.keys}
	return tmp.digest(w.c.Ctx(), func(store string, key []byte) bool {
		return store == "bank" && bytes.Contains(key, []byte("unibi"))
	})
}

func (w *txWorld) runTx(in c08In) c08Obs {
	data, _ := hex.DecodeString(in.Data)
	value, ok := new(big.Int).SetString(in.Value, 10)
	if !ok || value.Sign() < 0 {
		value = big.NewInt(0)
	}
	if in.PC < 0 || in.PC > 2 {
		in.PC = 0
	}
	obs := c08Obs{Args: []c08Arg{}, DropEq: true}
	obs.Method, obs.UnpackOK, obs.Args = decode(in.PC, data)
	c := w.c
	if in.Token != nil {
		// the token's configure() is called by an ordinary transaction of its own
		c.BeginBlock(5 * time.Second)
		n := uint64(0)
		if a := c.App.AccountKeeper.GetAccount(c.Ctx(), w.acc.NibiruAddr); a != nil {
			n = a.GetSequence()
		}
		cmsg, err := c.SignEth(w.acc, &evm.EvmTxArgs{Nonce: n, GasLimit: 1_000_000, GasPrice: big.NewInt(1_000_000_000_000), To: &w.hostile, Input: in.Token.configCalldata(), Amount: big.NewInt(0)})
		if err == nil {
			if r := c.DeliverEth(cmsg); r.Code != 0 {
				obs.Note = note("configure token: " + r.Log)
			}
		}
		c.EndBlock()
	}
	c.BeginBlock(5 * time.Second)
	defer c.EndBlock()
	intrinsic, _ := core.IntrinsicGas(data, nil, false, true, true)
	gasLimit := intrinsic + in.Gas
	nonce := uint64(0)
	if a := c.App.AccountKeeper.GetAccount(c.Ctx(), w.acc.NibiruAddr); a != nil {
		nonce = a.GetSequence()
	}
	to := precompileAddrs[in.PC]
	msg, err := c.SignEth(w.acc, &evm.EvmTxArgs{Nonce: nonce, GasLimit: gasLimit, GasPrice: big.NewInt(1_000_000_000_000),
		To: &to, Input: data, Amount: value})
	if err != nil {
		obs.Note = note("sign: " + err.Error())
		return obs
	}
	d0 := w.digest()
	var r abci.ResponseDeliverTx
	if p := Recover(func() { r = c.DeliverEth(msg) }); p != "" {
		// a panic that even baseapp's recovery does not stop
		obs.Reached, obs.Class, obs.Fwd, obs.StateEq, obs.CoreEq, obs.Note = true, "panic", in.Gas, true, true, note("escaped DeliverTx: "+p)
		return obs
	}
	d1 := w.digest()
	obs.Fwd = in.Gas
	obs.StateEq, obs.CoreEq = d0 == d1, d0 == d1
	if r.Code != 0 {
		lower := strings.ToLower(r.Log)
		if strings.Contains(lower, "panic") || strings.Contains(lower, "recovered") || strings.Contains(lower, "runtime error") ||
			strings.Contains(lower, "invalid stringkey") || strings.Contains(lower, "invalid denom") {
			obs.Reached, obs.Class = true, "panic"
			obs.PanicOOG = strings.Contains(lower, "out of gas")
			obs.PanicInt = strings.Contains(lower, "integer overflow")
			obs.PanicSlice = strings.Contains(lower, "slice bounds out of range") || strings.Contains(lower, "index out of range")
		} else if strings.Contains(lower, "out of gas") {
			// the gas meter's panic travelled up to baseapp's out-of-gas recovery: the tx was aborted
			obs.Reached, obs.Class, obs.PanicOOG = true, "panic", true
		} else {
			obs.Reached, obs.Class = false, "err" // rejected before the EVM ran (ante handler)
		}
		obs.Note = note(r.Log)
		return obs
	}
	var txData sdk.TxMsgData
	var resp evm.MsgEthereumTxResponse
	if err := txData.Unmarshal(r.Data); err != nil || len(txData.MsgResponses) == 0 {
		obs.Note = "cannot decode tx response"
		return obs
	}
	if err := resp.Unmarshal(txData.MsgResponses[0].Value); err != nil {
		obs.Note = "cannot decode MsgEthereumTxResponse"
		return obs
	}
	obs.Reached = true
	obs.Class = classOf(resp.VmError, resp.VmError != "")
	obs.Note = note(resp.VmError)
	if gasLimit >= resp.GasUsed {
		obs.Left = gasLimit - resp.GasUsed
	}
	return obs
}

// scriptCode assembles the runtime code of a transaction script: for every step the calldata is copied from
// the code into memory and CALLed (value 0) / STATICCALLed with the step's gas; the success flag of step i is
// kept in memory byte 0x4000+i; the flags are returned.  A failed step is caught: the script goes on.
func scriptCode(steps []c08Step) []byte {
	push2 := func(v int) []byte { return []byte{0x61, byte(v >> 8), byte(v)} }
	sizeOf := func(st c08Step) int {
		if st.Kind == "static" {
			return 49
		}
		return 51
	}
	codeLen := 6
	for _, st := range steps {
		codeLen += sizeOf(st)
	}
	var code, tail []byte
	for i, st := range steps {
		data, _ := hex.DecodeString(st.Data)
		off := codeLen + len(tail)
		tail = append(tail, data...)
		code = append(code, push2(len(data))...)
		code = append(code, push2(off)...)
		code = append(code, 0x60, 0x00, 0x39)       // CODECOPY(0, off, len)
		code = append(code, 0x60, 0x00, 0x60, 0x00) // retSize, retOffset
		code = append(code, push2(len(data))...)    // argsSize
		code = append(code, 0x60, 0x00)             // argsOffset
		if st.Kind != "static" {
			code = append(code, 0x60, 0x00) // value
		}
		pc := st.PC
		if pc < 0 || pc > 2 {
			pc = 0
		}
		code = append(code, 0x73)
		code = append(code, precompileAddrs[pc].Bytes()...)
		g := st.Gas
		code = append(code, 0x63, byte(g>>24), byte(g>>16), byte(g>>8), byte(g))
		if st.Kind == "static" {
			code = append(code, 0xfa)
		} else {
			code = append(code, 0xf1)
		}
		code = append(code, push2(0x4000+i)...)
		code = append(code, 0x53) // MSTORE8
	}
	code = append(code, 0x60, byte(len(steps)))
	code = append(code, push2(0x4000)...)
	code = append(code, 0xf3)
	if len(code) != codeLen {
		panic("script layout")
	}
	return append(code, tail...)
}

// runTxSeq delivers ONE signed transaction to a script contract that performs in.Pre and then the call under
// test (kind "txcall": a CALL issued by the script).  Observed per step: the success flag.  The store digest
// (unibi bank entries left out) before and after the transaction decides state_eq, which is meaningful when no
// earlier step writes: the inputs use queries and failing calls as earlier steps, and the case is evaluated
// only when the call under test failed (gas handed back by a failed call is 0; for a successful one it is not
// observable from outside the transaction).
func (w *txWorld) runTxSeq(in c08In) c08Obs {
	steps := append(append([]c08Step{}, in.Pre...), c08Step{PC: in.PC, Kind: "call", Value: "0", Gas: in.Gas, Data: in.Data})
	obs := c08Obs{Args: []c08Arg{}, DropEq: true}
	data, _ := hex.DecodeString(in.Data)
	obs.Method, obs.UnpackOK, obs.Args = decode(in.PC, data)
	c := w.c
	// the script of this case is deployed by a contract-creation transaction in a block of its own
	runtime := scriptCode(steps)
	n := len(runtime)
	initcode := append([]byte{0x61, byte(n >> 8), byte(n), 0x61, 0x00, 0x0f, 0x60, 0x00, 0x39, 0x61, byte(n >> 8), byte(n), 0x60, 0x00, 0xf3}, runtime...)
	nonceOf := func() uint64 {
		if a := c.App.AccountKeeper.GetAccount(c.Ctx(), w.acc.NibiruAddr); a != nil {
			return a.GetSequence()
		}
		return 0
	}
	c.BeginBlock(5 * time.Second)
	dn := nonceOf()
	script := crypto.CreateAddress(w.acc.EthAddr, dn)
	dmsg, err := c.SignEth(w.acc, &evm.EvmTxArgs{Nonce: dn, GasLimit: 3_000_000 + 300*uint64(n), GasPrice: big.NewInt(1_000_000_000_000), Input: initcode, Amount: big.NewInt(0)})
	if err != nil {
		obs.Note = note("sign deploy: " + err.Error())
		c.EndBlock()
		return obs
	}
	if dr := c.DeliverEth(dmsg); dr.Code != 0 {
		obs.Note = note("deploy script: " + dr.Log)
		c.EndBlock()
		return obs
	}
	c.EndBlock()
	c.BeginBlock(5 * time.Second)
	defer c.EndBlock()
	var total uint64 = 1_000_000
	for _, st := range steps {
		total += st.Gas + st.Gas/32
	}
	to := script
	msg, err := c.SignEth(w.acc, &evm.EvmTxArgs{Nonce: nonceOf(), GasLimit: total, GasPrice: big.NewInt(1_000_000_000_000), To: &to, Amount: big.NewInt(0)})
	if err != nil {
		obs.Note = note("sign: " + err.Error())
		return obs
	}
	d0 := w.digest()
	var r abci.ResponseDeliverTx
	if p := Recover(func() { r = c.DeliverEth(msg) }); p != "" {
		obs.Reached, obs.Class, obs.Fwd, obs.StateEq, obs.CoreEq, obs.Note = true, "panic", in.Gas, true, true, note("escaped DeliverTx: "+p)
		return obs
	}
	d1 := w.digest()
	obs.Fwd = in.Gas
	obs.StateEq, obs.CoreEq = d0 == d1, d0 == d1
	if r.Code != 0 {
		obs.Note = "tx rejected: " + r.Log
		return obs
	}
	var txData sdk.TxMsgData
	var resp evm.MsgEthereumTxResponse
	if err := txData.Unmarshal(r.Data); err != nil || len(txData.MsgResponses) == 0 {
		obs.Note = "cannot decode tx response"
		return obs
	}
	if err := resp.Unmarshal(txData.MsgResponses[0].Value); err != nil || resp.VmError != "" || len(resp.Ret) != len(steps) {
		obs.Note = note("script did not finish: " + resp.VmError)
		return obs
	}
	for i, st := range in.Pre {
		sd, _ := hex.DecodeString(st.Data)
		so := c08StepObs{Reached: true, Class: "err", Fwd: st.Gas, Args: []c08Arg{}}
		so.Method, so.UnpackOK, so.Args = decode(st.PC, sd)
		if resp.Ret[i] == 1 {
			so.Class = "ok"
		}
		obs.Pre = append(obs.Pre, so)
	}
	if resp.Ret[len(steps)-1] == 1 {
		obs.Class, obs.Note = "ok", "call under test succeeded: gas handed back not observable, case not evaluated"
		return obs
	}
	obs.Reached, obs.Class, obs.Left = true, "err", 0
	return obs
}

// txSeqInputs: script transactions whose last call fails AFTER partial writes, alone and directly behind queries
func (w *txWorld) txSeqInputs() []c08In {
	wABI, ftABI, oABI := abiOf(1), abiOf(0), abiOf(2)
	wa := w.wasmAddr.String()
	hx := func(bz []byte) string { return hex.EncodeToString(bz) }
	inc := wasmExecMsg{wa, []byte(`{"increment":{}}`), []wasmCoin{}}
	bad := wasmExecMsg{wa, []byte(`{"invalid": "json"}`), []wasmCoin{}}
	multiLate := hx(mustPack(wABI, "executeMulti", []wasmExecMsg{inc, bad}))
	multiLate3 := hx(mustPack(wABI, "executeMulti", []wasmExecMsg{inc, inc, bad}))
	qWasm := c08Step{PC: 1, Kind: "static", Value: "0", Gas: 2_000_000, Data: hx(mustPack(wABI, "query", wa, []byte(`{"count":{}}`)))}
	qWasmCall := qWasm
	qWasmCall.Kind = "call"
	qWho := c08Step{PC: 0, Kind: "static", Value: "0", Gas: 2_000_000, Data: hx(mustPack(ftABI, "whoAmI", gethcommon.HexToAddress("0xa11ce").Hex()))}
	qOracle := c08Step{PC: 2, Kind: "static", Value: "0", Gas: 2_000_000, Data: hx(mustPack(oABI, "queryExchangeRate", "unibi:uusd"))}
	refused := c08Step{PC: 1, Kind: "static", Value: "0", Gas: 3_000_000, Data: hx(mustPack(wABI, "execute", wa, []byte(`{"increment":{}}`), []wasmCoin{}))}
	mk := func(label, data string, pre ...c08Step) c08In {
		return c08In{PC: 1, Kind: "txcall", Value: "0", Gas: 5_000_000, Data: data, Label: "tx/seq-" + label, Pre: pre}
	}
	return []c08In{
		mk("executeMulti-late", multiLate),
		mk("query>executeMulti-late", multiLate, qWasm),
		mk("query>executeMulti-late", multiLate3, qWasmCall),
		mk("query>executeMulti-late", multiLate, qWho),
		mk("query>query>executeMulti-late", multiLate, qWasm, qOracle),
		mk("refused>query>executeMulti-late", multiLate, refused, qWasm),
		mk("late>executeMulti-late", multiLate, c08Step{PC: 1, Kind: "call", Value: "0", Gas: 5_000_000, Data: multiLate}),
	}
}

// txTokenInputs: FunToken methods that call the registered hostile ERC20, as the transaction's own call
func (w *txWorld) txTokenInputs() []c08In {
	ft := abiOf(0)
	to := gethcommon.HexToAddress("0xa11ce")
	bal := hex.EncodeToString(mustPack(ft, "balance", to, w.hostile))
	stb := hex.EncodeToString(mustPack(ft, "sendToBank", w.hostile, big.NewInt(5), to.Hex()))
	panicWith := func(n int) []byte { return append(append([]byte{}, selPanic...), make([]byte, n)...) }
	var out []c08In
	for _, c := range []struct {
		name string
		tk   *c08Token
	}{
		{"revert-empty", tok(0, nil)},
		{"revert-bare-panic-selector", tok(0, selPanic)},
		{"revert-panic-20", tok(0, panicWith(16))},
		{"revert-panic-35-mem35", &c08Token{Mode: 0, Len: 35, Data: hex.EncodeToString(panicWith(31)), Mem: 35}},
		{"revert-panic-valid", tok(0, append(append([]byte{}, selPanic...), word(big.NewInt(0x11))...))},
		{"revert-bare-error-selector", tok(0, selError)},
		{"return-1-byte", tok(1, []byte{1})},
		{"all-gas", tok(2, nil)},
	} {
		out = append(out,
			c08In{PC: 0, Kind: "tx", Value: "0", Gas: 3_000_000, Data: bal, Label: "tx/token-" + c.name, Token: c.tk},
			c08In{PC: 0, Kind: "tx", Value: "0", Gas: 3_000_000, Data: stb, Label: "tx/token-" + c.name, Token: c.tk})
	}
	return out
}

func (w *world) txInputs() []c08In {
	var out []c08In
	for _, in := range w.openers() {
		if in.Kind != "top" || len(in.Pre) > 0 {
			continue
		}
		in.Kind = "tx"
		in.Label = strings.Replace(in.Label, "opener/", "tx/", 1)
		out = append(out, in)
	}
	// NUL character in a bank denom (panicked before fix e366d9b)
	ft := abiOf(0)
	bz, _ := ft.Pack("sendToEvm", "a\x00bc", big.NewInt(1), gethcommon.HexToAddress("0xa11ce").Hex())
	out = append(out, mkIn(0, "tx", "0", 1_000_000, hex.EncodeToString(bz), "tx/sendToEvm-nul"))
	bz, _ = ft.Pack("getErc20Address", "tf/\x00/x")
	out = append(out, mkIn(0, "tx", "0", 1_000_000, hex.EncodeToString(bz), "tx/getErc20Address-nul"))
	// NUL behind / inside a well-formed Oracle pair
	for _, p := range []string{"unibi:uusd\x00", "un\x00ibi:uusd"} {
		for _, m := range []string{"queryExchangeRate", "chainLinkLatestRoundData"} {
			bz, _ = abiOf(2).Pack(m, p)
			out = append(out, mkIn(2, "tx", "0", 1_000_000, hex.EncodeToString(bz), "tx/oracle-pair-nul"))
		}
	}
	return out
}

func TestC08Tx(t *testing.T) {
	cfg := LoadCfg(t, 0, 0)
	em := NewEmitter(t, cfg.Out)
	defer em.Close()
	var inputs []c08In
	if cfg.Replay != "" {
		for _, raw := range cfg.ReplayInputs(t) {
			var in c08In
			if err := json.Unmarshal(raw, &in); err != nil {
				t.Fatalf("replay input: %v", err)
			}
			if strings.HasPrefix(in.Kind, "tx") {
				inputs = append(inputs, in)
			}
		}
		if len(inputs) == 0 {
			return
		}
	} else {
		// the calldata of the openers is world independent except for the wasm address (not used at top level)
		inputs = (&world{other: gethcommon.HexToAddress("0x00000000000000000000000000000000000a11ce")}).txInputs()
	}
	w := newTxWorld(t)
	if cfg.Replay == "" {
		inputs = append(inputs, w.txSeqInputs()...)
	}
	if cfg.Replay == "" {
		inputs = append(inputs, w.txTokenInputs()...)
	}
	for _, in := range inputs {
		if in.Kind == "txcall" {
			em.Emit(in, w.runTxSeq(in), nil)
			continue
		}
		em.Emit(in, w.runTx(in), nil)
	}
}
