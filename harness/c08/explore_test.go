package c08

import (
	"fmt"
	"math/big"
	"os"
	"testing"

	gethcommon "github.com/ethereum/go-ethereum/common"
	"github.com/ethereum/go-ethereum/core/vm"

	. "verifharness/hx"

	"github.com/NibiruChain/nibiru/v2/x/evm"
	"github.com/NibiruChain/nibiru/v2/x/evm/embeds"
	"github.com/NibiruChain/nibiru/v2/x/evm/evmtest"
	"github.com/NibiruChain/nibiru/v2/x/evm/statedb"
)

func word(b *big.Int) []byte { return gethcommon.LeftPadBytes(b.Bytes(), 32) }

func fwdInput(target gethcommon.Address, gas uint64, value *big.Int, payload []byte) []byte {
	in := append([]byte{}, gethcommon.LeftPadBytes(target.Bytes(), 32)...)
	in = append(in, word(new(big.Int).SetUint64(gas))...)
	in = append(in, word(value)...)
	return append(in, payload...)
}

func TestExplore(t *testing.T) {
	if os.Getenv("C08_EXPLORE") == "" {
		t.Skip()
	}
	w := newWorld(t)
	run := func(name string, f func(evmObj *vm.EVM, ft *frameTracer) ([]byte, uint64, error)) {
		cctx, _ := w.deps.Ctx.CacheContext()
		d0 := w.digest(cctx)
		sdb := w.deps.EvmKeeper.NewStateDB(cctx, statedb.NewEmptyTxConfig(gethcommon.Hash{}))
		ft := &frameTracer{}
		evmObj := w.deps.EvmKeeper.NewEVM(cctx, evmtest.MOCK_GETH_MESSAGE, w.deps.EvmKeeper.GetEVMConfig(cctx), ft, sdb)
		var ret []byte
		var left uint64
		var err error
		p := Recover(func() { ret, left, err = f(evmObj, ft) })
		cerr := sdb.Commit()
		d1 := w.digest(cctx)
		fmt.Printf("%-40s panic=%q err=%v left=%d ret=%x commitErr=%v digestEq=%v\n", name, p, err, left, ret, cerr, d0 == d1)
		for _, fr := range ft.frames {
			fmt.Printf("      frame %s to=%s gas=%d used=%d err=%q closed=%v\n", fr.Typ, fr.To.Hex(), fr.Gas, fr.GasUsed, fr.Err, fr.Closed)
		}
	}
	sender := vm.AccountRef(w.deps.Sender.EthAddr)
	ft := embeds.SmartContract_FunToken.ABI
	pc := precompileAddrs[0]
	zero := big.NewInt(0)
	send, _ := ft.Pack("bankMsgSend", w.other.Hex(), "unibi", big.NewInt(5))
	who, _ := ft.Pack("whoAmI", w.other.Hex())
	run("top bankMsgSend", func(e *vm.EVM, _ *frameTracer) ([]byte, uint64, error) { return e.Call(sender, pc, send, 1_000_000, zero) })
	run("top whoAmI", func(e *vm.EVM, _ *frameTracer) ([]byte, uint64, error) { return e.Call(sender, pc, who, 1_000_000, zero) })
	run("top empty", func(e *vm.EVM, _ *frameTracer) ([]byte, uint64, error) { return e.Call(sender, pc, nil, 1_000_000, zero) })
	run("static bankMsgSend", func(e *vm.EVM, _ *frameTracer) ([]byte, uint64, error) { return e.StaticCall(sender, pc, send, 1_000_000) })
	run("static whoAmI", func(e *vm.EVM, _ *frameTracer) ([]byte, uint64, error) { return e.StaticCall(sender, pc, who, 1_000_000) })
	for _, fw := range []gethcommon.Address{fwdCall, fwdCallCode, fwdDelegate, fwdStatic} {
		fw := fw
		run("fwd "+fw.Hex()[36:]+" bankMsgSend", func(e *vm.EVM, _ *frameTracer) ([]byte, uint64, error) {
			return e.Call(sender, fw, fwdInput(pc, 500_000, zero, send), 2_000_000, zero)
		})
		run("fwd "+fw.Hex()[36:]+" whoAmI", func(e *vm.EVM, _ *frameTracer) ([]byte, uint64, error) {
			return e.Call(sender, fw, fwdInput(pc, 500_000, zero, who), 2_000_000, zero)
		})
	}
	run("NESTED static>CALL bankMsgSend", func(e *vm.EVM, _ *frameTracer) ([]byte, uint64, error) {
		return e.StaticCall(sender, fwdCall, fwdInput(pc, 500_000, zero, send), 2_000_000)
	})
	// oracle out of gas
	orc := embeds.SmartContract_Oracle.ABI
	q, _ := orc.Pack("queryExchangeRate", "unibi:uusd")
	for _, g := range []uint64{1_000_000, 3000, 2000, 1400, 1300, 1000} {
		g := g
		run(fmt.Sprintf("oracle query gas=%d", g), func(e *vm.EVM, _ *frameTracer) ([]byte, uint64, error) {
			return e.Call(sender, precompileAddrs[2], q, g, zero)
		})
	}
	for _, g := range []uint64{3000, 2500, 1100} {
		g := g
		run(fmt.Sprintf("funtoken bankBalance gas=%d", g), func(e *vm.EVM, _ *frameTracer) ([]byte, uint64, error) {
			in, _ := ft.Pack("bankBalance", w.other, "unibi")
			return e.Call(sender, pc, in, g, zero)
		})
	}
	// Int overflow hunting: mint 2^256-1 of the hostile ERC20 to the sender
	max := new(big.Int).Sub(new(big.Int).Lsh(big.NewInt(1), 256), big.NewInt(1))
	half := new(big.Int).Lsh(big.NewInt(1), 255)
	{
		sdb := w.deps.EvmKeeper.NewStateDB(w.deps.Ctx, statedb.NewEmptyTxConfig(gethcommon.Hash{}))
		evmObj := w.deps.EvmKeeper.NewEVM(w.deps.Ctx, evmtest.MOCK_GETH_MESSAGE, w.deps.EvmKeeper.GetEVMConfig(w.deps.Ctx), evm.NewNoOpTracer(), sdb)
		in, _ := embeds.SmartContract_ERC20Minter.ABI.Pack("mint", w.deps.Sender.EthAddr, max)
		_, _, err := evmObj.Call(sender, w.ercErc20, in, 5_000_000, zero)
		fmt.Println("mint max:", err, sdb.Commit())
		in, _ = ft.Pack("sendToBank", w.ercErc20, half, w.other.Hex())
		_, _, err = evmObj.Call(sender, pc, in, 5_000_000, zero)
		fmt.Println("sendToBank half:", err, sdb.Commit())
	}
	run("sendToBank second half (supply overflow?)", func(e *vm.EVM, _ *frameTracer) ([]byte, uint64, error) {
		in, _ := ft.Pack("sendToBank", w.ercErc20, half, w.other.Hex())
		return e.Call(sender, pc, in, 5_000_000, zero)
	})
	run("sendToBank half-1 to third party", func(e *vm.EVM, _ *frameTracer) ([]byte, uint64, error) {
		in, _ := ft.Pack("sendToBank", w.ercErc20, new(big.Int).Sub(half, big.NewInt(1)), fwdCall.Hex())
		return e.Call(sender, pc, in, 5_000_000, zero)
	})
}
