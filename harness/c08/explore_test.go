package c08

import (
	"fmt"
	"math/big"
	"os"
	"runtime/debug"
	"testing"

	gethcommon "github.com/ethereum/go-ethereum/common"
	"github.com/ethereum/go-ethereum/core/vm"

	"github.com/NibiruChain/nibiru/v2/x/evm"
	"github.com/NibiruChain/nibiru/v2/x/evm/embeds"
	"github.com/NibiruChain/nibiru/v2/x/evm/evmtest"
	"github.com/NibiruChain/nibiru/v2/x/evm/statedb"
)

func TestExploreOverflow(t *testing.T) {
	if os.Getenv("C08_EXPLORE") == "" {
		t.Skip()
	}
	w := newWorld(t)
	deps := w.deps
	sender := vm.AccountRef(deps.Sender.EthAddr)
	zero := big.NewInt(0)
	sdb := deps.EvmKeeper.NewStateDB(deps.Ctx, statedb.NewEmptyTxConfig(gethcommon.Hash{}))
	evmObj := deps.EvmKeeper.NewEVM(deps.Ctx, evmtest.MOCK_GETH_MESSAGE, deps.EvmKeeper.GetEVMConfig(deps.Ctx), evm.NewNoOpTracer(), sdb)
	erc := embeds.SmartContract_ERC20Minter.ABI
	ft := embeds.SmartContract_FunToken.ABI
	half := new(big.Int).Lsh(big.NewInt(1), 255)
	call := func(what string, to gethcommon.Address, in []byte) {
		defer func() {
			if r := recover(); r != nil {
				fmt.Printf("%s: PANIC %T %v\n%s\n", what, r, r, debug.Stack()[:3000])
			}
		}()
		_, left, err := evmObj.Call(sender, to, in, 10_000_000, zero)
		fmt.Printf("%s: err=%v left=%d commit=%v\n", what, err, left, sdb.Commit())
	}
	supply := func() { fmt.Println("  bank supply", deps.App.BankKeeper.GetSupply(deps.Ctx, w.ercDenom)) }
	in, _ := erc.Pack("mint", deps.Sender.EthAddr, half)
	call("mint 2^255", w.ercErc20, in)
	in, _ = ft.Pack("sendToBank", w.ercErc20, half, w.other.Hex())
	call("sendToBank 2^255", precompileAddrs[0], in)
	supply()
	in, _ = erc.Pack("burnFromAuthority", evm.EVM_MODULE_ADDRESS, half)
	call("owner burns the escrow", w.ercErc20, in)
	in, _ = erc.Pack("mint", deps.Sender.EthAddr, half)
	call("mint 2^255 again", w.ercErc20, in)
	in, _ = ft.Pack("sendToBank", w.ercErc20, half, deps.Sender.EthAddr.Hex())
	call("sendToBank 2^255 again (supply would reach 2^256)", precompileAddrs[0], in)
	supply()
}
