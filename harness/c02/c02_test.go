package c02

// C02 — an Ethereum tx message executes only behind the EVM ante pipeline.
//
// A case is a history of transactions on a fresh chain, each delivered in a block of its own
// through the real BeginBlock / DeliverTx / EndBlock / Commit.  A transaction is
// (extension option, signer + key kind, message trees):
//
//	eth    MsgEthereumTx: plain value transfer of 1 unibi signed by Ethereum account `from`
//	       (nonce, gas limit, optional tampered signature)
//	send   bank MsgSend{from}
//	grant  authz MsgGrant{granter, grantee, GenericAuthorization(type)}   type ∈ eth|exec|send|wasm|gov
//	exec   authz MsgExec{grantee, children}
//	wasm   MsgExecuteContract{sender, reflect contract, reflect_msg{children as stargate}}
//	gov    gov MsgSubmitProposal{proposer, children}
//
// Actors: 0..2 Cosmos key accounts (secp256k1), 10 the reflect contract (owner = 0), 11 the gov module
// account, 20..22 Ethereum accounts (eth_secp256k1 keys; the addresses MsgEthereumTx signers recover to).
// key kind "eth" signs the COSMOS transaction with an Ethereum account's eth_secp256k1 key (probe of the
// hypothesis that the Cosmos signature path rejects such keys).
//
// Observables per transaction: accepted?, the pre-order indices of the eth leaves whose handler ran
// (EventEthereumTx carrying their hash), and for every Ethereum account its sequence and balance deltas,
// plus the fee-collector delta.

import (
	"encoding/base64"
	"encoding/json"
	"fmt"
	"math/big"
	"os"
	"sort"
	"strings"
	"testing"
	"time"

	sdkmath "cosmossdk.io/math"
	wasmtypes "github.com/CosmWasm/wasmd/x/wasm/types"
	abci "github.com/cometbft/cometbft/abci/types"
	codectypes "github.com/cosmos/cosmos-sdk/codec/types"
	"github.com/cosmos/cosmos-sdk/crypto/keys/secp256k1"
	cryptotypes "github.com/cosmos/cosmos-sdk/crypto/types"
	sdk "github.com/cosmos/cosmos-sdk/types"
	authtx "github.com/cosmos/cosmos-sdk/x/auth/tx"
	authtypes "github.com/cosmos/cosmos-sdk/x/auth/types"
	"github.com/cosmos/cosmos-sdk/x/authz"
	banktypes "github.com/cosmos/cosmos-sdk/x/bank/types"
	govtypes "github.com/cosmos/cosmos-sdk/x/gov/types"
	govv1 "github.com/cosmos/cosmos-sdk/x/gov/types/v1"
	"github.com/cosmos/gogoproto/proto"
	gethcommon "github.com/ethereum/go-ethereum/common"

	"verifharness/c17/txutil"
	. "verifharness/hx"

	"github.com/NibiruChain/nibiru/v2/x/evm"
	"github.com/NibiruChain/nibiru/v2/x/evm/evmtest"
)

const (
	nUsers     = 3
	idContract = 10
	idGov      = 11
	idEth0     = 20
	nEth       = 3
)

type node struct {
	K     string `json:"k"`
	From  int    `json:"from,omitempty"`
	To    int    `json:"to,omitempty"`
	T     string `json:"t,omitempty"`
	Nonce int    `json:"nonce,omitempty"`
	Gas   int    `json:"gas,omitempty"`
	Price string `json:"price,omitempty"` // eth (legacy tx): gas price in wei ("" = 10^12 = 1 unibi)
	Cap   string `json:"cap,omitempty"`   // eth (dynamic-fee tx when set): gas fee cap in wei
	Tip   string `json:"tip,omitempty"`   // eth (dynamic-fee tx): gas tip cap in wei
	Bad   bool   `json:"bad,omitempty"`   // eth: tampered signature
	As    *int   `json:"as,omitempty"`    // eth: actor whose address is written into the unsigned From field
	G     int    `json:"g,omitempty"`
	C     []node `json:"c,omitempty"`
}

type txIn struct {
	Ext    string `json:"ext,omitempty"` // "" | evm | other
	Signer int    `json:"signer"`        // actor whose key signs the Cosmos tx (ignored for key none)
	Key    string `json:"key"`           // cosmos | eth | none
	Msgs   []node `json:"msgs"`
}

type caseIn struct {
	Txs []txIn `json:"txs"`
}

type accObs struct {
	Id   int    `json:"id"`
	Seq0 uint64 `json:"seq0"` // sequence before the tx
	DSeq int64  `json:"dseq"`
	DBal string `json:"dbal"`
}

type txObs struct {
	Ok    bool     `json:"ok"`
	Fired []int    `json:"fired"` // pre-order indices (over all eth leaves of the tx) whose handler ran
	Eth   []accObs `json:"eth"`
	DFee  string   `json:"dfee"` // fee collector delta (unibi)
	Log   string   `json:"-"`
}

type world struct {
	c        *Chain
	users    []*secp256k1.PrivKey
	eths     []evmtest.EthPrivKeyAcc
	contract sdk.AccAddress
	gov      sdk.AccAddress
	sink     sdk.AccAddress
	ethSink  gethcommon.Address
	codeID   uint64
	cases    int
}

func repoDir() string {
	if d := os.Getenv("VERIF_REPO"); d != "" {
		return d
	}
	return "/repo"
}

var reflectCode []byte
var worldCounter int

// newWorld starts a fresh chain and stores the reflect contract code once; beginCase gives every case its own
// accounts and contract instance (the wasm VM of a chain is never released, so a chain serves a batch of cases).
func newWorld(t *testing.T) *world {
	w := &world{c: NewChain(nil)}
	c := w.c
	c.BeginBlock(5 * time.Second)
	ctx := c.Ctx()
	w.sink = sdk.AccAddress([]byte("c02-sink____________"))
	w.ethSink = gethcommon.HexToAddress("0x00000000000000000000000000000000000C0002")
	w.gov = authtypes.NewModuleAddress(govtypes.ModuleName)
	if reflectCode == nil {
		bz, err := os.ReadFile(repoDir() + "/x/devgas/v1/keeper/testdata/reflect.wasm")
		if err != nil {
			t.Fatal(err)
		}
		reflectCode = bz
	}
	uploader := sdk.AccAddress([]byte("c02-uploader________"))
	store := &wasmtypes.MsgStoreCode{Sender: uploader.String(), WASMByteCode: reflectCode}
	rsp, err := c.App.MsgServiceRouter().Handler(store)(ctx, store)
	if err != nil {
		t.Fatal(err)
	}
	var sr wasmtypes.MsgStoreCodeResponse
	_ = c.App.AppCodec().Unmarshal(rsp.Data, &sr)
	w.codeID = sr.CodeID
	c.EndBlock()
	return w
}

func (w *world) beginCase(t *testing.T) {
	worldCounter++
	w.cases++
	c := w.c
	c.BeginBlock(5 * time.Second)
	ctx := c.Ctx()
	w.users, w.eths = nil, nil
	for i := 0; i < nUsers; i++ {
		k := secp256k1.GenPrivKeyFromSecret([]byte(fmt.Sprintf("c02-user-%d-%d", worldCounter, i)))
		w.users = append(w.users, k)
		if err := c.Fund(sdk.AccAddress(k.PubKey().Address()), Unibi(1e15)); err != nil {
			t.Fatal(err)
		}
	}
	for i := 0; i < nEth; i++ {
		a := evmtest.NewEthPrivAcc()
		w.eths = append(w.eths, a)
		if err := c.Fund(a.NibiruAddr, Unibi(1e15)); err != nil {
			t.Fatal(err)
		}
	}
	owner := w.addr(0)
	inst := &wasmtypes.MsgInstantiateContract{Sender: owner.String(), CodeID: w.codeID, Label: fmt.Sprintf("reflect-%d", worldCounter), Msg: []byte(`{}`)}
	rsp, err := c.App.MsgServiceRouter().Handler(inst)(ctx, inst)
	if err != nil {
		t.Fatal(err)
	}
	var ir wasmtypes.MsgInstantiateContractResponse
	_ = c.App.AppCodec().Unmarshal(rsp.Data, &ir)
	w.contract = sdk.MustAccAddressFromBech32(ir.Address)
	if err := c.Fund(w.contract, Unibi(1e13)); err != nil {
		t.Fatal(err)
	}
	c.EndBlock()
}

func (w *world) addr(id int) sdk.AccAddress {
	switch {
	case id >= 0 && id < nUsers:
		return sdk.AccAddress(w.users[id].PubKey().Address())
	case id == idContract:
		return w.contract
	case id == idGov:
		return w.gov
	case id >= idEth0 && id < idEth0+nEth:
		return w.eths[id-idEth0].NibiruAddr
	}
	return sdk.AccAddress([]byte(fmt.Sprintf("c02-unknown-%08d", id)))
}

var typeURL = map[string]string{
	"eth":   "/eth.evm.v1.MsgEthereumTx",
	"exec":  "/cosmos.authz.v1beta1.MsgExec",
	"wasm":  "/cosmwasm.wasm.v1.MsgExecuteContract",
	"send":  "/cosmos.bank.v1beta1.MsgSend",
	"gov":   "/cosmos.gov.v1.MsgSubmitProposal",
	"grant": "/cosmos.authz.v1beta1.MsgGrant",
}

type built struct {
	hashes []string // eth tx hashes in pre-order
	fee    *big.Int // Σ ⌊gas × effective price / 10^12⌋ over TOP-LEVEL eth leaves (unibi)
	gas    uint64
}

func (w *world) build(n node, top bool, b *built) (sdk.Msg, error) {
	switch n.K {
	case "eth":
		i := n.From - idEth0
		if i < 0 || i >= nEth {
			return nil, fmt.Errorf("eth from %d", n.From)
		}
		to := w.ethSink
		args := &evm.EvmTxArgs{Nonce: uint64(n.Nonce), GasLimit: uint64(n.Gas), To: &to, Amount: big.NewInt(1_000_000_000_000)}
		base := big.NewInt(1_000_000_000_000) // evm.BASE_FEE_WEI, written out: the harness prices independently of the code
		var eff *big.Int
		if n.Cap != "" {
			cp, ok1 := new(big.Int).SetString(n.Cap, 10)
			tip, ok2 := new(big.Int).SetString(n.Tip, 10)
			if !ok1 || !ok2 {
				return nil, fmt.Errorf("bad cap/tip")
			}
			args.GasFeeCap, args.GasTipCap = cp, tip
			eff = new(big.Int).Add(base, tip)
			if eff.Cmp(cp) > 0 {
				eff = new(big.Int).Set(cp)
			}
		} else {
			pr := new(big.Int).Set(base)
			if n.Price != "" {
				var ok bool
				if pr, ok = new(big.Int).SetString(n.Price, 10); !ok {
					return nil, fmt.Errorf("bad price")
				}
			}
			args.GasPrice = pr
			eff = new(big.Int).Set(pr)
		}
		if eff.Cmp(base) < 0 {
			eff = base
		}
		msg, err := w.c.SignEth(w.eths[i], args)
		if err != nil {
			return nil, err
		}
		if n.Bad {
			// tamper with the signature: flip a bit of S
			d, err := evm.UnpackTxData(msg.Data)
			if err != nil {
				return nil, err
			}
			lt, ok := d.(*evm.LegacyTx)
			if !ok {
				return nil, fmt.Errorf("unexpected tx data %T", d)
			}
			lt.S[len(lt.S)-1] ^= 1
			any, err := evm.PackTxData(lt)
			if err != nil {
				return nil, err
			}
			msg.Data = any
			msg.Hash = msg.AsTransaction().Hash().Hex()
		}
		msg.From = ""
		if n.As != nil {
			msg.From = gethcommon.BytesToAddress(w.addr(*n.As)).Hex()
		}
		b.hashes = append(b.hashes, msg.AsTransaction().Hash().Hex())
		if top {
			f := new(big.Int).Mul(eff, big.NewInt(int64(n.Gas)))
			b.fee.Add(b.fee, f.Quo(f, base))
			b.gas += uint64(n.Gas)
		}
		return msg, nil
	case "send":
		return banktypes.NewMsgSend(w.addr(n.From), w.sink, Unibi(1)), nil
	case "grant":
		u, ok := typeURL[n.T]
		if !ok {
			return nil, fmt.Errorf("grant type %q", n.T)
		}
		return authz.NewMsgGrant(w.addr(n.From), w.addr(n.To), authz.NewGenericAuthorization(u), nil)
	case "exec":
		ms, err := w.buildAll(n.C, false, b)
		if err != nil {
			return nil, err
		}
		e := authz.NewMsgExec(w.addr(n.G), ms)
		return &e, nil
	case "wasm":
		ms, err := w.buildAll(n.C, false, b)
		if err != nil {
			return nil, err
		}
		var parts []string
		for _, m := range ms {
			bz, err := proto.Marshal(m)
			if err != nil {
				return nil, err
			}
			parts = append(parts, fmt.Sprintf(`{"stargate":{"type_url":"%s","value":"%s"}}`, sdk.MsgTypeURL(m), base64.StdEncoding.EncodeToString(bz)))
		}
		payload := `{"reflect_msg":{"msgs":[` + strings.Join(parts, ",") + `]}}`
		return &wasmtypes.MsgExecuteContract{Sender: w.addr(n.G).String(), Contract: w.contract.String(), Msg: []byte(payload)}, nil
	case "gov":
		ms, err := w.buildAll(n.C, false, b)
		if err != nil {
			return nil, err
		}
		return govv1.NewMsgSubmitProposal(ms, Unibi(10_000_000), w.addr(n.G).String(), "m", "t", "s")
	}
	return nil, fmt.Errorf("unknown node kind %q", n.K)
}

func (w *world) buildAll(ns []node, top bool, b *built) ([]sdk.Msg, error) {
	var out []sdk.Msg
	for _, n := range ns {
		m, err := w.build(n, top, b)
		if err != nil {
			return nil, err
		}
		out = append(out, m)
	}
	return out, nil
}

type snap struct {
	seq []uint64
	bal []sdkmath.Int
	fee sdkmath.Int
}

func (w *world) snapshot() snap {
	ctx := w.c.Ctx()
	s := snap{}
	for _, e := range w.eths {
		var q uint64
		if acc := w.c.App.AccountKeeper.GetAccount(ctx, e.NibiruAddr); acc != nil {
			q = acc.GetSequence()
		}
		s.seq = append(s.seq, q)
		s.bal = append(s.bal, w.c.App.BankKeeper.GetBalance(ctx, e.NibiruAddr, "unibi").Amount)
	}
	s.fee = w.c.App.BankKeeper.GetBalance(ctx, authtypes.NewModuleAddress(authtypes.FeeCollectorName), "unibi").Amount
	return s
}

func (w *world) key(tx txIn) (cryptotypes.PrivKey, bool) {
	switch tx.Key {
	case "cosmos":
		if tx.Signer >= 0 && tx.Signer < nUsers {
			return w.users[tx.Signer], true
		}
	case "eth":
		if tx.Signer >= idEth0 && tx.Signer < idEth0+nEth {
			return w.eths[tx.Signer-idEth0].PrivKey, true
		}
	}
	return nil, false
}

func (w *world) runTx(tx txIn) txObs {
	c := w.c
	c.BeginBlock(5 * time.Second)
	before := w.snapshot()
	o := txObs{Fired: []int{}, Eth: []accObs{}}
	b := &built{fee: new(big.Int)}
	msgs, err := w.buildAll(tx.Msgs, true, b)
	var r abci.ResponseDeliverTx
	if err != nil {
		r = abci.ResponseDeliverTx{Code: 9999, Log: "build: " + err.Error()}
	} else {
		var ext *codectypes.Any
		switch tx.Ext {
		case "evm":
			ext, _ = codectypes.NewAnyWithValue(&evm.ExtensionOptionsEthereumTx{})
		case "other":
			ext, _ = codectypes.NewAnyWithValue(&banktypes.MsgSend{})
		}
		fee, gas := Unibi(1_000_000), uint64(40_000_000)
		if tx.Ext == "evm" {
			fee, gas = sdk.NewCoins(sdk.NewCoin("unibi", sdkmath.NewIntFromBigInt(b.fee))), b.gas
			if b.fee.Sign() == 0 {
				fee = sdk.NewCoins()
			}
		}
		if p := Recover(func() {
			if k, ok := w.key(tx); ok {
				r = txutil.Deliver(c, k, gas, fee, ext, msgs...)
			} else {
				// unsigned transaction (what the JSON-RPC layer builds for Ethereum txs)
				tb := c.TxCfg.NewTxBuilder()
				if ext != nil {
					tb.(authtx.ExtensionOptionsTxBuilder).SetExtensionOptions(ext)
				}
				if err := tb.SetMsgs(msgs...); err != nil {
					r = abci.ResponseDeliverTx{Code: 9999, Log: "build: " + err.Error()}
					return
				}
				tb.SetFeeAmount(fee)
				tb.SetGasLimit(gas)
				bz, err := c.TxCfg.TxEncoder()(tb.GetTx())
				if err != nil {
					r = abci.ResponseDeliverTx{Code: 9999, Log: "encode: " + err.Error()}
					return
				}
				r = c.App.DeliverTx(abci.RequestDeliverTx{Tx: bz})
			}
		}); p != "" {
			r = abci.ResponseDeliverTx{Code: 9998, Log: "panic: " + p}
		}
	}
	o.Ok = r.Code == 0
	o.Log = r.Log
	if o.Ok {
		fired := map[string]bool{}
		for _, a := range EventAttrs(r.Events, "eth.evm.v1.EventEthereumTx") {
			fired[strings.ToLower(strings.Trim(a["eth_hash"], `"`))] = true
		}
		for i, h := range b.hashes {
			if fired[strings.ToLower(h)] {
				o.Fired = append(o.Fired, i)
			}
		}
		sort.Ints(o.Fired)
	}
	after := w.snapshot()
	for i := range w.eths {
		o.Eth = append(o.Eth, accObs{Id: idEth0 + i, Seq0: before.seq[i], DSeq: int64(after.seq[i]) - int64(before.seq[i]), DBal: after.bal[i].Sub(before.bal[i]).String()})
	}
	o.DFee = after.fee.Sub(before.fee).String()
	c.EndBlock()
	return o
}

var shared *world

func runCase(t *testing.T, ci caseIn, fresh bool) []txObs {
	if shared == nil || fresh || shared.cases >= 40 {
		shared = newWorld(t)
	}
	w := shared
	w.beginCase(t)
	var obs []txObs
	for _, tx := range ci.Txs {
		obs = append(obs, w.runTx(tx))
	}
	return obs
}

// ---------------------------------------------------------------- generator

type gen struct {
	r   *Rng
	seq map[int]int // believed sequence of every eth account (steers generation only)
}

func (g *gen) ethLeaf(from int) node {
	n := node{K: "eth", From: from, Nonce: g.seq[from], Gas: 21000}
	switch g.r.Pick(12, 2, 2, 1, 1) {
	case 1:
		n.Nonce += 1 + g.r.Intn(3) // gap
	case 2:
		if n.Nonce > 0 {
			n.Nonce -= 1 // replay / rewind attempt
		} else {
			n.Nonce = 2
		}
	case 3:
		n.Gas = 20000 // below intrinsic gas
	case 4:
		n.Bad = true
	}
	if g.r.Chance(2, 5) && n.Gas == 21000 {
		n.Gas = []int{50000, 30000, 100000, 250000}[g.r.Intn(4)] // leftover gas to refund
	}
	// gas price: mostly NOT a whole number of unibi (10^12 wei) per gas; legacy or dynamic-fee
	if !n.Bad {
		switch g.r.Pick(5, 7, 4) {
		case 1:
			n.Price = []string{"1999999999999", "1000000000001", "1500000000000", "3000000000007", "12345678901234",
				"2000000000000", "999999999999", "1000000000000"}[g.r.Intn(8)]
		case 2:
			ct := [][2]string{{"5000000000000", "1"}, {"1999999999999", "999999999999"}, {"2500000000001", "999999999999"},
				{"1000000000000", "0"}, {"7000000000000", "2000000000003"}, {"1000000000001", "5"}}[g.r.Intn(6)]
			n.Cap, n.Tip = ct[0], ct[1]
		}
	}
	return n
}

func signerOf(n node) int {
	switch n.K {
	case "eth", "send", "grant":
		return n.From
	}
	return n.G
}

func (g *gen) actor() int {
	switch g.r.Pick(8, 4, 2, 1) {
	case 0:
		return g.r.Intn(nUsers)
	case 1:
		return idEth0 + g.r.Intn(nEth)
	case 2:
		return idContract
	}
	return idGov
}

// wrap puts cur under depth wrappers, mostly with plausible authority for `signer`
func (g *gen) wrap(cur node, depth, signer int, needs *[][3]interface{}) node {
	r := g.r
	for d := 0; d < depth; d++ {
		inner := signerOf(cur)
		sibs := []node{cur}
		if r.Chance(1, 5) {
			s := node{K: "send", From: inner}
			if r.Chance(1, 2) {
				sibs = []node{s, cur}
			} else {
				sibs = []node{cur, s}
			}
		}
		switch r.Pick(10, 4, 2) {
		case 0:
			gr := inner
			if r.Chance(2, 3) {
				gr = signer
			}
			if cur.K == "eth" && cur.As != nil && r.Chance(3, 4) {
				gr = *cur.As
			}
			if r.Chance(1, 8) {
				gr = g.actor()
			}
			if gr != inner && !r.Chance(1, 4) {
				*needs = append(*needs, [3]interface{}{inner, gr, cur.K})
			}
			cur = node{K: "exec", G: gr, C: sibs}
		case 1:
			s := 0
			if r.Chance(1, 8) {
				s = r.Intn(nUsers)
			}
			cur = node{K: "wasm", G: s, C: sibs}
		default:
			cur = node{K: "gov", G: signer, C: sibs}
		}
	}
	return cur
}

func (g *gen) genCase() caseIn {
	r := g.r
	ci := caseIn{}
	ntx := r.Range(3, 8)
	for i := 0; i < ntx; i++ {
		switch r.Pick(5, 9, 2, 2, 1) {
		case 0:
			// a regular Ethereum transaction (1-3 messages) through the EVM route
			tx := txIn{Ext: "evm", Key: "none", Signer: -1}
			nm := r.Pick(6, 2, 1) + 1
			local := map[int]int{}
			allOK := true
			for j := 0; j < nm; j++ {
				from := idEth0 + r.Intn(nEth)
				save := g.seq[from]
				g.seq[from] += local[from]
				l := g.ethLeaf(from)
				g.seq[from] = save
				if r.Chance(1, 15) {
					as := from
					if r.Chance(1, 2) {
						as = r.Intn(nUsers)
					}
					l.As = &as
				}
				if l.Bad || l.As != nil || l.Nonce != save+local[from] {
					allOK = false
				}
				local[from]++
				tx.Msgs = append(tx.Msgs, l)
			}
			if r.Chance(1, 10) {
				tx.Msgs = append(tx.Msgs, node{K: "send", From: r.Intn(nUsers)})
				allOK = false
			}
			if r.Chance(1, 12) {
				tx.Key, tx.Signer = "cosmos", r.Intn(nUsers)
				allOK = false
			}
			if allOK {
				for f, k := range local {
					g.seq[f] += k
				}
			}
			ci.Txs = append(ci.Txs, tx)
		case 1:
			// a Cosmos transaction carrying an Ethereum message somewhere in a message tree
			signer := r.Intn(nUsers)
			if r.Chance(1, 2) {
				signer = 0
			}
			tx := txIn{Key: "cosmos", Signer: signer}
			var needs [][3]interface{}
			nm := r.Pick(8, 2, 1) + 1
			for j := 0; j < nm; j++ {
				var leaf node
				switch r.Pick(10, 2, 2) {
				case 0:
					leaf = g.ethLeaf(idEth0 + r.Intn(nEth))
					leaf.Bad = leaf.Bad && r.Chance(1, 2)
					if r.Chance(2, 5) {
						// the unsigned From field names somebody else: the tx signer (mostly), the contract, anyone
						as := signer
						switch r.Pick(6, 2, 1) {
						case 1:
							as = idContract
						case 2:
							as = g.actor()
						}
						leaf.As = &as
					}
				case 1:
					leaf = node{K: "send", From: signer}
				default:
					leaf = node{K: "grant", From: signer, To: (signer + 1) % nUsers, T: []string{"eth", "exec", "send", "wasm"}[r.Intn(4)]}
				}
				t := g.wrap(leaf, r.Pick(2, 5, 5, 3, 2, 1), signer, &needs)
				if signerOf(t) != signer && t.K != "eth" && !r.Chance(1, 8) {
					if !r.Chance(1, 6) {
						needs = append(needs, [3]interface{}{signerOf(t), signer, t.K})
					}
					t = node{K: "exec", G: signer, C: []node{t}}
				}
				tx.Msgs = append(tx.Msgs, t)
			}
			for _, nd := range needs {
				from, to, k := nd[0].(int), nd[1].(int), nd[2].(string)
				if from == to {
					continue
				}
				switch {
				case from >= 0 && from < nUsers:
					ci.Txs = append(ci.Txs, txIn{Key: "cosmos", Signer: from, Msgs: []node{{K: "grant", From: from, To: to, T: k}}})
				case from == idContract:
					ci.Txs = append(ci.Txs, txIn{Key: "cosmos", Signer: 0, Msgs: []node{{K: "wasm", G: 0, C: []node{{K: "grant", From: idContract, To: to, T: k}}}}})
				case from >= idEth0:
					// the only way an Ethereum account could grant: a Cosmos tx signed with its eth key (must be rejected),
					// wrapped so that the top-level authz guard does not see the grant type
					ci.Txs = append(ci.Txs, txIn{Key: "eth", Signer: from, Msgs: []node{{K: "exec", G: from, C: []node{{K: "grant", From: from, To: to, T: k}}}}})
				}
			}
			if r.Chance(1, 15) {
				tx.Ext = []string{"evm", "other"}[r.Intn(2)]
			}
			ci.Txs = append(ci.Txs, tx)
		case 2:
			// Cosmos transaction signed with an eth_secp256k1 key
			e := idEth0 + r.Intn(nEth)
			inner := g.ethLeaf(e)
			var needs [][3]interface{}
			t := g.wrap(inner, r.Pick(1, 3, 4, 2), e, &needs)
			ci.Txs = append(ci.Txs, txIn{Key: "eth", Signer: e, Msgs: []node{t}})
		case 3:
			// unknown extension option
			ci.Txs = append(ci.Txs, txIn{Ext: "other", Key: "none", Signer: -1, Msgs: []node{g.ethLeaf(idEth0 + r.Intn(nEth))}})
		default:
			// bare MsgEthereumTx in an unsigned / Cosmos-signed tx without extension option
			tx := txIn{Key: "none", Signer: -1, Msgs: []node{g.ethLeaf(idEth0 + r.Intn(nEth))}}
			if r.Chance(1, 2) {
				tx.Key, tx.Signer = "cosmos", r.Intn(nUsers)
			}
			ci.Txs = append(ci.Txs, tx)
		}
	}
	return ci
}

func openers() []caseIn {
	eth := func(from, nonce int) node { return node{K: "eth", From: from, Nonce: nonce, Gas: 21000} }
	ethAs := func(as, from, nonce int) node { return node{K: "eth", From: from, Nonce: nonce, Gas: 50000, As: &as} }
	ex := func(g int, c ...node) node { return node{K: "exec", G: g, C: c} }
	wa := func(c ...node) node { return node{K: "wasm", G: 0, C: c} }
	chain := func(n, g int, inner node) node {
		for i := 0; i < n; i++ {
			inner = ex(g, inner)
		}
		return inner
	}
	evm := func(ms ...node) txIn { return txIn{Ext: "evm", Key: "none", Signer: -1, Msgs: ms} }
	cos := func(s int, ms ...node) txIn { return txIn{Key: "cosmos", Signer: s, Msgs: ms} }
	big := node{K: "eth", From: 20, Nonce: 1, Gas: 50000}
	return []caseIn{
		// the regular path, replay, gap, two messages n,n+1 and n,n
		{Txs: []txIn{evm(eth(20, 0)), evm(eth(20, 0)), evm(eth(20, 5)), evm(eth(20, 1), eth(20, 2)), evm(eth(20, 3), eth(20, 3)), evm(eth(20, 3), eth(21, 0))}},
		// probe22: exec[eth] rejected by the guard, exec[exec[eth]] passes the ante and dies in authz dispatch
		{Txs: []txIn{evm(eth(20, 0)), cos(1, ex(1, big)), cos(1, ex(1, ex(1, big))), cos(1, ex(1, ex(1, ex(1, ex(1, big))))), cos(1, big), evm(big)}},
		// grants for MsgEthereumTx: top-level grant rejected by the guard, nested grant passes; still no authority over the eth signer
		{Txs: []txIn{cos(1, node{K: "grant", From: 1, To: 2, T: "eth"}), cos(1, ex(1, node{K: "grant", From: 1, To: 2, T: "eth"})),
			cos(2, ex(2, ex(2, eth(20, 0)))), cos(2, ex(2, ex(1, eth(20, 0))))}},
		// wasm dispatch: eth refused at the handler, exec[eth] under wasm needs a grant from the eth signer
		{Txs: []txIn{cos(0, wa(eth(20, 0))), cos(0, wa(ex(idContract, eth(20, 0)))), cos(0, ex(0, wa(ex(idContract, ex(idContract, eth(20, 0))))))}},
		// gov proposal carrying eth: signer is not the gov account
		{Txs: []txIn{cos(1, node{K: "gov", G: 1, C: []node{eth(20, 0)}}), cos(1, node{K: "gov", G: 1, C: []node{ex(idGov, eth(20, 0))}})}},
		// Cosmos transactions signed with an eth_secp256k1 key (Hsig probe)
		{Txs: []txIn{{Key: "eth", Signer: 20, Msgs: []node{ex(20, ex(20, eth(20, 0)))}}, {Key: "eth", Signer: 20, Msgs: []node{{K: "send", From: 20}}},
			{Key: "eth", Signer: 20, Msgs: []node{ex(20, node{K: "grant", From: 20, To: 1, T: "eth"})}}, cos(1, ex(1, ex(1, eth(20, 0)))), evm(eth(20, 0))}},
		// the unsigned From field naming the outer signer / grantee / contract (GetSigners must not read it)
		{Txs: []txIn{evm(eth(20, 0)), evm(eth(20, 1)), cos(1, ex(1, ex(1, ethAs(1, 20, 0)))), cos(1, ex(1, ethAs(1, 20, 0))), cos(1, ethAs(1, 20, 0)),
			cos(0, wa(ex(idContract, ethAs(idContract, 20, 0)))), cos(0, wa(ethAs(idContract, 20, 0))), cos(2, ex(2, ex(2, ex(2, ethAs(2, 21, 0))))),
			evm(ethAs(20, 20, 2)), evm(eth(20, 2))}},
		// deep chains: exec^8 / exec^12 around somebody else's Ethereum message, with and without the From field
		{Txs: []txIn{evm(eth(20, 0)), cos(1, chain(8, 1, eth(20, 0))), cos(1, chain(12, 1, ethAs(1, 20, 0))), cos(0, wa(chain(6, idContract, ethAs(idContract, 20, 0)))),
			{Key: "eth", Signer: 20, Msgs: []node{chain(9, 20, eth(20, 1))}}, evm(eth(20, 1))}},
		// gas prices that are not whole unibi per gas, generous gas limits, several payers in one transaction
		{Txs: []txIn{evm(node{K: "eth", From: 20, Nonce: 0, Gas: 30000, Price: "1999999999999"}),
			evm(node{K: "eth", From: 20, Nonce: 1, Gas: 21000, Price: "3000000000000"}, node{K: "eth", From: 21, Nonce: 0, Gas: 100000, Price: "1999999999999"}),
			evm(node{K: "eth", From: 22, Nonce: 0, Gas: 250000, Cap: "5000000000000", Tip: "999999999999"}, node{K: "eth", From: 20, Nonce: 2, Gas: 50000, Price: "1000000000001"},
				node{K: "eth", From: 21, Nonce: 1, Gas: 21000, Cap: "1999999999999", Tip: "999999999999"}),
			evm(node{K: "eth", From: 20, Nonce: 3, Gas: 100000, Price: "999999999999"}), cos(1, ex(1, ex(1, node{K: "eth", From: 20, Nonce: 0, Gas: 100000, Price: "1999999999999"})))}},
		// extension-option routing with the wrong content
		{Txs: []txIn{{Ext: "evm", Key: "cosmos", Signer: 1, Msgs: []node{{K: "send", From: 1}}}, {Ext: "evm", Key: "none", Signer: -1, Msgs: []node{eth(20, 0), {K: "send", From: 1}}},
			{Ext: "other", Key: "none", Signer: -1, Msgs: []node{eth(20, 0)}}, {Ext: "other", Key: "cosmos", Signer: 1, Msgs: []node{{K: "send", From: 1}}},
			{Key: "none", Signer: -1, Msgs: []node{eth(20, 0)}}, evm(eth(20, 0))}},
	}
}

func TestC02(t *testing.T) {
	cfg := LoadCfg(t, 200, 3000)
	em := NewEmitter(t, cfg.Out)
	defer em.Close()
	run := func(ci caseIn) {
		obs := runCase(t, ci, cfg.Replay != "")
		em.Emit(ci, obs, nil)
		if os.Getenv("C02_DEBUG") != "" {
			for i, o := range obs {
				bz, _ := json.Marshal(ci.Txs[i])
				fmt.Printf("tx %s -> ok=%v fired=%v eth=%v dfee=%s log=%.140s\n", bz, o.Ok, o.Fired, o.Eth, o.DFee, o.Log)
			}
		}
	}
	if cfg.Replay != "" {
		for _, raw := range cfg.ReplayInputs(t) {
			var ci caseIn
			if err := json.Unmarshal(raw, &ci); err != nil {
				t.Fatal(err)
			}
			run(ci)
		}
		return
	}
	for _, ci := range openers() {
		run(ci)
	}
	rng := NewRng(cfg.Seed)
	for i := 0; i < cfg.N; i++ {
		g := &gen{r: rng.Fork(), seq: map[int]int{}}
		run(g.genCase())
	}
}
