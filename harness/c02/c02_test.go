package c02

// C02 — an Ethereum tx message executes only behind the EVM ante pipeline.
//
// A case is a history of transactions on a fresh chain, each delivered in a block of its own
// through the real BeginBlock / DeliverTx / EndBlock / Commit.  A transaction is
// (extension option, signer + key kind, message trees):
//
//	eth    MsgEthereumTx signed by Ethereum account `from` (nonce, gas limit, gas price / fee cap + tip, value,
//	       optional tampered signature); `prog` says what it asks of the EVM: "" a plain transfer to an account
//	       without code, t-data the same with calldata, c-* contract creations (init code that stops / REVERTs /
//	       hits an invalid opcode / deploys code), k-* calls of contracts (deployed once per chain) that stop /
//	       REVERT / abort / read storage.  Whether the execution succeeds, fails for lack of funds for the value
//	       BEFORE the EVM touches the nonce, reverts or runs out of gas depends on gas limit, value and balance.
//	send   bank MsgSend{from}
//	grant  authz MsgGrant{granter, grantee, GenericAuthorization(type)}   type ∈ eth|exec|send|wasm|gov
//	exec   authz MsgExec{grantee, children}
//	wasm   MsgExecuteContract{sender, reflect contract, reflect_msg{children as stargate}}
//	gov    gov MsgSubmitProposal{proposer, children}
//
// Actors: 0..2 Cosmos key accounts (secp256k1), 10 the reflect contract (owner = 0), 11 the gov module
// account, 20..23 Ethereum accounts (eth_secp256k1 keys; the addresses MsgEthereumTx signers recover to; 23 holds
// only 400000 unibi, so that a gas prepayment decides whether it can still pay a value).
// key kind "eth" signs the COSMOS transaction with an Ethereum account's eth_secp256k1 key (probe of the
// hypothesis that the Cosmos signature path rejects such keys).
//
// Observables per transaction: accepted?, the pre-order indices of the eth leaves whose handler ran
// (EventEthereumTx carrying their hash) with the gas used / VM error they report, and for every Ethereum account
// its sequence and balance deltas on the committed state, plus the fee-collector delta.

import (
	"encoding/base64"
	"encoding/json"
	"fmt"
	"math/big"
	"os"
	"sort"
	"strings"
	"testing"
	"time"

	sdkmath "cosmossdk.io/math"
	wasmtypes "github.com/CosmWasm/wasmd/x/wasm/types"
	abci "github.com/cometbft/cometbft/abci/types"
	codectypes "github.com/cosmos/cosmos-sdk/codec/types"
	"github.com/cosmos/cosmos-sdk/crypto/keys/secp256k1"
	cryptotypes "github.com/cosmos/cosmos-sdk/crypto/types"
	sdk "github.com/cosmos/cosmos-sdk/types"
	authtx "github.com/cosmos/cosmos-sdk/x/auth/tx"
	authtypes "github.com/cosmos/cosmos-sdk/x/auth/types"
	"github.com/cosmos/cosmos-sdk/x/authz"
	banktypes "github.com/cosmos/cosmos-sdk/x/bank/types"
	govtypes "github.com/cosmos/cosmos-sdk/x/gov/types"
	govv1 "github.com/cosmos/cosmos-sdk/x/gov/types/v1"
	"github.com/cosmos/gogoproto/proto"
	gethcommon "github.com/ethereum/go-ethereum/common"
	gethcore "github.com/ethereum/go-ethereum/core/types"
	"github.com/ethereum/go-ethereum/crypto"

	"verifharness/c17/txutil"
	. "verifharness/hx"

	"github.com/NibiruChain/nibiru/v2/x/evm"
	"github.com/NibiruChain/nibiru/v2/x/evm/evmtest"
)

const (
	nUsers     = 3
	idContract = 10
	idGov      = 11
	idEth0     = 20
	nEth       = 4
	idPoor     = 23
	fundRich   = int64(1e15)
	fundPoor   = int64(400_000)
)

// what an Ethereum message asks of the EVM.  exec = gas the code needs to reach its end (for a creation incl. the
// code deposit), out = stop | revert | invalid.  The table is mirrored in tools/props/c02.py (PROGS).
type prog struct {
	create bool
	data   string // hex: init code (create) or calldata
	to     string // call target: "sink" | contract name
	exec   int
	out    string
}

var progs = map[string]prog{
	"":          {to: "sink", out: "stop"},
	"t-data":    {to: "sink", data: "00ff00ff", out: "stop"},
	"c-stop":    {create: true, data: "00", out: "stop"},
	"c-revert":  {create: true, data: "60006000fd", exec: 6, out: "revert"},
	"c-invalid": {create: true, data: "fe", out: "invalid"},
	"c-deploy":  {create: true, data: "6460006000fd6000526005601bf3", exec: 1018, out: "stop"},
	"k-stop":    {to: "k-stop", out: "stop"},
	"k-revert":  {to: "k-revert", exec: 6, out: "revert"},
	"k-invalid": {to: "k-invalid", out: "invalid"},
	"k-sload":   {to: "k-sload", data: "01", exec: 2105, out: "stop"},
}

var progNames = []string{"t-data", "c-stop", "c-revert", "c-invalid", "c-deploy", "k-stop", "k-revert", "k-invalid", "k-sload"}

// runtime code of the callable contracts
var runtimes = map[string]string{"k-stop": "00", "k-revert": "60006000fd", "k-invalid": "fe", "k-sload": "6000545000"}

func hexBytes(h string) []byte {
	h = strings.ReplaceAll(h, " ", "")
	out := make([]byte, len(h)/2)
	for i := range out {
		fmt.Sscanf(h[2*i:2*i+2], "%02x", &out[i])
	}
	return out
}

// intrinsic gas, computed here independently of the code: 21000 (+32000) + 4 per zero byte + 16 per other byte
func (p prog) intrinsic() int {
	g := 21000
	if p.create {
		g += 32000
	}
	for _, b := range hexBytes(p.data) {
		if b == 0 {
			g += 4
		} else {
			g += 16
		}
	}
	return g
}

type node struct {
	K     string `json:"k"`
	From  int    `json:"from,omitempty"`
	To    int    `json:"to,omitempty"`
	T     string `json:"t,omitempty"`
	Nonce int    `json:"nonce,omitempty"`
	Gas   int    `json:"gas,omitempty"`
	Price string `json:"price,omitempty"` // eth (legacy tx): gas price in wei ("" = 10^12 = 1 unibi)
	Cap   string `json:"cap,omitempty"`   // eth (dynamic-fee tx when set): gas fee cap in wei
	Tip   string `json:"tip,omitempty"`   // eth (dynamic-fee tx): gas tip cap in wei
	Ty    string `json:"ty,omitempty"`    // eth: "" legacy (type 0; dynamic-fee = type 2 when cap is set) | al = access-list tx (type 1, EIP-2930) with an empty list | al1 = … listing one address with one storage key
	Prog  string `json:"prog,omitempty"`  // eth: what the EVM is asked to do (see progs)
	Val   string `json:"val,omitempty"`   // eth: value in unibi ("" = 1)
	Bad   bool   `json:"bad,omitempty"`   // eth: tampered signature
	As    *int   `json:"as,omitempty"`    // eth: actor whose address is written into the unsigned From field
	G     int    `json:"g,omitempty"`
	C     []node `json:"c,omitempty"`
}

type txIn struct {
	Ext    string `json:"ext,omitempty"` // "" | evm | other
	Signer int    `json:"signer"`        // actor whose key signs the Cosmos tx (ignored for key none)
	Key    string `json:"key"`           // cosmos | eth | none
	Msgs   []node `json:"msgs"`
}

type caseIn struct {
	Txs []txIn `json:"txs"`
}

type accObs struct {
	Id   int    `json:"id"`
	Seq0 uint64 `json:"seq0"` // sequence before the tx
	DSeq int64  `json:"dseq"`
	DBal string `json:"dbal"`
}

type execObs struct {
	Used   uint64 `json:"used"`   // gas used as reported by EventEthereumTx
	Failed bool   `json:"failed"` // a VM error was reported
}

type txObs struct {
	Ok    bool      `json:"ok"`
	Fired []int     `json:"fired"` // pre-order indices (over all eth leaves of the tx) whose handler ran
	Exec  []execObs `json:"exec"`  // per fired handler
	Eth   []accObs `json:"eth"`
	DFee  string   `json:"dfee"` // fee collector delta (unibi)
	Log   string   `json:"-"`
}

type world struct {
	c        *Chain
	users    []*secp256k1.PrivKey
	eths     []evmtest.EthPrivKeyAcc
	contract sdk.AccAddress
	gov      sdk.AccAddress
	sink     sdk.AccAddress
	ethSink  gethcommon.Address
	ctrs     map[string]gethcommon.Address // callable contracts (k-*)
	codeID   uint64
	cases    int
}

func repoDir() string {
	if d := os.Getenv("VERIF_REPO"); d != "" {
		return d
	}
	return "/repo"
}

var reflectCode []byte
var worldCounter int

// newWorld starts a fresh chain and stores the reflect contract code once; beginCase gives every case its own
// accounts and contract instance (the wasm VM of a chain is never released, so a chain serves a batch of cases).
func newWorld(t *testing.T) *world {
	w := &world{c: NewChain(nil)}
	c := w.c
	c.BeginBlock(5 * time.Second)
	ctx := c.Ctx()
	w.sink = sdk.AccAddress([]byte("c02-sink____________"))
	w.ethSink = gethcommon.HexToAddress("0x00000000000000000000000000000000000C0002")
	w.gov = authtypes.NewModuleAddress(govtypes.ModuleName)
	if reflectCode == nil {
		bz, err := os.ReadFile(repoDir() + "/x/devgas/v1/keeper/testdata/reflect.wasm")
		if err != nil {
			t.Fatal(err)
		}
		reflectCode = bz
	}
	uploader := sdk.AccAddress([]byte("c02-uploader________"))
	store := &wasmtypes.MsgStoreCode{Sender: uploader.String(), WASMByteCode: reflectCode}
	rsp, err := c.App.MsgServiceRouter().Handler(store)(ctx, store)
	if err != nil {
		t.Fatal(err)
	}
	var sr wasmtypes.MsgStoreCodeResponse
	_ = c.App.AppCodec().Unmarshal(rsp.Data, &sr)
	w.codeID = sr.CodeID
	// the callable contracts: deployed by a throw-away Ethereum account through regular creation transactions
	dep := evmtest.NewEthPrivAcc()
	if err := c.Fund(dep.NibiruAddr, Unibi(1e12)); err != nil {
		t.Fatal(err)
	}
	w.ctrs = map[string]gethcommon.Address{}
	names := []string{"k-invalid", "k-revert", "k-sload", "k-stop"}
	for i, name := range names {
		rt := hexBytes(runtimes[name])
		// PUSHn <runtime> PUSH1 0 MSTORE PUSH1 n PUSH1 32-n RETURN
		init := append([]byte{byte(0x5f + len(rt))}, rt...)
		init = append(init, 0x60, 0x00, 0x52, 0x60, byte(len(rt)), 0x60, byte(32-len(rt)), 0xf3)
		msg, err := c.SignEth(dep, &evm.EvmTxArgs{Nonce: uint64(i), GasLimit: 200_000, GasPrice: big.NewInt(1_000_000_000_000), Input: init})
		if err != nil {
			t.Fatal(err)
		}
		if r := c.DeliverEth(msg); r.Code != 0 {
			t.Fatalf("deploy %s: %s", name, r.Log)
		}
		addr := crypto.CreateAddress(dep.EthAddr, uint64(i))
		if code := c.App.EvmKeeper.GetCode(c.Ctx(), gethcommon.BytesToHash(c.App.EvmKeeper.GetAccount(c.Ctx(), addr).CodeHash)); fmt.Sprintf("%x", code) != runtimes[name] {
			t.Fatalf("deploy %s: code %x", name, code)
		}
		w.ctrs[name] = addr
	}
	c.EndBlock()
	return w
}

func (w *world) beginCase(t *testing.T) {
	worldCounter++
	w.cases++
	c := w.c
	c.BeginBlock(5 * time.Second)
	ctx := c.Ctx()
	w.users, w.eths = nil, nil
	for i := 0; i < nUsers; i++ {
		k := secp256k1.GenPrivKeyFromSecret([]byte(fmt.Sprintf("c02-user-%d-%d", worldCounter, i)))
		w.users = append(w.users, k)
		if err := c.Fund(sdk.AccAddress(k.PubKey().Address()), Unibi(1e15)); err != nil {
			t.Fatal(err)
		}
	}
	for i := 0; i < nEth; i++ {
		a := evmtest.NewEthPrivAcc()
		w.eths = append(w.eths, a)
		fund := fundRich
		if idEth0+i == idPoor {
			fund = fundPoor
		}
		if err := c.Fund(a.NibiruAddr, Unibi(fund)); err != nil {
			t.Fatal(err)
		}
	}
	owner := w.addr(0)
	inst := &wasmtypes.MsgInstantiateContract{Sender: owner.String(), CodeID: w.codeID, Label: fmt.Sprintf("reflect-%d", worldCounter), Msg: []byte(`{}`)}
	rsp, err := c.App.MsgServiceRouter().Handler(inst)(ctx, inst)
	if err != nil {
		t.Fatal(err)
	}
	var ir wasmtypes.MsgInstantiateContractResponse
	_ = c.App.AppCodec().Unmarshal(rsp.Data, &ir)
	w.contract = sdk.MustAccAddressFromBech32(ir.Address)
	if err := c.Fund(w.contract, Unibi(1e13)); err != nil {
		t.Fatal(err)
	}
	c.EndBlock()
}

func (w *world) addr(id int) sdk.AccAddress {
	switch {
	case id >= 0 && id < nUsers:
		return sdk.AccAddress(w.users[id].PubKey().Address())
	case id == idContract:
		return w.contract
	case id == idGov:
		return w.gov
	case id >= idEth0 && id < idEth0+nEth:
		return w.eths[id-idEth0].NibiruAddr
	}
	return sdk.AccAddress([]byte(fmt.Sprintf("c02-unknown-%08d", id)))
}

var typeURL = map[string]string{
	"eth":   "/eth.evm.v1.MsgEthereumTx",
	"exec":  "/cosmos.authz.v1beta1.MsgExec",
	"wasm":  "/cosmwasm.wasm.v1.MsgExecuteContract",
	"send":  "/cosmos.bank.v1beta1.MsgSend",
	"gov":   "/cosmos.gov.v1.MsgSubmitProposal",
	"grant": "/cosmos.authz.v1beta1.MsgGrant",
}

type built struct {
	hashes []string // eth tx hashes in pre-order
	fee    *big.Int // Σ ⌊gas × effective price / 10^12⌋ over TOP-LEVEL eth leaves (unibi)
	gas    uint64
}

// prices of an eth node in wei per gas: the nominal one (gas price / fee cap: what the sender-balance check uses), the
// tip (dynamic-fee txs), and the effective one, never below the base fee (what is deducted and refunded)
func prices(n node) (nominal, tip, eff *big.Int, err error) {
	base := big.NewInt(1_000_000_000_000)
	if n.Cap != "" {
		cp, ok1 := new(big.Int).SetString(n.Cap, 10)
		tp, ok2 := new(big.Int).SetString(n.Tip, 10)
		if !ok1 || !ok2 {
			return nil, nil, nil, fmt.Errorf("bad cap/tip")
		}
		nominal, tip = cp, tp
		eff = new(big.Int).Add(base, tp)
		if eff.Cmp(cp) > 0 {
			eff = new(big.Int).Set(cp)
		}
	} else {
		nominal = new(big.Int).Set(base)
		if n.Price != "" {
			var ok bool
			if nominal, ok = new(big.Int).SetString(n.Price, 10); !ok {
				return nil, nil, nil, fmt.Errorf("bad price")
			}
		}
		eff = new(big.Int).Set(nominal)
	}
	if eff.Cmp(base) < 0 {
		eff = base
	}
	return nominal, tip, eff, nil
}

func (w *world) build(n node, top bool, b *built) (sdk.Msg, error) {
	switch n.K {
	case "eth":
		i := n.From - idEth0
		if i < 0 || i >= nEth {
			return nil, fmt.Errorf("eth from %d", n.From)
		}
		pg, ok := progs[n.Prog]
		if !ok {
			return nil, fmt.Errorf("eth prog %q", n.Prog)
		}
		base := big.NewInt(1_000_000_000_000) // evm.BASE_FEE_WEI, written out: the harness prices independently of the code
		val := big.NewInt(1)
		if n.Val != "" {
			if val, ok = new(big.Int).SetString(n.Val, 10); !ok || val.Sign() < 0 {
				return nil, fmt.Errorf("bad val")
			}
		}
		args := &evm.EvmTxArgs{Nonce: uint64(n.Nonce), GasLimit: uint64(n.Gas), Amount: new(big.Int).Mul(val, base), Input: hexBytes(pg.data)}
		if !pg.create {
			to := w.ethSink
			if pg.to != "sink" {
				to = w.ctrs[pg.to]
			}
			args.To = &to
		}
		nominal, tip, eff, err := prices(n)
		if err != nil {
			return nil, err
		}
		if n.Cap != "" {
			args.GasFeeCap, args.GasTipCap = nominal, tip
		} else {
			args.GasPrice = nominal
		}
		switch n.Ty {
		case "":
		case "al":
			args.Accesses = &gethcore.AccessList{}
		case "al1":
			args.Accesses = &gethcore.AccessList{{Address: w.ethSink, StorageKeys: []gethcommon.Hash{{31: 1}}}}
		default:
			return nil, fmt.Errorf("eth ty %q", n.Ty)
		}
		if n.Ty != "" && (n.Cap != "" || n.Bad) {
			return nil, fmt.Errorf("eth ty %q with cap / bad", n.Ty)
		}
		msg, err := w.c.SignEth(w.eths[i], args)
		if err != nil {
			return nil, err
		}
		if n.Bad {
			// tamper with the signature: flip a bit of S
			d, err := evm.UnpackTxData(msg.Data)
			if err != nil {
				return nil, err
			}
			lt, isLegacy := d.(*evm.LegacyTx)
			if !isLegacy {
				return nil, fmt.Errorf("unexpected tx data %T", d)
			}
			lt.S[len(lt.S)-1] ^= 1
			any, err := evm.PackTxData(lt)
			if err != nil {
				return nil, err
			}
			msg.Data = any
			msg.Hash = msg.AsTransaction().Hash().Hex()
		}
		msg.From = ""
		if n.As != nil {
			msg.From = gethcommon.BytesToAddress(w.addr(*n.As)).Hex()
		}
		b.hashes = append(b.hashes, msg.AsTransaction().Hash().Hex())
		if top {
			// the UNSIGNED wrapper (AuthInfo fee / gas limit) is filled in the way the node's JSON-RPC layer does it
			// (MsgEthereumTx.BuildTx: the code's own EffectiveFeeWei): anybody relaying the signed bytes can and will
			// choose the value EthValidateBasic accepts.  What the signer is CHARGED is judged independently (Pb prices
			// with the effective price written out in tools/props/c02.py)
			_ = eff
			td, err := evm.UnpackTxData(msg.Data)
			if err != nil {
				return nil, err
			}
			b.fee.Add(b.fee, evm.WeiToNative(td.EffectiveFeeWei(base)))
			b.gas += uint64(n.Gas)
		}
		return msg, nil
	case "send":
		return banktypes.NewMsgSend(w.addr(n.From), w.sink, Unibi(1)), nil
	case "grant":
		u, ok := typeURL[n.T]
		if !ok {
			return nil, fmt.Errorf("grant type %q", n.T)
		}
		return authz.NewMsgGrant(w.addr(n.From), w.addr(n.To), authz.NewGenericAuthorization(u), nil)
	case "exec":
		ms, err := w.buildAll(n.C, false, b)
		if err != nil {
			return nil, err
		}
		e := authz.NewMsgExec(w.addr(n.G), ms)
		return &e, nil
	case "wasm":
		ms, err := w.buildAll(n.C, false, b)
		if err != nil {
			return nil, err
		}
		var parts []string
		for _, m := range ms {
			bz, err := proto.Marshal(m)
			if err != nil {
				return nil, err
			}
			parts = append(parts, fmt.Sprintf(`{"stargate":{"type_url":"%s","value":"%s"}}`, sdk.MsgTypeURL(m), base64.StdEncoding.EncodeToString(bz)))
		}
		payload := `{"reflect_msg":{"msgs":[` + strings.Join(parts, ",") + `]}}`
		return &wasmtypes.MsgExecuteContract{Sender: w.addr(n.G).String(), Contract: w.contract.String(), Msg: []byte(payload)}, nil
	case "gov":
		ms, err := w.buildAll(n.C, false, b)
		if err != nil {
			return nil, err
		}
		return govv1.NewMsgSubmitProposal(ms, Unibi(10_000_000), w.addr(n.G).String(), "m", "t", "s")
	}
	return nil, fmt.Errorf("unknown node kind %q", n.K)
}

func (w *world) buildAll(ns []node, top bool, b *built) ([]sdk.Msg, error) {
	var out []sdk.Msg
	for _, n := range ns {
		m, err := w.build(n, top, b)
		if err != nil {
			return nil, err
		}
		out = append(out, m)
	}
	return out, nil
}

type snap struct {
	seq []uint64
	bal []sdkmath.Int
	fee sdkmath.Int
}

func (w *world) snapshot() snap {
	ctx := w.c.Ctx()
	s := snap{}
	for _, e := range w.eths {
		var q uint64
		if acc := w.c.App.AccountKeeper.GetAccount(ctx, e.NibiruAddr); acc != nil {
			q = acc.GetSequence()
		}
		s.seq = append(s.seq, q)
		s.bal = append(s.bal, w.c.App.BankKeeper.GetBalance(ctx, e.NibiruAddr, "unibi").Amount)
	}
	s.fee = w.c.App.BankKeeper.GetBalance(ctx, authtypes.NewModuleAddress(authtypes.FeeCollectorName), "unibi").Amount
	return s
}

func (w *world) key(tx txIn) (cryptotypes.PrivKey, bool) {
	switch tx.Key {
	case "cosmos":
		if tx.Signer >= 0 && tx.Signer < nUsers {
			return w.users[tx.Signer], true
		}
	case "eth":
		if tx.Signer >= idEth0 && tx.Signer < idEth0+nEth {
			return w.eths[tx.Signer-idEth0].PrivKey, true
		}
	}
	return nil, false
}

func (w *world) runTx(tx txIn) txObs {
	c := w.c
	c.BeginBlock(5 * time.Second)
	before := w.snapshot()
	o := txObs{Fired: []int{}, Exec: []execObs{}, Eth: []accObs{}}
	b := &built{fee: new(big.Int)}
	msgs, err := w.buildAll(tx.Msgs, true, b)
	var r abci.ResponseDeliverTx
	if err != nil {
		r = abci.ResponseDeliverTx{Code: 9999, Log: "build: " + err.Error()}
	} else {
		var ext *codectypes.Any
		switch tx.Ext {
		case "evm":
			ext, _ = codectypes.NewAnyWithValue(&evm.ExtensionOptionsEthereumTx{})
		case "other":
			ext, _ = codectypes.NewAnyWithValue(&banktypes.MsgSend{})
		}
		fee, gas := Unibi(1_000_000), uint64(40_000_000)
		if tx.Ext == "evm" {
			fee, gas = sdk.NewCoins(sdk.NewCoin("unibi", sdkmath.NewIntFromBigInt(b.fee))), b.gas
			if b.fee.Sign() == 0 {
				fee = sdk.NewCoins()
			}
		}
		if p := Recover(func() {
			if k, ok := w.key(tx); ok {
				r = txutil.Deliver(c, k, gas, fee, ext, msgs...)
			} else {
				// unsigned transaction (what the JSON-RPC layer builds for Ethereum txs)
				tb := c.TxCfg.NewTxBuilder()
				if ext != nil {
					tb.(authtx.ExtensionOptionsTxBuilder).SetExtensionOptions(ext)
				}
				if err := tb.SetMsgs(msgs...); err != nil {
					r = abci.ResponseDeliverTx{Code: 9999, Log: "build: " + err.Error()}
					return
				}
				tb.SetFeeAmount(fee)
				tb.SetGasLimit(gas)
				bz, err := c.TxCfg.TxEncoder()(tb.GetTx())
				if err != nil {
					r = abci.ResponseDeliverTx{Code: 9999, Log: "encode: " + err.Error()}
					return
				}
				r = c.App.DeliverTx(abci.RequestDeliverTx{Tx: bz})
			}
		}); p != "" {
			r = abci.ResponseDeliverTx{Code: 9998, Log: "panic: " + p}
		}
	}
	o.Ok = r.Code == 0
	o.Log = r.Log
	if o.Ok {
		fired := map[string]execObs{}
		for _, a := range EventAttrs(r.Events, "eth.evm.v1.EventEthereumTx") {
			var e execObs
			fmt.Sscanf(strings.Trim(a["gas_used"], `"`), "%d", &e.Used)
			e.Failed = strings.Trim(a["vm_error"], `"`) != ""
			fired[strings.ToLower(strings.Trim(a["eth_hash"], `"`))] = e
		}
		for i, h := range b.hashes {
			if _, ok := fired[strings.ToLower(h)]; ok {
				o.Fired = append(o.Fired, i)
			}
		}
		sort.Ints(o.Fired)
		for _, i := range o.Fired {
			o.Exec = append(o.Exec, fired[strings.ToLower(b.hashes[i])])
		}
	}
	after := w.snapshot()
	for i := range w.eths {
		o.Eth = append(o.Eth, accObs{Id: idEth0 + i, Seq0: before.seq[i], DSeq: int64(after.seq[i]) - int64(before.seq[i]), DBal: after.bal[i].Sub(before.bal[i]).String()})
	}
	o.DFee = after.fee.Sub(before.fee).String()
	c.EndBlock()
	return o
}

// extra intrinsic gas of the access list: 2400 per address + 1900 per storage key (written out, independent of the code)
func tyIntrinsic(ty string) int {
	if ty == "al1" {
		return 2400 + 1900
	}
	return 0
}

var shared *world

func runCase(t *testing.T, ci caseIn, fresh bool) []txObs {
	if shared == nil || fresh || shared.cases >= 40 {
		shared = newWorld(t)
	}
	w := shared
	w.beginCase(t)
	var obs []txObs
	for _, tx := range ci.Txs {
		obs = append(obs, w.runTx(tx))
	}
	return obs
}

// ---------------------------------------------------------------- generator

type gen struct {
	r   *Rng
	seq map[int]int   // believed sequence of every eth account (steers generation only)
	bal map[int]int64 // believed balance of every eth account (steers generation only)
}

func newGen(r *Rng) *gen {
	g := &gen{r: r, seq: map[int]int{}, bal: map[int]int64{}}
	for i := 0; i < nEth; i++ {
		g.bal[idEth0+i] = fundRich
	}
	g.bal[idPoor] = fundPoor
	return g
}

// execShape turns a plain transfer into a contract creation / contract call / transfer with calldata or a large
// value, with a gas limit around what it needs, so that executions end in every way: success, REVERT, invalid
// opcode, out of gas (in the code, at the code deposit), insufficient balance for the value (before the EVM
// touches the nonce), gas limit below the intrinsic gas (the message fails as a whole)
func (g *gen) execShape(n *node) {
	r := g.r
	pn := progNames[r.Intn(len(progNames))]
	if r.Chance(1, 7) {
		pn = ""
	}
	pg := progs[pn]
	intr := pg.intrinsic() + tyIntrinsic(n.Ty)
	n.Prog = pn
	switch r.Pick(6, 3, 2, 3, 1) {
	case 0:
		n.Gas = intr + pg.exec + []int{0, 1, 1000, 40000, 150000}[r.Intn(5)]
	case 1:
		n.Gas = intr + pg.exec/2
	case 2:
		n.Gas = intr
	case 3:
		n.Gas = []int{60000, 100000, 200000}[r.Intn(3)]
	default:
		n.Gas = intr - 1 - r.Intn(2000)
	}
	if n.From == idPoor && int64(n.Gas) > g.bal[idPoor]/2 && g.bal[idPoor]/2 > int64(intr+pg.exec) {
		n.Gas = intr + pg.exec + r.Intn(int(g.bal[idPoor]/2)-intr-pg.exec+1)
	}
}

// valueShape picks the value (unibi) relative to what the sender is believed to own: nothing, little, a good part, and
// around the two limits that matter — `room` = the largest value the sender-balance check of the ante chain lets
// through (it prices the gas at the NOMINAL price) and `left` = what remains once the gas has been deducted (at the
// effective price, never below the base fee).  left < value <= room: admitted, then refused by the EVM before it touches
// the nonce.
func (g *gen) valueShape(n *node) {
	r := g.r
	shape := r.Pick(3, 3, 2, 3, 3, 5, 3, 1)
	if shape == 5 && r.Chance(3, 4) {
		// a gas price below the base fee opens the window between the two limits
		n.Cap, n.Tip = "", "" // (an access-list tx stays one: type 1 is priced by gasPrice as well)
		n.Price = []string{"0", "1", "500000000000", "999999999999"}[r.Intn(4)]
	}
	nominal, _, eff, err := prices(*n)
	if err != nil {
		return
	}
	wei := big.NewInt(1_000_000_000_000)
	gas := big.NewInt(int64(n.Gas))
	pre := new(big.Int).Mul(eff, gas)
	pre.Quo(pre, wei)
	nom := new(big.Int).Mul(nominal, gas)
	nom.Add(nom, big.NewInt(999_999_999_999)).Quo(nom, wei)
	b := g.bal[n.From]
	room, left := b-nom.Int64(), b-pre.Int64()
	v := int64(0)
	switch shape {
	case 0:
		v = 0
	case 1:
		v = 1
	case 2:
		v = 1000
	case 3:
		v = left / 2
	case 4:
		v = b / 5 * 3 // twice in one transaction: the second one cannot be paid any more
	case 5:
		if room > left {
			v = left + 1 + int64(r.Intn(int(min64(room-left, 1<<30))))
		} else {
			v = left
		}
	case 6:
		v = left - int64(r.Intn(3))
	default:
		v = room + 1 + int64(r.Intn(1000))
	}
	if v < 0 {
		v = 0
	}
	n.Val = fmt.Sprintf("%d", v)
	if v == 1 {
		n.Val = ""
	}
}

func min64(a, b int64) int64 {
	if a < b {
		return a
	}
	return b
}

// admit predicts (for steering only) whether the EVM ante chain admits the messages of one EVM transaction and, if
// so, updates the believed sequences and balances with what ante handler and msg server do
func (g *gen) admit(ms []node) bool {
	wei := big.NewInt(1_000_000_000_000)
	bal := map[int]int64{}
	for k, v := range g.bal {
		bal[k] = v
	}
	type pm struct {
		n       node
		pg      prog
		val     int64
		prepay  int64
		effWei  *big.Int
		nominal *big.Int
	}
	var ps []pm
	for _, n := range ms {
		nominal, _, eff, err := prices(n)
		pg, ok := progs[n.Prog]
		if err != nil || !ok {
			return false
		}
		val := int64(1)
		if n.Val != "" {
			fmt.Sscanf(n.Val, "%d", &val)
		}
		f := new(big.Int).Mul(eff, big.NewInt(int64(n.Gas)))
		ps = append(ps, pm{n, pg, val, f.Quo(f, wei).Int64(), eff, nominal})
		// VerifyEthAcc: balance (wei) >= gas × nominal price + value, against the balance before the tx
		cost := new(big.Int).Mul(nominal, big.NewInt(int64(n.Gas)))
		cost.Add(cost, new(big.Int).Mul(big.NewInt(val), wei))
		if new(big.Int).Mul(big.NewInt(g.bal[n.From]), wei).Cmp(cost) < 0 {
			return false
		}
	}
	for _, p := range ps {
		if bal[p.n.From] < p.prepay {
			return false
		}
		bal[p.n.From] -= p.prepay
	}
	after := map[int]int64{}
	for k, v := range bal {
		after[k] = v
	}
	failed := false
	for _, p := range ps {
		intr := p.pg.intrinsic() + tyIntrinsic(p.n.Ty)
		if p.n.Gas < intr {
			failed = true
			break
		}
		used, ok := intr+p.pg.exec, p.pg.out == "stop"
		switch {
		case after[p.n.From] < p.val:
			used, ok = intr, false
		case p.n.Gas-intr < p.pg.exec || p.pg.out == "invalid":
			used, ok = p.n.Gas, false
		}
		rf := new(big.Int).Mul(p.effWei, big.NewInt(int64(p.n.Gas-used)))
		after[p.n.From] += rf.Quo(rf, wei).Int64()
		if ok {
			after[p.n.From] -= p.val
		}
	}
	if failed {
		after = bal
	}
	g.bal = after
	for _, p := range ps {
		g.seq[p.n.From]++
	}
	return true
}

func (g *gen) ethLeaf(from int) node {
	n := node{K: "eth", From: from, Nonce: g.seq[from], Gas: 21000}
	switch g.r.Pick(12, 2, 2, 1, 1) {
	case 1:
		n.Nonce += 1 + g.r.Intn(3) // gap
	case 2:
		if n.Nonce > 0 {
			n.Nonce -= 1 // replay / rewind attempt
		} else {
			n.Nonce = 2
		}
	case 3:
		n.Gas = 20000 // below intrinsic gas
	case 4:
		n.Bad = true
	}
	if g.r.Chance(2, 5) && n.Gas == 21000 {
		n.Gas = []int{50000, 30000, 100000, 250000}[g.r.Intn(4)] // leftover gas to refund
		if from == idPoor && n.Gas > 100000 {
			n.Gas = 100000
		}
	}
	// transaction type: legacy / access-list (EIP-2930) / dynamic-fee (chosen with the price below)
	isAL := !n.Bad && g.r.Chance(1, 3)
	if isAL {
		n.Ty = []string{"al", "al", "al1"}[g.r.Intn(3)]
		if n.Gas == 21000 {
			n.Gas += tyIntrinsic(n.Ty)
		}
	}
	// what the EVM is asked to do: creations / contract calls / large values, ending in every way
	shaped := !n.Bad && n.Gas != 20000 && (g.r.Chance(3, 5) || from == idPoor && g.r.Chance(2, 3))
	if shaped {
		g.execShape(&n)
	}
	// gas price: mostly NOT a whole number of unibi (10^12 wei) per gas; legacy or dynamic-fee
	if isAL {
		// every type at prices below / at / above the base fee, down to 0 and 1 wei
		n.Price = []string{"0", "1", "500000000000", "999999999999", "1000000000000", "1000000000001", "1999999999999", "3000000000007", ""}[g.r.Intn(9)]
	} else if !n.Bad {
		switch g.r.Pick(5, 7, 5) {
		case 1:
			n.Price = []string{"1999999999999", "1000000000001", "1500000000000", "3000000000007", "12345678901234",
				"2000000000000", "999999999999", "1000000000000", "0", "1", "500000000000"}[g.r.Intn(11)]
			if from == idPoor && g.r.Chance(1, 2) {
				// below the base fee: the balance check prices the gas lower than the deduction does
				n.Price = []string{"0", "1", "500000000000", "999999999999"}[g.r.Intn(4)]
			}
		case 2:
			ct := [][2]string{{"5000000000000", "1"}, {"1999999999999", "999999999999"}, {"2500000000001", "999999999999"},
				{"1000000000000", "0"}, {"7000000000000", "2000000000003"}, {"1000000000001", "5"},
				{"1", "0"}, {"1", "1"}, {"0", "0"}, {"500000000000", "3"}, {"999999999999", "999999999999"}}[g.r.Intn(11)]
			n.Cap, n.Tip = ct[0], ct[1]
		}
	}
	if shaped {
		g.valueShape(&n)
	}
	return n
}

func signerOf(n node) int {
	switch n.K {
	case "eth", "send", "grant":
		return n.From
	}
	return n.G
}

func (g *gen) actor() int {
	switch g.r.Pick(8, 4, 2, 1) {
	case 0:
		return g.r.Intn(nUsers)
	case 1:
		return idEth0 + g.r.Intn(nEth)
	case 2:
		return idContract
	}
	return idGov
}

// wrap puts cur under depth wrappers, mostly with plausible authority for `signer`
func (g *gen) wrap(cur node, depth, signer int, needs *[][3]interface{}) node {
	r := g.r
	for d := 0; d < depth; d++ {
		inner := signerOf(cur)
		sibs := []node{cur}
		if r.Chance(1, 5) {
			s := node{K: "send", From: inner}
			if r.Chance(1, 2) {
				sibs = []node{s, cur}
			} else {
				sibs = []node{cur, s}
			}
		}
		switch r.Pick(10, 4, 2) {
		case 0:
			gr := inner
			if r.Chance(2, 3) {
				gr = signer
			}
			if cur.K == "eth" && cur.As != nil && r.Chance(3, 4) {
				gr = *cur.As
			}
			if r.Chance(1, 8) {
				gr = g.actor()
			}
			if gr != inner && !r.Chance(1, 4) {
				*needs = append(*needs, [3]interface{}{inner, gr, cur.K})
			}
			cur = node{K: "exec", G: gr, C: sibs}
		case 1:
			s := 0
			if r.Chance(1, 8) {
				s = r.Intn(nUsers)
			}
			cur = node{K: "wasm", G: s, C: sibs}
		default:
			cur = node{K: "gov", G: signer, C: sibs}
		}
	}
	return cur
}

func (g *gen) genCase() caseIn {
	r := g.r
	ci := caseIn{}
	ntx := r.Range(3, 8)
	var evmTxs []txIn // Ethereum transactions generated so far (their signed bytes can be delivered again by anyone)
	for i := 0; i < ntx; i++ {
		if len(evmTxs) > 0 && r.Chance(1, 7) {
			// the very same signed bytes again
			ci.Txs = append(ci.Txs, evmTxs[r.Intn(len(evmTxs))])
			continue
		}
		switch r.Pick(12, 9, 2, 2, 1) {
		case 0:
			// a regular Ethereum transaction (1-3 messages) through the EVM route
			tx := txIn{Ext: "evm", Key: "none", Signer: -1}
			nm := r.Pick(6, 2, 1) + 1
			local := map[int]int{}
			allOK := true
			prev := -1
			for j := 0; j < nm; j++ {
				from := idEth0 + r.Intn(nEth)
				if prev >= 0 && r.Chance(1, 2) {
					from = prev // an earlier message of the same sender spends what a later one counts on
				}
				prev = from
				save := g.seq[from]
				g.seq[from] += local[from]
				l := g.ethLeaf(from)
				g.seq[from] = save
				if r.Chance(1, 15) {
					as := from
					if r.Chance(1, 2) {
						as = r.Intn(nUsers)
					}
					l.As = &as
				}
				if l.Bad || l.As != nil || l.Nonce != save+local[from] {
					allOK = false
				}
				local[from]++
				tx.Msgs = append(tx.Msgs, l)
			}
			if r.Chance(1, 10) {
				tx.Msgs = append(tx.Msgs, node{K: "send", From: r.Intn(nUsers)})
				allOK = false
			}
			if r.Chance(1, 12) {
				tx.Key, tx.Signer = "cosmos", r.Intn(nUsers)
				allOK = false
			}
			if allOK {
				g.admit(tx.Msgs)
			}
			ci.Txs = append(ci.Txs, tx)
			evmTxs = append(evmTxs, tx)
			if r.Chance(1, 6) {
				ci.Txs = append(ci.Txs, tx) // delivered twice in a row
			}
		case 1:
			// a Cosmos transaction carrying an Ethereum message somewhere in a message tree
			signer := r.Intn(nUsers)
			if r.Chance(1, 2) {
				signer = 0
			}
			tx := txIn{Key: "cosmos", Signer: signer}
			var needs [][3]interface{}
			nm := r.Pick(8, 2, 1) + 1
			for j := 0; j < nm; j++ {
				var leaf node
				switch r.Pick(10, 2, 2) {
				case 0:
					leaf = g.ethLeaf(idEth0 + r.Intn(nEth))
					leaf.Bad = leaf.Bad && r.Chance(1, 2)
					if r.Chance(2, 5) {
						// the unsigned From field names somebody else: the tx signer (mostly), the contract, anyone
						as := signer
						switch r.Pick(6, 2, 1) {
						case 1:
							as = idContract
						case 2:
							as = g.actor()
						}
						leaf.As = &as
					}
				case 1:
					leaf = node{K: "send", From: signer}
				default:
					leaf = node{K: "grant", From: signer, To: (signer + 1) % nUsers, T: []string{"eth", "exec", "send", "wasm"}[r.Intn(4)]}
				}
				t := g.wrap(leaf, r.Pick(2, 5, 5, 3, 2, 1), signer, &needs)
				if signerOf(t) != signer && t.K != "eth" && !r.Chance(1, 8) {
					if !r.Chance(1, 6) {
						needs = append(needs, [3]interface{}{signerOf(t), signer, t.K})
					}
					t = node{K: "exec", G: signer, C: []node{t}}
				}
				tx.Msgs = append(tx.Msgs, t)
			}
			for _, nd := range needs {
				from, to, k := nd[0].(int), nd[1].(int), nd[2].(string)
				if from == to {
					continue
				}
				switch {
				case from >= 0 && from < nUsers:
					ci.Txs = append(ci.Txs, txIn{Key: "cosmos", Signer: from, Msgs: []node{{K: "grant", From: from, To: to, T: k}}})
				case from == idContract:
					ci.Txs = append(ci.Txs, txIn{Key: "cosmos", Signer: 0, Msgs: []node{{K: "wasm", G: 0, C: []node{{K: "grant", From: idContract, To: to, T: k}}}}})
				case from >= idEth0:
					// the only way an Ethereum account could grant: a Cosmos tx signed with its eth key (must be rejected),
					// wrapped so that the top-level authz guard does not see the grant type
					ci.Txs = append(ci.Txs, txIn{Key: "eth", Signer: from, Msgs: []node{{K: "exec", G: from, C: []node{{K: "grant", From: from, To: to, T: k}}}}})
				}
			}
			if r.Chance(1, 15) {
				tx.Ext = []string{"evm", "other"}[r.Intn(2)]
			}
			ci.Txs = append(ci.Txs, tx)
		case 2:
			// Cosmos transaction signed with an eth_secp256k1 key
			e := idEth0 + r.Intn(nEth)
			inner := g.ethLeaf(e)
			var needs [][3]interface{}
			t := g.wrap(inner, r.Pick(1, 3, 4, 2), e, &needs)
			ci.Txs = append(ci.Txs, txIn{Key: "eth", Signer: e, Msgs: []node{t}})
		case 3:
			// unknown extension option
			ci.Txs = append(ci.Txs, txIn{Ext: "other", Key: "none", Signer: -1, Msgs: []node{g.ethLeaf(idEth0 + r.Intn(nEth))}})
		default:
			// bare MsgEthereumTx in an unsigned / Cosmos-signed tx without extension option
			tx := txIn{Key: "none", Signer: -1, Msgs: []node{g.ethLeaf(idEth0 + r.Intn(nEth))}}
			if r.Chance(1, 2) {
				tx.Key, tx.Signer = "cosmos", r.Intn(nUsers)
			}
			ci.Txs = append(ci.Txs, tx)
		}
	}
	return ci
}

func openers() []caseIn {
	eth := func(from, nonce int) node { return node{K: "eth", From: from, Nonce: nonce, Gas: 21000} }
	ethAs := func(as, from, nonce int) node { return node{K: "eth", From: from, Nonce: nonce, Gas: 50000, As: &as} }
	ex := func(g int, c ...node) node { return node{K: "exec", G: g, C: c} }
	wa := func(c ...node) node { return node{K: "wasm", G: 0, C: c} }
	chain := func(n, g int, inner node) node {
		for i := 0; i < n; i++ {
			inner = ex(g, inner)
		}
		return inner
	}
	evm := func(ms ...node) txIn { return txIn{Ext: "evm", Key: "none", Signer: -1, Msgs: ms} }
	cos := func(s int, ms ...node) txIn { return txIn{Key: "cosmos", Signer: s, Msgs: ms} }
	big := node{K: "eth", From: 20, Nonce: 1, Gas: 50000}
	ex2 := func(from, nonce int, prog string, gas int, val, price string) node {
		return node{K: "eth", From: from, Nonce: nonce, Gas: gas, Prog: prog, Val: val, Price: price}
	}
	return []caseIn{
		// the regular path, replay, gap, two messages n,n+1 and n,n
		{Txs: []txIn{evm(eth(20, 0)), evm(eth(20, 0)), evm(eth(20, 5)), evm(eth(20, 1), eth(20, 2)), evm(eth(20, 3), eth(20, 3)), evm(eth(20, 3), eth(21, 0))}},
		// probe22: exec[eth] rejected by the guard, exec[exec[eth]] passes the ante and dies in authz dispatch
		{Txs: []txIn{evm(eth(20, 0)), cos(1, ex(1, big)), cos(1, ex(1, ex(1, big))), cos(1, ex(1, ex(1, ex(1, ex(1, big))))), cos(1, big), evm(big)}},
		// grants for MsgEthereumTx: top-level grant rejected by the guard, nested grant passes; still no authority over the eth signer
		{Txs: []txIn{cos(1, node{K: "grant", From: 1, To: 2, T: "eth"}), cos(1, ex(1, node{K: "grant", From: 1, To: 2, T: "eth"})),
			cos(2, ex(2, ex(2, eth(20, 0)))), cos(2, ex(2, ex(1, eth(20, 0))))}},
		// wasm dispatch: eth refused at the handler, exec[eth] under wasm needs a grant from the eth signer
		{Txs: []txIn{cos(0, wa(eth(20, 0))), cos(0, wa(ex(idContract, eth(20, 0)))), cos(0, ex(0, wa(ex(idContract, ex(idContract, eth(20, 0))))))}},
		// gov proposal carrying eth: signer is not the gov account
		{Txs: []txIn{cos(1, node{K: "gov", G: 1, C: []node{eth(20, 0)}}), cos(1, node{K: "gov", G: 1, C: []node{ex(idGov, eth(20, 0))}})}},
		// Cosmos transactions signed with an eth_secp256k1 key (Hsig probe)
		{Txs: []txIn{{Key: "eth", Signer: 20, Msgs: []node{ex(20, ex(20, eth(20, 0)))}}, {Key: "eth", Signer: 20, Msgs: []node{{K: "send", From: 20}}},
			{Key: "eth", Signer: 20, Msgs: []node{ex(20, node{K: "grant", From: 20, To: 1, T: "eth"})}}, cos(1, ex(1, ex(1, eth(20, 0)))), evm(eth(20, 0))}},
		// the unsigned From field naming the outer signer / grantee / contract (GetSigners must not read it)
		{Txs: []txIn{evm(eth(20, 0)), evm(eth(20, 1)), cos(1, ex(1, ex(1, ethAs(1, 20, 0)))), cos(1, ex(1, ethAs(1, 20, 0))), cos(1, ethAs(1, 20, 0)),
			cos(0, wa(ex(idContract, ethAs(idContract, 20, 0)))), cos(0, wa(ethAs(idContract, 20, 0))), cos(2, ex(2, ex(2, ex(2, ethAs(2, 21, 0))))),
			evm(ethAs(20, 20, 2)), evm(eth(20, 2))}},
		// deep chains: exec^8 / exec^12 around somebody else's Ethereum message, with and without the From field
		{Txs: []txIn{evm(eth(20, 0)), cos(1, chain(8, 1, eth(20, 0))), cos(1, chain(12, 1, ethAs(1, 20, 0))), cos(0, wa(chain(6, idContract, ethAs(idContract, 20, 0)))),
			{Key: "eth", Signer: 20, Msgs: []node{chain(9, 20, eth(20, 1))}}, evm(eth(20, 1))}},
		// gas prices that are not whole unibi per gas, generous gas limits, several payers in one transaction
		{Txs: []txIn{evm(node{K: "eth", From: 20, Nonce: 0, Gas: 30000, Price: "1999999999999"}),
			evm(node{K: "eth", From: 20, Nonce: 1, Gas: 21000, Price: "3000000000000"}, node{K: "eth", From: 21, Nonce: 0, Gas: 100000, Price: "1999999999999"}),
			evm(node{K: "eth", From: 22, Nonce: 0, Gas: 250000, Cap: "5000000000000", Tip: "999999999999"}, node{K: "eth", From: 20, Nonce: 2, Gas: 50000, Price: "1000000000001"},
				node{K: "eth", From: 21, Nonce: 1, Gas: 21000, Cap: "1999999999999", Tip: "999999999999"}),
			evm(node{K: "eth", From: 20, Nonce: 3, Gas: 100000, Price: "999999999999"}), cos(1, ex(1, ex(1, node{K: "eth", From: 20, Nonce: 0, Gas: 100000, Price: "1999999999999"})))}},
		// executions that fail at different points; every admitted message consumes its nonce exactly once and the same
		// signed bytes are never admitted again.  Creation with a value by an account that can pay the value OR the
		// gas prepayment at the base fee but not both (gas price below the base fee: the balance check prices the gas
		// lower than the deduction does), delivered three times; REVERTing / aborting / out-of-gas creations and calls
		{Txs: []txIn{evm(ex2(idPoor, 0, "c-stop", 100000, "150000", "0")), evm(ex2(idPoor, 0, "c-stop", 100000, "150000", "0")),
			evm(ex2(idPoor, 1, "c-deploy", 60000, "0", "1")), evm(ex2(idPoor, 0, "c-stop", 100000, "150000", "0")),
			evm(ex2(idPoor, 2, "k-revert", 30000, "1", "")), evm(ex2(idPoor, 1, "c-deploy", 60000, "0", "1"))}},
		{Txs: []txIn{evm(ex2(20, 0, "c-revert", 100000, "1000", "")), evm(ex2(20, 1, "c-invalid", 60000, "0", "1999999999999")),
			evm(ex2(20, 2, "c-deploy", 53688, "", "")), evm(ex2(20, 3, "c-deploy", 54206, "", "")), evm(ex2(20, 4, "k-sload", 22000, "0", "")),
			evm(ex2(20, 5, "k-invalid", 50000, "1000", "")), evm(ex2(20, 6, "k-stop", 21000, "5", "")), evm(ex2(20, 7, "t-data", 21040, "0", "")),
			evm(ex2(20, 3, "c-deploy", 54206, "", "")), evm(ex2(20, 8, "c-stop", 53003, "0", ""))}},
		// an earlier message of the same transaction spends what a later creation / call counts on
		{Txs: []txIn{evm(ex2(21, 0, "", 21000, "600000000000000", ""), ex2(21, 1, "c-stop", 80000, "600000000000000", "")),
			evm(ex2(21, 0, "", 21000, "600000000000000", ""), ex2(21, 1, "c-stop", 80000, "600000000000000", "")),
			evm(ex2(21, 2, "k-stop", 30000, "300000000000000", ""), ex2(21, 3, "k-stop", 30000, "300000000000000", ""), ex2(22, 0, "c-revert", 60000, "7", "")),
			evm(ex2(21, 1, "c-stop", 80000, "600000000000000", ""))}},
		// the three transaction types at prices below / at / above the base fee, with leftover gas to refund and another
		// payer in the same transaction (so that the fee collector could pay an unearned refund)
		{Txs: []txIn{evm(node{K: "eth", From: 20, Nonce: 0, Gas: 21000, Price: "5000000000000"}, node{K: "eth", From: 21, Nonce: 0, Gas: 100000, Price: "1", Ty: "al"}),
			evm(node{K: "eth", From: 21, Nonce: 1, Gas: 100000, Price: "0", Ty: "al1"}),
			evm(node{K: "eth", From: 20, Nonce: 1, Gas: 21000, Price: "5000000000000", Ty: "al"}, node{K: "eth", From: 22, Nonce: 0, Gas: 100000, Cap: "1", Tip: "1"}, node{K: "eth", From: 21, Nonce: 2, Gas: 100000, Price: "1"}),
			evm(node{K: "eth", From: 22, Nonce: 1, Gas: 50000, Price: "1999999999999", Ty: "al"}, node{K: "eth", From: 22, Nonce: 2, Gas: 50000, Cap: "500000000000", Tip: "3"}),
			evm(ex2(23, 0, "c-stop", 100000, "250000", "1")), evm(node{K: "eth", From: 23, Nonce: 1, Gas: 90000, Price: "1", Ty: "al", Prog: "k-revert", Val: "10"})}},
		// extension-option routing with the wrong content
		{Txs: []txIn{{Ext: "evm", Key: "cosmos", Signer: 1, Msgs: []node{{K: "send", From: 1}}}, {Ext: "evm", Key: "none", Signer: -1, Msgs: []node{eth(20, 0), {K: "send", From: 1}}},
			{Ext: "other", Key: "none", Signer: -1, Msgs: []node{eth(20, 0)}}, {Ext: "other", Key: "cosmos", Signer: 1, Msgs: []node{{K: "send", From: 1}}},
			{Key: "none", Signer: -1, Msgs: []node{eth(20, 0)}}, evm(eth(20, 0))}},
	}
}

func TestC02(t *testing.T) {
	cfg := LoadCfg(t, 300, 4000)
	em := NewEmitter(t, cfg.Out)
	defer em.Close()
	run := func(ci caseIn) {
		obs := runCase(t, ci, cfg.Replay != "")
		em.Emit(ci, obs, nil)
		if os.Getenv("C02_DEBUG") != "" {
			for i, o := range obs {
				bz, _ := json.Marshal(ci.Txs[i])
				fmt.Printf("tx %s -> ok=%v fired=%v eth=%v dfee=%s log=%.140s\n", bz, o.Ok, o.Fired, o.Eth, o.DFee, o.Log)
			}
		}
	}
	if cfg.Replay != "" {
		for _, raw := range cfg.ReplayInputs(t) {
			var ci caseIn
			if err := json.Unmarshal(raw, &ci); err != nil {
				t.Fatal(err)
			}
			run(ci)
		}
		return
	}
	for _, ci := range openers() {
		run(ci)
	}
	rng := NewRng(cfg.Seed)
	for i := 0; i < cfg.N; i++ {
		run(newGen(rng.Fork()).genCase())
	}
}
