package c03

// C03 driver (c): HISTORIES of EVM messages over a shared set of accounts, delivered the way
// baseapp.runTx delivers a transaction: every message on its own branch of the block state
// (ctx.CacheContext()), through the real EVM ante chain (app/evmante: signature, sender is an EOA,
// funds for gas*price + value, fee deduction, nonce check + increment) and Keeper.EthereumTx, the
// branch written back only when neither returned an error.  Nothing is reset between messages: in
// particular the process-wide per-tx StateDB pointer (Keeper.Bank.StateDB) is left to the code under
// test.  The same signed messages go through go-ethereum's core.ApplyMessage on core/state; a message
// go-ethereum rejects (nonce, insufficient funds for gas*price+value, intrinsic gas) has no effect.
//
// (Ante and message share one branch, so a message rejected at either stage has no effect at all —
// go-ethereum's meaning of an invalid message.  That a delivered-but-failed Cosmos tx still pays its
// fee and bumps the sequence is the subject of C05, not of this comparison.)
//
// Histories mix: ordinary calls / creations / plain transfers, messages whose gas limit is below the
// intrinsic gas, wrong nonces, senders that cannot pay gas*price+value, messages that fail in the VM
// (revert, invalid opcode, out of gas).  After EVERY message both sides are observed: verdict, gas
// used, VM error class, return data, logs (+ whether every Nibiru log carries the hash of the message
// that emitted it), and the committed balance / nonce / code / storage of every address either side
// may have touched.

import (
	"bytes"
	"encoding/json"
	"fmt"
	"math/big"
	"os"
	"testing"

	codectypes "github.com/cosmos/cosmos-sdk/codec/types"
	sdk "github.com/cosmos/cosmos-sdk/types"
	authante "github.com/cosmos/cosmos-sdk/x/auth/ante"
	gethcommon "github.com/ethereum/go-ethereum/common"
	"github.com/ethereum/go-ethereum/core"
	gethcore "github.com/ethereum/go-ethereum/core/types"
	"github.com/ethereum/go-ethereum/core/vm"
	"github.com/ethereum/go-ethereum/crypto"

	. "verifharness/hx"

	"github.com/NibiruChain/nibiru/v2/app/ante"
	"github.com/NibiruChain/nibiru/v2/app/evmante"
	"github.com/NibiruChain/nibiru/v2/eth"
	"github.com/NibiruChain/nibiru/v2/eth/crypto/ethsecp256k1"
	"github.com/NibiruChain/nibiru/v2/x/evm"
	"github.com/NibiruChain/nibiru/v2/x/evm/evmtest"
	"github.com/NibiruChain/nibiru/v2/x/evm/statedb"
)

// one message of a history
type mMsg struct {
	From   int     `json:"from"`             // sender 0 | 1
	To     int     `json:"to"`               // -1 = creation (init code = Bodies[Body]); 0..2 contracts; 3 sender 0, 4 empty address, 5 sender 1
	Body   int     `json:"body,omitempty"`   // creation: which body is the init code
	Gas    uint64  `json:"gas"`              // gas limit
	Value  int     `json:"value,omitempty"`  // unibi
	AL     [][]int `json:"al,omitempty"`     // access list: [target, keys…]
	DNonce int     `json:"dnonce,omitempty"` // 0 = the sender's next nonce, otherwise next nonce + DNonce (wrong)
	Data   int     `json:"data,omitempty"`   // calls: number of (non-zero) calldata bytes
	// tx type and prices (unibi per gas; the base fee is 1): Typ 0 legacy (access-list when AL is given),
	// 1 access-list, 2 dynamic-fee.  Cap = gas price / maxFeePerGas: 0 = the base fee, <0 = below the base
	// fee (0 wei).  Tip = maxPriorityFeePerGas (dynamic-fee only; may exceed Cap).
	Typ int `json:"typ,omitempty"`
	Cap int `json:"cap,omitempty"`
	Tip int `json:"tip,omitempty"`
	// Place = [which, delta]: before the message the sender's balance is SET (both sides) to
	// gas*effectivePrice+value (which=1) or gas*Cap+value (which=2), plus delta unibi
	Place []int `json:"place,omitempty"`
}

func (m mMsg) capUnibi() int64 {
	switch {
	case m.Cap == 0:
		return 1
	case m.Cap < 0:
		return 0
	}
	return int64(m.Cap)
}

// tip as go-ethereum sees it: a legacy / access-list tx has tip = cap = gas price
func (m mMsg) tipUnibi() int64 {
	if m.Typ != 2 {
		return m.capUnibi()
	}
	return int64(m.Tip)
}

// Nibiru's effective price max(base, min(tip+base, cap)) in unibi (base fee = 1)
func (m mMsg) effUnibi() int64 {
	e := m.tipUnibi() + 1
	if c := m.capUnibi(); c < e {
		e = c
	}
	if e < 1 {
		e = 1
	}
	return e
}

type mCase struct {
	Bodies [][]pStmt `json:"bodies"` // runtime code of contracts 0..2
	Stor   [][2]int  `json:"stor"`   // initial storage: contract, key (value 1)
	Funds  [2]int    `json:"funds"`  // unibi of the two senders
	Msgs   []mMsg    `json:"msgs"`
}

// header of a message as the Coq message-layer model needs it
type mHdr struct {
	From    int    `json:"from"` // row index of the sender
	Nonce   uint64 `json:"nonce"`
	Gas     uint64 `json:"gas"`
	Base    string `json:"base"`  // wei per gas: base fee, tip (legacy: the gas price), fee cap
	Tip     string `json:"tip"`
	Cap     string `json:"cap"`
	Placed  string `json:"placed"` // sender balance (wei) set before the message, "" = untouched
	Value   string `json:"value"` // wei
	Create  bool   `json:"create"`
	NZ      int    `json:"nz"`
	Z       int    `json:"z"`
	ALAddrs int    `json:"al_addrs"`
	ALKeys  int    `json:"al_keys"`
}

type mResult struct {
	Hdrs     []mHdr   `json:"hdrs"`
	InitNib  []c03Row `json:"init_nib"`
	InitGeth []c03Row `json:"init_geth"`
	Nib      []pObs   `json:"nib"`
	Geth     []pObs   `json:"geth"`
	HashOK   []bool   `json:"hash_ok"`
	Kept     int      `json:"kept"` // number of rows per table
}

func senderKey(u universe, i int) evmtest.EthPrivKeyAcc {
	seed := []byte{0xc0, 0x03, byte(u.ns >> 24), byte(u.ns >> 16), byte(u.ns >> 8), byte(u.ns), byte(i), 0x5e}
	priv := &ethsecp256k1.PrivKey{Key: crypto.Keccak256(seed)}
	ecdsa, err := priv.ToECDSA()
	if err != nil {
		panic(err)
	}
	addr := crypto.PubkeyToAddress(ecdsa.PublicKey)
	return evmtest.EthPrivKeyAcc{EthAddr: addr, NibiruAddr: eth.EthAddrToNibiruAddr(addr), PrivKey: priv, KeyringSigner: evmtest.NewSigner(priv)}
}

type mWorld struct {
	senders [2]evmtest.EthPrivKeyAcc
	targets []gethcommon.Address
	codes   [][]byte
	watch   []gethcommon.Address
}

func newMWorld(u universe, c mCase) *mWorld {
	w := &mWorld{}
	w.senders[0], w.senders[1] = senderKey(u, 0), senderKey(u, 1)
	for i := 0; i < nTargets; i++ {
		w.targets = append(w.targets, u.addr(100+i))
	}
	w.targets[3], w.targets[5] = w.senders[0].EthAddr, w.senders[1].EthAddr
	for i := 0; i < 3; i++ {
		var code []byte
		if i < len(c.Bodies) {
			code = compile(c.Bodies[i], w.targets)
		}
		w.codes = append(w.codes, code)
	}
	w.watch = append(w.watch, w.targets...)
	initHashes := []gethcommon.Hash{}
	for _, rv := range []bool{false, true} {
		for v := 0; v < 4; v++ {
			initHashes = append(initHashes, crypto.Keccak256Hash(tinyInit(rv, v)))
		}
	}
	creators := append([]gethcommon.Address{}, w.targets[:3]...)
	for _, s := range w.senders {
		for n := uint64(0); n < uint64(len(c.Msgs))+1; n++ {
			a := crypto.CreateAddress(s.EthAddr, n)
			w.watch = append(w.watch, a)
			creators = append(creators, a)
		}
	}
	for _, cr := range creators {
		for nn := uint64(1); nn <= 3; nn++ {
			w.watch = append(w.watch, crypto.CreateAddress(cr, nn))
		}
		for salt := 0; salt < 4; salt++ {
			for _, h := range initHashes {
				w.watch = append(w.watch, crypto.CreateAddress2(cr, gethcommon.BigToHash(big.NewInt(int64(salt))), h.Bytes()))
			}
		}
	}
	return w
}

func (w *mWorld) genesis(db vm.StateDB, c mCase) {
	for i := 0; i < 3; i++ {
		if len(w.codes[i]) > 0 {
			db.SetNonce(w.targets[i], 1)
			db.SetCode(w.targets[i], w.codes[i])
			db.AddBalance(w.targets[i], unibiWei(10))
		}
	}
	for _, st := range c.Stor {
		t := st[0] % 3
		if len(w.codes[t]) > 0 {
			db.SetState(w.targets[t], keyOf(st[1]%nKeys), wordOf(1))
		}
	}
	for j := 0; j < 2; j++ {
		db.AddBalance(w.senders[j].EthAddr, unibiWei(c.Funds[j]))
	}
}

func (w *mWorld) txData(c mCase, m mMsg) (to *gethcommon.Address, data []byte, al gethcore.AccessList) {
	if m.To >= 0 {
		t := w.targets[m.To%nTargets]
		to = &t
		data = bytes.Repeat([]byte{0x01}, m.Data)
	} else {
		body := compile(c.Bodies[m.Body%len(c.Bodies)], w.targets)
		body = body[:len(body)-1]
		a := &asm{b: body}
		a.push1(0).push1(0).op(0x53).push1(1).push1(0).op(0xf3) // return a 1-byte runtime (STOP)
		data = a.b
	}
	for _, el := range m.AL {
		t := gethcore.AccessTuple{Address: w.targets[el[0]%nTargets]}
		for _, k := range el[1:] {
			t.StorageKeys = append(t.StorageKeys, keyOf(k%nKeys))
		}
		al = append(al, t)
	}
	return
}

func (w *mWorld) nibRows(deps *evmtest.TestDeps) []c03Row {
	rows := make([]c03Row, 0, len(w.watch))
	for _, a := range w.watch {
		row := c03Row{Bal: "0", Stor: []int64{}}
		if acc := deps.EvmKeeper.GetAccount(deps.Ctx, a); acc != nil {
			row.Exists = true
			row.Bal = new(big.Int).Mul(acc.BalanceNative, big.NewInt(wei)).String()
			row.Nonce = acc.Nonce
			h := gethcommon.BytesToHash(acc.CodeHash)
			if h != crypto.Keccak256Hash(nil) && h != (gethcommon.Hash{}) {
				var code []byte
				if p := Recover(func() { code = deps.EvmKeeper.GetCode(deps.Ctx, h) }); p != "" {
					row.Code = -3
				} else {
					row.Code = codeTag(code)
				}
			}
		}
		for j := 0; j < nKeys; j++ {
			row.Stor = append(row.Stor, wordID(deps.EvmKeeper.GetState(deps.Ctx, a, keyOf(j))))
		}
		rows = append(rows, row)
	}
	return rows
}

func (w *mWorld) gethRows(g *gethSide) []c03Row {
	rd := g.open()
	rows := make([]c03Row, 0, len(w.watch))
	for _, a := range w.watch {
		row := c03Row{Bal: "0", Stor: []int64{}}
		if rd.Exist(a) {
			row.Exists = true
			row.Bal = rd.GetBalance(a).String()
			row.Nonce = rd.GetNonce(a)
			row.Code = codeTag(rd.GetCode(a))
		}
		for j := 0; j < nKeys; j++ {
			row.Stor = append(row.Stor, wordID(rd.GetState(a, keyOf(j))))
		}
		rows = append(rows, row)
	}
	return rows
}

func (w *mWorld) idx(a gethcommon.Address) int {
	for i, x := range w.watch {
		if x == a {
			return i
		}
	}
	return -1
}

func (w *mWorld) logsOf(ls []*gethcore.Log) []int64 {
	out := []int64{}
	for _, l := range ls {
		t := int64(-1)
		if len(l.Topics) > 0 {
			t = wordID(l.Topics[0])
		}
		out = append(out, int64(w.idx(l.Address)), t)
	}
	return out
}

func rowTrivial(r c03Row) bool {
	if r.Exists {
		return false
	}
	for _, v := range r.Stor {
		if v != 0 {
			return false
		}
	}
	return true
}

func newEvmAnte(deps *evmtest.TestDeps) sdk.AnteHandler {
	return evmante.NewAnteHandlerEVM(ante.AnteHandlerOptions{
		HandlerOptions: authante.HandlerOptions{
			AccountKeeper:          deps.App.AccountKeeper,
			BankKeeper:             deps.App.BankKeeper,
			FeegrantKeeper:         deps.App.FeeGrantKeeper,
			SignModeHandler:        deps.App.GetTxConfig().SignModeHandler(),
			SigGasConsumer:         authante.DefaultSigVerificationGasConsumer,
			ExtensionOptionChecker: func(*codectypes.Any) bool { return true },
		},
		EvmKeeper:     deps.App.EvmKeeper,
		AccountKeeper: deps.App.AccountKeeper,
	})
}

// the block of the test chain: a block gas limit like a live chain's (the ante handler rejects
// messages above it; it is also the GASLIMIT both interpreters see)
func newMsgDeps() *evmtest.TestDeps {
	d := evmtest.NewTestDeps()
	d.Ctx = d.Ctx.WithBlockGasMeter(sdk.NewGasMeter(100_000_000))
	return &d
}

func runHistory(deps *evmtest.TestDeps, u universe, c mCase) mResult {
	w := newMWorld(u, c)
	res := mResult{}
	anteH := newEvmAnte(deps)

	// --- genesis on both sides, through the vm.StateDB interface
	txCfg := statedb.NewEmptyTxConfig(gethcommon.BytesToHash(deps.Ctx.HeaderHash()))
	gdb := deps.EvmKeeper.NewStateDB(deps.Ctx, txCfg)
	w.genesis(gdb, c)
	if err := gdb.Commit(); err != nil {
		panic(err)
	}
	deps.EvmKeeper.Bank.StateDB = nil // the genesis StateDB only; NOTHING is reset between messages
	g := newGethSide()
	gd := g.open()
	w.genesis(gd, c)
	root, err := gd.Commit(true)
	if err != nil {
		panic(err)
	}
	g.root = root

	evmCfg := deps.EvmKeeper.GetEVMConfig(deps.Ctx)
	baseFee := evmCfg.BaseFeeWei
	chainID := evmCfg.ChainConfig.ChainID
	signer := gethcore.NewLondonSigner(chainID)

	tables := [][2][]c03Row{{w.nibRows(deps), w.gethRows(g)}}
	var nibs, geths []pObs
	var nibLogs, gethLogs [][]*gethcore.Log

	for _, m := range c.Msgs {
		s := w.senders[m.From%2]
		next := int64(g.open().GetNonce(s.EthAddr))
		nonce := next + int64(m.DNonce)
		if nonce < 0 {
			nonce = next + 1
		}
		to, data, al := w.txData(c, m)
		capWei := new(big.Int).Mul(big.NewInt(m.capUnibi()), baseFee) // base fee = 1 unibi per gas
		tipWei := new(big.Int).Mul(big.NewInt(m.tipUnibi()), baseFee)
		var inner gethcore.TxData
		switch {
		case m.Typ == 2:
			inner = &gethcore.DynamicFeeTx{ChainID: chainID, Nonce: uint64(nonce), To: to, Data: data, Gas: m.Gas, GasFeeCap: capWei, GasTipCap: tipWei,
				Value: unibiWei(m.Value), AccessList: al}
		case m.Typ == 1 || len(al) > 0:
			inner = &gethcore.AccessListTx{ChainID: chainID, Nonce: uint64(nonce), To: to, Data: data, Gas: m.Gas, GasPrice: capWei,
				Value: unibiWei(m.Value), AccessList: al}
		default:
			inner = &gethcore.LegacyTx{Nonce: uint64(nonce), To: to, Data: data, Gas: m.Gas, GasPrice: capWei, Value: unibiWei(m.Value)}
		}
		// balance placement around an admission limit: the same SET on both sides, outside any message
		placed := ""
		if len(m.Place) == 2 {
			price := m.effUnibi()
			if m.Place[0] == 2 {
				price = m.capUnibi()
			}
			target := int64(m.Gas)*price + int64(m.Value) + int64(m.Place[1])
			if target < 1 {
				target = 1
			}
			tw := new(big.Int).Mul(big.NewInt(target), big.NewInt(wei))
			if err := deps.EvmKeeper.SetAccBalance(deps.Ctx, s.EthAddr, big.NewInt(target)); err != nil {
				panic(err)
			}
			db := g.open()
			db.SetBalance(s.EthAddr, tw)
			root, err := db.Commit(true)
			if err != nil {
				panic(err)
			}
			g.root = root
			placed = tw.String()
		}
		txMsg := new(evm.MsgEthereumTx)
		if err := txMsg.FromEthereumTx(gethcore.NewTx(inner)); err != nil {
			panic(err)
		}
		txMsg.From = s.EthAddr.Hex()
		if err := txMsg.Sign(signer, s.KeyringSigner); err != nil {
			panic(err)
		}
		signedHash := txMsg.AsTransaction().Hash()
		coreMsg, err := txMsg.AsTransaction().AsMessage(signer, baseFee)
		if err != nil {
			panic(err)
		}
		nz, z := 0, 0
		for _, b := range data {
			if b == 0 {
				z++
			} else {
				nz++
			}
		}
		res.Hdrs = append(res.Hdrs, mHdr{From: w.idx(s.EthAddr), Nonce: uint64(nonce), Gas: m.Gas, Base: baseFee.String(), Tip: tipWei.String(), Cap: capWei.String(), Placed: placed,
			Value: unibiWei(m.Value).String(), Create: to == nil, NZ: nz, Z: z, ALAddrs: len(al), ALKeys: al.StorageKeys()})

		// ---- go-ethereum: core.ApplyMessage on core/state, same block context as Nibiru's
		var gobs pObs
		var glogs []*gethcore.Log
		{
			blockCtx := deps.EvmKeeper.NewEVM(deps.Ctx, coreMsg, evmCfg, evm.NewNoOpTracer(), nil).Context
			db := g.open()
			gevm := vm.NewEVM(blockCtx, core.NewEVMTxContext(coreMsg), db, evmCfg.ChainConfig, vm.Config{})
			gp := new(core.GasPool).AddGas(blockCtx.GasLimit + m.Gas)
			var gres *core.ExecutionResult
			var gerr error
			if p := Recover(func() { gres, gerr = core.ApplyMessage(gevm, coreMsg, gp) }); p != "" {
				gobs.Err = 98
			}
			if gerr != nil || gres == nil {
				gobs.Rejected = true // invalid message: no effect at all
			} else {
				gobs.GasUsed = gres.UsedGas
				if gres.Err != nil {
					gobs.Err = classifyVMErr(gres.Err.Error())
				}
				gobs.Ret = bytesToInts(gres.ReturnData)
				glogs = db.Logs()
				if root, err := db.Commit(true); err == nil {
					g.root = root
				}
			}
		}

		// ---- Nibiru: ante + EthereumTx on one branch of the block state, written back on success
		var nobs pObs
		var nlogs []*gethcore.Log
		hashOK := true
		{
			txCtx, writeBack := deps.Ctx.CacheContext()
			var resp *evm.MsgEthereumTxResponse
			var nerr error
			if p := Recover(func() {
				tx, err := txMsg.BuildTx(deps.App.GetTxConfig().NewTxBuilder(), evm.EVMBankDenom)
				if err != nil {
					nerr = err
					return
				}
				newCtx, err := anteH(txCtx, tx, false)
				if err != nil {
					nerr = err
					return
				}
				resp, nerr = deps.EvmKeeper.EthereumTx(sdk.WrapSDKContext(newCtx), txMsg)
			}); p != "" {
				nobs.Err = 98
				nerr = nil
				resp = nil
			}
			switch {
			case nerr != nil:
				nobs.Rejected = true // branch dropped
				if os.Getenv("VERIF_DEBUG") != "" {
					fmt.Fprintln(os.Stderr, "nibiru rejects:", nerr)
				}
			case resp == nil:
				nobs.Rejected = true
			default:
				writeBack()
				nobs.GasUsed = resp.GasUsed
				nobs.Err = classifyVMErr(resp.VmError)
				nobs.Ret = bytesToInts(resp.Ret)
				for _, l := range resp.Logs {
					if l.TxHash != signedHash.Hex() {
						hashOK = false
					}
				}
				nlogs = evm.LogsToEthereum(resp.Logs)
			}
		}
		nibs, geths = append(nibs, nobs), append(geths, gobs)
		nibLogs, gethLogs = append(nibLogs, nlogs), append(gethLogs, glogs)
		res.HashOK = append(res.HashOK, hashOK)
		tables = append(tables, [2][]c03Row{w.nibRows(deps), w.gethRows(g)})
	}

	// ---- keep only the rows that are ever non-trivial (or emit a log / send a message)
	keep := make([]bool, len(w.watch))
	for i := 0; i < nTargets; i++ {
		keep[i] = true
	}
	for _, tb := range tables {
		for side := 0; side < 2; side++ {
			for i, r := range tb[side] {
				if !rowTrivial(r) {
					keep[i] = true
				}
			}
		}
	}
	for _, ls := range append(append([][]*gethcore.Log{}, nibLogs...), gethLogs...) {
		for _, l := range ls {
			if i := w.idx(l.Address); i >= 0 {
				keep[i] = true
			}
		}
	}
	var kept []gethcommon.Address
	for i, k := range keep {
		if k {
			kept = append(kept, w.watch[i])
		}
	}
	filter := func(rows []c03Row) []c03Row {
		out := make([]c03Row, 0, len(kept))
		for i, r := range rows {
			if keep[i] {
				out = append(out, r)
			}
		}
		return out
	}
	w.watch = kept // logsOf / idx now answer in kept-row indices
	for i := range res.Hdrs {
		res.Hdrs[i].From = w.idx(w.senders[c.Msgs[i].From%2].EthAddr)
	}
	res.Kept = len(kept)
	res.InitNib, res.InitGeth = filter(tables[0][0]), filter(tables[0][1])
	for i := range nibs {
		nibs[i].Logs, geths[i].Logs = w.logsOf(nibLogs[i]), w.logsOf(gethLogs[i])
		nibs[i].State, geths[i].State = filter(tables[i+1][0]), filter(tables[i+1][1])
		if nibs[i].Ret == nil {
			nibs[i].Ret = []int64{}
		}
		if geths[i].Ret == nil {
			geths[i].Ret = []int64{}
		}
	}
	res.Nib, res.Geth = nibs, geths
	return res
}

// ---------------------------------------------------------------- generator

func genHistory(r *Rng) mCase {
	c := mCase{}
	nb := r.Range(1, 3)
	for i := 0; i < nb; i++ {
		c.Bodies = append(c.Bodies, genBody(r, i, 3))
	}
	for i := r.Range(2, 7); i > 0; i-- {
		c.Stor = append(c.Stor, [2]int{r.Intn(3), r.Intn(nKeys)})
	}
	// sender 0 is rich; sender 1 can pay for small gas limits only
	c.Funds = [2]int{5_000_000, []int{150_000, 400_000, 2_000_000}[r.Intn(3)]}
	n := r.Range(3, 6)
	for i := 0; i < n; i++ {
		m := mMsg{From: r.Pick(3, 1), Gas: []uint64{30_000, 60_000, 100_000, 300_000, 1_000_000}[r.Pick(1, 2, 4, 8, 2)], Value: r.Pick(5, 1, 1)}
		switch r.Pick(7, 2, 1) {
		case 0:
			m.To = r.Intn(nb)
		case 1:
			m.To, m.Body = -1, r.Intn(nb)
			if m.Gas < 100_000 {
				m.Gas = 300_000
			}
		case 2:
			m.To = 3 + r.Intn(3) // plain transfer to an EOA / an empty address
			m.Gas = []uint64{21_000, 30_000, 60_000}[r.Intn(3)]
		}
		if m.To >= 0 && r.Chance(1, 4) {
			m.Data = r.Range(1, 40)
		}
		for j := r.Pick(3, 1, 1); j > 0; j-- {
			el := []int{r.Intn(nTargets)}
			for k := r.Range(0, 2); k > 0; k-- {
				el = append(el, r.Intn(nKeys))
			}
			m.AL = append(m.AL, el)
		}
		// tx type and prices: legacy / access-list / dynamic-fee, gas price or fee cap at, above, far above,
		// below the base fee; tip none, small, = cap, above the cap, far above the base fee
		switch r.Pick(5, 2, 6) {
		case 1:
			m.Typ = 1
		case 2:
			m.Typ = 2
		}
		if m.Typ == 2 {
			m.Cap = []int{0, 2, 3, 10, 10, -1}[r.Pick(3, 3, 2, 3, 3, 1)]
			c := int(m.capUnibi())
			m.Tip = []int{0, 1, c, c + 1, 20}[r.Pick(5, 4, 2, 1, 1)]
		} else if r.Chance(1, 3) {
			m.Cap = []int{2, 10, -1}[r.Pick(3, 2, 1)]
		}
		if m.capUnibi() >= 10 && m.Gas > 300_000 {
			m.Gas = 300_000
		}
		// the classes of messages go-ethereum rejects before execution
		switch r.Pick(15, 4, 2, 2) {
		case 1: // gas limit below the intrinsic gas
			if m.To < 0 {
				m.Gas = []uint64{21_000, 40_000, 52_999}[r.Intn(3)]
			} else {
				m.Gas = []uint64{20_000, 20_999, 5_000}[r.Intn(3)]
				if m.Data > 0 || len(m.AL) > 0 {
					m.Gas = 21_000 // covers the base cost but not the calldata / access list
				}
			}
		case 2: // wrong nonce
			m.DNonce = []int{1, -1, 2}[r.Intn(3)]
		case 3: // cannot pay gas*price + value
			if r.Chance(1, 2) {
				m.From, m.Gas = 1, 1_000_000
			} else {
				m.Value = 6_000_000
			}
		}
		// the sender's balance placed just below / at / above one of the two admission limits
		// (gas*effectivePrice + value, gas*feeCap + value); mostly the poor sender
		if r.Chance(2, 5) {
			m.From = r.Pick(1, 3)
			if m.Gas > 300_000 {
				m.Gas = 100_000
			}
			if m.Value > 2 {
				m.Value = 2
			}
			m.Place = []int{1 + r.Intn(2), []int{-1, 0, 1, -1000, 1000}[r.Pick(4, 4, 3, 1, 1)]}
		}
		c.Msgs = append(c.Msgs, m)
	}
	return c
}

// the historic failure shape first: a counter contract; a call with a gas limit below the intrinsic
// gas; then ordinary calls (the second must see the first one's write); and the same after a wrong
// nonce, an unaffordable message and a message that reverts
func histOpeners() []mCase {
	counter := []pStmt{{K: "sload", A: 0}, {K: "sstore", A: 0, V: 2}, {K: "sstore", A: 1, V: 1}, {K: "log", A: 7}, {K: "call", A: 4, V: 1}}
	reverter := []pStmt{{K: "sstore", A: 2, V: 1}, {K: "log", A: 3}, {K: "revert"}}
	return []mCase{
		{Bodies: [][]pStmt{counter}, Funds: [2]int{5_000_000, 150_000}, Msgs: []mMsg{
			{From: 0, To: 0, Gas: 20_000},
			{From: 0, To: 0, Gas: 300_000},
			{From: 1, To: 0, Gas: 140_000},
		}},
		{Bodies: [][]pStmt{counter, reverter}, Stor: [][2]int{{0, 1}, {1, 2}}, Funds: [2]int{5_000_000, 150_000}, Msgs: []mMsg{
			{From: 0, To: 0, Gas: 300_000, DNonce: 1},
			{From: 1, To: 0, Gas: 1_000_000},
			{From: 0, To: 1, Gas: 100_000},
			{From: 0, To: -1, Body: 0, Gas: 40_000},
			{From: 0, To: -1, Body: 0, Gas: 300_000, Value: 1},
			{From: 1, To: 4, Gas: 21_000, Value: 2, AL: [][]int{{0, 1}}},
			{From: 1, To: 0, Gas: 140_000, Value: 1},
		}},
		// the admission decision: the three tx types with the sender balance placed around both limits
		{Bodies: [][]pStmt{counter}, Funds: [2]int{5_000_000, 150_000}, Msgs: []mMsg{
			{From: 1, To: 4, Gas: 21_000, Value: 5, Typ: 2, Cap: 10, Tip: 0, Place: []int{2, -1}}, // between the limits
			{From: 1, To: 4, Gas: 21_000, Value: 5, Typ: 2, Cap: 10, Tip: 0, Place: []int{2, 0}},
			{From: 1, To: 4, Gas: 21_000, Value: 5, Typ: 2, Cap: 10, Tip: 2, Place: []int{1, 0}},
			{From: 1, To: 4, Gas: 21_000, Value: 5, Typ: 2, Cap: 10, Tip: 2, Place: []int{1, -1}},
			{From: 1, To: 0, Gas: 300_000, Typ: 2, Cap: 3, Tip: 20, Place: []int{2, 0}},
			{From: 0, To: 0, Gas: 300_000, Typ: 2, Cap: 2, Tip: 3},  // tip above the fee cap
			{From: 0, To: 0, Gas: 300_000, Typ: 2, Cap: -1, Tip: 0}, // fee cap below the base fee
		}},
		{Bodies: [][]pStmt{counter}, Funds: [2]int{5_000_000, 150_000}, Msgs: []mMsg{
			{From: 1, To: 4, Gas: 21_000, Value: 1, Cap: 2, Place: []int{2, -1}},
			{From: 1, To: 4, Gas: 21_000, Value: 1, Cap: 2, Place: []int{2, 0}},
			{From: 1, To: 0, Gas: 300_000, Typ: 1, Cap: 10, AL: [][]int{{0, 0}}, Place: []int{1, 1}},
			{From: 1, To: 4, Gas: 30_000, Value: 2, Cap: -1},
			{From: 0, To: 0, Gas: 300_000, Typ: 2, Cap: 10, Tip: 1},
		}},
	}
}

func TestC03Msgs(t *testing.T) {
	cfg := LoadCfg(t, 300, 4000)
	n := cfg.N / 5
	if cfg.Replay != "" {
		var mine []json.RawMessage
		for _, raw := range cfg.ReplayInputs(t) {
			if isMsgsInput(raw) {
				mine = append(mine, raw)
			}
		}
		if len(mine) == 0 {
			return
		}
		em := NewEmitter(t, cfg.Out)
		defer em.Close()
		for i, raw := range mine {
			var c mCase
			if err := json.Unmarshal(raw, &c); err != nil {
				t.Fatal(err)
			}
			d := newMsgDeps()
			em.Emit(c, runHistory(d, universe{ns: uint32(0x9000 + i)}, c), map[string]interface{}{"driver": "msgs"})
		}
		return
	}
	em := NewEmitter(t, cfg.Out)
	defer em.Close()
	var deps *evmtest.TestDeps
	used := 0
	caseNo := uint32(0x20000)
	run := func(c mCase, stream string) {
		if deps == nil || used >= 40 {
			deps, used = newMsgDeps(), 0
		}
		used++
		caseNo++
		em.Emit(c, runHistory(deps, universe{ns: caseNo}, c), map[string]interface{}{"driver": "msgs", "stream": stream})
	}
	for _, c := range histOpeners() {
		run(c, "opener")
	}
	rng := NewRng(cfg.Seed ^ 0xc03c03)
	for i := 0; i < n; i++ {
		run(genHistory(rng.Fork()), "gen")
	}
}

// an input of this driver is a JSON object with a "msgs" member (driver (b)'s objects have none)
func isMsgsInput(raw json.RawMessage) bool {
	if len(raw) == 0 || raw[0] != '{' {
		return false
	}
	var probe map[string]json.RawMessage
	if json.Unmarshal(raw, &probe) != nil {
		return false
	}
	_, ok := probe["msgs"]
	return ok
}
