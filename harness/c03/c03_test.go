package c03

// C03 — Nibiru EVM state transitions equal go-ethereum's on the same program.
//
// Driver (a): a case is a history of transactions over a private set of addresses; a
// transaction is a sequence of vm.StateDB calls.  Every sequence is run
//
//	on Nibiru's statedb.StateDB (fresh per transaction, Commit at the end) over the real
//	  EVM keeper / bank / auth stores of a test app, and
//	on go-ethereum's core/state.StateDB (fresh per transaction over an in-memory trie,
//	  Commit(deleteEmptyObjects=true) at the end).
//
// Observables: the return value of every call (reads AND writes; a Go panic is [-99]) and,
// after each commit, the account/storage table of the address/key universe read back through the
// keeper getters (Nibiru) or a new state at the committed root (geth).
//
// Canonical encoding: addresses and storage keys are small ids, a contract code is the id n
// = its length (n bytes of JUMPDEST; 0 = no code), code hashes are mapped back to the id
// (-1 = zero hash), words and log payloads are small integers, balances are wei integers.

import (
	"encoding/json"
	"fmt"
	"math/big"
	"testing"

	gethcommon "github.com/ethereum/go-ethereum/common"
	"github.com/ethereum/go-ethereum/core/rawdb"
	gethstate "github.com/ethereum/go-ethereum/core/state"
	gethcore "github.com/ethereum/go-ethereum/core/types"
	"github.com/ethereum/go-ethereum/core/vm"
	"github.com/ethereum/go-ethereum/crypto"

	. "verifharness/hx"

	"github.com/NibiruChain/nibiru/v2/x/evm/evmtest"
	"github.com/NibiruChain/nibiru/v2/x/evm/statedb"
)

const (
	nAddrs = 5
	nKeys  = 4
	wei    = int64(1_000_000_000_000)
)

type c03Op struct {
	K   string  `json:"k"`
	A   int     `json:"a"`
	Key int     `json:"key"`
	V   int64   `json:"v"`
	Dst *int    `json:"dst,omitempty"`
	Pre []int   `json:"pre,omitempty"`
	AL  [][]int `json:"al,omitempty"` // each: [addr, key, key, …]
}

type c03Row struct {
	Exists bool    `json:"e"`
	Bal    string  `json:"b"` // wei, decimal
	Nonce  uint64  `json:"n"`
	Code   int     `json:"c"`
	Stor   []int64 `json:"s"`
}

type c03TxObs struct {
	Rets  [][]int64 `json:"rets"`
	Table []c03Row  `json:"table"`
	Err   string    `json:"err,omitempty"` // commit error
}

type c03Obs struct {
	Nib  []c03TxObs `json:"nib"`
	Geth []c03TxObs `json:"geth"`
}

// ---------------------------------------------------------------- canonical values

var codeHashID = map[gethcommon.Hash]int{}

func codeOf(n int) []byte {
	if n <= 0 {
		return nil
	}
	b := make([]byte, n)
	for i := range b {
		b[i] = 0x5b
	}
	return b
}

func init() {
	codeHashID[gethcommon.Hash{}] = -1
	for n := 0; n <= 16; n++ {
		codeHashID[crypto.Keccak256Hash(codeOf(n))] = n
	}
}

func hashID(h gethcommon.Hash) int64 {
	if id, ok := codeHashID[h]; ok {
		return int64(id)
	}
	return -2
}

type universe struct{ ns uint32 }

func (u universe) addr(i int) gethcommon.Address {
	var a gethcommon.Address
	a[0], a[1] = 0xc0, 0x03
	a[10] = byte(u.ns >> 24)
	a[11] = byte(u.ns >> 16)
	a[12] = byte(u.ns >> 8)
	a[13] = byte(u.ns)
	// scramble the byte order of ids so that address order differs from id order
	a[19] = byte((i*7 + 3) % 251)
	a[18] = byte(i)
	return a
}

func keyOf(j int) gethcommon.Hash    { return gethcommon.BigToHash(big.NewInt(int64(j))) }
func wordOf(v int64) gethcommon.Hash { return gethcommon.BigToHash(big.NewInt(v)) }
func wordID(h gethcommon.Hash) int64 {
	b := h.Big()
	if b.IsInt64() {
		return b.Int64()
	}
	return -2
}
func b2i(b bool) int64 {
	if b {
		return 1
	}
	return 0
}
func bigID(b *big.Int) int64 {
	if b.IsInt64() {
		return b.Int64()
	}
	return -2
}

// the part of vm.StateDB both implementations share (+ Logs)
type sdbAPI interface {
	vm.StateDB
	Logs() []*gethcore.Log
}

// apply runs one op; a panic is reported as [-99].
func apply(db sdbAPI, u universe, op c03Op) (ret []int64) {
	defer func() {
		if r := recover(); r != nil {
			ret = []int64{-99}
		}
	}()
	a := u.addr(op.A)
	ret = []int64{}
	switch op.K {
	case "create":
		db.CreateAccount(a)
	case "sub":
		db.SubBalance(a, big.NewInt(op.V))
	case "add":
		db.AddBalance(a, big.NewInt(op.V))
	case "bal":
		ret = []int64{bigID(db.GetBalance(a))}
	case "nonce":
		ret = []int64{int64(db.GetNonce(a))}
	case "setnonce":
		db.SetNonce(a, uint64(op.V))
	case "codehash":
		ret = []int64{hashID(db.GetCodeHash(a))}
	case "code":
		ret = []int64{int64(len(db.GetCode(a)))}
	case "setcode":
		db.SetCode(a, codeOf(int(op.V)))
	case "codesize":
		ret = []int64{int64(db.GetCodeSize(a))}
	case "addrefund":
		db.AddRefund(uint64(op.V))
	case "subrefund":
		db.SubRefund(uint64(op.V))
	case "refund":
		ret = []int64{int64(db.GetRefund())}
	case "cstate":
		ret = []int64{wordID(db.GetCommittedState(a, keyOf(op.Key)))}
	case "state":
		ret = []int64{wordID(db.GetState(a, keyOf(op.Key)))}
	case "setstate":
		db.SetState(a, keyOf(op.Key), wordOf(op.V))
	case "suicide":
		ret = []int64{b2i(db.Suicide(a))}
	case "suicided":
		ret = []int64{b2i(db.HasSuicided(a))}
	case "exist":
		ret = []int64{b2i(db.Exist(a))}
	case "empty":
		ret = []int64{b2i(db.Empty(a))}
	case "inal":
		ret = []int64{b2i(db.AddressInAccessList(a))}
	case "slotinal":
		x, y := db.SlotInAccessList(a, keyOf(op.Key))
		ret = []int64{b2i(x), b2i(y)}
	case "addal":
		db.AddAddressToAccessList(a)
	case "addslot":
		db.AddSlotToAccessList(a, keyOf(op.Key))
	case "prepare":
		var dst *gethcommon.Address
		if op.Dst != nil {
			d := u.addr(*op.Dst)
			dst = &d
		}
		var pre []gethcommon.Address
		for _, p := range op.Pre {
			pre = append(pre, u.addr(p))
		}
		var al gethcore.AccessList
		for _, el := range op.AL {
			t := gethcore.AccessTuple{Address: u.addr(el[0])}
			for _, k := range el[1:] {
				t.StorageKeys = append(t.StorageKeys, keyOf(k))
			}
			al = append(al, t)
		}
		db.PrepareAccessList(a, dst, pre, al)
	case "snap":
		ret = []int64{int64(db.Snapshot())}
	case "revert":
		db.RevertToSnapshot(int(op.V))
	case "log":
		db.AddLog(&gethcore.Log{Address: a, Data: []byte{byte(op.V)}})
	case "logs":
		for _, l := range db.Logs() {
			ret = append(ret, int64(l.Data[0]))
		}
	default:
		panic("unknown op " + op.K)
	}
	return ret
}

// ---------------------------------------------------------------- the two implementations

type nibSide struct {
	deps *evmtest.TestDeps
	used int
}

func (n *nibSide) runTx(u universe, ops []c03Op) c03TxObs {
	deps := n.deps
	db := deps.EvmKeeper.NewStateDB(deps.Ctx, statedb.NewEmptyTxConfig(gethcommon.BytesToHash(deps.Ctx.HeaderHash())))
	o := c03TxObs{Rets: [][]int64{}}
	for _, op := range ops {
		o.Rets = append(o.Rets, apply(db, u, op))
	}
	if p := Recover(func() {
		if err := db.Commit(); err != nil {
			o.Err = "commit-error"
		}
	}); p != "" {
		o.Err = "commit-panic"
	}
	deps.EvmKeeper.Bank.StateDB = nil
	for i := 0; i < nAddrs; i++ {
		a := u.addr(i)
		row := c03Row{Bal: "0", Stor: []int64{}}
		if acc := deps.EvmKeeper.GetAccount(deps.Ctx, a); acc != nil {
			row.Exists = true
			row.Bal = new(big.Int).Mul(acc.BalanceNative, big.NewInt(wei)).String()
			row.Nonce = acc.Nonce
			id := hashID(gethcommon.BytesToHash(acc.CodeHash))
			row.Code = int(id)
			if id > 0 {
				// the code itself must be retrievable under the account's hash
				if p := Recover(func() {
					if len(deps.EvmKeeper.GetCode(deps.Ctx, gethcommon.BytesToHash(acc.CodeHash))) != int(id) {
						row.Code = -3
					}
				}); p != "" {
					row.Code = -3
				}
			}
		}
		for j := 0; j < nKeys; j++ {
			row.Stor = append(row.Stor, wordID(deps.EvmKeeper.GetState(deps.Ctx, a, keyOf(j))))
		}
		o.Table = append(o.Table, row)
	}
	return o
}

type gethSide struct {
	dbase gethstate.Database
	root  gethcommon.Hash
}

func newGethSide() *gethSide {
	return &gethSide{dbase: gethstate.NewDatabase(rawdb.NewMemoryDatabase())}
}

func (g *gethSide) open() *gethstate.StateDB {
	db, err := gethstate.New(g.root, g.dbase, nil)
	if err != nil {
		panic(err)
	}
	return db
}

func (g *gethSide) runTx(u universe, ops []c03Op) c03TxObs {
	db := g.open()
	o := c03TxObs{Rets: [][]int64{}}
	for _, op := range ops {
		o.Rets = append(o.Rets, apply(db, u, op))
	}
	root, err := db.Commit(true)
	if err != nil {
		o.Err = "commit-error"
	} else {
		g.root = root
	}
	rd := g.open()
	for i := 0; i < nAddrs; i++ {
		a := u.addr(i)
		row := c03Row{Bal: "0", Stor: []int64{}}
		if rd.Exist(a) {
			row.Exists = true
			row.Bal = rd.GetBalance(a).String()
			row.Nonce = rd.GetNonce(a)
			row.Code = len(rd.GetCode(a))
		}
		for j := 0; j < nKeys; j++ {
			row.Stor = append(row.Stor, wordID(rd.GetState(a, keyOf(j))))
		}
		o.Table = append(o.Table, row)
	}
	return o
}

// ---------------------------------------------------------------- generator

// gen builds one transaction's op list, steering choices by a shadow geth state so that the
// sequence obeys the interpreter's protocol (unless bad is set: the malformed stream).
type gen struct {
	r      *Rng
	u      universe
	db     *gethstate.StateDB
	ops    []c03Op
	snaps  []int // live snapshot ids (stack)
	dead   []int // ids that are no longer valid
	bad    bool
	nlog   int64
	st     *caseState
	dust   *[nAddrs]int64      // malformed stream: sub-unibi credits so far (Nibiru drops the dust at every commit, the shadow does not)
	sender int                 // tx sender (-1 in the funding tx): its nonce is managed by the nonce bracket only
	base   [nAddrs][nKeys]bool // slot non-zero at tx start
}

func (g *gen) emit(op c03Op) []int64 {
	g.ops = append(g.ops, op)
	r := apply(g.db, g.u, op)
	if len(r) == 1 && r[0] == -99 && g.st != nil {
		// The shadow (go-ethereum) panicked.  Expected for a refund underflow and for a revert to
		// an id the generator knows to be dead; anything else (e.g. a journal revert after a
		// mid-transaction PrepareAccessList, which geth does not journal) leaves the shadow in a
		// partially reverted state: balances can no longer be trusted, stop spending.
		expected := op.K == "subrefund"
		if op.K == "revert" {
			expected = true
			for _, id := range g.snaps {
				if int64(id) == op.V {
					expected = false
				}
			}
		}
		if !expected {
			g.st.noSpend = true
		}
	}
	return r
}

func (g *gen) anyAddr() int { return g.r.Intn(nAddrs) }
func (g *gen) anyKey() int  { return g.r.Intn(nKeys) }

func (g *gen) read() {
	a, k := g.anyAddr(), g.anyKey()
	switch g.r.Intn(14) {
	case 0:
		g.emit(c03Op{K: "bal", A: a})
	case 1:
		g.emit(c03Op{K: "nonce", A: a})
	case 2:
		g.emit(c03Op{K: "codehash", A: a})
	case 3:
		g.emit(c03Op{K: "code", A: a})
	case 4:
		g.emit(c03Op{K: "codesize", A: a})
	case 5:
		g.emit(c03Op{K: "refund"})
	case 6:
		g.emit(c03Op{K: "cstate", A: a, Key: k})
	case 7:
		g.emit(c03Op{K: "state", A: a, Key: k})
	case 8:
		g.emit(c03Op{K: "suicided", A: a})
	case 9:
		g.emit(c03Op{K: "exist", A: a})
		g.emit(c03Op{K: "empty", A: a})
	case 10:
		g.emit(c03Op{K: "empty", A: a})
	case 11:
		g.emit(c03Op{K: "inal", A: a})
	case 12:
		g.emit(c03Op{K: "slotinal", A: a, Key: k})
	case 13:
		g.emit(c03Op{K: "logs"})
	}
}

func (g *gen) balance(a int) int64 { return bigID(g.db.GetBalance(g.u.addr(a))) }

// spendable is a lower bound (in unibi) of what both implementations hold for a: the shadow
// balance minus one unibi per fractional credit ever made to a (no overdraft on either side)
func (g *gen) spendable(a int) int64 {
	if g.st != nil && g.st.noSpend {
		return 0
	}
	b := g.balance(a)/wei - g.dust[a]
	if b < 0 {
		return 0
	}
	return b
}

func (g *gen) transfer() {
	from, to := g.anyAddr(), g.anyAddr()
	bal := g.spendable(from)
	if bal <= 0 {
		g.emit(c03Op{K: "add", A: to, V: 0}) // a zero-value touch
		return
	}
	amt := int64(g.r.Range(0, int(min64(bal, 50)))) * wei
	if g.r.Chance(1, 8) {
		amt = bal * wei // drain
	}
	g.emit(c03Op{K: "sub", A: from, V: amt})
	g.emit(c03Op{K: "add", A: to, V: amt})
}

func min64(a, b int64) int64 {
	if a < b {
		return a
	}
	return b
}

func (g *gen) isBlank(a int) bool {
	ad := g.u.addr(a)
	if g.db.GetNonce(ad) != 0 || g.db.GetCodeSize(ad) != 0 || g.db.HasSuicided(ad) {
		return false
	}
	for k := 0; k < nKeys; k++ {
		if g.base[a][k] || g.db.GetState(ad, keyOf(k)) != (gethcommon.Hash{}) {
			return false
		}
	}
	return true
}

// a contract creation as the interpreter performs it
func (g *gen) create(depth int) {
	a := g.anyAddr()
	if !g.isBlank(a) || a == g.sender {
		g.read()
		return
	}
	g.emit(c03Op{K: "nonce", A: a})
	g.emit(c03Op{K: "codehash", A: a})
	g.snapshot()
	start := len(g.ops)
	g.emit(c03Op{K: "create", A: a})
	g.emit(c03Op{K: "setnonce", A: a, V: 1})
	// the endowment: evm.create transfers the value right after CreateAccount (the new object
	// still shares the balance of a pre-funded previous object)
	if g.r.Chance(3, 4) {
		from := g.anyAddr()
		if bal := g.spendable(from); from != a && bal > 0 {
			amt := int64(g.r.Range(1, int(min64(bal, 40)))) * wei
			g.emit(c03Op{K: "sub", A: from, V: amt})
			g.emit(c03Op{K: "add", A: a, V: amt})
		}
	}
	if g.r.Chance(1, 3) {
		// the init code sends value on
		to := g.anyAddr()
		if bal := g.spendable(a); to != a && bal > 0 {
			amt := int64(g.r.Range(1, int(min64(bal, 20)))) * wei
			g.emit(c03Op{K: "sub", A: a, V: amt})
			g.emit(c03Op{K: "add", A: to, V: amt})
		}
	}
	n := g.r.Range(0, 3)
	for i := 0; i < n; i++ {
		g.mutate(depth + 1)
	}
	if g.r.Chance(1, 3) {
		g.revertTop()
		g.probe(start)
		return
	}
	g.emit(c03Op{K: "setcode", A: a, V: int64(g.r.Range(1, 6))})
	g.popSnap()
}

func (g *gen) snapshot() {
	r := g.emit(c03Op{K: "snap"})
	g.snaps = append(g.snaps, int(r[0]))
}

func (g *gen) popSnap() {
	if len(g.snaps) > 0 {
		g.snaps = g.snaps[:len(g.snaps)-1]
	}
}

func (g *gen) revertTop() {
	if len(g.snaps) == 0 {
		return
	}
	id := g.snaps[len(g.snaps)-1]
	g.emit(c03Op{K: "revert", V: int64(id)})
	g.dead = append(g.dead, id)
	g.snaps = g.snaps[:len(g.snaps)-1]
}

func (g *gen) selfdestruct() {
	a := g.anyAddr()
	if !g.contractLike(a) {
		g.read()
		return
	}
	b := g.anyAddr()
	g.emit(c03Op{K: "bal", A: a})
	bal := g.balance(a)
	if bal%wei != 0 {
		g.dust[b]++
	}
	g.emit(c03Op{K: "add", A: b, V: bal})
	g.emit(c03Op{K: "suicide", A: a})
}

func (g *gen) contractLike(a int) bool {
	ad := g.u.addr(a)
	return g.db.GetNonce(ad) != 0 || g.db.GetCodeSize(ad) != 0
}

func (g *gen) sstore() {
	a, k := g.anyAddr(), g.anyKey()
	if !g.bad && !g.contractLike(a) {
		// SSTORE runs in an account with code (or nonce 1 during creation)
		g.emit(c03Op{K: "state", A: a, Key: k})
		return
	}
	v := int64(g.r.Pick(3, 2, 2, 1))
	if g.r.Chance(1, 2) {
		g.emit(c03Op{K: "state", A: a, Key: k})
		g.emit(c03Op{K: "cstate", A: a, Key: k})
	}
	g.emit(c03Op{K: "setstate", A: a, Key: k, V: v})
	switch g.r.Intn(3) {
	case 0:
		g.emit(c03Op{K: "addrefund", V: int64(g.r.Range(1, 3)) * 4800})
	case 1:
		cur := int64(g.db.GetRefund())
		if cur > 0 {
			g.emit(c03Op{K: "subrefund", V: int64(g.r.Range(1, int(min64(cur, 9600))))})
		} else {
			g.emit(c03Op{K: "addrefund", V: 4800})
		}
	}
}

func (g *gen) mutate(depth int) {
	switch g.r.Pick(5, 7, 2, 2, 2, 2, 4, 3, 3, 1) {
	case 0:
		g.transfer()
	case 1:
		g.sstore()
	case 2:
		a := g.anyAddr()
		if a == g.sender && !g.bad {
			g.read()
			return
		}
		n := int64(g.db.GetNonce(g.u.addr(a))) + int64(g.r.Range(0, 2))
		if g.bad {
			n = int64(g.r.Range(0, 5))
		}
		g.emit(c03Op{K: "setnonce", A: a, V: n})
	case 3:
		g.nlog++
		g.emit(c03Op{K: "log", A: g.anyAddr(), V: g.nlog})
	case 4:
		if g.r.Chance(1, 2) {
			g.emit(c03Op{K: "addal", A: g.anyAddr()})
		} else {
			g.emit(c03Op{K: "addslot", A: g.anyAddr(), Key: g.anyKey()})
		}
	case 5:
		g.selfdestruct()
	case 6:
		g.read()
	case 7:
		if depth < 4 {
			g.frame(depth + 1)
		}
	case 8:
		if depth < 4 {
			g.create(depth)
		} else {
			g.read()
		}
	case 9:
		a := g.anyAddr()
		if g.bad {
			g.emit(c03Op{K: "setcode", A: a, V: int64(g.r.Range(0, 6))})
		} else {
			g.read()
		}
	}
	if g.bad && g.r.Chance(1, 4) {
		g.malformed()
	}
}

// probe reads back what the ops emitted since position start have written (used after a revert:
// the getters must show the state before the frame)
func (g *gen) probe(start int) {
	var cands []c03Op
	for _, o := range g.ops[start:] {
		switch o.K {
		case "setstate":
			cands = append(cands, c03Op{K: "state", A: o.A, Key: o.Key})
		case "add", "sub":
			cands = append(cands, c03Op{K: "bal", A: o.A})
		case "setnonce":
			cands = append(cands, c03Op{K: "nonce", A: o.A})
		case "setcode":
			cands = append(cands, c03Op{K: "codehash", A: o.A}, c03Op{K: "codesize", A: o.A})
		case "addal":
			cands = append(cands, c03Op{K: "inal", A: o.A})
		case "addslot":
			cands = append(cands, c03Op{K: "slotinal", A: o.A, Key: o.Key})
		case "prepare":
			cands = append(cands, c03Op{K: "inal", A: o.A})
		case "log":
			cands = append(cands, c03Op{K: "logs"})
		case "addrefund", "subrefund":
			cands = append(cands, c03Op{K: "refund"})
		case "suicide":
			cands = append(cands, c03Op{K: "suicided", A: o.A}, c03Op{K: "bal", A: o.A})
		case "create":
			cands = append(cands, c03Op{K: "empty", A: o.A}, c03Op{K: "nonce", A: o.A}, c03Op{K: "bal", A: o.A})
		}
	}
	for i := 0; i < 4 && len(cands) > 0; i++ {
		j := g.r.Intn(len(cands))
		g.emit(cands[j])
		cands = append(cands[:j], cands[j+1:]...)
	}
}

// a call frame: snapshot, body, reverted or not
func (g *gen) frame(depth int) {
	g.snapshot()
	start := len(g.ops)
	n := g.r.Range(1, 5)
	for i := 0; i < n; i++ {
		g.mutate(depth)
	}
	if g.r.Chance(2, 5) {
		g.revertTop()
		g.probe(start)
		if g.r.Chance(1, 2) {
			g.read()
		}
	} else {
		g.popSnap()
	}
}

func (g *gen) malformed() {
	switch g.r.Intn(6) {
	case 0: // CreateAccount wherever
		g.emit(c03Op{K: "create", A: g.anyAddr()})
	case 1: // stale or unknown snapshot id
		id := int64(g.r.Range(0, 12))
		if len(g.dead) > 0 && g.r.Chance(1, 2) {
			id = int64(g.dead[g.r.Intn(len(g.dead))])
		}
		r := g.emit(c03Op{K: "revert", V: id})
		if len(r) == 0 { // it was live: everything above it is gone
			for len(g.snaps) > 0 && int64(g.snaps[len(g.snaps)-1]) >= id {
				g.dead = append(g.dead, g.snaps[len(g.snaps)-1])
				g.snaps = g.snaps[:len(g.snaps)-1]
			}
		}
	case 2: // refund underflow
		g.emit(c03Op{K: "subrefund", V: int64(g.db.GetRefund()) + int64(g.r.Range(1, 5))})
	case 3: // fractions of a unibi
		a := g.anyAddr()
		g.dust[a]++
		g.emit(c03Op{K: "add", A: a, V: int64(g.r.Range(1, 999_999)) * 1_000_000})
	case 4: // self-destruct of anything
		g.emit(c03Op{K: "suicide", A: g.anyAddr()})
	case 5: // access list preparation in the middle (geth resets its list without journaling: the shadow may
		// panic in a later revert and stop being a faithful mirror of the balances)
		g.st.noSpend = true
		d := g.anyAddr()
		g.emit(c03Op{K: "prepare", A: g.anyAddr(), Dst: &d, Pre: []int{g.anyAddr()}, AL: [][]int{{g.anyAddr(), g.anyKey()}}})
	}
}

// genTx produces one transaction on the shadow state.
// caseState is what the generator remembers across the transactions of one case
type caseState struct {
	dust    [nAddrs]int64
	noSpend bool // the shadow's balances are no longer a lower bound of Nibiru's: no more debits
}

func genTx(r *Rng, u universe, shadow *gethSide, first, bad bool, st *caseState) []c03Op {
	g := &gen{r: r, u: u, db: shadow.open(), bad: bad, sender: -1, dust: &st.dust, st: st}
	for a := 0; a < nAddrs; a++ {
		for k := 0; k < nKeys; k++ {
			g.base[a][k] = g.db.GetState(u.addr(a), keyOf(k)) != (gethcommon.Hash{})
		}
	}
	if first {
		// funding transaction
		for a := 0; a < nAddrs; a++ {
			if r.Chance(3, 4) {
				g.emit(c03Op{K: "add", A: a, V: int64(r.Range(1, 200)) * wei})
			}
		}
		for i := r.Range(1, 3); i > 0; i-- {
			a := g.anyAddr()
			if g.db.GetCodeSize(u.addr(a)) == 0 {
				g.emit(c03Op{K: "setnonce", A: a, V: 1})
				g.emit(c03Op{K: "setcode", A: a, V: int64(r.Range(1, 6))})
				for j := r.Range(0, 3); j > 0; j-- {
					g.emit(c03Op{K: "setstate", A: a, Key: g.anyKey(), V: int64(r.Range(1, 3))})
				}
			}
		}
	} else {
		// ApplyEvmMsg prologue: access list, nonce bracket
		s := g.anyAddr()
		g.sender = s
		d := g.anyAddr()
		var al [][]int
		for i := r.Range(0, 2); i > 0; i-- {
			el := []int{g.anyAddr()}
			for j := r.Range(0, 2); j > 0; j-- {
				el = append(el, g.anyKey())
			}
			al = append(al, el)
		}
		g.emit(c03Op{K: "prepare", A: s, Dst: &d, Pre: []int{g.anyAddr()}, AL: al})
		n := int64(g.db.GetNonce(u.addr(s)))
		g.emit(c03Op{K: "setnonce", A: s, V: n})
		g.frame(0)
		for i := r.Range(0, 2); i > 0; i-- {
			g.frame(0)
		}
		g.emit(c03Op{K: "setnonce", A: s, V: n + 1})
		g.emit(c03Op{K: "refund"})
		g.emit(c03Op{K: "logs"})
	}
	root, err := g.db.Commit(true)
	if err == nil {
		shadow.root = root
	}
	return g.ops
}

func genCase(r *Rng, bad bool) [][]c03Op {
	u := universe{ns: 0xffffffff}
	shadow := newGethSide()
	var txs [][]c03Op
	st := &caseState{}
	n := r.Range(2, 4)
	for i := 0; i < n; i++ {
		txs = append(txs, genTx(r, u, shadow, i == 0, bad && i > 0, st))
	}
	return txs
}

// ---------------------------------------------------------------- driver

func TestC03(t *testing.T) {
	cfg := LoadCfg(t, 300, 4000)
	em := NewEmitter(t, cfg.Out)
	defer em.Close()
	nib := &nibSide{}
	caseNo := uint32(0)
	run := func(txs [][]c03Op, extra map[string]interface{}) {
		if nib.deps == nil || nib.used >= 200 {
			d := evmtest.NewTestDeps()
			nib.deps, nib.used = &d, 0
		}
		nib.used++
		caseNo++
		u := universe{ns: caseNo}
		g := newGethSide()
		obs := c03Obs{}
		for _, ops := range txs {
			obs.Nib = append(obs.Nib, nib.runTx(u, ops))
			obs.Geth = append(obs.Geth, g.runTx(u, ops))
		}
		em.Emit(txs, obs, extra)
	}
	if cfg.Replay != "" {
		for _, raw := range cfg.ReplayInputs(t) {
			if len(raw) > 0 && raw[0] == '{' {
				continue // an input of driver (b)
			}
			var txs [][]c03Op
			if err := json.Unmarshal(raw, &txs); err != nil {
				t.Fatal(err)
			}
			nib.deps = nil
			run(txs, nil)
		}
		return
	}
	for _, txs := range openers() {
		run(txs, map[string]interface{}{"stream": "opener"})
	}
	rng := NewRng(cfg.Seed)
	for i := 0; i < cfg.N; i++ {
		bad := i%5 == 4
		stream := "wf"
		if bad {
			stream = "malformed"
		}
		run(genCase(rng.Fork(), bad), map[string]interface{}{"stream": stream})
	}
	_ = fmt.Sprint
}

// fixed opener cases: the shapes in which a journal implementation typically goes wrong
func openers() [][][]c03Op {
	w := wei
	one := 1
	return [][][]c03Op{
		// storage write reverted, then committed: slot must keep the committed value
		{
			{{K: "add", A: 0, V: 10 * w}, {K: "setnonce", A: 1, V: 1}, {K: "setcode", A: 1, V: 3}, {K: "setstate", A: 1, Key: 0, V: 2}},
			{{K: "snap"}, {K: "setstate", A: 1, Key: 0, V: 3}, {K: "state", A: 1, Key: 0}, {K: "revert", V: 0}, {K: "state", A: 1, Key: 0}, {K: "cstate", A: 1, Key: 0}},
			{{K: "setstate", A: 1, Key: 0, V: 0}, {K: "snap"}, {K: "setstate", A: 1, Key: 0, V: 2}, {K: "revert", V: 0}, {K: "state", A: 1, Key: 0}},
		},
		// created-then-reverted account, nested frames, self-destruct reverted and not
		{
			{{K: "add", A: 0, V: 50 * w}, {K: "add", A: 2, V: 7 * w}, {K: "setnonce", A: 2, V: 1}, {K: "setcode", A: 2, V: 2}, {K: "setstate", A: 2, Key: 1, V: 1}},
			{{K: "snap"}, {K: "sub", A: 0, V: 5 * w}, {K: "add", A: 3, V: 5 * w}, {K: "setnonce", A: 3, V: 1}, {K: "snap"}, {K: "setstate", A: 3, Key: 0, V: 1}, {K: "revert", V: 1},
				{K: "exist", A: 3}, {K: "empty", A: 3}, {K: "revert", V: 0}, {K: "exist", A: 3}, {K: "empty", A: 3}, {K: "bal", A: 0}},
			{{K: "snap"}, {K: "bal", A: 2}, {K: "add", A: 0, V: 7 * w}, {K: "suicide", A: 2}, {K: "suicided", A: 2}, {K: "bal", A: 2}, {K: "revert", V: 0},
				{K: "suicided", A: 2}, {K: "bal", A: 2}, {K: "bal", A: 0}},
			{{K: "bal", A: 2}, {K: "add", A: 0, V: 7 * w}, {K: "suicide", A: 2}, {K: "add", A: 2, V: 1 * w}, {K: "state", A: 2, Key: 1}},
			{{K: "exist", A: 2}, {K: "empty", A: 2}, {K: "state", A: 2, Key: 1}, {K: "codehash", A: 2}, {K: "bal", A: 0}},
		},
		// CREATE onto a pre-funded address: the new object starts with the previous object's balance;
		// the endowment must not leak into the previous object when the creation is reverted
		{
			{{K: "add", A: 0, V: 50 * w}, {K: "add", A: 3, V: 3 * w}},
			{{K: "snap"}, {K: "create", A: 3}, {K: "setnonce", A: 3, V: 1}, {K: "sub", A: 0, V: 7 * w}, {K: "add", A: 3, V: 7 * w}, {K: "bal", A: 3},
				{K: "revert", V: 0}, {K: "bal", A: 3}, {K: "bal", A: 0}},
			{{K: "add", A: 3, V: 2 * w}, {K: "snap"}, {K: "create", A: 3}, {K: "setnonce", A: 3, V: 1}, {K: "sub", A: 0, V: 7 * w}, {K: "add", A: 3, V: 7 * w},
				{K: "snap"}, {K: "sub", A: 3, V: 1 * w}, {K: "add", A: 0, V: 1 * w}, {K: "revert", V: 1}, {K: "setcode", A: 3, V: 2}, {K: "bal", A: 3}},
			{{K: "bal", A: 3}, {K: "bal", A: 0}},
		},
		// refund, logs, access list across reverts; code set and reverted
		{
			{{K: "add", A: 0, V: 1 * w}},
			{{K: "prepare", A: 0, Dst: &one, Pre: []int{4}, AL: [][]int{{2, 0, 1}}}, {K: "addrefund", V: 4800}, {K: "snap"}, {K: "addrefund", V: 4800}, {K: "log", A: 0, V: 1},
				{K: "addslot", A: 3, Key: 2}, {K: "addal", A: 3}, {K: "setcode", A: 4, V: 5}, {K: "subrefund", V: 100}, {K: "revert", V: 0}, {K: "refund"}, {K: "logs"},
				{K: "inal", A: 3}, {K: "slotinal", A: 3, Key: 2}, {K: "slotinal", A: 2, Key: 1}, {K: "codehash", A: 4}, {K: "code", A: 4}, {K: "log", A: 0, V: 2}, {K: "logs"}},
		},
	}
}
