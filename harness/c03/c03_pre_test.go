package c03

// Inputs for the STANDARD precompiles 0x01..0x09 (ecrecover, sha256, ripemd160, identity, modexp,
// bn256 add / scalar mul / pairing, blake2f): valid, boundary and malformed shapes.  Used by the
// "pre" statement of generated contract bodies (drivers (b) and (c)) and by top-level messages sent
// straight to a precompile address (driver (b)).  The go-ethereum side runs vm.NewEVM with its OWN
// precompile set for the chain rules (upstream London = vm.PrecompiledContractsBerlin), never Nibiru's map.

import (
	"math/big"

	"github.com/ethereum/go-ethereum/crypto"
	"github.com/ethereum/go-ethereum/crypto/bn256"
)

func pad32(b []byte) []byte {
	out := make([]byte, 32)
	copy(out[32-len(b):], b)
	return out
}

func patBytes(n, seed int) []byte {
	out := make([]byte, n)
	for i := range out {
		out[i] = byte((i*7+seed*13+1)%255 + 1)
	}
	return out
}

var modexpShapes = [][3]int{{1, 1, 1}, {32, 32, 32}, {32, 1, 32}, {64, 32, 64}, {0, 0, 0}, {32, 32, 0}, {8, 40, 8}, {96, 3, 96}, {32, 32, 32}, {24, 32, 24}}

// modexpShape: operand lengths and the bit length of the first 32 bytes of the exponent
func modexpOperands(v int) (blen, elen, mlen int, exp []byte) {
	sh := modexpShapes[v%len(modexpShapes)]
	blen, elen, mlen = sh[0], sh[1], sh[2]
	exp = patBytes(elen, v)
	if elen > 0 {
		switch (v / len(modexpShapes)) % 3 {
		case 0:
			exp[0] = 0xff
		case 1:
			exp[0] = 0x01
		case 2: // exponent with a zero head
			for i := range exp {
				if i < 32 {
					exp[i] = 0
				}
			}
		}
	}
	return
}

func preInput(a, v int) []byte {
	if v < 0 {
		v = -v
	}
	switch a {
	case 1:
		key, _ := crypto.ToECDSA(crypto.Keccak256([]byte("c03-precompile-key")))
		hash := crypto.Keccak256([]byte{byte(v)})
		sig, err := crypto.Sign(hash, key)
		if err != nil {
			panic(err)
		}
		vv := byte(27 + sig[64])
		if v%3 == 2 {
			vv = 29 // invalid recovery id: empty output
		}
		in := append([]byte{}, hash...)
		in = append(in, pad32([]byte{vv})...)
		in = append(in, sig[:64]...)
		if v%5 == 4 {
			in = in[:100] // short input, right-padded with zeros by the precompile
		}
		return in
	case 2, 3, 4:
		return patBytes([]int{0, 1, 32, 33, 100}[v%5], v)
	case 5:
		blen, elen, mlen, exp := modexpOperands(v)
		in := append(pad32(big.NewInt(int64(blen)).Bytes()), pad32(big.NewInt(int64(elen)).Bytes())...)
		in = append(in, pad32(big.NewInt(int64(mlen)).Bytes())...)
		in = append(in, patBytes(blen, v+1)...)
		in = append(in, exp...)
		mod := patBytes(mlen, v+2)
		if mlen > 0 {
			mod[mlen-1] |= 1
		}
		return append(in, mod...)
	case 6:
		g1 := new(bn256.G1).ScalarBaseMult(big.NewInt(int64(v%3 + 1))).Marshal()
		switch v % 4 {
		case 0:
			return append(append([]byte{}, g1...), g1...)
		case 1:
			return make([]byte, 128) // infinity + infinity
		case 2:
			return append(pad32([]byte{1}), pad32([]byte{1})...) // (1,1) is not on the curve
		}
		return g1 // one point, the other one is the zero padding
	case 7:
		g1 := new(bn256.G1).ScalarBaseMult(big.NewInt(2)).Marshal()
		if v%3 == 2 {
			return append(append(pad32([]byte{1}), pad32([]byte{1})...), pad32([]byte{3})...)
		}
		return append(append([]byte{}, g1...), pad32(big.NewInt(int64(v+2)).Bytes())...)
	case 8:
		switch v % 3 {
		case 0:
			return nil // empty pairing: 1
		case 1:
			g1 := new(bn256.G1).ScalarBaseMult(big.NewInt(1)).Marshal()
			g2 := new(bn256.G2).ScalarBaseMult(big.NewInt(int64(v + 1))).Marshal()
			return append(append([]byte{}, g1...), g2...)
		}
		return patBytes(100, v) // length not a multiple of 192
	case 9:
		in := []byte{0, 0, 0, []byte{0, 1, 12}[v%3]}
		in = append(in, patBytes(64, v)...)
		in = append(in, patBytes(128, v+1)...)
		in = append(in, patBytes(16, v+2)...)
		in = append(in, 1)
		if v%4 == 3 {
			return in[:212] // wrong length
		}
		return in
	}
	return nil
}

// modexpHeadBits: bit length of the first min(32, elen) bytes of the exponent
func modexpHeadBits(v int) int {
	_, elen, _, exp := modexpOperands(v)
	if elen > 32 {
		exp = exp[:32]
	}
	return new(big.Int).SetBytes(exp).BitLen()
}
