package c03

// C03 driver (b): generated EVM bytecode programs through Keeper.ApplyEvmMsg (Nibiru StateDB,
// keeper stores) and through go-ethereum's core.ApplyMessage (core/state, in-memory trie) with
// the same block context, chain config and message.  Observables: gas used after refunds, VM
// error class, return data, logs, post-state (balance, nonce, code, 4 storage slots) of every
// address either side can have touched.  This validates the glue around the StateDB (intrinsic
// gas, access list preparation, nonce bracket, refund cap, commit); it is not the proof.
//
// Additionally a tracer captures the execution gas of the top frame, so that the Coq model of the
// refund arithmetic (gas_to_refund) is compared with what ApplyEvmMsg reported.

import (
	"encoding/json"
	"math/big"
	"sort"
	"testing"
	"time"

	gethcommon "github.com/ethereum/go-ethereum/common"
	"github.com/ethereum/go-ethereum/core"
	gethstate "github.com/ethereum/go-ethereum/core/state"
	gethcore "github.com/ethereum/go-ethereum/core/types"
	"github.com/ethereum/go-ethereum/core/vm"
	"github.com/ethereum/go-ethereum/crypto"
	gethparams "github.com/ethereum/go-ethereum/params"

	. "verifharness/hx"

	"github.com/NibiruChain/nibiru/v2/x/evm/evmtest"
	"github.com/NibiruChain/nibiru/v2/x/evm/statedb"
)

// ---------------------------------------------------------------- program text

// A statement of a contract body.
type pStmt struct {
	K      string `json:"k"`             // sstore sload log call dcall scall ccall create create2 selfdestruct revert invalid stop ret pre retpre
	A      int    `json:"a,omitempty"`   // key / target index / topic / beneficiary
	V      int    `json:"v,omitempty"`   // value (word, or unibi for call/create)
	Gas    int    `json:"gas,omitempty"` // call: 0 = all gas, else explicit limit
	Revert bool   `json:"rv,omitempty"`  // create: init code reverts
}

type pCase struct {
	Bodies   [][]pStmt `json:"bodies"` // runtime code of contracts 0..n-1 (contract i may call any target)
	Stor     [][2]int  `json:"stor"`   // initial storage: contract (A %n), key, value 1
	To       int       `json:"to"`     // -1 = contract creation with Bodies[0] as init code body
	GasLimit uint64    `json:"gas"`    // message gas limit
	Value    int       `json:"value"`  // unibi
	AL       [][]int   `json:"al"`     // access list: [target, keys…]
	Nonce    uint64    `json:"nonce"`  // sender nonce
	Pre      []int     `json:"pre,omitempty"` // [address 1..9, input variant]: the message goes straight to a standard precompile
}

const nTargets = 6 // call targets: 0..2 contracts, 3 sender EOA, 4 empty address, 5 funded EOA

type asm struct{ b []byte }

func (a *asm) op(o ...byte) *asm { a.b = append(a.b, o...); return a }
func (a *asm) push1(v int) *asm  { return a.op(0x60, byte(v)) }
func (a *asm) pushAddr(x gethcommon.Address) *asm {
	a.b = append(a.b, 0x73)
	a.b = append(a.b, x.Bytes()...)
	return a
}
func (a *asm) push2(v int) *asm { return a.op(0x61, byte(v>>8), byte(v)) }

// callPrecompile: input written to memory 0.., CALL(all gas, addr, 0, 0, len(in), out, 64), result dropped
func (a *asm) callPrecompile(addr int, in []byte, out int) *asm {
	for off := 0; off < len(in); off += 32 {
		chunk := make([]byte, 32)
		copy(chunk, in[off:])
		a.b = append(a.b, 0x7f)
		a.b = append(a.b, chunk...)
		a.push2(off).op(0x52) // MSTORE
	}
	a.push1(64).push2(out).push2(len(in)).push1(0).push1(0).push1(addr).op(0x5a, 0xf1, 0x50)
	return a
}

func (a *asm) pushBig(v *big.Int) *asm {
	bz := v.Bytes()
	if len(bz) == 0 {
		return a.push1(0)
	}
	a.b = append(a.b, byte(0x5f+len(bz)))
	a.b = append(a.b, bz...)
	return a
}

func unibiWei(n int) *big.Int { return new(big.Int).Mul(big.NewInt(int64(n)), big.NewInt(wei)) }

// initcode that optionally SSTOREs, then returns a 1-byte runtime (STOP) or reverts
func tinyInit(revert bool, v int) []byte {
	a := &asm{}
	a.push1(v).push1(3).op(0x55) // SSTORE(3, v)
	if revert {
		a.push1(0).push1(0).op(0xfd)
	} else {
		a.push1(0).push1(0).op(0x53) // MSTORE8(0, 0)  -> runtime = 0x00 (STOP)
		a.push1(1).push1(0).op(0xf3) // RETURN(0,1)
	}
	return a.b
}

func compile(body []pStmt, targets []gethcommon.Address) []byte {
	a := &asm{}
	npre := 0
	for _, s := range body {
		switch s.K {
		case "pre": // standard precompile 1..9; the i-th output of a body lands at 0x400 + 64*(i mod 4)
			a.callPrecompile((s.A-1)%9+1, preInput((s.A-1)%9+1, s.V), 0x400+64*(npre%4))
			npre++
		case "retpre":
			a.push2(256).push2(0x400).op(0xf3)
		case "sstore":
			a.push1(s.V).push1(s.A % nKeys).op(0x55)
		case "sload":
			a.push1(s.A%nKeys).op(0x54, 0x50)
		case "log":
			a.push1(s.A).push1(0).push1(0).op(0xa1) // LOG1(0,0,topic)
		case "call", "ccall":
			a.push1(0).push1(0).push1(0).push1(0)
			a.pushBig(unibiWei(s.V))
			a.pushAddr(targets[s.A%nTargets])
			if s.Gas == 0 {
				a.op(0x5a) // GAS
			} else {
				a.pushBig(big.NewInt(int64(s.Gas)))
			}
			if s.K == "call" {
				a.op(0xf1)
			} else {
				a.op(0xf2)
			}
			a.op(0x50)
		case "dcall", "scall":
			a.push1(0).push1(0).push1(0).push1(0)
			a.pushAddr(targets[s.A%nTargets])
			if s.Gas == 0 {
				a.op(0x5a)
			} else {
				a.pushBig(big.NewInt(int64(s.Gas)))
			}
			if s.K == "dcall" {
				a.op(0xf4)
			} else {
				a.op(0xfa)
			}
			a.op(0x50)
		case "create", "create2":
			init := tinyInit(s.Revert, s.V%4)
			// copy init code into memory with CODECOPY-free approach: MSTORE8 byte by byte
			for i, c := range init {
				a.push1(int(c)).push1(i).op(0x53)
			}
			if s.K == "create2" {
				a.push1(s.A) // salt
			}
			a.push1(len(init)).push1(0)
			a.pushBig(unibiWei(s.V % 3))
			if s.K == "create" {
				a.op(0xf0)
			} else {
				a.op(0xf5)
			}
			a.op(0x50)
		case "selfdestruct":
			a.pushAddr(targets[s.A%nTargets]).op(0xff)
		case "revert":
			a.push1(0).push1(0).op(0xfd)
		case "invalid":
			a.op(0xfe)
		case "stop":
			a.op(0x00)
		case "ret":
			a.push1(s.V).push1(0).op(0x53).push1(1).push1(0).op(0xf3)
		}
	}
	a.op(0x00)
	return a.b
}

// ---------------------------------------------------------------- world

type pWorld struct {
	u       universe
	targets []gethcommon.Address
	watch   []gethcommon.Address // addresses whose post-state is compared
	codes   [][]byte
}

func newPWorld(u universe, c pCase) *pWorld {
	w := &pWorld{u: u}
	for i := 0; i < nTargets; i++ {
		w.targets = append(w.targets, u.addr(100+i))
	}
	n := len(c.Bodies)
	for i := 0; i < 3; i++ {
		var code []byte
		if i < n {
			code = compile(c.Bodies[i], w.targets)
		}
		w.codes = append(w.codes, code)
	}
	w.watch = append(w.watch, w.targets...)
	sender := w.targets[3]
	// addresses created by the sender (creation tx) and by the contracts (CREATE with nonce 1,2; CREATE2 salts 0..3)
	w.watch = append(w.watch, crypto.CreateAddress(sender, c.Nonce))
	initHashes := []gethcommon.Hash{}
	for _, rv := range []bool{false, true} {
		for v := 0; v < 4; v++ {
			initHashes = append(initHashes, crypto.Keccak256Hash(tinyInit(rv, v)))
		}
	}
	creators := append([]gethcommon.Address{}, w.targets[:3]...)
	creators = append(creators, crypto.CreateAddress(sender, c.Nonce))
	for _, cr := range creators {
		for nn := uint64(1); nn <= 3; nn++ {
			w.watch = append(w.watch, crypto.CreateAddress(cr, nn))
		}
		for salt := 0; salt < 4; salt++ {
			for _, h := range initHashes {
				w.watch = append(w.watch, crypto.CreateAddress2(cr, gethcommon.BigToHash(big.NewInt(int64(salt))), h.Bytes()))
			}
		}
	}
	return w
}

// genesis writes the initial world through the vm.StateDB interface (same calls on both sides)
func (w *pWorld) genesis(db vm.StateDB, c pCase) {
	for i := 0; i < 3; i++ {
		if len(w.codes[i]) > 0 {
			db.SetNonce(w.targets[i], 1)
			db.SetCode(w.targets[i], w.codes[i])
			db.AddBalance(w.targets[i], unibiWei(10))
		}
	}
	for _, st := range c.Stor {
		t := st[0] % 3
		if len(w.codes[t]) > 0 {
			db.SetState(w.targets[t], keyOf(st[1]%nKeys), wordOf(1))
		}
	}
	db.AddBalance(w.targets[3], unibiWei(1000))
	db.SetNonce(w.targets[3], c.Nonce)
	db.AddBalance(w.targets[5], unibiWei(7))
}

func (w *pWorld) message(c pCase) gethcore.Message {
	var to *gethcommon.Address
	var data []byte
	if len(c.Pre) == 2 {
		t := gethcommon.BytesToAddress([]byte{byte((c.Pre[0]-1)%9 + 1)})
		to = &t
		data = preInput((c.Pre[0]-1)%9+1, c.Pre[1])
	} else if c.To >= 0 {
		t := w.targets[c.To%3]
		to = &t
	} else {
		// creation: init code = body 0 followed by returning a 1-byte runtime
		body := compile(c.Bodies[0], w.targets)
		body = body[:len(body)-1]
		a := &asm{b: body}
		a.push1(0).push1(0).op(0x53).push1(1).push1(0).op(0xf3)
		data = a.b
	}
	var al gethcore.AccessList
	for _, el := range c.AL {
		t := gethcore.AccessTuple{Address: w.targets[el[0]%nTargets]}
		for _, k := range el[1:] {
			t.StorageKeys = append(t.StorageKeys, keyOf(k%nKeys))
		}
		al = append(al, t)
	}
	zero := new(big.Int)
	return gethcore.NewMessage(w.targets[3], to, c.Nonce, unibiWei(c.Value), c.GasLimit, zero, zero, zero, data, al, false)
}

// topGas records the gas used by the top call frame.
type topGas struct {
	used  uint64
	ended bool
}

func (t *topGas) CaptureTxStart(uint64) {}
func (t *topGas) CaptureTxEnd(uint64)   {}
func (t *topGas) CaptureStart(*vm.EVM, gethcommon.Address, gethcommon.Address, bool, []byte, uint64, *big.Int) {
}
func (t *topGas) CaptureEnd(_ []byte, gasUsed uint64, _ time.Duration, _ error) {
	t.used, t.ended = gasUsed, true
}
func (t *topGas) CaptureEnter(vm.OpCode, gethcommon.Address, gethcommon.Address, []byte, uint64, *big.Int) {
}
func (t *topGas) CaptureExit([]byte, uint64, error) {}
func (t *topGas) CaptureState(uint64, vm.OpCode, uint64, uint64, *vm.ScopeContext, []byte, int, error) {
}
func (t *topGas) CaptureFault(uint64, vm.OpCode, uint64, uint64, *vm.ScopeContext, int, error) {}

// ---------------------------------------------------------------- observation

var vmErrClass = map[string]int64{
	"":                                     0,
	vm.ErrExecutionReverted.Error():        1,
	vm.ErrOutOfGas.Error():                 2,
	vm.ErrCodeStoreOutOfGas.Error():        3,
	vm.ErrDepth.Error():                    4,
	vm.ErrInsufficientBalance.Error():      5,
	vm.ErrContractAddressCollision.Error(): 6,
	vm.ErrWriteProtection.Error():          7,
	vm.ErrMaxCodeSizeExceeded.Error():      8,
	vm.ErrGasUintOverflow.Error():          9,
}

func classifyVMErr(s string) int64 {
	if c, ok := vmErrClass[s]; ok {
		return c
	}
	if len(s) >= 14 && s[:14] == "invalid opcode" {
		return 10
	}
	if len(s) >= 15 && s[:15] == "stack underflow" {
		return 11
	}
	return 99
}

type pObs struct {
	Rejected bool     `json:"rejected"`
	GasUsed  uint64   `json:"gas"`
	Err      int64    `json:"err"`
	Ret      []int64  `json:"ret"`
	Logs     []int64  `json:"logs"` // per log: address index in watch list, topic0
	State    []c03Row `json:"state"`
}

func (w *pWorld) watchIndex(a gethcommon.Address) int64 {
	for i, x := range w.watch {
		if x == a {
			return int64(i)
		}
	}
	return -1
}

func (w *pWorld) logsOf(ls []*gethcore.Log) []int64 {
	out := []int64{}
	for _, l := range ls {
		t := int64(-1)
		if len(l.Topics) > 0 {
			t = wordID(l.Topics[0])
		}
		out = append(out, w.watchIndex(l.Address), t)
	}
	return out
}

func codeTag(code []byte) int {
	if len(code) == 0 {
		return 0
	}
	h := crypto.Keccak256(code)
	return 1 + int(h[0])<<8 + int(h[1]) // short content tag
}

// ---------------------------------------------------------------- the two runs

type pResult struct {
	Nib     pObs   `json:"nib"`
	Geth    pObs   `json:"geth"`
	Quot    uint64 `json:"quot"`     // params.RefundQuotientEIP3529 as linked
	Refund  uint64 `json:"refund"`   // refund counter after execution (Nibiru)
	UsedPre int64  `json:"used_pre"` // intrinsic + top-frame gas before the refund (Nibiru), -1 unknown
	// a message straight to MODEXP (0x05): intrinsic gas, operand lengths, bit length of the exponent head
	Modexp []int64 `json:"modexp,omitempty"`
}

func runProgram(deps *evmtest.TestDeps, u universe, c pCase) pResult {
	w := newPWorld(u, c)
	res := pResult{Quot: gethparams.RefundQuotientEIP3529, UsedPre: -1}
	msg := w.message(c)
	intrinsic, _ := core.IntrinsicGas(msg.Data(), msg.AccessList(), msg.To() == nil, true, true)
	if len(c.Pre) == 2 && (c.Pre[0]-1)%9+1 == 5 {
		v := c.Pre[1]
		if v < 0 {
			v = -v
		}
		bl, el, ml, _ := modexpOperands(v)
		res.Modexp = []int64{int64(intrinsic), int64(bl), int64(el), int64(ml), int64(modexpHeadBits(v))}
	}

	// --- Nibiru
	txCfg := statedb.NewEmptyTxConfig(gethcommon.BytesToHash(deps.Ctx.HeaderHash()))
	gdb := deps.EvmKeeper.NewStateDB(deps.Ctx, txCfg)
	w.genesis(gdb, c)
	if err := gdb.Commit(); err != nil {
		panic(err)
	}
	deps.EvmKeeper.Bank.StateDB = nil
	evmCfg := deps.EvmKeeper.GetEVMConfig(deps.Ctx)
	sdb := deps.EvmKeeper.NewStateDB(deps.Ctx, txCfg)
	tr := &topGas{}
	evmObj := deps.EvmKeeper.NewEVM(deps.Ctx, msg, evmCfg, tr, sdb)
	blockCtx := evmObj.Context
	var nerr error
	var nresp = struct {
		gas  uint64
		verr string
		ret  []byte
		logs []*gethcore.Log
	}{}
	if p := Recover(func() {
		resp, err := deps.EvmKeeper.ApplyEvmMsg(deps.Ctx, msg, evmObj, tr, true, gethcommon.Hash{})
		nerr = err
		if resp != nil {
			nresp.gas, nresp.verr, nresp.ret = resp.GasUsed, resp.VmError, resp.Ret
		}
	}); p != "" {
		res.Nib.Err = 98
	}
	deps.EvmKeeper.Bank.StateDB = nil
	nresp.logs = sdb.Logs()
	if nerr != nil {
		res.Nib.Rejected = true
	} else {
		res.Nib.GasUsed = nresp.gas
		if res.Nib.Err == 0 {
			res.Nib.Err = classifyVMErr(nresp.verr)
		}
		res.Nib.Ret = bytesToInts(nresp.ret)
		res.Nib.Logs = w.logsOf(nresp.logs)
		res.Refund = sdb.GetRefund()
		if tr.ended {
			res.UsedPre = int64(intrinsic + tr.used)
		}
	}
	for _, a := range w.watch {
		row := c03Row{Bal: "0", Stor: []int64{}}
		if acc := deps.EvmKeeper.GetAccount(deps.Ctx, a); acc != nil {
			row.Exists = true
			row.Bal = new(big.Int).Mul(acc.BalanceNative, big.NewInt(wei)).String()
			row.Nonce = acc.Nonce
			h := gethcommon.BytesToHash(acc.CodeHash)
			if h != crypto.Keccak256Hash(nil) && h != (gethcommon.Hash{}) {
				var code []byte
				if p := Recover(func() { code = deps.EvmKeeper.GetCode(deps.Ctx, h) }); p != "" {
					row.Code = -3
				} else {
					row.Code = codeTag(code)
				}
			}
		}
		for j := 0; j < nKeys; j++ {
			row.Stor = append(row.Stor, wordID(deps.EvmKeeper.GetState(deps.Ctx, a, keyOf(j))))
		}
		res.Nib.State = append(res.Nib.State, row)
	}

	// --- go-ethereum
	g := newGethSide()
	gd := g.open()
	w.genesis(gd, c)
	root, err := gd.Commit(true)
	if err != nil {
		panic(err)
	}
	g.root = root
	db := g.open()
	gevm := vm.NewEVM(blockCtx, core.NewEVMTxContext(msg), db, evmCfg.ChainConfig, vm.Config{NoBaseFee: true})
	gp := new(core.GasPool).AddGas(blockCtx.GasLimit + c.GasLimit)
	var gres *core.ExecutionResult
	var gerr error
	if p := Recover(func() { gres, gerr = core.ApplyMessage(gevm, msg, gp) }); p != "" {
		res.Geth.Err = 98
	}
	if gerr != nil || gres == nil {
		res.Geth.Rejected = true
	} else {
		res.Geth.GasUsed = gres.UsedGas
		if gres.Err != nil {
			res.Geth.Err = classifyVMErr(gres.Err.Error())
		}
		res.Geth.Ret = bytesToInts(gres.ReturnData)
		res.Geth.Logs = w.logsOf(db.Logs())
	}
	if root, err := db.Commit(true); err == nil {
		g.root = root
	}
	rd := g.open()
	for _, a := range w.watch {
		row := c03Row{Bal: "0", Stor: []int64{}}
		if rd.Exist(a) {
			row.Exists = true
			row.Bal = rd.GetBalance(a).String()
			row.Nonce = rd.GetNonce(a)
			row.Code = codeTag(rd.GetCode(a))
		}
		for j := 0; j < nKeys; j++ {
			row.Stor = append(row.Stor, wordID(rd.GetState(a, keyOf(j))))
		}
		res.Geth.State = append(res.Geth.State, row)
	}
	return res
}

func bytesToInts(b []byte) []int64 {
	out := []int64{}
	for _, x := range b {
		out = append(out, int64(x))
	}
	return out
}

// ---------------------------------------------------------------- generator

func genBody(r *Rng, self int, depthBudget int) []pStmt {
	n := r.Range(1, 6)
	var b []pStmt
	for i := 0; i < n; i++ {
		switch r.Pick(6, 2, 2, 5, 1, 1, 1, 2, 1, 1, 1, 1, 1, 4) {
		case 13: // a standard precompile; MODEXP (the one whose price changed between forks) more often
			addr := r.Range(1, 9)
			if r.Chance(1, 3) {
				addr = 5
			}
			b = append(b, pStmt{K: "pre", A: addr, V: r.Intn(60)})
			if r.Chance(1, 2) {
				b = append(b, pStmt{K: "retpre"})
				return b
			}
		case 0:
			b = append(b, pStmt{K: "sstore", A: r.Intn(nKeys), V: r.Pick(4, 2, 1)})
		case 1:
			b = append(b, pStmt{K: "sload", A: r.Intn(nKeys)})
		case 2:
			b = append(b, pStmt{K: "log", A: r.Range(1, 9)})
		case 3:
			gas := 0
			if r.Chance(1, 3) {
				gas = []int{2300, 5000, 20000, 40000}[r.Intn(4)]
			}
			b = append(b, pStmt{K: "call", A: r.Intn(nTargets), V: r.Pick(4, 2, 1), Gas: gas})
		case 4:
			b = append(b, pStmt{K: "dcall", A: r.Intn(3)})
		case 5:
			b = append(b, pStmt{K: "scall", A: r.Intn(3)})
		case 6:
			b = append(b, pStmt{K: "ccall", A: r.Intn(3), V: r.Pick(3, 1)})
		case 7:
			b = append(b, pStmt{K: "create", V: r.Intn(6), Revert: r.Chance(1, 4)})
		case 8:
			b = append(b, pStmt{K: "create2", A: r.Intn(4), V: r.Intn(6), Revert: r.Chance(1, 4)})
		case 9:
			b = append(b, pStmt{K: "selfdestruct", A: r.Intn(nTargets)})
			return b
		case 10:
			b = append(b, pStmt{K: "revert"})
			return b
		case 11:
			b = append(b, pStmt{K: "invalid"})
			return b
		case 12:
			b = append(b, pStmt{K: "ret", V: r.Intn(200)})
			return b
		}
	}
	return b
}

func genProgram(r *Rng) pCase {
	c := pCase{To: r.Intn(3), Nonce: uint64(r.Intn(3))}
	nb := r.Range(1, 3)
	for i := 0; i < nb; i++ {
		c.Bodies = append(c.Bodies, genBody(r, i, 3))
	}
	c.To = c.To % nb
	if r.Chance(1, 6) {
		c.To = -1
	}
	for i := r.Range(2, 7); i > 0; i-- {
		c.Stor = append(c.Stor, [2]int{r.Intn(3), r.Intn(nKeys)})
	}
	c.GasLimit = []uint64{30_000, 60_000, 100_000, 300_000, 1_000_000}[r.Pick(1, 2, 3, 3, 2)]
	c.Value = r.Pick(4, 1, 1)
	if r.Chance(1, 7) { // the message goes straight to a standard precompile
		addr := r.Range(1, 9)
		if r.Chance(1, 2) {
			addr = 5
		}
		c.Pre = []int{addr, r.Intn(60)}
		c.To, c.Value = 0, 0
		c.GasLimit = []uint64{30_000, 60_000, 100_000, 300_000}[r.Pick(1, 2, 3, 3)]
	}
	for i := r.Range(0, 2); i > 0; i-- {
		el := []int{r.Intn(nTargets)}
		for j := r.Range(0, 2); j > 0; j-- {
			el = append(el, r.Intn(nKeys))
		}
		c.AL = append(c.AL, el)
	}
	return c
}

func progOpeners() []pCase {
	return []pCase{
		// SSTORE clear refund (slot 0 preset to 1), then nested call that reverts an SSTORE
		{Bodies: [][]pStmt{{{K: "sstore", A: 0, V: 0}, {K: "call", A: 1}, {K: "log", A: 1}}, {{K: "sstore", A: 1, V: 2}, {K: "revert"}}},
			Stor: [][2]int{{0, 0}, {0, 1}}, To: 0, GasLimit: 300_000},
		// many clears: the refund cap binds
		{Bodies: [][]pStmt{{{K: "sstore", A: 0, V: 0}, {K: "sstore", A: 1, V: 0}, {K: "sstore", A: 2, V: 0}, {K: "sstore", A: 3, V: 0}}},
			Stor: [][2]int{{0, 0}, {0, 1}, {0, 2}, {0, 3}}, To: 0, GasLimit: 100_000},
		// self-destruct inside a reverted frame and outside; value transfer to an empty address
		{Bodies: [][]pStmt{{{K: "call", A: 1}, {K: "call", A: 4, V: 1}, {K: "call", A: 2}}, {{K: "selfdestruct", A: 5}}, {{K: "call", A: 1}, {K: "invalid"}}},
			To: 0, GasLimit: 300_000, Value: 1},
		// creation tx whose init code creates and stores
		{Bodies: [][]pStmt{{{K: "sstore", A: 0, V: 1}, {K: "create", V: 1}, {K: "create2", A: 1, V: 2, Revert: true}, {K: "log", A: 3}}},
			To: -1, GasLimit: 1_000_000, Value: 2, AL: [][]int{{0, 1}}},
		// the standard precompiles from a contract: every address once, MODEXP with 32-byte operands, output returned
		{Bodies: [][]pStmt{{{K: "pre", A: 1, V: 0}, {K: "pre", A: 2, V: 2}, {K: "pre", A: 3, V: 3}, {K: "pre", A: 4, V: 2}, {K: "pre", A: 5, V: 1}, {K: "retpre"}}},
			To: 0, GasLimit: 300_000},
		{Bodies: [][]pStmt{{{K: "pre", A: 6, V: 0}, {K: "pre", A: 7, V: 0}, {K: "pre", A: 8, V: 1}, {K: "pre", A: 9, V: 2}, {K: "sstore", A: 0, V: 1}, {K: "retpre"}}},
			To: 0, GasLimit: 1_000_000},
		// straight to MODEXP: 32-byte operands; 64-byte base and modulus
		{Bodies: [][]pStmt{{{K: "stop"}}}, To: 0, GasLimit: 100_000, Pre: []int{5, 1}},
		{Bodies: [][]pStmt{{{K: "stop"}}}, To: 0, GasLimit: 100_000, Pre: []int{5, 3}},
	}
}

func TestC03Programs(t *testing.T) {
	cfg := LoadCfg(t, 300, 4000)
	n := cfg.N / 2
	if cfg.Replay != "" {
		// replay files of driver (a) are lists of op lists; ours are objects
		var probe []json.RawMessage
		for _, raw := range cfg.ReplayInputs(t) {
			if len(raw) > 0 && raw[0] == '{' && !isMsgsInput(raw) { // objects with "msgs" belong to driver (c)
				probe = append(probe, raw)
			}
		}
		if len(probe) == 0 {
			return
		}
		em := NewEmitter(t, cfg.Out)
		defer em.Close()
		for i, raw := range probe {
			var c pCase
			if err := json.Unmarshal(raw, &c); err != nil {
				t.Fatal(err)
			}
			d := evmtest.NewTestDeps()
			em.Emit(c, runProgram(&d, universe{ns: uint32(0x7000 + i)}, c), map[string]interface{}{"driver": "prog"})
		}
		return
	}
	em := NewEmitter(t, cfg.Out)
	defer em.Close()
	var deps *evmtest.TestDeps
	used := 0
	caseNo := uint32(0x10000)
	run := func(c pCase, stream string) {
		if deps == nil || used >= 150 {
			d := evmtest.NewTestDeps()
			deps, used = &d, 0
		}
		used++
		caseNo++
		em.Emit(c, runProgram(deps, universe{ns: caseNo}, c), map[string]interface{}{"driver": "prog", "stream": stream})
	}
	for _, c := range progOpeners() {
		run(c, "opener")
	}
	rng := NewRng(cfg.Seed ^ 0x5eed)
	for i := 0; i < n; i++ {
		run(genProgram(rng.Fork()), "gen")
	}
	_ = sort.Ints
	_ = gethstate.New
}
