// Command gen/c18 prints coq/Gen/C18Facts.v from the /repo working tree (terms, never verdicts):
// the ordered non-EVM ante chain, the dev-gas payout formula / bank send / recipient collection in a
// normal form that ignores local names, early-return vs nested-if, range vs index loops and
// straight-line unexported helpers, and the order of guard / write calls in the registry handlers.
package main

import (
	"fmt"
	"go/ast"
	"go/token"
	"regexp"
	"strings"

	. "verifharness/genlib"
)

func main() {
	repo := Repo()
	Header(repo)
	fmt.Println("From Coq Require Import String List. Import ListNotations. Open Scope string_scope.")

	// ---- ante chain of NewAnteHandlerNonEVM
	app := ParseDir(repo + "/app")
	af := Funcs(app)
	var chain []string
	var devgasArgs []string
	if fd := af["NewAnteHandlerNonEVM"]; fd != nil && fd.Body != nil {
		ast.Inspect(fd.Body, func(n ast.Node) bool {
			call, ok := n.(*ast.CallExpr)
			if !ok {
				return true
			}
			if Nospace(call.Fun) != "sdk.ChainAnteDecorators" {
				return true
			}
			for _, a := range call.Args {
				switch x := a.(type) {
				case *ast.CallExpr:
					name := Nospace(x.Fun)
					chain = append(chain, name)
					if strings.HasSuffix(name, "NewDevGasPayoutDecorator") {
						for _, aa := range x.Args {
							devgasArgs = append(devgasArgs, Nospace(aa))
						}
					}
				case *ast.CompositeLit:
					chain = append(chain, Nospace(x.Type)+"{}")
				default:
					chain = append(chain, "?"+Nospace(a))
				}
			}
			return false
		})
	}
	printList("nonevm_chain", chain)
	printList("devgas_decorator_args", devgasArgs)
	// which keeper the options hand to the decorator (app.go: DevGasBankKeeper: app.BankKeeper)
	bankWiring := ""
	for _, fl := range app {
		ast.Inspect(fl.F, func(n ast.Node) bool {
			kv, ok := n.(*ast.KeyValueExpr)
			if ok {
				if id, ok := kv.Key.(*ast.Ident); ok && id.Name == "DevGasBankKeeper" {
					bankWiring = Nospace(kv.Value)
				}
			}
			return true
		})
	}
	fmt.Printf("Definition devgas_bank_keeper_wiring : string := %s.\n", CoqString(bankWiring))

	// blocked addresses of the bank keeper: app_config.go hands `blockAccAddrs` to the bank module as
	// BlockedModuleAccountsOverride (x/evm/evmmodule builds the keeper's blocked map from it)
	var blocked []string
	override := ""
	for _, fl := range app {
		ast.Inspect(fl.F, func(n ast.Node) bool {
			switch x := n.(type) {
			case *ast.ValueSpec:
				if len(x.Names) == 1 && x.Names[0].Name == "blockAccAddrs" && len(x.Values) == 1 {
					if cl, ok := x.Values[0].(*ast.CompositeLit); ok {
						for _, e := range cl.Elts {
							blocked = append(blocked, Nospace(e))
						}
					}
				}
			case *ast.KeyValueExpr:
				if id, ok := x.Key.(*ast.Ident); ok && id.Name == "BlockedModuleAccountsOverride" {
					override = Nospace(x.Value)
				}
			}
			return true
		})
	}
	printList("blocked_module_accounts", blocked)
	fmt.Printf("Definition blocked_override_wiring : string := %s.\n", CoqString(override))

	// ---- x/devgas/v1/ante
	dante := ParseDir(repo + "/x/devgas/v1/ante")
	df := Funcs(dante)

	pkg := &pkgInfo{funcs: df}

	// FeePayLogic: the coin that is added per fee coin, with locals inlined, parameters P<i>, and loop
	// variables written elem(<ranged expr>) — e.g. sdk.NewCoin(elem(P0.Sort()).Denom, P1.MulInt(…).QuoInt64(int64(P2)).RoundInt())
	rewardCoin := ""
	if fd := df["FeePayLogic"]; fd != nil && fd.Body != nil {
		sc := newScope(pkg, fd)
		ast.Inspect(fd.Body, func(n ast.Node) bool {
			if c, ok := n.(*ast.CallExpr); ok && rewardCoin == "" {
				if sel, ok := c.Fun.(*ast.SelectorExpr); ok && sel.Sel.Name == "NewCoin" {
					rewardCoin = sc.resolve(c, 0)
				}
			}
			return true
		})
	}
	fmt.Printf("Definition reward_coin : string := %s.\n", CoqString(rewardCoin))

	// getWithdrawAddressesFromMsgs: asserted message types, ranged expressions, package-local calls
	var asserted, rcalls, rranges []string
	if fd := df["getWithdrawAddressesFromMsgs"]; fd != nil && fd.Body != nil {
		sc := newScope(pkg, fd)
		seen := map[string]bool{}
		add := func(l *[]string, k, v string) {
			if !seen[k+v] {
				seen[k+v] = true
				*l = append(*l, v)
			}
		}
		ast.Inspect(fd.Body, func(n ast.Node) bool {
			switch x := n.(type) {
			case *ast.TypeAssertExpr:
				if x.Type != nil {
					add(&asserted, "t", Nospace(x.Type))
				} else {
					add(&asserted, "t", "typeswitch")
				}
			case *ast.CaseClause:
				for _, e := range x.List {
					add(&asserted, "t", Nospace(e))
				}
			case *ast.RangeStmt:
				add(&rranges, "r", sc.resolve(x.X, 0))
			case *ast.ForStmt:
				if r := sc.forRange(x); r != "" {
					add(&rranges, "r", r)
				} else {
					add(&rranges, "r", "for?")
				}
			case *ast.CallExpr:
				name := sc.funName(x.Fun)
				if strings.HasPrefix(name, "R.") || pkg.funcs[name] != nil {
					add(&rcalls, "c", name)
				}
			}
			return true
		})
	}
	printList("recipients_asserted_types", asserted)
	printList("recipients_local_calls", rcalls)
	printList("recipients_ranges", rranges)

	// settleFeePayments: the bank send with everything inlined, and what its enclosing loop ranges over
	sendCall, sendLoop := "", ""
	nSends := 0
	if fd := df["settleFeePayments"]; fd != nil && fd.Body != nil {
		sc := newScope(pkg, fd)
		var loops []string
		var walk func(n ast.Node)
		walk = func(n ast.Node) {
			if n == nil {
				return
			}
			pushed := false
			switch x := n.(type) {
			case *ast.RangeStmt:
				loops = append(loops, "range("+sc.resolve(x.X, 0)+")")
				pushed = true
			case *ast.ForStmt:
				r := sc.forRange(x)
				if r == "" {
					r = "for?"
				} else {
					r = "range(" + r + ")"
				}
				loops = append(loops, r)
				pushed = true
			case *ast.CallExpr:
				if strings.HasSuffix(sc.funName(x.Fun), "SendCoinsFromModuleToAccount") {
					nSends++
					sendCall = sc.resolve(x, 0)
					sendLoop = strings.Join(loops, "/")
				}
			}
			ast.Inspect(n, func(m ast.Node) bool {
				if m == n {
					return true
				}
				if m != nil {
					walk(m)
				}
				return false
			})
			if pushed {
				loops = loops[:len(loops)-1]
			}
		}
		walk(fd.Body)
	}
	fmt.Printf("Definition send_call : string := %s.\n", CoqString(sendCall))
	fmt.Printf("Definition send_loop : string := %s.\n", CoqString(sendLoop))
	fmt.Printf("Definition send_call_sites : nat := %d.\n", nSends)

	// devGasPayout: arguments of the settle call (inlined) and the EnableFeeShare guard before it
	var settleArgs []string
	guardEnabled := false
	if fd := df["devGasPayout"]; fd != nil && fd.Body != nil {
		sc := newScope(pkg, fd)
		settlePos := token.Pos(0)
		ast.Inspect(fd.Body, func(n ast.Node) bool {
			if c, ok := n.(*ast.CallExpr); ok && strings.HasSuffix(sc.funName(c.Fun), "settleFeePayments") && settlePos == 0 {
				settlePos = c.Pos()
				for _, a := range c.Args {
					settleArgs = append(settleArgs, sc.resolve(a, 0))
				}
			}
			return true
		})
		for _, st := range fd.Body.List {
			ifs, ok := st.(*ast.IfStmt)
			if !ok || (settlePos != 0 && ifs.Pos() > settlePos) || ifs.Else != nil || len(ifs.Body.List) == 0 {
				continue
			}
			if _, isRet := ifs.Body.List[len(ifs.Body.List)-1].(*ast.ReturnStmt); !isRet {
				continue
			}
			if strings.HasPrefix(sc.resolve(ifs.Cond, 0), "!") && strings.HasSuffix(sc.resolve(ifs.Cond, 0), ".GetParams(P0).EnableFeeShare") {
				guardEnabled = true
			}
		}
	}
	printList("settle_args", settleArgs)
	fmt.Printf("Definition payout_guard_enabled : bool := %s.\n", CoqBool(guardEnabled))

	// getAllowedFees: every `.Add(` on the result runs at most once per fee coin: it sits in one loop (the coin
	// loop), or in an inner loop whose block leaves that loop (break / return) right after the Add
	addsOnce, adds := true, 0
	if fd := df["getAllowedFees"]; fd != nil && fd.Body != nil {
		var loops []ast.Node
		var walk func(n ast.Node, block *ast.BlockStmt)
		walk = func(n ast.Node, block *ast.BlockStmt) {
			switch x := n.(type) {
			case *ast.RangeStmt, *ast.ForStmt:
				loops = append(loops, x)
				defer func() { loops = loops[:len(loops)-1] }()
			case *ast.BlockStmt:
				block = x
			case *ast.CallExpr:
				if sel, ok := x.Fun.(*ast.SelectorExpr); ok && sel.Sel.Name == "Add" {
					adds++
					switch {
					case len(loops) <= 1:
					case len(loops) == 2 && block != nil && leavesLoop(block, x.Pos()):
					default:
						addsOnce = false
					}
				}
			}
			ast.Inspect(n, func(m ast.Node) bool {
				if m == n {
					return true
				}
				if m != nil {
					walk(m, block)
				}
				return false
			})
		}
		walk(fd.Body, nil)
	} else {
		addsOnce = false
	}
	fmt.Printf("Definition allowed_fees_break_after_first_match : bool := %s.\n", CoqBool(addsOnce && adds > 0))
	fmt.Printf("Definition allowed_fees_adds_per_match : nat := %d.\n", adds)

	// ---- msg server: order of guard and write calls per handler
	keeper := ParseDir(repo + "/x/devgas/v1/keeper")
	kf := Funcs(keeper)
	kpkg := &pkgInfo{funcs: kf}
	interesting := map[string]bool{"R.GetParams": true, "R.IsFeeShareRegistered": true, "R.GetFeeShare": true,
		"R.isContractCreatedFromFactory": true, "R.GetContractAdminOrCreatorAddress": true, "R.SetFeeShare": true,
		"R.DevGasStore.Delete": true, "R.DevGasStore.Insert": true}
	var callSeq func(fd *ast.FuncDecl, depth int) []string
	callSeq = func(fd *ast.FuncDecl, depth int) []string {
		var seq []string
		if fd == nil || fd.Body == nil {
			return seq
		}
		sc := newScope(kpkg, fd)
		ast.Inspect(fd.Body, func(n ast.Node) bool {
			if x, ok := n.(*ast.CallExpr); ok {
				name := sc.funName(x.Fun)
				switch {
				case interesting[name]:
					seq = append(seq, name)
				case depth < 1 && strings.HasPrefix(name, "R.") && !strings.Contains(name[2:], ".") && !ast.IsExported(name[2:]):
					seq = append(seq, callSeq(kf[name[2:]], depth+1)...)
				case depth < 1 && kf[name] != nil && !ast.IsExported(name):
					seq = append(seq, callSeq(kf[name], depth+1)...)
				}
			}
			return true
		})
		return seq
	}
	for _, fn := range []string{"RegisterFeeShare", "UpdateFeeShare", "CancelFeeShare"} {
		printList("calls_"+fn, callSeq(kf[fn], 0))
	}
	// the authority check of Update / Cancel: `…, e := k.GetContractAdminOrCreatorAddress(ctx, c, <msg>.<Field>)` whose error is
	// returned at once — either the next statement is `if e != nil { …; return … }` or the call is the init of such an if;
	// <Field> must be the field GetSigners() returns
	types := ParseDir(repo + "/x/devgas/v1/types")
	for _, fn := range []string{"UpdateFeeShare", "CancelFeeShare"} {
		ok, field := false, ""
		if fd := kf[fn]; fd != nil && fd.Body != nil {
			sc := newScope(kpkg, fd)
			authRe := regexp.MustCompile(`^R\.GetContractAdminOrCreatorAddress\(.*,P1\.(\w+)\)(#1)?$`)
			// the call itself, or an unexported straight-line helper that returns its error
			isAuth := func(st ast.Stmt) (string, bool) {
				as, isAs := st.(*ast.AssignStmt)
				if !isAs || len(as.Rhs) != 1 || len(as.Lhs) == 0 {
					return "", false
				}
				m := authRe.FindStringSubmatch(sc.resolve(as.Rhs[0], 0))
				if m == nil {
					return "", false
				}
				field = m[1]
				return Nospace(as.Lhs[len(as.Lhs)-1]), true
			}
			returnsOn := func(ifs *ast.IfStmt, errName string) bool {
				c := Nospace(ifs.Cond)
				if c != errName+"!=nil" && c != "nil!="+errName {
					return false
				}
				if len(ifs.Body.List) == 0 {
					return false
				}
				_, isRet := ifs.Body.List[len(ifs.Body.List)-1].(*ast.ReturnStmt)
				return isRet
			}
			ast.Inspect(fd.Body, func(n ast.Node) bool {
				switch x := n.(type) {
				case *ast.BlockStmt:
					for i, st := range x.List {
						if errName, is := isAuth(st); is && i+1 < len(x.List) {
							if ifs, isIf := x.List[i+1].(*ast.IfStmt); isIf && ifs.Init == nil && returnsOn(ifs, errName) {
								ok = true
							}
						}
					}
				case *ast.IfStmt:
					if x.Init != nil {
						if errName, is := isAuth(x.Init); is && returnsOn(x, errName) {
							ok = true
						}
					}
				}
				return true
			})
		}
		fmt.Printf("Definition auth_error_returned_%s : bool := %s.\n", fn, CoqBool(ok))
		fmt.Printf("Definition auth_checked_field_%s : string := %s.\n", fn, CoqString(field))
	}
	// field whose address GetSigners() returns, per message type
	for _, mt := range []string{"MsgRegisterFeeShare", "MsgUpdateFeeShare", "MsgCancelFeeShare"} {
		field := ""
		for _, fl := range types {
			for _, d := range fl.F.Decls {
				fd, ok := d.(*ast.FuncDecl)
				if !ok || fd.Name.Name != "GetSigners" || fd.Recv == nil || len(fd.Recv.List) != 1 || fd.Body == nil {
					continue
				}
				if strings.TrimPrefix(Nospace(fd.Recv.List[0].Type), "*") != mt {
					continue
				}
				ast.Inspect(fd.Body, func(n ast.Node) bool {
					if c, ok := n.(*ast.CallExpr); ok && strings.HasSuffix(Nospace(c.Fun), "AccAddressFromBech32") && len(c.Args) == 1 {
						if sel, ok := c.Args[0].(*ast.SelectorExpr); ok {
							field = sel.Sel.Name
						}
					}
					return true
				})
			}
		}
		fmt.Printf("Definition signer_field_%s : string := %s.\n", mt, CoqString(field))
	}
}

// ---------------------------------------------------------------- a small expression normaliser
//
// resolve prints an expression with the receiver as R, parameters as P<i>, single-definition locals replaced by
// their defining expression (recursively), loop variables as elem(<ranged>) / idx, X[i] with a loop index i as
// elem(X), and calls of unexported straight-line helpers of the package replaced by their returned expression.
// Locals with several definitions print as L?.  Names of locals therefore never show up in a fact.

type pkgInfo struct{ funcs map[string]*ast.FuncDecl }

type scope struct {
	pkg   *pkgInfo
	ren   map[string]string   // receiver / params
	defs  map[string]ast.Expr // single definition
	tag   map[string]string   // "#k" for the k-th result of a multi-value call
	count map[string]int
	elem  map[string]ast.Expr // range value var -> ranged expr
	idx   map[string]bool     // range key / for-loop index
	subst map[string]string   // helper inlining: param -> resolved argument
}

func newScope(pkg *pkgInfo, fd *ast.FuncDecl) *scope {
	sc := &scope{pkg: pkg, ren: map[string]string{}, defs: map[string]ast.Expr{}, tag: map[string]string{}, count: map[string]int{},
		elem: map[string]ast.Expr{}, idx: map[string]bool{}}
	if fd.Recv != nil {
		for _, f := range fd.Recv.List {
			for _, n := range f.Names {
				sc.ren[n.Name] = "R"
			}
		}
	}
	i := 0
	for _, f := range fd.Type.Params.List {
		for _, n := range f.Names {
			sc.ren[n.Name] = fmt.Sprintf("P%d", i)
			i++
		}
	}
	if fd.Body == nil {
		return sc
	}
	define := func(lhs []ast.Expr, rhs []ast.Expr) {
		for k, l := range lhs {
			id, ok := l.(*ast.Ident)
			if !ok || id.Name == "_" {
				continue
			}
			sc.count[id.Name]++
			switch {
			case len(rhs) == len(lhs):
				sc.defs[id.Name] = rhs[k]
			case len(rhs) == 1:
				sc.defs[id.Name] = rhs[0]
				if _, isTA := rhs[0].(*ast.TypeAssertExpr); !isTA || k > 0 {
					sc.tag[id.Name] = fmt.Sprintf("#%d", k)
				}
			}
		}
	}
	ast.Inspect(fd.Body, func(n ast.Node) bool {
		switch x := n.(type) {
		case *ast.AssignStmt:
			if x.Tok == token.DEFINE || x.Tok == token.ASSIGN {
				define(x.Lhs, x.Rhs)
			} else {
				for _, l := range x.Lhs {
					if id, ok := l.(*ast.Ident); ok {
						sc.count[id.Name] += 2
					}
				}
			}
		case *ast.IncDecStmt:
			if id, ok := x.X.(*ast.Ident); ok {
				sc.count[id.Name] += 2
			}
		case *ast.ValueSpec:
			for k, nm := range x.Names {
				if k < len(x.Values) {
					sc.count[nm.Name]++
					sc.defs[nm.Name] = x.Values[k]
				}
			}
		case *ast.RangeStmt:
			if id, ok := x.Key.(*ast.Ident); ok && id.Name != "_" {
				sc.idx[id.Name] = true
			}
			if id, ok := x.Value.(*ast.Ident); ok && id.Name != "_" {
				sc.elem[id.Name] = x.X
			}
		case *ast.ForStmt:
			if as, ok := x.Init.(*ast.AssignStmt); ok && len(as.Lhs) == 1 {
				if id, ok := as.Lhs[0].(*ast.Ident); ok {
					sc.idx[id.Name] = true
				}
			}
		}
		return true
	})
	return sc
}

// forRange: `for i := 0; i < len(X); i++` (len possibly through a local) ranges over X
func (sc *scope) forRange(x *ast.ForStmt) string {
	as, ok := x.Init.(*ast.AssignStmt)
	if !ok || len(as.Lhs) != 1 || len(as.Rhs) != 1 || Nospace(as.Rhs[0]) != "0" {
		return ""
	}
	i := Nospace(as.Lhs[0])
	be, ok := x.Cond.(*ast.BinaryExpr)
	if !ok || be.Op != token.LSS || Nospace(be.X) != i {
		return ""
	}
	inc, ok := x.Post.(*ast.IncDecStmt)
	if !ok || inc.Tok != token.INC || Nospace(inc.X) != i {
		return ""
	}
	bound := sc.resolve(be.Y, 0)
	if strings.HasPrefix(bound, "len(") && strings.HasSuffix(bound, ")") {
		return bound[4 : len(bound)-1]
	}
	return ""
}

func (sc *scope) funName(e ast.Expr) string {
	switch x := e.(type) {
	case *ast.Ident:
		return x.Name
	case *ast.SelectorExpr:
		if id, ok := x.X.(*ast.Ident); ok {
			if r, ok := sc.ren[id.Name]; ok {
				return r + "." + x.Sel.Name
			}
			return id.Name + "." + x.Sel.Name
		}
		return sc.funName(x.X) + "." + x.Sel.Name
	}
	return Nospace(e)
}

func (sc *scope) resolve(e ast.Expr, depth int) string {
	if e == nil {
		return ""
	}
	if depth > 12 {
		return "…"
	}
	switch x := e.(type) {
	case *ast.Ident:
		n := x.Name
		if sc.subst != nil {
			if v, ok := sc.subst[n]; ok {
				return v
			}
		}
		if r, ok := sc.ren[n]; ok {
			return r
		}
		if ex, ok := sc.elem[n]; ok {
			return "elem(" + sc.resolve(ex, depth+1) + ")"
		}
		if sc.idx[n] {
			return "idx"
		}
		if d, ok := sc.defs[n]; ok {
			if sc.count[n] == 1 {
				return sc.resolve(d, depth+1) + sc.tag[n]
			}
			return "L?"
		}
		return n
	case *ast.ParenExpr:
		return "(" + sc.resolve(x.X, depth+1) + ")"
	case *ast.SelectorExpr:
		return sc.resolve(x.X, depth+1) + "." + x.Sel.Name
	case *ast.StarExpr:
		return "*" + sc.resolve(x.X, depth+1)
	case *ast.UnaryExpr:
		return x.Op.String() + sc.resolve(x.X, depth+1)
	case *ast.BinaryExpr:
		return sc.resolve(x.X, depth+1) + x.Op.String() + sc.resolve(x.Y, depth+1)
	case *ast.IndexExpr:
		if id, ok := x.Index.(*ast.Ident); ok && sc.idx[id.Name] {
			return "elem(" + sc.resolve(x.X, depth+1) + ")"
		}
		return sc.resolve(x.X, depth+1) + "[" + sc.resolve(x.Index, depth+1) + "]"
	case *ast.TypeAssertExpr:
		if x.Type == nil {
			return sc.resolve(x.X, depth+1) + ".(type)"
		}
		return sc.resolve(x.X, depth+1) + ".(" + Nospace(x.Type) + ")"
	case *ast.CallExpr:
		var args []string
		for _, a := range x.Args {
			args = append(args, sc.resolve(a, depth+1))
		}
		if inl, ok := sc.inline(x, args, depth); ok {
			return inl
		}
		return sc.resolve(x.Fun, depth+1) + "(" + strings.Join(args, ",") + ")"
	}
	return Nospace(e)
}

// inline replaces a call of an unexported straight-line helper (only single-definition `:=` statements and one final
// `return <expr>`) by the returned expression
func (sc *scope) inline(call *ast.CallExpr, args []string, depth int) (string, bool) {
	if sc.pkg == nil || depth > 6 {
		return "", false
	}
	name := sc.funName(call.Fun)
	name = strings.TrimPrefix(name, "R.")
	fd := sc.pkg.funcs[name]
	if fd == nil || fd.Body == nil || ast.IsExported(name) || strings.Contains(name, ".") || len(fd.Body.List) == 0 {
		return "", false
	}
	for i, st := range fd.Body.List {
		if i == len(fd.Body.List)-1 {
			r, ok := st.(*ast.ReturnStmt)
			if !ok || len(r.Results) != 1 {
				return "", false
			}
			h := newScope(sc.pkg, fd)
			h.subst = map[string]string{}
			k := 0
			for _, f := range fd.Type.Params.List {
				for _, n := range f.Names {
					if k < len(args) {
						h.subst[n.Name] = args[k]
					}
					k++
				}
			}
			if fd.Recv != nil {
				if sel, ok := call.Fun.(*ast.SelectorExpr); ok {
					for _, f := range fd.Recv.List {
						for _, n := range f.Names {
							h.subst[n.Name] = sc.resolve(sel.X, depth+1)
						}
					}
				}
			}
			return h.resolve(r.Results[0], depth+1), true
		}
		as, ok := st.(*ast.AssignStmt)
		if !ok || as.Tok != token.DEFINE {
			return "", false
		}
	}
	return "", false
}

// leavesLoop: in block b, a statement at or after position p (the statement holding the Add) is followed, in the same
// block, by `break` or `return`
func leavesLoop(b *ast.BlockStmt, p token.Pos) bool {
	after := false
	for _, st := range b.List {
		if st.Pos() <= p && p < st.End() {
			after = true
			continue
		}
		if after {
			switch x := st.(type) {
			case *ast.BranchStmt:
				return x.Tok == token.BREAK && x.Label == nil
			case *ast.ReturnStmt:
				return true
			}
		}
	}
	return false
}

func printList(name string, xs []string) {
	fmt.Printf("Definition %s : list string := [", name)
	for i, x := range xs {
		if i > 0 {
			fmt.Print("; ")
		}
		fmt.Print(CoqString(x))
	}
	fmt.Println("].")
}
