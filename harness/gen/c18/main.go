// Command gen/c18 prints coq/Gen/C18Facts.v from the /repo working tree (terms, never verdicts):
// the ordered non-EVM ante chain, the dev-gas payout formula / bank send / recipient collection in a
// normal form that ignores local names, early-return vs nested-if, range vs index loops and
// straight-line unexported helpers, and the order of guard / write calls in the registry handlers.
package main

import (
	"fmt"
	"go/ast"
	"go/token"
	"math/big"
	"regexp"
	"sort"
	"strconv"
	"strings"

	. "verifharness/genlib"
)

func main() {
	repo := Repo()
	Header(repo)
	fmt.Println("From Coq Require Import String List ZArith. Import ListNotations. Open Scope string_scope.")
	fmt.Println("Require Import Nib.C18.Model.")

	// ---- ante chain of NewAnteHandlerNonEVM
	app := ParseDir(repo + "/app")
	af := Funcs(app)
	var chain []string
	var devgasArgs []string
	if fd := af["NewAnteHandlerNonEVM"]; fd != nil && fd.Body != nil {
		ast.Inspect(fd.Body, func(n ast.Node) bool {
			call, ok := n.(*ast.CallExpr)
			if !ok {
				return true
			}
			if Nospace(call.Fun) != "sdk.ChainAnteDecorators" {
				return true
			}
			for _, a := range call.Args {
				switch x := a.(type) {
				case *ast.CallExpr:
					name := Nospace(x.Fun)
					chain = append(chain, name)
					if strings.HasSuffix(name, "NewDevGasPayoutDecorator") {
						for _, aa := range x.Args {
							devgasArgs = append(devgasArgs, Nospace(aa))
						}
					}
				case *ast.CompositeLit:
					chain = append(chain, Nospace(x.Type)+"{}")
				default:
					chain = append(chain, "?"+Nospace(a))
				}
			}
			return false
		})
	}
	printList("nonevm_chain", chain)
	printList("devgas_decorator_args", devgasArgs)
	// which keeper the options hand to the decorator (app.go: DevGasBankKeeper: app.BankKeeper)
	bankWiring := ""
	for _, fl := range app {
		ast.Inspect(fl.F, func(n ast.Node) bool {
			kv, ok := n.(*ast.KeyValueExpr)
			if ok {
				if id, ok := kv.Key.(*ast.Ident); ok && id.Name == "DevGasBankKeeper" {
					bankWiring = Nospace(kv.Value)
				}
			}
			return true
		})
	}
	fmt.Printf("Definition devgas_bank_keeper_wiring : string := %s.\n", CoqString(bankWiring))

	// blocked addresses of the bank keeper: app_config.go hands `blockAccAddrs` to the bank module as
	// BlockedModuleAccountsOverride (x/evm/evmmodule builds the keeper's blocked map from it)
	var blocked []string
	override := ""
	for _, fl := range app {
		ast.Inspect(fl.F, func(n ast.Node) bool {
			switch x := n.(type) {
			case *ast.ValueSpec:
				if len(x.Names) == 1 && x.Names[0].Name == "blockAccAddrs" && len(x.Values) == 1 {
					if cl, ok := x.Values[0].(*ast.CompositeLit); ok {
						for _, e := range cl.Elts {
							blocked = append(blocked, Nospace(e))
						}
					}
				}
			case *ast.KeyValueExpr:
				if id, ok := x.Key.(*ast.Ident); ok && id.Name == "BlockedModuleAccountsOverride" {
					override = Nospace(x.Value)
				}
			}
			return true
		})
	}
	printList("blocked_module_accounts", blocked)
	fmt.Printf("Definition blocked_override_wiring : string := %s.\n", CoqString(override))

	// ---- x/devgas/v1/ante
	dante := ParseDir(repo + "/x/devgas/v1/ante")
	df := Funcs(dante)

	pkg := &pkgInfo{funcs: df, structs: structFields(dante)}

	// The ante functions are found by what they do, not by their (private) names:
	//   settle      = the function that calls the bank's SendCoinsFromModuleToAccount
	//   recipients  = the function that type-asserts a message to *…MsgExecuteContract
	//   payout      = the function that calls settle
	//   allowed     = the package function whose result is the first argument of FeePayLogic inside settle
	// FeePayLogic is exported API (tests call it): by name, else the function building sdk.NewCoin in a loop.
	var lookupNotes []string
	var fnames []string
	for n := range df {
		fnames = append(fnames, n)
	}
	sort.Strings(fnames)
	findFn := func(role string, pred func(fd *ast.FuncDecl) bool) *ast.FuncDecl {
		var hit []*ast.FuncDecl
		for _, n := range fnames {
			if fd := df[n]; fd.Body != nil && pred(fd) {
				hit = append(hit, fd)
			}
		}
		if len(hit) == 1 {
			return hit[0]
		}
		lookupNotes = append(lookupNotes, fmt.Sprintf("%s: %d candidates", role, len(hit)))
		return nil
	}
	hasCall := func(fd *ast.FuncDecl, ok func(c *ast.CallExpr) bool) bool {
		found := false
		ast.Inspect(fd.Body, func(n ast.Node) bool {
			if c, isC := n.(*ast.CallExpr); isC && ok(c) {
				found = true
			}
			return !found
		})
		return found
	}
	calleeLast := func(c *ast.CallExpr) string {
		switch f := c.Fun.(type) {
		case *ast.Ident:
			return f.Name
		case *ast.SelectorExpr:
			return f.Sel.Name
		}
		return ""
	}
	settleFn := findFn("settle", func(fd *ast.FuncDecl) bool {
		return hasCall(fd, func(c *ast.CallExpr) bool { return calleeLast(c) == "SendCoinsFromModuleToAccount" })
	})
	isExecType := func(e ast.Expr) bool {
		t := Nospace(e)
		return strings.HasPrefix(t, "*") && strings.HasSuffix(t, ".MsgExecuteContract")
	}
	recipientsFn := findFn("recipients", func(fd *ast.FuncDecl) bool {
		found := false
		ast.Inspect(fd.Body, func(n ast.Node) bool {
			switch x := n.(type) {
			case *ast.TypeAssertExpr:
				if x.Type != nil && isExecType(x.Type) {
					found = true
				}
			case *ast.CaseClause:
				for _, e := range x.List {
					if isExecType(e) {
						found = true
					}
				}
			}
			return !found
		})
		return found
	})
	var payoutFn *ast.FuncDecl
	if settleFn != nil {
		payoutFn = findFn("payout", func(fd *ast.FuncDecl) bool {
			return fd != settleFn && hasCall(fd, func(c *ast.CallExpr) bool { return calleeLast(c) == settleFn.Name.Name })
		})
	}
	feePayFn := df["FeePayLogic"]
	if feePayFn == nil {
		feePayFn = findFn("FeePayLogic", func(fd *ast.FuncDecl) bool {
			return fd != settleFn && hasCall(fd, func(c *ast.CallExpr) bool { return calleeLast(c) == "NewCoin" })
		})
	}
	var allowedFn *ast.FuncDecl
	if settleFn != nil && feePayFn != nil {
		ast.Inspect(settleFn.Body, func(n ast.Node) bool {
			c, ok := n.(*ast.CallExpr)
			if !ok || calleeLast(c) != feePayFn.Name.Name || len(c.Args) == 0 || allowedFn != nil {
				return true
			}
			arg := c.Args[0]
			if id, isId := arg.(*ast.Ident); isId { // through a single-definition local
				if d, has := newScope(pkg, settleFn).defs[id.Name]; has {
					arg = d
				}
			}
			if ac, isCall := arg.(*ast.CallExpr); isCall {
				allowedFn = df[calleeLast(ac)]
			}
			return true
		})
		if allowedFn == nil {
			lookupNotes = append(lookupNotes, "allowed: not found")
		}
	}
	// private function names are printed by role
	byRole := func(str string) string {
		if allowedFn != nil {
			str = strings.ReplaceAll(str, allowedFn.Name.Name+"(", "allowed(")
		}
		if feePayFn != nil && feePayFn.Name.Name != "FeePayLogic" {
			str = strings.ReplaceAll(str, feePayFn.Name.Name+"(", "FeePayLogic(")
		}
		return str
	}

	// FeePayLogic: the coin that is added per fee coin, with locals inlined, parameters P<i>, and loop
	// variables written elem(<ranged expr>) — e.g. sdk.NewCoin(elem(P0.Sort()).Denom, P1.MulInt(…).QuoInt64(int64(P2)).RoundInt())
	rewardCoin := ""
	if fd := feePayFn; fd != nil && fd.Body != nil {
		sc := newScope(pkg, fd)
		ast.Inspect(fd.Body, func(n ast.Node) bool {
			if c, ok := n.(*ast.CallExpr); ok && rewardCoin == "" {
				if sel, ok := c.Fun.(*ast.SelectorExpr); ok && sel.Sel.Name == "NewCoin" {
					rewardCoin = sc.resolve(c, 0)
				}
			}
			return true
		})
	}
	fmt.Printf("Definition reward_coin : string := %s.\n", CoqString(rewardCoin))

	// getWithdrawAddressesFromMsgs: asserted message types, ranged expressions, package-local calls
	var asserted, rcalls, rranges []string
	if fd := recipientsFn; fd != nil && fd.Body != nil {
		sc := newScope(pkg, fd)
		seen := map[string]bool{}
		add := func(l *[]string, k, v string) {
			if !seen[k+v] {
				seen[k+v] = true
				*l = append(*l, v)
			}
		}
		ast.Inspect(fd.Body, func(n ast.Node) bool {
			switch x := n.(type) {
			case *ast.TypeAssertExpr:
				if x.Type != nil {
					add(&asserted, "t", Nospace(x.Type))
				} else {
					add(&asserted, "t", "typeswitch")
				}
			case *ast.CaseClause:
				for _, e := range x.List {
					add(&asserted, "t", Nospace(e))
				}
			case *ast.RangeStmt:
				add(&rranges, "r", paramByType(sc, x.X))
			case *ast.ForStmt:
				if r := sc.forRange(x); r != "" {
					add(&rranges, "r", r)
				} else {
					add(&rranges, "r", "for?")
				}
			case *ast.CallExpr:
				name := sc.funName(x.Fun)
				if sel, isSel := x.Fun.(*ast.SelectorExpr); isSel {
					if id, isId := sel.X.(*ast.Ident); isId && sc.ptype[id.Name] != "" && !strings.Contains(sc.ptype[id.Name], ".") &&
						ast.IsExported(sc.ptype[id.Name]) {
						name = "R." + sc.ptype[id.Name] + "." + sel.Sel.Name // a package interface handed in as a parameter
					}
				}
				if strings.HasPrefix(name, "R.") || pkg.funcs[name] != nil {
					add(&rcalls, "c", strings.TrimPrefix(name, "R."))
				}
			}
			return true
		})
	}
	for i := range asserted { // import alias of the wasm types package does not matter
		if isExecTypeStr(asserted[i]) {
			asserted[i] = "*wasmtypes.MsgExecuteContract"
		}
	}
	printList("recipients_asserted_types", asserted)
	printList("recipients_local_calls", rcalls)
	printList("recipients_ranges", rranges)

	// settleFeePayments: the bank send with everything inlined, and what its enclosing loop ranges over
	sendCall, sendLoop := "", ""
	nSends := 0
	if fd := settleFn; fd != nil && fd.Body != nil {
		sc := newScope(pkg, fd)
		var loops []string
		var walk func(n ast.Node)
		walk = func(n ast.Node) {
			if n == nil {
				return
			}
			pushed := false
			switch x := n.(type) {
			case *ast.RangeStmt:
				loops = append(loops, "range("+sc.resolve(x.X, 0)+")")
				pushed = true
			case *ast.ForStmt:
				r := sc.forRange(x)
				if r == "" {
					r = "for?"
				} else {
					r = "range(" + r + ")"
				}
				loops = append(loops, r)
				pushed = true
			case *ast.CallExpr:
				if strings.HasSuffix(sc.funName(x.Fun), "SendCoinsFromModuleToAccount") {
					nSends++
					sendCall = byRole(sc.resolve(x, 0))
					sendLoop = strings.Join(loops, "/")
				}
			}
			ast.Inspect(n, func(m ast.Node) bool {
				if m == n {
					return true
				}
				if m != nil {
					walk(m)
				}
				return false
			})
			if pushed {
				loops = loops[:len(loops)-1]
			}
		}
		walk(fd.Body)
	}
	fmt.Printf("Definition send_call : string := %s.\n", CoqString(sendCall))
	fmt.Printf("Definition send_loop : string := %s.\n", CoqString(sendLoop))
	fmt.Printf("Definition send_call_sites : nat := %d.\n", nSends)

	// devGasPayout: arguments of the settle call (inlined) and the EnableFeeShare guard before it
	var settleArgs []string
	guardEnabled := false
	if fd := payoutFn; fd != nil && fd.Body != nil {
		sc := newScope(pkg, fd)
		settlePos := token.Pos(0)
		ast.Inspect(fd.Body, func(n ast.Node) bool {
			if c, ok := n.(*ast.CallExpr); ok && settleFn != nil && calleeLast(c) == settleFn.Name.Name && settlePos == 0 {
				settlePos = c.Pos()
				for _, a := range c.Args {
					str := sc.resolve(a, 0)
					// the recipients collector, method or plain function: recipients(<the message list it is given>)#k
					if id, isId := a.(*ast.Ident); isId && recipientsFn != nil {
						if d, has := sc.defs[id.Name]; has && sc.count[id.Name] == 1 {
							if rc, isCall := d.(*ast.CallExpr); isCall && calleeLast(rc) == recipientsFn.Name.Name {
								msgs := "?"
								for _, ra := range rc.Args {
									if r := sc.resolve(ra, 0); strings.HasSuffix(r, ".GetMsgs()") {
										msgs = r
									}
								}
								str = "recipients(" + msgs + ")" + sc.tag[id.Name]
							}
						}
					}
					settleArgs = append(settleArgs, str)
				}
			}
			return true
		})
		for _, st := range fd.Body.List {
			ifs, ok := st.(*ast.IfStmt)
			if !ok || (settlePos != 0 && ifs.Pos() > settlePos) || ifs.Else != nil || len(ifs.Body.List) == 0 {
				continue
			}
			if _, isRet := ifs.Body.List[len(ifs.Body.List)-1].(*ast.ReturnStmt); !isRet {
				continue
			}
			if strings.HasPrefix(sc.resolve(ifs.Cond, 0), "!") && strings.HasSuffix(sc.resolve(ifs.Cond, 0), ".GetParams(P0).EnableFeeShare") {
				guardEnabled = true
			}
		}
	}
	printList("settle_args", settleArgs)
	fmt.Printf("Definition payout_guard_enabled : bool := %s.\n", CoqBool(guardEnabled))
	printList("ante_lookup_notes", lookupNotes)

	// getAllowedFees: every `.Add(` on the result runs at most once per fee coin: it sits in one loop (the coin
	// loop), or in an inner loop whose block leaves that loop (break / return) right after the Add
	addsOnce, adds := true, 0
	if fd := allowedFn; fd != nil && fd.Body != nil {
		var loops []ast.Node
		var walk func(n ast.Node, block *ast.BlockStmt)
		walk = func(n ast.Node, block *ast.BlockStmt) {
			switch x := n.(type) {
			case *ast.RangeStmt, *ast.ForStmt:
				loops = append(loops, x)
				defer func() { loops = loops[:len(loops)-1] }()
			case *ast.BlockStmt:
				block = x
			case *ast.CallExpr:
				if sel, ok := x.Fun.(*ast.SelectorExpr); ok && sel.Sel.Name == "Add" {
					adds++
					switch {
					case len(loops) <= 1:
					case len(loops) == 2 && block != nil && leavesLoop(block, x.Pos()):
					default:
						addsOnce = false
					}
				}
			}
			ast.Inspect(n, func(m ast.Node) bool {
				if m == n {
					return true
				}
				if m != nil {
					walk(m, block)
				}
				return false
			})
		}
		walk(fd.Body, nil)
	} else {
		addsOnce = false
	}
	fmt.Printf("Definition allowed_fees_break_after_first_match : bool := %s.\n", CoqBool(addsOnce && adds > 0))
	fmt.Printf("Definition allowed_fees_adds_per_match : nat := %d.\n", adds)

	// ---- msg server: order of guard and write calls per handler
	keeper := ParseDir(repo + "/x/devgas/v1/keeper")
	kf := Funcs(keeper)
	kpkg := &pkgInfo{funcs: kf}
	interesting := map[string]bool{"R.GetParams": true, "R.IsFeeShareRegistered": true, "R.GetFeeShare": true,
		"R.isContractCreatedFromFactory": true, "R.GetContractAdminOrCreatorAddress": true, "R.SetFeeShare": true,
		"R.DevGasStore.Delete": true, "R.DevGasStore.Insert": true}
	var callSeq func(fd *ast.FuncDecl, depth int) []string
	callSeq = func(fd *ast.FuncDecl, depth int) []string {
		var seq []string
		if fd == nil || fd.Body == nil {
			return seq
		}
		sc := newScope(kpkg, fd)
		ast.Inspect(fd.Body, func(n ast.Node) bool {
			if x, ok := n.(*ast.CallExpr); ok {
				name := sc.funName(x.Fun)
				switch {
				case interesting[name]:
					seq = append(seq, name)
				case depth < 1 && strings.HasPrefix(name, "R.") && !strings.Contains(name[2:], ".") && !ast.IsExported(name[2:]):
					seq = append(seq, callSeq(kf[name[2:]], depth+1)...)
				case depth < 1 && kf[name] != nil && !ast.IsExported(name):
					seq = append(seq, callSeq(kf[name], depth+1)...)
				}
			}
			return true
		})
		return seq
	}
	for _, fn := range []string{"RegisterFeeShare", "UpdateFeeShare", "CancelFeeShare"} {
		printList("calls_"+fn, callSeq(kf[fn], 0))
	}
	// the authority check of Update / Cancel: `…, e := k.GetContractAdminOrCreatorAddress(ctx, c, <msg>.<Field>)` whose error is
	// returned at once — either the next statement is `if e != nil { …; return … }` or the call is the init of such an if;
	// <Field> must be the field GetSigners() returns
	types := ParseDir(repo + "/x/devgas/v1/types")
	for _, fn := range []string{"UpdateFeeShare", "CancelFeeShare"} {
		ok, field := false, ""
		if fd := kf[fn]; fd != nil && fd.Body != nil {
			sc := newScope(kpkg, fd)
			authRe := regexp.MustCompile(`^R\.GetContractAdminOrCreatorAddress\(.*,P1\.(\w+)\)(#1)?$`)
			// the call itself, or an unexported straight-line helper that returns its error
			isAuth := func(st ast.Stmt) (string, bool) {
				as, isAs := st.(*ast.AssignStmt)
				if !isAs || len(as.Rhs) != 1 || len(as.Lhs) == 0 {
					return "", false
				}
				m := authRe.FindStringSubmatch(sc.resolve(as.Rhs[0], 0))
				if m == nil {
					return "", false
				}
				field = m[1]
				return Nospace(as.Lhs[len(as.Lhs)-1]), true
			}
			returnsOn := func(ifs *ast.IfStmt, errName string) bool {
				c := Nospace(ifs.Cond)
				if c != errName+"!=nil" && c != "nil!="+errName {
					return false
				}
				if len(ifs.Body.List) == 0 {
					return false
				}
				_, isRet := ifs.Body.List[len(ifs.Body.List)-1].(*ast.ReturnStmt)
				return isRet
			}
			ast.Inspect(fd.Body, func(n ast.Node) bool {
				switch x := n.(type) {
				case *ast.BlockStmt:
					for i, st := range x.List {
						if errName, is := isAuth(st); is && i+1 < len(x.List) {
							if ifs, isIf := x.List[i+1].(*ast.IfStmt); isIf && ifs.Init == nil && returnsOn(ifs, errName) {
								ok = true
							}
						}
					}
				case *ast.IfStmt:
					if x.Init != nil {
						if errName, is := isAuth(x.Init); is && returnsOn(x, errName) {
							ok = true
						}
					}
				}
				return true
			})
		}
		fmt.Printf("Definition auth_error_returned_%s : bool := %s.\n", fn, CoqBool(ok))
		fmt.Printf("Definition auth_checked_field_%s : string := %s.\n", fn, CoqString(field))
	}
	// field whose address GetSigners() returns, per message type
	for _, mt := range []string{"MsgRegisterFeeShare", "MsgUpdateFeeShare", "MsgCancelFeeShare"} {
		field := ""
		for _, fl := range types {
			for _, d := range fl.F.Decls {
				fd, ok := d.(*ast.FuncDecl)
				if !ok || fd.Name.Name != "GetSigners" || fd.Recv == nil || len(fd.Recv.List) != 1 || fd.Body == nil {
					continue
				}
				if strings.TrimPrefix(Nospace(fd.Recv.List[0].Type), "*") != mt {
					continue
				}
				ast.Inspect(fd.Body, func(n ast.Node) bool {
					if c, ok := n.(*ast.CallExpr); ok && strings.HasSuffix(Nospace(c.Fun), "AccAddressFromBech32") && len(c.Args) == 1 {
						if sel, ok := c.Args[0].(*ast.SelectorExpr); ok {
							field = sel.Sel.Name
						}
					}
					return true
				})
			}
		}
		fmt.Printf("Definition signer_field_%s : string := %s.\n", mt, CoqString(field))
	}
	// ---- module parameters: what Sanitize rewrites, the defaults, and who reads / stores through it
	paramFacts(repo, types, kf, kpkg)
}

// ---------------------------------------------------------------- ModuleParams.Sanitize as guarded rewrites
//
// Sanitize is read as a straight-line list of "if <cond> { <copy>.<Field> = <default of Field> … [return …] }"
// statements over a working copy of the receiver (newP := new(T); *newP = p / c := p / the value receiver itself).
// Conditions are boolean combinations of: .EnableFeeShare, .DeveloperShares.IsZero(), .DeveloperShares.IsNil(),
// len(.AllowedDenoms) ==/!=/> 0, and calls of ModuleParams methods whose body is one `return <cond>` (inlined).
// Everything else is printed as PcUnknown / noted, and devgas_sanitize_understood becomes false.  Local names, the
// pointer-vs-value style of the copy and helper methods do not change the fact.

type sanEnv struct {
	recv      string
	recvCopy  bool            // the value receiver itself is assigned to: it is the working copy
	copies    map[string]bool // locals that hold the working copy (value or pointer)
	fixedBase string          // inside an inlined method: base of its receiver
	methods   map[string]*ast.FuncDecl
	notes     *[]string
	ok        *bool
}

func stripExpr(e ast.Expr) ast.Expr {
	for {
		switch x := e.(type) {
		case *ast.ParenExpr:
			e = x.X
		case *ast.StarExpr:
			e = x.X
		default:
			return e
		}
	}
}

func (se *sanEnv) baseOf(e ast.Expr) string {
	id, ok := stripExpr(e).(*ast.Ident)
	if !ok {
		return ""
	}
	if id.Name == se.recv {
		if se.fixedBase != "" {
			return se.fixedBase
		}
		if se.recvCopy {
			return "copy"
		}
		return "orig"
	}
	if se.copies[id.Name] {
		return "copy"
	}
	return ""
}

func (se *sanEnv) fieldRef(e ast.Expr) (base, field string) {
	sel, ok := stripExpr(e).(*ast.SelectorExpr)
	if !ok {
		return "", ""
	}
	if b := se.baseOf(sel.X); b != "" {
		return b, sel.Sel.Name
	}
	return "", ""
}

func (se *sanEnv) unknown(e ast.Node) string {
	*se.ok = false
	*se.notes = append(*se.notes, "cond? "+Nospace(e))
	return "PcUnknown"
}

func (se *sanEnv) cond(e ast.Expr, bases map[string]bool, depth int) string {
	if depth > 8 {
		return se.unknown(e)
	}
	switch x := e.(type) {
	case *ast.ParenExpr:
		return se.cond(x.X, bases, depth+1)
	case *ast.UnaryExpr:
		if x.Op == token.NOT {
			return "(PcNot " + se.cond(x.X, bases, depth+1) + ")"
		}
	case *ast.SelectorExpr:
		if b, f := se.fieldRef(x); f == "EnableFeeShare" {
			bases[b] = true
			return "PcEnabled"
		}
	case *ast.BinaryExpr:
		switch x.Op {
		case token.LAND:
			return "(PcAnd " + se.cond(x.X, bases, depth+1) + " " + se.cond(x.Y, bases, depth+1) + ")"
		case token.LOR:
			return "(PcOr " + se.cond(x.X, bases, depth+1) + " " + se.cond(x.Y, bases, depth+1) + ")"
		case token.EQL, token.NEQ, token.GTR, token.LSS:
			l, r, op := x.X, x.Y, x.Op
			if Nospace(l) == "0" || Nospace(l) == "true" || Nospace(l) == "false" {
				l, r = r, l
				if op == token.GTR {
					op = token.LSS
				} else if op == token.LSS {
					op = token.GTR
				}
			}
			if c, ok := stripExpr(l).(*ast.CallExpr); ok && Nospace(c.Fun) == "len" && len(c.Args) == 1 && Nospace(r) == "0" {
				if b, f := se.fieldRef(c.Args[0]); f == "AllowedDenoms" {
					bases[b] = true
					switch op {
					case token.EQL:
						return "PcAllowedEmpty"
					case token.NEQ, token.GTR:
						return "(PcNot PcAllowedEmpty)"
					}
				}
			}
			if b, f := se.fieldRef(l); f == "EnableFeeShare" && (op == token.EQL || op == token.NEQ) {
				bases[b] = true
				pos := (Nospace(r) == "true") == (op == token.EQL)
				if Nospace(r) == "true" || Nospace(r) == "false" {
					if pos {
						return "PcEnabled"
					}
					return "(PcNot PcEnabled)"
				}
			}
		}
	case *ast.CallExpr:
		sel, ok := x.Fun.(*ast.SelectorExpr)
		if !ok || len(x.Args) != 0 {
			break
		}
		if b, f := se.fieldRef(sel.X); f == "DeveloperShares" {
			switch sel.Sel.Name {
			case "IsZero":
				bases[b] = true
				return "PcShareZero"
			case "IsNil":
				bases[b] = true
				return "PcShareNil"
			}
		}
		// a ModuleParams method with a single `return <cond>` body
		if b := se.baseOf(sel.X); b != "" {
			if m := se.methods[sel.Sel.Name]; m != nil && m.Body != nil && len(m.Body.List) == 1 && m.Recv != nil &&
				len(m.Recv.List) == 1 && len(m.Recv.List[0].Names) == 1 && m.Type.Params.NumFields() == 0 {
				if r, ok := m.Body.List[0].(*ast.ReturnStmt); ok && len(r.Results) == 1 {
					sub := &sanEnv{recv: m.Recv.List[0].Names[0].Name, fixedBase: b, copies: map[string]bool{},
						methods: se.methods, notes: se.notes, ok: se.ok}
					return sub.cond(r.Results[0], bases, depth+1)
				}
			}
		}
	}
	return se.unknown(e)
}

func methodsOf(files []File, recv string) map[string]*ast.FuncDecl {
	m := map[string]*ast.FuncDecl{}
	for _, fl := range files {
		for _, d := range fl.F.Decls {
			fd, ok := d.(*ast.FuncDecl)
			if !ok || fd.Recv == nil || len(fd.Recv.List) != 1 {
				continue
			}
			if strings.TrimPrefix(Nospace(fd.Recv.List[0].Type), "*") == recv {
				m[fd.Name.Name] = fd
			}
		}
	}
	return m
}

func pkgValues(files []File) map[string]ast.Expr {
	m := map[string]ast.Expr{}
	for _, fl := range files {
		for _, d := range fl.F.Decls {
			gd, ok := d.(*ast.GenDecl)
			if !ok || (gd.Tok != token.VAR && gd.Tok != token.CONST) {
				continue
			}
			for _, sp := range gd.Specs {
				vs, ok := sp.(*ast.ValueSpec)
				if !ok {
					continue
				}
				for i, n := range vs.Names {
					if i < len(vs.Values) {
						m[n.Name] = vs.Values[i]
					}
				}
			}
		}
	}
	return m
}

func resolveVal(e ast.Expr, vals map[string]ast.Expr) ast.Expr {
	for i := 0; i < 6; i++ {
		switch x := e.(type) {
		case *ast.ParenExpr:
			e = x.X
			continue
		case *ast.Ident:
			if v, ok := vals[x.Name]; ok {
				e = v
				continue
			}
		case *ast.SelectorExpr: // types.DefaultX
			if id, ok := x.X.(*ast.Ident); ok && id.Name == "types" {
				if v, ok := vals[x.Sel.Name]; ok {
					e = v
					continue
				}
			}
		}
		break
	}
	return e
}

var pow18 = new(big.Int).Exp(big.NewInt(10), big.NewInt(18), nil)

// decValue: raw LegacyDec integer (value * 10^18) of a constructor call
func decValue(e ast.Expr) (*big.Int, bool) {
	c, ok := e.(*ast.CallExpr)
	if !ok {
		return nil, false
	}
	name := Nospace(c.Fun)
	if i := strings.LastIndex(name, "."); i >= 0 {
		name = name[i+1:]
	}
	name = strings.TrimPrefix(name, "Legacy")
	intArg := func(k int) (*big.Int, bool) {
		if k >= len(c.Args) {
			return nil, false
		}
		v, ok := new(big.Int).SetString(strings.ReplaceAll(Nospace(c.Args[k]), "_", ""), 10)
		return v, ok
	}
	switch name {
	case "ZeroDec":
		return big.NewInt(0), len(c.Args) == 0
	case "OneDec":
		return new(big.Int).Set(pow18), len(c.Args) == 0
	case "NewDec":
		if a, ok := intArg(0); ok && len(c.Args) == 1 {
			return a.Mul(a, pow18), true
		}
	case "NewDecWithPrec":
		a, ok1 := intArg(0)
		b, ok2 := intArg(1)
		if ok1 && ok2 && len(c.Args) == 2 && b.Sign() >= 0 && b.Int64() <= 18 {
			return a.Mul(a, new(big.Int).Exp(big.NewInt(10), big.NewInt(18-b.Int64()), nil)), true
		}
	case "MustNewDecFromStr":
		if len(c.Args) == 1 {
			if lit, ok := c.Args[0].(*ast.BasicLit); ok && lit.Kind == token.STRING {
				str, err := strconv.Unquote(lit.Value)
				if err != nil {
					return nil, false
				}
				r, ok := new(big.Rat).SetString(str)
				if !ok {
					return nil, false
				}
				r.Mul(r, new(big.Rat).SetInt(pow18))
				if r.IsInt() {
					return new(big.Int).Set(r.Num()), true
				}
			}
		}
	}
	return nil, false
}

var c18DenomIds = map[string]int{"uatom": 0, "ufoo": 1, "unibi": 2}

// stringList: []string{"a","b"} / []string(nil) / nil  ->  denom ids
func stringList(e ast.Expr) ([]int, bool) {
	switch x := e.(type) {
	case *ast.Ident:
		return nil, x.Name == "nil"
	case *ast.CallExpr:
		if Nospace(x.Fun) == "[]string" && len(x.Args) == 1 && Nospace(x.Args[0]) == "nil" {
			return nil, true
		}
	case *ast.CompositeLit:
		if Nospace(x.Type) != "[]string" {
			return nil, false
		}
		var out []int
		next := 3
		for _, el := range x.Elts {
			lit, ok := el.(*ast.BasicLit)
			if !ok || lit.Kind != token.STRING {
				return nil, false
			}
			str, _ := strconv.Unquote(lit.Value)
			if id, ok := c18DenomIds[str]; ok {
				out = append(out, id)
			} else {
				out = append(out, next)
				next++
			}
		}
		return out, true
	}
	return nil, false
}

func coqNatList(xs []int) string {
	var p []string
	for _, x := range xs {
		p = append(p, fmt.Sprintf("%d%%nat", x))
	}
	return "[" + strings.Join(p, "; ") + "]"
}

func paramFacts(repo string, types []File, kf map[string]*ast.FuncDecl, kpkg *pkgInfo) {
	tf := Funcs(types)
	vals := pkgValues(types)
	var notes []string
	understood := true

	// ---- types.DefaultParams()
	defEnabled, defShare, defAllowed := false, big.NewInt(0), []int(nil)
	defOK := false
	if fd := tf["DefaultParams"]; fd != nil && fd.Recv == nil && fd.Body != nil && len(fd.Body.List) == 1 {
		if r, ok := fd.Body.List[0].(*ast.ReturnStmt); ok && len(r.Results) == 1 {
			fields := map[string]ast.Expr{}
			switch x := r.Results[0].(type) {
			case *ast.CompositeLit:
				for _, el := range x.Elts {
					if kv, ok := el.(*ast.KeyValueExpr); ok {
						fields[Nospace(kv.Key)] = kv.Value
					}
				}
			case *ast.CallExpr: // NewParams(a, b, c): follow NewParams' own composite literal
				if np := tf[Nospace(x.Fun)]; np != nil && np.Body != nil && len(np.Body.List) == 1 {
					idx := map[string]int{}
					k := 0
					for _, f := range np.Type.Params.List {
						for _, n := range f.Names {
							idx[n.Name] = k
							k++
						}
					}
					if rr, ok := np.Body.List[0].(*ast.ReturnStmt); ok && len(rr.Results) == 1 {
						if cl, ok := rr.Results[0].(*ast.CompositeLit); ok {
							for _, el := range cl.Elts {
								if kv, ok := el.(*ast.KeyValueExpr); ok {
									if i, ok := idx[Nospace(kv.Value)]; ok && i < len(x.Args) {
										fields[Nospace(kv.Key)] = x.Args[i]
									}
								}
							}
						}
					}
				}
			}
			e1, e2, e3 := resolveVal(fields["EnableFeeShare"], vals), resolveVal(fields["DeveloperShares"], vals), resolveVal(fields["AllowedDenoms"], vals)
			ok1 := e1 != nil && (Nospace(e1) == "true" || Nospace(e1) == "false")
			if ok1 {
				defEnabled = Nospace(e1) == "true"
			}
			v, ok2 := decValue(e2)
			if ok2 {
				defShare = v
			}
			l, ok3 := []int(nil), false
			if e3 != nil {
				l, ok3 = stringList(e3)
			}
			if ok3 {
				defAllowed = l
			}
			defOK = ok1 && ok2 && ok3
		}
	}
	if !defOK {
		notes = append(notes, "DefaultParams() not understood")
	}
	fmt.Printf("Definition devgas_default_params : params := {| p_enabled := %s; p_share := (%s)%%Z; p_allowed := %s |}.\n",
		CoqBool(defEnabled), defShare.String(), coqNatList(defAllowed))
	fmt.Printf("Definition devgas_default_params_understood : bool := %s.\n", CoqBool(defOK))

	// ---- ModuleParams.Sanitize
	methods := methodsOf(types, "ModuleParams")
	type rule struct {
		cond   string
		onCopy bool
		set    []string
		stop   bool
	}
	var rules []rule
	fieldCtor := map[string]string{"EnableFeeShare": "FEnabled", "DeveloperShares": "FShare", "AllowedDenoms": "FAllowed"}
	if fd := methods["Sanitize"]; fd == nil || fd.Body == nil || len(fd.Recv.List[0].Names) != 1 {
		understood = false
		notes = append(notes, "ModuleParams.Sanitize not found")
	} else {
		se := &sanEnv{recv: fd.Recv.List[0].Names[0].Name, copies: map[string]bool{}, methods: methods, notes: &notes, ok: &understood}
		pendingPtr := map[string]bool{}
		ast.Inspect(fd.Body, func(n ast.Node) bool {
			if as, ok := n.(*ast.AssignStmt); ok {
				for _, l := range as.Lhs {
					if sel, ok := l.(*ast.SelectorExpr); ok {
						if id, ok := sel.X.(*ast.Ident); ok && id.Name == se.recv {
							se.recvCopy = true
						}
					}
				}
			}
			return true
		})
		modified := false
		isDefaultOf := func(field string, rhs ast.Expr) bool {
			t := strings.TrimPrefix(Nospace(rhs), "types.")
			if t == "Default"+field || t == "DefaultParams()."+field {
				return true
			}
			if field == "AllowedDenoms" && defOK && len(defAllowed) == 0 {
				if l, ok := stringList(rhs); ok && len(l) == 0 {
					return true
				}
			}
			return false
		}
		// assignment `<copy>.<Field> = <default>`: the rewritten field, "" when it is something else
		fieldSet := func(st ast.Stmt) string {
			as, ok := st.(*ast.AssignStmt)
			if !ok || as.Tok != token.ASSIGN || len(as.Lhs) != 1 || len(as.Rhs) != 1 {
				return ""
			}
			b, f := se.fieldRef(as.Lhs[0])
			if b != "copy" || fieldCtor[f] == "" || !isDefaultOf(f, as.Rhs[0]) {
				return ""
			}
			return fieldCtor[f]
		}
		isCopyExpr := func(e ast.Expr) bool { return se.baseOf(e) != "" }
		isDefaultParamsCall := func(e ast.Expr) bool {
			return strings.TrimPrefix(Nospace(e), "types.") == "DefaultParams()"
		}
		bad := func(n ast.Node) {
			understood = false
			notes = append(notes, "stmt? "+Nospace(n))
		}
		all := []string{"FEnabled", "FShare", "FAllowed"}
		done := false
		for _, st := range fd.Body.List {
			if done {
				bad(st)
				continue
			}
			switch x := st.(type) {
			case *ast.AssignStmt:
				if len(x.Lhs) == 1 && len(x.Rhs) == 1 {
					lhs, rhs := x.Lhs[0], x.Rhs[0]
					if id, ok := lhs.(*ast.Ident); ok && x.Tok == token.DEFINE {
						if c, ok := rhs.(*ast.CallExpr); ok && Nospace(c.Fun) == "new" {
							pendingPtr[id.Name] = true
							continue
						}
						if u, ok := rhs.(*ast.UnaryExpr); ok && u.Op == token.AND {
							if cl, ok := u.X.(*ast.CompositeLit); ok && len(cl.Elts) == 0 {
								pendingPtr[id.Name] = true
								continue
							}
							if rid, ok := u.X.(*ast.Ident); ok && rid.Name == se.recv { // c := &p
								se.copies[id.Name] = true
								se.recvCopy = true
								continue
							}
						}
						if rid, ok := rhs.(*ast.Ident); ok && rid.Name == se.recv && !modified {
							se.copies[id.Name] = true
							continue
						}
					}
					if star, ok := lhs.(*ast.StarExpr); ok && x.Tok == token.ASSIGN {
						if id, ok := star.X.(*ast.Ident); ok && pendingPtr[id.Name] {
							if rid, ok := rhs.(*ast.Ident); ok && rid.Name == se.recv && !modified {
								se.copies[id.Name] = true
								continue
							}
						}
					}
					if f := fieldSet(x); f != "" {
						rules = append(rules, rule{"PcTrue", true, []string{f}, false})
						modified = true
						continue
					}
				}
				bad(st)
			case *ast.DeclStmt:
				handled := false
				if gd, ok := x.Decl.(*ast.GenDecl); ok && gd.Tok == token.VAR && len(gd.Specs) == 1 {
					if vs, ok := gd.Specs[0].(*ast.ValueSpec); ok && len(vs.Names) == 1 {
						if len(vs.Values) == 1 {
							if rid, ok := vs.Values[0].(*ast.Ident); ok && rid.Name == se.recv && !modified {
								se.copies[vs.Names[0].Name] = true
								handled = true
							}
						}
					}
				}
				if !handled {
					bad(st)
				}
			case *ast.IfStmt:
				if x.Init != nil || x.Else != nil {
					bad(st)
					continue
				}
				bases := map[string]bool{}
				c := se.cond(x.Cond, bases, 0)
				onCopy := true
				switch {
				case bases["orig"] && bases["copy"] && modified:
					understood = false
					notes = append(notes, "cond reads both the receiver and the copy: "+Nospace(x.Cond))
				case bases["orig"] && !bases["copy"]:
					onCopy = !modified
				}
				r := rule{cond: c, onCopy: onCopy}
				for i, bs := range x.Body.List {
					if f := fieldSet(bs); f != "" {
						r.set = append(r.set, f)
						continue
					}
					if ret, ok := bs.(*ast.ReturnStmt); ok && i == len(x.Body.List)-1 && len(ret.Results) == 1 {
						switch {
						case isDefaultParamsCall(ret.Results[0]):
							r.set = all
							r.stop = true
							continue
						case isCopyExpr(ret.Results[0]):
							r.stop = true
							continue
						}
					}
					bad(bs)
				}
				rules = append(rules, r)
				if !r.stop && len(r.set) > 0 {
					modified = true
				}
			case *ast.ReturnStmt:
				done = true
				switch {
				case len(x.Results) == 1 && isCopyExpr(x.Results[0]):
				case len(x.Results) == 1 && isDefaultParamsCall(x.Results[0]):
					rules = append(rules, rule{"PcTrue", true, all, true})
				default:
					bad(st)
				}
			default:
				bad(st)
			}
		}
		if !done {
			understood = false
			notes = append(notes, "Sanitize does not end in a return")
		}
	}
	fmt.Print("Definition devgas_sanitize_rules : list san_rule := [")
	for i, r := range rules {
		if i > 0 {
			fmt.Print("; ")
		}
		fmt.Printf("{| sr_cond := %s; sr_on_copy := %s; sr_set := [%s]; sr_stop := %s |}", r.cond, CoqBool(r.onCopy), strings.Join(r.set, "; "), CoqBool(r.stop))
	}
	fmt.Println("].")
	fmt.Printf("Definition devgas_sanitize_understood : bool := %s.\n", CoqBool(understood))
	printList("devgas_sanitize_notes", notes)

	// ---- who reads and who stores through Sanitize
	// Keeper.GetParams: the returned expression
	getRet := ""
	if fd := kf["GetParams"]; fd != nil && fd.Body != nil {
		sc := newScope(kpkg, fd)
		for _, st := range fd.Body.List {
			if r, ok := st.(*ast.ReturnStmt); ok && len(r.Results) == 1 {
				getRet = sc.resolve(r.Results[0], 0)
			}
		}
	}
	fmt.Printf("Definition getparams_returns : string := %s.\n", CoqString(getRet))
	// what a function hands to ModuleParams.Set, and on what it called Validate() before
	storeFacts := func(pkg *pkgInfo, fd *ast.FuncDecl) (string, []string) {
		stored, setPos := "", token.Pos(0)
		var validated []string
		if fd == nil || fd.Body == nil {
			return "", nil
		}
		sc := newScope(pkg, fd)
		ast.Inspect(fd.Body, func(n ast.Node) bool {
			if c, ok := n.(*ast.CallExpr); ok && strings.HasSuffix(sc.funName(c.Fun), ".ModuleParams.Set") && len(c.Args) == 2 {
				if stored == "" {
					stored, setPos = sc.resolve(c.Args[1], 0), c.Pos()
				} else {
					stored += " | " + sc.resolve(c.Args[1], 0)
				}
			}
			return true
		})
		ast.Inspect(fd.Body, func(n ast.Node) bool {
			if c, ok := n.(*ast.CallExpr); ok && len(c.Args) == 0 && (setPos == 0 || c.Pos() < setPos) {
				if sel, ok := c.Fun.(*ast.SelectorExpr); ok && sel.Sel.Name == "Validate" {
					validated = append(validated, sc.resolve(sel.X, 0))
				}
			}
			return true
		})
		return stored, validated
	}
	st, va := storeFacts(kpkg, kf["UpdateParams"])
	fmt.Printf("Definition update_params_stores : string := %s.\n", CoqString(st))
	printList("update_params_validates", va)
	mod := ParseDir(repo + "/x/devgas/v1")
	mf := map[string]*ast.FuncDecl{} // plain functions only (AppModule has an InitGenesis method as well)
	for _, fl := range mod {
		for _, d := range fl.F.Decls {
			if fd, ok := d.(*ast.FuncDecl); ok && fd.Recv == nil {
				mf[fd.Name.Name] = fd
			}
		}
	}
	st, va = storeFacts(&pkgInfo{funcs: mf}, mf["InitGenesis"])
	fmt.Printf("Definition init_genesis_stores : string := %s.\n", CoqString(st))
	printList("init_genesis_validates", va)
	// GenesisState.Validate checks the params
	gsChecks := false
	if fd := methodsOf(types, "GenesisState")["Validate"]; fd != nil && fd.Body != nil {
		sc := newScope(&pkgInfo{funcs: tf}, fd)
		ast.Inspect(fd.Body, func(n ast.Node) bool {
			if c, ok := n.(*ast.CallExpr); ok && sc.resolve(c, 0) == "R.Params.Validate()" {
				gsChecks = true
			}
			return true
		})
	}
	fmt.Printf("Definition genesis_validate_checks_params : bool := %s.\n", CoqBool(gsChecks))
}

// paramByType prints a ranged parameter as param(<declared type>): its position depends on how the helper is plumbed
func paramByType(sc *scope, e ast.Expr) string {
	if id, ok := e.(*ast.Ident); ok && sc.ptype[id.Name] != "" {
		return "param(" + sc.ptype[id.Name] + ")"
	}
	return sc.resolve(e, 0)
}

func isExecTypeStr(t string) bool {
	return strings.HasPrefix(t, "*") && strings.HasSuffix(t, ".MsgExecuteContract")
}

// ---------------------------------------------------------------- a small expression normaliser
//
// resolve prints an expression with the receiver as R, parameters as P<i>, single-definition locals replaced by
// their defining expression (recursively), loop variables as elem(<ranged>) / idx, X[i] with a loop index i as
// elem(X), and calls of unexported straight-line helpers of the package replaced by their returned expression.
// Locals with several definitions print as L?.  Names of locals therefore never show up in a fact.

type pkgInfo struct {
	funcs   map[string]*ast.FuncDecl
	structs map[string]map[string]string // struct type -> field -> declared type (printed instead of the private field name)
}

// structFields collects the field types of the package's struct types
func structFields(files []File) map[string]map[string]string {
	out := map[string]map[string]string{}
	for _, fl := range files {
		ast.Inspect(fl.F, func(n ast.Node) bool {
			ts, ok := n.(*ast.TypeSpec)
			if !ok {
				return true
			}
			st, ok := ts.Type.(*ast.StructType)
			if !ok {
				return true
			}
			m := map[string]string{}
			for _, f := range st.Fields.List {
				for _, nm := range f.Names {
					m[nm.Name] = strings.TrimPrefix(Nospace(f.Type), "*")
				}
			}
			out[ts.Name.Name] = m
			return true
		})
	}
	return out
}

type scope struct {
	pkg   *pkgInfo
	ren   map[string]string   // receiver / params
	defs  map[string]ast.Expr // single definition
	tag   map[string]string   // "#k" for the k-th result of a multi-value call
	count map[string]int
	elem  map[string]ast.Expr // range value var -> ranged expr
	idx   map[string]bool     // range key / for-loop index
	subst map[string]string   // helper inlining: param -> resolved argument
	recv  string              // receiver identifier
	ftype map[string]string   // receiver field -> declared type
	ptype map[string]string   // parameter -> declared type
}

func newScope(pkg *pkgInfo, fd *ast.FuncDecl) *scope {
	sc := &scope{pkg: pkg, ren: map[string]string{}, defs: map[string]ast.Expr{}, tag: map[string]string{}, count: map[string]int{},
		elem: map[string]ast.Expr{}, idx: map[string]bool{}}
	sc.ptype = map[string]string{}
	if fd.Recv != nil {
		for _, f := range fd.Recv.List {
			for _, n := range f.Names {
				sc.ren[n.Name] = "R"
				sc.recv = n.Name
				if pkg != nil && pkg.structs != nil {
					sc.ftype = pkg.structs[strings.TrimPrefix(Nospace(f.Type), "*")]
				}
			}
		}
	}
	i := 0
	for _, f := range fd.Type.Params.List {
		for _, n := range f.Names {
			sc.ren[n.Name] = fmt.Sprintf("P%d", i)
			sc.ptype[n.Name] = strings.TrimPrefix(Nospace(f.Type), "*")
			i++
		}
	}
	if fd.Body == nil {
		return sc
	}
	define := func(lhs []ast.Expr, rhs []ast.Expr) {
		for k, l := range lhs {
			id, ok := l.(*ast.Ident)
			if !ok || id.Name == "_" {
				continue
			}
			sc.count[id.Name]++
			switch {
			case len(rhs) == len(lhs):
				sc.defs[id.Name] = rhs[k]
			case len(rhs) == 1:
				sc.defs[id.Name] = rhs[0]
				if _, isTA := rhs[0].(*ast.TypeAssertExpr); !isTA || k > 0 {
					sc.tag[id.Name] = fmt.Sprintf("#%d", k)
				}
			}
		}
	}
	ast.Inspect(fd.Body, func(n ast.Node) bool {
		switch x := n.(type) {
		case *ast.AssignStmt:
			if x.Tok == token.DEFINE || x.Tok == token.ASSIGN {
				define(x.Lhs, x.Rhs)
			} else {
				for _, l := range x.Lhs {
					if id, ok := l.(*ast.Ident); ok {
						sc.count[id.Name] += 2
					}
				}
			}
		case *ast.IncDecStmt:
			if id, ok := x.X.(*ast.Ident); ok {
				sc.count[id.Name] += 2
			}
		case *ast.ValueSpec:
			for k, nm := range x.Names {
				if k < len(x.Values) {
					sc.count[nm.Name]++
					sc.defs[nm.Name] = x.Values[k]
				}
			}
		case *ast.RangeStmt:
			if id, ok := x.Key.(*ast.Ident); ok && id.Name != "_" {
				sc.idx[id.Name] = true
			}
			if id, ok := x.Value.(*ast.Ident); ok && id.Name != "_" {
				sc.elem[id.Name] = x.X
			}
		case *ast.ForStmt:
			if as, ok := x.Init.(*ast.AssignStmt); ok && len(as.Lhs) == 1 {
				if id, ok := as.Lhs[0].(*ast.Ident); ok {
					sc.idx[id.Name] = true
				}
			}
		}
		return true
	})
	return sc
}

// forRange: `for i := 0; i < len(X); i++` (len possibly through a local) ranges over X
func (sc *scope) forRange(x *ast.ForStmt) string {
	as, ok := x.Init.(*ast.AssignStmt)
	if !ok || len(as.Lhs) != 1 || len(as.Rhs) != 1 || Nospace(as.Rhs[0]) != "0" {
		return ""
	}
	i := Nospace(as.Lhs[0])
	be, ok := x.Cond.(*ast.BinaryExpr)
	if !ok || be.Op != token.LSS || Nospace(be.X) != i {
		return ""
	}
	inc, ok := x.Post.(*ast.IncDecStmt)
	if !ok || inc.Tok != token.INC || Nospace(inc.X) != i {
		return ""
	}
	bound := sc.resolve(be.Y, 0)
	if strings.HasPrefix(bound, "len(") && strings.HasSuffix(bound, ")") {
		return bound[4 : len(bound)-1]
	}
	return ""
}

func (sc *scope) funName(e ast.Expr) string {
	switch x := e.(type) {
	case *ast.Ident:
		return x.Name
	case *ast.SelectorExpr:
		if id, ok := x.X.(*ast.Ident); ok {
			if id.Name == sc.recv && sc.ftype != nil && sc.ftype[x.Sel.Name] != "" {
				return "R." + sc.ftype[x.Sel.Name]
			}
			if r, ok := sc.ren[id.Name]; ok {
				return r + "." + x.Sel.Name
			}
			return id.Name + "." + x.Sel.Name
		}
		return sc.funName(x.X) + "." + x.Sel.Name
	}
	return Nospace(e)
}

func (sc *scope) resolve(e ast.Expr, depth int) string {
	if e == nil {
		return ""
	}
	if depth > 12 {
		return "…"
	}
	switch x := e.(type) {
	case *ast.Ident:
		n := x.Name
		if sc.subst != nil {
			if v, ok := sc.subst[n]; ok {
				return v
			}
		}
		if r, ok := sc.ren[n]; ok {
			return r
		}
		if ex, ok := sc.elem[n]; ok {
			return "elem(" + sc.resolve(ex, depth+1) + ")"
		}
		if sc.idx[n] {
			return "idx"
		}
		if d, ok := sc.defs[n]; ok {
			if sc.count[n] == 1 {
				return sc.resolve(d, depth+1) + sc.tag[n]
			}
			return "L?"
		}
		return n
	case *ast.ParenExpr:
		return "(" + sc.resolve(x.X, depth+1) + ")"
	case *ast.SelectorExpr:
		if id, ok := x.X.(*ast.Ident); ok && id.Name == sc.recv && sc.subst == nil && sc.ftype != nil && sc.ftype[x.Sel.Name] != "" {
			return "R." + sc.ftype[x.Sel.Name] // a private field of the receiver is printed by its declared type
		}
		return sc.resolve(x.X, depth+1) + "." + x.Sel.Name
	case *ast.StarExpr:
		return "*" + sc.resolve(x.X, depth+1)
	case *ast.UnaryExpr:
		return x.Op.String() + sc.resolve(x.X, depth+1)
	case *ast.BinaryExpr:
		return sc.resolve(x.X, depth+1) + x.Op.String() + sc.resolve(x.Y, depth+1)
	case *ast.IndexExpr:
		if id, ok := x.Index.(*ast.Ident); ok && sc.idx[id.Name] {
			return "elem(" + sc.resolve(x.X, depth+1) + ")"
		}
		return sc.resolve(x.X, depth+1) + "[" + sc.resolve(x.Index, depth+1) + "]"
	case *ast.TypeAssertExpr:
		if x.Type == nil {
			return sc.resolve(x.X, depth+1) + ".(type)"
		}
		return sc.resolve(x.X, depth+1) + ".(" + Nospace(x.Type) + ")"
	case *ast.CallExpr:
		var args []string
		for _, a := range x.Args {
			args = append(args, sc.resolve(a, depth+1))
		}
		if inl, ok := sc.inline(x, args, depth); ok {
			return inl
		}
		return sc.resolve(x.Fun, depth+1) + "(" + strings.Join(args, ",") + ")"
	}
	return Nospace(e)
}

// inline replaces a call of an unexported straight-line helper (only single-definition `:=` statements and one final
// `return <expr>`) by the returned expression
func (sc *scope) inline(call *ast.CallExpr, args []string, depth int) (string, bool) {
	if sc.pkg == nil || depth > 6 {
		return "", false
	}
	name := sc.funName(call.Fun)
	name = strings.TrimPrefix(name, "R.")
	fd := sc.pkg.funcs[name]
	if fd == nil || fd.Body == nil || ast.IsExported(name) || strings.Contains(name, ".") || len(fd.Body.List) == 0 {
		return "", false
	}
	for i, st := range fd.Body.List {
		if i == len(fd.Body.List)-1 {
			r, ok := st.(*ast.ReturnStmt)
			if !ok || len(r.Results) != 1 {
				return "", false
			}
			h := newScope(sc.pkg, fd)
			h.subst = map[string]string{}
			k := 0
			for _, f := range fd.Type.Params.List {
				for _, n := range f.Names {
					if k < len(args) {
						h.subst[n.Name] = args[k]
					}
					k++
				}
			}
			if fd.Recv != nil {
				if sel, ok := call.Fun.(*ast.SelectorExpr); ok {
					for _, f := range fd.Recv.List {
						for _, n := range f.Names {
							h.subst[n.Name] = sc.resolve(sel.X, depth+1)
						}
					}
				}
			}
			return h.resolve(r.Results[0], depth+1), true
		}
		as, ok := st.(*ast.AssignStmt)
		if !ok || as.Tok != token.DEFINE {
			return "", false
		}
	}
	return "", false
}

// leavesLoop: in block b, a statement at or after position p (the statement holding the Add) is followed, in the same
// block, by `break` or `return`
func leavesLoop(b *ast.BlockStmt, p token.Pos) bool {
	after := false
	for _, st := range b.List {
		if st.Pos() <= p && p < st.End() {
			after = true
			continue
		}
		if after {
			switch x := st.(type) {
			case *ast.BranchStmt:
				return x.Tok == token.BREAK && x.Label == nil
			case *ast.ReturnStmt:
				return true
			}
		}
	}
	return false
}

func printList(name string, xs []string) {
	fmt.Printf("Definition %s : list string := [", name)
	for i, x := range xs {
		if i > 0 {
			fmt.Print("; ")
		}
		fmt.Print(CoqString(x))
	}
	fmt.Println("].")
}
