// Command gen/c18 prints coq/Gen/C18Facts.v from the /repo working tree (terms, never verdicts):
// the ordered non-EVM ante chain, the textual normal forms of the dev-gas payout formula and of
// the recipient collection, and the order of guard / write calls in the three registry handlers.
package main

import (
	"fmt"
	"go/ast"
	"go/token"
	"strings"

	. "verifharness/genlib"
)

func main() {
	repo := Repo()
	Header(repo)
	fmt.Println("From Coq Require Import String List. Import ListNotations. Open Scope string_scope.")

	// ---- ante chain of NewAnteHandlerNonEVM
	app := ParseDir(repo + "/app")
	af := Funcs(app)
	var chain []string
	var devgasArgs []string
	if fd := af["NewAnteHandlerNonEVM"]; fd != nil && fd.Body != nil {
		ast.Inspect(fd.Body, func(n ast.Node) bool {
			call, ok := n.(*ast.CallExpr)
			if !ok {
				return true
			}
			if Nospace(call.Fun) != "sdk.ChainAnteDecorators" {
				return true
			}
			for _, a := range call.Args {
				switch x := a.(type) {
				case *ast.CallExpr:
					name := Nospace(x.Fun)
					chain = append(chain, name)
					if strings.HasSuffix(name, "NewDevGasPayoutDecorator") {
						for _, aa := range x.Args {
							devgasArgs = append(devgasArgs, Nospace(aa))
						}
					}
				case *ast.CompositeLit:
					chain = append(chain, Nospace(x.Type)+"{}")
				default:
					chain = append(chain, "?"+Nospace(a))
				}
			}
			return false
		})
	}
	printList("nonevm_chain", chain)
	printList("devgas_decorator_args", devgasArgs)
	// which keeper the options hand to the decorator (app.go: DevGasBankKeeper: app.BankKeeper)
	bankWiring := ""
	for _, fl := range app {
		ast.Inspect(fl.F, func(n ast.Node) bool {
			kv, ok := n.(*ast.KeyValueExpr)
			if ok {
				if id, ok := kv.Key.(*ast.Ident); ok && id.Name == "DevGasBankKeeper" {
					bankWiring = Nospace(kv.Value)
				}
			}
			return true
		})
	}
	fmt.Printf("Definition devgas_bank_keeper_wiring : string := %s.\n", CoqString(bankWiring))

	// blocked addresses of the bank keeper: app_config.go hands `blockAccAddrs` to the bank module as
	// BlockedModuleAccountsOverride (x/evm/evmmodule builds the keeper's blocked map from it)
	var blocked []string
	override := ""
	for _, fl := range app {
		ast.Inspect(fl.F, func(n ast.Node) bool {
			switch x := n.(type) {
			case *ast.ValueSpec:
				if len(x.Names) == 1 && x.Names[0].Name == "blockAccAddrs" && len(x.Values) == 1 {
					if cl, ok := x.Values[0].(*ast.CompositeLit); ok {
						for _, e := range cl.Elts {
							blocked = append(blocked, Nospace(e))
						}
					}
				}
			case *ast.KeyValueExpr:
				if id, ok := x.Key.(*ast.Ident); ok && id.Name == "BlockedModuleAccountsOverride" {
					override = Nospace(x.Value)
				}
			}
			return true
		})
	}
	printList("blocked_module_accounts", blocked)
	fmt.Printf("Definition blocked_override_wiring : string := %s.\n", CoqString(override))

	// ---- x/devgas/v1/ante
	dante := ParseDir(repo + "/x/devgas/v1/ante")
	df := Funcs(dante)

	for _, fn := range []string{"FeePayLogic", "getWithdrawAddressesFromMsgs", "settleFeePayments", "devGasPayout"} {
		if fd := df[fn]; fd != nil {
			alphaNorm(fd)
		}
	}
	// FeePayLogic: the expression assigned to the reward, what is added to the result, the loop range
	// (identifiers alpha-normalised: R receiver, P<i> parameters, L<k> locals in order of definition)
	reward, added, ranged := "", "", ""
	if fd := df["FeePayLogic"]; fd != nil && fd.Body != nil {
		ast.Inspect(fd.Body, func(n ast.Node) bool {
			switch x := n.(type) {
			case *ast.AssignStmt:
				if len(x.Lhs) == 1 && len(x.Rhs) == 1 {
					if _, ok := x.Lhs[0].(*ast.Ident); ok {
						if x.Tok == token.DEFINE && reward == "" {
							reward = Nospace(x.Rhs[0])
						}
						if x.Tok == token.ASSIGN {
							added = Nospace(x.Lhs[0]) + "=" + Nospace(x.Rhs[0])
						}
					}
				}
			case *ast.RangeStmt:
				ranged = Nospace(x.X)
			}
			return true
		})
	}
	fmt.Printf("Definition reward_expr : string := %s.\n", CoqString(reward))
	fmt.Printf("Definition reward_added : string := %s.\n", CoqString(added))
	fmt.Printf("Definition reward_range : string := %s.\n", CoqString(ranged))

	// getWithdrawAddressesFromMsgs: asserted message types, ranged expression, self / helper calls
	var asserted, calls []string
	wrange := ""
	if fd := df["getWithdrawAddressesFromMsgs"]; fd != nil && fd.Body != nil {
		seen := map[string]bool{}
		ast.Inspect(fd.Body, func(n ast.Node) bool {
			switch x := n.(type) {
			case *ast.TypeAssertExpr:
				if x.Type != nil {
					s := Nospace(x.Type)
					if !seen["t"+s] {
						seen["t"+s] = true
						asserted = append(asserted, s)
					}
				}
			case *ast.TypeSwitchStmt:
				asserted = append(asserted, "typeswitch")
			case *ast.RangeStmt:
				if wrange == "" {
					wrange = Nospace(x.X)
				} else {
					wrange += "|" + Nospace(x.X)
				}
			case *ast.CallExpr:
				s := Nospace(x.Fun)
				if !seen["c"+s] {
					seen["c"+s] = true
					calls = append(calls, s)
				}
			}
			return true
		})
	}
	printList("recipients_asserted_types", asserted)
	printList("recipients_calls", calls)
	fmt.Printf("Definition recipients_range : string := %s.\n", CoqString(wrange))

	// settleFeePayments: calls in order (source module, same coin set for every recipient)
	var settle []string
	if fd := df["settleFeePayments"]; fd != nil && fd.Body != nil {
		ast.Inspect(fd.Body, func(n ast.Node) bool {
			if x, ok := n.(*ast.CallExpr); ok {
				name := Nospace(x.Fun)
				if name == "getAllowedFees" || name == "FeePayLogic" || strings.HasSuffix(name, "SendCoinsFromModuleToAccount") {
					settle = append(settle, Nospace(x))
				}
			}
			return true
		})
	}
	printList("settle_calls", settle)

	// devGasPayout: guard on params.EnableFeeShare and on len(toPay)
	guardEnabled, guardEmpty := false, false
	if fd := df["devGasPayout"]; fd != nil && fd.Body != nil {
		b := Nospace(fd.Body)
		guardEnabled = strings.Contains(b, "L0:=R.devgasKeeper.GetParams(P0)if!L0.EnableFeeShare{returnnil}")
		guardEmpty = strings.Contains(b, "L1,err:=R.getWithdrawAddressesFromMsgs(P0,P1.GetMsgs())") && strings.Contains(b, "iflen(L1)==0{returnnil}")
		fmt.Printf("Definition payout_fee_source : string := %s.\n", CoqString(argOfCall(fd, "settleFeePayments", 3)))
	} else {
		fmt.Printf("Definition payout_fee_source : string := %s.\n", CoqString(""))
	}
	fmt.Printf("Definition payout_guard_enabled : bool := %s.\n", CoqBool(guardEnabled))
	fmt.Printf("Definition payout_guard_empty : bool := %s.\n", CoqBool(guardEmpty))

	// getAllowedFees: does the `if fee.Denom == allowed { … }` block leave the inner loop after the first match?
	breaks, adds := false, 0
	if fd := df["getAllowedFees"]; fd != nil && fd.Body != nil {
		ast.Inspect(fd.Body, func(n ast.Node) bool {
			ifs, ok := n.(*ast.IfStmt)
			if !ok {
				return true
			}
			be, ok := ifs.Cond.(*ast.BinaryExpr)
			if !ok || be.Op != token.EQL || !strings.HasSuffix(Nospace(be.X), ".Denom") {
				return true
			}
			for _, st := range ifs.Body.List {
				if br, ok := st.(*ast.BranchStmt); ok && br.Tok == token.BREAK && br.Label == nil {
					breaks = true
				}
			}
			ast.Inspect(ifs.Body, func(m ast.Node) bool {
				if c, ok := m.(*ast.CallExpr); ok && strings.HasSuffix(Nospace(c.Fun), ".Add") {
					adds++
				}
				return true
			})
			return true
		})
	}
	fmt.Printf("Definition allowed_fees_break_after_first_match : bool := %s.\n", CoqBool(breaks))
	fmt.Printf("Definition allowed_fees_adds_per_match : nat := %d.\n", adds)

	// ---- msg server: order of guard and write calls per handler
	keeper := ParseDir(repo + "/x/devgas/v1/keeper")
	kf := Funcs(keeper)
	interesting := []string{"k.GetParams", "k.IsFeeShareRegistered", "k.GetFeeShare", "k.isContractCreatedFromFactory",
		"k.GetContractAdminOrCreatorAddress", "k.SetFeeShare", "k.DevGasStore.Delete", "k.DevGasStore.Insert"}
	for _, fn := range []string{"RegisterFeeShare", "UpdateFeeShare", "CancelFeeShare"} {
		var seq []string
		if fd := kf[fn]; fd != nil && fd.Body != nil {
			type pc struct {
				pos  int
				name string
			}
			var found []pc
			ast.Inspect(fd.Body, func(n ast.Node) bool {
				if x, ok := n.(*ast.CallExpr); ok {
					name := Nospace(x.Fun)
					for _, w := range interesting {
						if name == w {
							found = append(found, pc{int(x.Pos()), name})
						}
					}
				}
				return true
			})
			// source order
			for i := 0; i < len(found); i++ {
				for j := i + 1; j < len(found); j++ {
					if found[j].pos < found[i].pos {
						found[i], found[j] = found[j], found[i]
					}
				}
			}
			for _, f := range found {
				seq = append(seq, f.name)
			}
		}
		printList("calls_"+fn, seq)
	}
	// the authority check of Update / Cancel: a top-level statement `…, e = k.GetContractAdminOrCreatorAddress(ctx, c, <msg>.<Field>)`
	// immediately followed by `if e != nil { return … }`; <Field> must be the field GetSigners() returns
	types := ParseDir(repo + "/x/devgas/v1/types")
	for _, fn := range []string{"UpdateFeeShare", "CancelFeeShare"} {
		ok, field := false, ""
		if fd := kf[fn]; fd != nil && fd.Body != nil {
			for i, st := range fd.Body.List {
				as, isAs := st.(*ast.AssignStmt)
				if !isAs || len(as.Rhs) != 1 || len(as.Lhs) == 0 {
					continue
				}
				call, isCall := as.Rhs[0].(*ast.CallExpr)
				if !isCall || !strings.HasSuffix(Nospace(call.Fun), ".GetContractAdminOrCreatorAddress") || len(call.Args) != 3 {
					continue
				}
				if sel, isSel := call.Args[2].(*ast.SelectorExpr); isSel {
					field = sel.Sel.Name
				}
				errName := Nospace(as.Lhs[len(as.Lhs)-1])
				if i+1 < len(fd.Body.List) {
					if ifs, isIf := fd.Body.List[i+1].(*ast.IfStmt); isIf && ifs.Init == nil && Nospace(ifs.Cond) == errName+"!=nil" &&
						len(ifs.Body.List) > 0 {
						if _, isRet := ifs.Body.List[len(ifs.Body.List)-1].(*ast.ReturnStmt); isRet {
							ok = true
						}
					}
				}
			}
		}
		fmt.Printf("Definition auth_error_returned_%s : bool := %s.\n", fn, CoqBool(ok))
		fmt.Printf("Definition auth_checked_field_%s : string := %s.\n", fn, CoqString(field))
	}
	// field whose address GetSigners() returns, per message type
	for _, mt := range []string{"MsgRegisterFeeShare", "MsgUpdateFeeShare", "MsgCancelFeeShare"} {
		field := ""
		for _, fl := range types {
			for _, d := range fl.F.Decls {
				fd, ok := d.(*ast.FuncDecl)
				if !ok || fd.Name.Name != "GetSigners" || fd.Recv == nil || len(fd.Recv.List) != 1 || fd.Body == nil {
					continue
				}
				if strings.TrimPrefix(Nospace(fd.Recv.List[0].Type), "*") != mt {
					continue
				}
				ast.Inspect(fd.Body, func(n ast.Node) bool {
					if c, ok := n.(*ast.CallExpr); ok && strings.HasSuffix(Nospace(c.Fun), "AccAddressFromBech32") && len(c.Args) == 1 {
						if sel, ok := c.Args[0].(*ast.SelectorExpr); ok {
							field = sel.Sel.Name
						}
					}
					return true
				})
			}
		}
		fmt.Printf("Definition signer_field_%s : string := %s.\n", mt, CoqString(field))
	}
}

// alphaNorm renames, in place, the receiver to R, parameters to P<i> and locally defined identifiers
// to L<k> (order of first definition), leaving selectors' field names and composite-literal keys alone.
func alphaNorm(fd *ast.FuncDecl) {
	ren := map[string]string{}
	if fd.Recv != nil {
		for _, f := range fd.Recv.List {
			for _, n := range f.Names {
				ren[n.Name] = "R"
			}
		}
	}
	i := 0
	for _, f := range fd.Type.Params.List {
		for _, n := range f.Names {
			ren[n.Name] = fmt.Sprintf("P%d", i)
			i++
		}
	}
	if fd.Body == nil {
		return
	}
	k := 0
	def := func(e ast.Expr) {
		if id, ok := e.(*ast.Ident); ok && id.Name != "_" && id.Name != "err" {
			if _, seen := ren[id.Name]; !seen {
				ren[id.Name] = fmt.Sprintf("L%d", k)
				k++
			}
		}
	}
	skip := map[*ast.Ident]bool{}
	ast.Inspect(fd.Body, func(n ast.Node) bool {
		switch x := n.(type) {
		case *ast.AssignStmt:
			if x.Tok == token.DEFINE {
				for _, l := range x.Lhs {
					def(l)
				}
			}
		case *ast.RangeStmt:
			if x.Tok == token.DEFINE {
				if x.Key != nil {
					def(x.Key)
				}
				if x.Value != nil {
					def(x.Value)
				}
			}
		case *ast.ValueSpec:
			for _, nm := range x.Names {
				def(nm)
			}
		case *ast.SelectorExpr:
			skip[x.Sel] = true
		case *ast.KeyValueExpr:
			if id, ok := x.Key.(*ast.Ident); ok {
				skip[id] = true
			}
		}
		return true
	})
	ast.Inspect(fd.Body, func(n ast.Node) bool {
		if id, ok := n.(*ast.Ident); ok && !skip[id] {
			if nn, ok := ren[id.Name]; ok {
				id.Name = nn
			}
		}
		return true
	})
}

func argOfCall(fd *ast.FuncDecl, suffix string, idx int) string {
	out := ""
	ast.Inspect(fd.Body, func(n ast.Node) bool {
		if x, ok := n.(*ast.CallExpr); ok {
			if strings.HasSuffix(Nospace(x.Fun), suffix) && idx < len(x.Args) {
				out = Nospace(x.Args[idx])
			}
		}
		return true
	})
	return out
}

func printList(name string, xs []string) {
	fmt.Printf("Definition %s : list string := [", name)
	for i, x := range xs {
		if i > 0 {
			fmt.Print("; ")
		}
		fmt.Print(CoqString(x))
	}
	fmt.Println("].")
}
