package main

// Vocabulary alignment: the facts are printed in the unexported names the discipline table
// (coq/C03/Discipline.v) is written in.  A consistent package-wide RENAME of an unexported field /
// method / function that belongs to that vocabulary is undone before the analysis — the declaration
// is recognised by its SHAPE, never by a similar-looking name:
//
//   - a struct of the vocabulary whose fields have exactly the reference sequence of TYPES gets its
//     unexported fields renamed positionally to the reference names;
//   - a method / function of the vocabulary that is missing is identified with the ONLY unexported
//     method of the same receiver (function of the package) that has the reference signature and whose
//     own name is not a name of the vocabulary.
//
// The renaming is applied to the declaration, to every selector `.name`, to the keys of composite
// literals of the struct, and to direct calls — and only when it is unambiguous: the old name is not
// declared by anything else in the package that is not renamed to the same new name, and the new name
// is not taken.  Anything else (a field added, a type changed, two candidates) is left alone and shows
// up as a difference in the facts.

import (
	"go/ast"
	"go/token"
	"strings"

	. "verifharness/genlib"
)

var refStructs = map[string][][2]string{
	"StateDB": {{"keeper", "Keeper"}, {"evmTxCtx", "sdk.Context"}, {"Journal", "*journal"}, {"validRevisions", "[]revision"}, {"nextRevisionID", "int"},
		{"stateObjects", "map[common.Address]*stateObject"}, {"txConfig", "TxConfig"}, {"cacheCtx", "sdk.Context"}, {"cacheStore", "*cacheMultiStore"},
		{"writeToCommitCtxFromCacheCtx", "func()"}, {"multistoreCacheCount", "uint8"}, {"refund", "uint64"}, {"logs", "[]*gethcore.Log"}, {"accessList", "*accessList"}},
	"accessList":                 {{"addresses", "map[common.Address]int"}, {"slots", "[]map[common.Hash]struct{}"}},
	"accessListAddAccountChange": {{"address", "*common.Address"}},
	"accessListAddSlotChange":    {{"address", "*common.Address"}, {"slot", "*common.Hash"}},
	"balanceChange":              {{"account", "*common.Address"}, {"prevWei", "*big.Int"}},
	"codeChange":                 {{"account", "*common.Address"}, {"prevcode", "[]byte"}, {"prevhash", "[]byte"}},
	"createObjectChange":         {{"account", "*common.Address"}},
	"journal":                    {{"entries", "[]JournalChange"}, {"dirties", "map[common.Address]int"}},
	"nonceChange":                {{"account", "*common.Address"}, {"prev", "uint64"}},
	"refundChange":               {{"prev", "uint64"}},
	"resetObjectChange":          {{"prev", "*stateObject"}},
	"stateObject": {{"db", "*StateDB"}, {"account", "AccountWei"}, {"code", "[]byte"}, {"OriginStorage", "Storage"}, {"DirtyStorage", "Storage"},
		{"address", "common.Address"}, {"DirtyCode", "bool"}, {"Suicided", "bool"}},
	"storageChange": {{"account", "*common.Address"}, {"key", "common.Hash"}, {"prevalue", "common.Hash"}},
	"suicideChange": {{"account", "*common.Address"}, {"prev", "bool"}, {"prevbalance", "*big.Int"}},
}

// receiver type ("" = package function), name, signature "params->results" (types only)
var refFuncs = [][3]string{
	{"StateDB", "getStateObject", "common.Address->*stateObject"},
	{"StateDB", "getOrNewStateObject", "common.Address->*stateObject"},
	{"StateDB", "createObject", "common.Address->*stateObject,*stateObject"},
	{"StateDB", "commitCtx", "sdk.Context,bool->error"},
	{"stateObject", "setBalance", "*big.Int->"},
	{"stateObject", "setNonce", "uint64->"},
	{"stateObject", "setCode", "common.Hash,[]byte->"},
	{"stateObject", "setState", "common.Hash,common.Hash->"},
	{"stateObject", "isEmpty", "->bool"},
	{"journal", "append", "JournalChange->"},
	{"journal", "sortedDirties", "->[]common.Address"},
	{"", "newObject", "*StateDB,common.Address,Account->*stateObject"},
	{"", "newJournal", "->*journal"},
	{"", "newAccessList", "->*accessList"},
}

func fieldTypes(fl *ast.FieldList) []string {
	var out []string
	if fl == nil {
		return out
	}
	for _, f := range fl.List {
		n := len(f.Names)
		if n == 0 {
			n = 1
		}
		for i := 0; i < n; i++ {
			out = append(out, Nospace(f.Type))
		}
	}
	return out
}

func sigOf(fd *ast.FuncDecl) string {
	return strings.Join(fieldTypes(fd.Type.Params), ",") + "->" + strings.Join(fieldTypes(fd.Type.Results), ",")
}

type rename struct{ old, new string }

// alignVocabulary rewrites the identifiers of the parsed package in place.
func alignVocabulary(files []File) {
	// --- declarations of the package
	structs := map[string]*ast.StructType{}
	fieldOwners := map[string]map[string]bool{} // field name -> struct types declaring it
	methodOwners := map[string]map[string]bool{}
	funcs := map[string]*ast.FuncDecl{} // "Recv.name" / "name"
	for _, fl := range files {
		for _, d := range fl.F.Decls {
			switch x := d.(type) {
			case *ast.GenDecl:
				if x.Tok != token.TYPE {
					continue
				}
				for _, sp := range x.Specs {
					ts := sp.(*ast.TypeSpec)
					if st, ok := ts.Type.(*ast.StructType); ok {
						structs[ts.Name.Name] = st
						for _, f := range st.Fields.List {
							for _, n := range f.Names {
								if fieldOwners[n.Name] == nil {
									fieldOwners[n.Name] = map[string]bool{}
								}
								fieldOwners[n.Name][ts.Name.Name] = true
							}
						}
					}
				}
			case *ast.FuncDecl:
				_, rt := recvOf(x)
				key := x.Name.Name
				if rt != "" {
					key = rt + "." + key
				}
				funcs[key] = x
				if methodOwners[x.Name.Name] == nil {
					methodOwners[x.Name.Name] = map[string]bool{}
				}
				methodOwners[x.Name.Name][rt] = true
			}
		}
	}
	vocabNames := map[string]bool{}
	for _, rf := range refFuncs {
		vocabNames[rf[1]] = true
	}
	for _, fs := range refStructs {
		for _, f := range fs {
			vocabNames[f[0]] = true
		}
	}

	fieldRen := map[string][]rename{} // struct type -> renames
	memberRen := map[string]string{}  // old -> new, for selectors (fields and methods)
	conflict := map[string]bool{}
	propose := func(old, new string) {
		if prev, ok := memberRen[old]; ok && prev != new {
			conflict[old] = true
		}
		memberRen[old] = new
	}
	// --- struct fields, positionally when the type sequence is the reference's
	for tn, ref := range refStructs {
		st, ok := structs[tn]
		if !ok {
			continue
		}
		var cur [][2]string
		for _, f := range st.Fields.List {
			for _, n := range f.Names {
				cur = append(cur, [2]string{n.Name, Nospace(f.Type)})
			}
		}
		if len(cur) != len(ref) {
			continue
		}
		same := true
		for i := range cur {
			if cur[i][1] != ref[i][1] {
				same = false
			}
		}
		if !same {
			continue
		}
		for i := range cur {
			if cur[i][0] != ref[i][0] && !ast.IsExported(cur[i][0]) && !ast.IsExported(ref[i][0]) {
				fieldRen[tn] = append(fieldRen[tn], rename{cur[i][0], ref[i][0]})
				propose(cur[i][0], ref[i][0])
			}
		}
	}
	// --- methods / functions by signature
	funcRen := map[string]string{} // "Recv.old" or "old" -> new
	for _, rf := range refFuncs {
		rt, name, sig := rf[0], rf[1], rf[2]
		key := name
		if rt != "" {
			key = rt + "." + name
		}
		if _, ok := funcs[key]; ok {
			continue
		}
		var cands []string
		for k, fd := range funcs {
			_, frt := recvOf(fd)
			if frt != rt || ast.IsExported(fd.Name.Name) || vocabNames[fd.Name.Name] || sigOf(fd) != sig {
				continue
			}
			cands = append(cands, k)
		}
		if len(cands) == 1 {
			old := funcs[cands[0]].Name.Name
			funcRen[cands[0]] = name
			propose(old, name)
		}
	}
	// --- soundness of a name-based rewrite: every declaration of the old name is renamed (to the same
	//     new name), and the new name is free where the old one lived
	ok := func(old, new string) bool {
		if conflict[old] {
			return false
		}
		for owner := range fieldOwners[old] {
			found := false
			for _, r := range fieldRen[owner] {
				if r.old == old {
					found = true
				}
			}
			if !found {
				return false
			}
		}
		for owner := range methodOwners[old] {
			k := old
			if owner != "" {
				k = owner + "." + old
			}
			if funcRen[k] != new {
				return false
			}
		}
		for owner := range fieldOwners[new] {
			// the new name may exist elsewhere only as a reference field of another vocabulary struct
			if _, isRef := refStructs[owner]; !isRef {
				return false
			}
		}
		return true
	}
	final := map[string]string{}
	for old, new := range memberRen {
		if ok(old, new) {
			final[old] = new
		}
	}
	if len(final) == 0 {
		return
	}
	// --- rewrite: declarations, selectors, composite-literal keys, direct calls
	for _, fl := range files {
		ast.Inspect(fl.F, func(n ast.Node) bool {
			switch x := n.(type) {
			case *ast.TypeSpec:
				if st, isStruct := x.Type.(*ast.StructType); isStruct {
					for _, f := range st.Fields.List {
						for _, nm := range f.Names {
							if nw, ok := final[nm.Name]; ok && fieldOwners[nm.Name][x.Name.Name] {
								nm.Name = nw
							}
						}
					}
				}
			case *ast.FuncDecl:
				if nw, ok := final[x.Name.Name]; ok {
					x.Name.Name = nw
				}
			case *ast.SelectorExpr:
				if nw, ok := final[x.Sel.Name]; ok {
					x.Sel.Name = nw
				}
			case *ast.CompositeLit:
				for _, el := range x.Elts {
					if kv, isKV := el.(*ast.KeyValueExpr); isKV {
						if id, isID := kv.Key.(*ast.Ident); isID {
							if nw, ok := final[id.Name]; ok {
								id.Name = nw
							}
						}
					}
				}
			case *ast.CallExpr:
				if id, isID := x.Fun.(*ast.Ident); isID {
					if nw, ok := final[id.Name]; ok && methodOwners[id.Name][""] {
						id.Name = nw
					}
				}
			}
			return true
		})
	}
}
