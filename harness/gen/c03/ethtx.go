package main

// Keeper.EthereumTx and the process-wide per-tx StateDB pointer (Keeper.Bank.StateDB):
// once EthereumTx has obtained a StateDB (Bank.TxStateDB / NewStateDB, possibly through a helper),
// is the pointer forgotten (Bank.ClearTxStateDB, or `….StateDB = nil`) on EVERY return path — i.e.
// by a `defer` registered before any return that follows the acquisition?  Printed as one boolean,
// the [clears_on_error] parameter of the message-layer model coq/C03/Msg.v.
//
// Normal form: `defer f()` and `defer func() { f() }()` are the same; the acquisition and the clear
// may sit in same-package helpers (followed transitively); when EthereumTx only delegates to a
// helper that does both, the helper is analysed instead.

import (
	"fmt"
	"go/ast"
	"go/token"
	"sort"
	"strings"

	. "verifharness/genlib"
)

type ethtx struct {
	funcs map[string]*ast.FuncDecl // by bare name (methods and functions of package keeper)
}

var acquireNames = map[string]bool{"TxStateDB": true, "NewStateDB": true}
var clearNames = map[string]bool{"ClearTxStateDB": true}

func calleeName(call *ast.CallExpr) string {
	switch f := call.Fun.(type) {
	case *ast.Ident:
		return f.Name
	case *ast.SelectorExpr:
		return f.Sel.Name
	}
	return ""
}

// mentions: does node n (transitively through same-package helpers) call one of names /
// (for clears) assign nil to a field called StateDB?
func (e *ethtx) mentions(n ast.Node, names map[string]bool, depth int, seen map[string]bool) bool {
	found := false
	ast.Inspect(n, func(x ast.Node) bool {
		if found {
			return false
		}
		switch v := x.(type) {
		case *ast.CallExpr:
			nm := calleeName(v)
			if names[nm] {
				found = true
				return false
			}
			if fd, ok := e.funcs[nm]; ok && depth > 0 && !seen[nm] && !acquireNames[nm] && !clearNames[nm] && fd.Body != nil {
				seen[nm] = true
				if e.mentions(fd.Body, names, depth-1, seen) {
					found = true
					return false
				}
			}
		case *ast.AssignStmt:
			if names["ClearTxStateDB"] && v.Tok == token.ASSIGN && len(v.Lhs) == 1 && len(v.Rhs) == 1 {
				if sel, ok := v.Lhs[0].(*ast.SelectorExpr); ok && sel.Sel.Name == "StateDB" {
					if id, ok := v.Rhs[0].(*ast.Ident); ok && id.Name == "nil" {
						found = true
						return false
					}
				}
			}
		}
		return true
	})
	return found
}

func hasReturn(n ast.Node) bool {
	found := false
	ast.Inspect(n, func(x ast.Node) bool {
		switch x.(type) {
		case *ast.FuncLit:
			return false
		case *ast.ReturnStmt:
			found = true
		}
		return !found
	})
	return found
}

// analyse returns (acquires, clearsOnEveryReturn)
func (e *ethtx) analyse(fd *ast.FuncDecl, depth int) (bool, bool) {
	if fd == nil || fd.Body == nil || depth == 0 {
		return false, false
	}
	stmts := fd.Body.List
	acq, def := -1, -1
	for i, s := range stmts {
		if _, isDefer := s.(*ast.DeferStmt); !isDefer && acq < 0 && e.mentions(s, acquireNames, 3, map[string]bool{}) {
			acq = i
		}
		if d, ok := s.(*ast.DeferStmt); ok && def < 0 && e.mentions(d.Call, clearNames, 3, map[string]bool{}) {
			def = i
		}
	}
	if acq < 0 {
		return false, false
	}
	// the acquiring statement is a pure delegation to a helper that acquires AND defers the clear itself
	if def < 0 {
		var inner *ast.FuncDecl
		ast.Inspect(stmts[acq], func(x ast.Node) bool {
			if c, ok := x.(*ast.CallExpr); ok && inner == nil {
				if h, ok := e.funcs[calleeName(c)]; ok && !acquireNames[calleeName(c)] {
					if a, cl := e.analyse(h, depth-1); a && cl {
						inner = h
					}
				}
			}
			return inner == nil
		})
		if inner != nil {
			if _, isRet := stmts[acq].(*ast.ReturnStmt); isRet {
				return true, true
			}
		}
		return true, false
	}
	if def < acq {
		return true, true
	}
	for i := acq; i < def; i++ {
		if hasReturn(stmts[i]) {
			return true, false
		}
	}
	return true, true
}

func printEthereumTx(kfiles []File) {
	e := &ethtx{funcs: map[string]*ast.FuncDecl{}}
	var target *ast.FuncDecl
	for _, fl := range kfiles {
		for _, d := range fl.F.Decls {
			if fd, ok := d.(*ast.FuncDecl); ok {
				e.funcs[fd.Name.Name] = fd
				if _, rt := recvOf(fd); rt == "Keeper" && fd.Name.Name == "EthereumTx" {
					target = fd
				}
			}
		}
	}
	acquires, clears := e.analyse(target, 3)
	fmt.Println("(* Keeper.EthereumTx obtains the per-tx StateDB published on the bank keeper (or publishes a new one) and forgets it")
	fmt.Println("   again on EVERY return path: the clear is deferred before any return that follows the acquisition *)")
	fmt.Printf("Definition c03_ethereumtx_obtains_tx_statedb : bool := %s.\n", CoqBool(acquires))
	fmt.Printf("Definition c03_ethereumtx_clears_on_every_return : bool := %s.\n", CoqBool(clears))
}

// ---------------------------------------------------------------- the sender-balance precheck of the ante chain
//
// keeper.CheckSenderBalance(balance, txData, …): WHAT is the balance compared with — TxData.Cost()
// (gas * feeCap + value: go-ethereum's buyGas check) or an effective cost?  Printed as one boolean, the
// [cap_check] parameter of the admission predicate [ante] of coq/C03/Msg.v; plus whether an AnteHandle of
// app/evmante calls CheckSenderBalance at all.  Normal form: the methods invoked on the TxData parameter
// (also inside same-package helpers it is handed to) — names of locals, the comparison idiom
// (Cmp / Sign of a difference), error texts and extra parameters do not matter.

func txDataParams(fd *ast.FuncDecl) map[string]bool {
	out := map[string]bool{}
	if fd.Type.Params == nil {
		return out
	}
	for _, p := range fd.Type.Params.List {
		tn := Nospace(p.Type)
		if tn == "evm.TxData" || tn == "TxData" {
			for _, n := range p.Names {
				out[n.Name] = true
			}
		}
	}
	return out
}

func (e *ethtx) txDataMethods(fd *ast.FuncDecl, depth int, acc map[string]bool) {
	if fd == nil || fd.Body == nil || depth == 0 {
		return
	}
	ps := txDataParams(fd)
	ast.Inspect(fd.Body, func(x ast.Node) bool {
		c, ok := x.(*ast.CallExpr)
		if !ok {
			return true
		}
		if sel, ok := c.Fun.(*ast.SelectorExpr); ok {
			if id, ok := sel.X.(*ast.Ident); ok && ps[id.Name] {
				acc[sel.Sel.Name] = true
			}
		}
		// the TxData handed on to a same-package helper
		if h, ok := e.funcs[calleeName(c)]; ok {
			for _, a := range c.Args {
				if id, ok := a.(*ast.Ident); ok && ps[id.Name] {
					e.txDataMethods(h, depth-1, acc)
					break
				}
			}
		}
		return true
	})
}

func printSenderBalanceCheck(kfiles, afiles []File) {
	e := &ethtx{funcs: map[string]*ast.FuncDecl{}}
	for _, fl := range kfiles {
		for _, d := range fl.F.Decls {
			if fd, ok := d.(*ast.FuncDecl); ok {
				e.funcs[fd.Name.Name] = fd
			}
		}
	}
	methods := map[string]bool{}
	e.txDataMethods(e.funcs["CheckSenderBalance"], 3, methods)
	effective := false
	for m := range methods {
		if len(m) >= 9 && m[:9] == "Effective" {
			effective = true
		}
	}
	called := false
	for _, fl := range afiles {
		for _, d := range fl.F.Decls {
			fd, ok := d.(*ast.FuncDecl)
			if !ok || fd.Body == nil || fd.Name.Name != "AnteHandle" {
				continue
			}
			ast.Inspect(fd.Body, func(x ast.Node) bool {
				if c, ok := x.(*ast.CallExpr); ok && calleeName(c) == "CheckSenderBalance" {
					called = true
				}
				return !called
			})
		}
	}
	fmt.Println("(* the ante chain calls keeper.CheckSenderBalance, and that compares the sender balance with TxData.Cost()")
	fmt.Println("   (gas * feeCap + value, go-ethereum's buyGas check) and with no effective (base-fee dependent) cost *)")
	fmt.Printf("Definition c03_ante_calls_check_sender_balance : bool := %s.\n", CoqBool(called))
	fmt.Printf("Definition c03_sender_balance_checked_against_cap_cost : bool := %s.\n", CoqBool(methods["Cost"] && !effective))
}

// ---------------------------------------------------------------- the fee-cap floor of the ante chain
//
// The AnteHandle of app/evmante that rejects with ErrInsufficientFee after a test involving a gas / fee
// CAP: does it compare the fee cap ITSELF with the base fee, or an "effective" cap (max(baseFee, cap),
// which can never be below the base fee)?  Normal form: the condition of the `if` whose body returns
// ErrInsufficientFee, with locals replaced by what they were defined from; the order of the operands and
// the comparison idiom do not matter.

func printFeeCapFloor(afiles []File) {
	enforced := false
	for _, fl := range afiles {
		for _, d := range fl.F.Decls {
			fd, ok := d.(*ast.FuncDecl)
			if !ok || fd.Body == nil || fd.Name.Name != "AnteHandle" {
				continue
			}
			defs := map[string]string{}
			ast.Inspect(fd.Body, func(x ast.Node) bool {
				if as, ok := x.(*ast.AssignStmt); ok && len(as.Lhs) == len(as.Rhs) {
					for i, l := range as.Lhs {
						if id, ok := l.(*ast.Ident); ok {
							defs[id.Name] = Nospace(as.Rhs[i])
						}
					}
				}
				return true
			})
			ast.Inspect(fd.Body, func(x ast.Node) bool {
				is, ok := x.(*ast.IfStmt)
				if !ok || !strings.Contains(Nospace(is.Body), "ErrInsufficientFee") {
					return true
				}
				cond := Nospace(is.Cond)
				ast.Inspect(is.Cond, func(y ast.Node) bool {
					if id, ok := y.(*ast.Ident); ok {
						if d, ok := defs[id.Name]; ok {
							cond += " " + d
						}
					}
					return true
				})
				if (strings.Contains(cond, "FeeCap") || strings.Contains(cond, "GasCap")) && !strings.Contains(cond, "Effective") {
					enforced = true
				}
				return true
			})
		}
	}
	fmt.Println("(* the ante chain rejects a message whose fee cap / gas price ITSELF is below the base fee (false: it tests an")
	fmt.Println("   effective cap that is never below the base fee, so such a message is admitted and charged at the base fee) *)")
	fmt.Printf("Definition c03_ante_rejects_fee_cap_below_base_fee : bool := %s.\n", CoqBool(enforced))
}

// ---------------------------------------------------------------- the standard precompiles 0x01..0x09
//
// precompile.InitPrecompiles fills Nibiru's precompile map with the standard contracts of ONE upstream
// table of go-ethereum (vm.PrecompiledContracts<Fork>): which one(s) it reads the CONTRACTS from.  The
// address lists (vm.PrecompiledAddresses<Fork>) are not price tables and are not printed.  Same-package
// helpers are followed.

func printStdPrecompiles(pfiles []File) {
	funcs := map[string]*ast.FuncDecl{}
	for _, fl := range pfiles {
		for _, d := range fl.F.Decls {
			if fd, ok := d.(*ast.FuncDecl); ok {
				funcs[fd.Name.Name] = fd
			}
		}
	}
	names := map[string]bool{}
	var walk func(fd *ast.FuncDecl, depth int)
	walk = func(fd *ast.FuncDecl, depth int) {
		if fd == nil || fd.Body == nil || depth == 0 {
			return
		}
		ast.Inspect(fd.Body, func(x ast.Node) bool {
			switch v := x.(type) {
			case *ast.SelectorExpr:
				if strings.HasPrefix(v.Sel.Name, "PrecompiledContracts") {
					names[v.Sel.Name] = true
				}
			case *ast.CallExpr:
				if id, ok := v.Fun.(*ast.Ident); ok {
					if h, ok := funcs[id.Name]; ok && !strings.HasPrefix(id.Name, "Precompile") {
						walk(h, depth-1)
					}
				}
			}
			return true
		})
	}
	walk(funcs["InitPrecompiles"], 3)
	var l []string
	for n := range names {
		l = append(l, CoqString(n))
	}
	sort.Strings(l)
	fmt.Println("(* the upstream go-ethereum table(s) InitPrecompiles copies the standard precompiled contracts 0x01..0x09 from *)")
	fmt.Printf("Definition c03_std_precompile_tables : list string := [%s].\n", strings.Join(l, "; "))
}
