package main

// Keeper.EthereumTx and the process-wide per-tx StateDB pointer (Keeper.Bank.StateDB):
// once EthereumTx has obtained a StateDB (Bank.TxStateDB / NewStateDB, possibly through a helper),
// is the pointer forgotten (Bank.ClearTxStateDB, or `….StateDB = nil`) on EVERY return path — i.e.
// by a `defer` registered before any return that follows the acquisition?  Printed as one boolean,
// the [clears_on_error] parameter of the message-layer model coq/C03/Msg.v.
//
// Normal form: `defer f()` and `defer func() { f() }()` are the same; the acquisition and the clear
// may sit in same-package helpers (followed transitively); when EthereumTx only delegates to a
// helper that does both, the helper is analysed instead.

import (
	"fmt"
	"go/ast"
	"go/token"

	. "verifharness/genlib"
)

type ethtx struct {
	funcs map[string]*ast.FuncDecl // by bare name (methods and functions of package keeper)
}

var acquireNames = map[string]bool{"TxStateDB": true, "NewStateDB": true}
var clearNames = map[string]bool{"ClearTxStateDB": true}

func calleeName(call *ast.CallExpr) string {
	switch f := call.Fun.(type) {
	case *ast.Ident:
		return f.Name
	case *ast.SelectorExpr:
		return f.Sel.Name
	}
	return ""
}

// mentions: does node n (transitively through same-package helpers) call one of names /
// (for clears) assign nil to a field called StateDB?
func (e *ethtx) mentions(n ast.Node, names map[string]bool, depth int, seen map[string]bool) bool {
	found := false
	ast.Inspect(n, func(x ast.Node) bool {
		if found {
			return false
		}
		switch v := x.(type) {
		case *ast.CallExpr:
			nm := calleeName(v)
			if names[nm] {
				found = true
				return false
			}
			if fd, ok := e.funcs[nm]; ok && depth > 0 && !seen[nm] && !acquireNames[nm] && !clearNames[nm] && fd.Body != nil {
				seen[nm] = true
				if e.mentions(fd.Body, names, depth-1, seen) {
					found = true
					return false
				}
			}
		case *ast.AssignStmt:
			if names["ClearTxStateDB"] && v.Tok == token.ASSIGN && len(v.Lhs) == 1 && len(v.Rhs) == 1 {
				if sel, ok := v.Lhs[0].(*ast.SelectorExpr); ok && sel.Sel.Name == "StateDB" {
					if id, ok := v.Rhs[0].(*ast.Ident); ok && id.Name == "nil" {
						found = true
						return false
					}
				}
			}
		}
		return true
	})
	return found
}

func hasReturn(n ast.Node) bool {
	found := false
	ast.Inspect(n, func(x ast.Node) bool {
		switch x.(type) {
		case *ast.FuncLit:
			return false
		case *ast.ReturnStmt:
			found = true
		}
		return !found
	})
	return found
}

// analyse returns (acquires, clearsOnEveryReturn)
func (e *ethtx) analyse(fd *ast.FuncDecl, depth int) (bool, bool) {
	if fd == nil || fd.Body == nil || depth == 0 {
		return false, false
	}
	stmts := fd.Body.List
	acq, def := -1, -1
	for i, s := range stmts {
		if _, isDefer := s.(*ast.DeferStmt); !isDefer && acq < 0 && e.mentions(s, acquireNames, 3, map[string]bool{}) {
			acq = i
		}
		if d, ok := s.(*ast.DeferStmt); ok && def < 0 && e.mentions(d.Call, clearNames, 3, map[string]bool{}) {
			def = i
		}
	}
	if acq < 0 {
		return false, false
	}
	// the acquiring statement is a pure delegation to a helper that acquires AND defers the clear itself
	if def < 0 {
		var inner *ast.FuncDecl
		ast.Inspect(stmts[acq], func(x ast.Node) bool {
			if c, ok := x.(*ast.CallExpr); ok && inner == nil {
				if h, ok := e.funcs[calleeName(c)]; ok && !acquireNames[calleeName(c)] {
					if a, cl := e.analyse(h, depth-1); a && cl {
						inner = h
					}
				}
			}
			return inner == nil
		})
		if inner != nil {
			if _, isRet := stmts[acq].(*ast.ReturnStmt); isRet {
				return true, true
			}
		}
		return true, false
	}
	if def < acq {
		return true, true
	}
	for i := acq; i < def; i++ {
		if hasReturn(stmts[i]) {
			return true, false
		}
	}
	return true, true
}

func printEthereumTx(kfiles []File) {
	e := &ethtx{funcs: map[string]*ast.FuncDecl{}}
	var target *ast.FuncDecl
	for _, fl := range kfiles {
		for _, d := range fl.F.Decls {
			if fd, ok := d.(*ast.FuncDecl); ok {
				e.funcs[fd.Name.Name] = fd
				if _, rt := recvOf(fd); rt == "Keeper" && fd.Name.Name == "EthereumTx" {
					target = fd
				}
			}
		}
	}
	acquires, clears := e.analyse(target, 3)
	fmt.Println("(* Keeper.EthereumTx obtains the per-tx StateDB published on the bank keeper (or publishes a new one) and forgets it")
	fmt.Println("   again on EVERY return path: the clear is deferred before any return that follows the acquisition *)")
	fmt.Printf("Definition c03_ethereumtx_obtains_tx_statedb : bool := %s.\n", CoqBool(acquires))
	fmt.Printf("Definition c03_ethereumtx_clears_on_every_return : bool := %s.\n", CoqBool(clears))
}
