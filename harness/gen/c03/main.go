// Command gen/c03 prints coq/Gen/C03Facts.v from the /repo working tree (terms, never verdicts).
//
// What is extracted from x/evm/statedb/{journal,statedb,state_object,access_list}.go and
// x/evm/keeper/statedb.go, as data the obligations in coq/Gen/C03Oblig.v compare with the table the
// Coq model is written from (coq/C03/Discipline.v):
//
//   - per JournalChange type: its fields, what Dirtied() returns, the effects of Revert;
//   - per mutator: the guarded effects of the function body — journal appends with the expression
//     stored in every field and a flag "appended before any state mutation of this function",
//     assignments to StateDB / state-object state, calls made in statement position;
//   - per boolean result: the condition under which it is true, as a DNF over canonical atoms.
//
// Normal form (so that behaviour-preserving rewrites print the same facts): receivers are `recv`,
// parameters `p0,p1,…`, locals are replaced by the expression they were defined from
// (`v, ok := m[k]` gives val(m[k]) / has(m[k])), package constants by their value, `*x`, `&x` and
// parentheses are dropped, `a != b` is not(eq), operands of == && || are sorted; effects are
// collected as a SET of (effect, guards) where the guards are the branch conditions on the path,
// with `if c { …return }; rest` read as `rest` under not(c); error-plumbing guards (`err != nil`)
// are dropped; unexported helpers that are not journal/state primitives are inlined.
package main

import (
	"fmt"
	"go/ast"
	"go/token"
	"sort"
	"strings"

	. "verifharness/genlib"
)

type guard struct {
	atom string
	pos  bool
}

type effect struct {
	text   string
	guards []guard
}

type ctx struct {
	funcs  map[string]*ast.FuncDecl // "Recv.Name" or "Name"
	consts map[string]string
}

// primitives are never inlined: they are the vocabulary the facts are stated in.
var primitives = map[string]bool{
	"getStateObject": true, "getOrNewStateObject": true, "createObject": true, "setStateObject": true,
	"setBalance": true, "setNonce": true, "setCode": true, "setState": true, "append": true,
	"errorf": true, "newObject": true, "sortedDirties": true, "newJournal": true, "newAccessList": true,
	"isEmpty": true, "commitCtx": true,
}

type walker struct {
	c       *ctx
	recv    string            // receiver identifier of the function being walked
	recvTyp string            // receiver type name
	env     map[string]string // local identifier -> canonical text
	errVars map[string]bool
	stateRoots map[string]bool // parameters of type *StateDB / *stateObject / *journal / *accessList
	effects []effect
	noCollapse bool     // keep new(big.Int).Set(x) visible (aliasing facts)
	mutated bool        // a state mutation has been seen in this top-level function
	rets    [][][]guard // per result index: disjuncts
	nres    int
	depth   int
}

func recvOf(fd *ast.FuncDecl) (name, typ string) {
	if fd.Recv == nil || len(fd.Recv.List) == 0 {
		return "", ""
	}
	f := fd.Recv.List[0]
	if len(f.Names) > 0 {
		name = f.Names[0].Name
	}
	t := f.Type
	if st, ok := t.(*ast.StarExpr); ok {
		t = st.X
	}
	if id, ok := t.(*ast.Ident); ok {
		typ = id.Name
	}
	return
}

// ---------------------------------------------------------------- canonical expressions

func (w *walker) canon(e ast.Expr) string {
	switch x := e.(type) {
	case nil:
		return ""
	case *ast.ParenExpr:
		return w.canon(x.X)
	case *ast.StarExpr:
		return w.canon(x.X)
	case *ast.UnaryExpr:
		switch x.Op {
		case token.AND, token.MUL:
			return w.canon(x.X)
		case token.NOT:
			return "not(" + w.canon(x.X) + ")"
		case token.SUB:
			return "-" + w.canon(x.X)
		}
		return x.Op.String() + w.canon(x.X)
	case *ast.Ident:
		if x.Name == w.recv && w.recv != "" {
			return "recv"
		}
		if v, ok := w.env[x.Name]; ok {
			return v
		}
		if v, ok := w.c.consts[x.Name]; ok {
			return v
		}
		return x.Name
	case *ast.BasicLit:
		if x.Kind == token.STRING {
			return "str"
		}
		return x.Value
	case *ast.SelectorExpr:
		return w.canon(x.X) + "." + x.Sel.Name
	case *ast.IndexExpr:
		return w.canon(x.X) + "[" + w.canon(x.Index) + "]"
	case *ast.SliceExpr:
		return w.canon(x.X) + "[" + w.canon(x.Low) + ":" + w.canon(x.High) + "]"
	case *ast.CallExpr:
		fn := w.canon(x.Fun)
		// copy idioms carry no information: new(big.Int).Set(v) is v
		if !w.noCollapse && strings.HasSuffix(fn, ".Set") && strings.HasPrefix(fn, "new(big.Int)") && len(x.Args) == 1 {
			return w.canon(x.Args[0])
		}
		var as []string
		for _, a := range x.Args {
			as = append(as, w.canon(a))
		}
		return fn + "(" + strings.Join(as, ",") + ")"
	case *ast.BinaryExpr:
		a, b := w.canon(x.X), w.canon(x.Y)
		switch x.Op {
		case token.EQL:
			return "eq(" + sort2(a, b) + ")"
		case token.NEQ:
			return "not(eq(" + sort2(a, b) + "))"
		case token.LAND:
			return "and(" + strings.Join(flatten(w, x, token.LAND), ",") + ")"
		case token.LOR:
			return "or(" + strings.Join(flatten(w, x, token.LOR), ",") + ")"
		case token.GTR:
			return "lt(" + b + "," + a + ")"
		case token.LSS:
			return "lt(" + a + "," + b + ")"
		case token.GEQ:
			return "not(lt(" + a + "," + b + "))"
		case token.LEQ:
			return "not(lt(" + b + "," + a + "))"
		}
		return "(" + a + x.Op.String() + b + ")"
	case *ast.CompositeLit:
		var fs []string
		for _, el := range x.Elts {
			if kv, ok := el.(*ast.KeyValueExpr); ok {
				k := w.canon(kv.Key)
				if id, ok := kv.Key.(*ast.Ident); ok {
					k = id.Name // a field name
				}
				fs = append(fs, k+"="+w.canon(kv.Value))
			} else {
				fs = append(fs, w.canon(el))
			}
		}
		sort.Strings(fs)
		return typeName(x.Type) + "{" + strings.Join(fs, ";") + "}"
	case *ast.FuncLit:
		return "func"
	case *ast.KeyValueExpr:
		return w.canon(x.Key) + "=" + w.canon(x.Value)
	case *ast.TypeAssertExpr:
		return w.canon(x.X) + ".(" + typeName(x.Type) + ")"
	case *ast.MapType, *ast.ArrayType, *ast.StructType:
		return typeName(e)
	}
	return Nospace(e)
}

func typeName(e ast.Expr) string {
	if e == nil {
		return ""
	}
	return Nospace(e)
}

func sort2(a, b string) string {
	if b < a {
		a, b = b, a
	}
	return a + "," + b
}

func flatten(w *walker, e ast.Expr, op token.Token) []string {
	var out []string
	var rec func(e ast.Expr)
	rec = func(e ast.Expr) {
		if p, ok := e.(*ast.ParenExpr); ok {
			rec(p.X)
			return
		}
		if b, ok := e.(*ast.BinaryExpr); ok && b.Op == op {
			rec(b.X)
			rec(b.Y)
			return
		}
		out = append(out, w.canon(e))
	}
	rec(e)
	sort.Strings(out)
	return out
}

// condGuards turns a branch condition into guards (conjunctions are split; a negation flips)
func (w *walker) condGuards(e ast.Expr, pos bool) []guard {
	if w.mentionsErr(e) {
		return nil
	}
	switch x := e.(type) {
	case *ast.ParenExpr:
		return w.condGuards(x.X, pos)
	case *ast.UnaryExpr:
		if x.Op == token.NOT {
			return w.condGuards(x.X, !pos)
		}
	case *ast.BinaryExpr:
		if x.Op == token.LAND && pos {
			return append(w.condGuards(x.X, true), w.condGuards(x.Y, true)...)
		}
		if x.Op == token.LOR && !pos { // not(a||b) = not a && not b
			return append(w.condGuards(x.X, false), w.condGuards(x.Y, false)...)
		}
		if x.Op == token.NEQ {
			return []guard{{"eq(" + sort2(w.canon(x.X), w.canon(x.Y)) + ")", !pos}}
		}
	}
	if w.mentionsErr(e) {
		return nil
	}
	s := w.canon(e)
	for strings.HasPrefix(s, "not(") && strings.HasSuffix(s, ")") {
		s = s[4 : len(s)-1]
		pos = !pos
	}
	return []guard{{s, pos}}
}

func (w *walker) mentionsErr(e ast.Expr) bool {
	found := false
	ast.Inspect(e, func(n ast.Node) bool {
		if id, ok := n.(*ast.Ident); ok && (id.Name == "err" || w.errVars[id.Name]) {
			found = true
		}
		return true
	})
	return found
}

// ---------------------------------------------------------------- statements

func copyGuards(g []guard) []guard { return append([]guard{}, g...) }

func (w *walker) emit(text string, g []guard) {
	w.effects = append(w.effects, effect{text, copyGuards(g)})
}

func terminates(b []ast.Stmt) bool {
	if len(b) == 0 {
		return false
	}
	switch s := b[len(b)-1].(type) {
	case *ast.ReturnStmt:
		return true
	case *ast.BranchStmt:
		return s.Tok == token.CONTINUE || s.Tok == token.BREAK
	case *ast.ExprStmt:
		if c, ok := s.X.(*ast.CallExpr); ok {
			if id, ok := c.Fun.(*ast.Ident); ok && id.Name == "panic" {
				return true
			}
		}
	case *ast.BlockStmt:
		return terminates(s.List)
	case *ast.IfStmt:
		if s.Else == nil {
			return false
		}
		eb, ok := s.Else.(*ast.BlockStmt)
		return ok && terminates(s.Body.List) && terminates(eb.List)
	}
	return false
}

func rootIdent(e ast.Expr) *ast.Ident {
	for {
		switch x := e.(type) {
		case *ast.Ident:
			return x
		case *ast.SelectorExpr:
			e = x.X
		case *ast.IndexExpr:
			e = x.X
		case *ast.StarExpr:
			e = x.X
		case *ast.ParenExpr:
			e = x.X
		case *ast.CallExpr:
			e = x.Fun
		default:
			return nil
		}
	}
}

// isState: the expression denotes StateDB / journal / access list / state-object state
func (w *walker) isState(e ast.Expr) bool {
	id := rootIdent(e)
	if id == nil {
		return false
	}
	if id.Name == w.recv && w.recv != "" {
		_, isSel := e.(*ast.Ident)
		return !isSel
	}
	if w.stateRoots[id.Name] {
		_, bare := e.(*ast.Ident)
		return !bare
	}
	if v, ok := w.env[id.Name]; ok {
		return strings.HasPrefix(v, "recv") || strings.Contains(v, "StateObject(") || strings.Contains(v, "createObject(") || strings.Contains(v, "newObject(")
	}
	return false
}

func (w *walker) block(list []ast.Stmt, g []guard) {
	g = copyGuards(g)
	for _, s := range list {
		switch st := s.(type) {
		case *ast.IfStmt:
			if st.Init != nil {
				w.stmt(st.Init, g)
			}
			gt := append(copyGuards(g), w.condGuards(st.Cond, true)...)
			gf := append(copyGuards(g), w.condGuards(st.Cond, false)...)
			w.block(st.Body.List, gt)
			var elseTerm bool
			switch el := st.Else.(type) {
			case *ast.BlockStmt:
				w.block(el.List, gf)
				elseTerm = terminates(el.List)
			case *ast.IfStmt:
				w.block([]ast.Stmt{el}, gf)
				elseTerm = terminates([]ast.Stmt{el})
			}
			if terminates(st.Body.List) {
				g = gf
			} else if elseTerm {
				g = gt
			}
		case *ast.SwitchStmt:
			if st.Tag == nil {
				// tagless switch = if / else-if chain
				cur := copyGuards(g)
				for _, cc := range st.Body.List {
					cl := cc.(*ast.CaseClause)
					if cl.List == nil {
						w.block(cl.Body, cur)
						continue
					}
					var cond ast.Expr = cl.List[0]
					for _, more := range cl.List[1:] {
						cond = &ast.BinaryExpr{X: cond, Op: token.LOR, Y: more}
					}
					w.block(cl.Body, append(copyGuards(cur), w.condGuards(cond, true)...))
					cur = append(cur, w.condGuards(cond, false)...)
				}
			} else {
				for _, cc := range st.Body.List {
					cl := cc.(*ast.CaseClause)
					w.block(cl.Body, append(copyGuards(g), guard{"switch(" + w.canon(st.Tag) + ")", true}))
				}
			}
		case *ast.RangeStmt:
			rx := w.canon(st.X)
			if st.Key != nil {
				w.bind(st.Key, "key("+rx+")")
			}
			if st.Value != nil {
				w.bind(st.Value, "elem("+rx+")")
			}
			gg := append(copyGuards(g), guard{"range(" + rx + ")", true})
			w.block(st.Body.List, gg)
		case *ast.ForStmt:
			gg := append(copyGuards(g), guard{"loop", true})
			if st.Init != nil {
				w.stmt(st.Init, g)
			}
			w.block(st.Body.List, gg)
		case *ast.BlockStmt:
			w.block(st.List, g)
		default:
			w.stmt(s, g)
		}
	}
}

func (w *walker) calleeDecl(call *ast.CallExpr) (*ast.FuncDecl, ast.Expr) {
	switch f := call.Fun.(type) {
	case *ast.Ident:
		if primitives[f.Name] {
			return nil, nil
		}
		if fd, ok := w.c.funcs[f.Name]; ok && fd.Recv == nil && !ast.IsExported(f.Name) {
			return fd, nil
		}
	case *ast.SelectorExpr:
		if primitives[f.Sel.Name] || ast.IsExported(f.Sel.Name) {
			return nil, nil
		}
		if id, ok := f.X.(*ast.Ident); ok && id.Name == w.recv {
			if fd, ok := w.c.funcs[w.recvTyp+"."+f.Sel.Name]; ok {
				return fd, f.X
			}
		}
	}
	return nil, nil
}

// inline walks the body of an unexported helper under the current guards
func (w *walker) inline(fd *ast.FuncDecl, call *ast.CallExpr, g []guard) {
	if w.depth > 3 || fd.Body == nil {
		return
	}
	sub := &walker{c: w.c, recv: "", recvTyp: w.recvTyp, env: map[string]string{}, errVars: map[string]bool{}, stateRoots: map[string]bool{}, depth: w.depth + 1, mutated: w.mutated}
	if rn, _ := recvOf(fd); rn != "" {
		sub.env[rn] = "recv"
	}
	i := 0
	for _, p := range fd.Type.Params.List {
		for _, n := range p.Names {
			if i < len(call.Args) {
				sub.env[n.Name] = w.canon(call.Args[i])
			}
			i++
		}
	}
	sub.block(fd.Body.List, g)
	w.effects = append(w.effects, sub.effects...)
	w.mutated = sub.mutated
}

func (w *walker) callEffect(call *ast.CallExpr, g []guard) {
	if fd, _ := w.calleeDecl(call); fd != nil {
		w.inline(fd, call, g)
		return
	}
	fn := w.canon(call.Fun)
	if strings.HasPrefix(fn, "sort.") || strings.HasPrefix(fn, "slices.Sort") {
		by := "?"
		for _, a := range call.Args {
			if fl, ok := a.(*ast.FuncLit); ok && strings.Contains(Nospace(fl.Body), "bytes.Compare(") {
				by = "bytes.Compare"
			}
		}
		w.emit("sort by "+by, g)
		return
	}
	for _, a := range call.Args {
		if fl, ok := a.(*ast.FuncLit); ok {
			// the body of a callback runs under the callee
			saved := w.nres
			w.nres = 0
			w.block(fl.Body.List, append(copyGuards(g), guard{"callback(" + fn + ")", true}))
			w.nres = saved
		}
	}
	switch {
	case strings.HasSuffix(fn, "Journal.append"):
		if len(call.Args) == 1 {
			when := "pre"
			if w.mutated {
				when = "post"
			}
			w.emit("journal "+when+" "+w.canon(call.Args[0]), g)
		}
		return
	case fn == "panic":
		w.emit("panic", g)
		return
	case fn == "delete" || fn == "append":
		// builtins on state
		if len(call.Args) > 0 && w.isState(call.Args[0]) {
			w.mutated = true
		}
	}
	base := fn
	if i := strings.LastIndex(fn, "."); i >= 0 {
		base = fn[i+1:]
	}
	if strings.HasPrefix(base, "set") || base == "SetBalance" || base == "SetNonce" || base == "SetCode" || base == "SetState" ||
		base == "AddBalance" || base == "SubBalance" || base == "DeleteAddress" || base == "DeleteSlot" || base == "Revert" {
		w.mutated = true
	}
	var as []string
	for _, a := range call.Args {
		as = append(as, w.canon(a))
	}
	w.emit("call "+fn+"("+strings.Join(as, ",")+")", g)
}

func (w *walker) stmt(s ast.Stmt, g []guard) {
	switch st := s.(type) {
	case *ast.ExprStmt:
		if c, ok := st.X.(*ast.CallExpr); ok {
			w.callEffect(c, g)
		}
	case *ast.IncDecStmt:
		if w.isState(st.X) {
			w.mutated = true
			w.emit("set "+w.canon(st.X)+st.Tok.String(), g)
		}
	case *ast.DeclStmt:
		// var x T: nothing
	case *ast.ReturnStmt:
		for i, r := range st.Results {
			if i >= w.nres || w.depth > 0 {
				break
			}
			switch w.canon(r) {
			case "false":
			case "true":
				w.rets[i] = append(w.rets[i], copyGuards(g))
			default:
				w.rets[i] = append(w.rets[i], append(copyGuards(g), w.condGuards(r, true)...))
			}
		}
		for _, r := range st.Results {
			if c, ok := r.(*ast.CallExpr); ok && w.isInteresting(c) {
				w.callEffect(c, g)
			}
		}
	case *ast.AssignStmt:
		// comma-ok map read
		if len(st.Lhs) == 2 && len(st.Rhs) == 1 {
			if ta, ok := st.Rhs[0].(*ast.TypeAssertExpr); ok {
				x := w.canon(ta.X) + ".(" + typeName(ta.Type) + ")"
				w.bind(st.Lhs[0], x)
				w.bind(st.Lhs[1], "is("+x+")")
				return
			}
			if ix, ok := st.Rhs[0].(*ast.IndexExpr); ok {
				m := w.canon(ix)
				w.bind(st.Lhs[0], "val("+m+")")
				w.bind(st.Lhs[1], "has("+m+")")
				return
			}
		}
		if len(st.Rhs) == 1 && len(st.Lhs) >= 1 {
			if c, ok := st.Rhs[0].(*ast.CallExpr); ok {
				if fd, _ := w.calleeDecl(c); fd != nil {
					w.inline(fd, c, g)
				} else if w.isInteresting(c) {
					w.callEffect(c, g)
				}
				txt := w.canon(c)
				for i, l := range st.Lhs {
					if id, ok := l.(*ast.Ident); ok && (id.Name == "err" || (len(st.Lhs) > 1 && i == len(st.Lhs)-1 && strings.Contains(strings.ToLower(id.Name), "err"))) {
						w.errVars[id.Name] = true
						continue
					}
					if len(st.Lhs) == 1 {
						w.assign(l, txt, st.Tok, g)
					} else {
						w.assign(l, fmt.Sprintf("%s#%d", txt, i), st.Tok, g)
					}
				}
				return
			}
		}
		for i, l := range st.Lhs {
			if i < len(st.Rhs) {
				rhs := w.canon(st.Rhs[i])
				if st.Tok != token.ASSIGN && st.Tok != token.DEFINE {
					rhs = st.Tok.String() + rhs
				}
				w.assign(l, rhs, st.Tok, g)
			}
		}
	}
}

// isInteresting: a call on the right-hand side whose occurrence is a fact (keeper access, state setters)
func (w *walker) isInteresting(c *ast.CallExpr) bool {
	fn := w.canon(c.Fun)
	return strings.Contains(fn, ".keeper.") || strings.HasPrefix(fn, "recv.keeper.") || strings.Contains(fn, "Journal.append") ||
		strings.HasSuffix(fn, ".createObject") || strings.HasSuffix(fn, ".getOrNewStateObject") ||
		strings.HasSuffix(fn, "accessList.AddAddress") || strings.HasSuffix(fn, "accessList.AddSlot") ||
		strings.Contains(fn, "accountKeeper.") || strings.Contains(fn, "SetAccBalance") || strings.Contains(fn, "ContractBytecode") || strings.Contains(fn, "SetAccCode")
}

func (w *walker) bind(l ast.Expr, txt string) {
	if id, ok := l.(*ast.Ident); ok && id.Name != "_" {
		w.env[id.Name] = txt
	}
}

func (w *walker) assign(l ast.Expr, rhs string, tok token.Token, g []guard) {
	if id, ok := l.(*ast.Ident); ok {
		if id.Name == "_" {
			return
		}
		if tok == token.DEFINE || !w.isState(l) {
			// a local: remember what it stands for
			if strings.HasPrefix(rhs, "+=") || strings.HasPrefix(rhs, "-=") {
				return
			}
			w.env[id.Name] = rhs
			return
		}
	}
	if w.isState(l) {
		w.mutated = true
		w.emit("set "+w.canon(l)+" := "+rhs, g)
	}
}

// ---------------------------------------------------------------- per function

type fnFacts struct {
	name    string
	effects []effect
	rets    [][][]guard
}

func (c *ctx) analyse(key string) *fnFacts {
	fd, ok := c.funcs[key]
	if !ok || fd.Body == nil {
		return &fnFacts{name: key, effects: []effect{{"MISSING", nil}}}
	}
	rn, rt := recvOf(fd)
	w := &walker{c: c, recv: rn, recvTyp: rt, env: map[string]string{}, errVars: map[string]bool{}}
	i := 0
	w.stateRoots = map[string]bool{}
	for _, p := range fd.Type.Params.List {
		tn := typeName(p.Type)
		for _, n := range p.Names {
			w.env[n.Name] = fmt.Sprintf("p%d", i)
			if tn == "*StateDB" || tn == "*stateObject" || tn == "*journal" || tn == "*accessList" {
				w.stateRoots[n.Name] = true
			}
			i++
		}
	}
	if fd.Type.Results != nil {
		for _, r := range fd.Type.Results.List {
			n := len(r.Names)
			if n == 0 {
				n = 1
			}
			for k := 0; k < n; k++ {
				if id, ok := r.Type.(*ast.Ident); ok && id.Name == "bool" {
					w.nres++
				} else {
					w.nres = -1000 // only all-bool results are tabulated
				}
			}
		}
	}
	if w.nres < 0 {
		w.nres = 0
	}
	w.rets = make([][][]guard, w.nres)
	w.block(fd.Body.List, nil)
	return &fnFacts{name: key, effects: w.effects, rets: w.rets}
}

func guardsStr(gs []guard) string {
	var ss []string
	seen := map[string]bool{}
	for _, g := range gs {
		s := fmt.Sprintf("(%s, %s)", CoqString(g.atom), CoqBool(g.pos))
		if !seen[s] {
			seen[s] = true
			ss = append(ss, s)
		}
	}
	sort.Strings(ss)
	return "[" + strings.Join(ss, "; ") + "]"
}

// merge joins (e, G+a) and (e, G+not a) into (e, G), repeatedly; duplicate guards are dropped
func merge(effs []effect) []effect {
	norm := func(gs []guard) []guard {
		m := map[string]bool{}
		var out []guard
		for _, g := range gs {
			k := fmt.Sprintf("%s|%v", g.atom, g.pos)
			if !m[k] {
				m[k] = true
				out = append(out, g)
			}
		}
		sort.Slice(out, func(i, j int) bool {
			if out[i].atom != out[j].atom {
				return out[i].atom < out[j].atom
			}
			return !out[i].pos && out[j].pos
		})
		return out
	}
	for i := range effs {
		effs[i].guards = norm(effs[i].guards)
	}
	for changed := true; changed; {
		changed = false
	outer:
		for i := 0; i < len(effs); i++ {
			for j := i + 1; j < len(effs); j++ {
				a, b := effs[i], effs[j]
				if a.text != b.text || len(a.guards) != len(b.guards) {
					continue
				}
				diff := -1
				okk := true
				for k := range a.guards {
					if a.guards[k].atom != b.guards[k].atom {
						okk = false
						break
					}
					if a.guards[k].pos != b.guards[k].pos {
						if diff >= 0 {
							okk = false
							break
						}
						diff = k
					}
				}
				if okk && diff >= 0 {
					ng := append(append([]guard{}, a.guards[:diff]...), a.guards[diff+1:]...)
					effs[i].guards = ng
					effs = append(effs[:j], effs[j+1:]...)
					changed = true
					break outer
				}
				if okk && diff < 0 { // identical
					effs = append(effs[:j], effs[j+1:]...)
					changed = true
					break outer
				}
			}
		}
	}
	return effs
}

// abbreviations that keep the commit facts readable
func abbreviate(fn, s string) string {
	if fn != "StateDB.commitCtx" {
		return s
	}
	s = strings.ReplaceAll(s, "recv.getStateObject(elem(recv.Journal.sortedDirties()))", "OBJ")
	s = strings.ReplaceAll(s, "elem(recv.Journal.sortedDirties())", "ADDR")
	s = strings.ReplaceAll(s, "elem(OBJ.DirtyStorage.SortedKeys())", "KEY")
	return s
}

func (f *fnFacts) print() {
	for i := range f.effects {
		f.effects[i].text = abbreviate(f.name, f.effects[i].text)
		for j := range f.effects[i].guards {
			f.effects[i].guards[j].atom = abbreviate(f.name, f.effects[i].guards[j].atom)
		}
	}
	var es []string
	seen := map[string]bool{}
	for _, e := range merge(f.effects) {
		s := fmt.Sprintf("    (%s, %s)", CoqString(e.text), guardsStr(e.guards))
		if !seen[s] {
			seen[s] = true
			es = append(es, s)
		}
	}
	sort.Strings(es)
	var rs []string
	for _, r := range f.rets {
		var ds []string
		seen := map[string]bool{}
		var ds0 []effect
		for _, d := range r {
			ds0 = append(ds0, effect{"", d})
		}
		for _, d0 := range merge(ds0) {
			d := d0.guards
			s := guardsStr(d)
			if !seen[s] {
				seen[s] = true
				ds = append(ds, s)
			}
		}
		sort.Strings(ds)
		rs = append(rs, "[" + strings.Join(ds, "; ") + "]")
	}
	fmt.Printf("  (%s, ([\n%s\n  ], [%s]))", CoqString(f.name), strings.Join(es, ";\n"), strings.Join(rs, "; "))
}

func main() {
	repo := Repo()
	Header(repo)
	files := ParseDir(repo + "/x/evm/statedb")
	kfiles := ParseDir(repo + "/x/evm/keeper")
	c := &ctx{funcs: map[string]*ast.FuncDecl{}, consts: map[string]string{}}
	collect := func(fs []File, prefix string) {
		for _, fl := range fs {
			for _, d := range fl.F.Decls {
				switch x := d.(type) {
				case *ast.FuncDecl:
					_, rt := recvOf(x)
					key := x.Name.Name
					if rt != "" {
						key = rt + "." + key
					}
					c.funcs[prefix+key] = x
				case *ast.GenDecl:
					if x.Tok == token.CONST && prefix == "" {
						for _, sp := range x.Specs {
							vs := sp.(*ast.ValueSpec)
							for i, n := range vs.Names {
								if i < len(vs.Values) {
									if _, isCall := vs.Values[i].(*ast.CallExpr); !isCall {
										c.consts[n.Name] = Nospace(vs.Values[i])
									}
								}
							}
						}
					}
				}
			}
		}
	}
	collect(files, "")
	// journal entry types: every type with a Revert(*StateDB) method
	type jt struct {
		name    string
		fields  []string
		dirtied string
	}
	var jts []jt
	structs := map[string]*ast.StructType{}
	for _, fl := range files {
		for _, d := range fl.F.Decls {
			if gd, ok := d.(*ast.GenDecl); ok && gd.Tok == token.TYPE {
				for _, sp := range gd.Specs {
					ts := sp.(*ast.TypeSpec)
					if st, ok := ts.Type.(*ast.StructType); ok {
						structs[ts.Name.Name] = st
					}
				}
			}
		}
	}
	var revertKeys []string
	for key, fd := range c.funcs {
		if strings.HasSuffix(key, ".Revert") && fd.Recv != nil {
			_, rt := recvOf(fd)
			if rt == "journal" || rt == "PrecompileCalled" { // the loop itself; the C04 entry
				continue
			}
			st := structs[rt]
			var fs []string
			if st != nil {
				for _, f := range st.Fields.List {
					for _, n := range f.Names {
						fs = append(fs, n.Name)
					}
				}
			}
			sort.Strings(fs)
			dirt := "MISSING"
			if dfd, ok := c.funcs[rt+".Dirtied"]; ok && dfd.Body != nil {
				rn, _ := recvOf(dfd)
				w := &walker{c: c, recv: rn, env: map[string]string{}, errVars: map[string]bool{}}
				for _, s := range dfd.Body.List {
					if r, ok := s.(*ast.ReturnStmt); ok && len(r.Results) == 1 {
						dirt = w.canon(r.Results[0])
					}
				}
			}
			jts = append(jts, jt{rt, fs, dirt})
			revertKeys = append(revertKeys, key)
		}
	}
	sort.Slice(jts, func(i, j int) bool { return jts[i].name < jts[j].name })
	sort.Strings(revertKeys)

	fmt.Println("From Coq Require Import String List Bool. Import ListNotations. Open Scope string_scope.")
	fmt.Println("(* journal entry types: name, fields, what Dirtied() returns *)")
	fmt.Println("Definition c03_entry_types : list (string * list string * string) := [")
	for i, j := range jts {
		var fs []string
		for _, f := range j.fields {
			fs = append(fs, CoqString(f))
		}
		sep := ";"
		if i == len(jts)-1 {
			sep = ""
		}
		fmt.Printf("  (%s, [%s], %s)%s\n", CoqString(j.name), strings.Join(fs, "; "), CoqString(j.dirtied), sep)
	}
	fmt.Println("].")

	keys := append([]string{}, revertKeys...)
	keys = append(keys,
		"journal.append", "journal.Revert", "journal.sortedDirties",
		"StateDB.AddLog", "StateDB.AddRefund", "StateDB.SubRefund", "StateDB.createObject", "StateDB.CreateAccount",
		"StateDB.Suicide", "StateDB.AddAddressToAccessList", "StateDB.AddSlotToAccessList",
		"StateDB.Snapshot", "StateDB.RevertToSnapshot", "StateDB.Commit", "StateDB.commitCtx",
		"StateDB.AddBalance", "StateDB.SubBalance", "StateDB.SetNonce", "StateDB.SetCode", "StateDB.SetState",
		"stateObject.AddBalance", "stateObject.SubBalance", "stateObject.SetBalance", "stateObject.SetNonce",
		"stateObject.SetCode", "stateObject.SetState", "stateObject.GetState", "stateObject.GetCommittedState",
		"stateObject.setBalance", "stateObject.setNonce", "stateObject.setCode", "stateObject.setState",
		"accessList.AddAddress", "accessList.AddSlot", "accessList.DeleteSlot", "accessList.DeleteAddress",
		"accessList.Contains", "accessList.ContainsAddress")
	// commitCtx is analysed with its helpers inlined
	delete(primitives, "commitCtx")
	var all []*fnFacts
	for _, k := range keys {
		all = append(all, c.analyse(k))
	}
	// the keeper side of Commit
	kc := &ctx{funcs: map[string]*ast.FuncDecl{}, consts: map[string]string{}}
	for _, fl := range kfiles {
		for _, d := range fl.F.Decls {
			if fd, ok := d.(*ast.FuncDecl); ok {
				_, rt := recvOf(fd)
				key := fd.Name.Name
				if rt != "" {
					key = rt + "." + key
				}
				kc.funcs[key] = fd
			}
		}
	}
	for _, k := range []string{"Keeper.DeleteAccount", "Keeper.SetAccount", "Keeper.SetState", "Keeper.SetCode"} {
		all = append(all, kc.analyse(k))
	}
	printBigInt(c)
	fmt.Println("(* per function: guarded effects (effect, guards on the path) and, per boolean result, the DNF of the")
	fmt.Println("   condition under which it is true *)")
	fmt.Println("Definition c03_functions : list (string * (list (string * list (string * bool)) * list (list (list (string * bool))))) := [")
	for i, f := range all {
		f.print()
		if i < len(all)-1 {
			fmt.Println(";")
		} else {
			fmt.Println()
		}
	}
	fmt.Println("].")
}

// ---------------------------------------------------------------- big.Int aliasing discipline

var bigMutators = map[string]bool{"Add": true, "Sub": true, "Mul": true, "Div": true, "Quo": true, "Rem": true, "Mod": true,
	"Neg": true, "Abs": true, "Set": true, "SetInt64": true, "SetUint64": true, "SetBytes": true, "SetString": true,
	"SetBit": true, "Exp": true, "Lsh": true, "Rsh": true, "Not": true, "And": true, "Or": true, "Xor": true, "AndNot": true}

func isBalancePath(s string) bool {
	return strings.Contains(s, "BalanceWei") || strings.Contains(s, "BalanceNative") || strings.Contains(s, "prevWei") ||
		strings.Contains(s, "prevbalance") || strings.HasSuffix(s, ".Balance()")
}

func classifySource(s string) string {
	switch {
	case strings.HasPrefix(s, "new(big.Int)"), strings.HasPrefix(s, "big.NewInt("), strings.Contains(s, "NativeToWei("), strings.HasSuffix(s, ".ToWei()"):
		return "fresh " + s
	case len(s) >= 2 && s[0] == 'p' && s[1] >= '0' && s[1] <= '9' && !strings.Contains(s, "."):
		return "param"
	case strings.HasPrefix(s, "recv.prev"):
		return "entry " + s
	case isBalancePath(s):
		return "shared " + s
	}
	return "other " + s
}

// printBigInt lists, over the whole statedb package: every in-place big.Int operation on a stored
// balance, where every value assigned to a balance field comes from, whether journal entries keep a
// copy, and whether Balance() hands out the stored pointer.
func printBigInt(c *ctx) {
	var facts [][2]string
	var keys []string
	for k := range c.funcs {
		keys = append(keys, k)
	}
	sort.Strings(keys)
	for _, key := range keys {
		fd := c.funcs[key]
		if fd.Body == nil {
			continue
		}
		rn, rt := recvOf(fd)
		w := &walker{c: c, recv: rn, recvTyp: rt, env: map[string]string{}, errVars: map[string]bool{}, stateRoots: map[string]bool{}, noCollapse: true}
		i := 0
		for _, p := range fd.Type.Params.List {
			for _, n := range p.Names {
				w.env[n.Name] = fmt.Sprintf("p%d", i)
				i++
			}
		}
		ast.Inspect(fd.Body, func(n ast.Node) bool {
			switch x := n.(type) {
			case *ast.AssignStmt:
				// remember simple aliases  b := <expr>
				if x.Tok == token.DEFINE && len(x.Lhs) == len(x.Rhs) {
					for i, l := range x.Lhs {
						if id, ok := l.(*ast.Ident); ok && id.Name != "_" {
							w.env[id.Name] = w.canon(x.Rhs[i])
						}
					}
				}
				if x.Tok == token.DEFINE && len(x.Lhs) == 2 && len(x.Rhs) == 1 {
					if cl, ok := x.Rhs[0].(*ast.CallExpr); ok {
						txt := w.canon(cl)
						for i, l := range x.Lhs {
							if id, ok := l.(*ast.Ident); ok && id.Name != "_" {
								w.env[id.Name] = fmt.Sprintf("%s#%d", txt, i)
							}
						}
					}
				}
				if x.Tok == token.ASSIGN {
					for i, l := range x.Lhs {
						lt := w.canon(l)
						if i < len(x.Rhs) && (strings.HasSuffix(lt, ".BalanceWei") || strings.HasSuffix(lt, ".BalanceNative")) {
							facts = append(facts, [2]string{"assign", key + ": " + lt[strings.LastIndex(lt, ".")+1:] + " := " + classifySource(w.canon(x.Rhs[i]))})
						}
					}
				}
			case *ast.CallExpr:
				sel, ok := x.Fun.(*ast.SelectorExpr)
				if !ok {
					return true
				}
				recvTxt := w.canon(sel.X)
				if bigMutators[sel.Sel.Name] && isBalancePath(recvTxt) && !strings.HasPrefix(recvTxt, "new(") && !strings.HasSuffix(recvTxt, ")") {
					facts = append(facts, [2]string{"inplace", key + ": " + recvTxt + "." + sel.Sel.Name})
				}
				if (sel.Sel.Name == "setBalance" || sel.Sel.Name == "SetBalance") && len(x.Args) == 1 {
					facts = append(facts, [2]string{"assign", key + ": " + sel.Sel.Name + " " + classifySource(w.canon(x.Args[0]))})
				}
			case *ast.CompositeLit:
				tn := typeName(x.Type)
				if tn == "balanceChange" || tn == "suicideChange" {
					for _, el := range x.Elts {
						if kv, ok := el.(*ast.KeyValueExpr); ok {
							k := Nospace(kv.Key)
							if k == "prevWei" || k == "prevbalance" {
								v := w.canon(kv.Value)
								kind := "alias"
								if strings.HasPrefix(v, "new(big.Int).Set(") {
									kind = "copy"
								}
								facts = append(facts, [2]string{"journal-prev", tn + "." + k + " " + kind})
							}
						}
					}
				}
			case *ast.ReturnStmt:
				if key == "stateObject.Balance" && len(x.Results) == 1 {
					v := w.canon(x.Results[0])
					kind := "alias " + v
					if strings.HasPrefix(v, "new(big.Int).Set(") {
						kind = "copy"
					}
					facts = append(facts, [2]string{"getter", "stateObject.Balance " + kind})
				}
			}
			return true
		})
	}
	sort.Slice(facts, func(i, j int) bool {
		if facts[i][0] != facts[j][0] {
			return facts[i][0] < facts[j][0]
		}
		return facts[i][1] < facts[j][1]
	})
	fmt.Println("(* big.Int aliasing discipline of the statedb package: in-place operations on stored balances (expected: none),")
	fmt.Println("   the source of every value stored into a balance field, whether journal entries copy, what Balance() returns *)")
	fmt.Println("Definition c03_bigint : list (string * string) := [")
	seen := map[string]bool{}
	var rows []string
	for _, f := range facts {
		r := fmt.Sprintf("  (%s, %s)", CoqString(f[0]), CoqString(f[1]))
		if !seen[r] {
			seen[r] = true
			rows = append(rows, r)
		}
	}
	fmt.Println(strings.Join(rows, ";\n"))
	fmt.Println("].")
}
