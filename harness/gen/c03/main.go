// Command gen/c03 prints coq/Gen/C03Facts.v from the /repo working tree (terms, never verdicts).
//
// What is extracted from x/evm/statedb/{journal,statedb,state_object,access_list}.go and
// x/evm/keeper/statedb.go, as data the obligations in coq/Gen/C03Oblig.v compare with the table the
// Coq model is written from (coq/C03/Discipline.v):
//
//   - per JournalChange type: its fields, what Dirtied() returns, the effects of Revert;
//   - per mutator: the guarded effects of the function body — journal appends with the expression
//     stored in every field and a flag "appended before any state mutation of this function",
//     assignments to StateDB / state-object state, calls made in statement position;
//   - per boolean result: the condition under which it is true, as a DNF over canonical atoms.
//
// Normal form (so that behaviour-preserving rewrites print the same facts): receivers are `recv`,
// parameters `p0,p1,…`, locals are replaced by the expression they were defined from
// (`v, ok := m[k]` gives val(m[k]) / has(m[k])), package constants by their value, `*x`, `&x` and
// parentheses are dropped, `a != b` is not(eq), operands of == && || are sorted; effects are
// collected as a SET of (effect, guards) where the guards are the branch conditions on the path,
// with `if c { …return }; rest` read as `rest` under not(c); error-plumbing guards (`err != nil`)
// are dropped; unexported helpers that are not journal/state primitives are inlined.
package main

import (
	"fmt"
	"go/ast"
	"go/token"
	"sort"
	"strings"

	. "verifharness/genlib"
)

type guard struct {
	atom string
	pos  bool
}

type effect struct {
	text   string
	guards []guard
}

type ctx struct {
	funcs   map[string]*ast.FuncDecl // "Recv.Name" or "Name"
	consts  map[string]string
	structs map[string][]string // struct type -> field names in declaration order
	aliases map[string]string   // type alias -> aliased type (no-space text)
}

// retPath is one way a helper returns: the guards accumulated inside it and the canonical results
type retPath struct {
	guards  []guard
	results []string
}

// primitives are never inlined: they are the vocabulary the facts are stated in.
var primitives = map[string]bool{
	"getStateObject": true, "getOrNewStateObject": true, "createObject": true,
	"setBalance": true, "setNonce": true, "setCode": true, "setState": true, "append": true,
	"errorf": true, "newObject": true, "sortedDirties": true, "newJournal": true, "newAccessList": true,
	"isEmpty": true, "commitCtx": true,
}

type walker struct {
	c       *ctx
	recv    string            // receiver identifier of the function being walked
	recvTyp string            // receiver type name
	env     map[string]string // local identifier -> canonical text
	errVars map[string]bool
	stateRoots map[string]bool // parameters of type *StateDB / *stateObject / *journal / *accessList
	rootTyp    map[string]string // … and their type name (methods called on them can be followed)
	effects []effect
	noCollapse bool     // keep new(big.Int).Set(x) visible (aliasing facts)
	mutated bool        // a state mutation has been seen in this top-level function
	rets    [][][]guard // per result index: disjuncts
	nres    int
	depth   int
	paths   *[]retPath // when walking a helper for its value: the return paths
	resNames []string  // named results of the function being walked
}

func recvOf(fd *ast.FuncDecl) (name, typ string) {
	if fd.Recv == nil || len(fd.Recv.List) == 0 {
		return "", ""
	}
	f := fd.Recv.List[0]
	if len(f.Names) > 0 {
		name = f.Names[0].Name
	}
	t := f.Type
	if st, ok := t.(*ast.StarExpr); ok {
		t = st.X
	}
	if id, ok := t.(*ast.Ident); ok {
		typ = id.Name
	}
	return
}

// ---------------------------------------------------------------- canonical expressions

func (w *walker) canon(e ast.Expr) string {
	switch x := e.(type) {
	case nil:
		return ""
	case *ast.ParenExpr:
		return w.canon(x.X)
	case *ast.StarExpr:
		return w.canon(x.X)
	case *ast.UnaryExpr:
		switch x.Op {
		case token.AND, token.MUL:
			return w.canon(x.X)
		case token.NOT:
			return "not(" + w.canon(x.X) + ")"
		case token.SUB:
			return "-" + w.canon(x.X)
		}
		return x.Op.String() + w.canon(x.X)
	case *ast.Ident:
		if x.Name == w.recv && w.recv != "" {
			return "recv"
		}
		if v, ok := w.env[x.Name]; ok {
			return v
		}
		if v, ok := w.c.consts[x.Name]; ok {
			return v
		}
		return x.Name
	case *ast.BasicLit:
		if x.Kind == token.STRING {
			return "str"
		}
		return x.Value
	case *ast.SelectorExpr:
		return w.canon(x.X) + "." + x.Sel.Name
	case *ast.IndexExpr:
		return w.canon(x.X) + "[" + w.canon(x.Index) + "]"
	case *ast.SliceExpr:
		return w.canon(x.X) + "[" + w.canon(x.Low) + ":" + w.canon(x.High) + "]"
	case *ast.CallExpr:
		if fd, _ := w.calleeDecl(x); fd != nil && w.depth < 4 {
			// a helper whose body is a single `return e` is the expression e
			if fd.Body != nil && len(fd.Body.List) == 1 {
				if r, ok := fd.Body.List[0].(*ast.ReturnStmt); ok && len(r.Results) == 1 {
					sub := w.subWalker(fd, x)
					return sub.canon(r.Results[0])
				}
			}
		}
		fn := w.canon(x.Fun)
		// copy idioms carry no information: new(big.Int).Set(v) is v
		if !w.noCollapse && strings.HasSuffix(fn, ".Set") && strings.HasPrefix(fn, "new(big.Int)") && len(x.Args) == 1 {
			return w.canon(x.Args[0])
		}
		var as []string
		for _, a := range x.Args {
			as = append(as, w.canon(a))
		}
		return fn + "(" + strings.Join(as, ",") + ")"
	case *ast.BinaryExpr:
		a, b := w.canon(x.X), w.canon(x.Y)
		switch x.Op {
		case token.EQL:
			return "eq(" + sort2(a, b) + ")"
		case token.NEQ:
			return "not(eq(" + sort2(a, b) + "))"
		case token.LAND:
			return "and(" + strings.Join(flatten(w, x, token.LAND), ",") + ")"
		case token.LOR:
			return "or(" + strings.Join(flatten(w, x, token.LOR), ",") + ")"
		case token.GTR:
			return "lt(" + b + "," + a + ")"
		case token.LSS:
			return "lt(" + a + "," + b + ")"
		case token.GEQ:
			return "not(lt(" + a + "," + b + "))"
		case token.LEQ:
			return "not(lt(" + b + "," + a + "))"
		}
		return "(" + a + x.Op.String() + b + ")"
	case *ast.CompositeLit:
		tn := typeName(x.Type)
		if a, ok := w.c.aliases[tn]; ok {
			tn = a
		}
		fields, isStruct := w.c.structs[tn]
		var fs []string
		for i, el := range x.Elts {
			if kv, ok := el.(*ast.KeyValueExpr); ok {
				k := w.canon(kv.Key)
				if id, ok := kv.Key.(*ast.Ident); ok && (isStruct || x.Type == nil || !strings.HasPrefix(tn, "map[")) {
					k = id.Name // a field name
				}
				v := w.canon(kv.Value)
				if cl, ok := kv.Value.(*ast.CompositeLit); ok && cl.Type == nil && len(cl.Elts) == 0 {
					v = "{}"
				}
				fs = append(fs, k+"="+v)
			} else if isStruct && i < len(fields) {
				fs = append(fs, fields[i]+"="+w.canon(el)) // positional struct literal
			} else {
				fs = append(fs, w.canon(el))
			}
		}
		sort.Strings(fs)
		return tn + "{" + strings.Join(fs, ";") + "}"
	case *ast.FuncLit:
		return "func"
	case *ast.KeyValueExpr:
		return w.canon(x.Key) + "=" + w.canon(x.Value)
	case *ast.TypeAssertExpr:
		return w.canon(x.X) + ".(" + typeName(x.Type) + ")"
	case *ast.MapType, *ast.ArrayType, *ast.StructType:
		return typeName(e)
	}
	return Nospace(e)
}

func typeName(e ast.Expr) string {
	if e == nil {
		return ""
	}
	return Nospace(e)
}

func sort2(a, b string) string {
	if b < a {
		a, b = b, a
	}
	return a + "," + b
}

func flatten(w *walker, e ast.Expr, op token.Token) []string {
	var out []string
	var rec func(e ast.Expr)
	rec = func(e ast.Expr) {
		if p, ok := e.(*ast.ParenExpr); ok {
			rec(p.X)
			return
		}
		if b, ok := e.(*ast.BinaryExpr); ok && b.Op == op {
			rec(b.X)
			rec(b.Y)
			return
		}
		out = append(out, w.canon(e))
	}
	rec(e)
	sort.Strings(out)
	return out
}

// condGuards turns a branch condition into guards (conjunctions are split; a negation flips)
func (w *walker) condGuards(e ast.Expr, pos bool) []guard {
	if w.mentionsErr(e) {
		return nil
	}
	switch x := e.(type) {
	case *ast.ParenExpr:
		return w.condGuards(x.X, pos)
	case *ast.UnaryExpr:
		if x.Op == token.NOT {
			return w.condGuards(x.X, !pos)
		}
	case *ast.BinaryExpr:
		if x.Op == token.LAND && pos {
			return append(w.condGuards(x.X, true), w.condGuards(x.Y, true)...)
		}
		if x.Op == token.LOR && !pos { // not(a||b) = not a && not b
			return append(w.condGuards(x.X, false), w.condGuards(x.Y, false)...)
		}
		if x.Op == token.NEQ {
			return []guard{{"eq(" + sort2(w.canon(x.X), w.canon(x.Y)) + ")", !pos}}
		}
	}
	if w.mentionsErr(e) {
		return nil
	}
	s := w.canon(e)
	for strings.HasPrefix(s, "not(") && strings.HasSuffix(s, ")") {
		s = s[4 : len(s)-1]
		pos = !pos
	}
	return []guard{{s, pos}}
}

func (w *walker) mentionsErr(e ast.Expr) bool {
	found := false
	ast.Inspect(e, func(n ast.Node) bool {
		if id, ok := n.(*ast.Ident); ok && (id.Name == "err" || w.errVars[id.Name]) {
			found = true
		}
		return true
	})
	return found
}

// ---------------------------------------------------------------- statements

func copyGuards(g []guard) []guard { return append([]guard{}, g...) }

func (w *walker) emit(text string, g []guard) {
	w.effects = append(w.effects, effect{text, copyGuards(g)})
}

func terminates(b []ast.Stmt) bool {
	if len(b) == 0 {
		return false
	}
	switch s := b[len(b)-1].(type) {
	case *ast.ReturnStmt:
		return true
	case *ast.BranchStmt:
		return s.Tok == token.CONTINUE || s.Tok == token.BREAK
	case *ast.ExprStmt:
		if c, ok := s.X.(*ast.CallExpr); ok {
			if id, ok := c.Fun.(*ast.Ident); ok && id.Name == "panic" {
				return true
			}
		}
	case *ast.BlockStmt:
		return terminates(s.List)
	case *ast.IfStmt:
		if s.Else == nil {
			return false
		}
		eb, ok := s.Else.(*ast.BlockStmt)
		return ok && terminates(s.Body.List) && terminates(eb.List)
	}
	return false
}

func rootIdent(e ast.Expr) *ast.Ident {
	for {
		switch x := e.(type) {
		case *ast.Ident:
			return x
		case *ast.SelectorExpr:
			e = x.X
		case *ast.IndexExpr:
			e = x.X
		case *ast.StarExpr:
			e = x.X
		case *ast.ParenExpr:
			e = x.X
		case *ast.CallExpr:
			e = x.Fun
		default:
			return nil
		}
	}
}

func isStateType(tn string) bool {
	return tn == "*StateDB" || tn == "*stateObject" || tn == "*journal" || tn == "*accessList"
}

// holdsState: the (bare or not) expression is the receiver, a state parameter, or a local standing for one
func (w *walker) holdsState(e ast.Expr) bool {
	id, ok := e.(*ast.Ident)
	if !ok {
		return w.isState(e)
	}
	if (id.Name == w.recv && w.recv != "") || w.stateRoots[id.Name] {
		return true
	}
	v, ok := w.env[id.Name]
	return ok && v == "recv"
}

// isState: the expression denotes StateDB / journal / access list / state-object state
func (w *walker) isState(e ast.Expr) bool {
	id := rootIdent(e)
	if id == nil {
		return false
	}
	if id.Name == w.recv && w.recv != "" {
		_, isSel := e.(*ast.Ident)
		return !isSel
	}
	if w.stateRoots[id.Name] {
		_, bare := e.(*ast.Ident)
		return !bare
	}
	if v, ok := w.env[id.Name]; ok {
		return strings.HasPrefix(v, "recv") || strings.Contains(v, "StateObject(") || strings.Contains(v, "createObject(") || strings.Contains(v, "newObject(")
	}
	return false
}

func (w *walker) block(list []ast.Stmt, g []guard) {
	g = copyGuards(g)
	for i, s := range list {
		if w.splitOnHelper(s, list[i+1:], g) {
			return
		}
		switch st := s.(type) {
		case *ast.IfStmt:
			if st.Init != nil {
				w.stmt(st.Init, g)
			}
			gt := append(copyGuards(g), w.condGuards(st.Cond, true)...)
			gf := append(copyGuards(g), w.condGuards(st.Cond, false)...)
			w.block(st.Body.List, gt)
			var elseTerm bool
			switch el := st.Else.(type) {
			case *ast.BlockStmt:
				w.block(el.List, gf)
				elseTerm = terminates(el.List)
			case *ast.IfStmt:
				w.block([]ast.Stmt{el}, gf)
				elseTerm = terminates([]ast.Stmt{el})
			}
			if terminates(st.Body.List) {
				g = gf
			} else if elseTerm {
				g = gt
			}
		case *ast.SwitchStmt:
			if st.Tag == nil {
				// tagless switch = if / else-if chain
				cur := copyGuards(g)
				for _, cc := range st.Body.List {
					cl := cc.(*ast.CaseClause)
					if cl.List == nil {
						w.block(cl.Body, cur)
						continue
					}
					var cond ast.Expr = cl.List[0]
					for _, more := range cl.List[1:] {
						cond = &ast.BinaryExpr{X: cond, Op: token.LOR, Y: more}
					}
					w.block(cl.Body, append(copyGuards(cur), w.condGuards(cond, true)...))
					cur = append(cur, w.condGuards(cond, false)...)
				}
			} else {
				for _, cc := range st.Body.List {
					cl := cc.(*ast.CaseClause)
					w.block(cl.Body, append(copyGuards(g), guard{"switch(" + w.canon(st.Tag) + ")", true}))
				}
			}
		case *ast.RangeStmt:
			rx := w.canon(st.X)
			if st.Key != nil {
				w.bind(st.Key, "key("+rx+")")
			}
			if st.Value != nil {
				w.bind(st.Value, "elem("+rx+")")
			}
			gg := append(copyGuards(g), guard{"range(" + rx + ")", true})
			w.block(st.Body.List, gg)
		case *ast.ForStmt:
			gg := append(copyGuards(g), guard{"loop", true})
			if st.Init != nil {
				w.stmt(st.Init, g)
			}
			w.block(st.Body.List, gg)
		case *ast.BlockStmt:
			w.block(st.List, g)
		default:
			w.stmt(s, g)
		}
	}
}

func (w *walker) calleeDecl(call *ast.CallExpr) (*ast.FuncDecl, ast.Expr) {
	switch f := call.Fun.(type) {
	case *ast.Ident:
		if primitives[f.Name] {
			return nil, nil
		}
		if fd, ok := w.c.funcs[f.Name]; ok && fd.Recv == nil && !ast.IsExported(f.Name) {
			return fd, nil
		}
	case *ast.SelectorExpr:
		if primitives[f.Sel.Name] || ast.IsExported(f.Sel.Name) {
			return nil, nil
		}
		if id, ok := f.X.(*ast.Ident); ok && ((id.Name == w.recv && w.recv != "") || w.env[id.Name] == "recv") {
			if fd, ok := w.c.funcs[w.recvTyp+"."+f.Sel.Name]; ok {
				return fd, f.X
			}
		}
		// a method called on a parameter holding StateDB / state-object state (e.g. `s` in Revert(s *StateDB))
		if id, ok := f.X.(*ast.Ident); ok && w.stateRoots[id.Name] && w.rootTyp[id.Name] != "" {
			if fd, ok := w.c.funcs[w.rootTyp[id.Name]+"."+f.Sel.Name]; ok {
				return fd, f.X
			}
		}
	}
	return nil, nil
}

// subWalker prepares a walker for the body of helper fd called as call: receiver and parameters
// are replaced by the canonical text of the actual arguments
func (w *walker) subWalker(fd *ast.FuncDecl, call *ast.CallExpr) *walker {
	sub := &walker{c: w.c, recv: "", recvTyp: w.recvTyp, env: map[string]string{}, errVars: map[string]bool{}, stateRoots: map[string]bool{}, rootTyp: map[string]string{}, depth: w.depth + 1, mutated: w.mutated, noCollapse: w.noCollapse}
	if rn, rt := recvOf(fd); rn != "" {
		sub.recvTyp = rt
		if sel, ok := call.Fun.(*ast.SelectorExpr); ok {
			sub.env[rn] = w.canon(sel.X)
			if w.holdsState(sel.X) {
				sub.stateRoots[rn], sub.rootTyp[rn] = true, rt
			}
		} else {
			sub.env[rn] = "recv"
		}
	}
	i := 0
	for _, p := range fd.Type.Params.List {
		tn := typeName(p.Type)
		for _, n := range p.Names {
			if i < len(call.Args) {
				sub.env[n.Name] = w.canon(call.Args[i])
				// a parameter of a state type bound to the caller's receiver / state parameter IS that state
				if isStateType(tn) && w.holdsState(call.Args[i]) {
					sub.stateRoots[n.Name], sub.rootTyp[n.Name] = true, strings.TrimPrefix(tn, "*")
				}
			}
			i++
		}
	}
	if fd.Type.Results != nil {
		for _, r := range fd.Type.Results.List {
			for _, n := range r.Names {
				sub.resNames = append(sub.resNames, n.Name)
			}
		}
	}
	return sub
}

// inline walks the body of an unexported helper under the current guards and returns the ways it
// returns (guards inside the helper, canonical results)
func (w *walker) inline(fd *ast.FuncDecl, call *ast.CallExpr, g []guard) []retPath {
	if w.depth > 3 || fd.Body == nil {
		return nil
	}
	sub := w.subWalker(fd, call)
	var paths []retPath
	sub.paths = &paths
	sub.block(fd.Body.List, g)
	if !terminates(fd.Body.List) {
		paths = append(paths, retPath{guards: copyGuards(g)}) // falls off the end
	}
	w.effects = append(w.effects, sub.effects...)
	w.mutated = sub.mutated
	return paths
}

// helperCall returns the inlineable helper call a statement hinges on (assignment right-hand side,
// returned value, condition), if any
func (w *walker) helperCallOf(e ast.Expr) (*ast.CallExpr, *ast.FuncDecl) {
	for {
		if p, ok := e.(*ast.ParenExpr); ok {
			e = p.X
			continue
		}
		break
	}
	if c, ok := e.(*ast.CallExpr); ok {
		if fd, _ := w.calleeDecl(c); fd != nil && fd.Type.Results != nil && len(fd.Type.Results.List) > 0 {
			// single-expression helpers are handled inside canon
			if fd.Body != nil && len(fd.Body.List) == 1 {
				if r, ok := fd.Body.List[0].(*ast.ReturnStmt); ok && len(r.Results) == 1 {
					return nil, nil
				}
			}
			return c, fd
		}
	}
	return nil, nil
}

var tmpCounter int

// splitOnHelper: if statement s hinges on a value-returning helper, walk the helper, and for each of
// its return paths walk s (with the results bound) and the rest of the block; reports whether it did
func (w *walker) splitOnHelper(s ast.Stmt, rest []ast.Stmt, g []guard) bool {
	var call *ast.CallExpr
	var fd *ast.FuncDecl
	var rebuild func(names []string) ast.Stmt
	switch st := s.(type) {
	case *ast.AssignStmt:
		if len(st.Rhs) == 1 {
			if c, f := w.helperCallOf(st.Rhs[0]); c != nil {
				call, fd = c, f
				rebuild = func(names []string) ast.Stmt {
					// bind the left-hand sides to the results
					for i, l := range st.Lhs {
						if i < len(names) {
							if id, ok := l.(*ast.Ident); ok && id.Name != "_" {
								if st.Tok == token.DEFINE || !w.isState(l) {
									w.env[id.Name] = w.env[names[i]]
								}
							}
						}
					}
					return nil
				}
			}
		}
	case *ast.ReturnStmt:
		for i, r := range st.Results {
			if c, f := w.helperCallOf(r); c != nil {
				call, fd = c, f
				idx := i
				rebuild = func(names []string) ast.Stmt {
					ns := &ast.ReturnStmt{Results: append([]ast.Expr{}, st.Results...)}
					if len(names) > 0 {
						ns.Results[idx] = &ast.Ident{Name: names[0]}
					}
					return ns
				}
				break
			}
		}
	case *ast.IfStmt:
		if st.Init == nil {
			cond := st.Cond
			neg := false
			if u, ok := cond.(*ast.UnaryExpr); ok && u.Op == token.NOT {
				cond, neg = u.X, true
			}
			if c, f := w.helperCallOf(cond); c != nil {
				call, fd = c, f
				rebuild = func(names []string) ast.Stmt {
					ns := *st
					if len(names) > 0 {
						var ce ast.Expr = &ast.Ident{Name: names[0]}
						if neg {
							ce = &ast.UnaryExpr{Op: token.NOT, X: ce}
						}
						ns.Cond = ce
					}
					return &ns
				}
			}
		} else if as, ok := st.Init.(*ast.AssignStmt); ok && len(as.Rhs) == 1 {
			if c, _ := w.helperCallOf(as.Rhs[0]); c != nil && !w.mentionsErr(st.Cond) {
				// if x := helper(); cond {…}  ==  x := helper(); if cond {…}
				ns := *st
				ns.Init = nil
				return w.splitOnHelper(as, append([]ast.Stmt{&ns}, rest...), g)
			}
		}
	}
	if call == nil {
		return false
	}
	paths := w.inline(fd, call, g)
	for _, p := range paths {
		saved := map[string]string{}
		for k, v := range w.env {
			saved[k] = v
		}
		var names []string
		for _, r := range p.results {
			tmpCounter++
			n := fmt.Sprintf("__h%d", tmpCounter)
			w.env[n] = r
			names = append(names, n)
		}
		var list []ast.Stmt
		if ns := rebuild(names); ns != nil {
			list = append(list, ns)
		}
		list = append(list, rest...)
		w.block(list, p.guards)
		w.env = saved
	}
	return true
}

func (w *walker) callEffect(call *ast.CallExpr, g []guard) {
	if fd, _ := w.calleeDecl(call); fd != nil {
		_ = w.inline(fd, call, g)
		return
	}
	fn := w.canon(call.Fun)
	if strings.HasPrefix(fn, "sort.") || strings.HasPrefix(fn, "slices.Sort") {
		by := "?"
		for _, a := range call.Args {
			if fl, ok := a.(*ast.FuncLit); ok && strings.Contains(Nospace(fl.Body), "bytes.Compare(") {
				by = "bytes.Compare"
			}
			// sort.Sort / sort.Stable over a named sort.Interface type: the order is its Less method
			if conv, ok := a.(*ast.CallExpr); ok && len(conv.Args) == 1 {
				if less, ok := w.c.funcs[typeName(conv.Fun)+".Less"]; ok && less.Body != nil && strings.Contains(Nospace(less.Body), "bytes.Compare(") {
					by = "bytes.Compare"
				}
			}
		}
		w.emit("sort by "+by, g)
		return
	}
	for _, a := range call.Args {
		if fl, ok := a.(*ast.FuncLit); ok {
			// the body of a callback runs under the callee
			saved := w.nres
			w.nres = 0
			w.block(fl.Body.List, append(copyGuards(g), guard{"callback(" + fn + ")", true}))
			w.nres = saved
		}
	}
	switch {
	case strings.HasSuffix(fn, "Journal.append"):
		if len(call.Args) == 1 {
			when := "pre"
			if w.mutated {
				when = "post"
			}
			w.emit("journal "+when+" "+w.canon(call.Args[0]), g)
		}
		return
	case fn == "panic":
		w.emit("panic", g)
		return
	case fn == "delete" || fn == "append":
		// builtins on state
		if len(call.Args) > 0 && w.isState(call.Args[0]) {
			w.mutated = true
		}
	}
	base := fn
	if i := strings.LastIndex(fn, "."); i >= 0 {
		base = fn[i+1:]
	}
	if strings.HasPrefix(base, "set") || base == "SetBalance" || base == "SetNonce" || base == "SetCode" || base == "SetState" ||
		base == "AddBalance" || base == "SubBalance" || base == "DeleteAddress" || base == "DeleteSlot" || base == "Revert" {
		w.mutated = true
	}
	var as []string
	for _, a := range call.Args {
		as = append(as, w.canon(a))
	}
	w.emit("call "+fn+"("+strings.Join(as, ",")+")", g)
}

func (w *walker) stmt(s ast.Stmt, g []guard) {
	switch st := s.(type) {
	case *ast.ExprStmt:
		if c, ok := st.X.(*ast.CallExpr); ok {
			w.callEffect(c, g)
		}
	case *ast.IncDecStmt:
		if w.isState(st.X) {
			w.mutated = true
			w.emit("set "+w.canon(st.X)+st.Tok.String(), g)
		}
	case *ast.DeclStmt:
		// var x T: nothing
	case *ast.ReturnStmt:
		if w.paths != nil {
			p := retPath{guards: copyGuards(g)}
			if len(st.Results) == 0 {
				for _, n := range w.resNames {
					p.results = append(p.results, w.canon(&ast.Ident{Name: n}))
				}
			}
			for _, r := range st.Results {
				p.results = append(p.results, w.canon(r))
			}
			*w.paths = append(*w.paths, p)
		}
		for i, r := range st.Results {
			if i >= w.nres || w.depth > 0 {
				break
			}
			switch w.canon(r) {
			case "false":
			case "true":
				w.rets[i] = append(w.rets[i], copyGuards(g))
			default:
				w.rets[i] = append(w.rets[i], append(copyGuards(g), w.condGuards(r, true)...))
			}
		}
		for _, r := range st.Results {
			if c, ok := r.(*ast.CallExpr); ok && w.isInteresting(c) {
				w.callEffect(c, g)
			}
		}
	case *ast.AssignStmt:
		// comma-ok map read
		if len(st.Lhs) == 2 && len(st.Rhs) == 1 {
			if ta, ok := st.Rhs[0].(*ast.TypeAssertExpr); ok {
				x := w.canon(ta.X) + ".(" + typeName(ta.Type) + ")"
				w.bind(st.Lhs[0], x)
				w.bind(st.Lhs[1], "is("+x+")")
				return
			}
			if ix, ok := st.Rhs[0].(*ast.IndexExpr); ok {
				m := w.canon(ix)
				w.bind(st.Lhs[0], "val("+m+")")
				w.bind(st.Lhs[1], "has("+m+")")
				return
			}
		}
		if len(st.Rhs) == 1 && len(st.Lhs) >= 1 {
			if c, ok := st.Rhs[0].(*ast.CallExpr); ok {
				if fd, _ := w.calleeDecl(c); fd != nil {
					_ = w.inline(fd, c, g)
				} else if w.isInteresting(c) {
					w.callEffect(c, g)
				}
				txt := w.canon(c)
				for i, l := range st.Lhs {
					if id, ok := l.(*ast.Ident); ok && (id.Name == "err" || (len(st.Lhs) > 1 && i == len(st.Lhs)-1 && strings.Contains(strings.ToLower(id.Name), "err"))) {
						w.errVars[id.Name] = true
						continue
					}
					if len(st.Lhs) == 1 {
						w.assign(l, txt, st.Tok, g)
					} else {
						w.assign(l, fmt.Sprintf("%s#%d", txt, i), st.Tok, g)
					}
				}
				return
			}
		}
		for i, l := range st.Lhs {
			if i < len(st.Rhs) {
				rhs := w.canon(st.Rhs[i])
				if st.Tok != token.ASSIGN && st.Tok != token.DEFINE {
					rhs = st.Tok.String() + rhs
				}
				w.assign(l, rhs, st.Tok, g)
			}
		}
	}
}

// isInteresting: a call on the right-hand side whose occurrence is a fact (keeper access, state setters)
func (w *walker) isInteresting(c *ast.CallExpr) bool {
	fn := w.canon(c.Fun)
	return strings.Contains(fn, ".keeper.") || strings.HasPrefix(fn, "recv.keeper.") || strings.Contains(fn, "Journal.append") ||
		strings.HasSuffix(fn, ".createObject") || strings.HasSuffix(fn, ".getOrNewStateObject") ||
		strings.HasSuffix(fn, "accessList.AddAddress") || strings.HasSuffix(fn, "accessList.AddSlot") ||
		strings.Contains(fn, "accountKeeper.") || strings.Contains(fn, "SetAccBalance") || strings.Contains(fn, "ContractBytecode") || strings.Contains(fn, "SetAccCode")
}

func (w *walker) bind(l ast.Expr, txt string) {
	if id, ok := l.(*ast.Ident); ok && id.Name != "_" {
		w.env[id.Name] = txt
	}
}

func (w *walker) assign(l ast.Expr, rhs string, tok token.Token, g []guard) {
	if id, ok := l.(*ast.Ident); ok {
		if id.Name == "_" {
			return
		}
		if tok == token.DEFINE || !w.isState(l) {
			// a local: remember what it stands for
			if strings.HasPrefix(rhs, "+=") || strings.HasPrefix(rhs, "-=") {
				return
			}
			w.env[id.Name] = rhs
			return
		}
	}
	if w.isState(l) {
		w.mutated = true
		w.emit("set "+w.canon(l)+" := "+rhs, g)
	}
}

// ---------------------------------------------------------------- per function

type fnFacts struct {
	name    string
	effects []effect
	rets    [][][]guard
}

func (c *ctx) analyse(key string) *fnFacts {
	fd, ok := c.funcs[key]
	if !ok || fd.Body == nil {
		return &fnFacts{name: key, effects: []effect{{"MISSING", nil}}}
	}
	rn, rt := recvOf(fd)
	w := &walker{c: c, recv: rn, recvTyp: rt, env: map[string]string{}, errVars: map[string]bool{}}
	i := 0
	w.stateRoots = map[string]bool{}
	w.rootTyp = map[string]string{}
	for _, p := range fd.Type.Params.List {
		tn := typeName(p.Type)
		for _, n := range p.Names {
			w.env[n.Name] = fmt.Sprintf("p%d", i)
			if isStateType(tn) {
				w.stateRoots[n.Name] = true
				w.rootTyp[n.Name] = strings.TrimPrefix(tn, "*")
			}
			i++
		}
	}
	if fd.Type.Results != nil {
		for _, r := range fd.Type.Results.List {
			n := len(r.Names)
			if n == 0 {
				n = 1
			}
			for k := 0; k < n; k++ {
				if id, ok := r.Type.(*ast.Ident); ok && id.Name == "bool" {
					w.nres++
				} else {
					w.nres = -1000 // only all-bool results are tabulated
				}
			}
		}
	}
	if w.nres < 0 {
		w.nres = 0
	}
	w.rets = make([][][]guard, w.nres)
	w.block(fd.Body.List, nil)
	return &fnFacts{name: key, effects: w.effects, rets: w.rets}
}

func guardsStr(gs []guard) string {
	var ss []string
	seen := map[string]bool{}
	for _, g := range gs {
		s := fmt.Sprintf("(%s, %s)", CoqString(g.atom), CoqBool(g.pos))
		if !seen[s] {
			seen[s] = true
			ss = append(ss, s)
		}
	}
	sort.Strings(ss)
	return "[" + strings.Join(ss, "; ") + "]"
}

// ---------------------------------------------------------------- canonical guard conditions
//
// The condition under which an effect happens is the disjunction, over its occurrences, of the
// conjunction of the guards on the path.  It is printed in Blake canonical form (the set of ALL
// prime implicants over the atomic conditions), which does not depend on how the branches were
// written: if/else vs guard clauses, a||b vs nested ifs, inverted tests, split helpers.

type bexpr struct {
	op   string // "leaf", "not", "and", "or", "const"
	leaf string
	val  bool
	args []*bexpr
}

func splitArgs(s string) []string {
	var out []string
	depth, start := 0, 0
	for i, c := range s {
		switch c {
		case '(', '[', '{':
			depth++
		case ')', ']', '}':
			depth--
		case ',':
			if depth == 0 {
				out = append(out, s[start:i])
				start = i + 1
			}
		}
	}
	return append(out, s[start:])
}

func parseB(s string) *bexpr {
	switch {
	case s == "true":
		return &bexpr{op: "const", val: true}
	case s == "false":
		return &bexpr{op: "const", val: false}
	}
	for _, op := range []string{"not", "and", "or"} {
		if strings.HasPrefix(s, op+"(") && strings.HasSuffix(s, ")") {
			inner := s[len(op)+1 : len(s)-1]
			// the closing parenthesis must match the opening one
			depth, okk := 0, true
			for i, c := range inner {
				if c == '(' {
					depth++
				} else if c == ')' {
					depth--
					if depth < 0 {
						okk = false
						_ = i
						break
					}
				}
			}
			if !okk || depth != 0 {
				break
			}
			b := &bexpr{op: op}
			for _, a := range splitArgs(inner) {
				b.args = append(b.args, parseB(a))
			}
			return b
		}
	}
	return &bexpr{op: "leaf", leaf: s}
}

func (b *bexpr) leaves(m map[string]bool) {
	if b.op == "leaf" {
		m[b.leaf] = true
	}
	for _, a := range b.args {
		a.leaves(m)
	}
}

func (b *bexpr) eval(as map[string]bool) bool {
	switch b.op {
	case "const":
		return b.val
	case "leaf":
		return as[b.leaf]
	case "not":
		return !b.args[0].eval(as)
	case "and":
		for _, a := range b.args {
			if !a.eval(as) {
				return false
			}
		}
		return true
	case "or":
		for _, a := range b.args {
			if a.eval(as) {
				return true
			}
		}
		return false
	}
	return false
}

// blake returns the prime implicants of the disjunction of the given conjunctions; nil, false when
// the condition is unsatisfiable
func blake(terms [][]guard) ([][]guard, bool) {
	type lit struct {
		e   *bexpr
		pos bool
	}
	var parsed [][]lit
	lm := map[string]bool{}
	for _, t := range terms {
		var ls []lit
		for _, g := range t {
			e := parseB(g.atom)
			e.leaves(lm)
			ls = append(ls, lit{e, g.pos})
		}
		parsed = append(parsed, ls)
	}
	var leaves []string
	for l := range lm {
		leaves = append(leaves, l)
	}
	sort.Strings(leaves)
	n := len(leaves)
	if n > 10 {
		return terms, true // too many atoms: leave as written
	}
	size := 1 << n
	truth := make([]bool, size)
	any := false
	as := map[string]bool{}
	for a := 0; a < size; a++ {
		for i, l := range leaves {
			as[l] = a&(1<<i) != 0
		}
		for _, t := range parsed {
			ok := true
			for _, l := range t {
				if l.e.eval(as) != l.pos {
					ok = false
					break
				}
			}
			if ok {
				truth[a] = true
				any = true
				break
			}
		}
	}
	if !any {
		return nil, false
	}
	implicant := func(mask, val int) bool {
		for a := 0; a < size; a++ {
			if a&mask == val && !truth[a] {
				return false
			}
		}
		return true
	}
	var out [][]guard
	for mask := 0; mask < size; mask++ {
		// all values within the mask
		for val := mask; ; val = (val - 1) & mask {
			if implicant(mask, val) {
				prime := true
				for i := 0; i < n && prime; i++ {
					if mask&(1<<i) != 0 && implicant(mask&^(1<<i), val&^(1<<i)) {
						prime = false
					}
				}
				if prime {
					var gs []guard
					for i, l := range leaves {
						if mask&(1<<i) != 0 {
							gs = append(gs, guard{l, val&(1<<i) != 0})
						}
					}
					out = append(out, gs)
				}
			}
			if val == 0 {
				break
			}
		}
	}
	return out, true
}

// decOrDelete: "decrement the counter of a map entry and drop the entry at zero" is one fact,
// however it is spelled (x--; if x == 0 {delete}  /  n := x-1; if n == 0 {delete} else {x = n})
func decOrDelete(effs []effect) []effect {
	for i := 0; i < len(effs); i++ {
		t := effs[i].text
		if !strings.HasPrefix(t, "call delete(") || !strings.HasSuffix(t, ")") {
			continue
		}
		args := splitArgs(t[len("call delete(") : len(t)-1])
		if len(args) != 2 {
			continue
		}
		x := args[0] + "[" + args[1] + "]"
		zero := map[string]bool{"eq(0," + x + ")": true, "eq((" + x + "-1),0)": true, "eq(0,(" + x + "-1))": true}
		for j := 0; j < len(effs); j++ {
			if effs[j].text != "set "+x+"--" && effs[j].text != "set "+x+" := ("+x+"-1)" {
				continue
			}
			var gs []guard
			for _, g := range effs[j].guards {
				if !zero[g.atom] {
					gs = append(gs, g)
				}
			}
			ne := effect{"dec " + x + " (delete the entry at zero)", gs}
			var out []effect
			for k, e := range effs {
				if k != i && k != j {
					out = append(out, e)
				}
			}
			return decOrDelete(append(out, ne))
		}
	}
	return effs
}

// merge groups the occurrences of every effect and prints its condition canonically
func merge(effs []effect) []effect {
	effs = decOrDelete(effs)
	byText := map[string][][]guard{}
	var order []string
	for _, e := range effs {
		if _, ok := byText[e.text]; !ok {
			order = append(order, e.text)
		}
		byText[e.text] = append(byText[e.text], e.guards)
	}
	var out []effect
	for _, t := range order {
		pis, sat := blake(byText[t])
		if !sat {
			continue // unreachable
		}
		for _, p := range pis {
			out = append(out, effect{t, p})
		}
	}
	return out
}

// abbreviations that keep the commit facts readable
func abbreviate(fn, s string) string {
	if fn != "StateDB.commitCtx" {
		return s
	}
	s = strings.ReplaceAll(s, "recv.getStateObject(elem(recv.Journal.sortedDirties()))", "OBJ")
	s = strings.ReplaceAll(s, "elem(recv.Journal.sortedDirties())", "ADDR")
	s = strings.ReplaceAll(s, "elem(OBJ.DirtyStorage.SortedKeys())", "KEY")
	return s
}

func (f *fnFacts) print() {
	for i := range f.effects {
		f.effects[i].text = abbreviate(f.name, f.effects[i].text)
		for j := range f.effects[i].guards {
			f.effects[i].guards[j].atom = abbreviate(f.name, f.effects[i].guards[j].atom)
		}
	}
	var es []string
	seen := map[string]bool{}
	for _, e := range merge(f.effects) {
		s := fmt.Sprintf("    (%s, %s)", CoqString(e.text), guardsStr(e.guards))
		if !seen[s] {
			seen[s] = true
			es = append(es, s)
		}
	}
	sort.Strings(es)
	var rs []string
	for _, r := range f.rets {
		var ds []string
		seen := map[string]bool{}
		var ds0 []effect
		for _, d := range r {
			ds0 = append(ds0, effect{"", d})
		}
		for _, d0 := range merge(ds0) {
			d := d0.guards
			s := guardsStr(d)
			if !seen[s] {
				seen[s] = true
				ds = append(ds, s)
			}
		}
		sort.Strings(ds)
		rs = append(rs, "[" + strings.Join(ds, "; ") + "]")
	}
	fmt.Printf("  (%s, ([\n%s\n  ], [%s]))", CoqString(f.name), strings.Join(es, ";\n"), strings.Join(rs, "; "))
}

func main() {
	repo := Repo()
	Header(repo)
	files := ParseDir(repo + "/x/evm/statedb")
	alignVocabulary(files) // undo consistent renames of unexported names of the discipline's vocabulary (vocab.go)
	kfiles := ParseDir(repo + "/x/evm/keeper")
	c := &ctx{funcs: map[string]*ast.FuncDecl{}, consts: map[string]string{}, structs: map[string][]string{}, aliases: map[string]string{}}
	collect := func(fs []File, prefix string) {
		for _, fl := range fs {
			for _, d := range fl.F.Decls {
				switch x := d.(type) {
				case *ast.FuncDecl:
					_, rt := recvOf(x)
					key := x.Name.Name
					if rt != "" {
						key = rt + "." + key
					}
					c.funcs[prefix+key] = x
				case *ast.GenDecl:
					if x.Tok == token.CONST && prefix == "" {
						for _, sp := range x.Specs {
							vs := sp.(*ast.ValueSpec)
							for i, n := range vs.Names {
								if i < len(vs.Values) {
									if _, isCall := vs.Values[i].(*ast.CallExpr); !isCall {
										c.consts[n.Name] = Nospace(vs.Values[i])
									}
								}
							}
						}
					}
				}
			}
		}
	}
	collect(files, "")
	// journal entry types: every type with a Revert(*StateDB) method
	type jt struct {
		name    string
		fields  []string
		dirtied string
	}
	var jts []jt
	structs := map[string]*ast.StructType{}
	for _, fl := range files {
		for _, d := range fl.F.Decls {
			if gd, ok := d.(*ast.GenDecl); ok && gd.Tok == token.TYPE {
				for _, sp := range gd.Specs {
					ts := sp.(*ast.TypeSpec)
					if st, ok := ts.Type.(*ast.StructType); ok {
						structs[ts.Name.Name] = st
						var fs []string
						for _, f := range st.Fields.List {
							for _, n := range f.Names {
								fs = append(fs, n.Name)
							}
						}
						c.structs[ts.Name.Name] = fs
					} else if ts.Assign.IsValid() {
						c.aliases[ts.Name.Name] = Nospace(ts.Type)
					}
				}
			}
		}
	}
	var revertKeys []string
	for key, fd := range c.funcs {
		if strings.HasSuffix(key, ".Revert") && fd.Recv != nil {
			_, rt := recvOf(fd)
			if rt == "journal" || rt == "PrecompileCalled" { // the loop itself; the C04 entry
				continue
			}
			st := structs[rt]
			var fs []string
			if st != nil {
				for _, f := range st.Fields.List {
					for _, n := range f.Names {
						fs = append(fs, n.Name)
					}
				}
			}
			sort.Strings(fs)
			dirt := "MISSING"
			if dfd, ok := c.funcs[rt+".Dirtied"]; ok && dfd.Body != nil {
				rn, _ := recvOf(dfd)
				w := &walker{c: c, recv: rn, env: map[string]string{}, errVars: map[string]bool{}}
				for _, s := range dfd.Body.List {
					if r, ok := s.(*ast.ReturnStmt); ok && len(r.Results) == 1 {
						dirt = w.canon(r.Results[0])
					}
				}
			}
			jts = append(jts, jt{rt, fs, dirt})
			revertKeys = append(revertKeys, key)
		}
	}
	sort.Slice(jts, func(i, j int) bool { return jts[i].name < jts[j].name })
	sort.Strings(revertKeys)

	fmt.Println("From Coq Require Import String List Bool. Import ListNotations. Open Scope string_scope.")
	printEthereumTx(kfiles)
	afiles := ParseDir(repo + "/app/evmante")
	printSenderBalanceCheck(kfiles, afiles)
	printFeeCapFloor(afiles)
	printStdPrecompiles(ParseDir(repo + "/x/evm/precompile"))
	fmt.Println("(* journal entry types: name, fields, what Dirtied() returns *)")
	fmt.Println("Definition c03_entry_types : list (string * list string * string) := [")
	for i, j := range jts {
		var fs []string
		for _, f := range j.fields {
			fs = append(fs, CoqString(f))
		}
		sep := ";"
		if i == len(jts)-1 {
			sep = ""
		}
		fmt.Printf("  (%s, [%s], %s)%s\n", CoqString(j.name), strings.Join(fs, "; "), CoqString(j.dirtied), sep)
	}
	fmt.Println("].")

	keys := append([]string{}, revertKeys...)
	keys = append(keys,
		"journal.append", "journal.Revert", "journal.sortedDirties",
		"StateDB.AddLog", "StateDB.AddRefund", "StateDB.SubRefund", "StateDB.createObject", "StateDB.CreateAccount",
		"StateDB.Suicide", "StateDB.AddAddressToAccessList", "StateDB.AddSlotToAccessList",
		"StateDB.Snapshot", "StateDB.RevertToSnapshot", "StateDB.Commit", "StateDB.commitCtx",
		"StateDB.AddBalance", "StateDB.SubBalance", "StateDB.SetNonce", "StateDB.SetCode", "StateDB.SetState",
		"stateObject.AddBalance", "stateObject.SubBalance", "stateObject.SetBalance", "stateObject.SetNonce",
		"stateObject.SetCode", "stateObject.SetState", "stateObject.GetState", "stateObject.GetCommittedState",
		"stateObject.setBalance", "stateObject.setNonce", "stateObject.setCode", "stateObject.setState",
		"stateObject.isEmpty", "StateDB.Empty", "StateDB.Exist", "StateDB.HasSuicided",
		"accessList.AddAddress", "accessList.AddSlot", "accessList.DeleteSlot", "accessList.DeleteAddress",
		"accessList.Contains", "accessList.ContainsAddress")
	var all []*fnFacts
	for _, k := range keys {
		if k == "StateDB.commitCtx" {
			// commitCtx itself is analysed with its helpers inlined; for its callers it is a primitive
			delete(primitives, "commitCtx")
		}
		all = append(all, c.analyse(k))
		primitives["commitCtx"] = true
	}
	// the keeper side of Commit
	kc := &ctx{funcs: map[string]*ast.FuncDecl{}, consts: map[string]string{}, structs: map[string][]string{}, aliases: map[string]string{}}
	for _, fl := range kfiles {
		for _, d := range fl.F.Decls {
			if fd, ok := d.(*ast.FuncDecl); ok {
				_, rt := recvOf(fd)
				key := fd.Name.Name
				if rt != "" {
					key = rt + "." + key
				}
				kc.funcs[key] = fd
			}
		}
	}
	for _, k := range []string{"Keeper.DeleteAccount", "Keeper.SetAccount", "Keeper.SetState", "Keeper.SetCode"} {
		all = append(all, kc.analyse(k))
	}
	printBigInt(c)
	fmt.Println("(* per function: guarded effects (effect, guards on the path) and, per boolean result, the DNF of the")
	fmt.Println("   condition under which it is true *)")
	fmt.Println("Definition c03_functions : list (string * (list (string * list (string * bool)) * list (list (list (string * bool))))) := [")
	for i, f := range all {
		f.print()
		if i < len(all)-1 {
			fmt.Println(";")
		} else {
			fmt.Println()
		}
	}
	fmt.Println("].")
}

// ---------------------------------------------------------------- big.Int aliasing discipline

var bigMutators = map[string]bool{"Add": true, "Sub": true, "Mul": true, "Div": true, "Quo": true, "Rem": true, "Mod": true,
	"Neg": true, "Abs": true, "Set": true, "SetInt64": true, "SetUint64": true, "SetBytes": true, "SetString": true,
	"SetBit": true, "Exp": true, "Lsh": true, "Rsh": true, "Not": true, "And": true, "Or": true, "Xor": true, "AndNot": true}

func isBalancePath(s string) bool {
	return strings.Contains(s, "BalanceWei") || strings.Contains(s, "BalanceNative") || strings.Contains(s, "prevWei") ||
		strings.Contains(s, "prevbalance") || strings.HasSuffix(s, ".Balance()")
}

func classifySource(s string) string {
	switch {
	case strings.HasPrefix(s, "new(big.Int)"), strings.HasPrefix(s, "big.NewInt("), strings.Contains(s, "NativeToWei("), strings.HasSuffix(s, ".ToWei()"):
		return "fresh " + s
	case len(s) >= 2 && s[0] == 'p' && s[1] >= '0' && s[1] <= '9' && !strings.Contains(s, "."):
		return "param"
	case strings.HasPrefix(s, "recv.prev"):
		return "entry " + s
	case isBalancePath(s):
		return "shared " + s
	}
	return "other " + s
}

// printBigInt lists, over the whole statedb package: every in-place big.Int operation on a stored
// balance, where every value assigned to a balance field comes from, whether journal entries keep a
// copy, and whether Balance() hands out the stored pointer.
func printBigInt(c *ctx) {
	var facts [][2]string
	var keys []string
	for k := range c.funcs {
		keys = append(keys, k)
	}
	sort.Strings(keys)
	isHelper := func(fd *ast.FuncDecl) bool {
		return !ast.IsExported(fd.Name.Name) && !primitives[fd.Name.Name]
	}
	var scan func(fd *ast.FuncDecl, w *walker, key string, depth int)
	scan = func(fd *ast.FuncDecl, w *walker, key string, depth int) {
		ast.Inspect(fd.Body, func(n ast.Node) bool {
			switch x := n.(type) {
			case *ast.AssignStmt:
				// remember simple aliases  b := <expr>
				if x.Tok == token.DEFINE && len(x.Lhs) == len(x.Rhs) {
					for i, l := range x.Lhs {
						if id, ok := l.(*ast.Ident); ok && id.Name != "_" {
							w.env[id.Name] = w.canon(x.Rhs[i])
						}
					}
				}
				if x.Tok == token.DEFINE && len(x.Lhs) == 2 && len(x.Rhs) == 1 {
					if cl, ok := x.Rhs[0].(*ast.CallExpr); ok {
						txt := w.canon(cl)
						for i, l := range x.Lhs {
							if id, ok := l.(*ast.Ident); ok && id.Name != "_" {
								w.env[id.Name] = fmt.Sprintf("%s#%d", txt, i)
							}
						}
					}
				}
				if x.Tok == token.ASSIGN {
					for i, l := range x.Lhs {
						lt := w.canon(l)
						if i < len(x.Rhs) && (strings.HasSuffix(lt, ".BalanceWei") || strings.HasSuffix(lt, ".BalanceNative")) {
							facts = append(facts, [2]string{"assign", key + ": " + lt[strings.LastIndex(lt, ".")+1:] + " := " + classifySource(w.canon(x.Rhs[i]))})
						}
					}
				}
			case *ast.CallExpr:
				// same-package helpers are part of their callers
				if hfd, _ := w.calleeDecl(x); hfd != nil && hfd.Body != nil && depth < 3 {
					scan(hfd, w.subWalker(hfd, x), key, depth+1)
				}
				sel, ok := x.Fun.(*ast.SelectorExpr)
				if !ok {
					return true
				}
				recvTxt := w.canon(sel.X)
				if bigMutators[sel.Sel.Name] && isBalancePath(recvTxt) && !strings.HasPrefix(recvTxt, "new(") && !strings.HasSuffix(recvTxt, ")") {
					facts = append(facts, [2]string{"inplace", key + ": " + recvTxt + "." + sel.Sel.Name})
				}
				if (sel.Sel.Name == "setBalance" || sel.Sel.Name == "SetBalance") && len(x.Args) == 1 {
					facts = append(facts, [2]string{"assign", key + ": " + sel.Sel.Name + " " + classifySource(w.canon(x.Args[0]))})
				}
			case *ast.CompositeLit:
				tn := typeName(x.Type)
				if tn == "balanceChange" || tn == "suicideChange" {
					for _, el := range x.Elts {
						if kv, ok := el.(*ast.KeyValueExpr); ok {
							k := Nospace(kv.Key)
							if k == "prevWei" || k == "prevbalance" {
								v := w.canon(kv.Value)
								kind := "alias"
								if strings.HasPrefix(v, "new(big.Int).Set(") {
									kind = "copy"
								}
								facts = append(facts, [2]string{"journal-prev", tn + "." + k + " " + kind})
							}
						}
					}
				}
			case *ast.ReturnStmt:
				if key == "stateObject.Balance" && len(x.Results) == 1 {
					v := w.canon(x.Results[0])
					kind := "alias " + v
					if strings.HasPrefix(v, "new(big.Int).Set(") {
						kind = "copy"
					}
					facts = append(facts, [2]string{"getter", "stateObject.Balance " + kind})
				}
			}
			return true
		})
	}
	for _, key := range keys {
		fd := c.funcs[key]
		if fd.Body == nil || isHelper(fd) {
			continue
		}
		rn, rt := recvOf(fd)
		w := &walker{c: c, recv: rn, recvTyp: rt, env: map[string]string{}, errVars: map[string]bool{}, stateRoots: map[string]bool{}, noCollapse: true}
		i := 0
		for _, p := range fd.Type.Params.List {
			for _, n := range p.Names {
				w.env[n.Name] = fmt.Sprintf("p%d", i)
				i++
			}
		}
		scan(fd, w, key, 0)
	}
	sort.Slice(facts, func(i, j int) bool {
		if facts[i][0] != facts[j][0] {
			return facts[i][0] < facts[j][0]
		}
		return facts[i][1] < facts[j][1]
	})
	fmt.Println("(* big.Int aliasing discipline of the statedb package: in-place operations on stored balances (expected: none),")
	fmt.Println("   the source of every value stored into a balance field, whether journal entries copy, what Balance() returns *)")
	fmt.Println("Definition c03_bigint : list (string * string) := [")
	seen := map[string]bool{}
	var rows []string
	for _, f := range facts {
		r := fmt.Sprintf("  (%s, %s)", CoqString(f[0]), CoqString(f[1]))
		if !seen[r] {
			seen[r] = true
			rows = append(rows, r)
		}
	}
	fmt.Println(strings.Join(rows, ";\n"))
	fmt.Println("].")
}
