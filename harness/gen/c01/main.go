// Command gen/c01 prints coq/Gen/C01Facts.v from the repository working tree given as argv[1]
// (terms, never verdicts).  It type-checks ./x/... ./app/... ./eth/... (go/types through
// golang.org/x/tools/go/packages) and lists
//
//   - every `for … range <map-typed expr>` in non-test, non-generated code: package, enclosing
//     function, ordinal inside that function (no line numbers), the map expression's type, a
//     syntactic classification of the loop body, the normalised callees of the body, and the scope
//     of the package (consensus path / rpc-cli-test tooling);
//   - every use of set.Set.ToSlice and what happens to its result;
//   - every time.Now / math/rand / `go func` site, with a flag when it is only a telemetry argument;
//   - every concurrency / timing construct (conc_sites): go statements, make(chan), channel send / receive / range / close,
//     select statements (number of communication cases, default), timers and timeouts (time.After / NewTimer / NewTicker /
//     Tick / AfterFunc / Sleep and the methods of *time.Timer / *time.Ticker, context.WithTimeout / WithDeadline / WithCancel
//     and Context.Done / Deadline / Err), every use of package sync / sync/atomic, every query of package runtime /
//     runtime/debug — each with the flags "inside a go statement" and "communication of a select clause".
//
// This module is separate from verifharness because it needs x/tools (own go.mod / go.sum).
package main

import (
	"fmt"
	"go/ast"
	"go/token"
	"go/types"
	"os"
	"path/filepath"
	"runtime"
	"sort"
	"strings"
	"time"

	"golang.org/x/tools/go/packages"
)

func fatal(a ...any) {
	fmt.Fprintln(os.Stderr, append([]any{"gen/c01:"}, a...)...)
	os.Exit(2)
}

func coqString(s string) string { return `"` + strings.ReplaceAll(s, `"`, `""`) + `"` }

func coqStrList(xs []string) string {
	q := make([]string, len(xs))
	for i, x := range xs {
		q[i] = coqString(x)
	}
	return "[" + strings.Join(q, "; ") + "]"
}

// scope of a package path relative to the repo root
func scopeOf(rel string) string {
	segs := "/" + rel + "/"
	for _, frag := range []string{"/cli/", "/client/", "/simulation/", "/testutil/", "/cmd/", "/evmtest/"} {
		if strings.Contains(segs, frag) {
			return "ScopeTooling"
		}
	}
	for _, pre := range []string{"eth/rpc", "eth/indexer", "app/server", "app/sim"} {
		if strings.HasPrefix(rel, pre) {
			return "ScopeTooling"
		}
	}
	return "ScopeConsensus"
}

type mapSite struct {
	expr          string
	pkg, fn       string
	ord           int
	typ, syn, scp string
	calls         []string
}

type tsUse struct {
	pkg, fn   string
	ord       int
	kind, scp string
}

type incSite struct {
	pkg, file, fn string
	ord           int
	kind          string
	telemetry     bool
	scp           string
}

// concurrency / timing construct
type concSite struct {
	pkg, fn, kind, what string
	inGo, inSelect      bool
	scp                 string
}

// process-local mutable state: a field of a struct declared in a keeper / precompile package, or a package-level variable of
// a consensus package, whose type (looked into up to three levels of the repository's own struct types) holds a Go map, a
// channel, or a sync / atomic / cache object — state that lives in this process and not in the store.
type procState struct {
	pkg, owner, field, typ, kind string
	written                      bool // package-level variable: assigned / index-assigned / Store()d inside some function body
	scp                          string
}

type walker struct {
	p        *packages.Package
	rel      string
	repo     string
	sites    *[]mapSite
	uses     *[]tsUse
	incs     *[]incSite
	concs    *[]concSite
	ordMap   map[string]int
	ordTs    map[string]int
	ordInc   map[string]int
	fnKey    string
	fnBody   *ast.BlockStmt
	file     string
	parents  []ast.Node
	teleArgs map[ast.Node]bool
	decls    map[types.Object]*ast.FuncDecl
}

func recvName(fd *ast.FuncDecl) string {
	if fd.Recv == nil || len(fd.Recv.List) == 0 {
		return ""
	}
	t := fd.Recv.List[0].Type
	for {
		switch x := t.(type) {
		case *ast.StarExpr:
			t = x.X
			continue
		case *ast.IndexExpr:
			t = x.X
			continue
		case *ast.IndexListExpr:
			t = x.X
			continue
		case *ast.ParenExpr:
			t = x.X
			continue
		case *ast.Ident:
			return x.Name
		}
		return "?"
	}
}

func (w *walker) typeStr(t types.Type) string {
	return types.TypeString(t, func(p *types.Package) string {
		// short, stable qualifier: last path element
		return filepath.Base(p.Path())
	})
}

func isMap(t types.Type) bool {
	if t == nil {
		return false
	}
	if _, ok := t.Underlying().(*types.Map); ok {
		return true
	}
	// type parameter whose core type is a map
	if tp, ok := t.(*types.TypeParam); ok {
		if _, ok := tp.Underlying().(*types.Map); ok {
			return true
		}
	}
	return false
}

func isSlice(t types.Type) bool {
	if t == nil {
		return false
	}
	_, ok := t.Underlying().(*types.Slice)
	return ok
}

// normalised callee: the leftmost identifier is replaced by "_" when it is a variable
// (receiver, parameter, local), so renaming a receiver does not change the fact.
func (w *walker) calleeName(fun ast.Expr) string {
	var parts []string
	e := fun
	for {
		switch x := e.(type) {
		case *ast.SelectorExpr:
			parts = append([]string{x.Sel.Name}, parts...)
			e = x.X
			continue
		case *ast.Ident:
			name := x.Name
			if obj := w.p.TypesInfo.Uses[x]; obj != nil {
				if _, isVar := obj.(*types.Var); isVar && len(parts) > 0 {
					name = "_"
				}
			}
			parts = append([]string{name}, parts...)
		case *ast.CallExpr:
			parts = append([]string{w.calleeName(x.Fun) + "()"}, parts...)
		case *ast.IndexExpr:
			e = x.X
			continue
		case *ast.IndexListExpr:
			e = x.X
			continue
		case *ast.ParenExpr:
			e = x.X
			continue
		case *ast.FuncLit:
			parts = append([]string{"func"}, parts...)
		default:
			parts = append([]string{"?"}, parts...)
		}
		break
	}
	return strings.Join(parts, ".")
}

// calls lists the normalised callees inside n (builtins len/append/make/new/cap/copy/min/max and type
// conversions are not calls; delete/close/panic/print are kept).
func (w *walker) calls(n ast.Node) []string {
	set := map[string]bool{}
	w.collectCalls(n, set, map[types.Object]bool{}, 0)
	var out []string
	for k := range set {
		out = append(out, k)
	}
	sort.Strings(out)
	return out
}

// calleeDecl resolves a call to a function or method DECLARED IN THIS PACKAGE (helpers extracted from a loop body)
func (w *walker) calleeDecl(fun ast.Expr) (types.Object, *ast.FuncDecl) {
	var id *ast.Ident
	switch x := fun.(type) {
	case *ast.Ident:
		id = x
	case *ast.SelectorExpr:
		id = x.Sel
	case *ast.IndexExpr:
		return w.calleeDecl(x.X)
	case *ast.ParenExpr:
		return w.calleeDecl(x.X)
	}
	if id == nil {
		return nil, nil
	}
	obj := w.p.TypesInfo.Uses[id]
	fn, ok := obj.(*types.Func)
	if !ok || fn.Pkg() != w.p.Types {
		return nil, nil
	}
	if o := fn.Origin(); o != nil {
		fn = o
	}
	return fn, w.decls[fn]
}

// collectCalls: the callees of n; a call to a helper of the same package is replaced by the callees of the helper's body
// (transitively), so extracting part of a loop body into a helper does not change the fact.
func (w *walker) collectCalls(n ast.Node, set map[string]bool, visited map[types.Object]bool, depth int) {
	ast.Inspect(n, func(x ast.Node) bool {
		c, ok := x.(*ast.CallExpr)
		if !ok {
			return true
		}
		if tv, ok := w.p.TypesInfo.Types[c.Fun]; ok && tv.IsType() {
			return true
		}
		if id, ok := c.Fun.(*ast.Ident); ok {
			if _, isB := w.p.TypesInfo.Uses[id].(*types.Builtin); isB {
				switch id.Name {
				case "len", "append", "make", "new", "cap", "copy", "min", "max", "delete":
					return true
				}
			}
		}
		if sel, ok := c.Fun.(*ast.SelectorExpr); ok && isMap(w.p.TypesInfo.TypeOf(sel.X)) &&
			(sel.Sel.Name == "Add" || sel.Sel.Name == "Remove" || sel.Sel.Name == "AddMulti" || sel.Sel.Name == "Has") {
			return true // set operations are classified as map writes / lookups, not as calls
		}
		if nm := w.calleeName(c.Fun); strings.Contains(nm, ".Logger") || strings.HasPrefix(nm, "log.") {
			return false // logging (and what it formats) is not an effect on consensus state
		}
		if obj, decl := w.calleeDecl(c.Fun); decl != nil && decl.Body != nil && depth < 4 {
			if !visited[obj] {
				visited[obj] = true
				w.collectCalls(decl.Body, set, visited, depth+1)
			}
			return true
		}
		name := w.calleeName(c.Fun)
		if strings.Contains(name, ".Logger") || strings.HasPrefix(name, "log.") {
			return true // logging is not an effect on consensus state
		}
		set[name] = true
		return true
	})
}

type leafKinds struct {
	collect     map[types.Object]bool // slices appended to / index-written
	mapWrite    bool
	insert      bool // some map write inserts / overwrites an entry
	del         bool // some map write deletes an entry
	loose       bool // a map write that is not provably order-insensitive (key is not the visited key and value is not a constant, or the value reads the destination map)
	accum       bool
	local       bool
	ret         bool
	retNonConst bool // a return / break that is neither guarded by `<range key> == x` nor returns constants only
	effect      bool
	outerAsgn   bool
	keyEqDepth  int // > 0 while inside `if <range key> == x { … }`
}

func isConstExpr(e ast.Expr) bool {
	switch x := e.(type) {
	case *ast.BasicLit:
		return true
	case *ast.Ident:
		return x.Name == "true" || x.Name == "false" || x.Name == "nil"
	case *ast.CompositeLit:
		return len(x.Elts) == 0
	case *ast.ParenExpr:
		return isConstExpr(x.X)
	}
	return false
}

func (w *walker) mentions(e ast.Expr, obj types.Object) bool {
	found := false
	if e == nil || obj == nil {
		return false
	}
	ast.Inspect(e, func(n ast.Node) bool {
		if id, ok := n.(*ast.Ident); ok && w.objOf(id) == obj {
			found = true
		}
		return true
	})
	return found
}

func (w *walker) rangeKeyObj(rs *ast.RangeStmt) types.Object {
	if id, ok := rs.Key.(*ast.Ident); ok && id.Name != "_" {
		return w.objOf(id)
	}
	return nil
}

// is `cond` of the form <range key> == x (map keys are unique: at most one iteration satisfies it)
func (w *walker) isKeyEq(cond ast.Expr, rs *ast.RangeStmt) bool {
	b, ok := cond.(*ast.BinaryExpr)
	if !ok || b.Op != token.EQL {
		return false
	}
	ko := w.rangeKeyObj(rs)
	if ko == nil {
		return false
	}
	for _, side := range []ast.Expr{b.X, b.Y} {
		if id, ok := side.(*ast.Ident); ok && w.objOf(id) == ko {
			return true
		}
	}
	return false
}

func isIntegerType(t types.Type) bool {
	if t == nil {
		return false
	}
	b, ok := t.Underlying().(*types.Basic)
	return ok && b.Info()&types.IsInteger != 0
}

func (w *walker) rootIdent(e ast.Expr) *ast.Ident {
	for {
		switch x := e.(type) {
		case *ast.Ident:
			return x
		case *ast.SelectorExpr:
			e = x.X
		case *ast.IndexExpr:
			e = x.X
		case *ast.StarExpr:
			e = x.X
		case *ast.ParenExpr:
			e = x.X
		default:
			return nil
		}
	}
}

func (w *walker) objOf(id *ast.Ident) types.Object {
	if o := w.p.TypesInfo.Defs[id]; o != nil {
		return o
	}
	return w.p.TypesInfo.Uses[id]
}

// declared inside the range statement (loop variables included)?
func (w *walker) isLocalTo(id *ast.Ident, rs *ast.RangeStmt) bool {
	if id == nil {
		return false
	}
	if id.Name == "_" {
		return true
	}
	o := w.objOf(id)
	if o == nil {
		return false
	}
	return o.Pos() >= rs.Pos() && o.Pos() <= rs.End()
}

func (w *walker) classifyAssign(lhs ast.Expr, tok token.Token, rhs ast.Expr, rs *ast.RangeStmt, lk *leafKinds) {
	// x = append(x, …)
	if id, ok := lhs.(*ast.Ident); ok && rhs != nil {
		if c, ok := rhs.(*ast.CallExpr); ok {
			if f, ok := c.Fun.(*ast.Ident); ok && f.Name == "append" && len(c.Args) >= 1 {
				if a0, ok := c.Args[0].(*ast.Ident); ok && w.objOf(a0) == w.objOf(id) && !w.isLocalTo(id, rs) {
					lk.collect[w.objOf(id)] = true
					return
				}
			}
		}
	}
	if ix, ok := lhs.(*ast.IndexExpr); ok {
		bt := w.p.TypesInfo.TypeOf(ix.X)
		root := w.rootIdent(ix.X)
		if isMap(bt) {
			if w.isLocalTo(root, rs) {
				lk.local = true
			} else {
				lk.mapWrite, lk.insert = true, true
				ko := w.rangeKeyObj(rs)
				keyed := false
				if id, ok := ix.Index.(*ast.Ident); ok && ko != nil && w.objOf(id) == ko {
					keyed = true
				}
				if !keyed && !(rhs != nil && isConstExpr(rhs) && tok == token.ASSIGN) {
					lk.loose = true
				}
				if root != nil && w.mentions(rhs, w.objOf(root)) {
					lk.loose = true
				}
				if w.mentions(ix.Index, w.objOf(root)) {
					lk.loose = true
				}
			}
			return
		}
		if isSlice(bt) && root != nil && !w.isLocalTo(root, rs) {
			if id, ok := ix.X.(*ast.Ident); ok {
				lk.collect[w.objOf(id)] = true
				return
			}
		}
	}
	root := w.rootIdent(lhs)
	if w.isLocalTo(root, rs) {
		lk.local = true
		return
	}
	switch tok {
	case token.ADD_ASSIGN, token.SUB_ASSIGN, token.OR_ASSIGN, token.AND_ASSIGN, token.XOR_ASSIGN, token.INC, token.DEC:
		// commutative only on integers (string += is concatenation, float + is not associative)
		if isIntegerType(w.p.TypesInfo.TypeOf(lhs)) {
			lk.accum = true
		} else {
			lk.effect = true
		}
	default:
		lk.outerAsgn = true
	}
}

func (w *walker) leafs(stmts []ast.Stmt, rs *ast.RangeStmt, lk *leafKinds, inNested bool) {
	for _, s := range stmts {
		switch x := s.(type) {
		case *ast.BlockStmt:
			w.leafs(x.List, rs, lk, inNested)
		case *ast.IfStmt:
			if x.Init != nil {
				w.leafs([]ast.Stmt{x.Init}, rs, lk, inNested)
			}
			ke := w.isKeyEq(x.Cond, rs)
			if ke {
				lk.keyEqDepth++
			}
			w.leafs(x.Body.List, rs, lk, inNested)
			if ke {
				lk.keyEqDepth--
			}
			if x.Else != nil {
				w.leafs([]ast.Stmt{x.Else}, rs, lk, inNested)
			}
		case *ast.ForStmt:
			if x.Init != nil {
				w.leafs([]ast.Stmt{x.Init}, rs, lk, true)
			}
			if x.Post != nil {
				w.leafs([]ast.Stmt{x.Post}, rs, lk, true)
			}
			w.leafs(x.Body.List, rs, lk, true)
		case *ast.RangeStmt:
			w.leafs(x.Body.List, rs, lk, true)
		case *ast.SwitchStmt:
			if x.Init != nil {
				w.leafs([]ast.Stmt{x.Init}, rs, lk, inNested)
			}
			for _, c := range x.Body.List {
				w.leafs(c.(*ast.CaseClause).Body, rs, lk, true)
			}
		case *ast.TypeSwitchStmt:
			for _, c := range x.Body.List {
				w.leafs(c.(*ast.CaseClause).Body, rs, lk, true)
			}
		case *ast.AssignStmt:
			// `_ = f(…)`: a call executed for its effect
			allBlank := true
			for _, l := range x.Lhs {
				if id, ok := l.(*ast.Ident); !ok || id.Name != "_" {
					allBlank = false
				}
			}
			if allBlank {
				for _, r := range x.Rhs {
					if c, ok := r.(*ast.CallExpr); ok {
						if tv, ok := w.p.TypesInfo.Types[c.Fun]; !ok || !tv.IsType() {
							lk.effect = true
						}
					}
				}
			}
			for i, l := range x.Lhs {
				var r ast.Expr
				if len(x.Rhs) == len(x.Lhs) {
					r = x.Rhs[i]
				}
				if x.Tok == token.DEFINE {
					lk.local = true
					continue
				}
				w.classifyAssign(l, x.Tok, r, rs, lk)
			}
		case *ast.IncDecStmt:
			w.classifyAssign(x.X, x.Tok, nil, rs, lk)
		case *ast.DeclStmt:
			lk.local = true
		case *ast.ReturnStmt:
			lk.ret = true
			if lk.keyEqDepth == 0 {
				for _, res := range x.Results {
					if !isConstExpr(res) {
						lk.retNonConst = true
					}
				}
			}
		case *ast.BranchStmt:
			if x.Tok == token.BREAK && !inNested {
				lk.ret = true
				if lk.keyEqDepth == 0 {
					lk.retNonConst = true
				}
			}
			if x.Tok == token.GOTO {
				lk.effect = true
			}
		case *ast.ExprStmt:
			c, ok := x.X.(*ast.CallExpr)
			if !ok {
				lk.effect = true
				continue
			}
			if id, ok := c.Fun.(*ast.Ident); ok && id.Name == "delete" {
				if _, isB := w.p.TypesInfo.Uses[id].(*types.Builtin); isB {
					root := w.rootIdent(c.Args[0])
					if w.isLocalTo(root, rs) {
						lk.local = true
					} else {
						lk.mapWrite, lk.del = true, true
					}
					continue
				}
			}
			if sel, ok := c.Fun.(*ast.SelectorExpr); ok {
				rt := w.p.TypesInfo.TypeOf(sel.X)
				if isMap(rt) && (sel.Sel.Name == "Add" || sel.Sel.Name == "Remove" || sel.Sel.Name == "AddMulti") {
					lk.mapWrite = true
					if sel.Sel.Name == "Remove" {
						lk.del = true
					} else {
						lk.insert = true
					}
					continue
				}
			}
			lk.effect = true
		case *ast.EmptyStmt:
		case *ast.LabeledStmt:
			w.leafs([]ast.Stmt{x.Stmt}, rs, lk, inNested)
		default: // go, defer, send, select, …
			lk.effect = true
		}
	}
}

// is there a sort call on obj after position `after` inside the enclosing function body?
func (w *walker) sortedAfter(obj types.Object, after token.Pos) bool {
	found := false
	if w.fnBody == nil {
		return false
	}
	ast.Inspect(w.fnBody, func(n ast.Node) bool {
		c, ok := n.(*ast.CallExpr)
		if !ok || c.Pos() < after || len(c.Args) == 0 {
			return true
		}
		name := w.calleeName(c.Fun)
		switch name {
		case "sort.Slice", "sort.SliceStable", "sort.Strings", "sort.Ints", "sort.Float64s", "sort.Sort", "sort.Stable",
			"slices.Sort", "slices.SortFunc", "slices.SortStableFunc":
		default:
			return true
		}
		ast.Inspect(c.Args[0], func(m ast.Node) bool {
			if id, ok := m.(*ast.Ident); ok && w.objOf(id) == obj {
				found = true
			}
			return true
		})
		return true
	})
	return found
}

// normalised text of the ranged expression: variables become "_" (renaming a receiver or a local does not change it)
func (w *walker) exprNorm(e ast.Expr) string {
	if id, ok := e.(*ast.Ident); ok {
		if _, isVar := w.objOf(id).(*types.Var); isVar {
			return "_"
		}
		return id.Name
	}
	if ix, ok := e.(*ast.IndexExpr); ok {
		return w.exprNorm(ix.X) + "[]"
	}
	return w.calleeName(e)
}

func (w *walker) classifyRange(rs *ast.RangeStmt) string {
	lk := &leafKinds{collect: map[types.Object]bool{}}
	w.leafs(rs.Body.List, rs, lk, false)
	nCollect := len(lk.collect)
	switch {
	case lk.effect || lk.outerAsgn:
		return "SynEffect"
	case nCollect > 0:
		if nCollect > 1 || lk.mapWrite || lk.ret {
			return "SynEffect"
		}
		for obj := range lk.collect {
			if w.sortedAfter(obj, rs.End()) {
				return "SynCollectSorted"
			}
		}
		return "SynCollectUnsorted"
	case lk.ret:
		if lk.mapWrite || lk.accum {
			return "SynEffect"
		}
		if lk.retNonConst {
			return "SynLookup"
		}
		return "SynMember"
	case lk.mapWrite:
		if lk.accum {
			return "SynEffect"
		}
		if lk.loose || (lk.insert && lk.del) {
			return "SynBuildMapLoose"
		}
		return "SynBuildMap"
	case lk.accum:
		return "SynAccum"
	default:
		return "SynMember" // no write, no exit
	}
}

func isSetType(t types.Type) bool {
	if t == nil {
		return false
	}
	if p, ok := t.(*types.Pointer); ok {
		t = p.Elem()
	}
	n, ok := t.(*types.Named)
	if !ok {
		return false
	}
	o := n.Obj()
	return o != nil && o.Name() == "Set" && o.Pkg() != nil && strings.HasSuffix(o.Pkg().Path(), "x/common/set")
}

func (w *walker) parent(i int) ast.Node {
	if len(w.parents) < i+1 {
		return nil
	}
	return w.parents[len(w.parents)-1-i]
}

// what happens to the result of a ToSlice call
func (w *walker) classifyToSlice(call *ast.CallExpr) string {
	par := w.parent(1)
	switch p := par.(type) {
	case *ast.CallExpr:
		if id, ok := p.Fun.(*ast.Ident); ok && id.Name == "len" {
			return "UseLen"
		}
		name := w.calleeName(p.Fun)
		if strings.HasPrefix(name, "fmt.") || strings.HasPrefix(name, "errors.") || strings.HasSuffix(name, ".Errorf") || strings.HasSuffix(name, ".Wrapf") {
			return "UseMessageText"
		}
		return "UseEscapes"
	case *ast.AssignStmt:
		if len(p.Lhs) == 1 {
			if id, ok := p.Lhs[0].(*ast.Ident); ok {
				if w.sortedAfter(w.objOf(id), p.End()) {
					return "UseSorted"
				}
			}
		}
		return "UseEscapes"
	case *ast.RangeStmt:
		if p.X == call {
			return "UseRanged"
		}
	}
	return "UseEscapes"
}

// inside the function literal / call of a go statement?
func (w *walker) insideGo() bool {
	for _, p := range w.parents[:len(w.parents)-1] {
		if _, ok := p.(*ast.GoStmt); ok {
			return true
		}
	}
	return false
}

// is n (the node on top of the parent stack) the communication of a select clause (case ch <- v: / case x := <-ch:)?
func (w *walker) insideSelectComm(n ast.Node) bool {
	for i := len(w.parents) - 2; i >= 0; i-- {
		switch p := w.parents[i].(type) {
		case *ast.CommClause:
			return p.Comm != nil && n.Pos() >= p.Comm.Pos() && n.End() <= p.Comm.End()
		case *ast.FuncLit:
			return false
		}
	}
	return false
}

func (w *walker) addConc(n ast.Node, kind, what string) {
	*w.concs = append(*w.concs, concSite{pkg: w.rel, fn: w.fnKey, kind: kind, what: what, inGo: w.insideGo(), inSelect: w.insideSelectComm(n), scp: scopeOf(w.rel)})
}

func isChan(t types.Type) bool {
	if t == nil {
		return false
	}
	_, ok := t.Underlying().(*types.Chan)
	return ok
}

var timerFuncs = map[string]bool{"After": true, "NewTimer": true, "NewTicker": true, "Tick": true, "AfterFunc": true, "Sleep": true}
var deadlineFuncs = map[string]bool{"WithTimeout": true, "WithDeadline": true, "WithCancel": true, "WithTimeoutCause": true,
	"WithDeadlineCause": true, "WithCancelCause": true, "AfterFunc": true}

// package-qualified identifiers of time / context / sync / sync/atomic / runtime / runtime/debug (types are not uses)
func (w *walker) concOfPkgSelector(sel *ast.SelectorExpr) {
	id, ok := sel.X.(*ast.Ident)
	if !ok {
		return
	}
	pn, ok := w.p.TypesInfo.Uses[id].(*types.PkgName)
	if !ok {
		return
	}
	if _, isType := w.p.TypesInfo.Uses[sel.Sel].(*types.TypeName); isType {
		return
	}
	switch path := pn.Imported().Path(); path {
	case "time":
		if timerFuncs[sel.Sel.Name] {
			w.addConc(sel, "CkTimer", "time."+sel.Sel.Name)
		}
	case "context":
		if deadlineFuncs[sel.Sel.Name] {
			w.addConc(sel, "CkDeadline", "context."+sel.Sel.Name)
		}
	case "sync":
		w.addConc(sel, "CkSync", "sync."+sel.Sel.Name)
	case "sync/atomic":
		w.addConc(sel, "CkSync", "atomic."+sel.Sel.Name)
	case "runtime":
		w.addConc(sel, "CkRuntime", "runtime."+sel.Sel.Name)
	case "runtime/debug":
		w.addConc(sel, "CkRuntime", "debug."+sel.Sel.Name)
	}
}

// methods of *time.Timer / *time.Ticker, of the sync / sync/atomic types and the time-dependent methods of context.Context
func (w *walker) concOfMethod(sel *ast.SelectorExpr) {
	s := w.p.TypesInfo.Selections[sel]
	if s == nil {
		return
	}
	fn, ok := s.Obj().(*types.Func)
	if !ok || fn.Pkg() == nil {
		return
	}
	recv := ""
	if sig, ok := fn.Type().(*types.Signature); ok && sig.Recv() != nil {
		t := sig.Recv().Type()
		if p, ok := t.(*types.Pointer); ok {
			t = p.Elem()
		}
		if n, ok := t.(*types.Named); ok {
			recv = n.Obj().Name()
		}
	}
	name := recv + "." + fn.Name()
	switch fn.Pkg().Path() {
	case "time":
		if recv == "Timer" || recv == "Ticker" {
			w.addConc(sel, "CkTimer", name)
		}
	case "context":
		if fn.Name() == "Done" || fn.Name() == "Deadline" || fn.Name() == "Err" {
			w.addConc(sel, "CkDeadline", name)
		}
	case "sync", "sync/atomic":
		w.addConc(sel, "CkSync", name)
	}
}

func (w *walker) visitFunc(key string, body *ast.BlockStmt) {
	if body == nil {
		return
	}
	w.fnKey, w.fnBody = key, body
	w.parents = nil
	w.teleArgs = map[ast.Node]bool{}
	var visit func(n ast.Node) bool
	visit = func(n ast.Node) bool {
		if n == nil {
			w.parents = w.parents[:len(w.parents)-1]
			return true
		}
		w.parents = append(w.parents, n)
		switch x := n.(type) {
		case *ast.RangeStmt:
			t := w.p.TypesInfo.TypeOf(x.X)
			if isMap(t) {
				k := w.rel + "|" + key
				ord := w.ordMap[k]
				w.ordMap[k] = ord + 1
				*w.sites = append(*w.sites, mapSite{pkg: w.rel, fn: key, ord: ord, expr: w.exprNorm(x.X), typ: w.typeStr(t),
					syn: w.classifyRange(x), scp: scopeOf(w.rel), calls: w.calls(x.Body)})
			}
			if isChan(t) {
				w.addConc(x, "CkRangeChan", w.exprNorm(x.X))
			}
		case *ast.GoStmt:
			w.addInc("IncGoFunc", false)
			w.addConc(x, "CkGo", "go")
		case *ast.SelectStmt:
			ncomm, def := 0, "false"
			for _, c := range x.Body.List {
				if cc, ok := c.(*ast.CommClause); ok {
					if cc.Comm == nil {
						def = "true"
					} else {
						ncomm++
					}
				}
			}
			w.addConc(x, fmt.Sprintf("(CkSelect %d %s)", ncomm, def), "select")
		case *ast.SendStmt:
			w.addConc(x, "CkSend", w.exprNorm(x.Chan))
		case *ast.UnaryExpr:
			if x.Op == token.ARROW {
				w.addConc(x, "CkRecv", w.exprNorm(x.X))
			}
		case *ast.SelectorExpr:
			w.concOfPkgSelector(x)
			w.concOfMethod(x)
		case *ast.CallExpr:
			if id, ok := x.Fun.(*ast.Ident); ok {
				if _, isB := w.p.TypesInfo.Uses[id].(*types.Builtin); isB {
					if id.Name == "close" && len(x.Args) == 1 {
						w.addConc(x, "CkClose", w.exprNorm(x.Args[0]))
					}
					if id.Name == "make" && len(x.Args) >= 1 {
						if ct, ok := w.p.TypesInfo.TypeOf(x.Args[0]).(*types.Chan); ok {
							buffered := "false"
							if len(x.Args) > 1 {
								if tv, ok := w.p.TypesInfo.Types[x.Args[1]]; !ok || tv.Value == nil || tv.Value.String() != "0" {
									buffered = "true"
								}
							}
							w.addConc(x, "(CkMakeChan "+buffered+")", w.typeStr(ct.Elem()))
						}
					}
				}
			}
			name := w.calleeName(x.Fun)
			if strings.HasPrefix(name, "telemetry.") {
				for _, a := range x.Args {
					w.teleArgs[a] = true
				}
			}
			if sel, ok := x.Fun.(*ast.SelectorExpr); ok {
				if sel.Sel.Name == "ToSlice" && isSetType(w.p.TypesInfo.TypeOf(sel.X)) {
					k := w.rel + "|" + key
					ord := w.ordTs[k]
					w.ordTs[k] = ord + 1
					*w.uses = append(*w.uses, tsUse{pkg: w.rel, fn: key, ord: ord, kind: w.classifyToSlice(x), scp: scopeOf(w.rel)})
				}
				if id, ok := sel.X.(*ast.Ident); ok {
					if pn, ok := w.p.TypesInfo.Uses[id].(*types.PkgName); ok {
						path := pn.Imported().Path()
						if path == "time" && (sel.Sel.Name == "Now" || sel.Sel.Name == "Since" || sel.Sel.Name == "Until") {
							w.addInc("IncTimeNow", w.teleArgs[x])
						}
						if path == "math/rand" || path == "math/rand/v2" {
							w.addInc("IncMathRand", false)
						}
					}
				}
			}
		}
		return true
	}
	ast.Inspect(body, visit)
}

func (w *walker) addInc(kind string, tele bool) {
	k := w.rel + "|" + w.fnKey + "|" + kind
	ord := w.ordInc[k]
	w.ordInc[k] = ord + 1
	*w.incs = append(*w.incs, incSite{pkg: w.rel, file: w.file, fn: w.fnKey, ord: ord, kind: kind, telemetry: tele, scp: scopeOf(w.rel)})
}

// txScopedPublishers: functions that publish the per-transaction StateDB on the bank keeper (a call `….NewStateDB(…)`) and whether
// the matching `defer … ClearTxStateDB(…)` follows with NO return statement in between (otherwise an early error return leaves
// the pointer behind in process memory for the next message of this process).
type publisher struct {
	pkg, fn string
	guarded bool
	scp     string
}

func collectPublishers(p *packages.Package, repo string, out *[]publisher) {
	type fnInfo struct {
		fd                     *ast.FuncDecl
		rel                    string
		pubs, returns, defers  []token.Pos
		calls                  map[*types.Func][]token.Pos // calls to functions of this package (outside function literals)
		returnsStateDB, called bool
	}
	infos := map[*types.Func]*fnInfo{}
	var order []*types.Func
	isStateDBPtr := func(t types.Type) bool {
		pt, ok := t.(*types.Pointer)
		if !ok {
			return false
		}
		n, ok := pt.Elem().(*types.Named)
		return ok && n.Obj().Name() == "StateDB"
	}
	for _, f := range p.Syntax {
		fname := p.Fset.Position(f.Pos()).Filename
		base := filepath.Base(fname)
		if strings.HasSuffix(base, "_test.go") || strings.Contains(base, ".pb.") {
			continue
		}
		rel, err := filepath.Rel(repo, filepath.Dir(fname))
		if err != nil || strings.HasPrefix(rel, "..") {
			continue
		}
		rel = filepath.ToSlash(rel)
		for _, d := range f.Decls {
			fd, ok := d.(*ast.FuncDecl)
			if !ok || fd.Body == nil || fd.Name.Name == "NewStateDB" {
				continue
			}
			obj, _ := p.TypesInfo.Defs[fd.Name].(*types.Func)
			if obj == nil {
				continue
			}
			in := &fnInfo{fd: fd, rel: rel, calls: map[*types.Func][]token.Pos{}}
			if sig, ok := obj.Type().(*types.Signature); ok {
				for i := 0; i < sig.Results().Len(); i++ {
					if isStateDBPtr(sig.Results().At(i).Type()) {
						in.returnsStateDB = true
					}
				}
			}
			var walk func(n ast.Node, inLit bool)
			walk = func(n ast.Node, inLit bool) {
				ast.Inspect(n, func(x ast.Node) bool {
					switch y := x.(type) {
					case *ast.FuncLit:
						if y.Body != nil && x != n {
							walk(y.Body, true)
						}
						return x == n
					case *ast.ReturnStmt:
						if !inLit {
							in.returns = append(in.returns, y.Pos())
						}
					case *ast.DeferStmt:
						clears := false
						ast.Inspect(y, func(z ast.Node) bool {
							if c, ok := z.(*ast.CallExpr); ok {
								if sel, ok := c.Fun.(*ast.SelectorExpr); ok && sel.Sel.Name == "ClearTxStateDB" {
									clears = true
								}
							}
							return true
						})
						if clears && !inLit {
							in.defers = append(in.defers, y.Pos())
						}
						return false
					case *ast.CallExpr:
						if inLit {
							return true
						}
						var id *ast.Ident
						switch fx := y.Fun.(type) {
						case *ast.SelectorExpr:
							id = fx.Sel
						case *ast.Ident:
							id = fx
						}
						if id == nil {
							return true
						}
						if id.Name == "NewStateDB" {
							if _, isSel := y.Fun.(*ast.SelectorExpr); isSel {
								in.pubs = append(in.pubs, y.Pos())
							}
							return true
						}
						if callee, ok := p.TypesInfo.Uses[id].(*types.Func); ok && callee.Pkg() == p.Types {
							if o := callee.Origin(); o != nil {
								callee = o
							}
							in.calls[callee] = append(in.calls[callee], y.Pos())
						}
					}
					return true
				})
			}
			walk(fd.Body, false)
			infos[obj] = in
			order = append(order, obj)
		}
	}
	// A function that creates the StateDB, has no clearing defer of its own and RETURNS the StateDB only hands the
	// publication to its caller (the "reuse or create" idiom extracted into a helper): a call to it is a publication site of
	// the caller, transitively; the helper itself is not a publisher as long as somebody in the package calls it.
	helper := func(in *fnInfo) bool { return len(in.pubs) > 0 && len(in.defers) == 0 && in.returnsStateDB }
	for changed, round := true, 0; changed && round < 6; round++ {
		changed = false
		for _, obj := range order {
			in := infos[obj]
			for callee, poss := range in.calls {
				h := infos[callee]
				if h == nil || callee == obj || !helper(h) {
					continue
				}
				h.called = true
				for _, pos := range poss {
					dup := false
					for _, q := range in.pubs {
						if q == pos {
							dup = true
						}
					}
					if !dup {
						in.pubs = append(in.pubs, pos)
						changed = true
					}
				}
			}
		}
	}
	for _, obj := range order {
		in := infos[obj]
		if len(in.pubs) == 0 || (helper(in) && in.called) {
			continue
		}
		guarded := true
		for _, pp := range in.pubs {
			var dpos token.Pos
			for _, dp := range in.defers {
				if dp > pp && (dpos == 0 || dp < dpos) {
					dpos = dp
				}
			}
			if dpos == 0 {
				guarded = false
				continue
			}
			for _, rp := range in.returns {
				if rp > pp && rp < dpos {
					guarded = false
				}
			}
		}
		key := in.fd.Name.Name
		if r := recvName(in.fd); r != "" {
			key = r + "." + key
		}
		*out = append(*out, publisher{pkg: in.rel, fn: key, guarded: guarded, scp: scopeOf(in.rel)})
	}
}

const repoModule = "github.com/NibiruChain/nibiru"

// kindOfState classifies a type: "" = plain value / store handle, else PSMap | PSChan | PSSync
func kindOfState(t types.Type, depth int, seen map[types.Type]bool) string {
	if t == nil || depth > 3 || seen[t] {
		return ""
	}
	seen[t] = true
	switch x := t.(type) {
	case *types.Pointer:
		return kindOfState(x.Elem(), depth, seen)
	case *types.Map:
		return "PSMap"
	case *types.Chan:
		return "PSChan"
	case *types.Named:
		o := x.Obj()
		if o != nil && o.Pkg() != nil {
			p := o.Pkg().Path()
			if p == "sync" || p == "sync/atomic" || strings.Contains(strings.ToLower(o.Name()), "cache") && !strings.HasPrefix(p, "github.com/cosmos/cosmos-sdk/store") {
				return "PSSync"
			}
			if strings.HasPrefix(p, repoModule) {
				rel := strings.TrimPrefix(strings.TrimPrefix(p, repoModule), "/")
				if i := strings.Index(rel, "/"); strings.HasPrefix(rel, "v") && i > 0 {
					rel = rel[i+1:] // drop the /v2 major-version element
				}
				if singletonPkg(rel) {
					return "" // structs of keeper / precompile packages are inventoried on their own
				}
			}
			if !strings.HasPrefix(p, repoModule) {
				// foreign named types are opaque (collections.Map, keepers of other modules, …) unless they ARE maps
				if _, ok := x.Underlying().(*types.Map); ok {
					return "PSMap"
				}
				return ""
			}
		}
		return kindOfState(x.Underlying(), depth, seen)
	case *types.Struct:
		for i := 0; i < x.NumFields(); i++ {
			if k := kindOfState(x.Field(i).Type(), depth+1, seen); k != "" {
				return k
			}
		}
	}
	return ""
}

// long-lived objects shared by block execution and request handling: keepers, the app, precompile objects, msg/query servers
func singletonStruct(name string) bool {
	l := strings.ToLower(name)
	return strings.Contains(l, "keeper") || strings.Contains(l, "app") || strings.HasPrefix(l, "precompile") ||
		strings.HasSuffix(l, "server") || strings.HasSuffix(l, "querier") || strings.HasSuffix(l, "state")
}

func singletonPkg(rel string) bool {
	return strings.HasSuffix(rel, "/keeper") || rel == "x/evm/precompile" || rel == "app" || rel == "app/keepers"
}

func collectProcState(p *packages.Package, repo string, out *[]procState) {
	written := map[types.Object]bool{}
	for _, f := range p.Syntax {
		for _, decl := range f.Decls {
			fd, ok := decl.(*ast.FuncDecl)
			if !ok || fd.Body == nil || (fd.Recv == nil && fd.Name.Name == "init") {
				continue // package initialisation is not a mutation at run time
			}
			ast.Inspect(fd.Body, func(n ast.Node) bool {
				mark := func(e ast.Expr) {
					for {
						switch x := e.(type) {
						case *ast.IndexExpr:
							e = x.X
							continue
						case *ast.SelectorExpr:
							e = x.X
							continue
						case *ast.StarExpr:
							e = x.X
							continue
						case *ast.ParenExpr:
							e = x.X
							continue
						case *ast.Ident:
							if o := p.TypesInfo.Uses[x]; o != nil {
								written[o] = true
							}
						}
						return
					}
				}
				switch x := n.(type) {
				case *ast.AssignStmt:
					if x.Tok != token.DEFINE {
						for _, l := range x.Lhs {
							mark(l)
						}
					}
				case *ast.IncDecStmt:
					mark(x.X)
				case *ast.CallExpr:
					if sel, ok := x.Fun.(*ast.SelectorExpr); ok {
						switch sel.Sel.Name {
						case "Store", "Delete", "LoadOrStore", "Swap", "CompareAndSwap", "Add", "Set", "Lock":
							mark(sel.X)
						}
					}
					if id, ok := x.Fun.(*ast.Ident); ok && id.Name == "delete" && len(x.Args) > 0 {
						mark(x.Args[0])
					}
				}
				return true
			})
		}
	}
	for _, f := range p.Syntax {
		fname := p.Fset.Position(f.Pos()).Filename
		base := filepath.Base(fname)
		if strings.HasSuffix(base, "_test.go") || strings.Contains(base, ".pb.") || strings.HasPrefix(base, "test_util") {
			continue
		}
		rel, err := filepath.Rel(repo, filepath.Dir(fname))
		if err != nil || strings.HasPrefix(rel, "..") {
			continue
		}
		rel = filepath.ToSlash(rel)
		for _, d := range f.Decls {
			gd, ok := d.(*ast.GenDecl)
			if !ok {
				continue
			}
			for _, sp := range gd.Specs {
				switch x := sp.(type) {
				case *ast.TypeSpec:
					st, ok := x.Type.(*ast.StructType)
					if !ok || !singletonPkg(rel) || !singletonStruct(x.Name.Name) {
						continue
					}
					for _, fld := range st.Fields.List {
						t := p.TypesInfo.TypeOf(fld.Type)
						k := kindOfState(t, 0, map[types.Type]bool{})
						if k == "" {
							continue
						}
						names := []string{"<embedded>"}
						if len(fld.Names) > 0 {
							names = nil
							for _, n := range fld.Names {
								names = append(names, n.Name)
							}
						}
						for _, n := range names {
							*out = append(*out, procState{pkg: rel, owner: x.Name.Name, field: n,
								typ: types.TypeString(t, func(q *types.Package) string { return filepath.Base(q.Path()) }), kind: k, scp: scopeOf(rel)})
						}
					}
				case *ast.ValueSpec:
					if gd.Tok != token.VAR {
						continue
					}
					for _, n := range x.Names {
						o := p.TypesInfo.Defs[n]
						if o == nil || n.Name == "_" {
							continue
						}
						k := kindOfState(o.Type(), 0, map[types.Type]bool{})
						if k == "" {
							continue
						}
						*out = append(*out, procState{pkg: rel, owner: "<package>", field: n.Name,
							typ: types.TypeString(o.Type(), func(q *types.Package) string { return filepath.Base(q.Path()) }), kind: k,
							written: written[o], scp: scopeOf(rel)})
					}
				}
			}
		}
	}
}

func main() {
	if len(os.Args) < 2 {
		fatal("usage: gen_c01 <repo>")
	}
	repo, err := filepath.Abs(os.Args[1])
	if err != nil {
		fatal(err)
	}
	if r, err := filepath.EvalSymlinks(repo); err == nil {
		repo = r
	}
	env := os.Environ()
	var kept []string
	for _, e := range env {
		if strings.HasPrefix(e, "GOFLAGS=") || strings.HasPrefix(e, "GOTOOLCHAIN=") || strings.HasPrefix(e, "PATH=") {
			continue
		}
		kept = append(kept, e)
	}
	path := os.Getenv("PATH")
	gobin := filepath.Join(runtime.GOROOT(), "bin")
	if _, err := os.Stat(filepath.Join(gobin, "go")); err == nil {
		// the toolchain this generator was built with (go1.24 from the module cache): go/packages shells out to `go list`
		path = gobin + string(os.PathListSeparator) + path
		os.Setenv("PATH", path) // exec.LookPath("go") uses this process's PATH
		kept = append(kept, "GOTOOLCHAIN=local")
	} else {
		kept = append(kept, "GOTOOLCHAIN=auto")
	}
	// never let `go list` rewrite go.mod / go.sum of the inspected tree
	kept = append(kept, "PATH="+path, "GOFLAGS=-mod=readonly", "GOPROXY=off")
	cfg := &packages.Config{
		Mode: packages.NeedName | packages.NeedFiles | packages.NeedSyntax | packages.NeedTypes | packages.NeedTypesInfo | packages.NeedImports | packages.NeedDeps,
		Dir:  repo, Tests: false, Env: kept,
	}
	// `go list` shares the build cache with concurrent builds (other checks trim / rewrite it): retry transient failures
	var pkgs []*packages.Package
	for attempt := 0; ; attempt++ {
		pkgs, err = packages.Load(cfg, "./x/...", "./app/...", "./eth/...")
		bad := err != nil
		for _, p := range pkgs {
			if len(p.Errors) > 0 {
				bad = true
			}
		}
		if !bad || attempt >= 3 {
			break
		}
		time.Sleep(time.Duration(2+3*attempt) * time.Second)
	}
	if err != nil {
		fatal("load:", err)
	}
	if len(pkgs) == 0 {
		fatal("no packages loaded")
	}
	sort.Slice(pkgs, func(i, j int) bool { return pkgs[i].PkgPath < pkgs[j].PkgPath })
	var sites []mapSite
	var uses []tsUse
	var incs []incSite
	var concs []concSite
	var pstate []procState
	var pubs []publisher
	nfiles := 0
	for _, p := range pkgs {
		if len(p.Errors) > 0 {
			fatal("package", p.PkgPath, "has errors:", p.Errors[0])
		}
		if p.TypesInfo == nil {
			fatal("no type info for", p.PkgPath)
		}
		collectProcState(p, repo, &pstate)
		collectPublishers(p, repo, &pubs)
		decls := map[types.Object]*ast.FuncDecl{}
		for _, f := range p.Syntax {
			for _, d := range f.Decls {
				if fd, ok := d.(*ast.FuncDecl); ok {
					if o := p.TypesInfo.Defs[fd.Name]; o != nil {
						decls[o] = fd
					}
				}
			}
		}
		w := &walker{decls: decls, p: p, repo: repo, sites: &sites, uses: &uses, incs: &incs, concs: &concs, ordMap: map[string]int{}, ordTs: map[string]int{}, ordInc: map[string]int{}}
		files := append([]*ast.File{}, p.Syntax...)
		sort.Slice(files, func(i, j int) bool {
			return p.Fset.Position(files[i].Pos()).Filename < p.Fset.Position(files[j].Pos()).Filename
		})
		for _, f := range files {
			fname := p.Fset.Position(f.Pos()).Filename
			base := filepath.Base(fname)
			if strings.HasSuffix(base, "_test.go") || strings.Contains(base, ".pb.") {
				continue
			}
			rel, err := filepath.Rel(repo, filepath.Dir(fname))
			if err != nil || strings.HasPrefix(rel, "..") {
				continue
			}
			nfiles++
			w.rel, w.file = filepath.ToSlash(rel), base
			for _, d := range f.Decls {
				switch x := d.(type) {
				case *ast.FuncDecl:
					key := x.Name.Name
					if r := recvName(x); r != "" {
						key = r + "." + key
					}
					w.visitFunc(key, x.Body)
				case *ast.GenDecl:
					// package-level initialisers holding function literals
					ast.Inspect(x, func(n ast.Node) bool {
						if fl, ok := n.(*ast.FuncLit); ok {
							w.visitFunc("<pkg-init>", fl.Body)
							return false
						}
						return true
					})
				}
			}
		}
	}
	if nfiles < 100 {
		fatal("suspiciously few files inspected:", nfiles)
	}
	less := func(a, b []string) bool {
		for i := range a {
			if a[i] != b[i] {
				return a[i] < b[i]
			}
		}
		return false
	}
	sort.SliceStable(sites, func(i, j int) bool {
		return less([]string{sites[i].pkg, sites[i].fn, fmt.Sprintf("%04d", sites[i].ord)}, []string{sites[j].pkg, sites[j].fn, fmt.Sprintf("%04d", sites[j].ord)})
	})
	sort.SliceStable(uses, func(i, j int) bool {
		return less([]string{uses[i].pkg, uses[i].fn, fmt.Sprintf("%04d", uses[i].ord)}, []string{uses[j].pkg, uses[j].fn, fmt.Sprintf("%04d", uses[j].ord)})
	})
	sort.SliceStable(incs, func(i, j int) bool {
		return less([]string{incs[i].pkg, incs[i].fn, incs[i].kind, fmt.Sprintf("%04d", incs[i].ord)}, []string{incs[j].pkg, incs[j].fn, incs[j].kind, fmt.Sprintf("%04d", incs[j].ord)})
	})

	fmt.Printf("(* GENERATED by /verif/harness/gen/c01 from %s — do not edit; regenerated on every check *)\n", os.Args[1])
	fmt.Println("Require Import Nib.C01.Sites.")
	fmt.Println("From Coq Require Import String List. Import ListNotations. Open Scope string_scope.")
	fmt.Printf("(* packages type-checked: %d, files inspected: %d *)\n", len(pkgs), nfiles)
	fmt.Println("Definition map_sites : list site := [")
	for i, s := range sites {
		sep := ";"
		if i == len(sites)-1 {
			sep = ""
		}
		fmt.Printf("  mk_site %s %s %d %s %s %s %s %s%s\n", coqString(s.pkg), coqString(s.fn), s.ord, coqString(s.expr), coqString(s.typ), s.syn, s.scp, coqStrList(s.calls), sep)
	}
	fmt.Println("].")
	fmt.Println("Definition toslice_uses : list ts_use := [")
	for i, u := range uses {
		sep := ";"
		if i == len(uses)-1 {
			sep = ""
		}
		fmt.Printf("  mk_ts %s %s %d %s %s%s\n", coqString(u.pkg), coqString(u.fn), u.ord, u.kind, u.scp, sep)
	}
	fmt.Println("].")
	sort.SliceStable(pstate, func(i, j int) bool {
		return less([]string{pstate[i].pkg, pstate[i].owner, pstate[i].field}, []string{pstate[j].pkg, pstate[j].owner, pstate[j].field})
	})
	fmt.Println("Definition process_state : list pstate := [")
	for i, c := range pstate {
		sep := ";"
		if i == len(pstate)-1 {
			sep = ""
		}
		wr := "false"
		if c.written {
			wr = "true"
		}
		fmt.Printf("  mk_ps %s %s %s %s %s %s %s%s\n", coqString(c.pkg), coqString(c.owner), coqString(c.field), coqString(c.typ), c.kind, wr, c.scp, sep)
	}
	fmt.Println("].")
	sort.SliceStable(pubs, func(i, j int) bool { return less([]string{pubs[i].pkg, pubs[i].fn}, []string{pubs[j].pkg, pubs[j].fn}) })
	fmt.Println("(* functions publishing the per-tx StateDB: (package, function, defer-ClearTxStateDB follows with no return in between, scope) *)")
	fmt.Println("Definition statedb_publishers : list (string * string * bool * scope) := [")
	for i, c := range pubs {
		sep := ";"
		if i == len(pubs)-1 {
			sep = ""
		}
		g := "false"
		if c.guarded {
			g = "true"
		}
		fmt.Printf("  (%s, %s, %s, %s)%s\n", coqString(c.pkg), coqString(c.fn), g, c.scp, sep)
	}
	fmt.Println("].")
	fmt.Println("Definition incidental_sites : list inc_site := [")
	for i, c := range incs {
		sep := ";"
		if i == len(incs)-1 {
			sep = ""
		}
		tele := "false"
		if c.telemetry {
			tele = "true"
		}
		fmt.Printf("  mk_inc %s %s %s %d %s %s %s%s\n", coqString(c.pkg), coqString(c.file), coqString(c.fn), c.ord, c.kind, tele, c.scp, sep)
	}
	fmt.Println("].")
	sort.SliceStable(concs, func(i, j int) bool {
		return less([]string{concs[i].pkg, concs[i].fn}, []string{concs[j].pkg, concs[j].fn})
	})
	fmt.Println("(* concurrency / timing constructs: package, function, kind, what, inside a go statement, communication of a select clause, scope *)")
	fmt.Println("Definition conc_sites : list conc_site := [")
	for i, c := range concs {
		sep := ";"
		if i == len(concs)-1 {
			sep = ""
		}
		b := func(x bool) string {
			if x {
				return "true"
			}
			return "false"
		}
		fmt.Printf("  mk_conc %s %s %s %s %s %s %s%s\n", coqString(c.pkg), coqString(c.fn), c.kind, coqString(c.what), b(c.inGo), b(c.inSelect), c.scp, sep)
	}
	fmt.Println("].")
}
