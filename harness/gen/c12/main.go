// Command gen/c12 prints coq/Gen/C12Facts.v from the /repo working tree: structural facts about the
// oracle's slashing / reward / tally code (terms, never verdicts).  Whole packages are parsed, helper calls
// are followed transitively, guards are read as path conditions with pure predicates expanded — stable
// under helper / struct extraction, De Morgan-inverted guards, early returns / continues, renamings.
//
// Unexported functions, their parameters and locals are WILDCARDS: the stages of a vote-period end are
// recognised by what they do (their characteristic effect, see effectOf), wherever in the call closure of the
// exported entry point the effect sits and whatever the function around it is called.  Only exported API is
// used as an anchor (EndBlocker, UpdateExchangeRates, SlashAndResetMissCounters, AllocateRewards, the Keeper's
// collections, the staking / distribution keeper methods, types.*).
package main

import (
	"fmt"
	"go/ast"
	"go/token"
	"strings"

	. "verifharness/genlib"
)

// tallyForm: the two band tests and the halving of the band, anywhere in the call closure of Tally.
func tallyForm(p *pkg, fd *ast.FuncDecl) (lowerOK bool, upper string, halved bool) {
	upper = "TallyOther"
	p.inspectClosure(fd, func(o *ast.FuncDecl, n ast.Node) bool {
		if c, ok := n.(*ast.CallExpr); ok {
			if recv, name, args, ok := callSel(c); ok && name == "QuoInt64" && len(args) == 1 && Nospace(args[0]) == "2" &&
				(isParamOf(o, recv) || strings.HasSuffix(strings.ToLower(Nospace(recv)), "band")) {
				halved = true
			}
		}
		b, ok := n.(*ast.BinaryExpr)
		if !ok || b.Op != token.LAND {
			return true
		}
		for _, c := range split(b, token.LAND) {
			recv, name, args, ok := callSel(c)
			if !ok || len(args) != 1 {
				continue
			}
			switch name {
			case "GTE": // rate.GTE(median.Sub(spread))
				if _, in, _, ok := callSel(args[0]); ok && in == "Sub" && strings.HasSuffix(Nospace(recv), "ExchangeRate") {
					lowerOK = true
				}
			case "LTE":
				if _, in, _, ok := callSel(args[0]); ok && in == "Add" && strings.HasSuffix(Nospace(recv), "ExchangeRate") {
					upper = "TallyAdd" // rate.LTE(median.Add(spread))
				} else if r2, in2, _, ok := callSel(recv); ok && in2 == "Sub" && strings.HasSuffix(Nospace(r2), "ExchangeRate") {
					upper = "TallyNoAdd" // rate.Sub(spread).LTE(median)
				}
			}
		}
		return true
	})
	return
}

// gateOf: the period gates on the path to the call of `name` in EndBlocker, e.g. ["+VotePeriod"].
func gateOf(p *pkg, fd *ast.FuncDecl, name string) []string {
	owner, call := p.findCall(fd, name, nil)
	if call == nil {
		return []string{"missing"}
	}
	var out []string
	for _, l := range p.literals(pathConds(owner.Body, call)) {
		if isErrCond(l.e) {
			continue
		}
		sign := "+"
		if !l.pos {
			sign = "-"
		}
		if c, ok := l.e.(*ast.CallExpr); ok && strings.HasSuffix(Nospace(c.Fun), "IsPeriodLastBlock") && len(c.Args) == 2 {
			a := Nospace(c.Args[1])
			if i := strings.LastIndex(a, "."); i >= 0 {
				a = a[i+1:]
			}
			out = append(out, sign+a)
		} else {
			out = append(out, sign+"other:"+Nospace(l.e))
		}
	}
	return out
}

// slashGuard: the literals on the path to the Slash call, classified.
func slashGuard(p *pkg, fd *ast.FuncDecl) (atoms []string) {
	owner, call := p.findCall(fd, "Slash", func(c *ast.CallExpr) bool { return len(c.Args) == 5 })
	if call == nil {
		return []string{"missing"}
	}
	for _, l := range p.literals(pathConds(owner.Body, call)) {
		if isErrCond(l.e) {
			continue
		}
		if b, ok := l.e.(*ast.BinaryExpr); ok && (b.Op == token.NEQ || b.Op == token.EQL) {
			if id, ok := strip(b.Y).(*ast.Ident); ok && id.Name == "nil" {
				if (b.Op == token.NEQ) == l.pos {
					atoms = append(atoms, "nonnil")
				} else {
					atoms = append(atoms, "nil")
				}
				continue
			}
		}
		if _, name, args, ok := callSel(l.e); ok {
			switch {
			case name == "IsBonded" && len(args) == 0:
				atoms = append(atoms, map[bool]string{true: "bonded", false: "notbonded"}[l.pos])
				continue
			case name == "IsJailed" && len(args) == 0:
				atoms = append(atoms, map[bool]string{true: "jailed", false: "notjailed"}[l.pos])
				continue
			case name == "LT" && l.pos: // valid vote rate below the minimum
				atoms = append(atoms, "lowrate")
				continue
			}
		}
		atoms = append(atoms, "other:"+Nospace(l.e))
	}
	return
}

// callOrder: which of the named functions are called from fd (helpers inlined), in source order.
func callOrder(p *pkg, fd *ast.FuncDecl, names map[string]bool) []string {
	var seq []string
	var walk func(fd *ast.FuncDecl, depth int)
	walk = func(fd *ast.FuncDecl, depth int) {
		ast.Inspect(fd.Body, func(n ast.Node) bool {
			ce, ok := n.(*ast.CallExpr)
			if !ok {
				return true
			}
			name := ""
			switch f := ce.Fun.(type) {
			case *ast.Ident:
				name = f.Name
			case *ast.SelectorExpr:
				name = f.Sel.Name
			}
			if names[name] {
				seq = append(seq, name)
				return true
			}
			if d := p.resolve(ce); d != nil && depth < 4 {
				walk(d, depth+1)
			}
			return true
		})
	}
	walk(fd, 0)
	return seq
}

// isParamOf: e is an identifier naming a parameter of fd.
func isParamOf(fd *ast.FuncDecl, e ast.Expr) bool {
	id, ok := strip(e).(*ast.Ident)
	if !ok || fd == nil {
		return false
	}
	for _, pn := range paramNames(fd) {
		if pn == id.Name {
			return true
		}
	}
	return false
}

// ---------------------------------------------------------------- stages of a vote-period end, by effect
//
// The four stages the property talks about, each named after the function that carries it in the tree the model
// was written from (the labels are role names, not look-up keys):
//
//	Tally                 — a validator's performance is updated from a vote: `….RewardWeight += …`, `….MissCount++`,
//	                        or the spread is computed (`….StandardDeviation(…)`)
//	incrementMissCounters — the MissCounters store is written (`….MissCounters.Insert(…)`)
//	rewardWinners         — rewards are credited (`….AllocateTokensToValidator(…)`)
//	clearVotesAndPrevotes — the Votes store is emptied (`….Votes.Delete(…)`)
func effectOf(n ast.Node) string {
	switch x := n.(type) {
	case *ast.CallExpr:
		f := Nospace(x.Fun)
		switch {
		case strings.HasSuffix(f, ".MissCounters.Insert"):
			return "incrementMissCounters"
		case strings.HasSuffix(f, ".AllocateTokensToValidator"):
			return "rewardWinners"
		case strings.HasSuffix(f, ".Votes.Delete"):
			return "clearVotesAndPrevotes"
		case strings.HasSuffix(f, ".StandardDeviation"):
			return "Tally"
		}
	case *ast.IncDecStmt:
		if x.Tok == token.INC && strings.HasSuffix(Nospace(x.X), ".MissCount") {
			return "Tally"
		}
	case *ast.AssignStmt:
		if x.Tok == token.ADD_ASSIGN && len(x.Lhs) == 1 {
			if l := Nospace(x.Lhs[0]); strings.HasSuffix(l, ".RewardWeight") || strings.HasSuffix(l, ".MissCount") {
				return "Tally"
			}
		}
	}
	return ""
}

// hop: one link of the way from the entry point to an effect: the node (a call of a package function, or the
// effect itself) and the function whose body contains it.
type hop struct {
	owner *ast.FuncDecl
	node  ast.Node
}

// effects walks fd in source order with the functions of the package inlined (a function on the current call
// stack is not entered again) and reports every effect with the chain of calls that leads to it.
func (p *pkg) effects(fd *ast.FuncDecl, visit func(role string, chain []hop)) {
	var walk func(fd *ast.FuncDecl, chain []hop, stack map[*ast.FuncDecl]bool)
	walk = func(fd *ast.FuncDecl, chain []hop, stack map[*ast.FuncDecl]bool) {
		ast.Inspect(fd.Body, func(n ast.Node) bool {
			if n == nil {
				return true
			}
			if r := effectOf(n); r != "" {
				visit(r, append(append([]hop{}, chain...), hop{fd, n}))
			}
			if ce, ok := n.(*ast.CallExpr); ok {
				if d := p.resolve(ce); d != nil && !stack[d] && len(chain) < 6 {
					stack[d] = true
					walk(d, append(append([]hop{}, chain...), hop{fd, ce}), stack)
					delete(stack, d)
				}
			}
			return true
		})
	}
	walk(fd, nil, map[*ast.FuncDecl]bool{fd: true})
}

// effectOrder: the stages in the order in which their effects occur in the source (consecutive repetitions of
// one stage collapsed).
func effectOrder(p *pkg, fd *ast.FuncDecl) []string {
	var seq []string
	p.effects(fd, func(role string, _ []hop) {
		if len(seq) == 0 || seq[len(seq)-1] != role {
			seq = append(seq, role)
		}
	})
	return seq
}

// rolesIn: the stages whose effects occur in the call closure of fd.
func rolesIn(p *pkg, fd *ast.FuncDecl) map[string]bool {
	m := map[string]bool{}
	p.inspectClosure(fd, func(_ *ast.FuncDecl, n ast.Node) bool {
		if n != nil {
			if r := effectOf(n); r != "" {
				m[r] = true
			}
		}
		return true
	})
	return m
}

// stageOf: the function that IS the stage — the outermost function on the way from the entry point to the first
// effect of this stage whose call closure has effects of this stage only (so `incrementMissCounters` stays the
// stage when the store write moves into a helper of it, and a wrapper around several stages is not a stage) — and
// the calls that lead to it: chain[:cut] are the calls down to and including the call of the stage function.
// When there is no such function (the effect sits in the entry point or in a function shared with another
// stage) fn is the function holding the effect and cut = len(chain).
func stageOf(p *pkg, fd *ast.FuncDecl, role string) (fn *ast.FuncDecl, chain []hop, cut int) {
	p.effects(fd, func(r string, c []hop) {
		if r == role && chain == nil {
			chain = c
		}
	})
	if chain == nil {
		return nil, nil, 0
	}
	for i := 1; i < len(chain); i++ {
		if rs := rolesIn(p, chain[i].owner); len(rs) == 1 && rs[role] {
			return chain[i].owner, chain, i
		}
	}
	return chain[len(chain)-1].owner, chain, len(chain)
}

// stageGuards: the non-error conditions under which the stage is reached from the entry point: the path
// conditions of every call on the way (in the function that makes the call).  The conditions inside the stage
// function (who gets a miss, who is paid) are the stage's business and belong to the model.
func stageGuards(p *pkg, chain []hop, cut int) int {
	n := 0
	for _, h := range chain[:cut] {
		for _, l := range p.literals(pathConds(h.owner.Body, h.node)) {
			if !isErrCond(l.e) {
				n++
			}
		}
	}
	return n
}

// tallyRoot: when no function is called Tally — the deepest function on the way to the first tally effect whose
// call closure both computes the spread and credits reward weight.
func tallyRoot(p *pkg, root *ast.FuncDecl) *ast.FuncDecl {
	owner, chain, _ := stageOf(p, root, "Tally")
	for i := len(chain) - 1; i >= 1; i-- {
		d := chain[i].owner
		sd, rw := false, false
		p.inspectClosure(d, func(_ *ast.FuncDecl, n ast.Node) bool {
			switch x := n.(type) {
			case *ast.CallExpr:
				sd = sd || strings.HasSuffix(Nospace(x.Fun), ".StandardDeviation")
			case *ast.AssignStmt:
				rw = rw || (x.Tok == token.ADD_ASSIGN && len(x.Lhs) == 1 && strings.HasSuffix(Nospace(x.Lhs[0]), ".RewardWeight"))
			}
			return true
		})
		if sd && rw {
			return d
		}
	}
	return owner
}

// isTotalWeight: e denotes the total reward weight — a call of ….TotalRewardWeight(), a local defined by one, or a
// parameter of the (helper) function o that the value is handed to.
func isTotalWeight(o *ast.FuncDecl, e ast.Expr) bool {
	isCall := func(e ast.Expr) bool {
		_, nm, args, ok := callSel(e)
		return ok && nm == "TotalRewardWeight" && len(args) == 0
	}
	e = strip(e)
	if c, ok := e.(*ast.CallExpr); ok && isConv(c.Fun) && len(c.Args) == 1 {
		e = strip(c.Args[0])
	}
	if isCall(e) {
		return true
	}
	id, ok := e.(*ast.Ident)
	if !ok {
		return false
	}
	if d, ok := simpleDefs(o.Body)[id.Name]; ok {
		return isCall(d)
	}
	return isParamOf(o, id)
}

func main() {
	repo := Repo()
	Header(repo)
	kp := loadPkg(repo + "/x/oracle/keeper")
	ap := loadPkg(repo + "/x/oracle")

	atoms := []string{"missing"}
	nContinue, contOnlyOnError, deleteTop, castKind := 99, false, false, "CastOther"
	if fd := kp.fn("SlashAndResetMissCounters"); fd != nil {
		atoms = slashGuard(kp, fd)
		// the loop over the miss counters (wherever in the closure) and the Delete in it
		var loop *ast.RangeStmt
		kp.inspectClosure(fd, func(_ *ast.FuncDecl, n ast.Node) bool {
			if r, ok := n.(*ast.RangeStmt); ok && loop == nil && strings.Contains(Nospace(r.X), "MissCounters") {
				loop = r
			}
			return true
		})
		if loop != nil {
			var delPos token.Pos
			for _, s := range loop.Body.List {
				switch x := s.(type) {
				case *ast.IfStmt:
					if x.Init != nil && containsCall(x.Init, "Delete") && strings.Contains(Nospace(x.Init), "MissCounters") {
						deleteTop, delPos = true, x.Pos()
					}
				case *ast.AssignStmt, *ast.ExprStmt:
					if containsCall(x, "Delete") && strings.Contains(Nospace(x), "MissCounters") {
						deleteTop, delPos = true, x.Pos()
					}
				}
			}
			nContinue, contOnlyOnError = 0, true
			ast.Inspect(loop.Body, func(x ast.Node) bool {
				switch y := x.(type) {
				case *ast.FuncLit:
					return false
				case *ast.RangeStmt, *ast.ForStmt:
					return x == ast.Node(loop)
				case *ast.BranchStmt:
					if y.Tok == token.CONTINUE && (delPos == 0 || y.Pos() < delPos) {
						nContinue++
						// innermost condition guarding this continue
						pcs := pathConds(loop.Body, y)
						ok := false
						if len(pcs) > 0 {
							last := pcs[len(pcs)-1]
							c := Nospace(last.cond)
							ok = last.pos && (c == "err!=nil" || c == "!ok")
						}
						if !ok {
							contOnlyOnError = false
						}
					}
				}
				return true
			})
		}
		// the cast applied to (periods - misses), anywhere in the closure
		kp.inspectClosure(fd, func(_ *ast.FuncDecl, n ast.Node) bool {
			c, ok := n.(*ast.CallExpr)
			if !ok || len(c.Args) != 1 {
				return true
			}
			b, ok := strip(c.Args[0]).(*ast.BinaryExpr)
			if !ok || b.Op != token.SUB { // periods − misses: a difference of two variables under a cast
				return true
			}
			if _, lit := strip(b.Y).(*ast.BasicLit); lit {
				return true
			}
			switch f := Nospace(c.Fun); {
			case f == "int64":
				castKind = "CastInt64"
			case strings.HasSuffix(f, "NewIntFromUint64") || f == "uint64":
				castKind = "CastUint64"
			}
			return true
		})
	}
	has := func(a string) bool {
		for _, x := range atoms {
			if x == a {
				return true
			}
		}
		return false
	}
	nOther := 0
	for _, a := range atoms {
		if a != "nonnil" && a != "bonded" && a != "notjailed" && a != "lowrate" {
			nOther++
		}
	}

	// AllocateRewards: how the per-period amount is computed
	perPeriod := "DivOther"
	if fd := kp.fn("AllocateRewards", "Keeper"); fd != nil {
		quoRaw, other := false, false
		kp.inspectClosure(fd, func(_ *ast.FuncDecl, n ast.Node) bool {
			if _, name, _, ok := callSelNode(n); ok {
				switch name {
				case "QuoRaw":
					quoRaw = true
				case "Quo", "QuoInt64", "RoundInt", "QuoRoundUp", "Ceil":
					other = true
				}
			}
			return true
		})
		if quoRaw && !other {
			perPeriod = "DivQuoRaw"
		}
	}
	// the stages of a vote-period end, found by their effects from the exported entry point
	root := kp.fn("UpdateExchangeRates", "Keeper")
	// reward stage: share = NewDec(weight).QuoInt64(total reward weight), truncated
	shareNormalised, shareTruncated := false, false
	var rewardFn *ast.FuncDecl
	if root != nil {
		rewardFn, _, _ = stageOf(kp, root, "rewardWinners")
	}
	if fd := rewardFn; fd != nil {
		kp.inspectClosure(fd, func(o *ast.FuncDecl, n ast.Node) bool {
			if recv, name, args, ok := callSelNode(n); ok {
				if name == "QuoInt64" && len(args) == 1 && isTotalWeight(o, args[0]) {
					if c, ok := strip(recv).(*ast.CallExpr); ok && strings.HasSuffix(Nospace(c.Fun), "NewDec") {
						shareNormalised = true
					}
				}
				if name == "TruncateDecimal" {
					shareTruncated = true
				}
			}
			return true
		})
	}
	// Tally
	lowerOK, upper, halved := false, "TallyOther", false
	abstain := false
	tallyFn := kp.fn("Tally")
	if tallyFn == nil && root != nil {
		tallyFn = tallyRoot(kp, root)
	}
	if fd := tallyFn; fd != nil {
		lowerOK, upper, halved = tallyForm(kp, fd)
		// an abstention is `!rate.IsPositive()`, whatever the result is called and wherever it is tested
		kp.inspectClosure(fd, func(_ *ast.FuncDecl, n ast.Node) bool {
			if u, ok := n.(*ast.UnaryExpr); ok && u.Op == token.NOT {
				if recv, nm, args, ok := callSel(u.X); ok && nm == "IsPositive" && len(args) == 0 && strings.HasSuffix(Nospace(recv), "ExchangeRate") {
					abstain = true
				}
			}
			return true
		})
	}
	// EndBlocker gates
	updGate, slashGate := []string{"missing"}, []string{"missing"}
	var ebOrder []string
	if fd := ap.fn("EndBlocker"); fd != nil {
		updGate = gateOf(ap, fd, "UpdateExchangeRates")
		slashGate = gateOf(ap, fd, "SlashAndResetMissCounters")
		ebOrder = callOrder(ap, fd, map[string]bool{"UpdateExchangeRates": true, "SlashAndResetMissCounters": true})
	}
	// UpdateExchangeRates: nothing guards the calls that count misses, pay rewards and clear the votes
	guards := 99
	var updOrder []string
	if fd := root; fd != nil {
		guards = 0
		for _, role := range []string{"incrementMissCounters", "rewardWinners", "clearVotesAndPrevotes"} {
			_, chain, cut := stageOf(kp, fd, role)
			if chain == nil {
				guards += 50
				continue
			}
			guards += stageGuards(kp, chain, cut)
		}
		updOrder = effectOrder(kp, fd)
	}

	fmt.Println("Require Import Nib.C10.Cfg Nib.C12.Cfg.")
	fmt.Println("From Coq Require Import String List. Import ListNotations. Open Scope string_scope.")
	fmt.Println("Definition current_cfg12 : code_cfg12 := {|")
	fmt.Printf("  sc_guard_nonnil := %s;\n", CoqBool(has("nonnil")))
	fmt.Printf("  sc_guard_bonded := %s;\n", CoqBool(has("bonded")))
	fmt.Printf("  sc_guard_notjailed := %s;\n", CoqBool(has("notjailed")))
	fmt.Printf("  sc_guard_other := %d;\n", nOther)
	fmt.Printf("  sc_delete_in_loop_body := %s;\n", CoqBool(deleteTop))
	fmt.Printf("  sc_continues_before_delete := %d;\n", nContinue)
	fmt.Printf("  sc_continues_only_on_error := %s;\n", CoqBool(contOnlyOnError))
	fmt.Printf("  sc_periods_minus_misses := %s;\n", castKind)
	fmt.Printf("  sc_per_period := %s;\n", perPeriod)
	fmt.Printf("  sc_share_normalised := %s;\n", CoqBool(shareNormalised))
	fmt.Printf("  sc_share_truncated := %s;\n", CoqBool(shareTruncated))
	fmt.Printf("  sc_tally_lower := %s;\n", CoqBool(lowerOK))
	fmt.Printf("  sc_tally_upper := %s;\n", upper)
	fmt.Printf("  sc_band_halved := %s;\n", CoqBool(halved))
	fmt.Printf("  sc_abstain_not_positive := %s;\n", CoqBool(abstain))
	fmt.Printf("  sc_update_gate := %s;\n", coqStrs(updGate))
	fmt.Printf("  sc_slash_gate := %s;\n", coqStrs(slashGate))
	fmt.Printf("  sc_endblock_order := %s;\n", coqStrs(ebOrder))
	fmt.Printf("  sc_update_order := %s;\n", coqStrs(updOrder))
	fmt.Printf("  sc_update_guards := %d |}.\n", guards)
	fmt.Println("(* diagnostics (not used by the obligations) *)")
	fmt.Printf("Definition slash_guard_atoms : list string := %s.\n", coqStrs(atoms))
}
