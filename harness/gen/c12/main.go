// Command gen/c12 prints coq/Gen/C12Facts.v from the /repo working tree: structural facts about the
// oracle's slashing / reward / tally code (terms, never verdicts), in normal forms that are stable under
// helper extraction, De Morgan-inverted guards, early returns / continues and renamings.
package main

import (
	"fmt"
	"go/ast"
	"go/token"
	"strings"

	. "verifharness/genlib"
)

// ---------------------------------------------------------------- generic helpers

// noTestUtils drops test helper files that are not named *_test.go.
func noTestUtils(fs []File) []File {
	var out []File
	for _, f := range fs {
		if !strings.HasSuffix(f.Path, "test_utils.go") {
			out = append(out, f)
		}
	}
	return out
}

func recvName(fd *ast.FuncDecl) string {
	if fd.Recv != nil && len(fd.Recv.List) > 0 && len(fd.Recv.List[0].Names) > 0 {
		return fd.Recv.List[0].Names[0].Name
	}
	return ""
}

func recvType(fd *ast.FuncDecl) string {
	if fd.Recv == nil || len(fd.Recv.List) == 0 {
		return ""
	}
	t := fd.Recv.List[0].Type
	if s, ok := t.(*ast.StarExpr); ok {
		t = s.X
	}
	if id, ok := t.(*ast.Ident); ok {
		return id.Name
	}
	return ""
}

func method(files []File, typ, name string) *ast.FuncDecl {
	for _, fl := range files {
		for _, d := range fl.F.Decls {
			if fd, ok := d.(*ast.FuncDecl); ok && fd.Name.Name == name && recvType(fd) == typ && fd.Body != nil {
				return fd
			}
		}
	}
	return nil
}

func strip(e ast.Expr) ast.Expr {
	for {
		p, ok := e.(*ast.ParenExpr)
		if !ok {
			return e
		}
		e = p.X
	}
}

func isConv(e ast.Expr) bool {
	e = strip(e)
	id, ok := e.(*ast.Ident)
	return ok && (id.Name == "uint64" || id.Name == "int64" || id.Name == "int" || id.Name == "uint")
}

// sexp prints a fully parenthesised prefix form; integer conversions are dropped, identifiers are
// renamed / inlined through sub, selectors listed in bare lose their qualifier.
func sexp(e ast.Expr, sub map[string]ast.Expr, ren map[string]string, bare map[string]bool, depth int) string {
	e = strip(e)
	switch x := e.(type) {
	case *ast.Ident:
		if depth < 6 {
			if d, ok := sub[x.Name]; ok {
				return sexp(d, sub, ren, bare, depth+1)
			}
		}
		if r, ok := ren[x.Name]; ok {
			return r
		}
		return x.Name
	case *ast.BasicLit:
		return x.Value
	case *ast.BinaryExpr:
		return "(" + x.Op.String() + " " + sexp(x.X, sub, ren, bare, depth) + " " + sexp(x.Y, sub, ren, bare, depth) + ")"
	case *ast.UnaryExpr:
		return "(" + x.Op.String() + " " + sexp(x.X, sub, ren, bare, depth) + ")"
	case *ast.SelectorExpr:
		if bare[x.Sel.Name] {
			return x.Sel.Name
		}
		return sexp(x.X, sub, ren, bare, depth) + "." + x.Sel.Name
	case *ast.CallExpr:
		if isConv(x.Fun) && len(x.Args) == 1 {
			return sexp(x.Args[0], sub, ren, bare, depth)
		}
		if s, ok := x.Fun.(*ast.SelectorExpr); ok && s.Sel.Name == "BlockHeight" && len(x.Args) == 0 {
			return "H"
		}
		var as []string
		for _, a := range x.Args {
			as = append(as, sexp(a, sub, ren, bare, depth))
		}
		return "call(" + sexp(x.Fun, sub, ren, bare, depth) + ";" + strings.Join(as, ",") + ")"
	}
	return "?" + Nospace(e)
}

// simpleDefs collects `x := e` (single value) definitions of a function body.
func simpleDefs(body *ast.BlockStmt) map[string]ast.Expr {
	m := map[string]ast.Expr{}
	ast.Inspect(body, func(n ast.Node) bool {
		if a, ok := n.(*ast.AssignStmt); ok && a.Tok == token.DEFINE && len(a.Lhs) == 1 && len(a.Rhs) == 1 {
			if id, ok := a.Lhs[0].(*ast.Ident); ok {
				m[id.Name] = a.Rhs[0]
			}
		}
		return true
	})
	return m
}

func conjuncts(e ast.Expr, op token.Token) []ast.Expr {
	e = strip(e)
	if b, ok := e.(*ast.BinaryExpr); ok && b.Op == op {
		return append(conjuncts(b.X, op), conjuncts(b.Y, op)...)
	}
	return []ast.Expr{e}
}

func callSel(e ast.Expr) (recv ast.Expr, name string, args []ast.Expr, ok bool) {
	c, isCall := strip(e).(*ast.CallExpr)
	if !isCall {
		return nil, "", nil, false
	}
	s, isSel := c.Fun.(*ast.SelectorExpr)
	if !isSel {
		return nil, "", nil, false
	}
	return s.X, s.Sel.Name, c.Args, true
}

func coqList(xs []string) string {
	var q []string
	for _, x := range xs {
		q = append(q, CoqString(x))
	}
	return "[" + strings.Join(q, "; ") + "]"
}

func callSelNode(n ast.Node) (ast.Expr, string, []ast.Expr, bool) {
	e, ok := n.(ast.Expr)
	if !ok {
		return nil, "", nil, false
	}
	return callSel(e)
}

// tallyUpper: form of the upper band test in Tally.
func tallyForm(fd *ast.FuncDecl) (lowerOK bool, upper string, halved bool) {
	upper = "TallyOther"
	ast.Inspect(fd.Body, func(n ast.Node) bool {
		b, ok := n.(*ast.BinaryExpr)
		if !ok || b.Op != token.LAND {
			return true
		}
		for _, c := range conjuncts(b, token.LAND) {
			recv, name, args, ok := callSel(c)
			if !ok || len(args) != 1 {
				continue
			}
			switch name {
			case "GTE": // rate.GTE(median.Sub(spread))
				if _, in, _, ok := callSel(args[0]); ok && in == "Sub" && strings.HasSuffix(Nospace(recv), "ExchangeRate") {
					lowerOK = true
				}
			case "LTE":
				if _, in, _, ok := callSel(args[0]); ok && in == "Add" && strings.HasSuffix(Nospace(recv), "ExchangeRate") {
					upper = "TallyAdd" // rate.LTE(median.Add(spread))
				} else if r2, in2, _, ok := callSel(recv); ok && in2 == "Sub" && strings.HasSuffix(Nospace(r2), "ExchangeRate") {
					upper = "TallyNoAdd" // rate.Sub(spread).LTE(median)
				}
			}
		}
		return true
	})
	halved = strings.Contains(Nospace(fd.Body), "and.QuoInt64(2)")
	return
}


// containsCall reports whether n contains a call of a selector with the given name.
func containsCall(n ast.Node, name string) bool {
	found := false
	ast.Inspect(n, func(x ast.Node) bool {
		if _, nm, _, ok := callSelNode(x); ok && nm == name {
			found = true
		}
		return true
	})
	return found
}

// atom normalises one conjunct of the slash guard; neg = the conjunct is to be read negated.
func atom(e ast.Expr, neg bool) string {
	e = strip(e)
	if u, ok := e.(*ast.UnaryExpr); ok && u.Op == token.NOT {
		return atom(u.X, !neg)
	}
	if b, ok := e.(*ast.BinaryExpr); ok && (b.Op == token.NEQ || b.Op == token.EQL) {
		if id, ok := strip(b.Y).(*ast.Ident); ok && id.Name == "nil" {
			isNonNil := b.Op == token.NEQ
			if neg {
				isNonNil = !isNonNil
			}
			if isNonNil {
				return "nonnil"
			}
			return "nil"
		}
	}
	if _, name, args, ok := callSel(e); ok && len(args) == 0 {
		switch name {
		case "IsBonded":
			if neg {
				return "notbonded"
			}
			return "bonded"
		case "IsJailed":
			if neg {
				return "notjailed"
			}
			return "jailed"
		}
	}
	return "other:" + Nospace(e)
}

// slashGuard: the conditions under which Slash is reached, in the function that calls it.
func slashGuard(fd *ast.FuncDecl) (atoms []string) {
	ast.Inspect(fd.Body, func(n ast.Node) bool {
		i, ok := n.(*ast.IfStmt)
		if !ok || !strings.Contains(Nospace(i.Cond), "IsBonded") {
			return true
		}
		if containsCall(i.Body, "Slash") {
			// positive guard: if a && b && c { … Slash … }
			for _, c := range conjuncts(i.Cond, token.LAND) {
				atoms = append(atoms, atom(c, false))
			}
		} else {
			// negative guard: if x || y || z { return / continue } … Slash …
			for _, c := range conjuncts(i.Cond, token.LOR) {
				atoms = append(atoms, atom(c, true))
			}
		}
		return true
	})
	return
}

func main() {
	repo := Repo()
	Header(repo)
	keeper := noTestUtils(ParseDir(repo + "/x/oracle/keeper"))
	kf := Funcs(keeper)

	// SlashAndResetMissCounters (+ the helper that holds the Slash call, if any)
	var atoms []string
	guardedInHelper := false
	nContinue, contOnlyOnError, deleteTop, castKind := 99, false, false, "CastOther"
	if fd := kf["SlashAndResetMissCounters"]; fd != nil && fd.Body != nil {
		holder := fd
		if !strings.Contains(Nospace(fd.Body), "IsBonded") {
			// follow one helper level
			rn := recvName(fd)
			ast.Inspect(fd.Body, func(n ast.Node) bool {
				recv, name, _, ok := callSelNode(n)
				if !ok {
					return true
				}
				if id, ok := recv.(*ast.Ident); ok && id.Name == rn {
					if h := kf[name]; h != nil && h.Body != nil && strings.Contains(Nospace(h.Body), "IsBonded") {
						holder = h
						guardedInHelper = true
					}
				}
				return true
			})
		}
		atoms = slashGuard(holder)
		// the loop over the miss counters
		var loop *ast.RangeStmt
		ast.Inspect(fd.Body, func(n ast.Node) bool {
			if r, ok := n.(*ast.RangeStmt); ok && loop == nil && strings.Contains(Nospace(r.X), "MissCounters") {
				loop = r
			}
			return true
		})
		if loop != nil {
			// Delete directly in the loop body (possibly as the init of an `if err := …; err != nil`)
			var delPos token.Pos
			for _, s := range loop.Body.List {
				switch x := s.(type) {
				case *ast.IfStmt:
					if x.Init != nil && containsCall(x.Init, "Delete") && strings.Contains(Nospace(x.Init), "MissCounters") {
						deleteTop, delPos = true, x.Pos()
					}
				case *ast.AssignStmt, *ast.ExprStmt:
					if containsCall(x, "Delete") && strings.Contains(Nospace(x), "MissCounters") {
						deleteTop, delPos = true, x.Pos()
					}
				}
			}
			// continue statements before the Delete and the conditions guarding them
			nContinue, contOnlyOnError = 0, true
			var ifs []*ast.IfStmt
			var visit func(n ast.Node)
			visit = func(n ast.Node) {
				ast.Inspect(n, func(x ast.Node) bool {
					if x == nil || x == n {
						return true
					}
					switch y := x.(type) {
					case *ast.FuncLit, *ast.RangeStmt, *ast.ForStmt:
						return false
					case *ast.IfStmt:
						ifs = append(ifs, y)
						visit(y.Body)
						if y.Else != nil {
							visit(y.Else)
						}
						ifs = ifs[:len(ifs)-1]
						return false
					case *ast.BranchStmt:
						if y.Tok == token.CONTINUE && (delPos == 0 || y.Pos() < delPos) {
							nContinue++
							c := ""
							if len(ifs) > 0 {
								c = Nospace(ifs[len(ifs)-1].Cond)
							}
							if !(c == "err!=nil" || c == "!ok") {
								contOnlyOnError = false
							}
						}
					}
					return true
				})
			}
			visit(loop.Body)
		}
		// the cast applied to (periods - misses)
		ast.Inspect(fd.Body, func(n ast.Node) bool {
			c, ok := n.(*ast.CallExpr)
			if !ok || len(c.Args) != 1 {
				return true
			}
			b, ok := strip(c.Args[0]).(*ast.BinaryExpr)
			if !ok || b.Op != token.SUB || !strings.Contains(strings.ToLower(Nospace(b)), "miss") {
				return true
			}
			switch f := Nospace(c.Fun); {
			case f == "int64":
				castKind = "CastInt64"
			case strings.HasSuffix(f, "NewIntFromUint64") || f == "uint64":
				castKind = "CastUint64"
			}
			return true
		})
	}
	has := func(a string) bool {
		for _, x := range atoms {
			if x == a {
				return true
			}
		}
		return false
	}
	nOther := 0
	for _, a := range atoms {
		if a != "nonnil" && a != "bonded" && a != "notjailed" {
			nOther++
		}
	}

	// AllocateRewards: how the per-period amount is computed
	perPeriod := "DivOther"
	if fd := kf["AllocateRewards"]; fd != nil && fd.Body != nil {
		if containsCall(fd.Body, "QuoRaw") && !containsCall(fd.Body, "RoundInt") && !containsCall(fd.Body, "Quo") {
			perPeriod = "DivQuoRaw"
		}
	}
	// rewardWinners: share = NewDec(weight).QuoInt64(total), truncated
	shareNormalised, shareTruncated := false, false
	if fd := kf["rewardWinners"]; fd != nil && fd.Body != nil {
		b := Nospace(fd.Body)
		shareNormalised = strings.Contains(b, ".QuoInt64(totalRewardWeight)") || (containsCall(fd.Body, "QuoInt64") && strings.Contains(b, "RewardWeight"))
		shareTruncated = containsCall(fd.Body, "TruncateDecimal")
	}
	// Tally
	lowerOK, upper, halved := false, "TallyOther", false
	abstain := false
	if fd := kf["Tally"]; fd != nil && fd.Body != nil {
		lowerOK, upper, halved = tallyForm(fd)
		for name, rhs := range simpleDefs(fd.Body) {
			if strings.Contains(strings.ToLower(name), "abstain") {
				if u, ok := strip(rhs).(*ast.UnaryExpr); ok && u.Op == token.NOT {
					if recv, nm, _, ok := callSel(u.X); ok && nm == "IsPositive" && strings.HasSuffix(Nospace(recv), "ExchangeRate") {
						abstain = true
					}
				}
			}
		}
	}

	fmt.Println("Require Import Nib.C10.Cfg Nib.C12.Cfg.")
	fmt.Println("From Coq Require Import String List. Import ListNotations. Open Scope string_scope.")
	fmt.Println("Definition current_cfg12 : code_cfg12 := {|")
	fmt.Printf("  sc_guard_nonnil := %s;\n", CoqBool(has("nonnil")))
	fmt.Printf("  sc_guard_bonded := %s;\n", CoqBool(has("bonded")))
	fmt.Printf("  sc_guard_notjailed := %s;\n", CoqBool(has("notjailed")))
	fmt.Printf("  sc_guard_other := %d;\n", nOther)
	fmt.Printf("  sc_delete_in_loop_body := %s;\n", CoqBool(deleteTop))
	fmt.Printf("  sc_continues_before_delete := %d;\n", nContinue)
	fmt.Printf("  sc_continues_only_on_error := %s;\n", CoqBool(contOnlyOnError))
	fmt.Printf("  sc_periods_minus_misses := %s;\n", castKind)
	fmt.Printf("  sc_per_period := %s;\n", perPeriod)
	fmt.Printf("  sc_share_normalised := %s;\n", CoqBool(shareNormalised))
	fmt.Printf("  sc_share_truncated := %s;\n", CoqBool(shareTruncated))
	fmt.Printf("  sc_tally_lower := %s;\n", CoqBool(lowerOK))
	fmt.Printf("  sc_tally_upper := %s;\n", upper)
	fmt.Printf("  sc_band_halved := %s;\n", CoqBool(halved))
	fmt.Printf("  sc_abstain_not_positive := %s |}.\n", CoqBool(abstain))
	fmt.Println("(* diagnostics (not used by the obligations) *)")
	fmt.Printf("Definition slash_guard_atoms : list string := %s.\n", coqList(atoms))
	fmt.Printf("Definition slash_guard_in_helper : bool := %s.\n", CoqBool(guardedInHelper))
}
