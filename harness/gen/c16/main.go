// Command gen/c16 prints coq/Gen/C16Facts.v from the /repo working tree (terms, never verdicts):
//
//   - gate_sites: every non-test function under x/ that DIRECTLY calls a sudo gate
//     (Keeper.CheckPermissions = "root or listed contract"; senderHasPermission /
//     validateRootPermissions = "root only"), and whether a state write precedes the gate call;
//   - handlers: every Msg handler (method `(ctx, *…MsgX) (*…MsgXResponse, error)`) of every module
//     under x/ with the gate it reaches through calls inside its own package (depth <= 3);
//   - the textual normal forms of the three gate functions themselves.
package main

import (
	"fmt"
	"go/ast"
	"os"
	"path/filepath"
	"sort"
	"strings"

	. "verifharness/genlib"
)

var gateFuncs = map[string]string{
	"CheckPermissions":        "GateSudoers",
	"senderHasPermission":     "GateRoot",
	"validateRootPermissions": "GateRoot",
}

// calls that write state (collections / bank keeper), as selector names
var writeSel = map[string]bool{
	"Set": true, "Insert": true, "Delete": true, "SetDenomMetaData": true, "UpdateParams": true,
	"MintCoins": true, "BurnCoins": true, "SendCoins": true, "SendCoinsFromModuleToAccount": true,
	"SendCoinsFromAccountToModule": true, "SendCoinsFromModuleToModule": true, "SetPrice": true,
}

type fn struct {
	module string
	recv   string
	decl   *ast.FuncDecl
}

type event struct {
	kind string // gate name, "write", or "call:<name>"
	pos  int
}

func events(fd *ast.FuncDecl) []event {
	var evs []event
	if fd.Body == nil {
		return evs
	}
	ast.Inspect(fd.Body, func(n ast.Node) bool {
		call, ok := n.(*ast.CallExpr)
		if !ok {
			return true
		}
		name := ""
		switch f := call.Fun.(type) {
		case *ast.SelectorExpr:
			name = f.Sel.Name
		case *ast.Ident:
			name = f.Name
		}
		if name == "" {
			return true
		}
		if g, ok := gateFuncs[name]; ok {
			evs = append(evs, event{g, int(call.Pos())})
		} else if writeSel[name] {
			evs = append(evs, event{"write", int(call.Pos())})
		} else {
			evs = append(evs, event{"call:" + name, int(call.Pos())})
		}
		return true
	})
	sort.SliceStable(evs, func(i, j int) bool { return evs[i].pos < evs[j].pos })
	return evs
}

func recvName(fd *ast.FuncDecl) string {
	if fd.Recv == nil || len(fd.Recv.List) == 0 {
		return ""
	}
	t := fd.Recv.List[0].Type
	if s, ok := t.(*ast.StarExpr); ok {
		t = s.X
	}
	if id, ok := t.(*ast.Ident); ok {
		return id.Name
	}
	return Nospace(t)
}

// msgType returns X when the expression is *pkg.MsgX or *MsgX.
func msgType(e ast.Expr) string {
	s, ok := e.(*ast.StarExpr)
	if !ok {
		return ""
	}
	switch t := s.X.(type) {
	case *ast.SelectorExpr:
		if strings.HasPrefix(t.Sel.Name, "Msg") {
			return t.Sel.Name
		}
	case *ast.Ident:
		if strings.HasPrefix(t.Name, "Msg") {
			return t.Name
		}
	}
	return ""
}

func isHandler(fd *ast.FuncDecl) bool {
	if fd.Recv == nil || fd.Type.Params == nil || fd.Type.Results == nil || !fd.Name.IsExported() {
		return false
	}
	var ps []ast.Expr
	for _, f := range fd.Type.Params.List {
		n := len(f.Names)
		if n == 0 {
			n = 1
		}
		for i := 0; i < n; i++ {
			ps = append(ps, f.Type)
		}
	}
	var rs []ast.Expr
	for _, f := range fd.Type.Results.List {
		n := len(f.Names)
		if n == 0 {
			n = 1
		}
		for i := 0; i < n; i++ {
			rs = append(rs, f.Type)
		}
	}
	if len(ps) != 2 || len(rs) != 2 {
		return false
	}
	in, out := msgType(ps[1]), msgType(rs[0])
	return in != "" && out == in+"Response"
}

func main() {
	repo := Repo()
	Header(repo)

	// every package directory under x/ (non-test files)
	var dirs []string
	filepath.Walk(filepath.Join(repo, "x"), func(p string, info os.FileInfo, err error) error {
		if err == nil && info.IsDir() {
			b := filepath.Base(p)
			if b == "testdata" || b == "testutil" || b == "simulation" || b == "cli" || b == "embeds" || b == "node_modules" || strings.HasPrefix(b, ".") {
				return filepath.SkipDir
			}
			dirs = append(dirs, p)
		}
		return nil
	})
	sort.Strings(dirs)

	type site struct{ module, fn, gate string; first bool }
	type hnd struct{ module, name, gate string }
	var sites []site
	var handlers []hnd
	formulas := map[string]bool{}
	nilReturns := -1

	for _, d := range dirs {
		files := ParseDir(d)
		if len(files) == 0 {
			continue
		}
		rel, _ := filepath.Rel(filepath.Join(repo, "x"), d)
		module := strings.Split(rel, string(filepath.Separator))[0]
		byName := map[string][]*ast.FuncDecl{}
		var all []*ast.FuncDecl
		for _, fl := range files {
			for _, dd := range fl.F.Decls {
				if fd, ok := dd.(*ast.FuncDecl); ok && fd.Body != nil {
					byName[fd.Name.Name] = append(byName[fd.Name.Name], fd)
					all = append(all, fd)
				}
			}
		}
		// direct gate sites
		for _, fd := range all {
			if _, isGate := gateFuncs[fd.Name.Name]; isGate {
				continue
			}
			evs := events(fd)
			gate, first, seenWrite := "", true, false
			for _, e := range evs {
				if e.kind == "write" {
					seenWrite = true
				}
				if strings.HasPrefix(e.kind, "Gate") && gate == "" {
					gate = e.kind
					first = !seenWrite
				}
			}
			if gate != "" {
				name := fd.Name.Name
				if r := recvName(fd); r != "" {
					name = r + "." + name
				}
				sites = append(sites, site{module, name, gate, first})
			}
		}
		// handlers with the gate reached inside the package.  reach = "Gate…" (a gate is called
		// before any write), "write" (a state write is reached first), "" (neither)
		var reach func(fd *ast.FuncDecl, depth int, seen map[*ast.FuncDecl]bool) string
		reach = func(fd *ast.FuncDecl, depth int, seen map[*ast.FuncDecl]bool) string {
			if seen[fd] || depth > 3 {
				return ""
			}
			seen[fd] = true
			defer delete(seen, fd)
			for _, e := range events(fd) {
				if e.kind == "write" {
					return "write"
				}
				if strings.HasPrefix(e.kind, "Gate") {
					return e.kind
				}
				// a call resolved by NAME inside the package (no type information): a candidate that
				// writes first makes the call unguarded; otherwise any candidate that gates, gates
				g := ""
				for _, c := range byName[strings.TrimPrefix(e.kind, "call:")] {
					if c == fd {
						continue
					}
					r := reach(c, depth+1, seen)
					if r == "write" {
						return "write"
					}
					if r != "" && g == "" {
						g = r
					}
				}
				if g != "" {
					return g
				}
			}
			return ""
		}
		for _, fd := range all {
			if !isHandler(fd) || recvName(fd) == "UnimplementedMsgServer" {
				continue
			}
			g := reach(fd, 0, map[*ast.FuncDecl]bool{})
			if strings.HasPrefix(g, "Gate") {
				// a handler that switches over alternatives (EditSudoers): every same-package callee
				// that writes must itself be gated
				for _, e := range events(fd) {
					for _, c := range byName[strings.TrimPrefix(e.kind, "call:")] {
						if c != fd && reach(c, 1, map[*ast.FuncDecl]bool{}) == "write" {
							g = "GateNone"
						}
					}
				}
			} else {
				g = "GateNone"
			}
			handlers = append(handlers, hnd{module, recvName(fd) + "." + fd.Name.Name, g})
		}
		// the gate functions themselves
		for _, fd := range all {
			body := Nospace(fd.Body)
			switch fd.Name.Name {
			case "CheckPermissions":
				if recvName(fd) != "Keeper" || module != "sudo" {
					continue
				}
				formulas["check_permissions_formula"] =
					strings.Contains(body, "state,err:=k.Sudoers.Get(ctx)") &&
						strings.Contains(body, "contracts:=state.Contracts") &&
						strings.Contains(body, "hasPermission:=set.New(contracts...).Has(contract.String())||contract.String()==state.Root") &&
						strings.Contains(body, "if!hasPermission{returnfmt.Errorf(")
				nilReturns = 0
				ast.Inspect(fd.Body, func(n ast.Node) bool {
					if r, ok := n.(*ast.ReturnStmt); ok && len(r.Results) == 1 {
						if id, ok := r.Results[0].(*ast.Ident); ok && id.Name == "nil" {
							nilReturns++
						}
					}
					return true
				})
			case "senderHasPermission":
				formulas["sender_has_permission_formula"] = strings.HasPrefix(body, "{ifsender!=root{returnfmt.Errorf(") &&
					strings.HasSuffix(body, "}returnnil}")
			case "validateRootPermissions":
				formulas["validate_root_formula"] =
					strings.Contains(body, "root,err:=sdk.AccAddressFromBech32(pbSudoers.Root)") &&
						strings.Contains(body, "sender,err:=sdk.AccAddressFromBech32(msg.Sender)") &&
						strings.Contains(body, "if!root.Equals(sender){returnsudotypes.ErrUnauthorized}")
			}
		}
	}

	sort.Slice(sites, func(i, j int) bool {
		if sites[i].module != sites[j].module {
			return sites[i].module < sites[j].module
		}
		return sites[i].fn < sites[j].fn
	})
	sort.Slice(handlers, func(i, j int) bool {
		if handlers[i].module != handlers[j].module {
			return handlers[i].module < handlers[j].module
		}
		return handlers[i].name < handlers[j].name
	})

	fmt.Println("Require Import Nib.C16.Sites.")
	fmt.Println("From Coq Require Import String List. Import ListNotations. Open Scope string_scope.")
	fmt.Println("(* functions that directly call a sudo gate: module, function, gate, gate precedes every state write *)")
	fmt.Println("Definition gate_sites : list gate_site := [")
	for i, s := range sites {
		sep := ";"
		if i == len(sites)-1 {
			sep = ""
		}
		fmt.Printf("  {| gs_module := %s; gs_fn := %s; gs_gate := %s; gs_gate_first := %s |}%s\n",
			CoqString(s.module), CoqString(s.fn), s.gate, CoqBool(s.first), sep)
	}
	fmt.Println("].")
	fmt.Println("(* every Msg handler under x/: module, handler, gate reached before any write (inside its package) *)")
	fmt.Println("Definition handlers : list handler := [")
	for i, h := range handlers {
		sep := ";"
		if i == len(handlers)-1 {
			sep = ""
		}
		fmt.Printf("  {| h_module := %s; h_name := %s; h_gate := %s |}%s\n", CoqString(h.module), CoqString(h.name), h.gate, sep)
	}
	fmt.Println("].")
	fmt.Printf("Definition check_permissions_formula : bool := %s.\n", CoqBool(formulas["check_permissions_formula"]))
	fmt.Printf("Definition check_permissions_nil_returns : nat := %d.\n", max(nilReturns, 0))
	fmt.Printf("Definition sender_has_permission_formula : bool := %s.\n", CoqBool(formulas["sender_has_permission_formula"]))
	fmt.Printf("Definition validate_root_formula : bool := %s.\n", CoqBool(formulas["validate_root_formula"]))
}
