// Command gen/c16 prints coq/Gen/C16Facts.v from the /repo working tree (terms, never verdicts):
//
//   - gate_sites: every non-test function under x/ that DIRECTLY calls a sudo gate
//     (Keeper.CheckPermissions = "root or listed contract"; senderHasPermission /
//     validateRootPermissions = "root only"), and whether a state write precedes the gate call;
//   - handlers: every Msg handler (method `(ctx, *…MsgX) (*…MsgXResponse, error)`) of every module
//     under x/ with the gate it reaches through calls inside its own package (depth <= 3);
//   - the textual normal forms of the three gate functions themselves;
//   - wasm_routes: every control-flow path of app/wasmext from SDKMessageHandler.DispatchMsg (the
//     wasmkeeper.Messenger entry point) to the Msg-service router lookup, with the switch / type-switch
//     branches it takes and whether the signer guard ("every signer of the dispatched message is the
//     dispatching contract") lies on it — for leaf and WRAPPER messages (MsgExec, …) alike.
package main

import (
	"fmt"
	"go/ast"
	"go/token"
	"os"
	"path/filepath"
	"sort"
	"strings"

	. "verifharness/genlib"
)

// gateFuncs: function name -> gate kind, for the package being read.  The exported API of the sudo
// keeper (CheckPermissions, called from other modules) is known by name; the package-local gates are
// recognised by the NORMAL FORM OF THEIR BODY (see gateForms), whatever they are called, whether they
// are methods or free functions and whichever file they live in.
var gateFuncs = map[string]string{"CheckPermissions": "GateSudoers"}

// the condition under which a gate function returns nil, parameters written $0, $1, … and the
// receiver $r.  (After canonEq: a comparison of two PARSED addresses is written addr(X)==addr(Y), a
// comparison of the two strings X==Y, operands in lexical order.)
var gateForms = map[string]string{
	"$0==$1":                         "GateRoot", // (sender, root string) compared as STRINGS
	"addr($0)==addr($1)":             "GateRoot", // (sender, root string) parsed, then compared
	"addr($0.Root)==addr($1.Sender)": "GateRoot", // (sudoers, msg)
	"member($r.Sudoers.Get($1).Contracts,$0.String())||$0.String()==$r.Sudoers.Get($1).Root": "GateSudoers",
}

// closeParen returns the index of the parenthesis closing the one opened just before s[i].
func closeParen(s string, i int) int {
	d := 1
	for ; i < len(s); i++ {
		switch s[i] {
		case '(':
			d++
		case ')':
			d--
			if d == 0 {
				return i
			}
		}
	}
	return -1
}

// canonEq writes A.Equals(B) with both sides sdk.AccAddressFromBech32(..) as addr(X)==addr(Y) and puts the
// operands of a top-level == in lexical order, so that the text says WHAT is compared (strings or parsed
// addresses) and nothing about the order it is written in.
func canonEq(c string) string {
	const pre = "sdk.AccAddressFromBech32("
	if strings.HasPrefix(c, pre) && !strings.Contains(c, "||") && !strings.Contains(c, "&&") {
		i := closeParen(c, len(pre))
		if i > 0 && strings.HasPrefix(c[i:], ").Equals("+pre) && strings.HasSuffix(c, "))") {
			a, b := c[len(pre):i], c[i+len(").Equals("+pre):len(c)-2]
			if balanced(a) && balanced(b) {
				c = "addr(" + a + ")==addr(" + b + ")"
			}
		}
	}
	if !strings.Contains(c, "||") && !strings.Contains(c, "&&") && strings.Count(c, "==") == 1 {
		i := strings.Index(c, "==")
		a, b := c[:i], c[i+2:]
		if b < a {
			c = b + "==" + a
		}
	}
	return c
}

// canonMember writes the two spellings of "y is an element of the list X" the same way:
// set.New(X...).Has(y) and slices.Contains(X, y) both become member(X,y).  (A binary search or any
// other lookup stays what it is.)
func canonMember(c string) string {
	for {
		i := strings.Index(c, "set.New(")
		if i < 0 {
			break
		}
		j := closeParen(c, i+len("set.New("))
		if j < 0 || !strings.HasSuffix(c[:j], "...") || !strings.HasPrefix(c[j:], ").Has(") {
			break
		}
		k := closeParen(c, j+len(").Has("))
		if k < 0 {
			break
		}
		c = c[:i] + "member(" + c[i+len("set.New("):j-3] + "," + c[j+len(").Has("):k] + ")" + c[k+1:]
	}
	for {
		i := strings.Index(c, "slices.Contains(")
		if i < 0 {
			break
		}
		a := i + len("slices.Contains(")
		k := closeParen(c, a)
		if k < 0 {
			break
		}
		d, comma := 0, -1
		for x := a; x < k; x++ {
			switch c[x] {
			case '(':
				d++
			case ')':
				d--
			case ',':
				if d == 0 && comma < 0 {
					comma = x
				}
			}
		}
		if comma < 0 {
			break
		}
		c = c[:i] + "member(" + c[a:comma] + "," + c[comma+1:k] + ")" + c[k+1:]
	}
	return c
}

// calls that write state (collections / bank keeper), as selector names
var writeSel = map[string]bool{
	"Set": true, "Insert": true, "Delete": true, "SetDenomMetaData": true, "UpdateParams": true,
	"MintCoins": true, "BurnCoins": true, "SendCoins": true, "SendCoinsFromModuleToAccount": true,
	"SendCoinsFromAccountToModule": true, "SendCoinsFromModuleToModule": true, "SetPrice": true,
}

type fn struct {
	module string
	recv   string
	decl   *ast.FuncDecl
}

type event struct {
	kind string // gate name, "write", or "call:<name>"
	pos  int
}

func events(fd *ast.FuncDecl) []event {
	var evs []event
	if fd.Body == nil {
		return evs
	}
	ast.Inspect(fd.Body, func(n ast.Node) bool {
		call, ok := n.(*ast.CallExpr)
		if !ok {
			return true
		}
		name := ""
		switch f := call.Fun.(type) {
		case *ast.SelectorExpr:
			name = f.Sel.Name
		case *ast.Ident:
			name = f.Name
		}
		if name == "" {
			return true
		}
		if g, ok := gateFuncs[name]; ok {
			evs = append(evs, event{g, int(call.Pos())})
		} else if writeSel[name] {
			evs = append(evs, event{"write", int(call.Pos())})
		} else {
			evs = append(evs, event{"call:" + name, int(call.Pos())})
		}
		return true
	})
	sort.SliceStable(evs, func(i, j int) bool { return evs[i].pos < evs[j].pos })
	return evs
}

func recvName(fd *ast.FuncDecl) string {
	if fd.Recv == nil || len(fd.Recv.List) == 0 {
		return ""
	}
	t := fd.Recv.List[0].Type
	if s, ok := t.(*ast.StarExpr); ok {
		t = s.X
	}
	if id, ok := t.(*ast.Ident); ok {
		return id.Name
	}
	return Nospace(t)
}

// msgType returns X when the expression is *pkg.MsgX or *MsgX.
func msgType(e ast.Expr) string {
	s, ok := e.(*ast.StarExpr)
	if !ok {
		return ""
	}
	switch t := s.X.(type) {
	case *ast.SelectorExpr:
		if strings.HasPrefix(t.Sel.Name, "Msg") {
			return t.Sel.Name
		}
	case *ast.Ident:
		if strings.HasPrefix(t.Name, "Msg") {
			return t.Name
		}
	}
	return ""
}

func isHandler(fd *ast.FuncDecl) bool {
	if fd.Recv == nil || fd.Type.Params == nil || fd.Type.Results == nil || !fd.Name.IsExported() {
		return false
	}
	var ps []ast.Expr
	for _, f := range fd.Type.Params.List {
		n := len(f.Names)
		if n == 0 {
			n = 1
		}
		for i := 0; i < n; i++ {
			ps = append(ps, f.Type)
		}
	}
	var rs []ast.Expr
	for _, f := range fd.Type.Results.List {
		n := len(f.Names)
		if n == 0 {
			n = 1
		}
		for i := 0; i < n; i++ {
			rs = append(rs, f.Type)
		}
	}
	if len(ps) != 2 || len(rs) != 2 {
		return false
	}
	in, out := msgType(ps[1]), msgType(rs[0])
	return in != "" && out == in+"Response"
}

func main() {
	repo := Repo()
	Header(repo)

	// every package directory under x/ (non-test files)
	var dirs []string
	filepath.Walk(filepath.Join(repo, "x"), func(p string, info os.FileInfo, err error) error {
		if err == nil && info.IsDir() {
			b := filepath.Base(p)
			if b == "testdata" || b == "testutil" || b == "simulation" || b == "cli" || b == "embeds" || b == "node_modules" || strings.HasPrefix(b, ".") {
				return filepath.SkipDir
			}
			dirs = append(dirs, p)
		}
		return nil
	})
	sort.Strings(dirs)

	type site struct {
		module, fn, gate string
		first            bool
	}
	type hnd struct{ module, name, gate string }
	var sites []site
	var handlers []hnd
	var gateFns []string

	for _, d := range dirs {
		files := ParseDir(d)
		if len(files) == 0 {
			continue
		}
		rel, _ := filepath.Rel(filepath.Join(repo, "x"), d)
		module := strings.Split(rel, string(filepath.Separator))[0]
		byName := map[string][]*ast.FuncDecl{}
		var all []*ast.FuncDecl
		for _, fl := range files {
			for _, dd := range fl.F.Decls {
				if fd, ok := dd.(*ast.FuncDecl); ok && fd.Body != nil {
					byName[fd.Name.Name] = append(byName[fd.Name.Name], fd)
					all = append(all, fd)
				}
			}
		}
		// the gates of this package, recognised by body (sudo keeper package only: the root tests
		// live there and nowhere else)
		for k := range gateFuncs {
			if k != "CheckPermissions" {
				delete(gateFuncs, k)
			}
		}
		if module == "sudo" && filepath.Base(d) == "keeper" {
			for _, fd := range all {
				if fd.Type.Results == nil || len(fd.Type.Results.List) != 1 || Nospace(fd.Type.Results.List[0].Type) != "error" {
					continue
				}
				form := canonEq(canonMember(acceptCondition(fd)))
				kind, ok := gateForms[form]
				if !ok {
					continue
				}
				if fd.Name.Name == "CheckPermissions" || len(byName[fd.Name.Name]) == 1 {
					if fd.Name.Name != "CheckPermissions" {
						gateFuncs[fd.Name.Name] = kind
					}
					gateFns = append(gateFns, kind+":"+form)
				}
			}
		}
		// gate sites: functions that call a gate directly, or through an unexported helper of the
		// package that only checks (no state write anywhere in it) — so extracting the check into
		// a helper (requireRoot, requireSudoer, …) keeps the site where it was
		hasWrite := func(fd *ast.FuncDecl) bool {
			for _, e := range events(fd) {
				if e.kind == "write" {
					return true
				}
			}
			return false
		}
		helperGate := map[string]string{}
		for _, fd := range all {
			if _, isGate := gateFuncs[fd.Name.Name]; isGate || fd.Name.IsExported() || isHandler(fd) || hasWrite(fd) {
				continue
			}
			for _, e := range events(fd) {
				if strings.HasPrefix(e.kind, "Gate") && len(byName[fd.Name.Name]) == 1 {
					helperGate[fd.Name.Name] = e.kind
					break
				}
			}
		}
		for _, fd := range all {
			if _, isGate := gateFuncs[fd.Name.Name]; isGate {
				continue
			}
			if _, isHelper := helperGate[fd.Name.Name]; isHelper {
				continue
			}
			evs := events(fd)
			gate, first, seenWrite := "", true, false
			for _, e := range evs {
				if e.kind == "write" {
					seenWrite = true
				}
				k := e.kind
				if strings.HasPrefix(k, "call:") {
					if hg, ok := helperGate[strings.TrimPrefix(k, "call:")]; ok {
						k = hg
					}
				}
				if strings.HasPrefix(k, "Gate") && gate == "" {
					gate = k
					first = !seenWrite
				}
			}
			if gate != "" {
				name := fd.Name.Name
				if r := recvName(fd); r != "" {
					name = r + "." + name
				}
				sites = append(sites, site{module, name, gate, first})
			}
		}
		// handlers with the gate reached inside the package.  reach = "Gate…" (a gate is called
		// before any write), "write" (a state write is reached first), "" (neither)
		var reach func(fd *ast.FuncDecl, depth int, seen map[*ast.FuncDecl]bool) string
		reach = func(fd *ast.FuncDecl, depth int, seen map[*ast.FuncDecl]bool) string {
			if seen[fd] || depth > 3 {
				return ""
			}
			seen[fd] = true
			defer delete(seen, fd)
			for _, e := range events(fd) {
				if e.kind == "write" {
					return "write"
				}
				if strings.HasPrefix(e.kind, "Gate") {
					return e.kind
				}
				// a call resolved by NAME inside the package (no type information): a candidate that
				// writes first makes the call unguarded; otherwise any candidate that gates, gates
				g := ""
				for _, c := range byName[strings.TrimPrefix(e.kind, "call:")] {
					if c == fd {
						continue
					}
					r := reach(c, depth+1, seen)
					if r == "write" {
						return "write"
					}
					if r != "" && g == "" {
						g = r
					}
				}
				if g != "" {
					return g
				}
			}
			return ""
		}
		for _, fd := range all {
			if !isHandler(fd) || recvName(fd) == "UnimplementedMsgServer" {
				continue
			}
			g := reach(fd, 0, map[*ast.FuncDecl]bool{})
			if strings.HasPrefix(g, "Gate") {
				// a handler that switches over alternatives (EditSudoers): every same-package callee
				// that writes must itself be gated
				for _, e := range events(fd) {
					for _, c := range byName[strings.TrimPrefix(e.kind, "call:")] {
						if c != fd && reach(c, 1, map[*ast.FuncDecl]bool{}) == "write" {
							g = "GateNone"
						}
					}
				}
			} else {
				g = "GateNone"
			}
			handlers = append(handlers, hnd{module, recvName(fd) + "." + fd.Name.Name, g})
		}
	}

	sort.Slice(sites, func(i, j int) bool {
		if sites[i].module != sites[j].module {
			return sites[i].module < sites[j].module
		}
		return sites[i].fn < sites[j].fn
	})
	sort.Slice(handlers, func(i, j int) bool {
		if handlers[i].module != handlers[j].module {
			return handlers[i].module < handlers[j].module
		}
		return handlers[i].name < handlers[j].name
	})

	fmt.Println("Require Import Nib.C16.Sites.")
	fmt.Println("From Coq Require Import String List. Import ListNotations. Open Scope string_scope.")
	fmt.Println("(* functions that directly call a sudo gate: module, function, gate, gate precedes every state write *)")
	fmt.Println("Definition gate_sites : list gate_site := [")
	for i, s := range sites {
		sep := ";"
		if i == len(sites)-1 {
			sep = ""
		}
		fmt.Printf("  {| gs_module := %s; gs_fn := %s; gs_gate := %s; gs_gate_first := %s |}%s\n",
			CoqString(s.module), CoqString(s.fn), s.gate, CoqBool(s.first), sep)
	}
	fmt.Println("].")
	fmt.Println("(* every Msg handler under x/: module, handler, gate reached before any write (inside its package) *)")
	fmt.Println("Definition handlers : list handler := [")
	for i, h := range handlers {
		sep := ";"
		if i == len(handlers)-1 {
			sep = ""
		}
		fmt.Printf("  {| h_module := %s; h_name := %s; h_gate := %s |}%s\n", CoqString(h.module), CoqString(h.name), h.gate, sep)
	}
	fmt.Println("].")
	fmt.Println("(* the gate functions found in x/sudo/keeper, BY BODY: kind and the condition under which they return nil *)")
	fmt.Println("(* (parameters $0 $1 .., receiver $r, locals inlined, early-return shape normalised; names, receivers and files are irrelevant) *)")
	sort.Strings(gateFns)
	var q []string
	for i, g := range gateFns {
		if i == 0 || gateFns[i-1] != g {
			q = append(q, CoqString(g))
		}
	}
	fmt.Printf("Definition gate_functions : list string := [%s].\n", strings.Join(q, "; "))

	fmt.Println("(* x/sudo/keeper: what is written into the stored sudoers from a message: the new root, the strings added to / *)")
	fmt.Println("(* removed from the contracts set; canonical = the String() of the parsed address (locals inlined, range variable = elem(list)) *)")
	fmt.Println("Definition sudoers_writes : list sudoers_write := [")
	sws := sudoersWrites(repo)
	for i, s := range sws {
		sep := ";"
		if i == len(sws)-1 {
			sep = ""
		}
		fmt.Printf("  {| sw_fn := %s; sw_what := %s; sw_expr := %s; sw_canonical := %s |}%s\n",
			CoqString(s.fn), CoqString(s.what), CoqString(s.expr), CoqBool(s.canonical), sep)
	}
	fmt.Println("].")
	fmt.Println("(* app/wasmext: every path from the contract-message entry point (DispatchMsg) to the Msg router lookup: *)")
	fmt.Println("(* switch branches taken, and whether the signer-vs-dispatching-contract guard lies on the path *)")
	fmt.Println("Definition wasm_routes : list route_path := [")
	rps := wasmRoutes(repo)
	for i, r := range rps {
		sep := ";"
		if i == len(rps)-1 {
			sep = ""
		}
		fmt.Printf("  {| rp_branch := %s; rp_signer_guard := %s |}%s\n", CoqString(r.branch), CoqBool(r.guarded), sep)
	}
	fmt.Println("].")
}

// ---------------------------------------------------------------- strings written into the sudoers

type sudoersWrite struct {
	fn, what, expr string
	canonical      bool
}

func isCanonicalAddrString(e string) bool {
	const pre = "sdk.AccAddressFromBech32("
	if !strings.HasPrefix(e, pre) || !strings.HasSuffix(e, ").String()") {
		return false
	}
	return closeParen(e, len(pre)) == len(e)-len(").String()")
}

// sudoersWrites reads every function of x/sudo/keeper in statement order with its locals inlined and
// reports the assignments to a .Root field and the arguments of .Contracts.Add / .Contracts.Remove.
func sudoersWrites(repo string) []sudoersWrite {
	var out []sudoersWrite
	for _, fl := range ParseDir(filepath.Join(repo, "x", "sudo", "keeper")) {
		for _, dd := range fl.F.Decls {
			fd, ok := dd.(*ast.FuncDecl)
			if !ok || fd.Body == nil {
				continue
			}
			env := map[string]string{}
			if fd.Recv != nil && len(fd.Recv.List) == 1 && len(fd.Recv.List[0].Names) == 1 {
				env[fd.Recv.List[0].Names[0].Name] = "$r"
			}
			pi := 0
			for _, f := range fd.Type.Params.List {
				for _, nm := range f.Names {
					env[nm.Name] = fmt.Sprintf("$%d", pi)
					pi++
				}
				if len(f.Names) == 0 {
					pi++
				}
			}
			name := fd.Name.Name
			if r := recvName(fd); r != "" {
				name = r + "." + name
			}
			record := func(what string, e ast.Expr) {
				txt := render(e, env)
				out = append(out, sudoersWrite{name, what, txt, isCanonicalAddrString(txt)})
			}
			scanCalls := func(n ast.Node) {
				ast.Inspect(n, func(x ast.Node) bool {
					if _, ok := x.(*ast.BlockStmt); ok {
						return false
					}
					c, ok := x.(*ast.CallExpr)
					if !ok || len(c.Args) != 1 {
						return true
					}
					sel, ok := c.Fun.(*ast.SelectorExpr)
					if !ok || (sel.Sel.Name != "Add" && sel.Sel.Name != "Remove") {
						return true
					}
					if on, ok := sel.X.(*ast.SelectorExpr); ok && on.Sel.Name == "Contracts" {
						record(strings.ToLower(sel.Sel.Name), c.Args[0])
					}
					return true
				})
			}
			var walk func(list []ast.Stmt)
			walk = func(list []ast.Stmt) {
				for _, st := range list {
					switch x := st.(type) {
					case *ast.AssignStmt:
						scanCalls(x)
						for i, l := range x.Lhs {
							if sel, ok := l.(*ast.SelectorExpr); ok && sel.Sel.Name == "Root" && i < len(x.Rhs) {
								record("root", x.Rhs[i])
							}
						}
						if id, ok := x.Lhs[0].(*ast.Ident); ok && id.Name != "_" && len(x.Rhs) >= 1 {
							env[id.Name] = render(x.Rhs[0], env)
						}
					case *ast.RangeStmt:
						if v, ok := x.Value.(*ast.Ident); ok && v.Name != "_" {
							env[v.Name] = "elem(" + render(x.X, env) + ")"
						}
						walk(x.Body.List)
					case *ast.IfStmt:
						if x.Init != nil {
							walk([]ast.Stmt{x.Init})
						}
						walk(x.Body.List)
						if x.Else != nil {
							walk([]ast.Stmt{x.Else})
						}
					case *ast.ForStmt:
						walk(x.Body.List)
					case *ast.BlockStmt:
						walk(x.List)
					case *ast.SwitchStmt:
						walk(x.Body.List)
					case *ast.TypeSwitchStmt:
						walk(x.Body.List)
					case *ast.CaseClause:
						walk(x.Body)
					default:
						scanCalls(st)
					}
				}
			}
			walk(fd.Body.List)
		}
	}
	sort.SliceStable(out, func(i, j int) bool {
		if out[i].what != out[j].what {
			return out[i].what < out[j].what
		}
		return out[i].fn < out[j].fn
	})
	return out
}

// ---------------------------------------------------------------- paths of the wasm message handler

type routePath struct {
	branch  string
	guarded bool
}

type pstate struct {
	guarded bool
	branch  string
}

type frame struct {
	params     map[string]bool         // all parameters (the dispatched message is one of them)
	addrParams map[string]bool         // parameters of an address type (the dispatching contract)
	signerVars map[string]bool         // locals assigned from an expression mentioning GetSigners()
	closures   map[string]*ast.FuncLit // locals bound to a function literal
}

type walker struct {
	byName map[string][]*ast.FuncDecl
	stack  map[*ast.FuncDecl]bool
	paths  map[routePath]bool
}

func dedup(in []pstate) []pstate {
	seen := map[pstate]bool{}
	var out []pstate
	for _, s := range in {
		if !seen[s] {
			seen[s] = true
			out = append(out, s)
		}
	}
	return out
}

func callName(c *ast.CallExpr) string {
	switch f := c.Fun.(type) {
	case *ast.SelectorExpr:
		return f.Sel.Name
	case *ast.Ident:
		return f.Name
	}
	return ""
}

// mentions reports whether pred holds for some identifier / call under n, looking through locals bound
// to function literals.
func (fr *frame) mentions(n ast.Node, pred func(ast.Node) bool, depth int) bool {
	if n == nil || depth > 3 {
		return false
	}
	found := false
	ast.Inspect(n, func(x ast.Node) bool {
		if found || x == nil {
			return false
		}
		if pred(x) {
			found = true
			return false
		}
		if id, ok := x.(*ast.Ident); ok {
			if fl, ok := fr.closures[id.Name]; ok && fr.mentions(fl.Body, pred, depth+1) {
				found = true
				return false
			}
		}
		return true
	})
	return found
}

func (fr *frame) mentionsSigners(n ast.Node) bool {
	return fr.mentions(n, func(x ast.Node) bool {
		switch y := x.(type) {
		case *ast.CallExpr:
			// the signers of a message the function was GIVEN (not of something derived from it)
			if sel, ok := y.Fun.(*ast.SelectorExpr); ok && sel.Sel.Name == "GetSigners" {
				id, ok := sel.X.(*ast.Ident)
				return ok && fr.params[id.Name]
			}
		case *ast.Ident:
			return fr.signerVars[y.Name]
		}
		return false
	}, 0)
}

func (fr *frame) mentionsContract(n ast.Node) bool {
	return fr.mentions(n, func(x ast.Node) bool {
		id, ok := x.(*ast.Ident)
		return ok && fr.addrParams[id.Name]
	}, 0)
}

// errorReturn: the last result is neither nil nor a plain call that may return nil.
func errorReturn(r *ast.ReturnStmt) bool {
	if len(r.Results) == 0 {
		return false
	}
	switch x := r.Results[len(r.Results)-1].(type) {
	case *ast.Ident:
		return x.Name != "nil"
	case *ast.CallExpr:
		n := callName(x)
		return strings.Contains(n, "Wrap") || strings.Contains(n, "Errorf") || n == "New"
	}
	return false
}

func containsErrorReturn(n ast.Node) bool {
	found := false
	ast.Inspect(n, func(x ast.Node) bool {
		if _, ok := x.(*ast.FuncLit); ok {
			return false
		}
		if r, ok := x.(*ast.ReturnStmt); ok && errorReturn(r) {
			found = true
		}
		return !found
	})
	return found
}

// isGuard: a statement whose HEADER (if condition / range expression) reads the signers of the message
// the function was given, and that returns an error depending on the address of the dispatching
// contract.  (A guard nested in some other loop or condition is not one: the walker then sees an
// ordinary statement whose body may be skipped.)
func (fr *frame) isGuard(header ast.Node, body *ast.BlockStmt) bool {
	if header == nil || body == nil || !containsErrorReturn(body) {
		return false
	}
	return fr.mentionsSigners(header) && (fr.mentionsContract(header) || fr.mentionsContract(body))
}

func setGuarded(in []pstate) []pstate {
	var out []pstate
	for _, s := range in {
		s.guarded = true
		out = append(out, s)
	}
	return dedup(out)
}

func withBranch(in []pstate, label string) []pstate {
	var out []pstate
	for _, s := range in {
		if s.branch != "" {
			s.branch += " / "
		}
		s.branch += label
		out = append(out, s)
	}
	return out
}

// exprs scans the calls under n in source order: a router lookup records the current states as
// paths; a call of a function of the package is inlined.
func (w *walker) exprs(fr *frame, n ast.Node, cur []pstate, depth int) []pstate {
	if n == nil || len(cur) == 0 {
		return cur
	}
	var calls []*ast.CallExpr
	ast.Inspect(n, func(x ast.Node) bool {
		if _, ok := x.(*ast.FuncLit); ok {
			return false
		}
		if c, ok := x.(*ast.CallExpr); ok {
			calls = append(calls, c)
		}
		return true
	})
	sort.SliceStable(calls, func(i, j int) bool { return calls[i].End() < calls[j].End() }) // arguments first
	for _, c := range calls {
		name := callName(c)
		if name == "Handler" && len(c.Args) == 1 {
			for _, s := range cur {
				w.paths[routePath{s.branch, s.guarded}] = true
			}
			continue
		}
		cands := w.byName[name]
		if len(cands) != 1 || w.stack[cands[0]] || depth >= 4 {
			continue
		}
		fd := cands[0]
		w.stack[fd] = true
		var rets []pstate
		out := w.stmts(newFrame(fd), fd.Body.List, cur, &rets, depth+1)
		delete(w.stack, fd)
		cur = dedup(append(out, rets...))
	}
	return cur
}

func newFrame(fd *ast.FuncDecl) *frame {
	fr := &frame{params: map[string]bool{}, addrParams: map[string]bool{}, signerVars: map[string]bool{}, closures: map[string]*ast.FuncLit{}}
	if fd.Type.Params != nil {
		for _, f := range fd.Type.Params.List {
			for _, nm := range f.Names {
				fr.params[nm.Name] = true
				if strings.Contains(Nospace(f.Type), "Address") {
					fr.addrParams[nm.Name] = true
				}
			}
		}
	}
	return fr
}

func caseLabel(cc *ast.CaseClause) string {
	if cc.List == nil {
		return "default"
	}
	var ls []string
	for _, e := range cc.List {
		ls = append(ls, Nospace(e))
	}
	return "case " + strings.Join(ls, ",")
}

// stmts returns the states that fall through the end of list; states that leave through a
// non-error return are appended to rets; states that leave through an error return are dropped.
func (w *walker) stmts(fr *frame, list []ast.Stmt, cur []pstate, rets *[]pstate, depth int) []pstate {
	for _, st := range list {
		if len(cur) == 0 {
			return nil
		}
		switch x := st.(type) {
		case *ast.ReturnStmt:
			cur = w.exprs(fr, x, cur, depth)
			if !errorReturn(x) {
				*rets = append(*rets, cur...)
			}
			return nil
		case *ast.AssignStmt:
			cur = w.exprs(fr, x, cur, depth)
			for i, l := range x.Lhs {
				id, ok := l.(*ast.Ident)
				if !ok {
					continue
				}
				var rhs ast.Expr
				if len(x.Rhs) == len(x.Lhs) {
					rhs = x.Rhs[i]
				} else if len(x.Rhs) == 1 {
					rhs = x.Rhs[0]
				}
				if fl, ok := rhs.(*ast.FuncLit); ok {
					fr.closures[id.Name] = fl
				} else if rhs != nil && fr.mentionsSigners(rhs) {
					fr.signerVars[id.Name] = true
				}
			}
		case *ast.IfStmt:
			if x.Init != nil {
				cur = w.stmts(fr, []ast.Stmt{x.Init}, cur, rets, depth)
			}
			cur = w.exprs(fr, x.Cond, cur, depth)
			if fr.isGuard(x.Cond, x.Body) && x.Else == nil {
				cur = setGuarded(cur)
				continue
			}
			thenOut := w.stmts(fr, x.Body.List, cur, rets, depth)
			elseOut := cur
			if x.Else != nil {
				elseOut = w.stmts(fr, []ast.Stmt{x.Else}, cur, rets, depth)
			}
			cur = dedup(append(append([]pstate{}, thenOut...), elseOut...))
		case *ast.RangeStmt:
			cur = w.exprs(fr, x.X, cur, depth)
			if fr.isGuard(x.X, x.Body) {
				cur = setGuarded(cur)
				continue
			}
			bodyOut := w.stmts(fr, x.Body.List, cur, rets, depth)
			cur = dedup(append(append([]pstate{}, cur...), bodyOut...))
		case *ast.ForStmt:
			if x.Init != nil {
				cur = w.stmts(fr, []ast.Stmt{x.Init}, cur, rets, depth)
			}
			cur = w.exprs(fr, x.Cond, cur, depth)
			if x.Cond != nil && fr.isGuard(x.Cond, x.Body) {
				cur = setGuarded(cur)
				continue
			}
			bodyOut := w.stmts(fr, x.Body.List, cur, rets, depth)
			cur = dedup(append(append([]pstate{}, cur...), bodyOut...))
		case *ast.SwitchStmt:
			if x.Init != nil {
				cur = w.stmts(fr, []ast.Stmt{x.Init}, cur, rets, depth)
			}
			cur = w.exprs(fr, x.Tag, cur, depth)
			cur = w.clauses(fr, x.Body, cur, rets, depth)
		case *ast.TypeSwitchStmt:
			if x.Init != nil {
				cur = w.stmts(fr, []ast.Stmt{x.Init}, cur, rets, depth)
			}
			cur = w.exprs(fr, x.Assign, cur, depth)
			cur = w.clauses(fr, x.Body, cur, rets, depth)
		case *ast.BlockStmt:
			cur = w.stmts(fr, x.List, cur, rets, depth)
		case *ast.LabeledStmt:
			cur = w.stmts(fr, []ast.Stmt{x.Stmt}, cur, rets, depth)
		case *ast.BranchStmt, *ast.EmptyStmt:
		default:
			cur = w.exprs(fr, st, cur, depth)
		}
	}
	return cur
}

func (w *walker) clauses(fr *frame, body *ast.BlockStmt, cur []pstate, rets *[]pstate, depth int) []pstate {
	var out []pstate
	hasDefault := false
	for _, c := range body.List {
		cc, ok := c.(*ast.CaseClause)
		if !ok {
			continue
		}
		if cc.List == nil {
			hasDefault = true
		}
		in := cur
		for _, e := range cc.List {
			in = w.exprs(fr, e, in, depth)
		}
		out = append(out, w.stmts(fr, cc.Body, withBranch(in, caseLabel(cc)), rets, depth)...)
	}
	if !hasDefault {
		out = append(out, withBranch(cur, "no case")...)
	}
	return dedup(out)
}

func wasmRoutes(repo string) []routePath {
	files := ParseDir(filepath.Join(repo, "app", "wasmext"))
	w := &walker{byName: map[string][]*ast.FuncDecl{}, stack: map[*ast.FuncDecl]bool{}, paths: map[routePath]bool{}}
	for _, fl := range files {
		for _, dd := range fl.F.Decls {
			if fd, ok := dd.(*ast.FuncDecl); ok && fd.Body != nil {
				w.byName[fd.Name.Name] = append(w.byName[fd.Name.Name], fd)
			}
		}
	}
	for _, fd := range w.byName["DispatchMsg"] {
		w.stack[fd] = true
		var rets []pstate
		w.stmts(newFrame(fd), fd.Body.List, []pstate{{}}, &rets, 0)
		delete(w.stack, fd)
	}
	var out []routePath
	for p := range w.paths {
		out = append(out, p)
	}
	sort.Slice(out, func(i, j int) bool {
		if out[i].branch != out[j].branch {
			return out[i].branch < out[j].branch
		}
		return !out[i].guarded && out[j].guarded
	})
	return out
}

// ---------------------------------------------------------------- symbolic reading of a gate function

func render(e ast.Expr, env map[string]string) string {
	switch x := e.(type) {
	case nil:
		return ""
	case *ast.Ident:
		if v, ok := env[x.Name]; ok {
			return v
		}
		return x.Name
	case *ast.SelectorExpr:
		return render(x.X, env) + "." + x.Sel.Name
	case *ast.CallExpr:
		var as []string
		for i, a := range x.Args {
			t := render(a, env)
			if x.Ellipsis != token.NoPos && i == len(x.Args)-1 {
				t += "..."
			}
			as = append(as, t)
		}
		return render(x.Fun, env) + "(" + strings.Join(as, ",") + ")"
	case *ast.BinaryExpr:
		return render(x.X, env) + x.Op.String() + render(x.Y, env)
	case *ast.UnaryExpr:
		if x.Op == token.NOT {
			return negate(render(x.X, env))
		}
		return x.Op.String() + render(x.X, env)
	case *ast.ParenExpr:
		return "(" + render(x.X, env) + ")"
	case *ast.BasicLit:
		return x.Value
	}
	return Nospace(e)
}

func balanced(t string) bool {
	d := 0
	for _, r := range t {
		if r == '(' {
			d++
		} else if r == ')' {
			d--
			if d < 0 {
				return false
			}
		}
	}
	return d == 0
}

func strip(c string) string {
	for strings.HasPrefix(c, "(") && strings.HasSuffix(c, ")") && balanced(c[1:len(c)-1]) {
		c = c[1 : len(c)-1]
	}
	return c
}

func negate(c string) string {
	c = strip(c)
	if strings.HasPrefix(c, "!(") && strings.HasSuffix(c, ")") && balanced(c[2:len(c)-1]) {
		return c[2 : len(c)-1]
	}
	if !strings.Contains(c, "&&") && !strings.Contains(c, "||") {
		if i := strings.Index(c, "=="); i >= 0 {
			return c[:i] + "!=" + c[i+2:]
		}
		if i := strings.Index(c, "!="); i >= 0 {
			return c[:i] + "==" + c[i+2:]
		}
	}
	return "!(" + c + ")"
}

// acceptCondition reads a function of the shape
//
//	{ x, err := f(..); if err != nil { return err } }*  { x := e }*  if C { return R1 }  return R2
//
// and returns the condition under which it returns nil: C when R1 is nil and R2 is not, not-C the
// other way round; anything else is reported as "unknown:<n decisions>".
func acceptCondition(fd *ast.FuncDecl) string {
	env := map[string]string{}
	if fd.Recv != nil && len(fd.Recv.List) == 1 && len(fd.Recv.List[0].Names) == 1 {
		env[fd.Recv.List[0].Names[0].Name] = "$r"
	}
	pi := 0
	for _, f := range fd.Type.Params.List {
		for _, nm := range f.Names {
			env[nm.Name] = fmt.Sprintf("$%d", pi)
			pi++
		}
		if len(f.Names) == 0 {
			pi++
		}
	}
	type dec struct {
		cond string
		nil_ bool
	}
	var ds []dec
	isNil := func(r *ast.ReturnStmt) bool {
		if len(r.Results) == 0 {
			return false
		}
		id, ok := r.Results[len(r.Results)-1].(*ast.Ident)
		return ok && id.Name == "nil"
	}
	for _, st := range fd.Body.List {
		switch x := st.(type) {
		case *ast.AssignStmt:
			if len(x.Rhs) == 1 {
				if id, ok := x.Lhs[0].(*ast.Ident); ok && id.Name != "_" {
					env[id.Name] = render(x.Rhs[0], env)
				}
			}
		case *ast.IfStmt:
			if b, ok := x.Cond.(*ast.BinaryExpr); ok && b.Op == token.NEQ {
				if l, ok := b.X.(*ast.Ident); ok && l.Name == "err" {
					continue
				}
			}
			if len(x.Body.List) == 0 {
				ds = append(ds, dec{"?", false})
				continue
			}
			if r, ok := x.Body.List[len(x.Body.List)-1].(*ast.ReturnStmt); ok {
				ds = append(ds, dec{strip(render(x.Cond, env)), isNil(r)})
			} else {
				ds = append(ds, dec{"?", false})
			}
		case *ast.ReturnStmt:
			ds = append(ds, dec{"true", isNil(x)})
		default:
			ds = append(ds, dec{"?", false})
		}
	}
	if len(ds) == 2 && ds[1].cond == "true" && ds[0].cond != "?" && ds[0].nil_ != ds[1].nil_ {
		if ds[0].nil_ {
			return ds[0].cond
		}
		return negate(ds[0].cond)
	}
	return fmt.Sprintf("unknown:%d decisions", len(ds))
}
