// Command gen/c16 prints coq/Gen/C16Facts.v from the /repo working tree (terms, never verdicts):
//
//   - gate_sites: every non-test function under x/ that DIRECTLY calls a sudo gate
//     (Keeper.CheckPermissions = "root or listed contract"; senderHasPermission /
//     validateRootPermissions = "root only"), and whether a state write precedes the gate call;
//   - handlers: every Msg handler (method `(ctx, *…MsgX) (*…MsgXResponse, error)`) of every module
//     under x/ with the gate it reaches through calls inside its own package (depth <= 3);
//   - the textual normal forms of the three gate functions themselves.
package main

import (
	"fmt"
	"go/ast"
	"go/token"
	"os"
	"path/filepath"
	"sort"
	"strings"

	. "verifharness/genlib"
)

// gateFuncs: function name -> gate kind, for the package being read.  The exported API of the sudo
// keeper (CheckPermissions, called from other modules) is known by name; the package-local gates are
// recognised by the NORMAL FORM OF THEIR BODY (see gateForms), whatever they are called, whether they
// are methods or free functions and whichever file they live in.
var gateFuncs = map[string]string{"CheckPermissions": "GateSudoers"}

// the condition under which a gate function returns nil, parameters written $0, $1, … and the
// receiver $r
var gateForms = map[string]string{
	"$0==$1": "GateRoot", // (sender, root string)
	"$1==$0": "GateRoot",
	"sdk.AccAddressFromBech32($0.Root).Equals(sdk.AccAddressFromBech32($1.Sender))": "GateRoot", // (sudoers, msg)
	"sdk.AccAddressFromBech32($1.Sender).Equals(sdk.AccAddressFromBech32($0.Root))": "GateRoot",
	"set.New($r.Sudoers.Get($1).Contracts...).Has($0.String())||$0.String()==$r.Sudoers.Get($1).Root": "GateSudoers",
}

// calls that write state (collections / bank keeper), as selector names
var writeSel = map[string]bool{
	"Set": true, "Insert": true, "Delete": true, "SetDenomMetaData": true, "UpdateParams": true,
	"MintCoins": true, "BurnCoins": true, "SendCoins": true, "SendCoinsFromModuleToAccount": true,
	"SendCoinsFromAccountToModule": true, "SendCoinsFromModuleToModule": true, "SetPrice": true,
}

type fn struct {
	module string
	recv   string
	decl   *ast.FuncDecl
}

type event struct {
	kind string // gate name, "write", or "call:<name>"
	pos  int
}

func events(fd *ast.FuncDecl) []event {
	var evs []event
	if fd.Body == nil {
		return evs
	}
	ast.Inspect(fd.Body, func(n ast.Node) bool {
		call, ok := n.(*ast.CallExpr)
		if !ok {
			return true
		}
		name := ""
		switch f := call.Fun.(type) {
		case *ast.SelectorExpr:
			name = f.Sel.Name
		case *ast.Ident:
			name = f.Name
		}
		if name == "" {
			return true
		}
		if g, ok := gateFuncs[name]; ok {
			evs = append(evs, event{g, int(call.Pos())})
		} else if writeSel[name] {
			evs = append(evs, event{"write", int(call.Pos())})
		} else {
			evs = append(evs, event{"call:" + name, int(call.Pos())})
		}
		return true
	})
	sort.SliceStable(evs, func(i, j int) bool { return evs[i].pos < evs[j].pos })
	return evs
}

func recvName(fd *ast.FuncDecl) string {
	if fd.Recv == nil || len(fd.Recv.List) == 0 {
		return ""
	}
	t := fd.Recv.List[0].Type
	if s, ok := t.(*ast.StarExpr); ok {
		t = s.X
	}
	if id, ok := t.(*ast.Ident); ok {
		return id.Name
	}
	return Nospace(t)
}

// msgType returns X when the expression is *pkg.MsgX or *MsgX.
func msgType(e ast.Expr) string {
	s, ok := e.(*ast.StarExpr)
	if !ok {
		return ""
	}
	switch t := s.X.(type) {
	case *ast.SelectorExpr:
		if strings.HasPrefix(t.Sel.Name, "Msg") {
			return t.Sel.Name
		}
	case *ast.Ident:
		if strings.HasPrefix(t.Name, "Msg") {
			return t.Name
		}
	}
	return ""
}

func isHandler(fd *ast.FuncDecl) bool {
	if fd.Recv == nil || fd.Type.Params == nil || fd.Type.Results == nil || !fd.Name.IsExported() {
		return false
	}
	var ps []ast.Expr
	for _, f := range fd.Type.Params.List {
		n := len(f.Names)
		if n == 0 {
			n = 1
		}
		for i := 0; i < n; i++ {
			ps = append(ps, f.Type)
		}
	}
	var rs []ast.Expr
	for _, f := range fd.Type.Results.List {
		n := len(f.Names)
		if n == 0 {
			n = 1
		}
		for i := 0; i < n; i++ {
			rs = append(rs, f.Type)
		}
	}
	if len(ps) != 2 || len(rs) != 2 {
		return false
	}
	in, out := msgType(ps[1]), msgType(rs[0])
	return in != "" && out == in+"Response"
}

func main() {
	repo := Repo()
	Header(repo)

	// every package directory under x/ (non-test files)
	var dirs []string
	filepath.Walk(filepath.Join(repo, "x"), func(p string, info os.FileInfo, err error) error {
		if err == nil && info.IsDir() {
			b := filepath.Base(p)
			if b == "testdata" || b == "testutil" || b == "simulation" || b == "cli" || b == "embeds" || b == "node_modules" || strings.HasPrefix(b, ".") {
				return filepath.SkipDir
			}
			dirs = append(dirs, p)
		}
		return nil
	})
	sort.Strings(dirs)

	type site struct{ module, fn, gate string; first bool }
	type hnd struct{ module, name, gate string }
	var sites []site
	var handlers []hnd
	var gateFns []string

	for _, d := range dirs {
		files := ParseDir(d)
		if len(files) == 0 {
			continue
		}
		rel, _ := filepath.Rel(filepath.Join(repo, "x"), d)
		module := strings.Split(rel, string(filepath.Separator))[0]
		byName := map[string][]*ast.FuncDecl{}
		var all []*ast.FuncDecl
		for _, fl := range files {
			for _, dd := range fl.F.Decls {
				if fd, ok := dd.(*ast.FuncDecl); ok && fd.Body != nil {
					byName[fd.Name.Name] = append(byName[fd.Name.Name], fd)
					all = append(all, fd)
				}
			}
		}
		// the gates of this package, recognised by body (sudo keeper package only: the root tests
		// live there and nowhere else)
		for k := range gateFuncs {
			if k != "CheckPermissions" {
				delete(gateFuncs, k)
			}
		}
		if module == "sudo" && filepath.Base(d) == "keeper" {
			for _, fd := range all {
				if fd.Type.Results == nil || len(fd.Type.Results.List) != 1 || Nospace(fd.Type.Results.List[0].Type) != "error" {
					continue
				}
				form := acceptCondition(fd)
				kind, ok := gateForms[form]
				if !ok {
					continue
				}
				if fd.Name.Name == "CheckPermissions" || len(byName[fd.Name.Name]) == 1 {
					if fd.Name.Name != "CheckPermissions" {
						gateFuncs[fd.Name.Name] = kind
					}
					gateFns = append(gateFns, kind+":"+form)
				}
			}
		}
		// gate sites: functions that call a gate directly, or through an unexported helper of the
		// package that only checks (no state write anywhere in it) — so extracting the check into
		// a helper (requireRoot, requireSudoer, …) keeps the site where it was
		hasWrite := func(fd *ast.FuncDecl) bool {
			for _, e := range events(fd) {
				if e.kind == "write" {
					return true
				}
			}
			return false
		}
		helperGate := map[string]string{}
		for _, fd := range all {
			if _, isGate := gateFuncs[fd.Name.Name]; isGate || fd.Name.IsExported() || isHandler(fd) || hasWrite(fd) {
				continue
			}
			for _, e := range events(fd) {
				if strings.HasPrefix(e.kind, "Gate") && len(byName[fd.Name.Name]) == 1 {
					helperGate[fd.Name.Name] = e.kind
					break
				}
			}
		}
		for _, fd := range all {
			if _, isGate := gateFuncs[fd.Name.Name]; isGate {
				continue
			}
			if _, isHelper := helperGate[fd.Name.Name]; isHelper {
				continue
			}
			evs := events(fd)
			gate, first, seenWrite := "", true, false
			for _, e := range evs {
				if e.kind == "write" {
					seenWrite = true
				}
				k := e.kind
				if strings.HasPrefix(k, "call:") {
					if hg, ok := helperGate[strings.TrimPrefix(k, "call:")]; ok {
						k = hg
					}
				}
				if strings.HasPrefix(k, "Gate") && gate == "" {
					gate = k
					first = !seenWrite
				}
			}
			if gate != "" {
				name := fd.Name.Name
				if r := recvName(fd); r != "" {
					name = r + "." + name
				}
				sites = append(sites, site{module, name, gate, first})
			}
		}
		// handlers with the gate reached inside the package.  reach = "Gate…" (a gate is called
		// before any write), "write" (a state write is reached first), "" (neither)
		var reach func(fd *ast.FuncDecl, depth int, seen map[*ast.FuncDecl]bool) string
		reach = func(fd *ast.FuncDecl, depth int, seen map[*ast.FuncDecl]bool) string {
			if seen[fd] || depth > 3 {
				return ""
			}
			seen[fd] = true
			defer delete(seen, fd)
			for _, e := range events(fd) {
				if e.kind == "write" {
					return "write"
				}
				if strings.HasPrefix(e.kind, "Gate") {
					return e.kind
				}
				// a call resolved by NAME inside the package (no type information): a candidate that
				// writes first makes the call unguarded; otherwise any candidate that gates, gates
				g := ""
				for _, c := range byName[strings.TrimPrefix(e.kind, "call:")] {
					if c == fd {
						continue
					}
					r := reach(c, depth+1, seen)
					if r == "write" {
						return "write"
					}
					if r != "" && g == "" {
						g = r
					}
				}
				if g != "" {
					return g
				}
			}
			return ""
		}
		for _, fd := range all {
			if !isHandler(fd) || recvName(fd) == "UnimplementedMsgServer" {
				continue
			}
			g := reach(fd, 0, map[*ast.FuncDecl]bool{})
			if strings.HasPrefix(g, "Gate") {
				// a handler that switches over alternatives (EditSudoers): every same-package callee
				// that writes must itself be gated
				for _, e := range events(fd) {
					for _, c := range byName[strings.TrimPrefix(e.kind, "call:")] {
						if c != fd && reach(c, 1, map[*ast.FuncDecl]bool{}) == "write" {
							g = "GateNone"
						}
					}
				}
			} else {
				g = "GateNone"
			}
			handlers = append(handlers, hnd{module, recvName(fd) + "." + fd.Name.Name, g})
		}
	}

	sort.Slice(sites, func(i, j int) bool {
		if sites[i].module != sites[j].module {
			return sites[i].module < sites[j].module
		}
		return sites[i].fn < sites[j].fn
	})
	sort.Slice(handlers, func(i, j int) bool {
		if handlers[i].module != handlers[j].module {
			return handlers[i].module < handlers[j].module
		}
		return handlers[i].name < handlers[j].name
	})

	fmt.Println("Require Import Nib.C16.Sites.")
	fmt.Println("From Coq Require Import String List. Import ListNotations. Open Scope string_scope.")
	fmt.Println("(* functions that directly call a sudo gate: module, function, gate, gate precedes every state write *)")
	fmt.Println("Definition gate_sites : list gate_site := [")
	for i, s := range sites {
		sep := ";"
		if i == len(sites)-1 {
			sep = ""
		}
		fmt.Printf("  {| gs_module := %s; gs_fn := %s; gs_gate := %s; gs_gate_first := %s |}%s\n",
			CoqString(s.module), CoqString(s.fn), s.gate, CoqBool(s.first), sep)
	}
	fmt.Println("].")
	fmt.Println("(* every Msg handler under x/: module, handler, gate reached before any write (inside its package) *)")
	fmt.Println("Definition handlers : list handler := [")
	for i, h := range handlers {
		sep := ";"
		if i == len(handlers)-1 {
			sep = ""
		}
		fmt.Printf("  {| h_module := %s; h_name := %s; h_gate := %s |}%s\n", CoqString(h.module), CoqString(h.name), h.gate, sep)
	}
	fmt.Println("].")
	fmt.Println("(* the gate functions found in x/sudo/keeper, BY BODY: kind and the condition under which they return nil *)")
	fmt.Println("(* (parameters $0 $1 .., receiver $r, locals inlined, early-return shape normalised; names, receivers and files are irrelevant) *)")
	sort.Strings(gateFns)
	var q []string
	for i, g := range gateFns {
		if i == 0 || gateFns[i-1] != g {
			q = append(q, CoqString(g))
		}
	}
	fmt.Printf("Definition gate_functions : list string := [%s].\n", strings.Join(q, "; "))
}

// ---------------------------------------------------------------- symbolic reading of a gate function

func render(e ast.Expr, env map[string]string) string {
	switch x := e.(type) {
	case nil:
		return ""
	case *ast.Ident:
		if v, ok := env[x.Name]; ok {
			return v
		}
		return x.Name
	case *ast.SelectorExpr:
		return render(x.X, env) + "." + x.Sel.Name
	case *ast.CallExpr:
		var as []string
		for i, a := range x.Args {
			t := render(a, env)
			if x.Ellipsis != token.NoPos && i == len(x.Args)-1 {
				t += "..."
			}
			as = append(as, t)
		}
		return render(x.Fun, env) + "(" + strings.Join(as, ",") + ")"
	case *ast.BinaryExpr:
		return render(x.X, env) + x.Op.String() + render(x.Y, env)
	case *ast.UnaryExpr:
		if x.Op == token.NOT {
			return negate(render(x.X, env))
		}
		return x.Op.String() + render(x.X, env)
	case *ast.ParenExpr:
		return "(" + render(x.X, env) + ")"
	case *ast.BasicLit:
		return x.Value
	}
	return Nospace(e)
}

func balanced(t string) bool {
	d := 0
	for _, r := range t {
		if r == '(' {
			d++
		} else if r == ')' {
			d--
			if d < 0 {
				return false
			}
		}
	}
	return d == 0
}

func strip(c string) string {
	for strings.HasPrefix(c, "(") && strings.HasSuffix(c, ")") && balanced(c[1:len(c)-1]) {
		c = c[1 : len(c)-1]
	}
	return c
}

func negate(c string) string {
	c = strip(c)
	if strings.HasPrefix(c, "!(") && strings.HasSuffix(c, ")") && balanced(c[2:len(c)-1]) {
		return c[2 : len(c)-1]
	}
	if !strings.Contains(c, "&&") && !strings.Contains(c, "||") {
		if i := strings.Index(c, "=="); i >= 0 {
			return c[:i] + "!=" + c[i+2:]
		}
		if i := strings.Index(c, "!="); i >= 0 {
			return c[:i] + "==" + c[i+2:]
		}
	}
	return "!(" + c + ")"
}

// acceptCondition reads a function of the shape
//
//	{ x, err := f(..); if err != nil { return err } }*  { x := e }*  if C { return R1 }  return R2
//
// and returns the condition under which it returns nil: C when R1 is nil and R2 is not, not-C the
// other way round; anything else is reported as "unknown:<n decisions>".
func acceptCondition(fd *ast.FuncDecl) string {
	env := map[string]string{}
	if fd.Recv != nil && len(fd.Recv.List) == 1 && len(fd.Recv.List[0].Names) == 1 {
		env[fd.Recv.List[0].Names[0].Name] = "$r"
	}
	pi := 0
	for _, f := range fd.Type.Params.List {
		for _, nm := range f.Names {
			env[nm.Name] = fmt.Sprintf("$%d", pi)
			pi++
		}
		if len(f.Names) == 0 {
			pi++
		}
	}
	type dec struct {
		cond string
		nil_ bool
	}
	var ds []dec
	isNil := func(r *ast.ReturnStmt) bool {
		if len(r.Results) == 0 {
			return false
		}
		id, ok := r.Results[len(r.Results)-1].(*ast.Ident)
		return ok && id.Name == "nil"
	}
	for _, st := range fd.Body.List {
		switch x := st.(type) {
		case *ast.AssignStmt:
			if len(x.Rhs) == 1 {
				if id, ok := x.Lhs[0].(*ast.Ident); ok && id.Name != "_" {
					env[id.Name] = render(x.Rhs[0], env)
				}
			}
		case *ast.IfStmt:
			if b, ok := x.Cond.(*ast.BinaryExpr); ok && b.Op == token.NEQ {
				if l, ok := b.X.(*ast.Ident); ok && l.Name == "err" {
					continue
				}
			}
			if len(x.Body.List) == 0 {
				ds = append(ds, dec{"?", false})
				continue
			}
			if r, ok := x.Body.List[len(x.Body.List)-1].(*ast.ReturnStmt); ok {
				ds = append(ds, dec{strip(render(x.Cond, env)), isNil(r)})
			} else {
				ds = append(ds, dec{"?", false})
			}
		case *ast.ReturnStmt:
			ds = append(ds, dec{"true", isNil(x)})
		default:
			ds = append(ds, dec{"?", false})
		}
	}
	if len(ds) == 2 && ds[1].cond == "true" && ds[0].cond != "?" && ds[0].nil_ != ds[1].nil_ {
		if ds[0].nil_ {
			return ds[0].cond
		}
		return negate(ds[0].cond)
	}
	return fmt.Sprintf("unknown:%d decisions", len(ds))
}
