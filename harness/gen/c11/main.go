// Command gen/c11 prints coq/Gen/C11Facts.v from the /repo working tree (terms, never verdicts):
// the inventory of every place in non-test code under x/ and app/ that WRITES the oracle
// Prevotes / Votes / FeederDelegations collections or the oracle Params item, and of the callers
// of the three functions through which the model's handlers are reached
// (UpdateParams, clearVotesAndPrevotes, UpdateExchangeRates) and of the four message handlers.
// The model in coq/C11 has one handler per entry; an additional writer (a new message, a
// precompile or wasm binding writing votes directly) is an entry the theorems do not cover.
//
// Second part: HOW THE REVEAL HASH PREIMAGE IS BUILT.  hash_preimage = the parts of the byte string
// written into the hash inside types.GetAggregateVoteHash (literals and arguments, each argument with
// the chain of functions applied to it on the way from the function parameter, outermost first);
// vote_hash_calls = every call of GetAggregateVoteHash in non-test code of x/oracle/keeper with, per
// argument, where it comes from (message field / parameter / expression) and the chain of functions
// applied on the way.  On the pinned tree no function is applied to salt and rate string anywhere
// (the model's preimage parameter pi is the identity).
package main

import (
	"fmt"
	"go/ast"
	"go/token"
	"io/fs"
	"path/filepath"
	"regexp"
	"sort"
	"strconv"
	"strings"

	. "verifharness/genlib"
)

type site struct{ store, method, file, fn string }

func main() {
	repo := Repo()
	Header(repo)
	var writers, calls []site
	stores := map[string]bool{"Prevotes": true, "Votes": true, "FeederDelegations": true}
	writes := map[string]bool{"Insert": true, "Delete": true, "Set": true, "Remove": true, "Clear": true}
	callees := map[string]bool{"UpdateParams": true, "clearVotesAndPrevotes": true, "UpdateExchangeRates": true}
	// the message handlers themselves: any direct caller other than the generated gRPC service code would be a
	// path on which msg.Feeder is not the authenticated signer
	handlers := map[string]bool{"AggregateExchangeRatePrevote": true, "AggregateExchangeRateVote": true,
		"DelegateFeedConsent": true, "EditOracleParams": true}
	for _, root := range []string{"x", "app", "eth", "cmd"} {
		_ = filepath.WalkDir(filepath.Join(repo, root), func(p string, d fs.DirEntry, err error) error {
			if err != nil || !d.IsDir() {
				return nil
			}
			rel, _ := filepath.Rel(repo, p)
			inOracle := strings.HasPrefix(rel, "x/oracle")
			for _, fl := range ParseDir(p) {
				frel, _ := filepath.Rel(repo, fl.Path)
				base := filepath.Base(frel)
				if base == "test_utils.go" || strings.Contains(frel, "testutil") || strings.Contains(frel, "/simulation/") ||
					strings.HasSuffix(base, ".pb.go") || strings.HasSuffix(base, ".pb.gw.go") {
					continue // test scaffolding shipped in non-_test files; generated gRPC plumbing
				}
				for _, dcl := range fl.F.Decls {
					fd, ok := dcl.(*ast.FuncDecl)
					if !ok || fd.Body == nil {
						continue
					}
					ast.Inspect(fd.Body, func(n ast.Node) bool {
						call, ok := n.(*ast.CallExpr)
						if !ok {
							return true
						}
						sel, ok := call.Fun.(*ast.SelectorExpr)
						if !ok {
							return true
						}
						recv := Nospace(sel.X)
						oracleRecv := inOracle || strings.Contains(recv, "Oracle") || strings.Contains(recv, "oracle")
						if inner, ok := sel.X.(*ast.SelectorExpr); ok && writes[sel.Sel.Name] {
							switch {
							case stores[inner.Sel.Name] && oracleRecv:
								writers = append(writers, site{inner.Sel.Name, sel.Sel.Name, frel, fd.Name.Name})
							case inner.Sel.Name == "Params" && oracleRecv:
								writers = append(writers, site{"Params", sel.Sel.Name, frel, fd.Name.Name})
							}
						}
						if (callees[sel.Sel.Name] && oracleRecv) || handlers[sel.Sel.Name] {
							calls = append(calls, site{sel.Sel.Name, "call", frel, fd.Name.Name})
						}
						return true
					})
				}
			}
			return nil
		})
	}
	less := func(s []site) func(i, j int) bool {
		return func(i, j int) bool {
			a, b := s[i], s[j]
			if a.store != b.store {
				return a.store < b.store
			}
			if a.method != b.method {
				return a.method < b.method
			}
			if a.fn != b.fn {
				return a.fn < b.fn
			}
			return a.file < b.file
		}
	}
	sort.Slice(writers, less(writers))
	sort.Slice(calls, less(calls))
	fmt.Println("From Coq Require Import String List. Import ListNotations. Open Scope string_scope.")
	fmt.Println("(* every write to an oracle commit-reveal store in non-test code: (store, method, enclosing function, file) *)")
	fmt.Println("Definition store_writers : list (string * string * string * string) := [")
	for i, w := range writers {
		sep := ";"
		if i == len(writers)-1 {
			sep = ""
		}
		fmt.Printf("  (%s, %s, %s, %s)%s\n", CoqString(w.store), CoqString(w.method), CoqString(w.fn), CoqString(w.file), sep)
	}
	fmt.Println("].")
	fmt.Println("(* every call of the functions that lead to those writes: (callee, enclosing function, file) *)")
	fmt.Println("Definition handler_calls : list (string * string * string) := [")
	for i, w := range calls {
		sep := ";"
		if i == len(calls)-1 {
			sep = ""
		}
		fmt.Printf("  (%s, %s, %s)%s\n", CoqString(w.store), CoqString(w.fn), CoqString(w.file), sep)
	}
	fmt.Println("].")
	printPreimage(repo)
	printDupCheck(repo)
}

// ------------------------------------------------------------------ repeated pairs in a vote string

// printDupCheck: how types.NewExchangeRateTuplesFromString detects a pair named twice.  form "seen-set" = in the
// body of its loop a map / set indexed by the tuple's pair is looked up (comma-ok index, .Has, .Contains) AND
// written (index assignment, .Add, .Insert); "none" = no lookup; "other" otherwise.  skips = the conditions of the
// statements of the loop body that can leave the iteration (continue / break / goto) BEFORE the lookup.
func printDupCheck(repo string) {
	form, skips := "other", []string{}
	isPair := func(e ast.Expr) bool { return strings.HasSuffix(strings.ToLower(Nospace(e)), "pair") }
	looks := func(n ast.Node) (found bool) {
		ast.Inspect(n, func(x ast.Node) bool {
			switch y := x.(type) {
			case *ast.AssignStmt:
				if len(y.Lhs) == 2 && len(y.Rhs) == 1 {
					if ix, ok := y.Rhs[0].(*ast.IndexExpr); ok && isPair(ix.Index) {
						found = true
					}
				}
			case *ast.CallExpr:
				if sel, ok := y.Fun.(*ast.SelectorExpr); ok && len(y.Args) == 1 && isPair(y.Args[0]) && (sel.Sel.Name == "Has" || sel.Sel.Name == "Contains") {
					found = true
				}
			}
			return true
		})
		return
	}
	records := func(n ast.Node) (found bool) {
		ast.Inspect(n, func(x ast.Node) bool {
			switch y := x.(type) {
			case *ast.AssignStmt:
				if len(y.Lhs) == 1 && y.Tok == token.ASSIGN {
					if ix, ok := y.Lhs[0].(*ast.IndexExpr); ok && isPair(ix.Index) {
						found = true
					}
				}
			case *ast.CallExpr:
				if sel, ok := y.Fun.(*ast.SelectorExpr); ok && len(y.Args) == 1 && isPair(y.Args[0]) && (sel.Sel.Name == "Add" || sel.Sel.Name == "Insert") {
					found = true
				}
			}
			return true
		})
		return
	}
	leaves := func(n ast.Node) (found bool) {
		ast.Inspect(n, func(x ast.Node) bool {
			if _, ok := x.(*ast.FuncLit); ok {
				return false
			}
			if _, ok := x.(*ast.BranchStmt); ok {
				found = true
			}
			return true
		})
		return
	}
	for _, fl := range ParseDir(filepath.Join(repo, "x/oracle/types")) {
		for _, dcl := range fl.F.Decls {
			fd, ok := dcl.(*ast.FuncDecl)
			if !ok || fd.Body == nil || fd.Name.Name != "NewExchangeRateTuplesFromString" {
				continue
			}
			form = "none"
			ast.Inspect(fd.Body, func(n ast.Node) bool {
				var body *ast.BlockStmt
				switch l := n.(type) {
				case *ast.RangeStmt:
					body = l.Body
				case *ast.ForStmt:
					body = l.Body
				}
				if body == nil {
					return true
				}
				at := -1
				for i, st := range body.List {
					if looks(st) {
						at = i
						break
					}
				}
				if at < 0 {
					return true
				}
				form = "other"
				if records(body) {
					form = "seen-set"
				}
				for _, st := range body.List[:at] {
					if leaves(st) {
						c := Nospace(st)
						if ifs, ok := st.(*ast.IfStmt); ok {
							c = Nospace(ifs.Cond)
						}
						skips = append(skips, c)
					}
				}
				return false
			})
		}
	}
	fmt.Println("(* types.NewExchangeRateTuplesFromString: (form of the repeated-pair test, conditions under which an iteration leaves before it) *)")
	fmt.Printf("Definition rates_dup_check : string * list string := (%s, %s).\n", CoqString(form), coqStrings(skips))
}

// ------------------------------------------------------------------ hash preimage

type asg struct {
	pos token.Pos
	rhs ast.Expr
	idx int  // position among the left-hand sides
	one bool // len(Rhs) == len(Lhs): rhs is THE value; otherwise value number idx of a multi-value call
}

// resolver follows local definitions inside one function (straight-line approximation: the last
// assignment textually before the use).
type resolver struct {
	params  map[string]int
	assigns map[string][]asg
}

func newResolver(fd *ast.FuncDecl) *resolver {
	r := &resolver{params: map[string]int{}, assigns: map[string][]asg{}}
	n := 0
	if fd.Type.Params != nil {
		for _, f := range fd.Type.Params.List {
			if len(f.Names) == 0 {
				n++
			}
			for _, nm := range f.Names {
				r.params[nm.Name] = n
				n++
			}
		}
	}
	add := func(lhs []ast.Expr, rhs []ast.Expr, pos token.Pos) {
		for i, l := range lhs {
			id, ok := l.(*ast.Ident)
			if !ok || id.Name == "_" {
				continue
			}
			switch {
			case len(rhs) == len(lhs):
				r.assigns[id.Name] = append(r.assigns[id.Name], asg{pos, rhs[i], i, true})
			case len(rhs) == 1:
				r.assigns[id.Name] = append(r.assigns[id.Name], asg{pos, rhs[0], i, false})
			}
		}
	}
	ast.Inspect(fd.Body, func(nd ast.Node) bool {
		switch x := nd.(type) {
		case *ast.AssignStmt:
			add(x.Lhs, x.Rhs, x.End()) // the right-hand side is evaluated before the assignment takes effect
		case *ast.ValueSpec:
			var lhs []ast.Expr
			for _, nm := range x.Names {
				lhs = append(lhs, nm)
			}
			if len(x.Values) > 0 {
				add(lhs, x.Values, x.End())
			}
		}
		return true
	})
	return r
}

func (r *resolver) def(name string, pos token.Pos) (asg, bool) {
	var best asg
	found := false
	for _, a := range r.assigns[name] {
		if a.pos <= pos && (!found || a.pos > best.pos) {
			best, found = a, true
		}
	}
	return best, found
}

// chain: where a value comes from and the functions applied on the way (outermost first)
type chain struct {
	src string
	tr  []string
}

func (r *resolver) resolve(e ast.Expr, pos token.Pos, depth int) chain {
	if depth > 24 {
		return chain{src: "expr:" + Nospace(e)}
	}
	switch x := e.(type) {
	case *ast.ParenExpr:
		return r.resolve(x.X, pos, depth+1)
	case *ast.BasicLit:
		return chain{src: "lit:" + x.Value}
	case *ast.Ident:
		if a, ok := r.def(x.Name, pos); ok {
			if !a.one && a.idx > 0 {
				return chain{src: "expr:" + Nospace(a.rhs) + "#" + strconv.Itoa(a.idx)}
			}
			return r.resolve(a.rhs, a.rhs.Pos(), depth+1)
		}
		if i, ok := r.params[x.Name]; ok {
			return chain{src: "param:" + strconv.Itoa(i)}
		}
		return chain{src: "ident:" + x.Name}
	case *ast.SelectorExpr:
		return chain{src: "field:" + x.Sel.Name}
	case *ast.CallExpr:
		if len(x.Args) == 1 && x.Ellipsis == token.NoPos {
			c := r.resolve(x.Args[0], pos, depth+1)
			return chain{c.src, append([]string{Nospace(x.Fun)}, c.tr...)}
		}
		if sel, ok := x.Fun.(*ast.SelectorExpr); ok && len(x.Args) == 0 {
			c := r.resolve(sel.X, pos, depth+1)
			return chain{c.src, append([]string{"." + sel.Sel.Name}, c.tr...)}
		}
	}
	return chain{src: "expr:" + Nospace(e)}
}

type part struct {
	lit bool
	txt string // literal text, or the source of the argument
	tr  []string
}

var verbRe = regexp.MustCompile(`%[^a-zA-Z%]*[a-zA-Z%]`)

// parts flattens a string-building expression (fmt.Sprintf, +, strings.Join of a literal slice) into
// literals and arguments.
func (r *resolver) parts(e ast.Expr, pos token.Pos, depth int) []part {
	arg := func(e ast.Expr) []part {
		c := r.resolve(e, pos, depth+1)
		if strings.HasPrefix(c.src, "lit:") && len(c.tr) == 0 {
			if s, err := strconv.Unquote(strings.TrimPrefix(c.src, "lit:")); err == nil {
				return []part{{lit: true, txt: s}}
			}
		}
		return []part{{txt: c.src, tr: c.tr}}
	}
	if depth > 24 {
		return arg(e)
	}
	switch x := e.(type) {
	case *ast.ParenExpr:
		return r.parts(x.X, pos, depth+1)
	case *ast.Ident:
		if a, ok := r.def(x.Name, pos); ok && (a.one || a.idx == 0) {
			return r.parts(a.rhs, a.rhs.Pos(), depth+1)
		}
	case *ast.BinaryExpr:
		if x.Op == token.ADD {
			return append(r.parts(x.X, pos, depth+1), r.parts(x.Y, pos, depth+1)...)
		}
	case *ast.CallExpr:
		fn := Nospace(x.Fun)
		if fn == "fmt.Sprintf" && len(x.Args) >= 1 {
			if bl, ok := x.Args[0].(*ast.BasicLit); ok {
				if format, err := strconv.Unquote(bl.Value); err == nil {
					var out []part
					rest, k := format, 1
					for {
						loc := verbRe.FindStringIndex(rest)
						if loc == nil {
							break
						}
						if loc[0] > 0 {
							out = append(out, part{lit: true, txt: rest[:loc[0]]})
						}
						verb := rest[loc[0]:loc[1]]
						rest = rest[loc[1]:]
						if verb == "%%" {
							out = append(out, part{lit: true, txt: "%"})
							continue
						}
						if k >= len(x.Args) {
							out = append(out, part{txt: "expr:missing-argument", tr: []string{"fmt:" + verb}})
							continue
						}
						p := r.parts(x.Args[k], pos, depth+1)
						if verb != "%s" && verb != "%v" {
							for i := range p {
								if !p[i].lit {
									p[i].tr = append([]string{"fmt:" + verb}, p[i].tr...)
								}
							}
						}
						out = append(out, p...)
						k++
					}
					if rest != "" {
						out = append(out, part{lit: true, txt: rest})
					}
					return out
				}
			}
		}
		if fn == "strings.Join" && len(x.Args) == 2 {
			if cl, ok := x.Args[0].(*ast.CompositeLit); ok {
				sep := r.parts(x.Args[1], pos, depth+1)
				var out []part
				for i, el := range cl.Elts {
					if i > 0 {
						out = append(out, sep...)
					}
					out = append(out, r.parts(el, pos, depth+1)...)
				}
				return out
			}
		}
	}
	return arg(e)
}

func mergeLits(ps []part) []part {
	var out []part
	for _, p := range ps {
		if p.lit && p.txt == "" {
			continue
		}
		if p.lit && len(out) > 0 && out[len(out)-1].lit {
			out[len(out)-1].txt += p.txt
			continue
		}
		out = append(out, p)
	}
	return out
}

func coqStrings(l []string) string {
	q := make([]string, len(l))
	for i, s := range l {
		q[i] = CoqString(s)
	}
	return "[" + strings.Join(q, "; ") + "]"
}

func skipFile(frel string) bool {
	base := filepath.Base(frel)
	return base == "test_utils.go" || strings.Contains(frel, "testutil") || strings.Contains(frel, "/simulation/") ||
		strings.HasSuffix(base, ".pb.go") || strings.HasSuffix(base, ".pb.gw.go")
}

func printPreimage(repo string) {
	// (1) inside the helper: what is written into the hash
	var pre []part
	var sink []string
	ctor := ""
	sinks := map[string]bool{"Write": true, "WriteString": true, "Sum": true, "Sum256": true, "SumTruncated": true}
	for _, fl := range ParseDir(filepath.Join(repo, "x/oracle/types")) {
		for _, dcl := range fl.F.Decls {
			fd, ok := dcl.(*ast.FuncDecl)
			if !ok || fd.Body == nil || fd.Recv != nil || fd.Name.Name != "GetAggregateVoteHash" {
				continue
			}
			r := newResolver(fd)
			var first *ast.CallExpr
			ast.Inspect(fd.Body, func(n ast.Node) bool {
				c, ok := n.(*ast.CallExpr)
				if !ok || first != nil {
					return first == nil
				}
				if sel, ok := c.Fun.(*ast.SelectorExpr); ok && sinks[sel.Sel.Name] && len(c.Args) == 1 {
					if id, isID := c.Args[0].(*ast.Ident); !(isID && id.Name == "nil") {
						first = c
						ctor = Nospace(c.Fun)
						if x, ok := sel.X.(*ast.Ident); ok {
							if a, ok := r.def(x.Name, c.Pos()); ok {
								ctor = Nospace(a.rhs)
							}
						}
					}
				}
				return true
			})
			if first == nil {
				continue
			}
			// peel conversions between the string and the sink
			var e ast.Expr = first.Args[0]
			pos := first.Pos()
			for {
				if p, ok := e.(*ast.ParenExpr); ok {
					e = p.X
					continue
				}
				if id, ok := e.(*ast.Ident); ok {
					if a, ok := r.def(id.Name, pos); ok && (a.one || a.idx == 0) {
						e, pos = a.rhs, a.rhs.Pos()
						continue
					}
				}
				if c, ok := e.(*ast.CallExpr); ok && len(c.Args) == 1 {
					fn := Nospace(c.Fun)
					if fn == "[]byte" || fn == "string" {
						sink = append(sink, fn)
						e = c.Args[0]
						continue
					}
				}
				break
			}
			pre = mergeLits(r.parts(e, pos, 0))
		}
	}
	fmt.Println("(* types.GetAggregateVoteHash: the byte string written into the hash, as (kind, text, functions applied")
	fmt.Println("   outermost first); kind \"lit\" = literal text, \"arg\" = a value: param:<i> = parameter number i of the helper *)")
	fmt.Println("Definition hash_preimage : list (string * string * list string) := [")
	for i, p := range pre {
		sep := ";"
		if i == len(pre)-1 {
			sep = ""
		}
		kind := "arg"
		if p.lit {
			kind = "lit"
		}
		fmt.Printf("  (%s, %s, %s)%s\n", CoqString(kind), CoqString(p.txt), coqStrings(p.tr), sep)
	}
	fmt.Println("].")
	fmt.Printf("(* conversions between that string and the hash, and what the hash object is *)\nDefinition hash_sink : list string := %s.\nDefinition hash_object : string := %s.\n", coqStrings(sink), CoqString(ctor))

	// (2) the on-chain callers of the helper
	type hcall struct {
		file, fn string
		args     []chain
	}
	var calls []hcall
	for _, fl := range ParseDir(filepath.Join(repo, "x/oracle/keeper")) {
		frel, _ := filepath.Rel(repo, fl.Path)
		if skipFile(frel) {
			continue
		}
		for _, dcl := range fl.F.Decls {
			fd, ok := dcl.(*ast.FuncDecl)
			if !ok || fd.Body == nil {
				continue
			}
			var r *resolver
			ast.Inspect(fd.Body, func(n ast.Node) bool {
				c, ok := n.(*ast.CallExpr)
				if !ok {
					return true
				}
				name := ""
				switch f := c.Fun.(type) {
				case *ast.SelectorExpr:
					name = f.Sel.Name
				case *ast.Ident:
					name = f.Name
				}
				if name != "GetAggregateVoteHash" {
					return true
				}
				if r == nil {
					r = newResolver(fd)
				}
				hc := hcall{file: frel, fn: fd.Name.Name}
				for _, a := range c.Args {
					hc.args = append(hc.args, r.resolve(a, c.Pos(), 0))
				}
				calls = append(calls, hc)
				return true
			})
		}
	}
	sort.SliceStable(calls, func(i, j int) bool {
		if calls[i].file != calls[j].file {
			return calls[i].file < calls[j].file
		}
		return calls[i].fn < calls[j].fn
	})
	fmt.Println("(* every call of GetAggregateVoteHash in non-test code of x/oracle/keeper: (file, enclosing function,")
	fmt.Println("   per argument (where it comes from, functions applied outermost first)); field:<F> = field F of a message / struct *)")
	fmt.Println("Definition vote_hash_calls : list (string * string * list (string * list string)) := [")
	for i, c := range calls {
		sep := ";"
		if i == len(calls)-1 {
			sep = ""
		}
		var as []string
		for _, a := range c.args {
			as = append(as, fmt.Sprintf("(%s, %s)", CoqString(a.src), coqStrings(a.tr)))
		}
		fmt.Printf("  (%s, %s, [%s])%s\n", CoqString(c.file), CoqString(c.fn), strings.Join(as, "; "), sep)
	}
	fmt.Println("].")
}
