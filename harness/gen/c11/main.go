// Command gen/c11 prints coq/Gen/C11Facts.v from the /repo working tree (terms, never verdicts):
// the inventory of every place in non-test code under x/ and app/ that WRITES the oracle
// Prevotes / Votes / FeederDelegations collections or the oracle Params item, and of the callers
// of the three functions through which the model's handlers are reached
// (UpdateParams, clearVotesAndPrevotes, UpdateExchangeRates) and of the four message handlers.
// The model in coq/C11 has one handler per entry; an additional writer (a new message, a
// precompile or wasm binding writing votes directly) is an entry the theorems do not cover.
package main

import (
	"fmt"
	"go/ast"
	"io/fs"
	"path/filepath"
	"sort"
	"strings"

	. "verifharness/genlib"
)

type site struct{ store, method, file, fn string }

func main() {
	repo := Repo()
	Header(repo)
	var writers, calls []site
	stores := map[string]bool{"Prevotes": true, "Votes": true, "FeederDelegations": true}
	writes := map[string]bool{"Insert": true, "Delete": true, "Set": true, "Remove": true, "Clear": true}
	callees := map[string]bool{"UpdateParams": true, "clearVotesAndPrevotes": true, "UpdateExchangeRates": true}
	// the message handlers themselves: any direct caller other than the generated gRPC service code would be a
	// path on which msg.Feeder is not the authenticated signer
	handlers := map[string]bool{"AggregateExchangeRatePrevote": true, "AggregateExchangeRateVote": true,
		"DelegateFeedConsent": true, "EditOracleParams": true}
	for _, root := range []string{"x", "app", "eth", "cmd"} {
		_ = filepath.WalkDir(filepath.Join(repo, root), func(p string, d fs.DirEntry, err error) error {
			if err != nil || !d.IsDir() {
				return nil
			}
			rel, _ := filepath.Rel(repo, p)
			inOracle := strings.HasPrefix(rel, "x/oracle")
			for _, fl := range ParseDir(p) {
				frel, _ := filepath.Rel(repo, fl.Path)
				base := filepath.Base(frel)
				if base == "test_utils.go" || strings.Contains(frel, "testutil") || strings.Contains(frel, "/simulation/") ||
					strings.HasSuffix(base, ".pb.go") || strings.HasSuffix(base, ".pb.gw.go") {
					continue // test scaffolding shipped in non-_test files; generated gRPC plumbing
				}
				for _, dcl := range fl.F.Decls {
					fd, ok := dcl.(*ast.FuncDecl)
					if !ok || fd.Body == nil {
						continue
					}
					ast.Inspect(fd.Body, func(n ast.Node) bool {
						call, ok := n.(*ast.CallExpr)
						if !ok {
							return true
						}
						sel, ok := call.Fun.(*ast.SelectorExpr)
						if !ok {
							return true
						}
						recv := Nospace(sel.X)
						oracleRecv := inOracle || strings.Contains(recv, "Oracle") || strings.Contains(recv, "oracle")
						if inner, ok := sel.X.(*ast.SelectorExpr); ok && writes[sel.Sel.Name] {
							switch {
							case stores[inner.Sel.Name] && oracleRecv:
								writers = append(writers, site{inner.Sel.Name, sel.Sel.Name, frel, fd.Name.Name})
							case inner.Sel.Name == "Params" && oracleRecv:
								writers = append(writers, site{"Params", sel.Sel.Name, frel, fd.Name.Name})
							}
						}
						if (callees[sel.Sel.Name] && oracleRecv) || handlers[sel.Sel.Name] {
							calls = append(calls, site{sel.Sel.Name, "call", frel, fd.Name.Name})
						}
						return true
					})
				}
			}
			return nil
		})
	}
	less := func(s []site) func(i, j int) bool {
		return func(i, j int) bool {
			a, b := s[i], s[j]
			if a.store != b.store {
				return a.store < b.store
			}
			if a.method != b.method {
				return a.method < b.method
			}
			if a.fn != b.fn {
				return a.fn < b.fn
			}
			return a.file < b.file
		}
	}
	sort.Slice(writers, less(writers))
	sort.Slice(calls, less(calls))
	fmt.Println("From Coq Require Import String List. Import ListNotations. Open Scope string_scope.")
	fmt.Println("(* every write to an oracle commit-reveal store in non-test code: (store, method, enclosing function, file) *)")
	fmt.Println("Definition store_writers : list (string * string * string * string) := [")
	for i, w := range writers {
		sep := ";"
		if i == len(writers)-1 {
			sep = ""
		}
		fmt.Printf("  (%s, %s, %s, %s)%s\n", CoqString(w.store), CoqString(w.method), CoqString(w.fn), CoqString(w.file), sep)
	}
	fmt.Println("].")
	fmt.Println("(* every call of the functions that lead to those writes: (callee, enclosing function, file) *)")
	fmt.Println("Definition handler_calls : list (string * string * string) := [")
	for i, w := range calls {
		sep := ";"
		if i == len(calls)-1 {
			sep = ""
		}
		fmt.Printf("  (%s, %s, %s)%s\n", CoqString(w.store), CoqString(w.fn), CoqString(w.file), sep)
	}
	fmt.Println("].")
}
