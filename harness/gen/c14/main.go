// Command gen/c14 prints coq/Gen/C14Facts.v from the /repo working tree (terms, never verdicts):
// which EpochHooks the application registers on the epochs keeper, in slice order
// (app/keepers.go: app.EpochsKeeper.SetHooks(epochstypes.NewMultiEpochHooks(...))).
package main

import (
	"fmt"
	"go/ast"
	"strings"

	. "verifharness/genlib"
)

func main() {
	repo := Repo()
	Header(repo)
	files := ParseDir(repo + "/app")
	var hooks []string
	calls := 0
	for _, fl := range files {
		ast.Inspect(fl.F, func(n ast.Node) bool {
			call, ok := n.(*ast.CallExpr)
			if !ok {
				return true
			}
			sel, ok := call.Fun.(*ast.SelectorExpr)
			if !ok || sel.Sel.Name != "SetHooks" || !strings.HasSuffix(Nospace(sel.X), "EpochsKeeper") {
				return true
			}
			calls++
			for _, a := range call.Args {
				inner, ok := a.(*ast.CallExpr)
				if ok && strings.HasSuffix(Nospace(inner.Fun), "NewMultiEpochHooks") {
					for _, h := range inner.Args {
						hooks = append(hooks, hookName(Nospace(h)))
					}
				} else {
					hooks = append(hooks, hookName(Nospace(a)))
				}
			}
			return true
		})
	}
	fmt.Println("From Coq Require Import String List. Import ListNotations. Open Scope string_scope.")
	fmt.Printf("Definition epochs_set_hooks_calls : nat := %d.\n", calls)
	fmt.Print("Definition epoch_hooks_registered : list string := [")
	for i, h := range hooks {
		if i > 0 {
			fmt.Print("; ")
		}
		fmt.Print(CoqString(h))
	}
	fmt.Println("].")
	genPanicPath(repo)
	genKeys(repo)
}

// genKeys: under which key expression AddEpochInfo checks existence and inserts, and under which BeginBlocker writes
// back — relative to the info variable ("<info>.Identifier" = the info's own identifier field).
func genKeys(repo string) {
	norm := func(e ast.Expr, info string) string {
		s := Nospace(e)
		if info != "" && s == info {
			return "<info>"
		}
		if info != "" && strings.HasPrefix(s, info+".") {
			return "<info>." + strings.TrimPrefix(s, info+".")
		}
		return s
	}
	addExists, addInsert, bbInsert := "?", "?", "?"
	for _, fl := range ParseDir(repo + "/x/epochs/keeper") {
		for _, d := range fl.F.Decls {
			fd, ok := d.(*ast.FuncDecl)
			if !ok || fd.Body == nil || fd.Name.Name != "AddEpochInfo" {
				continue
			}
			info := ""
			ps := fd.Type.Params.List
			if len(ps) > 0 && len(ps[len(ps)-1].Names) > 0 {
				info = ps[len(ps)-1].Names[0].Name
			}
			ast.Inspect(fd.Body, func(n ast.Node) bool {
				if c, ok := n.(*ast.CallExpr); ok {
					f := Nospace(c.Fun)
					if strings.HasSuffix(f, ".EpochExists") && len(c.Args) == 2 {
						addExists = norm(c.Args[1], info)
					}
					if strings.HasSuffix(f, ".Epochs.Insert") && len(c.Args) == 3 {
						addInsert = norm(c.Args[1], info) + " := " + norm(c.Args[2], info)
					}
				}
				return true
			})
		}
	}
	for _, fl := range ParseDir(repo + "/x/epochs") {
		for _, d := range fl.F.Decls {
			fd, ok := d.(*ast.FuncDecl)
			if !ok || fd.Body == nil || fd.Name.Name != "BeginBlocker" {
				continue
			}
			ast.Inspect(fd.Body, func(n ast.Node) bool {
				if c, ok := n.(*ast.CallExpr); ok && strings.HasSuffix(Nospace(c.Fun), ".Epochs.Insert") && len(c.Args) == 3 {
					val := Nospace(c.Args[2])
					bbInsert = norm(c.Args[1], val) + " := " + norm(c.Args[2], val)
				}
				return true
			})
		}
	}
	fmt.Printf("Definition add_exists_key : string := %s.\n", CoqString(addExists))
	fmt.Printf("Definition add_insert : string := %s.\n", CoqString(addInsert))
	fmt.Printf("Definition beginblock_insert : string := %s.\n", CoqString(bbInsert))
}

// genPanicPath: (a) every function of the non-test x/epochs code that calls the builtin recover (a hook panic must
// leave BeginBlocker, so that the block is not committed); (b) the shape of the two MultiEpochHooks fan-out loops.
func genPanicPath(repo string) {
	var recs []string
	for _, dir := range []string{"/x/epochs", "/x/epochs/keeper", "/x/epochs/types"} {
		for _, fl := range ParseDir(repo + dir) {
			for _, d := range fl.F.Decls {
				fd, ok := d.(*ast.FuncDecl)
				if !ok || fd.Body == nil {
					continue
				}
				found := false
				ast.Inspect(fd.Body, func(n ast.Node) bool {
					if c, ok := n.(*ast.CallExpr); ok {
						if id, ok := c.Fun.(*ast.Ident); ok && id.Name == "recover" {
							found = true
						}
					}
					return true
				})
				if found {
					recs = append(recs, strings.TrimPrefix(dir, "/")+"."+fd.Name.Name)
				}
			}
		}
	}
	fmt.Print("Definition epochs_recover_sites : list string := [")
	for i, r := range recs {
		if i > 0 {
			fmt.Print("; ")
		}
		fmt.Print(CoqString(r))
	}
	fmt.Println("].")
	// the keeper wrappers: statements of AfterEpochEnd / BeforeEpochStart in x/epochs/keeper (one call, no defer)
	for _, fl := range ParseDir(repo + "/x/epochs/keeper") {
		for _, d := range fl.F.Decls {
			fd, ok := d.(*ast.FuncDecl)
			if !ok || fd.Body == nil || fd.Recv == nil || (fd.Name.Name != "AfterEpochEnd" && fd.Name.Name != "BeforeEpochStart") {
				continue
			}
			defers := 0
			ast.Inspect(fd.Body, func(n ast.Node) bool {
				if _, ok := n.(*ast.DeferStmt); ok {
					defers++
				}
				return true
			})
			fmt.Printf("Definition keeper_%s_defers : nat := %d.\n", fd.Name.Name, defers)
		}
	}
	// MultiEpochHooks.<M>: a single `for … range <receiver>` whose body is the single call <elem>.<M>(ctx, id, n)
	fmt.Println("Record loop_shape := { l_ranges_over_receiver : bool; l_stmts_in_func : nat; l_stmts_in_body : nat; l_calls_same_method_on_element : bool; l_args_are_the_params_in_order : bool }.")
	for _, fl := range ParseDir(repo + "/x/epochs/types") {
		for _, d := range fl.F.Decls {
			fd, ok := d.(*ast.FuncDecl)
			if !ok || fd.Body == nil || fd.Recv == nil || len(fd.Recv.List) != 1 || (fd.Name.Name != "AfterEpochEnd" && fd.Name.Name != "BeforeEpochStart") {
				continue
			}
			if !strings.HasSuffix(Nospace(fd.Recv.List[0].Type), "MultiEpochHooks") {
				continue
			}
			recv := ""
			if len(fd.Recv.List[0].Names) == 1 {
				recv = fd.Recv.List[0].Names[0].Name
			}
			var params []string
			for _, f := range fd.Type.Params.List {
				for _, n := range f.Names {
					params = append(params, n.Name)
				}
			}
			over, same, args := false, false, false
			nbody := 0
			if len(fd.Body.List) == 1 {
				if rs, ok := fd.Body.List[0].(*ast.RangeStmt); ok {
					over = Nospace(rs.X) == recv
					nbody = len(rs.Body.List)
					if nbody == 1 {
						if es, ok := rs.Body.List[0].(*ast.ExprStmt); ok {
							if call, ok := es.X.(*ast.CallExpr); ok {
								if sel, ok := call.Fun.(*ast.SelectorExpr); ok && sel.Sel.Name == fd.Name.Name {
									el := Nospace(sel.X)
									key, val := "", ""
									if rs.Key != nil {
										key = Nospace(rs.Key)
									}
									if rs.Value != nil {
										val = Nospace(rs.Value)
									}
									same = (key != "" && key != "_" && el == recv+"["+key+"]") || (val != "" && el == val)
								}
								if len(call.Args) == len(params) {
									args = true
									for i, a := range call.Args {
										args = args && Nospace(a) == params[i]
									}
								}
							}
						}
					}
				}
			}
			fmt.Printf("Definition multi_%s_loop : loop_shape := {| l_ranges_over_receiver := %s; l_stmts_in_func := %d; l_stmts_in_body := %d; l_calls_same_method_on_element := %s; l_args_are_the_params_in_order := %s |}.\n",
				fd.Name.Name, CoqBool(over), len(fd.Body.List), nbody, CoqBool(same), CoqBool(args))
		}
	}
}

// hookName normalises "app.InflationKeeper.Hooks()" to "InflationKeeper" (receiver names may change).
func hookName(src string) string {
	s := strings.TrimSuffix(src, ".Hooks()")
	if i := strings.LastIndex(s, "."); i >= 0 {
		s = s[i+1:]
	}
	return s
}
