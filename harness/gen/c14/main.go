// Command gen/c14 prints coq/Gen/C14Facts.v from the /repo working tree (terms, never verdicts):
// which EpochHooks the application registers on the epochs keeper, in slice order
// (app/keepers.go: app.EpochsKeeper.SetHooks(epochstypes.NewMultiEpochHooks(...))).
package main

import (
	"fmt"
	"go/ast"
	"strings"

	. "verifharness/genlib"
)

func main() {
	repo := Repo()
	Header(repo)
	files := ParseDir(repo + "/app")
	var hooks []string
	calls := 0
	for _, fl := range files {
		ast.Inspect(fl.F, func(n ast.Node) bool {
			call, ok := n.(*ast.CallExpr)
			if !ok {
				return true
			}
			sel, ok := call.Fun.(*ast.SelectorExpr)
			if !ok || sel.Sel.Name != "SetHooks" || !strings.HasSuffix(Nospace(sel.X), "EpochsKeeper") {
				return true
			}
			calls++
			for _, a := range call.Args {
				inner, ok := a.(*ast.CallExpr)
				if ok && strings.HasSuffix(Nospace(inner.Fun), "NewMultiEpochHooks") {
					for _, h := range inner.Args {
						hooks = append(hooks, hookName(Nospace(h)))
					}
				} else {
					hooks = append(hooks, hookName(Nospace(a)))
				}
			}
			return true
		})
	}
	fmt.Println("From Coq Require Import String List. Import ListNotations. Open Scope string_scope.")
	fmt.Printf("Definition epochs_set_hooks_calls : nat := %d.\n", calls)
	fmt.Print("Definition epoch_hooks_registered : list string := [")
	for i, h := range hooks {
		if i > 0 {
			fmt.Print("; ")
		}
		fmt.Print(CoqString(h))
	}
	fmt.Println("].")
}

// hookName normalises "app.InflationKeeper.Hooks()" to "InflationKeeper" (receiver names may change).
func hookName(src string) string {
	s := strings.TrimSuffix(src, ".Hooks()")
	if i := strings.LastIndex(s, "."); i >= 0 {
		s = s[i+1:]
	}
	return s
}
