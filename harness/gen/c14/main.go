// Command gen/c14 prints coq/Gen/C14Facts.v from the /repo working tree (terms, never verdicts):
// which EpochHooks the application registers on the epochs keeper, in slice order
// (app/keepers.go: app.EpochsKeeper.SetHooks(epochstypes.NewMultiEpochHooks(...))).
package main

import (
	"fmt"
	"go/ast"
	"strings"

	. "verifharness/genlib"
)

func main() {
	repo := Repo()
	Header(repo)
	files := ParseDir(repo + "/app")
	var hooks []string
	calls := 0
	for _, fl := range files {
		ast.Inspect(fl.F, func(n ast.Node) bool {
			call, ok := n.(*ast.CallExpr)
			if !ok {
				return true
			}
			sel, ok := call.Fun.(*ast.SelectorExpr)
			if !ok || sel.Sel.Name != "SetHooks" || !strings.HasSuffix(Nospace(sel.X), "EpochsKeeper") {
				return true
			}
			calls++
			for _, a := range call.Args {
				inner, ok := a.(*ast.CallExpr)
				if ok && strings.HasSuffix(Nospace(inner.Fun), "NewMultiEpochHooks") {
					for _, h := range inner.Args {
						hooks = append(hooks, hookName(Nospace(h)))
					}
				} else {
					hooks = append(hooks, hookName(Nospace(a)))
				}
			}
			return true
		})
	}
	fmt.Println("From Coq Require Import String List. Import ListNotations. Open Scope string_scope.")
	fmt.Printf("Definition epochs_set_hooks_calls : nat := %d.\n", calls)
	fmt.Print("Definition epoch_hooks_registered : list string := [")
	for i, h := range hooks {
		if i > 0 {
			fmt.Print("; ")
		}
		fmt.Print(CoqString(h))
	}
	fmt.Println("].")
	genPanicPath(repo)
	genKeys(repo)
	genInit(repo)
}

// genInit: module (re-)initialisation.
// (a) every method / field path that x/epochs InitGenesis (and the package-level helpers it hands the keeper to) calls
// on the keeper, in order of first appearance ("AddEpochInfo", "Epochs.Insert", …);
// (b) whether AddEpochInfo refuses a stored identifier BEFORE it writes: a top-level `if` whose header looks the
// identifier up (EpochExists / Epochs.Get / Epochs.Has) and whose body ends in a `return <non-nil>` precedes the first
// statement that writes to the store, and no statement before it writes;
// (c) what AppModule.InitGenesis does with the error of InitGenesis ("discarded" | "used" | "no call").
func genInit(repo string) {
	files := ParseDir(repo + "/x/epochs")
	funcs := map[string]*ast.FuncDecl{}
	for _, fl := range files {
		for _, d := range fl.F.Decls {
			if fd, ok := d.(*ast.FuncDecl); ok && fd.Body != nil && fd.Recv == nil {
				funcs[fd.Name.Name] = fd
			}
		}
	}
	var calls []string
	seen := map[string]bool{}
	visited := map[string]bool{}
	root := func(e ast.Expr) (string, []string) { // selector chain a.b.c -> ("a", ["b","c"])
		var path []string
		for {
			switch x := e.(type) {
			case *ast.SelectorExpr:
				path = append([]string{x.Sel.Name}, path...)
				e = x.X
			case *ast.ParenExpr:
				e = x.X
			case *ast.StarExpr:
				e = x.X
			case *ast.UnaryExpr:
				e = x.X
			case *ast.Ident:
				return x.Name, path
			default:
				return "", nil
			}
		}
	}
	var walk func(fd *ast.FuncDecl, kp string)
	walk = func(fd *ast.FuncDecl, kp string) {
		if visited[fd.Name.Name+"/"+kp] {
			return
		}
		visited[fd.Name.Name+"/"+kp] = true
		ast.Inspect(fd.Body, func(n ast.Node) bool {
			c, ok := n.(*ast.CallExpr)
			if !ok {
				return true
			}
			if r, path := root(c.Fun); r == kp && len(path) > 0 {
				name := strings.Join(path, ".")
				if !seen[name] {
					seen[name] = true
					calls = append(calls, name)
				}
			}
			if id, ok := c.Fun.(*ast.Ident); ok {
				if callee, ok := funcs[id.Name]; ok {
					var params []string
					for _, f := range callee.Type.Params.List {
						for _, nm := range f.Names {
							params = append(params, nm.Name)
						}
					}
					for i, a := range c.Args {
						if r, path := root(a); r == kp && len(path) == 0 && i < len(params) {
							walk(callee, params[i])
						}
					}
				}
			}
			return true
		})
	}
	if fd, ok := funcs["InitGenesis"]; ok {
		for _, f := range fd.Type.Params.List {
			if strings.HasSuffix(Nospace(f.Type), "Keeper") {
				for _, nm := range f.Names {
					walk(fd, nm.Name)
				}
			}
		}
	}
	fmt.Print("Definition initgenesis_keeper_calls : list string := [")
	for i, c := range calls {
		if i > 0 {
			fmt.Print("; ")
		}
		fmt.Print(CoqString(c))
	}
	fmt.Println("].")

	// (b)
	writes := func(n ast.Node) bool {
		w := false
		ast.Inspect(n, func(m ast.Node) bool {
			if c, ok := m.(*ast.CallExpr); ok {
				f := Nospace(c.Fun)
				if strings.HasSuffix(f, ".Insert") || strings.HasSuffix(f, ".Set") || strings.HasSuffix(f, ".Delete") {
					w = true
				}
			}
			return true
		})
		return w
	}
	guard := false
	for _, fl := range ParseDir(repo + "/x/epochs/keeper") {
		for _, d := range fl.F.Decls {
			fd, ok := d.(*ast.FuncDecl)
			if !ok || fd.Body == nil || fd.Name.Name != "AddEpochInfo" {
				continue
			}
			for _, st := range fd.Body.List {
				if is, ok := st.(*ast.IfStmt); ok && is.Else == nil {
					hdr := Nospace(is.Cond)
					if is.Init != nil {
						hdr = Nospace(is.Init) + ";" + hdr
					}
					looks := strings.Contains(hdr, "EpochExists(") || strings.Contains(hdr, ".Epochs.Get(") || strings.Contains(hdr, ".Epochs.Has(")
					if looks && !strings.HasPrefix(Nospace(is.Cond), "!") && len(is.Body.List) > 0 && !writes(is) {
						if rs, ok := is.Body.List[len(is.Body.List)-1].(*ast.ReturnStmt); ok && len(rs.Results) == 1 && Nospace(rs.Results[0]) != "nil" {
							guard = true
							break
						}
					}
				}
				if writes(st) {
					break
				}
			}
		}
	}
	fmt.Printf("Definition add_exists_guard_before_insert : bool := %s.\n", CoqBool(guard))

	// (c)
	use := "no call"
	for _, fl := range files {
		for _, d := range fl.F.Decls {
			fd, ok := d.(*ast.FuncDecl)
			if !ok || fd.Body == nil || fd.Recv == nil || fd.Name.Name != "InitGenesis" || len(fd.Recv.List) != 1 ||
				!strings.HasSuffix(Nospace(fd.Recv.List[0].Type), "AppModule") {
				continue
			}
			isCall := func(e ast.Expr) bool {
				c, ok := e.(*ast.CallExpr)
				if !ok {
					return false
				}
				id, ok := c.Fun.(*ast.Ident)
				return ok && id.Name == "InitGenesis"
			}
			ast.Inspect(fd.Body, func(n ast.Node) bool {
				switch x := n.(type) {
				case *ast.ExprStmt:
					if isCall(x.X) {
						use = "discarded"
						return false
					}
				case *ast.AssignStmt:
					if len(x.Rhs) == 1 && isCall(x.Rhs[0]) {
						use = "discarded"
						for _, l := range x.Lhs {
							if Nospace(l) != "_" {
								use = "used"
							}
						}
						return false
					}
				case *ast.CallExpr:
					if isCall(x) {
						use = "used"
					}
				}
				return true
			})
		}
	}
	fmt.Printf("Definition appmodule_initgenesis_error : string := %s.\n", CoqString(use))
}

// genKeys: under which key expression AddEpochInfo checks existence and inserts, and under which BeginBlocker writes
// back — relative to the info variable ("<info>.Identifier" = the info's own identifier field).
func genKeys(repo string) {
	norm := func(e ast.Expr, info string) string {
		s := Nospace(e)
		if info != "" && s == info {
			return "<info>"
		}
		if info != "" && strings.HasPrefix(s, info+".") {
			return "<info>." + strings.TrimPrefix(s, info+".")
		}
		return s
	}
	addExists, addInsert, bbInsert := "?", "?", "?"
	for _, fl := range ParseDir(repo + "/x/epochs/keeper") {
		for _, d := range fl.F.Decls {
			fd, ok := d.(*ast.FuncDecl)
			if !ok || fd.Body == nil || fd.Name.Name != "AddEpochInfo" {
				continue
			}
			info := ""
			ps := fd.Type.Params.List
			if len(ps) > 0 && len(ps[len(ps)-1].Names) > 0 {
				info = ps[len(ps)-1].Names[0].Name
			}
			ast.Inspect(fd.Body, func(n ast.Node) bool {
				if c, ok := n.(*ast.CallExpr); ok {
					f := Nospace(c.Fun)
					if strings.HasSuffix(f, ".EpochExists") && len(c.Args) == 2 {
						addExists = norm(c.Args[1], info)
					}
					if strings.HasSuffix(f, ".Epochs.Insert") && len(c.Args) == 3 {
						addInsert = norm(c.Args[1], info) + " := " + norm(c.Args[2], info)
					}
				}
				return true
			})
		}
	}
	// BeginBlocker and the package-level helpers it calls (transitively): every write to the Epochs map
	pkg := map[string]*ast.FuncDecl{}
	for _, fl := range ParseDir(repo + "/x/epochs") {
		for _, d := range fl.F.Decls {
			if fd, ok := d.(*ast.FuncDecl); ok && fd.Body != nil && fd.Recv == nil {
				pkg[fd.Name.Name] = fd
			}
		}
	}
	reach := map[string]bool{}
	var inserts []string
	var visit func(name string)
	visit = func(name string) {
		fd, ok := pkg[name]
		if !ok || reach[name] {
			return
		}
		reach[name] = true
		ast.Inspect(fd.Body, func(n ast.Node) bool {
			c, ok := n.(*ast.CallExpr)
			if !ok {
				return true
			}
			if strings.HasSuffix(Nospace(c.Fun), ".Epochs.Insert") && len(c.Args) == 3 {
				val := Nospace(c.Args[2])
				inserts = append(inserts, norm(c.Args[1], val)+" := "+norm(c.Args[2], val))
			}
			if id, ok := c.Fun.(*ast.Ident); ok {
				visit(id.Name)
			}
			return true
		})
	}
	visit("BeginBlocker")
	if len(inserts) > 0 {
		bbInsert = strings.Join(inserts, " | ")
	}
	fmt.Printf("Definition add_exists_key : string := %s.\n", CoqString(addExists))
	fmt.Printf("Definition add_insert : string := %s.\n", CoqString(addInsert))
	fmt.Printf("Definition beginblock_insert : string := %s.\n", CoqString(bbInsert))
}

// genPanicPath: (a) every function of the non-test x/epochs code that calls the builtin recover (a hook panic must
// leave BeginBlocker, so that the block is not committed); (b) the shape of the two MultiEpochHooks fan-out loops.
func genPanicPath(repo string) {
	var recs []string
	for _, dir := range []string{"/x/epochs", "/x/epochs/keeper", "/x/epochs/types"} {
		for _, fl := range ParseDir(repo + dir) {
			for _, d := range fl.F.Decls {
				fd, ok := d.(*ast.FuncDecl)
				if !ok || fd.Body == nil {
					continue
				}
				found := false
				ast.Inspect(fd.Body, func(n ast.Node) bool {
					if c, ok := n.(*ast.CallExpr); ok {
						if id, ok := c.Fun.(*ast.Ident); ok && id.Name == "recover" {
							found = true
						}
					}
					return true
				})
				if found {
					recs = append(recs, strings.TrimPrefix(dir, "/")+"."+fd.Name.Name)
				}
			}
		}
	}
	fmt.Print("Definition epochs_recover_sites : list string := [")
	for i, r := range recs {
		if i > 0 {
			fmt.Print("; ")
		}
		fmt.Print(CoqString(r))
	}
	fmt.Println("].")
	// the keeper wrappers: statements of AfterEpochEnd / BeforeEpochStart in x/epochs/keeper (one call, no defer)
	for _, fl := range ParseDir(repo + "/x/epochs/keeper") {
		for _, d := range fl.F.Decls {
			fd, ok := d.(*ast.FuncDecl)
			if !ok || fd.Body == nil || fd.Recv == nil || (fd.Name.Name != "AfterEpochEnd" && fd.Name.Name != "BeforeEpochStart") {
				continue
			}
			defers := 0
			ast.Inspect(fd.Body, func(n ast.Node) bool {
				if _, ok := n.(*ast.DeferStmt); ok {
					defers++
				}
				return true
			})
			fmt.Printf("Definition keeper_%s_defers : nat := %d.\n", fd.Name.Name, defers)
		}
	}
	// MultiEpochHooks.<M>: a single `for … range <receiver>` whose body is the single call <elem>.<M>(ctx, id, n)
	fmt.Println("Record loop_shape := { l_ranges_over_receiver : bool; l_stmts_in_func : nat; l_stmts_in_body : nat; l_calls_same_method_on_element : bool; l_args_are_the_params_in_order : bool }.")
	for _, fl := range ParseDir(repo + "/x/epochs/types") {
		for _, d := range fl.F.Decls {
			fd, ok := d.(*ast.FuncDecl)
			if !ok || fd.Body == nil || fd.Recv == nil || len(fd.Recv.List) != 1 || (fd.Name.Name != "AfterEpochEnd" && fd.Name.Name != "BeforeEpochStart") {
				continue
			}
			if !strings.HasSuffix(Nospace(fd.Recv.List[0].Type), "MultiEpochHooks") {
				continue
			}
			recv := ""
			if len(fd.Recv.List[0].Names) == 1 {
				recv = fd.Recv.List[0].Names[0].Name
			}
			var params []string
			for _, f := range fd.Type.Params.List {
				for _, n := range f.Names {
					params = append(params, n.Name)
				}
			}
			over, same, args := false, false, false
			nbody := 0
			if len(fd.Body.List) == 1 {
				if rs, ok := fd.Body.List[0].(*ast.RangeStmt); ok {
					over = Nospace(rs.X) == recv
					nbody = len(rs.Body.List)
					if nbody == 1 {
						if es, ok := rs.Body.List[0].(*ast.ExprStmt); ok {
							if call, ok := es.X.(*ast.CallExpr); ok {
								if sel, ok := call.Fun.(*ast.SelectorExpr); ok && sel.Sel.Name == fd.Name.Name {
									el := Nospace(sel.X)
									key, val := "", ""
									if rs.Key != nil {
										key = Nospace(rs.Key)
									}
									if rs.Value != nil {
										val = Nospace(rs.Value)
									}
									same = (key != "" && key != "_" && el == recv+"["+key+"]") || (val != "" && el == val)
								}
								if len(call.Args) == len(params) {
									args = true
									for i, a := range call.Args {
										args = args && Nospace(a) == params[i]
									}
								}
							}
						}
					}
				}
			}
			fmt.Printf("Definition multi_%s_loop : loop_shape := {| l_ranges_over_receiver := %s; l_stmts_in_func := %d; l_stmts_in_body := %d; l_calls_same_method_on_element := %s; l_args_are_the_params_in_order := %s |}.\n",
				fd.Name.Name, CoqBool(over), len(fd.Body.List), nbody, CoqBool(same), CoqBool(args))
		}
	}
}

// hookName normalises "app.InflationKeeper.Hooks()" to "InflationKeeper" (receiver names may change).
func hookName(src string) string {
	s := strings.TrimSuffix(src, ".Hooks()")
	if i := strings.LastIndex(s, "."); i >= 0 {
		s = s[i+1:]
	}
	return s
}
