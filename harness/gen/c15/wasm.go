package main

// The contract message handler of app/wasmext, read as the straight-line sequence of things it does to ONE
// dispatched sdk.Msg before it hands the message to the message router:
//
//	validate-basic            `if err := msg.ValidateBasic(); err != nil { return … }`
//	signers-are-contract      every signer of THE DISPATCHED MESSAGE ITSELF is compared with the contract address and a
//	                          mismatch is refused: `for _, s := range msg.GetSigners() { if !s.Equals(contractAddr) { return err } }`
//	                          or `if slices.ContainsFunc(msg.GetSigners(), func(s) bool { return !s.Equals(contractAddr) }) { return err }`
//	guard:<cond>              `if <cond> { return err }` — can only refuse
//	guard-call:<call>         `if err := <call>; err != nil { return err }` — can only refuse
//	let:<stmt>                a local binding without a call that could route
//	route                     the first statement that mentions `.Handler(msg)`; reading stops here
//	unknown:<stmt>            anything else (loops over other collections, conditionals that do not return an error, early
//	                          successful returns, …) — the obligations accept nothing of this kind before the signer check
//
// The handler is found from DispatchMsg (the function called with the loop variable of the loop over the encoded
// messages), so renaming it is harmless; parameters are named by TYPE (sdk.Msg -> msg, sdk.Address / sdk.AccAddress ->
// contractAddr, sdk.Context -> ctx); same-package helpers called in guard position or in tail position with exactly
// these parameters are followed (3 levels).

import (
	"go/ast"
	"go/token"
	"regexp"
	"strings"

	. "verifharness/genlib"
)

type wasmX struct {
	files  []File
	events []string
	done   bool
}

func (x *wasmX) decls(name string, method bool) []*ast.FuncDecl {
	var out []*ast.FuncDecl
	for _, fl := range x.files {
		for _, d := range fl.F.Decls {
			if fd, ok := d.(*ast.FuncDecl); ok && fd.Body != nil && fd.Name.Name == name && (fd.Recv != nil) == method {
				out = append(out, fd)
			}
		}
	}
	return out
}

func paramCanon(t ast.Expr) string {
	switch strings.TrimPrefix(Nospace(t), "*") {
	case "sdk.Msg":
		return "msg"
	case "sdk.Address", "sdk.AccAddress":
		return "contractAddr"
	case "sdk.Context":
		return "ctx"
	}
	return ""
}

// renaming of the parameters (by type) and of the receiver of fn
func canonOf(fn *ast.FuncDecl) map[string]string {
	m := map[string]string{}
	if fn.Type.Params != nil {
		for _, f := range fn.Type.Params.List {
			if c := paramCanon(f.Type); c != "" {
				for _, n := range f.Names {
					m[n.Name] = c
				}
			}
		}
	}
	if fn.Recv != nil && len(fn.Recv.List) == 1 && len(fn.Recv.List[0].Names) == 1 {
		m[fn.Recv.List[0].Names[0].Name] = "h"
	}
	return m
}

func txt(n ast.Node, ren map[string]string) string {
	t := Nospace(n)
	for from, to := range ren {
		if from != to {
			t = regexp.MustCompile(`\b`+regexp.QuoteMeta(from)+`\b`).ReplaceAllString(t, to)
		}
	}
	return t
}

func retErr(b *ast.BlockStmt) bool {
	if b == nil || len(b.List) == 0 {
		return false
	}
	r, ok := b.List[len(b.List)-1].(*ast.ReturnStmt)
	if !ok || len(r.Results) == 0 {
		return false
	}
	last := r.Results[len(r.Results)-1]
	if id, ok := last.(*ast.Ident); ok && id.Name == "nil" {
		return false
	}
	return true
}

func isErrNotNil(e ast.Expr) (string, bool) {
	b, ok := e.(*ast.BinaryExpr)
	if !ok || b.Op != token.NEQ {
		return "", false
	}
	x, ok1 := b.X.(*ast.Ident)
	y, ok2 := b.Y.(*ast.Ident)
	if ok1 && ok2 && y.Name == "nil" {
		return x.Name, true
	}
	return "", false
}

// callee of a call into the same package (plain function, or method on the caller's receiver) whose arguments are
// exactly the canonical parameters the callee's own parameters are named after
func (x *wasmX) callee(caller *ast.FuncDecl, c *ast.CallExpr, ren map[string]string) *ast.FuncDecl {
	var cands []*ast.FuncDecl
	switch f := c.Fun.(type) {
	case *ast.Ident:
		cands = x.decls(f.Name, false)
	case *ast.SelectorExpr:
		if id, ok := f.X.(*ast.Ident); ok && ren[id.Name] == "h" {
			cands = x.decls(f.Sel.Name, true)
		}
	}
	if len(cands) != 1 {
		return nil
	}
	fd := cands[0]
	i := 0
	for _, f := range fd.Type.Params.List {
		for range f.Names {
			if i >= len(c.Args) {
				return nil
			}
			want := paramCanon(f.Type)
			if want == "" || txt(c.Args[i], ren) != want {
				return nil
			}
			i++
		}
	}
	if i != len(c.Args) {
		return nil
	}
	return fd
}

func short(s string) string {
	var b strings.Builder
	for _, r := range s {
		if r < 32 || r > 126 {
			r = '?'
		}
		b.WriteRune(r)
		if b.Len() >= 160 {
			b.WriteString("...")
			break
		}
	}
	return b.String()
}

func (x *wasmX) emit(e string) {
	if !x.done {
		x.events = append(x.events, e)
	}
}

// `!v.Equals(contractAddr)`
func isForeign(e ast.Expr, v string, ren map[string]string) bool {
	return v != "" && v != "_" && txt(e, ren) == "!"+v+".Equals(contractAddr)"
}

// func(p T) bool { return !p.Equals(contractAddr) }
func isForeignLit(fl *ast.FuncLit, ren map[string]string) bool {
	if fl == nil || fl.Type.Params == nil || len(fl.Type.Params.List) != 1 || len(fl.Type.Params.List[0].Names) != 1 || len(fl.Body.List) != 1 {
		return false
	}
	r, ok := fl.Body.List[0].(*ast.ReturnStmt)
	return ok && len(r.Results) == 1 && isForeign(r.Results[0], fl.Type.Params.List[0].Names[0].Name, ren)
}

// mode: 0 the handler itself / a helper in tail position; 1 a helper in guard position (its `return nil` passes)
func (x *wasmX) flatten(fn *ast.FuncDecl, mode, depth int) {
	ren := canonOf(fn)
	lits := map[string]*ast.FuncLit{}
	list := fn.Body.List
	for i := 0; i < len(list) && !x.done; i++ {
		st := list[i]
		t := txt(st, ren)
		route := strings.Contains(t, ".Handler(msg)")
		switch s := st.(type) {
		case *ast.IfStmt:
			if route {
				x.emit("route")
				x.done = true
				continue
			}
			if s.Else != nil || !retErr(s.Body) {
				x.emit("unknown:" + short(t))
				continue
			}
			if as, ok := s.Init.(*ast.AssignStmt); ok {
				// if err := call(); err != nil { return err }
				name, isErr := isErrNotNil(s.Cond)
				c, isCall := as.Rhs[0].(*ast.CallExpr)
				if isErr && len(as.Lhs) == 1 && len(as.Rhs) == 1 && isCall && Nospace(as.Lhs[0]) == name {
					x.guardCall(fn, c, ren, depth)
					continue
				}
				x.emit("unknown:" + short(t))
				continue
			}
			if s.Init != nil {
				x.emit("unknown:" + short(t))
				continue
			}
			if c, ok := s.Cond.(*ast.CallExpr); ok && txt(c.Fun, ren) == "slices.ContainsFunc" && len(c.Args) == 2 && txt(c.Args[0], ren) == "msg.GetSigners()" {
				fl, _ := c.Args[1].(*ast.FuncLit)
				if id, ok := c.Args[1].(*ast.Ident); ok {
					fl = lits[id.Name]
				}
				if isForeignLit(fl, ren) {
					x.emit("signers-are-contract")
					continue
				}
			}
			x.emit("guard:" + short(txt(s.Cond, ren)))
		case *ast.RangeStmt:
			v := ""
			if s.Value != nil {
				v = Nospace(s.Value)
			}
			if txt(s.X, ren) == "msg.GetSigners()" && len(s.Body.List) == 1 {
				if is, ok := s.Body.List[0].(*ast.IfStmt); ok && is.Init == nil && is.Else == nil && retErr(is.Body) && isForeign(is.Cond, v, ren) {
					x.emit("signers-are-contract")
					continue
				}
			}
			x.emit("unknown:" + short(t))
		case *ast.AssignStmt:
			if route {
				x.emit("route")
				x.done = true
				continue
			}
			if len(s.Rhs) == 1 {
				if fl, ok := s.Rhs[0].(*ast.FuncLit); ok && len(s.Lhs) == 1 {
					lits[Nospace(s.Lhs[0])] = fl
					x.emit("let:" + short(t))
					continue
				}
				if c, ok := s.Rhs[0].(*ast.CallExpr); ok && i+1 < len(list) {
					// x, err := call(); if err != nil { return err }
					if is, ok := list[i+1].(*ast.IfStmt); ok && is.Init == nil && is.Else == nil && retErr(is.Body) {
						if name, isErr := isErrNotNil(is.Cond); isErr && Nospace(s.Lhs[len(s.Lhs)-1]) == name {
							if len(s.Lhs) == 1 {
								x.guardCall(fn, c, ren, depth)
							} else {
								x.emit("guard-call:" + short(txt(c, ren)))
							}
							i++
							continue
						}
					}
				}
			}
			x.emit("let:" + short(t))
		case *ast.ReturnStmt:
			if route {
				x.emit("route")
				x.done = true
				continue
			}
			if len(s.Results) >= 1 {
				last := s.Results[len(s.Results)-1]
				if id, ok := last.(*ast.Ident); ok && id.Name == "nil" && mode == 1 && len(s.Results) == 1 {
					return // the helper passes
				}
				if c, ok := last.(*ast.CallExpr); ok && len(s.Results) == 1 {
					if fd := x.callee(fn, c, ren); fd != nil && depth < 3 {
						x.flatten(fd, mode, depth+1)
						return
					}
					if mode == 1 {
						x.emit("guard-call:" + short(txt(c, ren)))
						return
					}
				}
			}
			x.emit("unknown:" + short(t))
			return
		case *ast.DeclStmt, *ast.EmptyStmt:
			x.emit("let:" + short(t))
		default:
			if route {
				x.emit("route")
				x.done = true
				continue
			}
			x.emit("unknown:" + short(t))
		}
	}
}

func (x *wasmX) guardCall(fn *ast.FuncDecl, c *ast.CallExpr, ren map[string]string, depth int) {
	t := txt(c, ren)
	if t == "msg.ValidateBasic()" {
		x.emit("validate-basic")
		return
	}
	if fd := x.callee(fn, c, ren); fd != nil && depth < 3 && fd.Type.Results != nil && len(fd.Type.Results.List) == 1 && Nospace(fd.Type.Results.List[0].Type) == "error" {
		x.flatten(fd, 1, depth+1)
		return
	}
	x.emit("guard-call:" + short(t))
}

// wasmDispatchEvents: the per-message handler DispatchMsg calls, flattened.
func wasmDispatchEvents(repo string) []string {
	x := &wasmX{files: ParseDir(repo + "/app/wasmext")}
	var handler *ast.FuncDecl
	for _, dm := range x.decls("DispatchMsg", true) {
		ren := canonOf(dm)
		ast.Inspect(dm.Body, func(n ast.Node) bool {
			rs, ok := n.(*ast.RangeStmt)
			if !ok || rs.Value == nil {
				return true
			}
			v := Nospace(rs.Value)
			ast.Inspect(rs.Body, func(m ast.Node) bool {
				c, ok := m.(*ast.CallExpr)
				if !ok || handler != nil {
					return true
				}
				hasV := false
				for _, a := range c.Args {
					if Nospace(a) == v {
						hasV = true
					}
				}
				if !hasV {
					return true
				}
				var cands []*ast.FuncDecl
				switch f := c.Fun.(type) {
				case *ast.Ident:
					cands = x.decls(f.Name, false)
				case *ast.SelectorExpr:
					if id, ok := f.X.(*ast.Ident); ok && ren[id.Name] == "h" {
						cands = x.decls(f.Sel.Name, true)
					}
				}
				if len(cands) == 1 {
					handler = cands[0]
				}
				return true
			})
			return true
		})
	}
	if handler == nil {
		if c := x.decls("handleSdkMessage", true); len(c) == 1 {
			handler = c[0]
		}
	}
	if handler == nil {
		return []string{"unknown:no per-message handler found"}
	}
	x.flatten(handler, 0, 0)
	return x.events
}
