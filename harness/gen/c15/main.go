// Command gen/c15 prints coq/Gen/C15Facts.v from the /repo working tree (terms, never verdicts).
//
// For every token-factory Msg handler it prints the ordered list of EVENTS its body performs, with
// local variables inlined and calls into functions of the same package followed (depth <= 3, so
// a check moved into a helper such as requireDenomAdmin renders exactly like the inline check):
//
//	guard:<cond>        `if <cond> { return … }`   — rejected when <cond> holds (normalised: !(a==b) -> a!=b)
//	accept-if:<cond>    `if <cond> { return nil }` — early success
//	gate:<call>         a call of sudo CheckPermissions
//	write:<selector>[(args)]   a state write (collections Insert/Set/Delete, bank keeper mint/burn/send/metadata)
//	cond-write:…        a write nested under a condition that is not a guard
//	err:<call>          a call whose error is propagated (dropped by the obligations)
//
// plus: the case conditions of DenomStr.ToStruct, the format of TFDenom.Denom(), and the store keys
// used by GetAdmin / GetDenomAuthorityMetadata / HasDenom.
package main

import (
	"fmt"
	"go/ast"
	"go/token"
	"sort"
	"strings"

	. "verifharness/genlib"
)

var writeSel = map[string]bool{
	"Set": true, "Insert": true, "Delete": true, "SetDenomMetaData": true,
	"MintCoins": true, "BurnCoins": true, "SendCoins": true, "SendCoinsFromModuleToAccount": true,
	"SendCoinsFromAccountToModule": true, "SendCoinsFromModuleToModule": true,
}

type gen struct {
	funcs  map[string][]*ast.FuncDecl
	consts map[string]string
	events []string
	fields map[string]string // unexported Keeper / StoreAPI field -> canonical name (by the field's TYPE)
}

// canonical names of the unexported Keeper / StoreAPI fields, by type: renaming such a field is harmless
func fieldRole(typ string) string {
	switch {
	case strings.HasPrefix(typ, "collections.Map[") && strings.HasSuffix(typ, ",tftypes.DenomAuthorityMetadata]"):
		return "denomAdmins"
	case strings.HasPrefix(typ, "collections.KeySet["):
		return "creator"
	case typ == "tftypes.BankKeeper":
		return "bankKeeper"
	case typ == "tftypes.AccountKeeper":
		return "accountKeeper"
	case typ == "tftypes.CommunityPoolKeeper":
		return "communityPoolKeeper"
	case typ == "sudokeeper.Keeper":
		return "sudoKeeper"
	}
	return ""
}

func fieldCanon(files []File) map[string]string {
	out := map[string]string{}
	for _, fl := range files {
		for _, d := range fl.F.Decls {
			gd, ok := d.(*ast.GenDecl)
			if !ok {
				continue
			}
			for _, sp := range gd.Specs {
				ts, ok := sp.(*ast.TypeSpec)
				if !ok || (ts.Name.Name != "Keeper" && ts.Name.Name != "StoreAPI") {
					continue
				}
				st, ok := ts.Type.(*ast.StructType)
				if !ok {
					continue
				}
				byRole := map[string][]string{}
				for _, f := range st.Fields.List {
					if r := fieldRole(Nospace(f.Type)); r != "" {
						for _, nm := range f.Names {
							if !ast.IsExported(nm.Name) {
								byRole[r] = append(byRole[r], nm.Name)
							}
						}
					}
				}
				for r, names := range byRole {
					if len(names) == 1 {
						out[names[0]] = r
					}
				}
			}
		}
	}
	return out
}

func (g *gen) field(n string) string {
	if c, ok := g.fields[n]; ok {
		return c
	}
	return n
}

func (g *gen) render(e ast.Expr, env map[string]string) string {
	switch x := e.(type) {
	case nil:
		return ""
	case *ast.Ident:
		if v, ok := env[x.Name]; ok {
			return v
		}
		if v, ok := g.consts[x.Name]; ok {
			return v
		}
		return x.Name
	case *ast.SelectorExpr:
		// package-qualified constant (types.DenomPrefix)
		if id, ok := x.X.(*ast.Ident); ok {
			if _, bound := env[id.Name]; !bound {
				if v, ok := g.consts[id.Name+"."+x.Sel.Name]; ok {
					return v
				}
			}
		}
		return g.render(x.X, env) + "." + g.field(x.Sel.Name)
	case *ast.CallExpr:
		var as []string
		for i, a := range x.Args {
			s := g.render(a, env)
			if x.Ellipsis != token.NoPos && i == len(x.Args)-1 {
				s += "..."
			}
			as = append(as, s)
		}
		return g.render(x.Fun, env) + "(" + strings.Join(as, ",") + ")"
	case *ast.BinaryExpr:
		return g.render(x.X, env) + x.Op.String() + g.render(x.Y, env)
	case *ast.UnaryExpr:
		if x.Op == token.NOT {
			return negate(g.render(x.X, env))
		}
		return x.Op.String() + g.render(x.X, env)
	case *ast.ParenExpr:
		return "(" + g.render(x.X, env) + ")"
	case *ast.BasicLit:
		return x.Value
	case *ast.IndexExpr:
		return g.render(x.X, env) + "[" + g.render(x.Index, env) + "]"
	case *ast.StarExpr:
		return "*" + g.render(x.X, env)
	case *ast.KeyValueExpr:
		return g.render(x.Key, nil) + ":" + g.render(x.Value, env)
	case *ast.CompositeLit:
		var es []string
		for _, el := range x.Elts {
			es = append(es, g.render(el, env))
		}
		return Nospace(x.Type) + "{" + strings.Join(es, ",") + "}"
	}
	return Nospace(e)
}

// negate: !(a==b) -> a!=b, !(a!=b) -> a==b, !!c -> c, else !(c)
func negate(c string) string {
	c = strip(c)
	if strings.HasPrefix(c, "!(") && strings.HasSuffix(c, ")") && balanced(c[2:len(c)-1]) {
		return c[2 : len(c)-1]
	}
	if !strings.Contains(c, "&&") && !strings.Contains(c, "||") {
		if i := strings.Index(c, "=="); i >= 0 {
			return c[:i] + "!=" + c[i+2:]
		}
		if i := strings.Index(c, "!="); i >= 0 {
			return c[:i] + "==" + c[i+2:]
		}
		if strings.HasPrefix(c, "!") {
			return c[1:]
		}
	}
	return "!(" + c + ")"
}

func strip(c string) string {
	for strings.HasPrefix(c, "(") && strings.HasSuffix(c, ")") && balanced(c[1:len(c)-1]) {
		c = c[1 : len(c)-1]
	}
	return c
}

func balanced(s string) bool {
	d := 0
	for _, r := range s {
		if r == '(' {
			d++
		} else if r == ')' {
			d--
			if d < 0 {
				return false
			}
		}
	}
	return d == 0
}

func isErrCond(e ast.Expr) bool {
	b, ok := e.(*ast.BinaryExpr)
	if !ok || b.Op != token.NEQ {
		return false
	}
	x, ok1 := b.X.(*ast.Ident)
	y, ok2 := b.Y.(*ast.Ident)
	return ok1 && ok2 && strings.HasPrefix(strings.ToLower(x.Name), "err") && y.Name == "nil"
}

func selName(call *ast.CallExpr) string {
	switch f := call.Fun.(type) {
	case *ast.SelectorExpr:
		return f.Sel.Name
	case *ast.Ident:
		return f.Name
	}
	return ""
}

func (g *gen) callee(call *ast.CallExpr) *ast.FuncDecl {
	c := g.funcs[selName(call)]
	if len(c) == 1 {
		return c[0]
	}
	return nil
}

func (g *gen) writeEvent(call *ast.CallExpr, env map[string]string, cond bool) {
	name := g.render(call.Fun, env)
	if strings.HasSuffix(name, "denomAdmins.Insert") || strings.HasSuffix(name, "Denoms.Insert") {
		var as []string
		for _, a := range call.Args[1:] {
			as = append(as, g.render(a, env))
		}
		name += "(" + strings.Join(as, ",") + ")"
	}
	p := "write:"
	if cond {
		p = "cond-write:"
	}
	g.events = append(g.events, p+name)
}

// call handles one call in statement position whose only results are errors (or none).
func (g *gen) call(c *ast.CallExpr, env map[string]string, depth int, cond bool) {
	n := selName(c)
	switch {
	case n == "CheckPermissions":
		g.events = append(g.events, "gate:"+g.render(c, env))
	case writeSel[n]:
		g.writeEvent(c, env, cond)
	default:
		if fd := g.callee(c); fd != nil && depth < 3 {
			g.inline(fd, c, env, depth, cond)
		} else {
			g.events = append(g.events, "err:"+g.render(c, env))
		}
	}
}

func (g *gen) inline(fd *ast.FuncDecl, c *ast.CallExpr, env map[string]string, depth int, cond bool) {
	ne := map[string]string{}
	if fd.Recv != nil && len(fd.Recv.List) == 1 && len(fd.Recv.List[0].Names) == 1 {
		if sel, ok := c.Fun.(*ast.SelectorExpr); ok {
			ne[fd.Recv.List[0].Names[0].Name] = g.render(sel.X, env)
		}
	}
	i := 0
	for _, f := range fd.Type.Params.List {
		for _, nm := range f.Names {
			if i < len(c.Args) {
				ne[nm.Name] = g.render(c.Args[i], env)
			}
			i++
		}
	}
	g.block(fd.Body.List, ne, depth+1, cond)
}

func onlyErr(lhs []ast.Expr) bool {
	for _, l := range lhs {
		id, ok := l.(*ast.Ident)
		if !ok || !(id.Name == "_" || strings.HasPrefix(strings.ToLower(id.Name), "err")) {
			return false
		}
	}
	return true
}

func (g *gen) assign(a *ast.AssignStmt, env map[string]string, depth int, cond bool) {
	if len(a.Rhs) == 1 {
		if c, ok := a.Rhs[0].(*ast.CallExpr); ok {
			if onlyErr(a.Lhs) {
				g.call(c, env, depth, cond)
				return
			}
			// a value (and maybe an error): keep the call symbolic
			hasErr := false
			for _, l := range a.Lhs {
				if id, ok := l.(*ast.Ident); ok && strings.HasPrefix(strings.ToLower(id.Name), "err") {
					hasErr = true
				}
			}
			r := g.render(c, env)
			if selName(c) == "UnwrapSDKContext" {
				r = "ctx" // the request context under whatever local name
			}
			if id, ok := a.Lhs[0].(*ast.Ident); ok && id.Name != "_" {
				env[id.Name] = r
			}
			if hasErr {
				g.events = append(g.events, "err:"+r)
			}
			return
		}
	}
	if len(a.Lhs) == 1 && len(a.Rhs) == 1 {
		switch l := a.Lhs[0].(type) {
		case *ast.Ident:
			env[l.Name] = g.render(a.Rhs[0], env)
		case *ast.SelectorExpr:
			if id, ok := l.X.(*ast.Ident); ok {
				cur, bound := env[id.Name]
				if !bound {
					cur = id.Name
				}
				if !cond { // conditional field defaults (MintTo = Sender when empty) are not tracked
					env[id.Name] = cur + ".with(" + l.Sel.Name + "=" + g.render(a.Rhs[0], env) + ")"
				}
			}
		}
	}
}

func lastReturn(b *ast.BlockStmt) *ast.ReturnStmt {
	if b == nil || len(b.List) == 0 {
		return nil
	}
	r, _ := b.List[len(b.List)-1].(*ast.ReturnStmt)
	return r
}

func returnsNilError(r *ast.ReturnStmt) bool {
	if len(r.Results) == 0 {
		return false
	}
	id, ok := r.Results[len(r.Results)-1].(*ast.Ident)
	return ok && id.Name == "nil"
}

func (g *gen) exprCalls(e ast.Expr, env map[string]string, depth int, cond bool) {
	ast.Inspect(e, func(n ast.Node) bool {
		c, ok := n.(*ast.CallExpr)
		if !ok {
			return true
		}
		nm := selName(c)
		if nm == "CheckPermissions" || writeSel[nm] {
			g.call(c, env, depth, cond)
			return false
		}
		if fd := g.callee(c); fd != nil && depth < 3 && fd.Type.Results != nil && len(fd.Type.Results.List) == 1 && Nospace(fd.Type.Results.List[0].Type) == "error" {
			g.inline(fd, c, env, depth, cond)
			return false
		}
		return true
	})
}

func (g *gen) block(stmts []ast.Stmt, env map[string]string, depth int, cond bool) {
	for _, st := range stmts {
		switch s := st.(type) {
		case *ast.AssignStmt:
			g.assign(s, env, depth, cond)
		case *ast.ExprStmt:
			if c, ok := s.X.(*ast.CallExpr); ok {
				g.call(c, env, depth, cond)
			}
		case *ast.IfStmt:
			if a, ok := s.Init.(*ast.AssignStmt); ok {
				g.assign(a, env, depth, cond)
			}
			if isErrCond(s.Cond) {
				continue
			}
			if r := lastReturn(s.Body); r != nil {
				c := strip(g.render(s.Cond, env))
				if returnsNilError(r) && len(s.Body.List) == 1 {
					g.events = append(g.events, "accept-if:"+c)
				} else {
					g.events = append(g.events, "guard:"+c)
				}
				continue
			}
			g.block(s.Body.List, env, depth, true)
			if eb, ok := s.Else.(*ast.BlockStmt); ok {
				g.block(eb.List, env, depth, true)
			}
		case *ast.ReturnStmt:
			for _, r := range s.Results {
				g.exprCalls(r, env, depth, cond)
			}
		case *ast.SwitchStmt:
			for _, cc := range s.Body.List {
				g.block(cc.(*ast.CaseClause).Body, env, depth, true)
			}
		case *ast.RangeStmt:
			// per element of the ranged collection; the loop variables stay symbolic
			g.events = append(g.events, "foreach:"+g.render(s.X, env))
			g.block(s.Body.List, env, depth, cond)
		}
	}
}

func coqList(xs []string) string {
	var q []string
	for _, x := range xs {
		q = append(q, CoqString(x))
	}
	return "[" + strings.Join(q, "; ") + "]"
}

func collectConsts(files []File, qual string, into map[string]string) {
	for _, fl := range files {
		for _, d := range fl.F.Decls {
			gd, ok := d.(*ast.GenDecl)
			if !ok || gd.Tok != token.CONST {
				continue
			}
			for _, sp := range gd.Specs {
				vs := sp.(*ast.ValueSpec)
				for i, nm := range vs.Names {
					if i < len(vs.Values) {
						if bl, ok := vs.Values[i].(*ast.BasicLit); ok && bl.Kind == token.STRING {
							into[qual+nm.Name] = bl.Value
						}
					}
				}
			}
		}
	}
}

func main() {
	repo := Repo()
	Header(repo)
	keeper := ParseDir(repo + "/x/tokenfactory/keeper")
	types := ParseDir(repo + "/x/tokenfactory/types")

	g := &gen{funcs: map[string][]*ast.FuncDecl{}, consts: map[string]string{}, fields: fieldCanon(keeper)}
	for _, fl := range keeper {
		for _, d := range fl.F.Decls {
			if fd, ok := d.(*ast.FuncDecl); ok && fd.Body != nil {
				g.funcs[fd.Name.Name] = append(g.funcs[fd.Name.Name], fd)
			}
		}
	}
	collectConsts(keeper, "", g.consts)
	collectConsts(types, "types.", g.consts)
	collectConsts(types, "tftypes.", g.consts)

	handlers := []string{"CreateDenom", "ChangeAdmin", "Mint", "Burn", "SetDenomMetadata", "BurnNative", "SudoSetDenomMetadata", "InitGenesis"}
	fmt.Println("From Coq Require Import String List. Import ListNotations. Open Scope string_scope.")
	fmt.Println("(* per Msg handler: ordered events with locals inlined and same-package calls followed *)")
	fmt.Println("Definition handler_events : list (string * list string) := [")
	for i, h := range handlers {
		g.events = nil
		if fds := g.funcs[h]; len(fds) == 1 {
			g.block(fds[0].Body.List, map[string]string{}, 0, false)
		}
		sep := ";"
		if i == len(handlers)-1 {
			sep = ""
		}
		fmt.Printf("  (%s, %s)%s\n", CoqString(h), coqList(g.events), sep)
	}
	fmt.Println("].")

	// store keys
	keyOf := func(fn, sel string) string {
		fds := g.funcs[fn]
		if len(fds) != 1 {
			return ""
		}
		env := map[string]string{}
		out := ""
		for _, st := range fds[0].Body.List {
			if a, ok := st.(*ast.AssignStmt); ok && len(a.Rhs) == 1 {
				if c, ok := a.Rhs[0].(*ast.CallExpr); ok && strings.HasSuffix(g.render(c.Fun, env), sel) && len(c.Args) >= 2 && out == "" {
					out = g.render(c.Args[1], env)
					continue
				}
				if len(a.Lhs) == 1 {
					if id, ok := a.Lhs[0].(*ast.Ident); ok {
						env[id.Name] = g.render(a.Rhs[0], env)
					}
				}
			}
		}
		return out
	}
	fmt.Printf("Definition get_admin_key : string := %s.\n", CoqString(keyOf("GetAdmin", "denomAdmins.Get")))
	fmt.Printf("Definition get_authority_key : string := %s.\n", CoqString(keyOf("GetDenomAuthorityMetadata", "denomAdmins.Get")))
	fmt.Printf("Definition has_denom_key : string := %s.\n", CoqString(keyOf("HasDenom", "GetDenomMetaData")))

	// the admin lookups read the store directly: their statement lists, and every keeper-held field /
	// package variable that could hold state outside the (transactional) store
	bodyOf := func(fn string) []string {
		fds := g.funcs[fn]
		if len(fds) != 1 {
			return nil
		}
		env := map[string]string{}
		var out []string
		for _, st := range fds[0].Body.List {
			switch x := st.(type) {
			case *ast.AssignStmt:
				if len(x.Rhs) == 1 {
					if c, ok := x.Rhs[0].(*ast.CallExpr); ok {
						r := g.render(c, env)
						if id, ok := x.Lhs[0].(*ast.Ident); ok {
							env[id.Name] = r
						}
						out = append(out, "read:"+r)
						continue
					}
					if id, ok := x.Lhs[0].(*ast.Ident); ok {
						env[id.Name] = g.render(x.Rhs[0], env)
						continue
					}
				}
				out = append(out, "other:"+Nospace(x))
			case *ast.IfStmt:
				if x.Init == nil && isErrCond(x.Cond) {
					continue
				}
				out = append(out, "other:"+Nospace(x))
			case *ast.ReturnStmt:
				var rs []string
				for _, r := range x.Results {
					rs = append(rs, g.render(r, env))
				}
				out = append(out, "return:"+strings.Join(rs, ","))
			default:
				out = append(out, "other:"+Nospace(st))
			}
		}
		return out
	}
	fmt.Printf("Definition get_admin_body : list string := %s.\n", coqList(bodyOf("GetAdmin")))
	fmt.Printf("Definition get_authority_body : list string := %s.\n", coqList(bodyOf("GetDenomAuthorityMetadata")))
	var mutable func(e ast.Expr) bool
	mutable = func(e ast.Expr) bool {
		switch x := e.(type) {
		case *ast.StarExpr, *ast.MapType, *ast.ChanType, *ast.ArrayType, *ast.FuncType:
			return true
		case *ast.SelectorExpr:
			if id, ok := x.X.(*ast.Ident); ok && (id.Name == "sync" || id.Name == "atomic") {
				return true
			}
		case *ast.IndexExpr:
			return mutable(x.X)
		}
		return false
	}
	var fields, vars []string
	for _, fl := range keeper {
		for _, d := range fl.F.Decls {
			gd, ok := d.(*ast.GenDecl)
			if !ok {
				continue
			}
			for _, sp := range gd.Specs {
				switch x := sp.(type) {
				case *ast.TypeSpec:
					st, ok := x.Type.(*ast.StructType)
					if !ok || (x.Name.Name != "Keeper" && x.Name.Name != "StoreAPI") {
						continue
					}
					for _, f := range st.Fields.List {
						if mutable(f.Type) {
							for _, nm := range f.Names {
								fields = append(fields, x.Name.Name+"."+g.field(nm.Name)+":"+Nospace(f.Type))
							}
						}
					}
				case *ast.ValueSpec:
					if gd.Tok != token.VAR {
						continue
					}
					for i, nm := range x.Names {
						if nm.Name == "_" {
							continue
						}
						isMut := x.Type != nil && mutable(x.Type)
						if i < len(x.Values) {
							switch v := x.Values[i].(type) {
							case *ast.CompositeLit:
								isMut = isMut || mutable(v.Type)
							case *ast.UnaryExpr:
								isMut = isMut || v.Op == token.AND
							case *ast.CallExpr:
								if id, ok := v.Fun.(*ast.Ident); ok && (id.Name == "make" || id.Name == "new") {
									isMut = true
								}
							}
						}
						if isMut {
							vars = append(vars, nm.Name)
						}
					}
				}
			}
		}
	}
	sort.Strings(fields)
	sort.Strings(vars)
	fmt.Println("(* keeper / store-API fields and package variables that can hold mutable state outside the store : pointer, map, slice, chan, func or sync types *)")
	fmt.Printf("Definition keeper_mutable_fields : list string := %s.\n", coqList(fields))
	fmt.Printf("Definition keeper_mutable_package_vars : list string := %s.\n", coqList(vars))

	// types: DenomStr.ToStruct case conditions, TFDenom.Denom format
	tg := &gen{funcs: map[string][]*ast.FuncDecl{}, consts: map[string]string{}}
	collectConsts(types, "", tg.consts)
	var conds []string
	denomFmt := ""
	for _, fl := range types {
		for _, d := range fl.F.Decls {
			fd, ok := d.(*ast.FuncDecl)
			if !ok || fd.Body == nil {
				continue
			}
			switch fd.Name.Name {
			case "ToStruct":
				env := map[string]string{}
				for _, st := range fd.Body.List {
					switch s := st.(type) {
					case *ast.AssignStmt:
						if len(s.Lhs) == 1 && len(s.Rhs) == 1 {
							if id, ok := s.Lhs[0].(*ast.Ident); ok {
								env[id.Name] = tg.render(s.Rhs[0], env)
							}
						}
					case *ast.SwitchStmt:
						for _, cc := range s.Body.List {
							for _, e := range cc.(*ast.CaseClause).List {
								conds = append(conds, tg.render(e, env))
							}
						}
					case *ast.IfStmt:
						if r := lastReturn(s.Body); r != nil && !isErrCond(s.Cond) {
							conds = append(conds, strip(tg.render(s.Cond, env)))
						}
					}
				}
			case "Denom":
				if r := lastReturn(fd.Body); r != nil && len(r.Results) == 1 {
					denomFmt = tg.render(r.Results[0], map[string]string{})
				}
			}
		}
	}
	fmt.Printf("Definition to_struct_reject_conditions : list string := %s.\n", coqList(conds))
	fmt.Printf("Definition denom_format : string := %s.\n", CoqString(denomFmt))
	fmt.Println("(* app/wasmext: what the contract message handler does to ONE dispatched sdk.Msg before it routes it (see wasm.go) *)")
	fmt.Printf("Definition wasm_dispatch_events : list string := %s.\n", coqList(wasmDispatchEvents(repo)))
	_ = sort.Strings
}
