package main

// What Keeper.ApplyEvmMsg (x/evm/keeper) does with the sender nonce around the EVM invocation — printed as three
// booleans (terms, never verdicts):
//
//	apply_pre_nonce_call     the last sender-nonce write before evm.Call: 0 none | 1 msg.Nonce() | 2 msg.Nonce()+1 | 3 differs by path
//	apply_pre_nonce_create   … before evm.Create
//	apply_post_nonce_call    StateDB.SetNonce(from, msg.Nonce()+1) runs after evm.Call on every successful exit
//	apply_post_nonce_create  … after evm.Create …
//
// The body is analysed once per truth assignment of the boolean identifiers it branches on (`if contractCreation {…}`):
// an `if` on an assumed identifier follows one branch only, so a write in one `if contractCreation` and the invocation in
// a later one are correlated; assumptions follow identifiers passed to same-package helpers.
//
// A tiny abstract interpretation of the function body: statements in order, if / switch branches separately,
// same-package helper functions entered at their call (so the Create-vs-Call dispatch may live in a helper), branches
// that end in `return …, <non-nil error>` dropped (the message fails as a whole).  Per invocation kind the state is
// not-run < bumped < ran-without-bump; a branch in which a kind did not run says nothing about that kind.

import (
	"fmt"
	"go/ast"
	"go/token"
	"strings"

	. "verifharness/genlib"
)

const (
	stNotRun = iota
	stBumped
	stRanNoBump
)

type nstate struct {
	kind  [2]int // 0 = call, 1 = create
	preAt [2]int // the last sender-nonce write at the time the EVM was invoked: 0 none, 1 n, 2 n+1, 3 differs by path
	pre   int    // the last sender-nonce write on this path so far
	dead  bool   // path ended (return)
}

func mergePre(a, b int) int {
	if a == b {
		return a
	}
	return 3
}

func mergeStates(a, b nstate) nstate {
	if a.dead {
		return b
	}
	if b.dead {
		return a
	}
	out := nstate{pre: mergePre(a.pre, b.pre)}
	for k := 0; k < 2; k++ {
		switch {
		case a.kind[k] == stNotRun:
			out.kind[k], out.preAt[k] = b.kind[k], b.preAt[k]
		case b.kind[k] == stNotRun:
			out.kind[k], out.preAt[k] = a.kind[k], a.preAt[k]
		default:
			out.kind[k] = a.kind[k]
			if b.kind[k] > out.kind[k] {
				out.kind[k] = b.kind[k]
			}
			out.preAt[k] = mergePre(a.preAt[k], b.preAt[k])
		}
	}
	return out
}

type nonceAnalysis struct {
	funcs  map[string]*ast.FuncDecl
	depth  int
	locals map[string]string // single-definition locals of the function being analysed
	assume map[string]bool   // truth assignment of the identifiers the function branches on
	exits  []nstate          // states at the successful exits of the TOP function
}

func selName(e ast.Expr) string {
	switch x := e.(type) {
	case *ast.SelectorExpr:
		return x.Sel.Name
	case *ast.Ident:
		return x.Name
	}
	return ""
}

func (na *nonceAnalysis) unfold(e ast.Expr) string {
	t := Nospace(e)
	for i := 0; i < 3; i++ {
		if v, ok := na.locals[t]; ok {
			t = v
		}
	}
	return t
}

// nonceArg classifies the second argument of a SetNonce call: "n" = msg.Nonce(), "n+1", "" = something else
func (na *nonceAnalysis) nonceArg(e ast.Expr) string {
	for {
		pe, ok := e.(*ast.ParenExpr)
		if !ok {
			break
		}
		e = pe.X
	}
	t := na.unfold(e)
	if be, ok := e.(*ast.BinaryExpr); ok && be.Op == token.ADD {
		t = na.unfold(be.X) + "+" + na.unfold(be.Y)
	}
	switch {
	case strings.HasSuffix(t, ".Nonce()+1") || strings.HasPrefix(t, "1+") && strings.HasSuffix(t, ".Nonce()"):
		return "n+1"
	case strings.HasSuffix(t, ".Nonce()") && !strings.Contains(t, "+"):
		return "n"
	}
	return ""
}

func singleDefs(fd *ast.FuncDecl) map[string]string {
	count := map[string]int{}
	val := map[string]string{}
	ast.Inspect(fd.Body, func(n ast.Node) bool {
		as, ok := n.(*ast.AssignStmt)
		if !ok || len(as.Lhs) != len(as.Rhs) {
			if ok {
				for _, l := range as.Lhs {
					if id, ok := l.(*ast.Ident); ok {
						count[id.Name] += 2
					}
				}
			}
			return true
		}
		for i, l := range as.Lhs {
			if id, ok := l.(*ast.Ident); ok {
				count[id.Name]++
				val[id.Name] = Nospace(as.Rhs[i])
			}
		}
		return true
	})
	out := map[string]string{}
	for k, c := range count {
		if c == 1 {
			out[k] = val[k]
		}
	}
	return out
}

// calls applies the effect of every call inside one expression / simple statement, innermost first
func (na *nonceAnalysis) calls(n ast.Node, s nstate) nstate {
	if n == nil {
		return s
	}
	var list []*ast.CallExpr
	ast.Inspect(n, func(m ast.Node) bool {
		if _, ok := m.(*ast.FuncLit); ok {
			return false
		}
		if c, ok := m.(*ast.CallExpr); ok {
			list = append(list, c)
		}
		return true
	})
	for i := len(list) - 1; i >= 0; i-- {
		c := list[i]
		name := selName(c.Fun)
		_, isSel := c.Fun.(*ast.SelectorExpr)
		switch {
		case isSel && name == "SetNonce" && len(c.Args) == 2:
			switch na.nonceArg(c.Args[1]) {
			case "n":
				s.pre = 1
			case "n+1":
				s.pre = 2
				for k := 0; k < 2; k++ {
					if s.kind[k] == stRanNoBump {
						s.kind[k] = stBumped
					}
				}
			default:
				s.pre = 3
			}
		case isSel && name == "Create" && len(c.Args) == 4:
			s.kind[1], s.preAt[1] = stRanNoBump, s.pre
		case isSel && name == "Call" && len(c.Args) == 5:
			s.kind[0], s.preAt[0] = stRanNoBump, s.pre
		default:
			if fd, ok := na.funcs[name]; ok && fd.Body != nil && na.depth < 4 && mentionsEVM(fd) {
				na.depth++
				saved, savedAssume := na.locals, na.assume
				na.locals = singleDefs(fd)
				inner := map[string]bool{}
				var params []string
				for _, f := range fd.Type.Params.List {
					for _, nm := range f.Names {
						params = append(params, nm.Name)
					}
				}
				for i, a := range c.Args {
					if v, ok := condValue(a, savedAssume); ok && i < len(params) {
						inner[params[i]] = v
					}
				}
				na.assume = inner
				var rets []nstate
				end := na.block(fd.Body.List, s, &rets)
				na.locals, na.assume = saved, savedAssume
				na.depth--
				out := end
				for _, r := range rets {
					out = mergeStates(out, r)
				}
				out.dead = false
				s = out
			}
		}
	}
	return s
}

// condValue evaluates `x` / `!x` under the assumptions
func condValue(e ast.Expr, assume map[string]bool) (bool, bool) {
	switch x := e.(type) {
	case *ast.Ident:
		v, ok := assume[x.Name]
		return v, ok
	case *ast.ParenExpr:
		return condValue(x.X, assume)
	case *ast.UnaryExpr:
		if x.Op == token.NOT {
			v, ok := condValue(x.X, assume)
			return !v, ok
		}
	}
	return false, false
}

// branchIdents: identifiers used as a bare `if x` / `if !x` condition in the function
func branchIdents(fd *ast.FuncDecl) []string {
	seen := map[string]bool{}
	var out []string
	ast.Inspect(fd.Body, func(n ast.Node) bool {
		is, ok := n.(*ast.IfStmt)
		if !ok {
			return true
		}
		var e ast.Expr = is.Cond
		for {
			if p, ok := e.(*ast.ParenExpr); ok {
				e = p.X
			} else if u, ok := e.(*ast.UnaryExpr); ok && u.Op == token.NOT {
				e = u.X
			} else {
				break
			}
		}
		if id, ok := e.(*ast.Ident); ok && !seen[id.Name] {
			seen[id.Name] = true
			out = append(out, id.Name)
		}
		return true
	})
	return out
}

func mentionsEVM(fd *ast.FuncDecl) bool {
	t := Nospace(fd.Body)
	return strings.Contains(t, ".Create(") || strings.Contains(t, ".Call(") || strings.Contains(t, ".SetNonce(")
}

// block runs the statements; `rets` collects the states at return statements (nil error / helper returns)
func (na *nonceAnalysis) block(stmts []ast.Stmt, s nstate, rets *[]nstate) nstate {
	for _, st := range stmts {
		if s.dead {
			return s
		}
		s = na.stmt(st, s, rets)
	}
	return s
}

func (na *nonceAnalysis) stmt(st ast.Stmt, s nstate, rets *[]nstate) nstate {
	switch x := st.(type) {
	case *ast.BlockStmt:
		return na.block(x.List, s, rets)
	case *ast.IfStmt:
		if x.Init != nil {
			s = na.stmt(x.Init, s, rets)
		}
		s = na.calls(x.Cond, s)
		if v, ok := condValue(x.Cond, na.assume); ok {
			if v {
				return na.block(x.Body.List, s, rets)
			}
			if x.Else != nil {
				return na.stmt(x.Else, s, rets)
			}
			return s
		}
		a := na.block(x.Body.List, s, rets)
		b := s
		if x.Else != nil {
			b = na.stmt(x.Else, s, rets)
		}
		if a.dead && b.dead {
			return a
		}
		return mergeStates(a, b)
	case *ast.SwitchStmt:
		if x.Init != nil {
			s = na.stmt(x.Init, s, rets)
		}
		s = na.calls(x.Tag, s)
		out := nstate{dead: true}
		hasDefault := false
		for _, cc := range x.Body.List {
			cl := cc.(*ast.CaseClause)
			if cl.List == nil {
				hasDefault = true
			}
			out = mergeStates(out, na.block(cl.Body, s, rets))
		}
		if !hasDefault {
			out = mergeStates(out, s)
		}
		return out
	case *ast.ForStmt:
		return mergeStates(s, na.block(x.Body.List, s, rets))
	case *ast.RangeStmt:
		return mergeStates(s, na.block(x.Body.List, s, rets))
	case *ast.ReturnStmt:
		s = na.calls(x, s)
		failing := false
		if na.depth == 0 && len(x.Results) > 0 {
			last := Nospace(x.Results[len(x.Results)-1])
			failing = last != "nil" && last != "err" // `err` may be nil: counted as a successful exit
		}
		if !failing {
			*rets = append(*rets, s)
		}
		s.dead = true
		return s
	case *ast.DeferStmt, *ast.GoStmt:
		return s
	case *ast.LabeledStmt:
		return na.stmt(x.Stmt, s, rets)
	default:
		return na.calls(st, s)
	}
}

func emitApplyNonce(repo string) {
	files := ParseDir(repo + "/x/evm/keeper")
	funcs := Funcs(files)
	pre := [2]int{0, 0}
	post := [2]bool{false, false}
	if fd, ok := funcs["ApplyEvmMsg"]; ok && fd.Body != nil {
		ids := branchIdents(fd)
		if len(ids) > 4 {
			ids = ids[:4]
		}
		var rets []nstate
		for m := 0; m < 1<<len(ids); m++ {
			assume := map[string]bool{}
			for i, id := range ids {
				assume[id] = m&(1<<i) != 0
			}
			na := &nonceAnalysis{funcs: funcs, locals: singleDefs(fd), assume: assume}
			var rs []nstate
			end := na.block(fd.Body.List, nstate{}, &rs)
			if !end.dead {
				rs = append(rs, end)
			}
			rets = append(rets, rs...)
		}
		saw := [2]bool{}
		post = [2]bool{true, true}
		for _, r := range rets {
			for k := 0; k < 2; k++ {
				if r.kind[k] == stNotRun {
					continue
				}
				if !saw[k] {
					pre[k] = r.preAt[k]
				} else {
					pre[k] = mergePre(pre[k], r.preAt[k])
				}
				saw[k] = true
				post[k] = post[k] && r.kind[k] == stBumped
			}
		}
		for k := 0; k < 2; k++ {
			post[k] = post[k] && saw[k]
			if !saw[k] {
				pre[k] = 3
			}
		}
	}
	fmt.Printf("Definition apply_pre_nonce_call : nat := %d.\n", pre[0])
	fmt.Printf("Definition apply_pre_nonce_create : nat := %d.\n", pre[1])
	fmt.Printf("Definition apply_post_nonce_call : bool := %s.\n", CoqBool(post[0]))
	fmt.Printf("Definition apply_post_nonce_create : bool := %s.\n", CoqBool(post[1]))
}
