package main

// What Keeper.ApplyEvmMsg (x/evm/keeper) does with the sender nonce around the EVM invocation — printed as three
// booleans (terms, never verdicts):
//
//	apply_nonce_reset        StateDB.SetNonce(from, msg.Nonce()) runs before evm.Create / evm.Call on every path
//	apply_post_nonce_call    StateDB.SetNonce(from, msg.Nonce()+1) runs after evm.Call on every successful exit
//	apply_post_nonce_create  … after evm.Create …
//
// A tiny abstract interpretation of the function body: statements in order, if / switch branches separately,
// same-package helper functions entered at their call (so the Create-vs-Call dispatch may live in a helper), branches
// that end in `return …, <non-nil error>` dropped (the message fails as a whole).  Per invocation kind the state is
// not-run < bumped < ran-without-bump; a branch in which a kind did not run says nothing about that kind.

import (
	"fmt"
	"go/ast"
	"go/token"
	"strings"

	. "verifharness/genlib"
)

const (
	stNotRun = iota
	stBumped
	stRanNoBump
)

type nstate struct {
	kind    [2]int  // 0 = call, 1 = create
	resetOK [2]bool // at the time the EVM was invoked the nonce had been reset to msg.Nonce()
	reset   bool    // SetNonce(from, msg.Nonce()) executed on this path so far
	dead    bool    // path ended (return)
}

func mergeStates(a, b nstate) nstate {
	if a.dead {
		return b
	}
	if b.dead {
		return a
	}
	out := nstate{reset: a.reset && b.reset}
	for k := 0; k < 2; k++ {
		switch {
		case a.kind[k] == stNotRun:
			out.kind[k], out.resetOK[k] = b.kind[k], b.resetOK[k]
		case b.kind[k] == stNotRun:
			out.kind[k], out.resetOK[k] = a.kind[k], a.resetOK[k]
		default:
			out.kind[k] = a.kind[k]
			if b.kind[k] > out.kind[k] {
				out.kind[k] = b.kind[k]
			}
			out.resetOK[k] = a.resetOK[k] && b.resetOK[k]
		}
	}
	return out
}

type nonceAnalysis struct {
	funcs  map[string]*ast.FuncDecl
	depth  int
	locals map[string]string // single-definition locals of the function being analysed
	exits  []nstate          // states at the successful exits of the TOP function
}

func selName(e ast.Expr) string {
	switch x := e.(type) {
	case *ast.SelectorExpr:
		return x.Sel.Name
	case *ast.Ident:
		return x.Name
	}
	return ""
}

func (na *nonceAnalysis) unfold(e ast.Expr) string {
	t := Nospace(e)
	for i := 0; i < 3; i++ {
		if v, ok := na.locals[t]; ok {
			t = v
		}
	}
	return t
}

// nonceArg classifies the second argument of a SetNonce call: "n" = msg.Nonce(), "n+1", "" = something else
func (na *nonceAnalysis) nonceArg(e ast.Expr) string {
	for {
		pe, ok := e.(*ast.ParenExpr)
		if !ok {
			break
		}
		e = pe.X
	}
	t := na.unfold(e)
	if be, ok := e.(*ast.BinaryExpr); ok && be.Op == token.ADD {
		t = na.unfold(be.X) + "+" + na.unfold(be.Y)
	}
	switch {
	case strings.HasSuffix(t, ".Nonce()+1") || strings.HasPrefix(t, "1+") && strings.HasSuffix(t, ".Nonce()"):
		return "n+1"
	case strings.HasSuffix(t, ".Nonce()") && !strings.Contains(t, "+"):
		return "n"
	}
	return ""
}

func singleDefs(fd *ast.FuncDecl) map[string]string {
	count := map[string]int{}
	val := map[string]string{}
	ast.Inspect(fd.Body, func(n ast.Node) bool {
		as, ok := n.(*ast.AssignStmt)
		if !ok || len(as.Lhs) != len(as.Rhs) {
			if ok {
				for _, l := range as.Lhs {
					if id, ok := l.(*ast.Ident); ok {
						count[id.Name] += 2
					}
				}
			}
			return true
		}
		for i, l := range as.Lhs {
			if id, ok := l.(*ast.Ident); ok {
				count[id.Name]++
				val[id.Name] = Nospace(as.Rhs[i])
			}
		}
		return true
	})
	out := map[string]string{}
	for k, c := range count {
		if c == 1 {
			out[k] = val[k]
		}
	}
	return out
}

// calls applies the effect of every call inside one expression / simple statement, innermost first
func (na *nonceAnalysis) calls(n ast.Node, s nstate) nstate {
	if n == nil {
		return s
	}
	var list []*ast.CallExpr
	ast.Inspect(n, func(m ast.Node) bool {
		if _, ok := m.(*ast.FuncLit); ok {
			return false
		}
		if c, ok := m.(*ast.CallExpr); ok {
			list = append(list, c)
		}
		return true
	})
	for i := len(list) - 1; i >= 0; i-- {
		c := list[i]
		name := selName(c.Fun)
		_, isSel := c.Fun.(*ast.SelectorExpr)
		switch {
		case isSel && name == "SetNonce" && len(c.Args) == 2:
			switch na.nonceArg(c.Args[1]) {
			case "n":
				s.reset = true
			case "n+1":
				for k := 0; k < 2; k++ {
					if s.kind[k] == stRanNoBump {
						s.kind[k] = stBumped
					}
				}
			}
		case isSel && name == "Create" && len(c.Args) == 4:
			s.kind[1], s.resetOK[1] = stRanNoBump, s.reset
		case isSel && name == "Call" && len(c.Args) == 5:
			s.kind[0], s.resetOK[0] = stRanNoBump, s.reset
		default:
			if fd, ok := na.funcs[name]; ok && fd.Body != nil && na.depth < 4 && mentionsEVM(fd) {
				na.depth++
				saved := na.locals
				na.locals = singleDefs(fd)
				var rets []nstate
				end := na.block(fd.Body.List, s, &rets)
				na.locals = saved
				na.depth--
				out := end
				for _, r := range rets {
					out = mergeStates(out, r)
				}
				out.dead = false
				s = out
			}
		}
	}
	return s
}

func mentionsEVM(fd *ast.FuncDecl) bool {
	t := Nospace(fd.Body)
	return strings.Contains(t, ".Create(") || strings.Contains(t, ".Call(") || strings.Contains(t, ".SetNonce(")
}

// block runs the statements; `rets` collects the states at return statements (nil error / helper returns)
func (na *nonceAnalysis) block(stmts []ast.Stmt, s nstate, rets *[]nstate) nstate {
	for _, st := range stmts {
		if s.dead {
			return s
		}
		s = na.stmt(st, s, rets)
	}
	return s
}

func (na *nonceAnalysis) stmt(st ast.Stmt, s nstate, rets *[]nstate) nstate {
	switch x := st.(type) {
	case *ast.BlockStmt:
		return na.block(x.List, s, rets)
	case *ast.IfStmt:
		if x.Init != nil {
			s = na.stmt(x.Init, s, rets)
		}
		s = na.calls(x.Cond, s)
		a := na.block(x.Body.List, s, rets)
		b := s
		if x.Else != nil {
			b = na.stmt(x.Else, s, rets)
		}
		if a.dead && b.dead {
			return a
		}
		return mergeStates(a, b)
	case *ast.SwitchStmt:
		if x.Init != nil {
			s = na.stmt(x.Init, s, rets)
		}
		s = na.calls(x.Tag, s)
		out := nstate{dead: true}
		hasDefault := false
		for _, cc := range x.Body.List {
			cl := cc.(*ast.CaseClause)
			if cl.List == nil {
				hasDefault = true
			}
			out = mergeStates(out, na.block(cl.Body, s, rets))
		}
		if !hasDefault {
			out = mergeStates(out, s)
		}
		return out
	case *ast.ForStmt:
		return mergeStates(s, na.block(x.Body.List, s, rets))
	case *ast.RangeStmt:
		return mergeStates(s, na.block(x.Body.List, s, rets))
	case *ast.ReturnStmt:
		s = na.calls(x, s)
		failing := false
		if na.depth == 0 && len(x.Results) > 0 {
			last := Nospace(x.Results[len(x.Results)-1])
			failing = last != "nil" && last != "err" // `err` may be nil: counted as a successful exit
		}
		if !failing {
			*rets = append(*rets, s)
		}
		s.dead = true
		return s
	case *ast.DeferStmt, *ast.GoStmt:
		return s
	case *ast.LabeledStmt:
		return na.stmt(x.Stmt, s, rets)
	default:
		return na.calls(st, s)
	}
}

func emitApplyNonce(repo string) {
	files := ParseDir(repo + "/x/evm/keeper")
	funcs := Funcs(files)
	reset, postCall, postCreate := false, false, false
	if fd, ok := funcs["ApplyEvmMsg"]; ok && fd.Body != nil {
		na := &nonceAnalysis{funcs: funcs, locals: singleDefs(fd)}
		var rets []nstate
		end := na.block(fd.Body.List, nstate{}, &rets)
		if !end.dead {
			rets = append(rets, end)
		}
		sawCall, sawCreate := false, false
		reset, postCall, postCreate = true, true, true
		for _, r := range rets {
			if r.kind[0] != stNotRun {
				sawCall = true
				postCall = postCall && r.kind[0] == stBumped
				reset = reset && r.resetOK[0]
			}
			if r.kind[1] != stNotRun {
				sawCreate = true
				postCreate = postCreate && r.kind[1] == stBumped
				reset = reset && r.resetOK[1]
			}
		}
		postCall, postCreate = postCall && sawCall, postCreate && sawCreate
		reset = reset && (sawCall || sawCreate)
	}
	fmt.Printf("Definition apply_nonce_reset : bool := %s.\n", CoqBool(reset))
	fmt.Printf("Definition apply_post_nonce_call : bool := %s.\n", CoqBool(postCall))
	fmt.Printf("Definition apply_post_nonce_create : bool := %s.\n", CoqBool(postCreate))
}
