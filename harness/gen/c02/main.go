// Command gen/c02 prints coq/Gen/C02Facts.v (same extractor as C17) from the /repo working tree (terms, never verdicts).
package main

import (
	"verifharness/gen/c17/antefacts"
	. "verifharness/genlib"
)

func main() {
	repo := Repo()
	Header(repo)
	antefacts.Emit(repo)
}
