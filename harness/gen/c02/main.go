// Command gen/c02 prints coq/Gen/C02Facts.v from the /repo working tree (terms, never verdicts): the ante / wasm /
// signer facts of the extractor shared with C17, plus what Keeper.ApplyEvmMsg does with the sender nonce around the
// EVM invocation (applynonce.go).
package main

import (
	"verifharness/gen/c17/antefacts"
	. "verifharness/genlib"
)

func main() {
	repo := Repo()
	Header(repo)
	antefacts.Emit(repo)
	emitApplyNonce(repo)
	emitTxPrices(repo)
}
