package main

// Per TxData implementation (x/evm: LegacyTx, AccessListTx, DynamicFeeTx): does EffectiveFeeWei — the amount
// keeper.VerifyFee makes the ante handler deduct — and does EffectiveGasPriceWeiPerGas — the price Keeper.RefundGas
// refunds leftover gas at — floor the named price at the base fee?  Printed as
//
//	tx_price_facts : list (string * (bool * bool))   (type, (fee floored, refund price floored))
//
// "floored" = the method's body takes a maximum with its base-fee parameter (BigIntMax / BigMax / a Cmp against the
// parameter), directly or through methods of the same receiver type / same-package helpers it hands the parameter to.

import (
	"fmt"
	"go/ast"
	"strings"

	. "verifharness/genlib"
)

type methodKey struct{ recv, name string }

func recvName(fd *ast.FuncDecl) string {
	if fd.Recv == nil || len(fd.Recv.List) == 0 {
		return ""
	}
	t := fd.Recv.List[0].Type
	if st, ok := t.(*ast.StarExpr); ok {
		t = st.X
	}
	if id, ok := t.(*ast.Ident); ok {
		return id.Name
	}
	return ""
}

func emitTxPrices(repo string) {
	files := ParseDir(repo + "/x/evm")
	methods := map[methodKey]*ast.FuncDecl{}
	for _, fl := range files {
		for _, d := range fl.F.Decls {
			if fd, ok := d.(*ast.FuncDecl); ok && fd.Body != nil {
				methods[methodKey{recvName(fd), fd.Name.Name}] = fd
			}
		}
	}
	// floors(fd): the function takes a maximum with one of its *big.Int parameters named like a base fee, or passes
	// such a parameter on to a function that does
	var floors func(fd *ast.FuncDecl, depth int) bool
	floors = func(fd *ast.FuncDecl, depth int) bool {
		if fd == nil || depth > 4 {
			return false
		}
		base := map[string]bool{}
		for _, f := range fd.Type.Params.List {
			for _, n := range f.Names {
				if strings.Contains(strings.ToLower(n.Name), "base") {
					base[n.Name] = true
				}
			}
		}
		if len(base) == 0 {
			return false
		}
		recv := recvName(fd)
		found := false
		ast.Inspect(fd.Body, func(n ast.Node) bool {
			c, ok := n.(*ast.CallExpr)
			if !ok || found {
				return !found
			}
			passes := false
			for _, a := range c.Args {
				if id, ok := a.(*ast.Ident); ok && base[id.Name] {
					passes = true
				}
			}
			name := ""
			onRecv := false
			switch f := c.Fun.(type) {
			case *ast.Ident:
				name = f.Name
			case *ast.SelectorExpr:
				name = f.Sel.Name
				_, onRecv = f.X.(*ast.Ident)
			}
			switch {
			case passes && (name == "BigIntMax" || name == "BigMax"):
				found = true
			case passes && name == "Cmp":
				found = true
			case passes && onRecv:
				if floors(methods[methodKey{recv, name}], depth+1) {
					found = true
				}
			case passes:
				if floors(methods[methodKey{"", name}], depth+1) {
					found = true
				}
			}
			return !found
		})
		return found
	}
	var rows []string
	for _, ty := range []string{"LegacyTx", "AccessListTx", "DynamicFeeTx"} {
		fee := floors(methods[methodKey{ty, "EffectiveFeeWei"}], 0)
		price := floors(methods[methodKey{ty, "EffectiveGasPriceWeiPerGas"}], 0)
		rows = append(rows, fmt.Sprintf("(%s, (%s, %s))", CoqString(ty), CoqBool(fee), CoqBool(price)))
	}
	fmt.Printf("Definition tx_price_facts : list (string * (bool * bool)) := [%s].\n", strings.Join(rows, "; "))
}
