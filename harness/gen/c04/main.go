// Command gen/c04 prints coq/Gen/C04Facts.v from the /repo working tree (terms, never verdicts):
// the per-tx limit of Nibiru precompile calls and how it is checked, the order of the StateDB calls
// made by precompile.OnRunStart and which precompile Run methods go through OnRunStart.
package main

import (
	"fmt"
	"go/ast"
	"go/token"
	"sort"
	"strings"

	. "verifharness/genlib"
)

func main() {
	repo := Repo()
	Header(repo)
	sdb := ParseDir(repo + "/x/evm/statedb")
	pre := ParseDir(repo + "/x/evm/precompile")
	sf := Funcs(sdb)
	pf := Funcs(pre)

	// const maxMultistoreCacheCount … = N
	limit := "-1"
	for _, fl := range sdb {
		for _, d := range fl.F.Decls {
			gd, ok := d.(*ast.GenDecl)
			if !ok || gd.Tok != token.CONST {
				continue
			}
			for _, sp := range gd.Specs {
				vs := sp.(*ast.ValueSpec)
				for i, n := range vs.Names {
					if n.Name == "maxMultistoreCacheCount" && i < len(vs.Values) {
						if bl, ok := vs.Values[i].(*ast.BasicLit); ok && bl.Kind == token.INT {
							limit = bl.Value
						}
					}
				}
			}
		}
	}

	// SavePrecompileCalledJournalChange: how the count is compared with the limit (normalised to
	// "count REL limit"), and whether the journal append and the increment precede the check
	limitRel := "?"
	incrBefore, appendBefore := false, false
	if fd := sf["SavePrecompileCalledJournalChange"]; fd != nil && fd.Body != nil {
		seenIncr, seenAppend := false, false
		isCount := func(e ast.Expr) bool {
			sel, ok := e.(*ast.SelectorExpr)
			return ok && sel.Sel.Name == "multistoreCacheCount"
		}
		isLimit := func(e ast.Expr) bool {
			id, ok := e.(*ast.Ident)
			return ok && id.Name == "maxMultistoreCacheCount"
		}
		flip := map[string]string{">": "<", "<": ">", ">=": "<=", "<=": ">=", "==": "==", "!=": "!="}
		for _, st := range fd.Body.List {
			switch x := st.(type) {
			case *ast.IncDecStmt:
				if isCount(x.X) && x.Tok == token.INC {
					seenIncr = true
				}
			case *ast.ExprStmt:
				if strings.Contains(Nospace(x), ".Journal.append(") {
					seenAppend = true
				}
			case *ast.IfStmt:
				if be, ok := x.Cond.(*ast.BinaryExpr); ok {
					op := be.Op.String()
					switch {
					case isCount(be.X) && isLimit(be.Y):
						limitRel = "count" + op + "limit"
					case isLimit(be.X) && isCount(be.Y):
						limitRel = "count" + flip[op] + "limit"
					}
					if limitRel != "?" {
						incrBefore, appendBefore = seenIncr, seenAppend
					}
				}
			}
		}
	}

	// OnRunStart: calls on the StateDB, in source order
	var orsCalls []string
	if fd := pf["OnRunStart"]; fd != nil && fd.Body != nil {
		ast.Inspect(fd.Body, func(n ast.Node) bool {
			call, ok := n.(*ast.CallExpr)
			if !ok {
				return true
			}
			// the StateDB methods that matter for the order, whatever the local variable is called
			if sel, ok := call.Fun.(*ast.SelectorExpr); ok {
				switch sel.Sel.Name {
				case "CacheCtxForPrecompile", "SavePrecompileCalledJournalChange", "CommitCacheCtx", "Commit":
					orsCalls = append(orsCalls, sel.Sel.Name)
				}
			}
			return true
		})
	}

	// every method named Run in x/evm/precompile: does it call OnRunStart ?
	type runm struct {
		recv string
		uses bool
	}
	var runs []runm
	for _, fl := range pre {
		for _, d := range fl.F.Decls {
			fd, ok := d.(*ast.FuncDecl)
			if !ok || fd.Name.Name != "Run" || fd.Recv == nil || fd.Body == nil {
				continue
			}
			recv := Nospace(fd.Recv.List[0].Type)
			uses := false
			ast.Inspect(fd.Body, func(n ast.Node) bool {
				if call, ok := n.(*ast.CallExpr); ok {
					if id, ok := call.Fun.(*ast.Ident); ok && id.Name == "OnRunStart" {
						uses = true
					}
				}
				return true
			})
			runs = append(runs, runm{recv, uses})
		}
	}
	sort.Slice(runs, func(i, j int) bool { return runs[i].recv < runs[j].recv })

	strList := func(xs []string) string {
		q := make([]string, len(xs))
		for i, x := range xs {
			q[i] = CoqString(x)
		}
		return "[" + strings.Join(q, "; ") + "]"
	}

	fmt.Println("From Coq Require Import ZArith String List. Import ListNotations. Open Scope string_scope.")
	fmt.Printf("Definition max_multistore_cache_count : Z := (%s)%%Z.\n", limit)
	fmt.Printf("Definition limit_relation : string := %s.\n", CoqString(limitRel))
	fmt.Printf("Definition limit_incr_before_check : bool := %s.\n", CoqBool(incrBefore))
	fmt.Printf("Definition limit_journaled_before_check : bool := %s.\n", CoqBool(appendBefore))
	fmt.Printf("Definition on_run_start_statedb_calls : list string := %s.\n", strList(orsCalls))
	fmt.Println("Definition precompile_run_methods : list (string * bool) := [")
	for i, r := range runs {
		sep := ";"
		if i == len(runs)-1 {
			sep = ""
		}
		fmt.Printf("  (%s, %s)%s\n", CoqString(r.recv), CoqBool(r.uses), sep)
	}
	fmt.Println("].")
}
