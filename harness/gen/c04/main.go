// Command gen/c04 prints coq/Gen/C04Facts.v from the /repo working tree (terms, never verdicts):
// the per-tx limit of Nibiru precompile calls and how it is checked, the order of the StateDB steps
// taken by precompile.OnRunStart, and which precompile Run methods go through OnRunStart.
//
// Steps are followed THROUGH helpers of the same package (transitively, in evaluation order), so that
// extracting a few statements into a helper, moving functions between files or renaming locals does not
// change a fact; a step that is only taken under a condition (inside the body of an if / switch / loop /
// closure — the usual `if err = step(); err != nil { return }` is not a condition on the step) is
// printed with a trailing "?".
package main

import (
	"fmt"
	"go/ast"
	"go/token"
	"sort"
	"strings"

	. "verifharness/genlib"
)

// event is one interesting action found in a function body, in evaluation order.
type event struct {
	name string // method / marker name
	cond bool   // only executed under a condition
}

type walker struct {
	funcs   map[string]*ast.FuncDecl // same-package functions and methods by name
	classer func(n ast.Node) string  // "" = not interesting
}

// events returns the interesting actions of fd's body in evaluation order, inlining same-package callees.
func (w *walker) events(fd *ast.FuncDecl, cond bool, visiting map[string]bool) []event {
	if fd == nil || fd.Body == nil || visiting[fd.Name.Name] {
		return nil
	}
	visiting[fd.Name.Name] = true
	defer delete(visiting, fd.Name.Name)

	type item struct {
		key  token.Pos
		node ast.Node
		cond bool
	}
	var items []item
	var stack []ast.Node
	conditional := func() bool {
		// is the node on top of the stack inside a conditionally executed part of an ancestor?
		for i := 0; i+1 < len(stack); i++ {
			p, c := stack[i], stack[i+1]
			switch x := p.(type) {
			case *ast.IfStmt:
				if c == ast.Node(x.Body) || (x.Else != nil && c == x.Else) {
					return true
				}
			case *ast.ForStmt:
				if c == ast.Node(x.Body) {
					return true
				}
			case *ast.RangeStmt:
				if c == ast.Node(x.Body) {
					return true
				}
			case *ast.SwitchStmt:
				if c == ast.Node(x.Body) {
					return true
				}
			case *ast.TypeSwitchStmt:
				if c == ast.Node(x.Body) {
					return true
				}
			case *ast.SelectStmt:
				return true
			case *ast.FuncLit, *ast.DeferStmt, *ast.GoStmt:
				return true
			case *ast.BinaryExpr:
				if (x.Op == token.LAND || x.Op == token.LOR) && c == ast.Node(x.Y) {
					return true
				}
			}
		}
		return false
	}
	ast.Inspect(fd.Body, func(n ast.Node) bool {
		if n == nil {
			stack = stack[:len(stack)-1]
			return true
		}
		stack = append(stack, n)
		switch x := n.(type) {
		case *ast.CallExpr:
			items = append(items, item{x.Rparen, n, conditional()}) // a call completes after its arguments
		case *ast.IncDecStmt, *ast.BinaryExpr, *ast.AssignStmt:
			items = append(items, item{n.End(), n, conditional()})
		}
		return true
	})
	sort.SliceStable(items, func(i, j int) bool { return items[i].key < items[j].key })

	var out []event
	for _, it := range items {
		c := cond || it.cond
		if name := w.classer(it.node); name != "" {
			out = append(out, event{name, c})
			continue
		}
		if call, ok := it.node.(*ast.CallExpr); ok {
			callee := ""
			switch f := call.Fun.(type) {
			case *ast.Ident:
				callee = f.Name
			case *ast.SelectorExpr:
				callee = f.Sel.Name
			}
			if sub := w.funcs[callee]; sub != nil {
				out = append(out, w.events(sub, c, visiting)...)
			}
		}
	}
	return out
}

func render(evs []event) []string {
	out := make([]string, len(evs))
	for i, e := range evs {
		out[i] = e.name
		if e.cond {
			out[i] += "?"
		}
	}
	return out
}

func main() {
	repo := Repo()
	Header(repo)
	sdb := ParseDir(repo + "/x/evm/statedb")
	pre := ParseDir(repo + "/x/evm/precompile")
	sf := Funcs(sdb)
	pf := Funcs(pre)

	// package-level integer constants of x/evm/statedb
	consts := map[string]string{}
	for _, fl := range sdb {
		for _, d := range fl.F.Decls {
			gd, ok := d.(*ast.GenDecl)
			if !ok || gd.Tok != token.CONST {
				continue
			}
			for _, sp := range gd.Specs {
				vs := sp.(*ast.ValueSpec)
				for i, n := range vs.Names {
					if i < len(vs.Values) {
						if bl, ok := vs.Values[i].(*ast.BasicLit); ok && bl.Kind == token.INT {
							consts[n.Name] = bl.Value
						}
					}
				}
			}
		}
	}

	// The per-tx limit and the call counter are found by their ROLE, not by their names: inside
	// SavePrecompileCalledJournalChange (through helpers of package statedb) a field `x.f` is compared with a
	// package-level integer constant `c`: f is the counter, c the limit (whatever they are called).
	countName, limitName := "", ""
	probe := &walker{funcs: sf, classer: func(n ast.Node) string {
		if be, ok := n.(*ast.BinaryExpr); ok && countName == "" {
			for _, pair := range [][2]ast.Expr{{be.X, be.Y}, {be.Y, be.X}} {
				sel, ok1 := pair[0].(*ast.SelectorExpr)
				id, ok2 := pair[1].(*ast.Ident)
				if ok1 && ok2 {
					if _, isConst := consts[id.Name]; isConst {
						countName, limitName = sel.Sel.Name, id.Name
					}
				}
			}
		}
		return ""
	}}
	probe.events(sf["SavePrecompileCalledJournalChange"], false, map[string]bool{})
	limit := "-1"
	if v, ok := consts[limitName]; ok {
		limit = v
	}

	// SavePrecompileCalledJournalChange (through helpers of package statedb): the journal append, the
	// increment of the counter and the comparison with the limit, normalised to "count REL limit"
	isCount := func(e ast.Expr) bool {
		sel, ok := e.(*ast.SelectorExpr)
		return ok && countName != "" && sel.Sel.Name == countName
	}
	isLimit := func(e ast.Expr) bool {
		id, ok := e.(*ast.Ident)
		return ok && limitName != "" && id.Name == limitName
	}
	flip := map[string]string{">": "<", "<": ">", ">=": "<=", "<=": ">=", "==": "==", "!=": "!="}
	sw := &walker{funcs: sf, classer: func(n ast.Node) string {
		switch x := n.(type) {
		case *ast.IncDecStmt:
			if isCount(x.X) && x.Tok == token.INC {
				return "incr"
			}
		case *ast.AssignStmt: // count += 1, count = count + 1
			if len(x.Lhs) == 1 && len(x.Rhs) == 1 && isCount(x.Lhs[0]) {
				if x.Tok == token.ADD_ASSIGN {
					return "incr"
				}
				if be, ok := x.Rhs[0].(*ast.BinaryExpr); ok && x.Tok == token.ASSIGN && be.Op == token.ADD && (isCount(be.X) || isCount(be.Y)) {
					return "incr"
				}
			}
		case *ast.CallExpr:
			if sel, ok := x.Fun.(*ast.SelectorExpr); ok && sel.Sel.Name == "append" {
				if in, ok := sel.X.(*ast.SelectorExpr); ok && in.Sel.Name == "Journal" {
					return "journal"
				}
			}
		case *ast.BinaryExpr:
			op := x.Op.String()
			switch {
			case isCount(x.X) && isLimit(x.Y):
				return "count" + op + "limit"
			case isLimit(x.X) && isCount(x.Y):
				return "count" + flip[op] + "limit"
			}
		}
		return ""
	}}
	saveEvents := render(sw.events(sf["SavePrecompileCalledJournalChange"], false, map[string]bool{}))
	limitRel := "?"
	incrBefore, appendBefore := false, false
	seenIncr, seenAppend := false, false
	for _, e := range saveEvents {
		switch {
		case e == "incr":
			seenIncr = true
		case e == "journal":
			seenAppend = true
		case strings.HasPrefix(e, "count") && limitRel == "?":
			limitRel = e
			incrBefore, appendBefore = seenIncr, seenAppend
		}
	}

	// OnRunStart (through helpers of package precompile): the StateDB steps in evaluation order
	steps := map[string]bool{"CacheCtxForPrecompile": true, "SavePrecompileCalledJournalChange": true, "CommitCacheCtx": true, "Commit": true}
	pw := &walker{funcs: pf, classer: func(n ast.Node) string {
		if call, ok := n.(*ast.CallExpr); ok {
			if sel, ok := call.Fun.(*ast.SelectorExpr); ok && steps[sel.Sel.Name] {
				return sel.Sel.Name
			}
		}
		return ""
	}}
	orsCalls := render(pw.events(pf["OnRunStart"], false, map[string]bool{}))

	// every method named Run in x/evm/precompile: does it reach OnRunStart (directly or through helpers of
	// the package), unconditionally, before anything else that matters here ?
	rw := &walker{funcs: func() map[string]*ast.FuncDecl {
		// do not inline OnRunStart itself: it is the marker
		m := map[string]*ast.FuncDecl{}
		for k, v := range pf {
			if k != "OnRunStart" && k != "Run" {
				m[k] = v
			}
		}
		return m
	}(), classer: func(n ast.Node) string {
		if call, ok := n.(*ast.CallExpr); ok {
			if id, ok := call.Fun.(*ast.Ident); ok && id.Name == "OnRunStart" {
				return "OnRunStart"
			}
		}
		return ""
	}}
	type runm struct {
		recv string
		uses bool
	}
	var runs []runm
	for _, fl := range pre {
		for _, d := range fl.F.Decls {
			fd, ok := d.(*ast.FuncDecl)
			if !ok || fd.Name.Name != "Run" || fd.Recv == nil || fd.Body == nil {
				continue
			}
			recv := strings.TrimPrefix(Nospace(fd.Recv.List[0].Type), "*")
			uses := false
			for _, e := range rw.events(fd, false, map[string]bool{}) {
				if e.name == "OnRunStart" && !e.cond {
					uses = true
				}
			}
			runs = append(runs, runm{recv, uses})
		}
	}
	sort.Slice(runs, func(i, j int) bool { return runs[i].recv < runs[j].recv })

	strList := func(xs []string) string {
		q := make([]string, len(xs))
		for i, x := range xs {
			q[i] = CoqString(x)
		}
		return "[" + strings.Join(q, "; ") + "]"
	}

	fmt.Println("From Coq Require Import ZArith String List. Import ListNotations. Open Scope string_scope.")
	fmt.Printf("Definition max_multistore_cache_count : Z := (%s)%%Z.\n", limit)
	fmt.Printf("Definition limit_relation : string := %s.\n", CoqString(limitRel))
	fmt.Printf("Definition limit_incr_before_check : bool := %s.\n", CoqBool(incrBefore))
	fmt.Printf("Definition limit_journaled_before_check : bool := %s.\n", CoqBool(appendBefore))
	fmt.Printf("Definition on_run_start_statedb_calls : list string := %s.\n", strList(orsCalls))
	fmt.Println("Definition precompile_run_methods : list (string * bool) := [")
	for i, r := range runs {
		sep := ";"
		if i == len(runs)-1 {
			sep = ""
		}
		fmt.Printf("  (%s, %s)%s\n", CoqString(r.recv), CoqBool(r.uses), sep)
	}
	fmt.Println("].")
}
