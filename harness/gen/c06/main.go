// Command gen/c06 prints coq/Gen/C06Facts.v from the /repo working tree (terms, never verdicts):
//
//   - per bridge path (sendToBank coin-born / ERC20-born, sendToEvm coin-born / ERC20-born, bankMsgSend,
//     convertCoinToEvmBornCoin, convertCoinToEvmBornERC20) the ordered list of ledger operations it performs,
//     between which parties, and WHICH amount each uses (requested vs measured balance increase);
//   - the shape of the keeper's ERC20 Transfer helper (before/after balance, success flag, increase, rejection);
//   - the guards of createFunTokenFromCoin / createFunTokenFromERC20 in order and by which index, and which VALUE of the
//     denom string (as given by the message / rewritten since) the guard, the metadata lookup and the insert of
//     createFunTokenFromCoin use;
//   - the re-entry guards: is the context handed to precompiles marked, and do ConvertCoinToEvm / CreateFunToken refuse on a
//     marked context before anything else;
//   - for every NibiruBankKeeper method wrapped in ForceGasInvariant, which accounts are re-synced into the StateDB.
//
// The walk is a small symbolic execution in source order: IsMadeFromCoin tests are decided for the birth being
// extracted, error-return branches are skipped, helpers of the same package that perform ledger operations are
// inlined, local variables carry a party class (caller / recipient / module) and an amount class (requested /
// measured).  Names of locals, error texts, pure statements and event plumbing do not matter.
package main

import (
	"fmt"
	"go/ast"
	"go/token"
	"sort"
	"strings"

	. "verifharness/genlib"
)

type env struct {
	party map[string]string // local -> PCaller | PRecipient | PModule
	amt   map[string]string // local -> ARequested | AMeasured
	pack  map[string][]ast.Expr
	packM map[string]string
}

var _ = (*env).copyFields

func newEnv() *env {
	return &env{party: map[string]string{}, amt: map[string]string{}, pack: map[string][]ast.Expr{}, packM: map[string]string{}}
}

type walker struct {
	funcs map[string]*ast.FuncDecl
	born  bool // IsMadeFromCoin value of the path being extracted
	steps []string
	depth int
	// error propagation: does the statement being walked check the error of the call it makes and hand it on?
	curProp bool
	stack   []bool // … and the same for every helper call site we are inlined through
}

func idents(e ast.Node) []string {
	var out []string
	ast.Inspect(e, func(n ast.Node) bool {
		if id, ok := n.(*ast.Ident); ok {
			out = append(out, id.Name)
		}
		return true
	})
	return out
}

// names: identifiers and field selections (x.f) of an expression, outermost first
func names(e ast.Node) []string {
	var out []string
	ast.Inspect(e, func(n ast.Node) bool {
		switch x := n.(type) {
		case *ast.SelectorExpr:
			out = append(out, Nospace(x))
		case *ast.Ident:
			out = append(out, x.Name)
		}
		return true
	})
	return out
}

func (en *env) partyOf(e ast.Expr) string {
	s := Nospace(e)
	if strings.Contains(s, "EVM_MODULE_ADDRESS") || strings.Contains(s, "evm.ModuleName") {
		return "PModule"
	}
	for _, id := range names(e) {
		if p, ok := en.party[id]; ok {
			return p
		}
	}
	return "PUnknown"
}

func (en *env) amtOf(e ast.Expr) string {
	res := "AUnknown"
	for _, id := range names(e) {
		switch en.amt[id] {
		case "AMeasured":
			return "AMeasured"
		case "ARequested":
			res = "ARequested"
		}
	}
	return res
}

// selector chain of a call: a.b.c(...) -> ["a","b","c"]; calls in the chain are looked through (k.ERC20().Transfer)
func chain(e ast.Expr) []string {
	switch x := e.(type) {
	case *ast.SelectorExpr:
		return append(chain(x.X), x.Sel.Name)
	case *ast.CallExpr:
		return append(chain(x.Fun), "()")
	case *ast.Ident:
		return []string{x.Name}
	case *ast.ParenExpr:
		return chain(x.X)
	case *ast.StarExpr:
		return chain(x.X)
	}
	return []string{"?"}
}

func hasSuffix(c []string, suf ...string) bool {
	if len(c) < len(suf) {
		return false
	}
	for i := range suf {
		if c[len(c)-len(suf)+i] != suf[i] {
			return false
		}
	}
	return true
}

func endsInReturn(b *ast.BlockStmt) bool {
	if b == nil || len(b.List) == 0 {
		return false
	}
	_, ok := b.List[len(b.List)-1].(*ast.ReturnStmt)
	return ok
}

// bornTest: is cond `X.IsMadeFromCoin` (pos=true) or `!X.IsMadeFromCoin` (pos=false)?
func bornTest(cond ast.Expr) (isTest, pos bool) {
	switch x := cond.(type) {
	case *ast.SelectorExpr:
		if x.Sel.Name == "IsMadeFromCoin" {
			return true, true
		}
	case *ast.UnaryExpr:
		if x.Op == token.NOT {
			if t, p := bornTest(x.X); t {
				return true, !p
			}
		}
	case *ast.ParenExpr:
		return bornTest(x.X)
	}
	return false, false
}

// call handles one call expression (after its arguments have been visited); lhs are the names it is assigned to.
func (w *walker) call(en *env, c *ast.CallExpr, lhs []string) {
	ch := chain(c.Fun)
	a := c.Args
	add := func(f string, xs ...string) {
		ok := w.curProp
		for _, b := range w.stack {
			ok = ok && b
		}
		w.steps = append(w.steps, "("+f+" "+strings.Join(xs, " ")+", "+CoqBool(ok)+")")
	}
	switch {
	case hasSuffix(ch, "ERC20", "()", "Transfer") && len(a) >= 4:
		add("LErcTransfer", en.partyOf(a[1]), en.partyOf(a[2]), en.amtOf(a[3]))
		if len(lhs) > 0 && lhs[0] != "_" {
			en.amt[lhs[0]] = "AMeasured"
		}
	case hasSuffix(ch, "ERC20", "()", "Mint") && len(a) >= 4:
		add("LErcMint", en.partyOf(a[2]), en.amtOf(a[3]))
	case hasSuffix(ch, "ERC20", "()", "Burn") && len(a) >= 3:
		add("LErcBurn", en.partyOf(a[1]), en.amtOf(a[2]))
	case hasSuffix(ch, "Bank", "SendCoinsFromAccountToModule") && len(a) == 4:
		add("LBankToModule", en.partyOf(a[1]), en.amtOf(a[3]))
	case hasSuffix(ch, "Bank", "SendCoinsFromModuleToAccount") && len(a) == 4:
		add("LBankFromModule", en.partyOf(a[2]), en.amtOf(a[3]))
	case hasSuffix(ch, "Bank", "MintCoins") && len(a) == 3:
		add("LBankMint", en.amtOf(a[2]))
	case hasSuffix(ch, "Bank", "BurnCoins") && len(a) == 3:
		add("LBankBurn", en.amtOf(a[2]))
	case hasSuffix(ch, "NewMsgServerImpl", "()", "Send") && len(a) == 2:
		// the message is a local built from a bank.MsgSend literal: its fields were classified at the literal
		m := Nospace(a[1])
		add("LBankMsgSend", orUnknownP(en.party[m+".from"]), orUnknownP(en.party[m+".to"]), orUnknownA(en.amt[m+".amount"]))
	case hasSuffix(ch, "ABI", "Pack") && len(a) >= 1 && len(lhs) > 0:
		if lit, ok := a[0].(*ast.BasicLit); ok {
			en.packM[lhs[0]] = strings.Trim(lit.Value, `"`)
			en.pack[lhs[0]] = a[1:]
		}
	case hasSuffix(ch, "CallContractWithInput") && len(a) >= 6:
		if id, ok := a[5].(*ast.Ident); ok {
			args := en.pack[id.Name]
			switch en.packM[id.Name] {
			case "mint":
				if len(args) == 2 {
					add("LErcMint", en.partyOf(args[0]), en.amtOf(args[1]))
				}
			case "burn":
				if len(args) == 1 {
					add("LErcBurn", en.partyOf(a[2]), en.amtOf(args[0]))
				}
			case "transfer":
				if len(args) == 2 {
					add("LErcTransfer", en.partyOf(a[2]), en.partyOf(args[0]), en.amtOf(args[1]))
				}
			}
		}
	default:
		// a helper of the same package that performs ledger operations: inline it
		name := ch[len(ch)-1]
		if fd, ok := w.funcs[name]; ok && w.depth < 3 && fd.Body != nil && performsLedgerOps(fd, w.funcs, 0) {
			sub := newEnv()
			i := 0
			for _, fld := range fd.Type.Params.List {
				for _, nm := range fld.Names {
					if i < len(a) {
						if cl := compositeOf(a[i]); cl != nil {
							sub.bindFields(en, nm.Name, cl) // parameter struct: resolve field reads back to the caller's expressions
						} else if id, ok := a[i].(*ast.Ident); ok && hasFields(en, id.Name) {
							sub.copyFields(en, nm.Name, id.Name)
						} else {
							if p := en.partyOf(a[i]); p != "PUnknown" {
								sub.party[nm.Name] = p
							}
							if m := en.amtOf(a[i]); m != "AUnknown" {
								sub.amt[nm.Name] = m
							}
						}
					}
					i++
				}
			}
			w.depth++
			w.stack = append(w.stack, w.curProp)
			saved := w.curProp
			ret := w.block(sub, fd.Body)
			w.curProp = saved
			w.stack = w.stack[:len(w.stack)-1]
			w.depth--
			if len(lhs) > 0 && lhs[0] != "_" && ret != "" && ret != "AUnknown" {
				en.amt[lhs[0]] = ret
			}
		}
	}
}

func hasFields(en *env, name string) bool {
	for k := range en.party {
		if strings.HasPrefix(k, name+".") {
			return true
		}
	}
	for k := range en.amt {
		if strings.HasPrefix(k, name+".") {
			return true
		}
	}
	return false
}

func orUnknownP(s string) string {
	if s == "" {
		return "PUnknown"
	}
	return s
}
func orUnknownA(s string) string {
	if s == "" {
		return "AUnknown"
	}
	return s
}

func performsLedgerOps(fd *ast.FuncDecl, funcs map[string]*ast.FuncDecl, d int) bool {
	found := false
	ast.Inspect(fd.Body, func(n ast.Node) bool {
		c, ok := n.(*ast.CallExpr)
		if !ok {
			return true
		}
		ch := chain(c.Fun)
		if hasSuffix(ch, "ERC20", "()", "Transfer") || hasSuffix(ch, "ERC20", "()", "Mint") || hasSuffix(ch, "ERC20", "()", "Burn") ||
			(len(ch) >= 2 && ch[len(ch)-2] == "Bank" && (strings.HasPrefix(ch[len(ch)-1], "SendCoins") || ch[len(ch)-1] == "MintCoins" || ch[len(ch)-1] == "BurnCoins")) {
			found = true
		}
		if !found && d < 3 {
			if sub, ok := funcs[ch[len(ch)-1]]; ok && sub != fd && sub.Body != nil && performsLedgerOps(sub, funcs, d+1) {
				found = true
			}
		}
		return true
	})
	return found
}

// calls visits the calls of an expression innermost first.
func (w *walker) calls(en *env, e ast.Node, lhs []string) {
	if e == nil {
		return
	}
	var cs []*ast.CallExpr
	ast.Inspect(e, func(n ast.Node) bool {
		if _, ok := n.(*ast.FuncLit); ok {
			return false
		}
		if c, ok := n.(*ast.CallExpr); ok {
			cs = append(cs, c)
		}
		return true
	})
	for i := len(cs) - 1; i >= 0; i-- {
		l := []string(nil)
		if i == 0 {
			l = lhs
		}
		w.call(en, cs[i], l)
	}
}

func (w *walker) assign(en *env, lhs []ast.Expr, rhs []ast.Expr) {
	var names []string // (shadows the helper of the same name on purpose: not needed here)
	for _, l := range lhs {
		names = append(names, Nospace(l))
	}
	if len(rhs) == 1 {
		// classify the fields of a struct literal: bank.MsgSend{FromAddress:…, ToAddress:…, Amount:…}, parameter structs
		if cl := compositeOf(rhs[0]); cl != nil && len(names) == 1 {
			en.bindFields(en, names[0], cl)
			if strings.HasSuffix(Nospace(cl.Type), "MsgSend") {
				en.party[names[0]+".from"] = orUnknownP(en.party[names[0]+".FromAddress"])
				en.party[names[0]+".to"] = orUnknownP(en.party[names[0]+".ToAddress"])
				en.amt[names[0]+".amount"] = orUnknownA(en.amt[names[0]+".Amount"])
			}
		}
		w.calls(en, rhs[0], names)
		// results of argument parsers are the inputs of the call: requested amount, recipient
		if c, ok := rhs[0].(*ast.CallExpr); ok {
			fn := chain(c.Fun)
			last := fn[len(fn)-1]
			if strings.HasPrefix(last, "parseArgs") {
				for _, n := range names {
					en.amt[n] = "ARequested"
					en.party[n] = "PRecipient" // the only party an argument parser yields (the caller comes from the EVM)
				}
				return
			}
			if last == "parseToAddr" && len(names) > 0 {
				en.party[names[0]] = "PRecipient"
				return
			}
		}
		for _, n := range names {
			if n == "_" || n == "err" {
				continue
			}
			if p := en.partyOf(rhs[0]); p != "PUnknown" {
				if _, have := en.party[n]; !have {
					en.party[n] = p
				}
			}
			if _, have := en.amt[n]; !have {
				if m := en.amtOf(rhs[0]); m != "AUnknown" {
					en.amt[n] = m
				}
			}
		}
		return
	}
	// a, b := x, y  — pairwise
	if len(lhs) == len(rhs) {
		for i := range rhs {
			w.assign(en, lhs[i:i+1], rhs[i:i+1])
		}
		return
	}
	for i, r := range rhs {
		var l []string
		if i < len(names) {
			l = names[i : i+1]
		}
		w.calls(en, r, l)
	}
}

// bindFields records, under "<name>.<Field>", the classes (taken in the env `from`) of the fields of a struct literal
func (en *env) bindFields(from *env, name string, cl *ast.CompositeLit) {
	for _, el := range cl.Elts {
		kv, ok := el.(*ast.KeyValueExpr)
		if !ok {
			continue
		}
		k := name + "." + Nospace(kv.Key)
		if p := from.partyOf(kv.Value); p != "PUnknown" {
			en.party[k] = p
		}
		if m := from.amtOf(kv.Value); m != "AUnknown" {
			en.amt[k] = m
		}
	}
}

// copyFields: the argument is a variable holding a struct whose fields were classified: carry them over
func (en *env) copyFields(from *env, param, arg string) {
	for k, v := range from.party {
		if strings.HasPrefix(k, arg+".") {
			en.party[param+k[len(arg):]] = v
		}
	}
	for k, v := range from.amt {
		if strings.HasPrefix(k, arg+".") {
			en.amt[param+k[len(arg):]] = v
		}
	}
}

func compositeOf(e ast.Expr) *ast.CompositeLit {
	switch x := e.(type) {
	case *ast.CompositeLit:
		return x
	case *ast.UnaryExpr:
		return compositeOf(x.X)
	}
	return nil
}

// block walks statements in order; returns the amount class of the first result of a successful return ("" if none).
func (w *walker) block(en *env, b *ast.BlockStmt) (ret string) {
	for i, st := range b.List {
		w.curProp = errPropagated(b.List, i)
		switch s := st.(type) {
		case *ast.AssignStmt:
			w.assign(en, s.Lhs, s.Rhs)
		case *ast.DeclStmt, *ast.DeferStmt:
			// declarations without calls that matter; deferred clean-up is not a ledger operation
		case *ast.ExprStmt:
			w.calls(en, s.X, nil)
		case *ast.IfStmt:
			if isT, pos := bornTest(s.Cond); isT && s.Init == nil {
				take := pos == w.born
				if take {
					if r := w.block(en, s.Body); r != "" || endsInReturn(s.Body) {
						return r
					}
				} else if s.Else != nil {
					if eb, ok := s.Else.(*ast.BlockStmt); ok {
						if r := w.block(en, eb); r != "" || endsInReturn(eb) {
							return r
						}
					}
				}
				continue
			}
			if s.Init != nil {
				if as, ok := s.Init.(*ast.AssignStmt); ok {
					w.assign(en, as.Lhs, as.Rhs)
				}
			}
			w.calls(en, s.Cond, nil)
			if !endsInReturn(s.Body) { // error branches are not part of the successful path
				w.block(en, s.Body)
			}
			if eb, ok := s.Else.(*ast.BlockStmt); ok && !endsInReturn(eb) {
				w.block(en, eb)
			}
		case *ast.SwitchStmt:
			if s.Init != nil {
				if as, ok := s.Init.(*ast.AssignStmt); ok {
					w.assign(en, as.Lhs, as.Rhs)
				}
			}
			// switch { case X.IsMadeFromCoin: … default: … }  /  switch X.IsMadeFromCoin { case true: … }
			var chosen, deflt *ast.CaseClause
			birthSwitch := false
			for _, c := range s.Body.List {
				cc := c.(*ast.CaseClause)
				if cc.List == nil {
					deflt = cc
					continue
				}
				for _, e := range cc.List {
					if s.Tag == nil {
						if isT, pos := bornTest(e); isT {
							birthSwitch = true
							if pos == w.born && chosen == nil {
								chosen = cc
							}
						}
					} else if isT, pos := bornTest(s.Tag); isT {
						birthSwitch = true
						v := Nospace(e)
						if (v == "true") == (pos == w.born) && (v == "true" || v == "false") && chosen == nil {
							chosen = cc
						}
					}
				}
			}
			if birthSwitch {
				if chosen == nil {
					chosen = deflt
				}
				if chosen != nil {
					blk := &ast.BlockStmt{List: chosen.Body}
					if r := w.block(en, blk); r != "" || endsInReturn(blk) {
						return r
					}
				}
				continue
			}
			for _, c := range s.Body.List {
				blk := &ast.BlockStmt{List: c.(*ast.CaseClause).Body}
				if !endsInReturn(blk) {
					w.block(en, blk)
				}
			}
		case *ast.ReturnStmt:
			if len(s.Results) >= 1 {
				last := Nospace(s.Results[len(s.Results)-1])
				if c, ok := s.Results[0].(*ast.CallExpr); ok && len(s.Results) == 1 {
					w.calls(en, c, nil)
				}
				if len(s.Results) >= 2 && (last == "nil" || last == "err") {
					return en.amtOf(s.Results[0])
				}
			}
			return "AUnknown"
		case *ast.BlockStmt:
			if r := w.block(en, s); r != "" {
				return r
			}
		}
	}
	return ""
}

// ---------------------------------------------------------------- error propagation

func sameVar(a, b *ast.Ident) bool {
	if a == nil || b == nil {
		return false
	}
	if a.Obj != nil && b.Obj != nil {
		return a.Obj == b.Obj // distinguishes a variable from one that shadows it
	}
	return a.Name == b.Name
}

func lastIdent(es []ast.Expr) *ast.Ident {
	if len(es) == 0 {
		return nil
	}
	id, _ := es[len(es)-1].(*ast.Ident)
	if id != nil && id.Name == "_" {
		return nil
	}
	return id
}

// nilCheckOf: cond is `v != nil` for the given variable
func nilCheckOf(cond ast.Expr, v *ast.Ident) bool {
	be, ok := cond.(*ast.BinaryExpr)
	if !ok || be.Op != token.NEQ {
		return false
	}
	x, okx := be.X.(*ast.Ident)
	y, oky := be.Y.(*ast.Ident)
	return okx && oky && y.Name == "nil" && sameVar(x, v)
}

// returnsError: the block ends in a return whose last result is not the literal nil
func returnsError(b *ast.BlockStmt) bool {
	if b == nil || len(b.List) == 0 {
		return false
	}
	r, ok := b.List[len(b.List)-1].(*ast.ReturnStmt)
	if !ok {
		return false
	}
	if len(r.Results) == 0 {
		return true // naked return of named results: decided by the caller through handedOn
	}
	return Nospace(r.Results[len(r.Results)-1]) != "nil"
}

// handedOn: after position i, is variable v returned (as last result) before being overwritten?
func handedOn(stmts []ast.Stmt, i int, v *ast.Ident) bool {
	for j := i + 1; j < len(stmts); j++ {
		switch s := stmts[j].(type) {
		case *ast.ReturnStmt:
			if len(s.Results) == 0 {
				return true
			}
			id, _ := s.Results[len(s.Results)-1].(*ast.Ident)
			return sameVar(id, v)
		case *ast.IfStmt:
			if nilCheckOf(s.Cond, v) && s.Init == nil {
				if returnsError(s.Body) {
					return true
				}
				continue
			}
			if s.Init != nil {
				if as, ok := s.Init.(*ast.AssignStmt); ok && as.Tok == token.ASSIGN && sameVar(lastIdent(as.Lhs), v) {
					return false
				}
			}
		case *ast.AssignStmt:
			if s.Tok == token.ASSIGN && sameVar(lastIdent(s.Lhs), v) {
				return false // overwritten before anybody looked at it
			}
		}
	}
	return false
}

// errPropagated: statement i makes a call; is that call's error checked and propagated to the caller?
// True for statements that make no error-returning call of interest in a form we recognise as unchecked.
func errPropagated(stmts []ast.Stmt, i int) bool {
	switch s := stmts[i].(type) {
	case *ast.ExprStmt:
		_, isCall := s.X.(*ast.CallExpr)
		return !isCall // a bare call statement drops whatever it returns
	case *ast.AssignStmt:
		if len(s.Rhs) != 1 {
			return true
		}
		if _, isCall := s.Rhs[0].(*ast.CallExpr); !isCall {
			return true
		}
		v := lastIdent(s.Lhs)
		if v == nil {
			return false // error assigned to _ (or to a non-variable)
		}
		return handedOn(stmts, i, v)
	case *ast.IfStmt:
		as, ok := s.Init.(*ast.AssignStmt)
		if !ok || len(as.Rhs) != 1 {
			return true
		}
		if _, isCall := as.Rhs[0].(*ast.CallExpr); !isCall {
			return true
		}
		v := lastIdent(as.Lhs)
		if v == nil || !nilCheckOf(s.Cond, v) {
			return false
		}
		if returnsError(s.Body) {
			return true
		}
		// the body only rewrites the error: it must be THIS variable that is returned afterwards; with
		// `if …, err := f(); err != nil { err = wrap(err) }; return err` the returned err is another variable
		return handedOn(stmts, i, v)
	}
	return true
}

func seedParams(en *env, fd *ast.FuncDecl) {
	for _, fld := range fd.Type.Params.List {
		ty := Nospace(fld.Type)
		for _, nm := range fld.Names {
			switch {
			case ty == "*big.Int" || ty == "sdk.Coin" || ty == "sdk.Coins":
				en.amt[nm.Name] = "ARequested"
			case nm.Name == "caller" || nm.Name == "sender":
				en.party[nm.Name] = "PCaller"
			case nm.Name == "recipient" || nm.Name == "to":
				en.party[nm.Name] = "PRecipient"
			}
		}
	}
}

func path(funcs map[string]*ast.FuncDecl, name string, born bool) string {
	fd := funcs[name]
	if fd == nil || fd.Body == nil {
		return "[]"
	}
	w := &walker{funcs: funcs, born: born}
	en := newEnv()
	seedParams(en, fd)
	w.block(en, fd.Body)
	return "[" + strings.Join(w.steps, "; ") + "]"
}

// ---------------------------------------------------------------- ERC20 Transfer helper

func transferHelper(funcs map[string]*ast.FuncDecl) string {
	fd := funcs["Transfer"]
	b := func(x bool) string { return CoqBool(x) }
	if fd == nil {
		return "{| th_balance_before_call := false; th_balance_after_call := false; th_checks_success := false; th_increase_after_minus_before := false; th_reject := RejUnknown; th_returns_increase := false |}"
	}
	// positions of: BalanceOf(recipient) calls, the transfer call, the success test, the subtraction, the rejection
	var balPos []token.Pos
	var balVars []string
	var callPos token.Pos
	recipient := ""
	if ps := fd.Type.Params.List; len(ps) > 0 {
		// (erc20Contract, sender, recipient gethcommon.Address, amount …): third address parameter
		var addrs []string
		for _, fld := range ps {
			if Nospace(fld.Type) == "gethcommon.Address" {
				for _, n := range fld.Names {
					addrs = append(addrs, n.Name)
				}
			}
		}
		if len(addrs) >= 3 {
			recipient = addrs[2]
		}
	}
	packVar := ""
	ast.Inspect(fd.Body, func(n ast.Node) bool {
		as, ok := n.(*ast.AssignStmt)
		if !ok || len(as.Rhs) != 1 {
			return true
		}
		c, ok := as.Rhs[0].(*ast.CallExpr)
		if !ok {
			return true
		}
		ch := chain(c.Fun)
		switch {
		case ch[len(ch)-1] == "BalanceOf" && len(c.Args) >= 2 && Nospace(c.Args[1]) == recipient:
			balPos = append(balPos, as.Pos())
			balVars = append(balVars, Nospace(as.Lhs[0]))
		case hasSuffix(ch, "Pack") && len(c.Args) >= 1 && Nospace(c.Args[0]) == `"transfer"`:
			packVar = Nospace(as.Lhs[0])
		case packVar != "" && callPos == 0 && argIsIdent(c, packVar) &&
			(ch[len(ch)-1] == "CallContractWithInput" || reaches(funcs, ch[len(ch)-1], "CallContractWithInput", 0)):
			// the transfer call itself, directly or through helpers that end in CallContractWithInput
			callPos = as.Pos()
		}
		return true
	})
	before := len(balPos) >= 1 && callPos != 0 && balPos[0] < callPos
	after := len(balPos) >= 2 && callPos != 0 && balPos[len(balPos)-1] > callPos
	// success flag: a bool unpacked from the return data, and `if !flag { return … error }` — in Transfer itself, or
	// in a helper that Transfer calls after the transfer and whose error it propagates
	checks := checksSuccess(fd)
	if !checks {
		var visit func(stmts []ast.Stmt)
		visit = func(stmts []ast.Stmt) {
			for i, st := range stmts {
				if st.Pos() < callPos {
					continue
				}
				var call *ast.CallExpr
				switch x := st.(type) {
				case *ast.AssignStmt:
					if len(x.Rhs) == 1 {
						call, _ = x.Rhs[0].(*ast.CallExpr)
					}
				case *ast.IfStmt:
					if as, ok := x.Init.(*ast.AssignStmt); ok && len(as.Rhs) == 1 {
						call, _ = as.Rhs[0].(*ast.CallExpr)
					}
				}
				if call == nil {
					continue
				}
				ch := chain(call.Fun)
				if h, ok := funcs[ch[len(ch)-1]]; ok && h != fd && h.Body != nil && checksSuccess(h) && errPropagated(stmts, i) {
					checks = true
				}
			}
		}
		visit(fd.Body.List)
	}
	// increase := new(big.Int).Sub(after, before)
	incVar, incOK := "", false
	ast.Inspect(fd.Body, func(n ast.Node) bool {
		as, ok := n.(*ast.AssignStmt)
		if !ok || len(as.Rhs) != 1 || len(balVars) < 2 {
			return true
		}
		c, ok := as.Rhs[0].(*ast.CallExpr)
		if !ok {
			return true
		}
		ch := chain(c.Fun)
		if ch[len(ch)-1] == "Sub" && len(c.Args) == 2 {
			incVar = Nospace(as.Lhs[0])
			incOK = Nospace(c.Args[0]) == balVars[len(balVars)-1] && Nospace(c.Args[1]) == balVars[0]
		}
		return true
	})
	rej := "RejNone"
	ast.Inspect(fd.Body, func(n ast.Node) bool {
		s, ok := n.(*ast.IfStmt)
		if !ok || incVar == "" || !endsInReturn(s.Body) {
			return true
		}
		c := Nospace(s.Cond)
		switch c {
		case incVar + ".Sign()<=0", incVar + ".Sign()<1", incVar + ".Cmp(big.NewInt(0))<=0", incVar + ".Cmp(big.NewInt(0))!=1", incVar + ".Sign()!=1", "!(" + incVar + ".Sign()>0)":
			rej = "RejLe0"
		case incVar + ".Sign()<0", incVar + ".Cmp(big.NewInt(0))<0", incVar + ".Sign()==-1":
			rej = "RejLt0"
		default:
			if strings.Contains(c, incVar+".Sign()") || strings.Contains(c, incVar+".Cmp(") {
				rej = "RejUnknown"
			}
		}
		return true
	})
	// successful return hands back the increase
	retInc := false
	ast.Inspect(fd.Body, func(n ast.Node) bool {
		if r, ok := n.(*ast.ReturnStmt); ok && len(r.Results) == 3 && Nospace(r.Results[0]) == incVar && incVar != "" {
			l := Nospace(r.Results[2])
			if l == "nil" || l == "err" {
				retInc = true
			}
		}
		return true
	})
	return fmt.Sprintf("{| th_balance_before_call := %s; th_balance_after_call := %s; th_checks_success := %s; th_increase_after_minus_before := %s; th_reject := %s; th_returns_increase := %s |}",
		b(before), b(after), b(checks), b(incOK), rej, b(retInc))
}

func argIsIdent(c *ast.CallExpr, name string) bool {
	for _, a := range c.Args {
		if id, ok := a.(*ast.Ident); ok && id.Name == name {
			return true
		}
	}
	return false
}

// reaches: does function `from` (transitively, same package) call a function named `target`?
func reaches(funcs map[string]*ast.FuncDecl, from, target string, d int) bool {
	fd, ok := funcs[from]
	if !ok || fd.Body == nil || d > 3 {
		return false
	}
	found := false
	ast.Inspect(fd.Body, func(n ast.Node) bool {
		if c, ok := n.(*ast.CallExpr); ok && !found {
			ch := chain(c.Fun)
			last := ch[len(ch)-1]
			if last == target || (last != from && reaches(funcs, last, target, d+1)) {
				found = true
			}
		}
		return true
	})
	return found
}

// checksSuccess: the function unpacks a bool from return data and returns an error when it is false
func checksSuccess(fd *ast.FuncDecl) bool {
	unpacked := map[string]bool{}
	ast.Inspect(fd.Body, func(n ast.Node) bool {
		if c, ok := n.(*ast.CallExpr); ok {
			ch := chain(c.Fun)
			if ch[len(ch)-1] == "UnpackIntoInterface" && len(c.Args) >= 2 && Nospace(c.Args[1]) == `"transfer"` {
				unpacked[strings.TrimPrefix(Nospace(c.Args[0]), "&")] = true
			}
		}
		return true
	})
	flagVars := map[string]bool{}
	res := false
	ast.Inspect(fd.Body, func(n ast.Node) bool {
		switch s := n.(type) {
		case *ast.AssignStmt:
			if len(s.Rhs) == 1 && len(s.Lhs) == 1 {
				for u := range unpacked {
					if strings.HasPrefix(Nospace(s.Rhs[0]), u+".") {
						flagVars[Nospace(s.Lhs[0])] = true
					}
				}
			}
		case *ast.IfStmt:
			if u, ok := s.Cond.(*ast.UnaryExpr); ok && u.Op == token.NOT && returnsError(s.Body) {
				x := Nospace(u.X)
				if flagVars[x] {
					res = true
				}
				for v := range unpacked {
					if strings.HasPrefix(x, v+".") {
						res = true
					}
				}
			}
		}
		return true
	})
	return res
}

// ---------------------------------------------------------------- CreateFunToken guards

func createGuards(fd *ast.FuncDecl) string {
	if fd == nil || fd.Body == nil {
		return "[]"
	}
	type ev struct {
		pos token.Pos
		s   string
	}
	var evs []ev
	metaVar := map[string]bool{}
	rejecting := func(s *ast.IfStmt) bool { return endsInReturn(s.Body) }
	var visitIf func(s *ast.IfStmt)
	visitIf = func(s *ast.IfStmt) {
		if !rejecting(s) {
			return
		}
		txt := ""
		if s.Init != nil {
			txt += Nospace(s.Init)
		}
		cond := Nospace(s.Cond)
		txt += " " + cond
		switch {
		case strings.Contains(txt, ".Indexes."):
			i := strings.Index(txt, ".Indexes.")
			rest := txt[i+len(".Indexes."):]
			name := rest
			if j := strings.Index(rest, "."); j >= 0 {
				name = rest[:j]
			}
			idx := "IdxOther"
			switch name {
			case "ERC20Addr":
				idx = "IdxErc20"
			case "BankDenom":
				idx = "IdxDenom"
			}
			if strings.Contains(txt, ".ExactMatch(") && (strings.Contains(cond, ">0") || strings.Contains(cond, "!=0") || strings.Contains(cond, ">=1")) {
				evs = append(evs, ev{s.Pos(), "GIndexReject " + idx})
			}
		case strings.Contains(txt, "FunTokens.Get(") || strings.Contains(txt, "FunTokens.Has("):
			evs = append(evs, ev{s.Pos(), "GPointReject"})
		default:
			for v := range metaVar {
				if cond == "!"+v {
					evs = append(evs, ev{s.Pos(), "GMetaRequired"})
				} else if cond == v {
					evs = append(evs, ev{s.Pos(), "GMetaAbsent"})
				}
			}
		}
	}
	ast.Inspect(fd.Body, func(n ast.Node) bool {
		switch s := n.(type) {
		case *ast.AssignStmt:
			if len(s.Rhs) == 1 {
				if c, ok := s.Rhs[0].(*ast.CallExpr); ok {
					ch := chain(c.Fun)
					switch ch[len(ch)-1] {
					case "GetDenomMetaData":
						if len(s.Lhs) == 2 {
							metaVar[Nospace(s.Lhs[1])] = true
						}
					case "HasDenomMetaData":
						metaVar[Nospace(s.Lhs[0])] = true
					case "deployERC20ForBankCoin":
						evs = append(evs, ev{s.Pos(), "GDeploy"})
					case "FindERC20Metadata":
						evs = append(evs, ev{s.Pos(), "GContractAnswers"})
					}
				}
			}
		case *ast.IfStmt:
			visitIf(s)
		case *ast.CallExpr:
			ch := chain(s.Fun)
			switch ch[len(ch)-1] {
			case "SetDenomMetaData":
				evs = append(evs, ev{s.Pos(), "GSetMeta"})
			case "SafeInsert":
				evs = append(evs, ev{s.Pos(), "GInsert"})
			}
		}
		return true
	})
	sort.Slice(evs, func(i, j int) bool { return evs[i].pos < evs[j].pos })
	var out []string
	for _, e := range evs {
		out = append(out, e.s)
	}
	return "[" + strings.Join(out, "; ") + "]"
}

// ---------------------------------------------------------------- CreateFunToken: which denom VALUE each step uses

// createDenoms reports, for createFunTokenFromCoin, which value of the denom string its three denom-consuming steps
// use: the BankDenom index guard, the bank metadata lookup, the insert.  VRaw = the function's string parameter as
// the caller gave it; VRewritten = a value computed from it (the parameter after a re-assignment, another variable
// or an inline call that mentions it); VOther = not understood.  `m.Base` of the metadata read under key X counts
// as X (the bank stores metadata under its Base), a field of a composite literal as the expression it was built from.
func createDenoms(fd *ast.FuncDecl) string {
	out := func(g, m, i string) string {
		return fmt.Sprintf("{| cd_guard := %s; cd_meta := %s; cd_insert := %s |}", g, m, i)
	}
	if fd == nil || fd.Body == nil || fd.Type.Params == nil {
		return out("VOther", "VOther", "VOther")
	}
	param := ""
	for _, f := range fd.Type.Params.List {
		if id, ok := f.Type.(*ast.Ident); ok && id.Name == "string" && len(f.Names) > 0 {
			param = f.Names[0].Name
			break
		}
	}
	if param == "" {
		return out("VOther", "VOther", "VOther")
	}
	type val struct {
		pos token.Pos
		ver string
	}
	type at struct {
		pos token.Pos
		e   ast.Expr
	}
	vals := map[string][]val{param: {{fd.Body.Pos(), "VRaw"}}}
	metaKey := map[string]at{}
	fields := map[string]map[string]at{}
	mentionsTracked := func(e ast.Node) bool {
		for _, id := range idents(e) {
			if _, ok := vals[id]; ok {
				return true
			}
		}
		return false
	}
	var verOf func(e ast.Expr, pos token.Pos, depth int) string
	verOf = func(e ast.Expr, pos token.Pos, depth int) string {
		if depth > 8 {
			return "VOther"
		}
		switch x := e.(type) {
		case *ast.ParenExpr:
			return verOf(x.X, pos, depth+1)
		case *ast.Ident:
			v := "VOther"
			for _, c := range vals[x.Name] {
				if c.pos <= pos {
					v = c.ver
				}
			}
			return v
		case *ast.SelectorExpr:
			if id, ok := x.X.(*ast.Ident); ok {
				if k, ok := metaKey[id.Name]; ok && x.Sel.Name == "Base" {
					return verOf(k.e, k.pos, depth+1)
				}
				if f, ok := fields[id.Name][x.Sel.Name]; ok {
					return verOf(f.e, f.pos, depth+1)
				}
			}
			return "VOther"
		}
		if mentionsTracked(e) {
			return "VRewritten"
		}
		return "VOther"
	}
	guard, meta, ins := "VOther", "VOther", "VOther"
	ast.Inspect(fd.Body, func(n ast.Node) bool {
		switch s := n.(type) {
		case *ast.AssignStmt:
			if len(s.Rhs) == 1 {
				if c, ok := s.Rhs[0].(*ast.CallExpr); ok {
					ch := chain(c.Fun)
					if ch[len(ch)-1] == "GetDenomMetaData" && len(c.Args) > 0 && len(s.Lhs) > 0 {
						if id, ok := s.Lhs[0].(*ast.Ident); ok {
							metaKey[id.Name] = at{s.Pos(), c.Args[len(c.Args)-1]}
						}
					}
				}
			}
			if len(s.Lhs) == len(s.Rhs) {
				for i, l := range s.Lhs {
					id, ok := l.(*ast.Ident)
					if !ok {
						continue
					}
					r := s.Rhs[i]
					if cl := compositeOf(r); cl != nil {
						fs := map[string]at{}
						for _, el := range cl.Elts {
							if kv, ok := el.(*ast.KeyValueExpr); ok {
								if k, ok := kv.Key.(*ast.Ident); ok {
									fs[k.Name] = at{s.Pos(), kv.Value}
								}
							}
						}
						fields[id.Name] = fs
						continue
					}
					_, tracked := vals[id.Name]
					if !tracked && !mentionsTracked(r) {
						continue
					}
					v := "VOther"
					if rid, ok := r.(*ast.Ident); ok {
						v = verOf(rid, s.Pos(), 0)
					} else if mentionsTracked(r) {
						v = "VRewritten"
					}
					vals[id.Name] = append(vals[id.Name], val{s.End(), v})
				}
			} else if len(s.Rhs) == 1 && mentionsTracked(s.Rhs[0]) {
				// x, err := f(denom): a value computed from the denom (the metadata lookup itself is handled above)
				if c, ok := s.Rhs[0].(*ast.CallExpr); ok {
					ch := chain(c.Fun)
					if ch[len(ch)-1] != "GetDenomMetaData" {
						if id, ok := s.Lhs[0].(*ast.Ident); ok && id.Name != "_" {
							vals[id.Name] = append(vals[id.Name], val{s.End(), "VRewritten"})
						}
					}
				}
			}
		case *ast.CallExpr:
			ch := chain(s.Fun)
			last := ch[len(ch)-1]
			switch {
			case last == "ExactMatch" && len(s.Args) > 0 && strings.Contains(strings.Join(ch, "."), "Indexes.BankDenom"):
				guard = verOf(s.Args[len(s.Args)-1], s.Pos(), 0)
			case (last == "GetDenomMetaData" || last == "HasDenomMetaData") && len(s.Args) > 0:
				meta = verOf(s.Args[len(s.Args)-1], s.Pos(), 0)
			case last == "SafeInsert" && len(s.Args) >= 3:
				ins = verOf(s.Args[2], s.Pos(), 0)
			}
		}
		return true
	})
	return out(guard, meta, ins)
}

// ---------------------------------------------------------------- re-entry guards

// ctxMark: the statedb package marks the context handed to precompiles and offers a reader of that mark.
// Returns the reader's name ("" if there is none) and whether CacheCtxForPrecompile (or a helper it calls) sets the mark
// the reader reads (same key type, value true).
func ctxMark(sf map[string]*ast.FuncDecl) (reader string, marked bool) {
	keyOfValueCall := func(n ast.Node, method string) string {
		c, ok := n.(*ast.CallExpr)
		if !ok {
			return ""
		}
		sel, ok := c.Fun.(*ast.SelectorExpr)
		if !ok || sel.Sel.Name != method || len(c.Args) == 0 {
			return ""
		}
		if method == "WithValue" && (len(c.Args) != 2 || Nospace(c.Args[1]) != "true") {
			return ""
		}
		return Nospace(c.Args[0])
	}
	key := ""
	var names []string
	for n := range sf {
		names = append(names, n)
	}
	sort.Strings(names)
	for _, n := range names {
		fd := sf[n]
		if fd.Body == nil || fd.Recv != nil || fd.Type.Results == nil || len(fd.Type.Results.List) != 1 || Nospace(fd.Type.Results.List[0].Type) != "bool" {
			continue
		}
		ast.Inspect(fd.Body, func(x ast.Node) bool {
			if k := keyOfValueCall(x, "Value"); k != "" && reader == "" {
				reader, key = n, k
			}
			return true
		})
	}
	if reader == "" {
		return "", false
	}
	var sets func(name string, d int) bool
	sets = func(name string, d int) bool {
		fd, ok := sf[name]
		if !ok || fd.Body == nil || d > 3 {
			return false
		}
		found := false
		ast.Inspect(fd.Body, func(x ast.Node) bool {
			if keyOfValueCall(x, "WithValue") == key {
				found = true
			}
			if c, ok := x.(*ast.CallExpr); ok && !found {
				ch := chain(c.Fun)
				if last := ch[len(ch)-1]; last != name && sets(last, d+1) {
					found = true
				}
			}
			return true
		})
		return found
	}
	return reader, sets("CacheCtxForPrecompile", 0)
}

// refusesOnPrecompileCtx: does the message handler return an error when the context carries the precompile mark, BEFORE it
// calls anything that moves funds, reads the registry or starts a state transition?  The test may be inline
// (`if statedb.<reader>(ctx) { return …, err }`) or in a same-package helper whose error is handed on
// (`if err := k.h(ctx, msg); err != nil { return nil, err }`, also as assignment + if).
func refusesOnPrecompileCtx(fd *ast.FuncDecl, funcs map[string]*ast.FuncDecl, reader string) bool {
	if fd == nil || fd.Body == nil || reader == "" {
		return false
	}
	mentionsReader := func(n ast.Node) bool {
		for _, id := range idents(n) {
			if id == reader {
				return true
			}
		}
		return false
	}
	returnsErr := func(b *ast.BlockStmt) bool {
		if !endsInReturn(b) {
			return false
		}
		r := b.List[len(b.List)-1].(*ast.ReturnStmt)
		return len(r.Results) > 0 && Nospace(r.Results[len(r.Results)-1]) != "nil"
	}
	var helperRefuses func(name string, d int) bool
	helperRefuses = func(name string, d int) bool {
		h, ok := funcs[name]
		if !ok || h.Body == nil || d > 2 {
			return false
		}
		for _, st := range h.Body.List {
			switch x := st.(type) {
			case *ast.IfStmt:
				if mentionsReader(x.Cond) && !strings.HasPrefix(Nospace(x.Cond), "!") && returnsErr(x.Body) {
					return true
				}
			case *ast.ReturnStmt:
				for _, r := range x.Results {
					if c, ok := r.(*ast.CallExpr); ok {
						ch := chain(c.Fun)
						if helperRefuses(ch[len(ch)-1], d+1) {
							return true
						}
					}
				}
			}
		}
		return false
	}
	callRefuses := func(e ast.Node) bool {
		ok := false
		ast.Inspect(e, func(n ast.Node) bool {
			if c, isCall := n.(*ast.CallExpr); isCall {
				ch := chain(c.Fun)
				if helperRefuses(ch[len(ch)-1], 0) {
					ok = true
				}
			}
			return true
		})
		return ok
	}
	effectful := func(n ast.Node) bool {
		bad := false
		ast.Inspect(n, func(x ast.Node) bool {
			if c, ok := x.(*ast.CallExpr); ok {
				ch := chain(c.Fun)
				last := ch[len(ch)-1]
				switch {
				case strings.HasPrefix(last, "deduct"), strings.HasPrefix(last, "createFunToken"), strings.HasPrefix(last, "convertCoinToEvm"),
					strings.HasPrefix(last, "SendCoins"), strings.HasPrefix(last, "MintCoins"), strings.HasPrefix(last, "BurnCoins"),
					last == "Collect", last == "ApplyEvmMsg", last == "NewStateDB", last == "TxStateDB", last == "SafeInsert":
					bad = true
				}
			}
			return true
		})
		return bad
	}
	pendingErrFromRefusing := false
	for _, st := range fd.Body.List {
		switch x := st.(type) {
		case *ast.IfStmt:
			if mentionsReader(x.Cond) && !strings.HasPrefix(Nospace(x.Cond), "!") && returnsErr(x.Body) {
				return true
			}
			if x.Init != nil && callRefuses(x.Init) && strings.Contains(Nospace(x.Cond), "!=nil") && returnsErr(x.Body) {
				return true
			}
			if pendingErrFromRefusing && strings.Contains(Nospace(x.Cond), "!=nil") && returnsErr(x.Body) {
				return true
			}
		case *ast.AssignStmt:
			if callRefuses(x) {
				pendingErrFromRefusing = true
				continue
			}
		}
		pendingErrFromRefusing = false
		if effectful(st) {
			return false
		}
	}
	return false
}

func reentryGuards(repo string, kf map[string]*ast.FuncDecl) string {
	sf := Funcs(ParseDir(repo + "/x/evm/statedb"))
	reader, marked := ctxMark(sf)
	return fmt.Sprintf("{| rg_ctx_marked := %s; rg_convert_refused := %s; rg_create_refused := %s |}",
		CoqBool(marked), CoqBool(refusesOnPrecompileCtx(kf["ConvertCoinToEvm"], kf, reader)), CoqBool(refusesOnPrecompileCtx(kf["CreateFunToken"], kf, reader)))
}

// ---------------------------------------------------------------- NibiruBankKeeper sync table

// gasCoinTest returns name when name is the package's "do these coins contain the EVM gas coin" test — recognised by
// what it is (a bool-returning function over one argument whose body compares against EVMBankDenom and syncs
// nothing), not by how it is called — and a string no function is called otherwise.
func gasCoinTest(name string, funcs map[string]*ast.FuncDecl) string {
	fd, ok := funcs[name]
	if !ok || fd.Body == nil || fd.Type.Results == nil || len(fd.Type.Results.List) != 1 {
		return "\x00"
	}
	if id, ok := fd.Type.Results.List[0].Type.(*ast.Ident); !ok || id.Name != "bool" {
		return "\x00"
	}
	if fd.Type.Params == nil || fd.Type.Params.NumFields() != 1 {
		return "\x00"
	}
	mentions, syncs := false, false
	ast.Inspect(fd.Body, func(n ast.Node) bool {
		switch x := n.(type) {
		case *ast.Ident:
			if x.Name == "EVMBankDenom" {
				mentions = true
			}
		case *ast.CallExpr:
			if ch := chain(x.Fun); ch[len(ch)-1] == "SyncStateDBWithAccount" {
				syncs = true
			}
		}
		return true
	})
	if mentions && !syncs {
		return name
	}
	return "\x00"
}

func bankSync(files []File, funcs map[string]*ast.FuncDecl) string {
	type row struct {
		name    string
		roles   []string
		guarded bool
	}
	var rows []row
	for _, fl := range files {
		for _, d := range fl.F.Decls {
			fd, ok := d.(*ast.FuncDecl)
			if !ok || fd.Recv == nil || fd.Body == nil || !strings.Contains(Nospace(fd.Recv.List[0].Type), "NibiruBankKeeper") {
				continue
			}
			var fgi *ast.CallExpr
			ast.Inspect(fd.Body, func(n ast.Node) bool {
				if c, ok := n.(*ast.CallExpr); ok {
					ch := chain(c.Fun)
					if ch[len(ch)-1] == "ForceGasInvariant" && len(c.Args) == 3 {
						fgi = c
					}
				}
				return true
			})
			if fgi == nil || fd.Name.Name == "ForceGasInvariant" {
				continue
			}
			// parameter positions after ctx
			pidx := map[string]int{}
			i := 0
			for _, fld := range fd.Type.Params.List {
				for _, nm := range fld.Names {
					if Nospace(fld.Type) == "sdk.Context" {
						continue
					}
					pidx[nm.Name] = i
					i++
				}
			}
			roles, guarded := syncRoles(fgi.Args[2], pidx, funcs)
			sort.Strings(roles)
			rows = append(rows, row{fd.Name.Name, roles, guarded})
		}
	}
	sort.Slice(rows, func(i, j int) bool { return rows[i].name < rows[j].name })
	var out []string
	for _, r := range rows {
		var rs []string
		for _, x := range r.roles {
			rs = append(rs, CoqString(x))
		}
		out = append(out, fmt.Sprintf("(%s, ([%s], %s))", CoqString(r.name), strings.Join(rs, "; "), CoqBool(r.guarded)))
	}
	return "[ " + strings.Join(out, ";\n    ") + " ]"
}

// roleOf normalises an account expression of a bank wrapper: addr#i (an address parameter), module#i
// (auth.NewModuleAddress of a module-name parameter), each#i (an element of a slice parameter).
func roleOf(e ast.Expr, pidx map[string]int, locals map[string]ast.Expr, rangeOf map[string]string) string {
	s := Nospace(e)
	if id, ok := e.(*ast.Ident); ok {
		if i, ok := pidx[id.Name]; ok {
			return fmt.Sprintf("addr#%d", i)
		}
		if d, ok := locals[id.Name]; ok {
			return roleOf(d, pidx, nil, rangeOf)
		}
	}
	if c, ok := e.(*ast.CallExpr); ok {
		ch := chain(c.Fun)
		if ch[len(ch)-1] == "NewModuleAddress" && len(c.Args) == 1 {
			if i, ok := pidx[Nospace(c.Args[0])]; ok {
				return fmt.Sprintf("module#%d", i)
			}
		}
		for _, id := range idents(c) {
			if p, ok := rangeOf[id]; ok {
				if i, ok := pidx[p]; ok {
					return fmt.Sprintf("each#%d", i)
				}
			}
		}
	}
	return "?" + s
}

// syncedArgs: which of the call's argument expressions does helper h hand to SyncStateDBWithAccount (directly, by
// ranging over a variadic parameter, or through further helpers), and is that guarded by the gas-coin test?
func syncedArgs(h *ast.FuncDecl, args []ast.Expr, funcs map[string]*ast.FuncDecl, d int) (out []ast.Expr, guarded bool) {
	if d > 3 {
		return nil, false
	}
	bound := map[string][]ast.Expr{}
	i := 0
	for _, fld := range h.Type.Params.List {
		_, variadic := fld.Type.(*ast.Ellipsis)
		for _, nm := range fld.Names {
			if variadic {
				if i <= len(args) {
					bound[nm.Name] = args[i:]
				}
				i = len(args)
			} else {
				if i < len(args) {
					bound[nm.Name] = args[i : i+1]
				}
				i++
			}
		}
	}
	rangeVar := map[string]string{}
	resolve := func(e ast.Expr) []ast.Expr {
		n := Nospace(e)
		if p, ok := rangeVar[n]; ok {
			return bound[p]
		}
		if b, ok := bound[n]; ok {
			return b
		}
		return nil
	}
	ast.Inspect(h.Body, func(n ast.Node) bool {
		switch s := n.(type) {
		case *ast.RangeStmt:
			if s.Value != nil {
				rangeVar[Nospace(s.Value)] = Nospace(s.X)
			}
		case *ast.CallExpr:
			ch := chain(s.Fun)
			switch ch[len(ch)-1] {
			case "SyncStateDBWithAccount":
				if len(s.Args) == 2 {
					out = append(out, resolve(s.Args[1])...)
				}
			case gasCoinTest(ch[len(ch)-1], funcs):
				guarded = true
			default:
				if h2, ok := funcs[ch[len(ch)-1]]; ok && h2 != h && h2.Body != nil {
					var sub []ast.Expr
					for _, a := range s.Args {
						if r := resolve(a); len(r) == 1 {
							sub = append(sub, r[0])
						} else {
							sub = append(sub, a)
						}
					}
					o, g := syncedArgs(h2, sub, funcs, d+1)
					out = append(out, o...)
					guarded = guarded || g
				}
			}
		}
		return true
	})
	return
}

func syncRoles(after ast.Expr, pidx map[string]int, funcs map[string]*ast.FuncDecl) (roles []string, guarded bool) {
	switch a := after.(type) {
	case *ast.FuncLit:
		locals := map[string]ast.Expr{}
		rangeOf := map[string]string{}
		ast.Inspect(a.Body, func(n ast.Node) bool {
			switch s := n.(type) {
			case *ast.AssignStmt:
				if len(s.Lhs) == 1 && len(s.Rhs) == 1 {
					locals[Nospace(s.Lhs[0])] = s.Rhs[0]
				}
			case *ast.RangeStmt:
				if s.Value != nil {
					rangeOf[Nospace(s.Value)] = Nospace(s.X)
				}
			case *ast.CallExpr:
				ch := chain(s.Fun)
				switch ch[len(ch)-1] {
				case "SyncStateDBWithAccount":
					if len(s.Args) == 2 {
						roles = append(roles, roleOf(s.Args[1], pidx, locals, rangeOf))
					}
				case gasCoinTest(ch[len(ch)-1], funcs):
					guarded = true
				default:
					// a helper that syncs (some of) its arguments, e.g. syncIfEtherChanged(ctx, coins, accs...)
					if h, ok := funcs[ch[len(ch)-1]]; ok && h.Body != nil {
						args, g := syncedArgs(h, s.Args, funcs, 0)
						guarded = guarded || g
						for _, a := range args {
							roles = append(roles, roleOf(a, pidx, locals, rangeOf))
						}
					}
				}
			}
			return true
		})
	case *ast.CallExpr:
		// a helper returning the closure: f(coins, accs...) { return func(ctx){ if !test(coins) {return}; for _, acc := range accs { Sync(ctx, acc) } } }
		ch := chain(a.Fun)
		fd := funcs[ch[len(ch)-1]]
		if fd == nil || fd.Body == nil {
			return []string{"?" + Nospace(after)}, false
		}
		var variadic string
		npar := 0
		for _, fld := range fd.Type.Params.List {
			for _, nm := range fld.Names {
				if _, ok := fld.Type.(*ast.Ellipsis); ok {
					variadic = nm.Name
				} else {
					npar++
				}
			}
		}
		syncsEach := false
		ast.Inspect(fd.Body, func(n ast.Node) bool {
			switch s := n.(type) {
			case *ast.RangeStmt:
				if Nospace(s.X) == variadic && s.Value != nil {
					v := Nospace(s.Value)
					ast.Inspect(s.Body, func(m ast.Node) bool {
						if c, ok := m.(*ast.CallExpr); ok {
							cc := chain(c.Fun)
							if cc[len(cc)-1] == "SyncStateDBWithAccount" && len(c.Args) == 2 && Nospace(c.Args[1]) == v {
								syncsEach = true
							}
						}
						return true
					})
				}
			case *ast.CallExpr:
				cc := chain(s.Fun)
				if cc[len(cc)-1] == gasCoinTest(cc[len(cc)-1], funcs) {
					guarded = true
				}
			}
			return true
		})
		if !syncsEach || variadic == "" {
			return []string{"?" + Nospace(after)}, guarded
		}
		for _, arg := range a.Args[npar:] {
			roles = append(roles, roleOf(arg, pidx, nil, nil))
		}
	default:
		roles = []string{"?" + Nospace(after)}
	}
	return
}

// ---------------------------------------------------------------- who may touch the escrow from outside the bridge

// escrowGuards: is the EVM module account on the bank's blocked list (app wiring), and do x/tokenfactory's burn / mint
// refuse blocked accounts BEFORE moving coins?
func escrowGuards(repo string) string {
	blockedEvm := false
	for _, fl := range ParseDir(repo + "/app") {
		ast.Inspect(fl.F, func(n ast.Node) bool {
			vs, ok := n.(*ast.ValueSpec)
			if !ok {
				return true
			}
			for i, nm := range vs.Names {
				if nm.Name != "blockAccAddrs" || i >= len(vs.Values) {
					continue
				}
				if cl, ok := vs.Values[i].(*ast.CompositeLit); ok {
					for _, el := range cl.Elts {
						if Nospace(el) == "evm.ModuleName" {
							blockedEvm = true
						}
					}
				}
			}
			return true
		})
	}
	tf := Funcs(ParseDir(repo + "/x/tokenfactory/keeper"))
	checks := func(name string) bool {
		fd := tf[name]
		if fd == nil || fd.Body == nil {
			return false
		}
		var guardPos, movePos token.Pos
		ast.Inspect(fd.Body, func(n ast.Node) bool {
			switch s := n.(type) {
			case *ast.IfStmt:
				if strings.Contains(Nospace(s.Cond), ".BlockedAddr(") && !strings.HasPrefix(Nospace(s.Cond), "!") && returnsError(s.Body) && guardPos == 0 {
					guardPos = s.Pos()
				}
			case *ast.CallExpr:
				ch := chain(s.Fun)
				last := ch[len(ch)-1]
				// the movement that touches the named account
				if (name == "burn" && last == "SendCoinsFromAccountToModule") || (name == "mint" && last == "SendCoinsFromModuleToAccount") {
					if movePos == 0 {
						movePos = s.Pos()
					}
				}
			}
			return true
		})
		return guardPos != 0 && movePos != 0 && guardPos < movePos
	}
	return fmt.Sprintf("{| eg_evm_module_blocked := %s; eg_tf_burn_checks_blocked := %s; eg_tf_mint_checks_blocked := %s |}",
		CoqBool(blockedEvm), CoqBool(checks("burn")), CoqBool(checks("mint")))
}

func main() {
	repo := Repo()
	Header(repo)
	pre := ParseDir(repo + "/x/evm/precompile")
	kp := ParseDir(repo + "/x/evm/keeper")
	pf, kf := Funcs(pre), Funcs(kp)
	fmt.Println("From Coq Require Import List String ZArith. Import ListNotations.")
	fmt.Println("Require Import Nib.C06.Model Nib.C06.Paths.")
	fmt.Println("Local Open Scope string_scope.")
	fmt.Println()
	fmt.Println("(** ledger operations of each bridge path of the current tree, in execution order *)")
	fmt.Println("(** each step with: is the error of that ledger operation checked and handed on to the caller (at every level of helper)? *)")
	fmt.Println("Definition current_paths_e : paths_e := {|")
	fmt.Printf("  pe_send_to_bank_coin  := %s;\n", path(pf, "sendToBank", true))
	fmt.Printf("  pe_send_to_bank_erc20 := %s;\n", path(pf, "sendToBank", false))
	fmt.Printf("  pe_send_to_evm_coin   := %s;\n", path(pf, "sendToEvm", true))
	fmt.Printf("  pe_send_to_evm_erc20  := %s;\n", path(pf, "sendToEvm", false))
	fmt.Printf("  pe_convert_coin       := %s;\n", path(kf, "convertCoinToEvmBornCoin", true))
	fmt.Printf("  pe_convert_erc20      := %s;\n", path(kf, "convertCoinToEvmBornERC20", false))
	fmt.Printf("  pe_bank_msg_send      := %s |}.\n", path(pf, "bankMsgSend", true))
	fmt.Print("Definition current_paths : paths := strip current_paths_e.\n\n")
	fmt.Println("(** keeper.ERC20().Transfer *)")
	fmt.Printf("Definition current_transfer_helper : transfer_helper :=\n  %s.\n\n", transferHelper(kf))
	fmt.Println("(** guards of the two CreateFunToken paths, in source order *)")
	fmt.Printf("Definition current_create_coin : list cguard := %s.\n", createGuards(kf["createFunTokenFromCoin"]))
	fmt.Printf("Definition current_create_erc20 : list cguard := %s.\n\n", createGuards(kf["createFunTokenFromERC20"]))
	fmt.Println("(** createFunTokenFromCoin: which VALUE of the denom string (as given / rewritten) the index guard, the metadata lookup and the insert use *)")
	fmt.Printf("Definition current_create_coin_denoms : create_denoms :=\n  %s.\n\n", createDenoms(kf["createFunTokenFromCoin"]))
	fmt.Println("(** re-entry: the context handed to precompiles is marked, and ConvertCoinToEvm / CreateFunToken refuse on a marked context before touching anything *)")
	fmt.Printf("Definition current_reentry_guards : reentry_guards :=\n  %s.\n\n", reentryGuards(repo, kf))
	fmt.Println("(** outside the bridge: the EVM module account is bank-blocked, and the tokenfactory admin paths honour that *)")
	fmt.Printf("Definition current_escrow_guards : escrow_guards :=\n  %s.\n\n", escrowGuards(repo))
	fmt.Println("(** NibiruBankKeeper: accounts re-synced into the StateDB after each wrapped bank method *)")
	fmt.Printf("Definition current_bank_sync : bank_sync :=\n  %s.\n", bankSync(kp, kf))
}
