// Command gen/c05 prints coq/Gen/C05Facts.v from the /repo working tree (terms, never verdicts):
// constants of the linked packages (10^12, base fee, EIP-3529 refund quotient), the decorator list
// of NewAnteHandlerEVM, and semantic facts (see norm.go: independent of names, temporaries,
// spelling of comparisons, if/switch/min form, one-level helpers and message texts) about where
// the prepayment and the refund come from.
package main

import (
	"fmt"
	"go/ast"
	"go/token"
	"math/big"
	"strings"

	gethparams "github.com/ethereum/go-ethereum/params"

	"github.com/NibiruChain/nibiru/v2/x/evm"

	. "verifharness/genlib"
)

// mulOperands: e is `<x>.Mul(a, b)` (big.Int) or `a * b`; returns the canonical operands.
func mulOperands(sc *scope, e ast.Expr) (string, string, bool) {
	e = sc.deref(e)
	if c, _, ok := sc.methodCall(e, "Mul"); ok && len(c.Args) == 2 {
		return sc.canon(c.Args[0]), sc.canon(c.Args[1]), true
	}
	if be, ok := e.(*ast.BinaryExpr); ok && be.Op == token.MUL {
		return sc.canon(be.X), sc.canon(be.Y), true
	}
	return "", "", false
}

func main() {
	repo := Repo()
	Header(repo)
	evmante := ParseDir(repo + "/app/evmante")
	keeper := ParseDir(repo + "/x/evm/keeper")
	af := Funcs(evmante)
	kf := Funcs(keeper)

	// 1. decorators, by constructor name
	var chain []string
	for _, a := range chainDecorators(af["NewAnteHandlerEVM"]) {
		chain = append(chain, calleeName(a))
	}
	pkgFuncs = kf

	// 2. VerifyFee: every fee it returns that is not the literal zero is WeiToNative(txData.EffectiveFeeWei(NativeToWei(base)))
	feeEffective := false
	if fd := kf["VerifyFee"]; fd != nil && fd.Body != nil {
		for _, s := range callsNamed(fd, kf, "WeiToNative") {
			if len(s.call.Args) != 1 {
				continue
			}
			a := s.sc.canon(s.call.Args[0])
			// $p0 = txData ; the base fee handed to EffectiveFeeWei is NativeToWei(of the base-fee parameter)
			if strings.HasPrefix(a, "$p0.EffectiveFeeWei(") && strings.Contains(a, "NativeToWei($p1)") {
				feeEffective = true
			}
		}
	}
	// DeductTxCostsFromUserBalance(ctx, fees, from): DeductFees(bank, ctx, account of `from`, fees)
	deductFromSigner := false
	if fd := kf["DeductTxCostsFromUserBalance"]; fd != nil && fd.Body != nil {
		for _, s := range callsNamed(fd, kf, "DeductFees") {
			if len(s.call.Args) == 4 && s.sc.canon(s.call.Args[3]) == "$p1" {
				acc := s.sc.canon(s.call.Args[2])
				if strings.Contains(acc, "GetSignerAcc(") && strings.Contains(acc, "$p2") {
					deductFromSigner = true
				}
			}
		}
	}

	// 3. RefundGas(ctx, msgFrom, leftoverGas, weiPerGas): the coins sent are WeiToNative(leftoverGas * weiPerGas),
	//    from the fee collector module to msgFrom
	refundFormula, refundFromCollector, refundToSender := false, false, false
	if fd := kf["RefundGas"]; fd != nil && fd.Body != nil {
		for _, s := range callsNamed(fd, kf, "SendCoinsFromModuleToAccount") {
			if len(s.call.Args) != 4 || s.sc.fd != fd {
				continue
			}
			refundFromCollector = strings.HasSuffix(s.sc.canon(s.call.Args[1]), "FeeCollectorName")
			refundToSender = strings.Contains(s.sc.canon(s.call.Args[2]), "$p1")
			// the amount: find the WeiToNative(...) the coins are built from
			amount := s.sc.canon(s.call.Args[3])
			for _, w := range callsNamed(fd, kf, "WeiToNative") {
				if w.sc.fd != fd || len(w.call.Args) != 1 {
					continue
				}
				wn := w.sc.canon(w.call)
				if !strings.Contains(amount, wn) {
					continue
				}
				a, b, ok := mulOperands(w.sc, w.call.Args[0])
				if !ok {
					continue
				}
				onlyGas := func(x string) bool { return strings.Contains(x, "$p2") && !strings.Contains(x, "$p3") }
				onlyPrice := func(x string) bool { return strings.Contains(x, "$p3") && !strings.Contains(x, "$p2") }
				isPlain := func(x string) bool { // nothing added to the product's operands
					return !strings.Contains(x, "+") && !strings.Contains(x, "-") && !strings.Contains(x, "Add(") && !strings.Contains(x, "Sub(")
				}
				if ((onlyGas(a) && onlyPrice(b)) || (onlyGas(b) && onlyPrice(a))) && isPlain(a) && isPlain(b) {
					refundFormula = true
				}
			}
		}
	}

	// 4. EthereumTx: RefundGas(ctx, msg.From(), leftover, price) with price = EffectiveGasPriceWeiPerGas(base fee)
	//    and leftover = msg.Gas() - resp.GasUsed when that is positive (else 0)
	leftover, refundPrice, refundCallFrom := false, false, false
	if fd := kf["EthereumTx"]; fd != nil && fd.Body != nil {
		sc := newScope(fd)
		for _, s := range callsNamed(fd, kf, "RefundGas") {
			if len(s.call.Args) != 4 || s.sc.fd != fd {
				continue
			}
			refundCallFrom = strings.HasSuffix(sc.canon(s.call.Args[1]), ".From()")
			pr := sc.canon(s.call.Args[3])
			refundPrice = strings.Contains(pr, ".EffectiveGasPriceWeiPerGas(") && strings.Contains(pr, "BaseFeeWei")
			gasArg := s.call.Args[2]
			isDiff := func(e ast.Expr) bool { // X.Gas() - Y.GasUsed
				be, ok := sc.deref(e).(*ast.BinaryExpr)
				return ok && be.Op == token.SUB && strings.HasSuffix(sc.canon(be.X), ".Gas()") && strings.HasSuffix(sc.canon(be.Y), ".GasUsed")
			}
			gasVar := ""
			if id, ok := gasArg.(*ast.Ident); ok {
				gasVar = id.Name
			}
			for _, g := range guardsOf(fd.Body) {
				c := sc.guardCmp(g)
				// GasUsed < Gas()
				if !c.ok || c.op != token.LSS || !strings.HasSuffix(c.lhs, ".GasUsed") || !strings.HasSuffix(c.rhs, ".Gas()") {
					continue
				}
				for _, st := range g.body {
					if as, ok := st.(*ast.AssignStmt); ok && len(as.Lhs) == 1 && len(as.Rhs) == 1 {
						if id, ok := as.Lhs[0].(*ast.Ident); ok && id.Name == gasVar && gasVar != "" && isDiff(as.Rhs[0]) {
							leftover = true
						}
					}
				}
			}
		}
	}

	// 5. refund cap: ApplyEvmMsg hands the StateDB refund counter to a function that returns
	//    min(counter, gasUsed / RefundQuotientEIP3529)
	capApplied := false
	if fd := kf["ApplyEvmMsg"]; fd != nil && fd.Body != nil {
		ast.Inspect(fd.Body, func(n ast.Node) bool {
			c, ok := n.(*ast.CallExpr)
			if !ok || len(c.Args) != 2 {
				return true
			}
			h, ok := kf[calleeName(c)]
			if !ok || h.Type.Params == nil {
				return true
			}
			sc := newScope(fd)
			if !strings.HasSuffix(sc.canon(c.Args[0]), ".GetRefund()") {
				return true
			}
			a, b, ok := returnsMin(h)
			if !ok {
				return true
			}
			isQuot := func(x string) bool { return strings.HasPrefix(x, "($p1/") && strings.HasSuffix(x, "RefundQuotientEIP3529)") }
			if (a == "$p0" && isQuot(b)) || (b == "$p0" && isQuot(a)) {
				capApplied = true
			}
			return true
		})
	}

	// 6. SyncStateDBWithAccount(ctx, acc): before the StateDB write there is an early return for addresses that
	//    are not 20 bytes long (an address of another length has no EVM account to mirror)
	syncOnlyEvm := false
	if fd := kf["SyncStateDBWithAccount"]; fd != nil && fd.Body != nil {
		sc := newScope(fd)
		var write token.Pos
		ast.Inspect(fd.Body, func(n ast.Node) bool {
			if c, ok := n.(*ast.CallExpr); ok && (calleeName(c) == "SetBalanceWei" || calleeName(c) == "SetBalance" || calleeName(c) == "AddBalance") && write == token.NoPos {
				write = c.Pos()
			}
			return true
		})
		for _, g := range guardsOf(fd.Body) {
			if write != token.NoPos && g.pos > write {
				continue
			}
			hasReturn := false
			for _, st := range g.body {
				if _, ok := st.(*ast.ReturnStmt); ok {
					hasReturn = true
				}
			}
			if !hasReturn || g.cond == nil {
				continue
			}
			// the condition (possibly one disjunct of it) is len(acc…) != 20 / != AddressLength
			var disj []ast.Expr
			var split func(e ast.Expr)
			split = func(e ast.Expr) {
				if be, ok := sc.deref(e).(*ast.BinaryExpr); ok && be.Op == token.LOR {
					split(be.X)
					split(be.Y)
					return
				}
				disj = append(disj, e)
			}
			split(g.cond)
			for _, dj := range disj {
				c := sc.comparison(dj)
				if !c.ok || c.op != token.NEQ {
					continue
				}
				isLen := func(x string) bool { return strings.HasPrefix(x, "len($p1") }
				is20 := func(x string) bool { return x == "20" || strings.HasSuffix(x, "AddressLength") }
				if (isLen(c.lhs) && is20(c.rhs)) || (isLen(c.rhs) && is20(c.lhs)) {
					syncOnlyEvm = true
				}
			}
		}
	}

	// 7. precompile.OnRunStart (through helpers of the packages precompile and statedb, in evaluation order): the
	//    PrecompileCalled journal entry (SavePrecompileCalledJournalChange) is appended BEFORE the dirty balances are
	//    flushed into the cache context (CommitCacheCtx) - a flush that fails half-way (SetAccBalance minted, the bank
	//    refuses a blocked recipient) is then undone by the revert of the failing call
	journalBeforeFlush := false
	{
		pf := Funcs(ParseDir(repo + "/x/evm/precompile"))
		sf := Funcs(ParseDir(repo + "/x/evm/statedb"))
		targets := map[string]bool{"SavePrecompileCalledJournalChange": true, "CommitCacheCtx": true}
		var order []string
		seen := map[*ast.FuncDecl]bool{}
		var walk func(f *ast.FuncDecl, depth int)
		walk = func(f *ast.FuncDecl, depth int) {
			if f == nil || f.Body == nil || seen[f] {
				return
			}
			seen[f] = true
			ast.Inspect(f.Body, func(n ast.Node) bool {
				c, ok := n.(*ast.CallExpr)
				if !ok {
					return true
				}
				nm := calleeName(c)
				if targets[nm] {
					// arguments are evaluated first
					for _, a := range c.Args {
						ast.Inspect(a, func(m ast.Node) bool {
							if cc, ok := m.(*ast.CallExpr); ok && targets[calleeName(cc)] {
								order = append(order, calleeName(cc))
							}
							return true
						})
					}
					order = append(order, nm)
					return false
				}
				if depth > 0 {
					if h, ok := pf[nm]; ok && h != f {
						walk(h, depth-1)
					} else if h, ok := sf[nm]; ok && h != f && nm != "Commit" && nm != "commitCtx" {
						walk(h, depth-1)
					}
				}
				return true
			})
		}
		walk(pf["OnRunStart"], 3)
		js, fl := -1, -1
		for i, nm := range order {
			if nm == "SavePrecompileCalledJournalChange" && js < 0 {
				js = i
			}
			if nm == "CommitCacheCtx" && fl < 0 {
				fl = i
			}
		}
		journalBeforeFlush = js >= 0 && fl >= 0 && js < fl
	}

	one := big.NewInt(1)
	fmt.Println("Require Import Nib.C05.Facts.")
	fmt.Println("From Coq Require Import String List ZArith. Import ListNotations. Open Scope string_scope.")
	fmt.Println("Definition evm_ante_constructors : list string := [")
	for i, c := range chain {
		sep := ";"
		if i == len(chain)-1 {
			sep = ""
		}
		fmt.Printf("  %s%s\n", CoqString(c), sep)
	}
	fmt.Println("].")
	fmt.Println("Definition current_facts : facts := {|")
	fmt.Printf("  k_wei_per_unibi := (%s)%%Z;\n", evm.NativeToWei(one).String())
	fmt.Printf("  k_base_fee_unibi := (%s)%%Z;\n", evm.BASE_FEE_MICRONIBI.String())
	fmt.Printf("  k_refund_quotient := (%d)%%Z;\n", gethparams.RefundQuotientEIP3529)
	fmt.Printf("  k_fee_is_native_of_effective_fee := %s;\n", CoqBool(feeEffective))
	fmt.Printf("  k_fee_deducted_from_signer := %s;\n", CoqBool(deductFromSigner))
	fmt.Printf("  k_refund_is_native_of_leftover_times_price := %s;\n", CoqBool(refundFormula))
	fmt.Printf("  k_refund_from_fee_collector := %s;\n", CoqBool(refundFromCollector))
	fmt.Printf("  k_refund_to_sender := %s;\n", CoqBool(refundToSender && refundCallFrom))
	fmt.Printf("  k_leftover_is_limit_minus_used := %s;\n", CoqBool(leftover))
	fmt.Printf("  k_refund_price_is_effective_price := %s;\n", CoqBool(refundPrice))
	fmt.Printf("  k_sync_only_evm_addresses := %s;\n", CoqBool(syncOnlyEvm))
	fmt.Printf("  k_journal_before_flush := %s;\n", CoqBool(journalBeforeFlush))
	fmt.Printf("  k_refund_cap_applied := %s |}.\n", CoqBool(capApplied))
}
