// Command gen/c05 prints coq/Gen/C05Facts.v from the /repo working tree (terms, never verdicts):
// constants of the linked packages (10^12, base fee, EIP-3529 refund quotient), the decorator list
// of NewAnteHandlerEVM, and AST-level facts about where the prepayment and the refund come from.
package main

import (
	"fmt"
	"go/ast"
	"go/token"
	"math/big"

	gethparams "github.com/ethereum/go-ethereum/params"

	"github.com/NibiruChain/nibiru/v2/x/evm"

	. "verifharness/genlib"
)

func calleeName(e ast.Expr) string {
	switch x := e.(type) {
	case *ast.CallExpr:
		return calleeName(x.Fun)
	case *ast.CompositeLit:
		return calleeName(x.Type)
	case *ast.SelectorExpr:
		return x.Sel.Name
	case *ast.Ident:
		return x.Name
	case *ast.UnaryExpr:
		return calleeName(x.X)
	case *ast.StarExpr:
		return calleeName(x.X)
	case *ast.ParenExpr:
		return calleeName(x.X)
	}
	return "?"
}

func isCallNamed(e ast.Expr, name string) (*ast.CallExpr, bool) {
	c, ok := e.(*ast.CallExpr)
	if !ok {
		return nil, false
	}
	return c, calleeName(c) == name
}

func ident(e ast.Expr) string {
	if id, ok := e.(*ast.Ident); ok {
		return id.Name
	}
	return ""
}

// mentions: some identifier / selector named n occurs in e.
func mentions(e ast.Node, n string) bool {
	found := false
	ast.Inspect(e, func(x ast.Node) bool {
		switch y := x.(type) {
		case *ast.Ident:
			if y.Name == n {
				found = true
			}
		}
		return !found
	})
	return found
}

// mentionsDeep: e mentions n directly or through the definitions of the local variables it uses.
func mentionsDeep(fd *ast.FuncDecl, e ast.Node, n string, depth int) bool {
	if mentions(e, n) {
		return true
	}
	if depth == 0 {
		return false
	}
	found := false
	ast.Inspect(e, func(x ast.Node) bool {
		if id, ok := x.(*ast.Ident); ok && !found {
			if def := defOf(fd, id.Name); def != nil && def != e {
				if mentionsDeep(fd, def, n, depth-1) {
					found = true
				}
			}
		}
		return !found
	})
	return found
}

// definition of a local variable: the RHS of its (first) := / = in fd.
func defOf(fd *ast.FuncDecl, name string) ast.Expr {
	var out ast.Expr
	ast.Inspect(fd.Body, func(n ast.Node) bool {
		if as, ok := n.(*ast.AssignStmt); ok && out == nil {
			for i, l := range as.Lhs {
				if ident(l) == name && i < len(as.Rhs) {
					out = as.Rhs[i]
				}
			}
		}
		return out == nil
	})
	return out
}

func main() {
	repo := Repo()
	Header(repo)
	evmante := ParseDir(repo + "/app/evmante")
	keeper := ParseDir(repo + "/x/evm/keeper")
	af := Funcs(evmante)
	kf := Funcs(keeper)

	// 1. decorators, by constructor name
	var chain []string
	if fd := af["NewAnteHandlerEVM"]; fd != nil && fd.Body != nil {
		ast.Inspect(fd.Body, func(n ast.Node) bool {
			call, ok := n.(*ast.CallExpr)
			if !ok {
				return true
			}
			if sel, ok := call.Fun.(*ast.SelectorExpr); ok && sel.Sel.Name == "ChainAnteDecorators" {
				for _, a := range call.Args {
					chain = append(chain, calleeName(a))
				}
				return false
			}
			return true
		})
	}

	// 2. VerifyFee: fee = WeiToNative(txData.EffectiveFeeWei(NativeToWei(base)))
	feeEffective := false
	if fd := kf["VerifyFee"]; fd != nil && fd.Body != nil {
		ast.Inspect(fd.Body, func(n ast.Node) bool {
			if c, ok := isCallNamed(exprOf(n), "WeiToNative"); ok && len(c.Args) == 1 {
				if in, ok := isCallNamed(c.Args[0], "EffectiveFeeWei"); ok && len(in.Args) == 1 {
					arg := in.Args[0]
					if id := ident(arg); id != "" {
						if def := defOf(fd, id); def != nil {
							if nc, ok := isCallNamed(def, "NativeToWei"); ok && len(nc.Args) == 1 {
								feeEffective = true
							}
						}
					}
				}
			}
			return true
		})
	}
	// deductFee -> DeductTxCostsFromUserBalance -> DeductFees(bank, ctx, signerAcc, fees)
	deductFromSigner := false
	if fd := kf["DeductTxCostsFromUserBalance"]; fd != nil && fd.Body != nil {
		ast.Inspect(fd.Body, func(n ast.Node) bool {
			if c, ok := isCallNamed(exprOf(n), "DeductFees"); ok && len(c.Args) == 4 && ident(c.Args[3]) == "fees" {
				if def := defOf(fd, ident(c.Args[2])); def != nil && mentions(def, "from") {
					deductFromSigner = true
				}
			}
			return true
		})
	}

	// 3. RefundGas: amount = WeiToNative(leftoverGas * weiPerGas), paid by the fee collector to msgFrom
	refundFormula, refundFromCollector, refundToSender := false, false, false
	if fd := kf["RefundGas"]; fd != nil && fd.Body != nil && fd.Type.Params != nil {
		var pnames []string
		for _, f := range fd.Type.Params.List {
			for _, n := range f.Names {
				pnames = append(pnames, n.Name)
			}
		}
		// (ctx, msgFrom, leftoverGas, weiPerGas)
		if len(pnames) == 4 {
			from, gas, price := pnames[1], pnames[2], pnames[3]
			var amountVar string
			ast.Inspect(fd.Body, func(n ast.Node) bool {
				switch x := n.(type) {
				case *ast.AssignStmt:
					if len(x.Lhs) == 1 && len(x.Rhs) == 1 {
						if c, ok := isCallNamed(x.Rhs[0], "WeiToNative"); ok && len(c.Args) == 1 {
							if def := defOf(fd, ident(c.Args[0])); def != nil {
								if mc, ok := isCallNamed(def, "Mul"); ok && len(mc.Args) == 2 && mentionsDeep(fd, mc.Args[0], gas, 3) && mentionsDeep(fd, mc.Args[1], price, 3) && !mentionsDeep(fd, mc.Args[0], price, 3) && !mentionsDeep(fd, mc.Args[1], gas, 3) {
									refundFormula = true
									amountVar = ident(x.Lhs[0])
								}
							}
						}
					}
				case *ast.CallExpr:
					if calleeName(x) == "SendCoinsFromModuleToAccount" && len(x.Args) == 4 {
						refundFromCollector = calleeName(x.Args[1]) == "FeeCollectorName"
						refundToSender = mentions(x.Args[2], from)
						if def := defOf(fd, ident(x.Args[3])); def == nil || amountVar == "" || !mentions(def, amountVar) {
							refundFormula = false
						}
					}
				}
				return true
			})
		}
	}

	// 4. EthereumTx: leftover = msg.Gas() - resp.GasUsed (guarded), price = EffectiveGasPriceWeiPerGas(base fee), refund to msg.From()
	leftover, refundPrice, refundCallFrom := false, false, false
	if fd := kf["EthereumTx"]; fd != nil && fd.Body != nil {
		var gasVar, priceVar string
		ast.Inspect(fd.Body, func(n ast.Node) bool {
			switch x := n.(type) {
			case *ast.CallExpr:
				if calleeName(x) == "RefundGas" && len(x.Args) == 4 {
					gasVar, priceVar = ident(x.Args[2]), ident(x.Args[3])
					if c, ok := isCallNamed(x.Args[1], "From"); ok && c != nil {
						refundCallFrom = true
					}
				}
			}
			return true
		})
		if priceVar != "" {
			if def := defOf(fd, priceVar); def != nil {
				if c, ok := isCallNamed(def, "EffectiveGasPriceWeiPerGas"); ok && len(c.Args) == 1 && mentions(c.Args[0], "BaseFeeWei") {
					refundPrice = true
				}
			}
		}
		if gasVar != "" {
			ast.Inspect(fd.Body, func(n ast.Node) bool {
				ifs, ok := n.(*ast.IfStmt)
				if !ok {
					return true
				}
				be, ok := ifs.Cond.(*ast.BinaryExpr)
				if !ok || be.Op != token.GTR {
					return true
				}
				if _, ok := isCallNamed(be.X, "Gas"); !ok {
					return true
				}
				if s, ok := be.Y.(*ast.SelectorExpr); !ok || s.Sel.Name != "GasUsed" {
					return true
				}
				for _, st := range ifs.Body.List {
					if as, ok := st.(*ast.AssignStmt); ok && len(as.Lhs) == 1 && ident(as.Lhs[0]) == gasVar && len(as.Rhs) == 1 {
						if sub, ok := as.Rhs[0].(*ast.BinaryExpr); ok && sub.Op == token.SUB {
							_, a := isCallNamed(sub.X, "Gas")
							s, b := sub.Y.(*ast.SelectorExpr)
							if a && b && s.Sel.Name == "GasUsed" {
								leftover = true
							}
						}
					}
				}
				return true
			})
		}
	}

	// 5. refund cap in ApplyEvmMsg / gasToRefund
	capCalled, capQuot := false, false
	if fd := kf["ApplyEvmMsg"]; fd != nil && fd.Body != nil {
		ast.Inspect(fd.Body, func(n ast.Node) bool {
			if c, ok := isCallNamed(exprOf(n), "gasToRefund"); ok && len(c.Args) == 2 {
				if _, ok := isCallNamed(c.Args[0], "GetRefund"); ok && ident(c.Args[1]) == "gasUsed" {
					capCalled = true
				}
			}
			return true
		})
	}
	if fd := kf["gasToRefund"]; fd != nil && fd.Body != nil && fd.Type.Params != nil && len(fd.Type.Params.List) > 0 && len(fd.Type.Params.List[0].Names) > 0 {
		avail := fd.Type.Params.List[0].Names[0].Name
		quotVar := ""
		ast.Inspect(fd.Body, func(n ast.Node) bool {
			if as, ok := n.(*ast.AssignStmt); ok && len(as.Lhs) == 1 && len(as.Rhs) == 1 {
				if be, ok := as.Rhs[0].(*ast.BinaryExpr); ok && be.Op == token.QUO && calleeName(be.Y) == "RefundQuotientEIP3529" {
					quotVar = ident(as.Lhs[0])
				}
			}
			return true
		})
		// min(quotVar, avail): `if quotVar > avail { return avail }; return quotVar` (or the mirrored form)
		guarded, plain := "", ""
		for _, st := range fd.Body.List {
			switch x := st.(type) {
			case *ast.IfStmt:
				be, ok := x.Cond.(*ast.BinaryExpr)
				if !ok || len(x.Body.List) == 0 {
					continue
				}
				ret, ok := x.Body.List[len(x.Body.List)-1].(*ast.ReturnStmt)
				if !ok || len(ret.Results) != 1 {
					continue
				}
				big_, small := "", ""
				switch be.Op {
				case token.GTR, token.GEQ:
					big_, small = ident(be.X), ident(be.Y)
				case token.LSS, token.LEQ:
					big_, small = ident(be.Y), ident(be.X)
				}
				if big_ != "" && ident(ret.Results[0]) == small {
					guarded = small + "<" + big_
				}
			case *ast.ReturnStmt:
				if len(x.Results) == 1 {
					plain = ident(x.Results[0])
				}
			}
		}
		capQuot = quotVar != "" && ((guarded == avail+"<"+quotVar && plain == quotVar) || (guarded == quotVar+"<"+avail && plain == avail))
	}

	one := big.NewInt(1)
	fmt.Println("Require Import Nib.C05.Facts.")
	fmt.Println("From Coq Require Import String List ZArith. Import ListNotations. Open Scope string_scope.")
	fmt.Println("Definition evm_ante_constructors : list string := [")
	for i, c := range chain {
		sep := ";"
		if i == len(chain)-1 {
			sep = ""
		}
		fmt.Printf("  %s%s\n", CoqString(c), sep)
	}
	fmt.Println("].")
	fmt.Println("Definition current_facts : facts := {|")
	fmt.Printf("  k_wei_per_unibi := (%s)%%Z;\n", evm.NativeToWei(one).String())
	fmt.Printf("  k_base_fee_unibi := (%s)%%Z;\n", evm.BASE_FEE_MICRONIBI.String())
	fmt.Printf("  k_refund_quotient := (%d)%%Z;\n", gethparams.RefundQuotientEIP3529)
	fmt.Printf("  k_fee_is_native_of_effective_fee := %s;\n", CoqBool(feeEffective))
	fmt.Printf("  k_fee_deducted_from_signer := %s;\n", CoqBool(deductFromSigner))
	fmt.Printf("  k_refund_is_native_of_leftover_times_price := %s;\n", CoqBool(refundFormula))
	fmt.Printf("  k_refund_from_fee_collector := %s;\n", CoqBool(refundFromCollector))
	fmt.Printf("  k_refund_to_sender := %s;\n", CoqBool(refundToSender && refundCallFrom))
	fmt.Printf("  k_leftover_is_limit_minus_used := %s;\n", CoqBool(leftover))
	fmt.Printf("  k_refund_price_is_effective_price := %s;\n", CoqBool(refundPrice))
	fmt.Printf("  k_refund_cap_applied := %s |}.\n", CoqBool(capCalled && capQuot))
}

// exprOf: the node itself when it is an expression.
func exprOf(n ast.Node) ast.Expr {
	if e, ok := n.(ast.Expr); ok {
		return e
	}
	return nil
}
