package main

// Semantic normal forms for the fact extractor.  Facts must not depend on how the code is
// spelled: locals and temps are inlined when they are assigned exactly once, receiver and
// parameter names are replaced by positions, comparisons are oriented (a > b == b < a,
// !(a == b) == a != b, x.Cmp(y) < 0 == x < y, x.Sign() < 0 == x < 0), commutative operands are
// sorted, min/max are order-free, guards are collected from if statements and from switch
// cases alike, helpers of the same package are looked into one level deep, and no error
// message text is ever read.

import (
	"go/ast"
	"go/token"
	"sort"
	"strings"

	. "verifharness/genlib"
)

type tupleDef struct {
	call ast.Expr
	idx  int
}

type scope struct {
	fd     *ast.FuncDecl
	defs   map[string]ast.Expr // locals assigned exactly once, with that definition
	tuple  map[string]tupleDef // locals bound once by a multi-value assignment
	params map[string]string   // receiver / parameter / named result -> positional placeholder
	ptype  map[string]string   // parameter name -> type (textual)
	inl    int                 // helper-inlining depth used so far
}

// pkgFuncs: functions and methods of the package under analysis, by name (set by main before use);
// values returned by a helper are resolved through the helper's body.
var pkgFuncs map[string]*ast.FuncDecl

func newScope(fd *ast.FuncDecl) *scope {
	sc := &scope{fd: fd, defs: map[string]ast.Expr{}, tuple: map[string]tupleDef{}, params: map[string]string{}, ptype: map[string]string{}}
	if fd == nil || fd.Body == nil {
		return sc
	}
	if fd.Recv != nil {
		for _, f := range fd.Recv.List {
			for _, n := range f.Names {
				sc.params[n.Name] = "$recv"
			}
		}
	}
	i := 0
	if fd.Type.Params != nil {
		for _, f := range fd.Type.Params.List {
			for _, n := range f.Names {
				sc.params[n.Name] = "$p" + itoa(i)
				sc.ptype[n.Name] = Nospace(f.Type)
				i++
			}
			if len(f.Names) == 0 {
				i++
			}
		}
	}
	count := map[string]int{}
	first := map[string]ast.Expr{}
	firstTuple := map[string]tupleDef{}
	bind := func(lhs []ast.Expr, rhs []ast.Expr) {
		for k, l := range lhs {
			id, ok := l.(*ast.Ident)
			if !ok || id.Name == "_" {
				continue
			}
			count[id.Name]++
			if count[id.Name] > 1 {
				continue
			}
			if len(lhs) == len(rhs) {
				first[id.Name] = rhs[k]
			} else if len(rhs) == 1 {
				firstTuple[id.Name] = tupleDef{rhs[0], k}
			}
		}
	}
	ast.Inspect(fd.Body, func(n ast.Node) bool {
		switch x := n.(type) {
		case *ast.AssignStmt:
			if x.Tok == token.DEFINE || x.Tok == token.ASSIGN {
				bind(x.Lhs, x.Rhs)
			} else {
				for _, l := range x.Lhs { // op-assignment: a second write
					if id, ok := l.(*ast.Ident); ok {
						count[id.Name] += 2
					}
				}
			}
		case *ast.IncDecStmt:
			if id, ok := x.X.(*ast.Ident); ok {
				count[id.Name] += 2
			}
		case *ast.ValueSpec:
			var lhs []ast.Expr
			for _, n := range x.Names {
				lhs = append(lhs, n)
			}
			if len(x.Values) > 0 {
				bind(lhs, x.Values)
			} else {
				for _, n := range x.Names { // zero value: a write
					count[n.Name]++
				}
			}
		case *ast.RangeStmt:
			for _, l := range []ast.Expr{x.Key, x.Value} {
				if id, ok := l.(*ast.Ident); ok {
					count[id.Name] += 2
				}
			}
		case *ast.FuncLit:
			return false
		}
		return true
	})
	for n, c := range count {
		if _, isParam := sc.params[n]; isParam {
			continue
		}
		if c == 1 {
			if e, ok := first[n]; ok {
				sc.defs[n] = e
			} else if t, ok := firstTuple[n]; ok {
				sc.tuple[n] = t
			}
		}
	}
	return sc
}

func itoa(i int) string {
	if i == 0 {
		return "0"
	}
	s := ""
	for i > 0 {
		s = string(rune('0'+i%10)) + s
		i /= 10
	}
	return s
}

// deref strips parentheses and follows single-definition locals to their defining expression.
func (sc *scope) deref(e ast.Expr) ast.Expr {
	for d := 0; d < 8; d++ {
		switch x := e.(type) {
		case *ast.ParenExpr:
			e = x.X
			continue
		case *ast.Ident:
			if _, isParam := sc.params[x.Name]; !isParam {
				if def, ok := sc.defs[x.Name]; ok {
					e = def
					continue
				}
			}
		}
		break
	}
	return e
}

func isCmpOp(op token.Token) bool {
	switch op {
	case token.EQL, token.NEQ, token.LSS, token.LEQ, token.GTR, token.GEQ:
		return true
	}
	return false
}

func negate(op token.Token) token.Token {
	switch op {
	case token.EQL:
		return token.NEQ
	case token.NEQ:
		return token.EQL
	case token.LSS:
		return token.GEQ
	case token.GEQ:
		return token.LSS
	case token.GTR:
		return token.LEQ
	case token.LEQ:
		return token.GTR
	}
	return op
}

func mirror(op token.Token) token.Token {
	switch op {
	case token.LSS:
		return token.GTR
	case token.GTR:
		return token.LSS
	case token.LEQ:
		return token.GEQ
	case token.GEQ:
		return token.LEQ
	}
	return op
}

// methodCall: e (after deref) is `<recv>.<name>(args…)`.
func (sc *scope) methodCall(e ast.Expr, name string) (*ast.CallExpr, ast.Expr, bool) {
	c, ok := sc.deref(e).(*ast.CallExpr)
	if !ok {
		return nil, nil, false
	}
	s, ok := c.Fun.(*ast.SelectorExpr)
	if !ok || s.Sel.Name != name {
		return nil, nil, false
	}
	return c, s.X, true
}

// cmp is an oriented comparison: lhs OP rhs with OP in {==, !=, <, <=}.
type cmp struct {
	lhs, rhs string
	op       token.Token
	ok       bool
}

// comparison normalises a boolean expression that is a comparison.
func (sc *scope) comparison(e ast.Expr) cmp {
	e = sc.deref(e)
	neg := false
	for {
		if u, ok := e.(*ast.UnaryExpr); ok && u.Op == token.NOT {
			neg = !neg
			e = sc.deref(u.X)
			continue
		}
		break
	}
	be, ok := e.(*ast.BinaryExpr)
	if !ok || !isCmpOp(be.Op) {
		return cmp{}
	}
	op := be.Op
	if neg {
		op = negate(op)
	}
	var l, r string
	lx, rx := sc.deref(be.X), sc.deref(be.Y)
	isZero := func(x ast.Expr) bool { return sc.canon(x) == "0" }
	switch {
	case isZero(rx) && sc.isCall(lx, "Cmp", 1): // a.Cmp(b) OP 0  ==  a OP b
		c, recv, _ := sc.methodCall(lx, "Cmp")
		l, r = sc.canon(recv), sc.canon(c.Args[0])
	case isZero(lx) && sc.isCall(rx, "Cmp", 1): // 0 OP a.Cmp(b)  ==  b OP a
		c, recv, _ := sc.methodCall(rx, "Cmp")
		l, r = sc.canon(c.Args[0]), sc.canon(recv)
	case sc.isCall(lx, "Sign", 0) && isSignLit(sc.canon(rx)):
		_, recv, _ := sc.methodCall(lx, "Sign")
		l, r, op = signForm(sc.canon(recv), op, sc.canon(rx))
	case sc.isCall(rx, "Sign", 0) && isSignLit(sc.canon(lx)):
		_, recv, _ := sc.methodCall(rx, "Sign")
		l, r, op = signForm(sc.canon(recv), mirror(op), sc.canon(lx))
	default:
		l, r = sc.canon(lx), sc.canon(rx)
	}
	switch op {
	case token.GTR, token.GEQ:
		l, r, op = r, l, mirror(op)
	case token.EQL, token.NEQ:
		if l > r {
			l, r = r, l
		}
	}
	return cmp{l, r, op, true}
}

func isSignLit(s string) bool { return s == "0" || s == "1" || s == "-1" }

// signForm: x.Sign() OP k for k in {-1,0,1} as a comparison of x with 0.
func signForm(x string, op token.Token, k string) (string, string, token.Token) {
	switch k {
	case "0":
		return x, "0", op
	case "-1":
		if op == token.EQL || op == token.LEQ {
			return x, "0", token.LSS
		}
		if op == token.NEQ || op == token.GTR {
			return x, "0", token.GEQ
		}
	case "1":
		if op == token.EQL || op == token.GEQ {
			return x, "0", token.GTR
		}
		if op == token.NEQ || op == token.LSS {
			return x, "0", token.LEQ
		}
	}
	return x + ".Sign()", k, op
}

func (sc *scope) isCall(e ast.Expr, name string, nargs int) bool {
	c, _, ok := sc.methodCall(e, name)
	return ok && len(c.Args) == nargs
}

func (c cmp) String() string {
	if !c.ok {
		return "?"
	}
	return "(" + c.lhs + c.op.String() + c.rhs + ")"
}

// canon: canonical text of an expression.
func (sc *scope) canon(e ast.Expr) string { return sc.canonD(e, 8) }

func (sc *scope) canonD(e ast.Expr, depth int) string {
	if e == nil {
		return ""
	}
	switch x := e.(type) {
	case *ast.ParenExpr:
		return sc.canonD(x.X, depth)
	case *ast.Ident:
		if p, ok := sc.params[x.Name]; ok {
			return p
		}
		if def, ok := sc.defs[x.Name]; ok && depth > 0 {
			return sc.canonD(def, depth-1)
		}
		if t, ok := sc.tuple[x.Name]; ok && depth > 0 {
			return sc.canonD(t.call, depth-1) + "#" + itoa(t.idx)
		}
		return x.Name
	case *ast.BasicLit:
		return x.Value
	case *ast.SelectorExpr:
		return sc.canonD(x.X, depth) + "." + x.Sel.Name
	case *ast.StarExpr:
		return "*" + sc.canonD(x.X, depth)
	case *ast.CallExpr:
		if v, ok := sc.inlineHelper(x, depth); ok {
			return v
		}
		fun := sc.canonD(x.Fun, depth)
		var args []string
		for _, a := range x.Args {
			args = append(args, sc.canonD(a, depth))
		}
		if (fun == "big.NewInt" || fun == "uint64" || fun == "int64" || fun == "uint" || fun == "int") && len(args) == 1 && isIntText(args[0]) {
			return args[0]
		}
		if fun == "min" || fun == "max" {
			sort.Strings(args)
		}
		return fun + "(" + strings.Join(args, ",") + ")"
	case *ast.UnaryExpr:
		if x.Op == token.NOT {
			if c := sc.comparison(x); c.ok {
				return c.String()
			}
		}
		if x.Op == token.SUB {
			return "-" + sc.canonD(x.X, depth)
		}
		return x.Op.String() + sc.canonD(x.X, depth)
	case *ast.BinaryExpr:
		if isCmpOp(x.Op) {
			if c := sc.comparison(x); c.ok {
				return c.String()
			}
		}
		l, r := sc.canonD(x.X, depth), sc.canonD(x.Y, depth)
		switch x.Op {
		case token.ADD, token.MUL, token.LAND, token.LOR, token.AND, token.OR:
			if l > r {
				l, r = r, l
			}
		}
		return "(" + l + x.Op.String() + r + ")"
	case *ast.CompositeLit:
		var el []string
		for _, a := range x.Elts {
			el = append(el, sc.canonD(a, depth))
		}
		return sc.canonD(x.Type, depth) + "{" + strings.Join(el, ",") + "}"
	case *ast.KeyValueExpr:
		return sc.canonD(x.Key, depth) + ":" + sc.canonD(x.Value, depth)
	case *ast.IndexExpr:
		return sc.canonD(x.X, depth) + "[" + sc.canonD(x.Index, depth) + "]"
	case *ast.TypeAssertExpr:
		return sc.canonD(x.X, depth) + ".(" + sc.canonD(x.Type, depth) + ")"
	case *ast.FuncLit:
		return "func{}"
	}
	return Nospace(e)
}

func isIntText(s string) bool {
	if s == "" {
		return false
	}
	for i, c := range s {
		if c == '-' && i == 0 {
			continue
		}
		if c < '0' || c > '9' {
			return false
		}
	}
	return true
}

// guard: a condition under which a block runs — from an if statement or a switch case.
type guard struct {
	cond ast.Expr // nil for a tagged switch case (see tag / val)
	tag  ast.Expr
	val  ast.Expr
	body []ast.Stmt
	pos  token.Pos
}

func (sc *scope) guardCmp(g guard) cmp {
	if g.cond != nil {
		return sc.comparison(g.cond)
	}
	return sc.comparison(&ast.BinaryExpr{X: g.tag, Op: token.EQL, Y: g.val})
}

func guardsOf(body ast.Node) []guard {
	var out []guard
	ast.Inspect(body, func(n ast.Node) bool {
		switch x := n.(type) {
		case *ast.IfStmt:
			out = append(out, guard{cond: x.Cond, body: x.Body.List, pos: x.Pos()})
		case *ast.SwitchStmt:
			for _, st := range x.Body.List {
				cc, ok := st.(*ast.CaseClause)
				if !ok {
					continue
				}
				for _, e := range cc.List {
					if x.Tag == nil {
						out = append(out, guard{cond: e, body: cc.Body, pos: cc.Pos()})
					} else {
						out = append(out, guard{tag: x.Tag, val: e, body: cc.Body, pos: cc.Pos()})
					}
				}
			}
		case *ast.FuncLit:
			return false
		}
		return true
	})
	return out
}

// returnsError: the statements return with a last result that is not the literal nil.
func returnsError(stmts []ast.Stmt) bool {
	found := false
	for _, st := range stmts {
		ast.Inspect(st, func(n ast.Node) bool {
			if r, ok := n.(*ast.ReturnStmt); ok && len(r.Results) > 0 {
				if id, ok := r.Results[len(r.Results)-1].(*ast.Ident); !ok || id.Name != "nil" {
					found = true
				}
			}
			_, isLit := n.(*ast.FuncLit)
			return !isLit
		})
	}
	return found
}

func calleeName(e ast.Expr) string {
	switch x := e.(type) {
	case *ast.CallExpr:
		return calleeName(x.Fun)
	case *ast.CompositeLit:
		return calleeName(x.Type)
	case *ast.SelectorExpr:
		return x.Sel.Name
	case *ast.Ident:
		return x.Name
	case *ast.UnaryExpr:
		return calleeName(x.X)
	case *ast.StarExpr:
		return calleeName(x.X)
	case *ast.ParenExpr:
		return calleeName(x.X)
	}
	return "?"
}

// site: a call expression together with the scope of the function it occurs in.
type site struct {
	call *ast.CallExpr
	sc   *scope
}

// callsNamed lists the calls of `name` in fd and, one level deep, in the helpers of the same
// package that fd calls.
func callsNamed(fd *ast.FuncDecl, pkg map[string]*ast.FuncDecl, name string) []site {
	var out []site
	seen := map[*ast.FuncDecl]bool{}
	var walk func(f *ast.FuncDecl, depth int)
	walk = func(f *ast.FuncDecl, depth int) {
		if f == nil || f.Body == nil || seen[f] {
			return
		}
		seen[f] = true
		sc := newScope(f)
		ast.Inspect(f.Body, func(n ast.Node) bool {
			c, ok := n.(*ast.CallExpr)
			if !ok {
				return true
			}
			nm := calleeName(c)
			if nm == name {
				out = append(out, site{c, sc})
			}
			if depth > 0 && nm != "AnteHandle" {
				if h, ok := pkg[nm]; ok && h != f {
					walk(h, depth-1)
				}
			}
			return true
		})
	}
	walk(fd, 3)
	return out
}

func methodOf(files []File, recvType, name string) *ast.FuncDecl {
	for _, fl := range files {
		for _, dd := range fl.F.Decls {
			fd, ok := dd.(*ast.FuncDecl)
			if !ok || fd.Body == nil || fd.Recv == nil || fd.Name.Name != name || len(fd.Recv.List) == 0 {
				continue
			}
			if calleeName(fd.Recv.List[0].Type) == recvType {
				return fd
			}
		}
	}
	return nil
}

// returnsMin: the function returns min(a, b) — as the builtin, or as `if a > b { return b }; return a`
// in any of its spellings.  Returns the canonical operands (sorted).
func returnsMin(fd *ast.FuncDecl) (string, string, bool) {
	if fd == nil || fd.Body == nil {
		return "", "", false
	}
	sc := newScope(fd)
	stmts := fd.Body.List
	// trailing `return min(a,b)`
	for _, st := range stmts {
		if r, ok := st.(*ast.ReturnStmt); ok && len(r.Results) == 1 {
			if c, ok := sc.deref(r.Results[0]).(*ast.CallExpr); ok && calleeName(c) == "min" && len(c.Args) == 2 {
				a, b := sc.canon(c.Args[0]), sc.canon(c.Args[1])
				if a > b {
					a, b = b, a
				}
				return a, b, true
			}
		}
	}
	// `if small < big { return small }; return big` or `if small < big { return small } else { return big }`
	var plain string
	hasPlain := false
	for _, st := range stmts {
		if r, ok := st.(*ast.ReturnStmt); ok && len(r.Results) == 1 {
			plain, hasPlain = sc.canon(r.Results[0]), true
		}
	}
	for _, st := range stmts {
		ifs, ok := st.(*ast.IfStmt)
		if !ok {
			continue
		}
		c := sc.comparison(ifs.Cond)
		if !c.ok || (c.op != token.LSS && c.op != token.LEQ) || len(ifs.Body.List) == 0 {
			continue
		}
		ret, ok := ifs.Body.List[len(ifs.Body.List)-1].(*ast.ReturnStmt)
		if !ok || len(ret.Results) != 1 {
			continue
		}
		inIf := sc.canon(ret.Results[0])
		other := plain
		if eb, ok := ifs.Else.(*ast.BlockStmt); ok && len(eb.List) > 0 {
			if r2, ok := eb.List[len(eb.List)-1].(*ast.ReturnStmt); ok && len(r2.Results) == 1 {
				other, hasPlain = sc.canon(r2.Results[0]), true
			}
		}
		if !hasPlain {
			continue
		}
		// cond: lhs < rhs.  returns lhs when lhs is smaller, rhs otherwise  => min
		if inIf == c.lhs && other == c.rhs {
			a, b := c.lhs, c.rhs
			if a > b {
				a, b = b, a
			}
			return a, b, true
		}
	}
	return "", "", false
}

// plusOne: canonical text of x + 1 (operands of + are sorted).
func plusOne(x string) string {
	if x > "1" {
		return "(1+" + x + ")"
	}
	return "(" + x + "+1)"
}

// minusOne: the x of a canonical x + 1.
func minusOne(s string) (string, bool) {
	if strings.HasPrefix(s, "(1+") && strings.HasSuffix(s, ")") {
		return s[3 : len(s)-1], true
	}
	if strings.HasPrefix(s, "(") && strings.HasSuffix(s, "+1)") {
		return s[1 : len(s)-3], true
	}
	return "", false
}

// inlineHelper: the call is to a function of the package that computes its single result with one return
// statement: its canonical value is that of the returned expression with the arguments substituted.
func (sc *scope) inlineHelper(c *ast.CallExpr, depth int) (string, bool) {
	if pkgFuncs == nil || depth <= 0 || sc.inl >= 3 {
		return "", false
	}
	var name string
	var recv ast.Expr
	switch f := c.Fun.(type) {
	case *ast.Ident:
		name = f.Name
	case *ast.SelectorExpr:
		name, recv = f.Sel.Name, f.X
	default:
		return "", false
	}
	h, ok := pkgFuncs[name]
	if !ok || h.Body == nil || h == sc.fd || name == "AnteHandle" {
		return "", false
	}
	if (h.Recv == nil) != (recv == nil) {
		if h.Recv != nil { // a method called without receiver cannot be this one
			return "", false
		}
		if _, isPkg := recv.(*ast.Ident); !isPkg { // pkg.Func(...) of another package with the same name
			return "", false
		}
		return "", false
	}
	if h.Type.Results == nil || h.Type.Results.NumFields() != 1 {
		return "", false
	}
	var ret *ast.ReturnStmt
	n := 0
	ast.Inspect(h.Body, func(x ast.Node) bool {
		if r, ok := x.(*ast.ReturnStmt); ok {
			n++
			ret = r
		}
		_, lit := x.(*ast.FuncLit)
		return !lit
	})
	if n != 1 || len(ret.Results) != 1 {
		return "", false
	}
	hs := newScope(h)
	hs.inl = sc.inl + 1
	i := 0
	if h.Type.Params != nil {
		for _, f := range h.Type.Params.List {
			for _, pn := range f.Names {
				if i < len(c.Args) {
					hs.params[pn.Name] = sc.canonD(c.Args[i], depth-1)
				}
				i++
			}
		}
	}
	if h.Recv != nil && recv != nil {
		for _, f := range h.Recv.List {
			for _, rn := range f.Names {
				hs.params[rn.Name] = sc.canonD(recv, depth-1)
			}
		}
	}
	return hs.canonD(ret.Results[0], depth-1), true
}

// reach: fd and the functions of the package it calls, transitively up to `depth` levels.
func reach(fd *ast.FuncDecl, pkg map[string]*ast.FuncDecl, depth int) []*ast.FuncDecl {
	var out []*ast.FuncDecl
	seen := map[*ast.FuncDecl]bool{}
	var walk func(f *ast.FuncDecl, d int)
	walk = func(f *ast.FuncDecl, d int) {
		if f == nil || f.Body == nil || seen[f] {
			return
		}
		seen[f] = true
		out = append(out, f)
		if d == 0 {
			return
		}
		ast.Inspect(f.Body, func(n ast.Node) bool {
			if c, ok := n.(*ast.CallExpr); ok {
				nm := calleeName(c)
				if h, ok := pkg[nm]; ok && nm != "AnteHandle" {
					walk(h, d-1)
				}
			}
			return true
		})
	}
	walk(fd, depth)
	return out
}

// sliceElems: the elements of a slice-valued expression built from a composite literal and appends,
// following the (straight-line, top-level) assignments to a local of fd.
func sliceElems(fd *ast.FuncDecl, e ast.Expr, ellipsis bool) []ast.Expr {
	switch x := e.(type) {
	case *ast.ParenExpr:
		return sliceElems(fd, x.X, ellipsis)
	case *ast.CompositeLit:
		return x.Elts
	case *ast.CallExpr:
		if calleeName(x) == "append" && len(x.Args) >= 1 {
			out := sliceElems(fd, x.Args[0], true)
			rest := x.Args[1:]
			if x.Ellipsis.IsValid() && len(rest) == 1 {
				return append(out, sliceElems(fd, rest[0], true)...)
			}
			return append(out, rest...)
		}
	case *ast.Ident:
		var cur []ast.Expr
		found := false
		for _, st := range fd.Body.List {
			switch s := st.(type) {
			case *ast.AssignStmt:
				for i, l := range s.Lhs {
					if id, ok := l.(*ast.Ident); ok && id.Name == x.Name && i < len(s.Rhs) {
						if c, ok := s.Rhs[i].(*ast.CallExpr); ok && calleeName(c) == "append" && len(c.Args) >= 1 {
							if a0, ok := c.Args[0].(*ast.Ident); ok && a0.Name == x.Name {
								rest := c.Args[1:]
								if c.Ellipsis.IsValid() && len(rest) == 1 {
									cur = append(cur, sliceElems(fd, rest[0], true)...)
								} else {
									cur = append(cur, rest...)
								}
								found = true
								continue
							}
						}
						cur = sliceElems(fd, s.Rhs[i], true)
						found = true
					}
				}
			case *ast.DeclStmt:
				if gd, ok := s.Decl.(*ast.GenDecl); ok {
					for _, sp := range gd.Specs {
						if vs, ok := sp.(*ast.ValueSpec); ok {
							for i, n := range vs.Names {
								if n.Name == x.Name && i < len(vs.Values) {
									cur = sliceElems(fd, vs.Values[i], true)
									found = true
								}
							}
						}
					}
				}
			}
		}
		if found {
			return cur
		}
	}
	if ellipsis {
		return nil
	}
	return []ast.Expr{e}
}

// chainDecorators: the decorators handed to sdk.ChainAnteDecorators in fd, in order — given directly, as a
// slice spread with `...`, or built with append.
func chainDecorators(fd *ast.FuncDecl) []ast.Expr {
	var out []ast.Expr
	if fd == nil || fd.Body == nil {
		return nil
	}
	ast.Inspect(fd.Body, func(n ast.Node) bool {
		call, ok := n.(*ast.CallExpr)
		if !ok || calleeName(call) != "ChainAnteDecorators" {
			return true
		}
		if call.Ellipsis.IsValid() && len(call.Args) == 1 {
			out = sliceElems(fd, call.Args[0], true)
		} else {
			out = call.Args
		}
		return false
	})
	return out
}
