// Command gen/c19 prints coq/Gen/C19Facts.v from the /repo working tree (terms, never verdicts).
package main

import (
	"fmt"
	"go/ast"
	"go/token"
	"regexp"
	"strconv"
	"strings"

	. "verifharness/genlib"
)

func main() {
	repo := Repo()
	Header(repo)
	genC19(repo)
	genC19Wiring(repo)
}

// ---------------------------------------------------------------------------------------------
// Block wiring: the BeginBlockers / EndBlockers lists of the runtime module config in app/ (the
// composite literal with the keys BeginBlockers / EndBlockers), every element resolved to the module's
// name: a string literal is taken as it is; `pkg.Const` is resolved through the file's imports — packages
// of the repository are parsed for the constant, well-known external packages come from the table below,
// anything else is printed as "?<import path>.<const>" (Sites.classify then treats it as message-executing).

var externalModuleNames = map[string]string{
	"github.com/CosmWasm/wasmd/x/wasm/types":                                       "wasm",
	"github.com/cosmos/cosmos-sdk/x/auth/types":                                    "auth",
	"github.com/cosmos/cosmos-sdk/x/auth/vesting/types":                            "vesting",
	"github.com/cosmos/cosmos-sdk/x/authz":                                         "authz",
	"github.com/cosmos/cosmos-sdk/x/bank/types":                                    "bank",
	"github.com/cosmos/cosmos-sdk/x/capability/types":                              "capability",
	"github.com/cosmos/cosmos-sdk/x/consensus/types":                               "consensus",
	"github.com/cosmos/cosmos-sdk/x/crisis/types":                                  "crisis",
	"github.com/cosmos/cosmos-sdk/x/distribution/types":                            "distribution",
	"github.com/cosmos/cosmos-sdk/x/evidence/types":                                "evidence",
	"github.com/cosmos/cosmos-sdk/x/feegrant":                                      "feegrant",
	"github.com/cosmos/cosmos-sdk/x/genutil/types":                                 "genutil",
	"github.com/cosmos/cosmos-sdk/x/gov/types":                                     "gov",
	"github.com/cosmos/cosmos-sdk/x/group":                                         "group",
	"github.com/cosmos/cosmos-sdk/x/mint/types":                                    "mint",
	"github.com/cosmos/cosmos-sdk/x/nft":                                           "nft",
	"github.com/cosmos/cosmos-sdk/x/params/types":                                  "params",
	"github.com/cosmos/cosmos-sdk/x/slashing/types":                                "slashing",
	"github.com/cosmos/cosmos-sdk/x/staking/types":                                 "staking",
	"github.com/cosmos/cosmos-sdk/x/upgrade/types":                                 "upgrade",
	"github.com/cosmos/ibc-go/modules/light-clients/08-wasm/types":                 "08-wasm",
	"github.com/cosmos/ibc-go/v7/modules/apps/27-interchain-accounts/types":        "interchainaccounts",
	"github.com/cosmos/ibc-go/v7/modules/apps/29-fee/types":                        "feeibc",
	"github.com/cosmos/ibc-go/v7/modules/apps/transfer/types":                      "transfer",
	"github.com/cosmos/ibc-go/v7/modules/core/exported":                            "ibc",
}

const repoModule = "github.com/NibiruChain/nibiru/v2/"

func genC19Wiring(repo string) {
	appFiles := ParseDir(repo + "/app")
	// package-level `name = []string{…}` variables of package app, with the file they live in
	type pkgVar struct {
		file File
		val  ast.Expr
	}
	vars := map[string]pkgVar{}
	for _, fl := range appFiles {
		for _, d := range fl.F.Decls {
			gd, ok := d.(*ast.GenDecl)
			if !ok || gd.Tok != token.VAR {
				continue
			}
			for _, sp := range gd.Specs {
				vs := sp.(*ast.ValueSpec)
				for i, n := range vs.Names {
					if i < len(vs.Values) {
						vars[n.Name] = pkgVar{fl, vs.Values[i]}
					}
				}
			}
		}
	}
	constCache := map[string]map[string]string{}
	repoConst := func(path, name string) (string, bool) {
		if _, ok := constCache[path]; !ok {
			m := map[string]string{}
			for _, fl := range ParseDir(repo + "/" + strings.TrimPrefix(path, repoModule)) {
				for _, d := range fl.F.Decls {
					gd, ok := d.(*ast.GenDecl)
					if !ok || gd.Tok != token.CONST {
						continue
					}
					for _, sp := range gd.Specs {
						vs := sp.(*ast.ValueSpec)
						for i, n := range vs.Names {
							if i < len(vs.Values) {
								if bl, ok := vs.Values[i].(*ast.BasicLit); ok && bl.Kind == token.STRING {
									if v, err := strconv.Unquote(bl.Value); err == nil {
										m[n.Name] = v
									}
								}
							}
						}
					}
				}
			}
			constCache[path] = m
		}
		v, ok := constCache[path][name]
		return v, ok
	}
	imports := func(fl File) map[string]string {
		m := map[string]string{}
		for _, im := range fl.F.Imports {
			path, _ := strconv.Unquote(im.Path.Value)
			name := path[strings.LastIndex(path, "/")+1:]
			if im.Name != nil {
				name = im.Name.Name
			}
			m[name] = path
		}
		return m
	}
	var resolveList func(fl File, e ast.Expr, depth int) []string
	var resolveElems func(fl File, elts []ast.Expr, depth int) []string
	resolveList = func(fl File, e ast.Expr, depth int) []string {
		switch x := e.(type) {
		case *ast.Ident:
			if v, ok := vars[x.Name]; ok && depth < 4 {
				return resolveList(v.file, v.val, depth+1)
			}
		case *ast.CompositeLit:
			return resolveElems(fl, x.Elts, depth)
		}
		return []string{"?" + Nospace(e)}
	}
	resolveElems = func(fl File, elts []ast.Expr, depth int) []string {
		{
			imps := imports(fl)
			var out []string
			for _, el := range elts {
				switch y := el.(type) {
				case *ast.BasicLit:
					if v, err := strconv.Unquote(y.Value); err == nil && y.Kind == token.STRING {
						out = append(out, v)
						continue
					}
				case *ast.SelectorExpr:
					if id, ok := y.X.(*ast.Ident); ok {
						path := imps[id.Name]
						if strings.HasPrefix(path, repoModule) {
							if v, ok := repoConst(path, y.Sel.Name); ok {
								out = append(out, v)
								continue
							}
						} else if v, ok := externalModuleNames[path]; ok && y.Sel.Name == "ModuleName" {
							out = append(out, v)
							continue
						}
						out = append(out, "?"+path+"."+y.Sel.Name)
						continue
					}
				}
				out = append(out, "?"+Nospace(el))
			}
			return out
		}
	}
	begin, end := []string{"?not-found"}, []string{"?not-found"}
	for _, fl := range appFiles {
		ast.Inspect(fl.F, func(n ast.Node) bool {
			cl, ok := n.(*ast.CompositeLit)
			if !ok {
				return true
			}
			for _, el := range cl.Elts {
				kv, ok := el.(*ast.KeyValueExpr)
				if !ok {
					continue
				}
				if id, ok := kv.Key.(*ast.Ident); ok {
					switch id.Name {
					case "BeginBlockers":
						begin = resolveList(fl, kv.Value, 0)
					case "EndBlockers":
						end = resolveList(fl, kv.Value, 0)
					}
				}
			}
			return true
		})
	}
	// an explicit ModuleManager.SetOrderEndBlockers / SetOrderBeginBlockers call in package app overrides the config
	for _, fl := range appFiles {
		ast.Inspect(fl.F, func(n ast.Node) bool {
			call, ok := n.(*ast.CallExpr)
			if !ok {
				return true
			}
			sel, ok := call.Fun.(*ast.SelectorExpr)
			if !ok || (sel.Sel.Name != "SetOrderEndBlockers" && sel.Sel.Name != "SetOrderBeginBlockers") {
				return true
			}
			var l []string
			if call.Ellipsis.IsValid() && len(call.Args) == 1 {
				l = resolveList(fl, call.Args[0], 0)
			} else {
				l = resolveElems(fl, call.Args, 0)
			}
			if sel.Sel.Name == "SetOrderEndBlockers" {
				end = l
			} else {
				begin = l
			}
			return true
		})
	}
	// x/evm's own BeginBlock must not touch the per-block transient state: empty body
	noop := false
	if fd := Funcs(ParseDir(repo + "/x/evm/keeper"))["BeginBlock"]; fd != nil && fd.Body != nil {
		noop = len(fd.Body.List) == 0
	}
	list := func(xs []string) string {
		var q []string
		for _, x := range xs {
			q = append(q, CoqString(x))
		}
		return "[" + strings.Join(q, "; ") + "]"
	}
	fmt.Println("(* block wiring: EndBlockers / BeginBlockers of the runtime module config (app/), x/evm Keeper.BeginBlock *)")
	fmt.Println("Definition current_wiring : wiring := {|")
	fmt.Printf("  end_order := %s;\n  begin_order := %s;\n  evm_beginblock_noop := %s |}.\n", list(end), list(begin), CoqBool(noop))
}

func genC19(repo string) {
	keeper := ParseDir(repo + "/x/evm/keeper")
	sdb := ParseDir(repo + "/x/evm/statedb")
	kf := Funcs(keeper)
	sf := Funcs(sdb)

	// The bloom-update function is recognised by ROLE, not by name or form: the function of package keeper whose
	// body writes both <state>.BlockBloom.Set(ctx, …) and <state>.BlockLogSize.Set(ctx, <base>+uint64(len(…))) —
	// a method of the keeper or a free function taking the EvmState; <base> must be one of its parameters, and
	// its position in the parameter list tells which argument of a call site is the base log index.
	var bloomFn *ast.FuncDecl
	bloomName, baseParam, baseIdx := "", "", -1
	reSize := regexp.MustCompile(`([A-Za-z_][A-Za-z0-9_.]*)\.BlockLogSize\.Set\(ctx,([A-Za-z_][A-Za-z0-9_]*)\+uint64\(len\(([A-Za-z_][A-Za-z0-9_.]*)\)\)\)`)
	for _, fl := range keeper {
		for _, d := range fl.F.Decls {
			fd, ok := d.(*ast.FuncDecl)
			if !ok || fd.Body == nil {
				continue
			}
			body := Nospace(fd.Body)
			m := reSize.FindStringSubmatch(body)
			if m == nil || !strings.Contains(body, m[1]+".BlockBloom.Set(ctx,") {
				continue
			}
			idx, pos := -1, 0
			for _, f := range fd.Type.Params.List {
				for _, n := range f.Names {
					if n.Name == m[2] {
						idx = pos
					}
					pos++
				}
			}
			if idx >= 0 && bloomFn == nil {
				bloomFn, bloomName, baseParam, baseIdx = fd, fd.Name.Name, m[2], idx
			}
		}
	}

	type site struct{ fn, arg, base string }
	var sites []site
	for _, fl := range keeper {
		for _, d := range fl.F.Decls {
			fd, ok := d.(*ast.FuncDecl)
			if !ok || fd.Body == nil || fd == bloomFn || bloomFn == nil {
				continue
			}
			ast.Inspect(fd.Body, func(n ast.Node) bool {
				call, ok := n.(*ast.CallExpr)
				if !ok {
					return true
				}
				callee := ""
				switch f := call.Fun.(type) {
				case *ast.SelectorExpr:
					callee = f.Sel.Name
				case *ast.Ident:
					callee = f.Name
				}
				if callee != bloomName || len(call.Args) <= baseIdx {
					return true
				}
				arg := Nospace(call.Args[baseIdx])
				base := "BaseUnknown"
				// tolerate renamings: the receiver and the local holding k.TxConfig(ctx, …) may have any name
				cfgVar := txConfigVar(fd)
				norm := strings.TrimSuffix(strings.TrimPrefix(arg, "uint64("), ")")
				if !strings.HasPrefix(arg, "uint64(") {
					norm = arg
				}
				switch {
				case cfgVar != "" && norm == cfgVar+".LogIndex":
					// the config must be k.TxConfig(ctx, …) taken before the EVM runs
					base = "BaseTxCfgLogIndex"
				case strings.HasSuffix(norm, ".EvmState.BlockLogSize.GetOr(ctx,0)"):
					base = "BaseLogSize"
				case strings.HasSuffix(norm, ".EvmState.BlockTxIndex.GetOr(ctx,0)"):
					base = "BaseTxIndex"
				case norm == "0":
					base = "BaseZero"
				}
				sites = append(sites, site{fd.Name.Name, arg, base})
				return true
			})
		}
	}
	get := func(fn string) string {
		for _, s := range sites {
			if s.fn == fn {
				return s.base
			}
		}
		return "BaseUnknown"
	}

	// StateDB.AddLog formula
	addlog := false
	if fd := sf["AddLog"]; fd != nil && fd.Body != nil {
		body := Nospace(fd.Body)
		addlog = strings.Contains(body, "log.Index=s.txConfig.LogIndex+uint(len(s.logs))") &&
			strings.Contains(body, "log.TxIndex=s.txConfig.TxIndex")
	}
	// Keeper.TxConfig reads the transient counters
	cfg := false
	if fd := kf["TxConfig"]; fd != nil && fd.Body != nil {
		body := Nospace(fd.Body)
		cfg = strings.Contains(body, "TxIndex:uint(k.EvmState.BlockTxIndex.GetOr(ctx,0))") &&
			strings.Contains(body, "LogIndex:uint(k.EvmState.BlockLogSize.GetOr(ctx,0))")
	}
	// EthereumTx increments the tx index at its end
	incr := false
	if fd := kf["EthereumTx"]; fd != nil && fd.Body != nil {
		v := txConfigVar(fd)
		incr = v != "" && strings.Contains(Nospace(fd.Body), ".EvmState.BlockTxIndex.Set(ctx,uint64("+v+".TxIndex)+1)")
	}
	// the bloom-update function sets BlockLogSize := base + len(logs) and folds the logs into BlockBloom, only when
	// the response has logs: `if len(<resp>.Logs) > 0 { <logs> := evm.LogsToEthereum(<resp>.Logs); <st>.BlockBloom.Set(ctx,
	// <st>.CalcBloomFromLogs(ctx, <logs>).Bytes()); <st>.BlockLogSize.Set(ctx, <base>+uint64(len(<logs>))) }`
	form := false
	if bloomFn != nil {
		body := Nospace(bloomFn.Body)
		m := reSize.FindStringSubmatch(body)
		st, logs := m[1], m[3]
		reGuard := regexp.MustCompile(`iflen\(([A-Za-z_][A-Za-z0-9_]*)\.Logs\)>0\{`)
		g := reGuard.FindStringSubmatch(body)
		form = g != nil && m[2] == baseParam &&
			strings.Contains(body, logs+":=evm.LogsToEthereum("+g[1]+".Logs)") &&
			strings.Contains(body, st+".BlockBloom.Set(ctx,"+st+".CalcBloomFromLogs(ctx,"+logs+").Bytes())") &&
			strings.Index(body, g[0]) < strings.Index(body, st+".BlockBloom.Set(ctx,") &&
			strings.Index(body, g[0]) < strings.Index(body, m[0])
	}

	fmt.Println("Require Import Nib.C19.Sites.")
	fmt.Println("From Coq Require Import String List. Import ListNotations. Open Scope string_scope.")
	fmt.Println("Definition current_sites : sites := {|")
	fmt.Printf("  s_eth := %s;\n  s_deploy := %s;\n  s_conv_coin := %s;\n  s_conv_erc20 := %s;\n",
		get("EthereumTx"), get("deployERC20ForBankCoin"), get("convertCoinToEvmBornCoin"), get("convertCoinToEvmBornERC20"))
	fmt.Printf("  addlog_index_from_cfg := %s;\n  cfg_reads_transient := %s;\n  txindex_incremented := %s;\n  logsize_set_formula := %s;\n  n_call_sites := %d |}.\n",
		CoqBool(addlog), CoqBool(cfg), CoqBool(incr), CoqBool(form), len(sites))
	fmt.Println("(* call sites found: function, argument expression, classification *)")
	fmt.Println("Definition call_sites : list (string * string * base) := [")
	for i, s := range sites {
		sep := ";"
		if i == len(sites)-1 {
			sep = ""
		}
		fmt.Printf("  (%s, %s, %s)%s\n", CoqString(s.fn), CoqString(s.arg), s.base, sep)
	}
	fmt.Println("].")
}

// txConfigVar: name of the local the function assigns `… := k.TxConfig(ctx, …)` to, before
// its first call of ApplyEvmMsg / CallContractWithInput and never reassigns it.
func txConfigVar(fd *ast.FuncDecl) string {
	var assignPos, execPos int = -1, -1
	nAssign := 0
	name := ""
	ast.Inspect(fd.Body, func(n ast.Node) bool {
		switch x := n.(type) {
		case *ast.AssignStmt:
			for i, l := range x.Lhs {
				if id, ok := l.(*ast.Ident); ok && i < len(x.Rhs) {
					if strings.Contains(Nospace(x.Rhs[i]), ".TxConfig(ctx,") && assignPos < 0 {
						assignPos = int(x.Pos())
						name = id.Name
						nAssign++
					} else if name != "" && id.Name == name {
						nAssign++ // reassigned later: not the value taken before execution
					}
				}
			}
		case *ast.CallExpr:
			if sel, ok := x.Fun.(*ast.SelectorExpr); ok {
				if (sel.Sel.Name == "ApplyEvmMsg" || sel.Sel.Name == "CallContractWithInput") && execPos < 0 {
					execPos = int(x.Pos())
				}
			}
		}
		return true
	})
	if nAssign == 1 && assignPos >= 0 && (execPos < 0 || assignPos < execPos) {
		return name
	}
	return ""
}
