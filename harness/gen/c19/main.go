// Command gen/c19 prints coq/Gen/C19Facts.v from the /repo working tree (terms, never verdicts).
package main

import (
	"fmt"
	"go/ast"
	"strings"

	. "verifharness/genlib"
)

func main() {
	repo := Repo()
	Header(repo)
	genC19(repo)
}

func genC19(repo string) {
	keeper := ParseDir(repo + "/x/evm/keeper")
	sdb := ParseDir(repo + "/x/evm/statedb")
	kf := Funcs(keeper)
	sf := Funcs(sdb)

	type site struct{ fn, arg, base string }
	var sites []site
	for _, fl := range keeper {
		for _, d := range fl.F.Decls {
			fd, ok := d.(*ast.FuncDecl)
			if !ok || fd.Body == nil {
				continue
			}
			ast.Inspect(fd.Body, func(n ast.Node) bool {
				call, ok := n.(*ast.CallExpr)
				if !ok {
					return true
				}
				sel, ok := call.Fun.(*ast.SelectorExpr)
				if !ok || sel.Sel.Name != "updateBlockBloom" || len(call.Args) != 3 {
					return true
				}
				arg := Nospace(call.Args[2])
				base := "BaseUnknown"
				// tolerate renamings: the receiver and the local holding k.TxConfig(ctx, …) may have any name
				cfgVar := txConfigVar(fd)
				norm := strings.TrimSuffix(strings.TrimPrefix(arg, "uint64("), ")")
				if !strings.HasPrefix(arg, "uint64(") {
					norm = arg
				}
				switch {
				case cfgVar != "" && norm == cfgVar+".LogIndex":
					// the config must be k.TxConfig(ctx, …) taken before the EVM runs
					base = "BaseTxCfgLogIndex"
				case strings.HasSuffix(norm, ".EvmState.BlockLogSize.GetOr(ctx,0)"):
					base = "BaseLogSize"
				case strings.HasSuffix(norm, ".EvmState.BlockTxIndex.GetOr(ctx,0)"):
					base = "BaseTxIndex"
				case norm == "0":
					base = "BaseZero"
				}
				sites = append(sites, site{fd.Name.Name, arg, base})
				return true
			})
		}
	}
	get := func(fn string) string {
		for _, s := range sites {
			if s.fn == fn {
				return s.base
			}
		}
		return "BaseUnknown"
	}

	// StateDB.AddLog formula
	addlog := false
	if fd := sf["AddLog"]; fd != nil && fd.Body != nil {
		body := Nospace(fd.Body)
		addlog = strings.Contains(body, "log.Index=s.txConfig.LogIndex+uint(len(s.logs))") &&
			strings.Contains(body, "log.TxIndex=s.txConfig.TxIndex")
	}
	// Keeper.TxConfig reads the transient counters
	cfg := false
	if fd := kf["TxConfig"]; fd != nil && fd.Body != nil {
		body := Nospace(fd.Body)
		cfg = strings.Contains(body, "TxIndex:uint(k.EvmState.BlockTxIndex.GetOr(ctx,0))") &&
			strings.Contains(body, "LogIndex:uint(k.EvmState.BlockLogSize.GetOr(ctx,0))")
	}
	// EthereumTx increments the tx index at its end
	incr := false
	if fd := kf["EthereumTx"]; fd != nil && fd.Body != nil {
		v := txConfigVar(fd)
		incr = v != "" && strings.Contains(Nospace(fd.Body), ".EvmState.BlockTxIndex.Set(ctx,uint64("+v+".TxIndex)+1)")
	}
	// updateBlockBloom sets BlockLogSize := logIndex + len(logs) when there are logs
	form := false
	if fd := kf["updateBlockBloom"]; fd != nil && fd.Body != nil {
		body := Nospace(fd.Body)
		form = strings.Contains(body, "iflen(evmResp.Logs)>0{") &&
			strings.Contains(body, "k.EvmState.BlockLogSize.Set(ctx,logIndex+uint64(len(logs)))") &&
			strings.Contains(body, "k.EvmState.BlockBloom.Set(ctx,k.EvmState.CalcBloomFromLogs(ctx,logs).Bytes())")
	}

	fmt.Println("Require Import Nib.C19.Sites.")
	fmt.Println("From Coq Require Import String List. Import ListNotations. Open Scope string_scope.")
	fmt.Println("Definition current_sites : sites := {|")
	fmt.Printf("  s_eth := %s;\n  s_deploy := %s;\n  s_conv_coin := %s;\n  s_conv_erc20 := %s;\n",
		get("EthereumTx"), get("deployERC20ForBankCoin"), get("convertCoinToEvmBornCoin"), get("convertCoinToEvmBornERC20"))
	fmt.Printf("  addlog_index_from_cfg := %s;\n  cfg_reads_transient := %s;\n  txindex_incremented := %s;\n  logsize_set_formula := %s;\n  n_call_sites := %d |}.\n",
		CoqBool(addlog), CoqBool(cfg), CoqBool(incr), CoqBool(form), len(sites))
	fmt.Println("(* call sites found: function, argument expression, classification *)")
	fmt.Println("Definition call_sites : list (string * string * base) := [")
	for i, s := range sites {
		sep := ";"
		if i == len(sites)-1 {
			sep = ""
		}
		fmt.Printf("  (%s, %s, %s)%s\n", CoqString(s.fn), CoqString(s.arg), s.base, sep)
	}
	fmt.Println("].")
}

// txConfigVar: name of the local the function assigns `… := k.TxConfig(ctx, …)` to, before
// its first call of ApplyEvmMsg / CallContractWithInput and never reassigns it.
func txConfigVar(fd *ast.FuncDecl) string {
	var assignPos, execPos int = -1, -1
	nAssign := 0
	name := ""
	ast.Inspect(fd.Body, func(n ast.Node) bool {
		switch x := n.(type) {
		case *ast.AssignStmt:
			for i, l := range x.Lhs {
				if id, ok := l.(*ast.Ident); ok && i < len(x.Rhs) {
					if strings.Contains(Nospace(x.Rhs[i]), ".TxConfig(ctx,") && assignPos < 0 {
						assignPos = int(x.Pos())
						name = id.Name
						nAssign++
					} else if name != "" && id.Name == name {
						nAssign++ // reassigned later: not the value taken before execution
					}
				}
			}
		case *ast.CallExpr:
			if sel, ok := x.Fun.(*ast.SelectorExpr); ok {
				if (sel.Sel.Name == "ApplyEvmMsg" || sel.Sel.Name == "CallContractWithInput") && execPos < 0 {
					execPos = int(x.Pos())
				}
			}
		}
		return true
	})
	if nAssign == 1 && assignPos >= 0 && (execPos < 0 || assignPos < execPos) {
		return name
	}
	return ""
}
