// Command gen/c07 prints coq/Gen/C07Facts.v from the /repo working tree (terms, never verdicts):
// the ordered decorator list of NewAnteHandlerEVM and syntactic facts (taken from the AST, so
// renaming variables or reformatting does not change them) about the nonce check / increment,
// the signer construction and the msg-server nonce bracket.
package main

import (
	"fmt"
	"go/ast"
	"go/token"
	"strings"

	. "verifharness/genlib"
)

var decNames = map[string]string{
	"NewEthSetUpContextDecorator":          "DSetUpContext",
	"NewMempoolGasPriceDecorator":          "DMempoolGasPrice",
	"NewEthValidateBasicDecorator":         "DValidateBasic",
	"NewEthSigVerificationDecorator":       "DSigVerify",
	"NewAnteDecVerifyEthAcc":               "DVerifyEthAcc",
	"CanTransferDecorator":                 "DCanTransfer",
	"NewAnteDecEthGasConsume":              "DGasConsume",
	"NewAnteDecEthIncrementSenderSequence": "DIncrementSeq",
	"AnteDecoratorGasWanted":               "DGasWanted",
	"NewEthEmitEventDecorator":             "DEmitEvent",
}

func calleeName(e ast.Expr) string {
	switch x := e.(type) {
	case *ast.CallExpr:
		return calleeName(x.Fun)
	case *ast.CompositeLit:
		return calleeName(x.Type)
	case *ast.SelectorExpr:
		return x.Sel.Name
	case *ast.Ident:
		return x.Name
	case *ast.UnaryExpr:
		return calleeName(x.X)
	case *ast.StarExpr:
		return calleeName(x.X)
	case *ast.ParenExpr:
		return calleeName(x.X)
	}
	return "?"
}

// isMethodCall: e is a call `<recv>.<name>(…)`.
func isMethodCall(e ast.Expr, name string) bool {
	c, ok := e.(*ast.CallExpr)
	if !ok {
		return false
	}
	s, ok := c.Fun.(*ast.SelectorExpr)
	return ok && s.Sel.Name == name
}

func identName(e ast.Expr) string {
	if id, ok := e.(*ast.Ident); ok {
		return id.Name
	}
	return ""
}

func isOne(e ast.Expr) bool {
	b, ok := e.(*ast.BasicLit)
	return ok && b.Kind == token.INT && b.Value == "1"
}

func returnsError(b *ast.BlockStmt) bool {
	for _, st := range b.List {
		if r, ok := st.(*ast.ReturnStmt); ok && len(r.Results) == 2 && identName(r.Results[1]) != "nil" {
			return true
		}
	}
	return false
}

func methodOf(files []File, recvType, name string) *ast.FuncDecl {
	for _, fl := range files {
		for _, dd := range fl.F.Decls {
			fd, ok := dd.(*ast.FuncDecl)
			if !ok || fd.Body == nil || fd.Recv == nil || fd.Name.Name != name || len(fd.Recv.List) == 0 {
				continue
			}
			if calleeName(fd.Recv.List[0].Type) == recvType {
				return fd
			}
		}
	}
	return nil
}

func main() {
	repo := Repo()
	Header(repo)
	evmante := ParseDir(repo + "/app/evmante")
	keeper := ParseDir(repo + "/x/evm/keeper")
	af := Funcs(evmante)
	kf := Funcs(keeper)

	// 1. decorator chain
	type d struct{ src, coq string }
	var chain []d
	if fd := af["NewAnteHandlerEVM"]; fd != nil && fd.Body != nil {
		ast.Inspect(fd.Body, func(n ast.Node) bool {
			call, ok := n.(*ast.CallExpr)
			if !ok {
				return true
			}
			if sel, ok := call.Fun.(*ast.SelectorExpr); ok && sel.Sel.Name == "ChainAnteDecorators" {
				for _, a := range call.Args {
					nm := calleeName(a)
					c, ok := decNames[nm]
					if !ok {
						c = "DOther"
					}
					chain = append(chain, d{nm, c})
				}
				return false
			}
			return true
		})
	}

	// 2. increment decorator
	incCheck, incReads, incPlusOne := "CmpUnknown", false, false
	if fd := methodOf(evmante, "AnteDecEthIncrementSenderSequence", "AnteHandle"); fd != nil {
		seqVar := ""
		setSeq, setAcc := token.NoPos, token.NoPos
		ast.Inspect(fd.Body, func(n ast.Node) bool {
			switch x := n.(type) {
			case *ast.IfStmt:
				if be, ok := x.Cond.(*ast.BinaryExpr); ok && returnsError(x.Body) {
					var other ast.Expr
					op := be.Op
					if isMethodCall(be.X, "GetNonce") {
						other = be.Y
					} else if isMethodCall(be.Y, "GetNonce") {
						other = be.X
						switch op { // normalise to `txNonce OP seq`
						case token.LSS:
							op = token.GTR
						case token.GTR:
							op = token.LSS
						case token.LEQ:
							op = token.GEQ
						case token.GEQ:
							op = token.LEQ
						}
					}
					if other != nil && identName(other) != "" {
						seqVar = identName(other)
						switch op {
						case token.NEQ:
							incCheck = "CmpNeqRejects"
						case token.LSS:
							incCheck = "CmpLtRejects"
						case token.GTR:
							incCheck = "CmpGtRejects"
						}
					}
				}
			}
			return true
		})
		ast.Inspect(fd.Body, func(n ast.Node) bool {
			switch x := n.(type) {
			case *ast.AssignStmt:
				if len(x.Lhs) == 1 && len(x.Rhs) == 1 && identName(x.Lhs[0]) == seqVar && seqVar != "" && isMethodCall(x.Rhs[0], "GetSequence") {
					incReads = true
				}
			case *ast.CallExpr:
				if isMethodCall(x, "SetSequence") && len(x.Args) == 1 {
					if be, ok := x.Args[0].(*ast.BinaryExpr); ok && be.Op == token.ADD && identName(be.X) == seqVar && seqVar != "" && isOne(be.Y) {
						setSeq = x.Pos()
					}
				}
				if isMethodCall(x, "SetAccount") && setSeq != token.NoPos && x.Pos() > setSeq {
					setAcc = x.Pos()
				}
			}
			return true
		})
		incPlusOne = setSeq != token.NoPos && setAcc != token.NoPos
	}

	// 3. signature decorator: which signer constructor, bound to the keeper's chain id, errors reject
	sigCtor, sigChain, sigRejects, sigSetsFrom := "", false, false, false
	if fd := methodOf(evmante, "EthSigVerificationDecorator", "AnteHandle"); fd != nil {
		usesKeeperChainID, usesTxChainID := false, false
		ast.Inspect(fd.Body, func(n ast.Node) bool {
			switch x := n.(type) {
			case *ast.CallExpr:
				nm := calleeName(x)
				switch nm {
				case "MakeSigner", "NewLondonSigner", "NewEIP155Signer", "NewEIP2930Signer", "LatestSignerForChainID", "LatestSigner", "HomesteadSigner", "FrontierSigner":
					sigCtor = nm
				case "EthChainID":
					usesKeeperChainID = true
				case "ChainId", "GetChainID":
					usesTxChainID = true
				}
			case *ast.CompositeLit:
				if nm := calleeName(x); nm == "HomesteadSigner" || nm == "FrontierSigner" {
					sigCtor = nm
				}
			case *ast.IfStmt:
				if be, ok := x.Cond.(*ast.BinaryExpr); ok && be.Op == token.NEQ && identName(be.X) == "err" && identName(be.Y) == "nil" && returnsError(x.Body) {
					sigRejects = true
				}
			case *ast.AssignStmt:
				if len(x.Lhs) == 1 && len(x.Rhs) == 1 {
					if s, ok := x.Lhs[0].(*ast.SelectorExpr); ok && s.Sel.Name == "From" && isMethodCall(x.Rhs[0], "Hex") {
						sigSetsFrom = true
					}
				}
			}
			return true
		})
		sigChain = (sigCtor == "MakeSigner" || sigCtor == "NewLondonSigner" || sigCtor == "LatestSignerForChainID") && usesKeeperChainID && !usesTxChainID
	}

	// 4. msg server: signer of the chain config; nonce bracket around Create/Call
	msgSigner := false
	if fd := kf["EthereumTx"]; fd != nil && fd.Body != nil {
		ast.Inspect(fd.Body, func(n ast.Node) bool {
			if c, ok := n.(*ast.CallExpr); ok && isMethodCall(c, "AsMessage") && len(c.Args) >= 1 {
				if sc, ok := c.Args[0].(*ast.CallExpr); ok {
					nm := calleeName(sc)
					arg := ""
					if len(sc.Args) > 0 {
						arg = Nospace(sc.Args[0])
					}
					msgSigner = (nm == "NewLondonSigner" || nm == "MakeSigner" || nm == "LatestSignerForChainID") &&
						strings.Contains(arg, "ChainConfig") && !strings.Contains(arg, "tx.") && !strings.Contains(arg, "ChainId()")
				}
			}
			return true
		})
	}
	before, after := false, false
	if fd := kf["ApplyEvmMsg"]; fd != nil && fd.Body != nil {
		var setN, setN1, firstExec, lastExec token.Pos
		ast.Inspect(fd.Body, func(n ast.Node) bool {
			c, ok := n.(*ast.CallExpr)
			if !ok {
				return true
			}
			if isMethodCall(c, "SetNonce") && len(c.Args) == 2 && isMethodCall(c.Args[0], "From") {
				if isMethodCall(c.Args[1], "Nonce") && setN == token.NoPos {
					setN = c.Pos()
				}
				if be, ok := c.Args[1].(*ast.BinaryExpr); ok && be.Op == token.ADD && isMethodCall(be.X, "Nonce") && isOne(be.Y) {
					setN1 = c.Pos()
				}
			}
			if isMethodCall(c, "Create") || isMethodCall(c, "Call") {
				if s, ok := c.Fun.(*ast.SelectorExpr); ok && identName(s.X) == "evmObj" {
					if firstExec == token.NoPos {
						firstExec = c.Pos()
					}
					lastExec = c.Pos()
				}
			}
			return true
		})
		before = setN != token.NoPos && firstExec != token.NoPos && setN < firstExec
		after = setN1 != token.NoPos && lastExec != token.NoPos && setN1 > lastExec
	}
	createAddr := false
	if fd := kf["EmitEthereumTxEvents"]; fd != nil && fd.Body != nil {
		ast.Inspect(fd.Body, func(n ast.Node) bool {
			if c, ok := n.(*ast.CallExpr); ok && calleeName(c) == "CreateAddress" && len(c.Args) == 2 &&
				isMethodCall(c.Args[0], "From") && isMethodCall(c.Args[1], "Nonce") {
				createAddr = true
			}
			return true
		})
	}

	fmt.Println("Require Import Nib.C07.Model Nib.C07.Facts.")
	fmt.Println("From Coq Require Import String List. Import ListNotations. Open Scope string_scope.")
	fmt.Println("Definition evm_ante_chain : list dec := [")
	for i, c := range chain {
		sep := ";"
		if i == len(chain)-1 {
			sep = ""
		}
		fmt.Printf("  %s%s (* %s *)\n", c.coq, sep, c.src)
	}
	fmt.Println("].")
	fmt.Printf("Definition sig_signer_constructor : string := %s.\n", CoqString(sigCtor))
	fmt.Println("Definition current_facts : facts := {|")
	fmt.Printf("  f_inc_check := %s;\n  f_inc_reads_account_sequence := %s;\n  f_inc_sets_plus_one := %s;\n", incCheck, CoqBool(incReads), CoqBool(incPlusOne))
	fmt.Printf("  f_sig_signer_of_this_chain := %s;\n  f_sig_rejects_on_error := %s;\n  f_sig_sets_from := %s;\n", CoqBool(sigChain), CoqBool(sigRejects), CoqBool(sigSetsFrom))
	fmt.Printf("  f_msg_london_signer_of_this_chain := %s;\n  f_bracket_before := %s;\n  f_bracket_after := %s;\n  f_event_create_address_from_nonce := %s |}.\n",
		CoqBool(msgSigner), CoqBool(before), CoqBool(after), CoqBool(createAddr))
}
