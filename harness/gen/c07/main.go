// Command gen/c07 prints coq/Gen/C07Facts.v from the /repo working tree (terms, never verdicts):
// the ordered decorator list of NewAnteHandlerEVM and semantic facts (see norm.go: independent
// of names, temporaries, spelling of comparisons, if/switch form, one-level helpers and message
// texts) about the nonce check / increment, the signer construction and the msg-server nonce
// bracket.
package main

import (
	"fmt"
	"go/ast"
	"go/token"
	"strings"

	. "verifharness/genlib"
)

var decNames = map[string]string{
	"NewEthSetUpContextDecorator":          "DSetUpContext",
	"NewMempoolGasPriceDecorator":          "DMempoolGasPrice",
	"NewEthValidateBasicDecorator":         "DValidateBasic",
	"NewEthSigVerificationDecorator":       "DSigVerify",
	"NewAnteDecVerifyEthAcc":               "DVerifyEthAcc",
	"CanTransferDecorator":                 "DCanTransfer",
	"NewAnteDecEthGasConsume":              "DGasConsume",
	"NewAnteDecEthIncrementSenderSequence": "DIncrementSeq",
	"AnteDecoratorGasWanted":               "DGasWanted",
	"NewEthEmitEventDecorator":             "DEmitEvent",
}

func main() {
	repo := Repo()
	Header(repo)
	evmante := ParseDir(repo + "/app/evmante")
	keeper := ParseDir(repo + "/x/evm/keeper")
	af := Funcs(evmante)
	kf := Funcs(keeper)

	// 1. decorator chain
	type d struct{ src, coq string }
	var chain []d
	for _, a := range chainDecorators(af["NewAnteHandlerEVM"]) {
		nm := calleeName(a)
		c, ok := decNames[nm]
		if !ok {
			c = "DOther"
		}
		chain = append(chain, d{nm, c})
	}

	// 2. increment decorator: a guard that rejects compares tx nonce with the account sequence;
	//    SetSequence(sequence+1) on that account, then SetAccount of it
	incCheck, incReads, incPlusOne := "CmpUnknown", false, false
	pkgFuncs = af
	for _, fd := range reach(methodOf(evmante, "AnteDecEthIncrementSenderSequence", "AnteHandle"), af, 3) {
		sc := newScope(fd)
		seqExpr, check := "", "CmpUnknown"
		for _, g := range guardsOf(fd.Body) {
			if !returnsError(g.body) {
				continue
			}
			c := sc.guardCmp(g)
			if !c.ok {
				continue
			}
			nonceL, nonceR := strings.HasSuffix(c.lhs, ".GetNonce()"), strings.HasSuffix(c.rhs, ".GetNonce()")
			seqL, seqR := strings.HasSuffix(c.lhs, ".GetSequence()"), strings.HasSuffix(c.rhs, ".GetSequence()")
			switch {
			case nonceL && seqR: // nonce OP seq
				seqExpr = c.rhs
				switch c.op {
				case token.NEQ:
					check = "CmpNeqRejects"
				case token.LSS:
					check = "CmpLtRejects"
				}
			case seqL && nonceR: // seq OP nonce
				seqExpr = c.lhs
				switch c.op {
				case token.NEQ:
					check = "CmpNeqRejects"
				case token.LSS: // seq < nonce  ==  nonce > seq
					check = "CmpGtRejects"
				}
			}
		}
		if seqExpr == "" {
			continue
		}
		incCheck = check
		// the sequence compared is the one of the account looked up by the message's sender
		incReads = strings.Contains(seqExpr, ".GetAccount(") && strings.Contains(seqExpr, ".GetFrom()")
		accExpr := strings.TrimSuffix(seqExpr, ".GetSequence()")
		var setSeq token.Pos
		ast.Inspect(fd.Body, func(n ast.Node) bool {
			c, ok := n.(*ast.CallExpr)
			if !ok {
				return true
			}
			switch calleeName(c) {
			case "SetSequence":
				if _, recv, ok := sc.methodCall(c, "SetSequence"); ok && len(c.Args) == 1 &&
					sc.canon(recv) == accExpr && sc.canon(c.Args[0]) == plusOne(seqExpr) {
					setSeq = c.Pos()
				}
			case "SetAccount":
				if setSeq != token.NoPos && c.Pos() > setSeq && len(c.Args) == 2 && sc.canon(c.Args[1]) == accExpr {
					incPlusOne = true
				}
			}
			return true
		})
	}

	// 3. signature decorator: the signer that recovers the sender is built from the keeper's chain id;
	//    a recovery error rejects; the recovered sender is stored in From
	sigCtor, sigChain, sigRejects, sigSetsFrom := "", false, false, false
	if fd := methodOf(evmante, "EthSigVerificationDecorator", "AnteHandle"); fd != nil {
		for _, s := range callsNamed(fd, af, "Sender") {
			_, recv, ok := s.sc.methodCall(s.call, "Sender")
			if !ok {
				continue
			}
			signer := s.sc.canon(recv)
			for _, nm := range []string{"MakeSigner", "NewLondonSigner", "LatestSignerForChainID", "NewEIP155Signer", "NewEIP2930Signer", "HomesteadSigner", "FrontierSigner"} {
				if strings.Contains(signer, nm) {
					sigCtor = nm
				}
			}
			sigChain = (sigCtor == "MakeSigner" || sigCtor == "NewLondonSigner" || sigCtor == "LatestSignerForChainID") &&
				strings.Contains(signer, ".EthChainID(") && !strings.Contains(signer, ".ChainId()") && !strings.Contains(signer, ".GetChainID()")
			// which locals hold the two results of this call
			senderVar, errVar := "", ""
			ast.Inspect(s.sc.fd.Body, func(n ast.Node) bool {
				if as, ok := n.(*ast.AssignStmt); ok && len(as.Rhs) == 1 && len(as.Lhs) == 2 && as.Rhs[0] == ast.Expr(s.call) {
					if a, ok := as.Lhs[0].(*ast.Ident); ok {
						senderVar = a.Name
					}
					if b, ok := as.Lhs[1].(*ast.Ident); ok {
						errVar = b.Name
					}
				}
				return true
			})
			for _, g := range guardsOf(s.sc.fd.Body) {
				if g.cond == nil || g.pos < s.call.Pos() || !returnsError(g.body) {
					continue
				}
				if be, ok := s.sc.deref(g.cond).(*ast.BinaryExpr); ok && be.Op == token.NEQ {
					x, xo := be.X.(*ast.Ident)
					y, yo := be.Y.(*ast.Ident)
					if xo && yo && ((x.Name == errVar && y.Name == "nil") || (y.Name == errVar && x.Name == "nil")) && errVar != "" {
						sigRejects = true
					}
				}
			}
			ast.Inspect(s.sc.fd.Body, func(n ast.Node) bool {
				if as, ok := n.(*ast.AssignStmt); ok && len(as.Lhs) == 1 && len(as.Rhs) == 1 {
					if sel, ok := as.Lhs[0].(*ast.SelectorExpr); ok && sel.Sel.Name == "From" {
						if _, recv, ok := s.sc.methodCall(as.Rhs[0], "Hex"); ok {
							if id, ok := recv.(*ast.Ident); ok && id.Name == senderVar && senderVar != "" {
								sigSetsFrom = true
							}
						}
					}
				}
				return true
			})
		}
	}

	// 3b. CanTransferDecorator also recovers the sender (AsMessage) and rejects on error: with a signer of this
	//     chain it refuses foreign chain ids on its own
	ctChain := false
	if fd := methodOf(evmante, "CanTransferDecorator", "AnteHandle"); fd != nil {
		for _, s := range callsNamed(fd, af, "AsMessage") {
			if len(s.call.Args) < 1 {
				continue
			}
			sg := s.sc.canon(s.call.Args[0])
			bound := (strings.Contains(sg, "MakeSigner(") || strings.Contains(sg, "NewLondonSigner(") || strings.Contains(sg, "LatestSignerForChainID(")) &&
				strings.Contains(sg, ".EthChainID(") && !strings.Contains(sg, ".ChainId()") && !strings.Contains(sg, ".GetChainID()")
			errVar := ""
			ast.Inspect(s.sc.fd.Body, func(n ast.Node) bool {
				if as, ok := n.(*ast.AssignStmt); ok && len(as.Rhs) == 1 && len(as.Lhs) == 2 && as.Rhs[0] == ast.Expr(s.call) {
					if b, ok := as.Lhs[1].(*ast.Ident); ok {
						errVar = b.Name
					}
				}
				return true
			})
			rejects := false
			for _, g := range guardsOf(s.sc.fd.Body) {
				if g.cond == nil || g.pos < s.call.Pos() || !returnsError(g.body) {
					continue
				}
				if be, ok := s.sc.deref(g.cond).(*ast.BinaryExpr); ok && be.Op == token.NEQ {
					x, xo := be.X.(*ast.Ident)
					y, yo := be.Y.(*ast.Ident)
					if xo && yo && errVar != "" && ((x.Name == errVar && y.Name == "nil") || (y.Name == errVar && x.Name == "nil")) {
						rejects = true
					}
				}
			}
			ctChain = bound && rejects
		}
	}

	// 4. msg server: signer of the chain config; nonce bracket around Create/Call
	pkgFuncs = kf
	msgSigner := false
	if fd := kf["EthereumTx"]; fd != nil && fd.Body != nil {
		for _, s := range callsNamed(fd, kf, "AsMessage") {
			if len(s.call.Args) >= 1 {
				sg := s.sc.canon(s.call.Args[0])
				msgSigner = (strings.Contains(sg, "NewLondonSigner(") || strings.Contains(sg, "MakeSigner(") || strings.Contains(sg, "LatestSignerForChainID(")) &&
					strings.Contains(sg, "ChainConfig") && !strings.Contains(sg, ".ChainId()") && !strings.Contains(sg, ".GetChainID()")
			}
		}
	}
	before, after := false, false
	preShape := "PreUnknown"
	// functions that (transitively) run the EVM: evm.Create / evm.Call on a *vm.EVM parameter
	runsEVM := map[*ast.FuncDecl]bool{}
	for iter := 0; iter < 3; iter++ {
		for _, f := range kf {
			if f.Body == nil || runsEVM[f] {
				continue
			}
			sc := newScope(f)
			ast.Inspect(f.Body, func(n ast.Node) bool {
				c, ok := n.(*ast.CallExpr)
				if !ok {
					return true
				}
				nm := calleeName(c)
				if nm == "Create" || nm == "Call" {
					if _, recv, ok := sc.methodCall(c, nm); ok {
						if id, ok := sc.deref(recv).(*ast.Ident); ok && sc.ptype[id.Name] == "*vm.EVM" {
							runsEVM[f] = true
						}
					}
				}
				if h, ok := kf[nm]; ok && runsEVM[h] && h != f {
					runsEVM[f] = true
				}
				return true
			})
		}
	}
	for _, fd := range reach(kf["ApplyEvmMsg"], kf, 3) {
		sc := newScope(fd)
		var setN, setN1, firstExec, lastExec token.Pos
		unconditional := map[token.Pos]bool{}
		for _, st := range fd.Body.List { // statements at the top level of the function run on every path
			if es, ok := st.(*ast.ExprStmt); ok {
				unconditional[es.X.Pos()] = true
			}
		}
		ast.Inspect(fd.Body, func(n ast.Node) bool {
			c, ok := n.(*ast.CallExpr)
			if !ok {
				return true
			}
			nm := calleeName(c)
			isExec := false
			if nm == "Create" || nm == "Call" {
				if _, recv, ok := sc.methodCall(c, nm); ok {
					if id, ok := sc.deref(recv).(*ast.Ident); ok && sc.ptype[id.Name] == "*vm.EVM" {
						isExec = true
					}
				}
			}
			if h, ok := kf[nm]; ok && runsEVM[h] && h != fd {
				isExec = true
			}
			if isExec {
				if firstExec == token.NoPos {
					firstExec = c.Pos()
				}
				lastExec = c.Pos()
			}
			if nm == "SetNonce" && len(c.Args) == 2 && strings.HasSuffix(sc.canon(c.Args[0]), ".From()") {
				a1 := sc.canon(c.Args[1])
				if strings.HasSuffix(a1, ".Nonce()") && setN == token.NoPos {
					setN = c.Pos()
				}
				if base, ok := minusOne(a1); ok && strings.HasSuffix(base, ".Nonce()") && unconditional[c.Pos()] {
					setN1 = c.Pos()
				}
			}
			return true
		})
		if setN != token.NoPos && firstExec != token.NoPos && setN < firstExec && unconditional[setN] {
			before = true
			preShape = "PreResetAlways"
		}
		// … or, at the top level before the EVM runs, `if <To()==nil> { SetNonce(From(), Nonce()) } else { SetNonce(From(), Nonce()+1) }`
		// (either spelling of the condition): the nonce is reset for contract creations, calls run with the final nonce
		if !before && firstExec != token.NoPos {
			for _, st := range fd.Body.List {
				ifs, ok := st.(*ast.IfStmt)
				if !ok || ifs.Pos() > firstExec || ifs.Else == nil || ifs.Init != nil {
					continue
				}
				els, ok := ifs.Else.(*ast.BlockStmt)
				if !ok {
					continue
				}
				c := sc.comparison(ifs.Cond)
				if !c.ok || !((strings.HasSuffix(c.lhs, ".To()") && c.rhs == "nil") || (strings.HasSuffix(c.rhs, ".To()") && c.lhs == "nil")) {
					continue
				}
				createBr, callBr := ifs.Body, els
				switch c.op {
				case token.EQL:
				case token.NEQ:
					createBr, callBr = els, ifs.Body
				default:
					continue
				}
				// the single SetNonce(From(), ·) of a branch, as (is Nonce(), is Nonce()+1)
				setIn := func(b *ast.BlockStmt) (n, n1 bool, count int) {
					for _, bs := range b.List {
						es, ok := bs.(*ast.ExprStmt)
						if !ok {
							continue
						}
						call, ok := es.X.(*ast.CallExpr)
						if !ok || calleeName(call) != "SetNonce" || len(call.Args) != 2 || !strings.HasSuffix(sc.canon(call.Args[0]), ".From()") {
							continue
						}
						count++
						a1 := sc.canon(call.Args[1])
						if strings.HasSuffix(a1, ".Nonce()") {
							n = true
						}
						if base, ok := minusOne(a1); ok && strings.HasSuffix(base, ".Nonce()") {
							n1 = true
						}
					}
					return
				}
				cn, _, cc := setIn(createBr)
				_, kn1, kc := setIn(callBr)
				if cn && cc == 1 && kn1 && kc == 1 {
					before = true
					preShape = "PreResetCreateSuccCall"
				}
			}
		}
		if setN1 != token.NoPos && lastExec != token.NoPos && setN1 > lastExec {
			after = true
		}
	}
	createAddr := false
	if fd := kf["EmitEthereumTxEvents"]; fd != nil && fd.Body != nil {
		for _, s := range callsNamed(fd, kf, "CreateAddress") {
			if len(s.call.Args) == 2 && strings.HasSuffix(s.sc.canon(s.call.Args[0]), ".From()") && strings.HasSuffix(s.sc.canon(s.call.Args[1]), ".Nonce()") {
				createAddr = true
			}
		}
	}

	// 5. the keeper's account loader behind statedb.Keeper.GetAccount: how the Nonce of the statedb.Account
	//    it builds is filled in
	loader := loaderShape(methodOf(keeper, "Keeper", "GetAccount"), kf)

	fmt.Println("Require Import Nib.C07.Model Nib.C07.Facts.")
	fmt.Println("From Coq Require Import String List. Import ListNotations. Open Scope string_scope.")
	fmt.Println("Definition evm_ante_chain : list dec := [")
	for i, c := range chain {
		sep := ";"
		if i == len(chain)-1 {
			sep = ""
		}
		fmt.Printf("  %s%s (* %s *)\n", c.coq, sep, c.src)
	}
	fmt.Println("].")
	fmt.Printf("Definition sig_signer_constructor : string := %s.\n", CoqString(sigCtor))
	fmt.Println("Definition current_facts : facts := {|")
	fmt.Printf("  f_loader := %s;\n", loader)
	fmt.Printf("  f_inc_check := %s;\n  f_inc_reads_account_sequence := %s;\n  f_inc_sets_plus_one := %s;\n", incCheck, CoqBool(incReads), CoqBool(incPlusOne))
	fmt.Printf("  f_sig_signer_of_this_chain := %s;\n  f_cantransfer_signer_of_this_chain := %s;\n  f_sig_rejects_on_error := %s;\n  f_sig_sets_from := %s;\n", CoqBool(sigChain), CoqBool(ctChain), CoqBool(sigRejects), CoqBool(sigSetsFrom))
	fmt.Printf("  f_msg_london_signer_of_this_chain := %s;\n  f_pre := %s;\n  f_bracket_after := %s;\n  f_event_create_address_from_nonce := %s |}.\n",
		CoqBool(msgSigner), preShape, CoqBool(after), CoqBool(createAddr))
}

// loaderShape looks at every place where Keeper.GetAccount (and the helpers it calls, 3 levels) gives the Nonce
// of a statedb.Account a value — a `Nonce:` key of a composite literal or an assignment to `<x>.Nonce` — and
// classifies the value after inlining single-assignment locals:
//
//	LoadSeqAlways   every such value is GetSequence() of the auth account looked up with GetAccount (not of the
//	                result of a type assertion), at least one exists, no literal of the type leaves the field out
//	                unless an assignment at the top level of the same function (runs on every path) fills it in
//	LoadSeqEthOnly  a value is GetSequence() of what a type assertion yields (and nothing is unknown)
//	LoadUnknown     anything else
func loaderShape(root *ast.FuncDecl, pkg map[string]*ast.FuncDecl) string {
	if root == nil {
		return "LoadUnknown"
	}
	good, narrowed, unknown := 0, 0, 0
	classify := func(sc *scope, v ast.Expr) {
		c := sc.canon(v)
		switch {
		case !strings.HasSuffix(c, ".GetSequence()"):
			unknown++
		case strings.Contains(c, ".("):
			narrowed++
		case strings.Contains(c, ".GetAccount("):
			good++
		default:
			unknown++
		}
	}
	for _, fd := range reach(root, pkg, 3) {
		sc := newScope(fd)
		top := map[ast.Stmt]bool{}
		for _, st := range fd.Body.List {
			top[st] = true
		}
		lits, litsWithNonce, topAssign, condAssign := 0, 0, 0, 0
		ast.Inspect(fd.Body, func(n ast.Node) bool {
			switch x := n.(type) {
			case *ast.CompositeLit:
				if !strings.HasSuffix(Nospace(x.Type), "statedb.Account") {
					return true
				}
				lits++
				for _, e := range x.Elts {
					if kv, ok := e.(*ast.KeyValueExpr); ok {
						if id, ok := kv.Key.(*ast.Ident); ok && id.Name == "Nonce" {
							litsWithNonce++
							classify(sc, kv.Value)
						}
					}
				}
			case *ast.AssignStmt:
				for i, l := range x.Lhs {
					sel, ok := l.(*ast.SelectorExpr)
					if !ok || sel.Sel.Name != "Nonce" || len(x.Rhs) != len(x.Lhs) {
						continue
					}
					if top[x] {
						topAssign++
					} else {
						condAssign++
					}
					classify(sc, x.Rhs[i])
				}
			}
			return true
		})
		switch {
		case condAssign > 0 && narrowed == 0: // filled in under a condition that is not the type assertion
			unknown++
		case lits > litsWithNonce && topAssign == 0 && condAssign == 0: // never filled in
			unknown++
		}
	}
	switch {
	case unknown > 0:
		return "LoadUnknown"
	case narrowed > 0:
		return "LoadSeqEthOnly"
	case good > 0:
		return "LoadSeqAlways"
	}
	return "LoadUnknown"
}
