// Command gen/c07 prints coq/Gen/C07Facts.v from the /repo working tree (terms, never verdicts):
// the ordered decorator list of NewAnteHandlerEVM and the textual normal forms of the nonce
// check / increment, the signer construction and the msg-server nonce bracket.
package main

import (
	"fmt"
	"go/ast"
	"strings"

	. "verifharness/genlib"
)

var decNames = map[string]string{
	"NewEthSetUpContextDecorator":          "DSetUpContext",
	"NewMempoolGasPriceDecorator":          "DMempoolGasPrice",
	"NewEthValidateBasicDecorator":         "DValidateBasic",
	"NewEthSigVerificationDecorator":       "DSigVerify",
	"NewAnteDecVerifyEthAcc":               "DVerifyEthAcc",
	"CanTransferDecorator":                 "DCanTransfer",
	"NewAnteDecEthGasConsume":              "DGasConsume",
	"NewAnteDecEthIncrementSenderSequence": "DIncrementSeq",
	"AnteDecoratorGasWanted":               "DGasWanted",
	"NewEthEmitEventDecorator":             "DEmitEvent",
}

func calleeName(e ast.Expr) string {
	switch x := e.(type) {
	case *ast.CallExpr:
		return calleeName(x.Fun)
	case *ast.CompositeLit:
		return calleeName(x.Type)
	case *ast.SelectorExpr:
		return x.Sel.Name
	case *ast.Ident:
		return x.Name
	case *ast.UnaryExpr:
		return calleeName(x.X)
	}
	return "?"
}

func main() {
	repo := Repo()
	Header(repo)
	evmante := ParseDir(repo + "/app/evmante")
	keeper := ParseDir(repo + "/x/evm/keeper")
	af := Funcs(evmante)
	kf := Funcs(keeper)

	// 1. decorator chain
	type d struct{ src, coq string }
	var chain []d
	if fd := af["NewAnteHandlerEVM"]; fd != nil && fd.Body != nil {
		ast.Inspect(fd.Body, func(n ast.Node) bool {
			call, ok := n.(*ast.CallExpr)
			if !ok {
				return true
			}
			if sel, ok := call.Fun.(*ast.SelectorExpr); ok && sel.Sel.Name == "ChainAnteDecorators" {
				for _, a := range call.Args {
					nm := calleeName(a)
					c, ok := decNames[nm]
					if !ok {
						c = "DOther"
					}
					chain = append(chain, d{nm, c})
				}
				return false
			}
			return true
		})
	}

	// 2. increment decorator: receiver method AnteHandle of AnteDecEthIncrementSenderSequence
	var incBody, sigBody string
	for _, fl := range evmante {
		for _, dd := range fl.F.Decls {
			fd, ok := dd.(*ast.FuncDecl)
			if !ok || fd.Body == nil || fd.Recv == nil || fd.Name.Name != "AnteHandle" || len(fd.Recv.List) == 0 {
				continue
			}
			switch calleeName(fd.Recv.List[0].Type) {
			case "AnteDecEthIncrementSenderSequence":
				incBody = Nospace(fd.Body)
			case "EthSigVerificationDecorator":
				sigBody = Nospace(fd.Body)
			}
		}
	}
	incCheck := "CmpUnknown"
	switch {
	case strings.Contains(incBody, "iftxData.GetNonce()!=nonce{return"):
		incCheck = "CmpNeqRejects"
	case strings.Contains(incBody, "iftxData.GetNonce()<nonce{return"):
		incCheck = "CmpLtRejects"
	case strings.Contains(incBody, "iftxData.GetNonce()>nonce{return"):
		incCheck = "CmpGtRejects"
	}
	incReads := strings.Contains(incBody, "acc:=issd.accountKeeper.GetAccount(ctx,msgEthTx.GetFrom())") &&
		strings.Contains(incBody, "nonce:=acc.GetSequence()")
	incPlusOne := strings.Contains(incBody, "acc.SetSequence(nonce+1)") && strings.Contains(incBody, "issd.accountKeeper.SetAccount(ctx,acc)")
	// 3. signature decorator: signer bound to this chain's id, error on recovery failure, From := sender
	sigChain := strings.Contains(sigBody, "chainID:=esvd.evmKeeper.EthChainID(ctx)") &&
		strings.Contains(sigBody, "ethCfg:=evm.EthereumConfig(chainID)") &&
		strings.Contains(sigBody, "signer:=gethcore.MakeSigner(ethCfg,blockNum)")
	sigRejects := strings.Contains(sigBody, "sender,err:=signer.Sender(ethTx)iferr!=nil{returnctx,")
	sigSetsFrom := strings.Contains(sigBody, "msgEthTx.From=sender.Hex()")
	// 4. msg server: London signer of the chain config; nonce bracket around Create/Call
	msgSigner := false
	if fd := kf["EthereumTx"]; fd != nil && fd.Body != nil {
		msgSigner = strings.Contains(Nospace(fd.Body), "tx.AsMessage(gethcore.NewLondonSigner(evmCfg.ChainConfig.ChainID),evmCfg.BaseFeeWei)")
	}
	before, after := false, false
	if fd := kf["ApplyEvmMsg"]; fd != nil && fd.Body != nil {
		body := Nospace(fd.Body)
		i := strings.Index(body, "evmObj.StateDB.SetNonce(msg.From(),msg.Nonce())")
		j := strings.Index(body, "evmObj.Create(")
		k := strings.Index(body, "evmObj.Call(")
		l := strings.Index(body, "evmObj.StateDB.SetNonce(msg.From(),msg.Nonce()+1)")
		before = i >= 0 && j > i && k > i
		after = l >= 0 && l > j && l > k && j >= 0 && k >= 0
	}
	createAddr := false
	if fd := kf["EmitEthereumTxEvents"]; fd != nil && fd.Body != nil {
		createAddr = strings.Contains(Nospace(fd.Body), "crypto.CreateAddress(msg.From(),msg.Nonce())")
	}

	fmt.Println("Require Import Nib.C07.Model Nib.C07.Facts.")
	fmt.Println("From Coq Require Import String List. Import ListNotations. Open Scope string_scope.")
	fmt.Println("Definition evm_ante_chain : list dec := [")
	for i, c := range chain {
		sep := ";"
		if i == len(chain)-1 {
			sep = ""
		}
		fmt.Printf("  %s%s (* %s *)\n", c.coq, sep, c.src)
	}
	fmt.Println("].")
	fmt.Println("Definition current_facts : facts := {|")
	fmt.Printf("  f_inc_check := %s;\n  f_inc_reads_account_sequence := %s;\n  f_inc_sets_plus_one := %s;\n", incCheck, CoqBool(incReads), CoqBool(incPlusOne))
	fmt.Printf("  f_sig_signer_of_this_chain := %s;\n  f_sig_rejects_on_error := %s;\n  f_sig_sets_from := %s;\n", CoqBool(sigChain), CoqBool(sigRejects), CoqBool(sigSetsFrom))
	fmt.Printf("  f_msg_london_signer_of_this_chain := %s;\n  f_bracket_before := %s;\n  f_bracket_after := %s;\n  f_event_create_address_from_nonce := %s |}.\n",
		CoqBool(msgSigner), CoqBool(before), CoqBool(after), CoqBool(createAddr))
}
